(* Proofs/C02_AuthParts.v - the authority states of the parser (userinfo, host, port), for every input
   (what they leave in the serialization: L1) and on canonical text (their own output: L3).
   Used by C02_Auth.v (classes (iii) and (iv) of DESIGN B.5). *)
From RU Require Import Base.Prelude Base.Utf8 Base.Utf8Facts Model.AsciiSet Gen.Tables
  Model.PercentEncoding Model.HostT Model.UrlRecord Model.Parser Model.WF
  Proofs.ListN Proofs.C14_Set Proofs.C14_Enc Proofs.C14_Views Proofs.C02_Enc Proofs.C02_Parts
  Proofs.C02_Opaque Proofs.C02_Path Proofs.C02_PathL1 Proofs.C02_Reach Proofs.C16_RT.

(* ---------- character classes of the authority ---------- *)
(* the characters that end the authority *)
Definition auth_delim (sp : bool) (c : N) : bool := (c =? 47) || (c =? 63) || (c =? 35) || ((c =? 92) && sp).
(* what the first pass of parse_userinfo walks over without effect *)
Definition plainc (sp : bool) (c : N) : bool := negb (is_tnl c) && negb (c =? 64) && negb (auth_delim sp c).
(* the remaining input after the authority: nothing, or a delimiter *)
Definition stop_ok (sp : bool) (X : list N) : Prop :=
  match X with [] => True | c :: _ => is_tnl c = false /\ auth_delim sp c = true end.

(* ================= first pass: the last '@' ================= *)
Lemma scan_plain sp s : forall X count last, forallb (plainc sp) s = true ->
  scan_last_at sp (s ++ X) count last = scan_last_at sp X (count + nlen s) last.
Proof.
  induction s as [|c s IH]; intros X count last H.
  - cbn [app]. rewrite nlen_nil, N.add_0_r. reflexivity.
  - cbn [forallb] in H. apply andb_true_iff in H. destruct H as [Hc Hs].
    unfold plainc, auth_delim in Hc. apply andb_true_iff in Hc. destruct Hc as [Hc H3].
    apply andb_true_iff in Hc. destruct Hc as [H1 H2]. apply negb_true_iff in H1, H2, H3.
    cbn [app scan_last_at]. rewrite H1, H2, H3. rewrite IH by exact Hs. rewrite nlen_cons. f_equal. lia.
Qed.

Lemma scan_stop sp X count last : stop_ok sp X -> scan_last_at sp X count last = last.
Proof.
  destruct X as [|c r]; [reflexivity|]. intros [Ht Hd]. cbn [scan_last_at]. rewrite Ht.
  unfold auth_delim in Hd. destruct (c =? 64) eqn:E64; [apply N.eqb_eq in E64; subst c; discriminate|].
  rewrite Hd. reflexivity.
Qed.

Lemma scan_at sp X count last : scan_last_at sp (64 :: X) count last = scan_last_at sp X (count + 1) (Some (count, X)).
Proof. reflexivity. Qed.

(* the remainder is a suffix of the input *)
Lemma scan_out sp l : forall count last n rem, usv_list l ->
  scan_last_at sp l count last = Some (n, rem) -> last = Some (n, rem) \/ usv_list rem.
Proof.
  induction l as [|c r IH]; intros count last n rem Hu H; [left; exact H|].
  apply usv_cons in Hu. destruct Hu as [Hc Hr]. cbn [scan_last_at] in H.
  destruct (is_tnl c); [exact (IH _ _ _ _ Hr H)|].
  destruct (c =? 64).
  { destruct (IH _ _ _ _ Hr H) as [E|E]; [|right; exact E]. inversion E; subst. right. exact Hr. }
  destruct ((c =? 47) || (c =? 63) || (c =? 35) || ((c =? 92) && sp)); [left; exact H|].
  exact (IH _ _ _ _ Hr H).
Qed.

Lemma scan_some sp l : forall count x, scan_last_at sp l count (Some x) <> None.
Proof.
  induction l as [|c r IH]; intros count x; [discriminate|]. cbn [scan_last_at].
  destruct (is_tnl c); [apply IH|]. destruct (c =? 64); [apply IH|].
  destruct ((c =? 47) || (c =? 63) || (c =? 35) || ((c =? 92) && sp)); [discriminate | apply IH].
Qed.

(* ================= second pass: userinfo text ================= *)
Inductive uinfo := UNone | UUser (u : list N) | UPw (u p : list N).
Definition ui_text (ui : uinfo) : list N :=
  match ui with UNone => [] | UUser u => u ++ [64] | UPw u p => u ++ 58 :: p ++ [64] end.
Definition ui_ulen (ui : uinfo) : N := match ui with UNone => 0 | UUser u | UPw u _ => nlen u end.
Definition ui_ok (ui : uinfo) : Prop :=
  match ui with
  | UNone => True
  | UUser u => clean T_USERINFO u = true /\ u <> []
  | UPw u p => clean T_USERINFO u = true /\ clean T_USERINFO p = true /\ p <> []
  end.

Lemma uloop_0 l ser uend pw un : userinfo_loop l 0 ser uend pw un = POk (ser, uend, pw, un).
Proof. destruct l; reflexivity. Qed.

Lemma uloop_nil n ser uend pw un : n <> 0 -> userinfo_loop [] n ser uend pw un = PPanic.
Proof. intros H. cbn [userinfo_loop]. replace (n =? 0) with false by lia. reflexivity. Qed.

Lemma uloop_tnl c r n ser uend pw un : is_tnl c = true ->
  userinfo_loop (c :: r) n ser uend pw un = userinfo_loop r n ser uend pw un.
Proof.
  intros Ht. cbn [userinfo_loop]. rewrite Ht. destruct (n =? 0) eqn:E; [|reflexivity].
  apply N.eqb_eq in E. subst n. rewrite uloop_0. reflexivity.
Qed.

Lemma uloop_cons c r n ser uend pw un : n <> 0 -> is_tnl c = false ->
  userinfo_loop (c :: r) n ser uend pw un
  = (if (c =? 58) && (match uend with None => true | Some _ => false end) then
       ue <~ to_u32 (nlen ser) ;;
       if 0 <? n - 1 then userinfo_loop r (n - 1) (ser ++ [58]) (Some ue) true un
       else userinfo_loop r (n - 1) ser (Some ue) pw un
     else userinfo_loop r (n - 1) (push_encoded T_USERINFO ser [c]) uend pw (if pw then un else true)).
Proof. intros Hn Ht. cbn [userinfo_loop]. replace (n =? 0) with false by lia. rewrite Ht. reflexivity. Qed.

Lemma kept_USERINFO_sat : kept_sat T_USERINFO (fun c => plainc true c && negb (c =? 58) && above_space c) = true.
Proof. vm_compute. reflexivity. Qed.

Lemma plainc_weaken sp c : plainc true c = true -> plainc sp c = true.
Proof.
  unfold plainc, auth_delim.
  destruct (is_tnl c), (c =? 64), (c =? 47), (c =? 63), (c =? 35), (c =? 92), sp; cbn; intros; congruence.
Qed.

Lemma clean_ui_chars u : clean T_USERINFO u = true ->
  forallb (fun c => plainc true c && negb (c =? 58) && above_space c) u = true.
Proof. apply clean_forallb. exact kept_USERINFO_sat. Qed.

Lemma clean_ui_plain sp u : clean T_USERINFO u = true -> forallb (plainc sp) u = true.
Proof.
  intros H. apply (forallb_impl (fun c => plainc true c && negb (c =? 58) && above_space c)); [|apply clean_ui_chars; exact H].
  intros c Hc. apply andb_true_iff in Hc. destruct Hc as [Hc _]. apply andb_true_iff in Hc. destruct Hc as [Hc _].
  apply plainc_weaken. exact Hc.
Qed.

Lemma push_ui_kept ser c : kept T_USERINFO c = true -> push_encoded T_USERINFO ser [c] = ser ++ [c].
Proof.
  intros Hk. assert (ascii [c]) as Ha by (constructor; [exact (kept_ascii _ _ Hk) | constructor]).
  rewrite push_encoded_eq by (apply ascii_usv; exact Ha). rewrite utf8_encode_ascii by exact Ha.
  rewrite encode_clean; [reflexivity|]. unfold clean. cbn [forallb]. rewrite Hk. reflexivity.
Qed.

(* L3: clean text is pushed unchanged *)
Lemma uloop_clean s : forall X m ser uend pw un, clean T_USERINFO s = true ->
  userinfo_loop (s ++ X) (nlen s + m) ser uend pw un
  = userinfo_loop X m (ser ++ s) uend pw (match s with [] => un | _ => if pw then un else true end).
Proof.
  induction s as [|c s IH]; intros X m ser uend pw un H.
  - cbn [app]. rewrite nlen_nil, N.add_0_l, app_nil_r. reflexivity.
  - pose proof (clean_ui_chars _ H) as Hch. cbn [forallb] in Hch. apply andb_true_iff in Hch. destruct Hch as [Hc _].
    apply andb_true_iff in Hc. destruct Hc as [Hc _]. apply andb_true_iff in Hc. destruct Hc as [Hp H58].
    unfold plainc in Hp. apply andb_true_iff in Hp. destruct Hp as [Hp _]. apply andb_true_iff in Hp. destruct Hp as [Ht _].
    apply negb_true_iff in Ht, H58.
    rewrite clean_cons in H. apply andb_true_iff in H. destruct H as [Hk Hs].
    cbn [app]. rewrite uloop_cons by (rewrite ?nlen_cons; lia || exact Ht). rewrite H58. cbn [andb].
    rewrite push_ui_kept by exact Hk.
    replace (nlen (c :: s) + m - 1) with (nlen s + m) by (rewrite nlen_cons; lia).
    rewrite IH by exact Hs. rewrite <- app_assoc. cbn [app]. f_equal.
    destruct s; [reflexivity|]. destruct pw; reflexivity.
Qed.

(* L1: what the loop leaves, for every input *)
Definition uloop_state (ser0 ser : list N) (uend : option N) (pw un : bool) (n : N) : Prop :=
  (exists U, ser = ser0 ++ U /\ clean T_USERINFO U = true /\ uend = None /\ pw = false
             /\ un = match U with [] => false | _ => true end)
  \/ (exists U P, ser = ser0 ++ U ++ 58 :: P /\ clean T_USERINFO U = true /\ clean T_USERINFO P = true
                  /\ uend = Some (nlen ser0 + nlen U) /\ pw = true
                  /\ un = match U with [] => false | _ => true end /\ (P <> [] \/ 0 < n))
  \/ (exists U, ser = ser0 ++ U /\ clean T_USERINFO U = true /\ uend = Some (nlen ser0 + nlen U) /\ pw = false
                /\ un = match U with [] => false | _ => true end /\ n = 0).

Lemma enc_ui_char c : is_usv c ->
  clean T_USERINFO (encode T_USERINFO (utf8_encode [c])) = true /\ encode T_USERINFO (utf8_encode [c]) <> [].
Proof.
  intros Hc. assert (usv_list [c]) as Hu by (constructor; [exact Hc | constructor]). split.
  - apply encode_is_clean; [exact stable_USERINFO | apply utf8_encode_bytes; exact Hu].
  - intros E. pose proof (encode_len_ge T_USERINFO (utf8_encode [c])) as Hl. rewrite E in Hl.
    unfold utf8_encode in Hl. cbn [flat_map] in Hl. rewrite app_nil_r in Hl. unfold utf8_encode1 in Hl.
    destruct (c <? 128); [cbn in Hl; lia|]. destruct (c <? 2048); [cbn in Hl; lia|].
    destruct (c <? 65536); cbn in Hl; lia.
Qed.

Lemma app_not_nil {A} (a b : list A) : b <> [] -> a ++ b <> [].
Proof. intros H E. apply app_eq_nil in E. tauto. Qed.

Lemma match_app_not_nil {A} (a b : list A) : b <> [] ->
  match a ++ b with [] => false | _ => true end = true.
Proof. intros H. destruct (a ++ b) eqn:E; [exfalso; exact (app_not_nil a b H E) | reflexivity]. Qed.

Lemma uloop_inv ser0 l : forall n ser uend pw un ser' uend' pw' un', usv_list l ->
  uloop_state ser0 ser uend pw un n ->
  userinfo_loop l n ser uend pw un = POk (ser', uend', pw', un') ->
  uloop_state ser0 ser' uend' pw' un' 0.
Proof.
  induction l as [|c r IH]; intros n ser uend pw un ser' uend' pw' un' Hu St H.
  - destruct (N.eq_dec n 0) as [->|Hn]; [|rewrite uloop_nil in H by exact Hn; discriminate].
    rewrite uloop_0 in H. inversion H; subst. exact St.
  - apply usv_cons in Hu. destruct Hu as [Hc Hr].
    destruct (is_tnl c) eqn:Et; [rewrite uloop_tnl in H by exact Et; exact (IH _ _ _ _ _ _ _ _ _ Hr St H)|].
    destruct (N.eq_dec n 0) as [->|Hn]; [rewrite uloop_0 in H; inversion H; subst; exact St|].
    rewrite uloop_cons in H by assumption.
    destruct (enc_ui_char c Hc) as [Hcl Hne].
    assert (push_encoded T_USERINFO ser [c] = ser ++ encode T_USERINFO (utf8_encode [c])) as Hpush
      by (apply push_encoded_eq; constructor; [exact Hc | constructor]).
    destruct St as [(U & -> & HU & -> & -> & ->)|[(U & P & -> & HU & HP & -> & -> & -> & Hor)|(U & _ & _ & _ & _ & _ & Hn0)]];
      [| |contradiction].
    + (* no colon yet *)
      destruct (c =? 58) eqn:E58; cbn [andb] in H.
      * destruct (to_u32 (nlen (ser0 ++ U))) as [ue| |] eqn:Eu; cbn [pbind] in H; try discriminate.
        apply to_u32_inv in Eu. destruct Eu as [-> _]. rewrite nlen_app in H.
        destruct (0 <? n - 1) eqn:En.
        -- apply (IH _ _ _ _ _ _ _ _ _ Hr) in H; [exact H|]. right. left. exists U, [].
           rewrite <- app_assoc. repeat split; try assumption; try reflexivity. right. lia.
        -- apply (IH _ _ _ _ _ _ _ _ _ Hr) in H; [exact H|]. right. right. exists U.
           repeat split; try assumption; try reflexivity. lia.
      * rewrite Hpush in H. apply (IH _ _ _ _ _ _ _ _ _ Hr) in H; [exact H|]. left.
        exists (U ++ encode T_USERINFO (utf8_encode [c])). rewrite <- app_assoc. repeat split; try reflexivity.
        -- rewrite clean_app, HU, Hcl. reflexivity.
        -- rewrite match_app_not_nil by exact Hne. reflexivity.
    + (* after the colon *)
      rewrite andb_false_r in H. rewrite Hpush in H. apply (IH _ _ _ _ _ _ _ _ _ Hr) in H; [exact H|]. right. left.
      exists U, (P ++ encode T_USERINFO (utf8_encode [c])).
      repeat split; try assumption; try reflexivity.
      * rewrite <- !app_assoc. reflexivity.
      * rewrite clean_app, HP, Hcl. reflexivity.
      * left. apply app_not_nil. exact Hne.
Qed.

Section Userinfo.
Variable st : scheme_type.
Notation sp := (st_is_special st).

(* L1 for parse_userinfo *)
Theorem parse_userinfo_out ser l ser1 ue rem : usv_list l ->
  parse_userinfo st ser l = POk (ser1, ue, rem) ->
  exists ui, ui_ok ui /\ ser1 = ser ++ ui_text ui /\ ue = nlen ser + ui_ulen ui /\ usv_list rem.
Proof.
  intros Hu. unfold parse_userinfo.
  destruct (scan_last_at sp l 0 None) as [[n remaining]|] eqn:Es.
  2:{ destruct (to_u32 (nlen ser)) as [x| |] eqn:Eu; cbn [pbind]; try discriminate.
      apply to_u32_inv in Eu. destruct Eu as [-> Hb]. intros H. inversion H; subst.
      exists UNone. cbn [ui_ok ui_text ui_ulen]. rewrite app_nil_r, N.add_0_r. repeat split; assumption. }
  destruct (scan_out sp l 0 None n remaining Hu Es) as [E|Hrem]; [discriminate|].
  destruct n as [|pn].
  - destruct (inp_next remaining) as [[c r]|]; [|discriminate].
    destruct ((c =? 47) || (c =? 63) || (c =? 35) || (sp && (c =? 92))); [discriminate|].
    destruct (to_u32 (nlen ser)) as [x| |] eqn:Eu; cbn [pbind]; try discriminate.
    apply to_u32_inv in Eu. destruct Eu as [-> Hb]. intros H. inversion H; subst.
    exists UNone. cbn [ui_ok ui_text ui_ulen]. rewrite app_nil_r, N.add_0_r. repeat split; assumption.
  - destruct (userinfo_loop l (N.pos pn) ser None false false) as [[[[s1 uend] pw] un]| |] eqn:El; cbn [pbind]; try discriminate.
    apply (uloop_inv ser l _ _ _ _ _ _ _ _ _ Hu) in El.
    2:{ left. exists []. rewrite app_nil_r. repeat split; reflexivity. }
    destruct El as [(U & -> & HU & -> & -> & ->)|[(U & P & -> & HU & HP & -> & -> & -> & Hor)|(U & -> & HU & -> & -> & -> & _)]].
    + destruct (to_u32 (nlen (ser ++ U))) as [x| |] eqn:Eu; cbn [pbind]; try discriminate.
      apply to_u32_inv in Eu. destruct Eu as [-> Hb]. rewrite nlen_app in *. intros H. inversion H; subst.
      destruct U as [|u0 U'].
      * exists UNone. cbn [ui_ok ui_text ui_ulen orb]. rewrite !app_nil_r. rewrite nlen_nil. repeat split; assumption.
      * exists (UUser (u0 :: U')). cbn [ui_ok ui_text ui_ulen orb]. rewrite <- app_assoc.
        repeat split; try assumption; try reflexivity. discriminate.
    + cbn [pbind]. intros H. inversion H; subst. rewrite orb_true_r.
      exists (UPw U P). cbn [ui_ok ui_text ui_ulen]. rewrite <- !app_assoc. cbn [app].
      assert (P <> []) as HPne by (destruct Hor as [Hor|Hor]; [exact Hor | lia]).
      repeat split; try assumption; try reflexivity.
    + cbn [pbind]. intros H. inversion H; subst.
      destruct U as [|u0 U'].
      * exists UNone. cbn [ui_ok ui_text ui_ulen orb]. rewrite !app_nil_r. rewrite nlen_nil. repeat split; assumption.
      * exists (UUser (u0 :: U')). cbn [ui_ok ui_text ui_ulen orb]. rewrite <- app_assoc.
        repeat split; try assumption; try reflexivity. discriminate.
Qed.

(* L3 for parse_userinfo: canonical userinfo text followed by text without '@' up to the next delimiter *)
Theorem parse_userinfo_canon ser ui X : ui_ok ui ->
  (forall count last, scan_last_at sp X count last = last) ->
  nlen ser + ui_ulen ui <= U32_MAX_P ->
  parse_userinfo st ser (ui_text ui ++ X) = POk (ser ++ ui_text ui, nlen ser + ui_ulen ui, X).
Proof.
  intros Hok HX Hb. unfold parse_userinfo. destruct ui as [|u|u p]; cbn [ui_ok ui_text ui_ulen] in *.
  - cbn [app]. rewrite HX. rewrite N.add_0_r in *. rewrite to_u32_ok by exact Hb. cbn [pbind]. rewrite app_nil_r. reflexivity.
  - destruct Hok as [Hu Hne]. rewrite <- app_assoc. cbn [app].
    rewrite scan_plain by (apply clean_ui_plain; exact Hu). rewrite scan_at, HX. rewrite N.add_0_l.
    destruct (nlen u) as [|pn] eqn:En; [destruct u; [contradiction | rewrite nlen_cons in En; lia]|].
    rewrite <- En. replace (nlen u) with (nlen u + 0) at 1 by lia.
    rewrite uloop_clean by exact Hu. rewrite uloop_0. cbn [pbind].
    rewrite nlen_app. rewrite to_u32_ok by lia. cbn [pbind].
    destruct u; [contradiction|]. cbn [orb]. rewrite <- app_assoc. reflexivity.
  - destruct Hok as (Hu & Hp & Hne).
    replace ((u ++ 58 :: p ++ [64]) ++ X) with ((u ++ 58 :: p) ++ 64 :: X) by (rewrite <- !app_assoc; cbn [app]; rewrite <- app_assoc; reflexivity).
    assert (forallb (plainc sp) (u ++ 58 :: p) = true) as Hpl.
    { rewrite forallb_app. cbn [forallb]. rewrite (clean_ui_plain sp u Hu), (clean_ui_plain sp p Hp).
      unfold plainc, auth_delim. destruct sp; reflexivity. }
    rewrite scan_plain by exact Hpl. rewrite scan_at, HX. rewrite N.add_0_l.
    assert (nlen (u ++ 58 :: p) = nlen u + (1 + nlen p)) as El by (rewrite nlen_app, nlen_cons; reflexivity).
    assert (0 < nlen p) as Hpp by (destruct p; [contradiction | rewrite nlen_cons; lia]).
    destruct (nlen (u ++ 58 :: p)) as [|pn] eqn:En; [lia|].
    rewrite El. rewrite <- app_assoc. rewrite uloop_clean by exact Hu.
    cbn [app]. rewrite uloop_cons by (lia || reflexivity). replace ((58 =? 58) && true) with true by reflexivity.
    rewrite nlen_app. rewrite to_u32_ok by lia. cbn [pbind].
    replace (1 + nlen p - 1) with (nlen p + 0) by lia. replace (0 <? nlen p + 0) with true by lia.
    rewrite uloop_clean by exact Hp. rewrite uloop_0. cbn [pbind]. rewrite orb_true_r.
    rewrite <- ?app_assoc. cbn [app]. rewrite <- ?app_assoc. reflexivity.
Qed.
End Userinfo.

(* ================= host text ================= *)
Ltac bool_brute :=
  repeat match goal with
         | H : _ = true |- _ => revert H
         | H : _ = false |- _ => revert H
         end;
  repeat match goal with
         | |- context [N.eqb ?a ?b] => destruct (N.eqb a b)
         | |- context [is_tnl ?a] => destruct (is_tnl a)
         end;
  cbn; intros; try congruence; try tauto.

Definition host_stop (sp inside : bool) (c : N) : bool :=
  ((c =? 58) && negb inside) || ((c =? 92) && sp) || (c =? 47) || (c =? 63) || (c =? 35).

Lemma host_scan_len sp l : forall inside acc,
  (length (fst (host_scan sp inside acc l)) + length (snd (host_scan sp inside acc l)) <= length acc + length l)%nat.
Proof.
  induction l as [|c r IH]; intros inside acc; cbn [host_scan].
  - cbn [fst snd length]. rewrite rev_length. lia.
  - destruct (is_tnl c). { specialize (IH inside acc). cbn [length]. lia. }
    fold (host_stop sp inside c). destruct (host_stop sp inside c). { cbn [fst snd length]. rewrite rev_length. lia. }
    destruct (c =? 91). { specialize (IH true (c :: acc)). cbn [length] in *. lia. }
    destruct (c =? 93). { specialize (IH false (c :: acc)). cbn [length] in *. lia. }
    specialize (IH inside (c :: acc)). cbn [length] in *. lia.
Qed.

(* a text the scan returns whole contains no ignorable character and no delimiter *)
Lemma host_scan_id sp t : forall inside acc rest,
  host_scan sp inside acc (t ++ rest) = (rev acc ++ t, rest) ->
  forallb (fun c => negb (is_tnl c) && negb (auth_delim sp c)) t = true
  /\ (inside = false -> match t with c :: _ => (c =? 58) = false | [] => True end).
Proof.
  induction t as [|c t IH]; intros inside acc rest H; [split; [reflexivity | intros _; exact I]|].
  cbn [app host_scan] in H. fold (host_stop sp inside c) in H.
  destruct (is_tnl c) eqn:Et.
  { exfalso. pose proof (host_scan_len sp (t ++ rest) inside acc) as L. rewrite H in L. cbn [fst snd] in L.
    rewrite !app_length, rev_length in L. cbn [length] in L. lia. }
  destruct (host_stop sp inside c) eqn:Es.
  { exfalso. inversion H as [[H1 H2]]. apply (f_equal (@length N)) in H1. rewrite app_length, rev_length in H1.
    cbn [length] in H1. lia. }
  assert (forall ins', host_scan sp ins' (c :: acc) (t ++ rest) = (rev acc ++ c :: t, rest) ->
                       forallb (fun c => negb (is_tnl c) && negb (auth_delim sp c)) t = true) as G.
  { intros ins' H'. apply (IH ins' (c :: acc) rest). cbn [rev]. rewrite <- app_assoc. exact H'. }
  assert (negb (auth_delim sp c) = true /\ (inside = false -> (c =? 58) = false)) as [Hd H58].
  { unfold host_stop, auth_delim in *. destruct sp, inside; bool_brute. }
  split; [|exact H58]. cbn [forallb]. rewrite Et, Hd. cbn [negb andb].
  destruct (c =? 91); [exact (G _ H)|]. destruct (c =? 93); [exact (G _ H) | exact (G _ H)].
Qed.

Lemma scan_no_at t : forall count last,
  forallb (fun c => negb (is_tnl c) && negb (auth_delim true c)) t = true ->
  scan_last_at true t count last = None -> forallb (fun c => negb (c =? 64)) t = true.
Proof.
  induction t as [|c t IH]; intros count last Hf H; [reflexivity|].
  cbn [forallb] in Hf. apply andb_true_iff in Hf. destruct Hf as [Hc Hf].
  apply andb_true_iff in Hc. destruct Hc as [Ht Hd]. apply negb_true_iff in Ht, Hd.
  cbn [scan_last_at] in H. rewrite Ht in H. cbn [forallb].
  destruct (c =? 64); [exfalso; exact (scan_some _ _ _ _ H)|].
  unfold auth_delim in Hd. rewrite Hd in H. exact (IH _ _ Hf H).
Qed.

Lemma host_text_facts t : host_text_ok t ->
  forallb (plainc true) t = true /\ match t with c :: _ => (c =? 58) = false | [] => True end.
Proof.
  intros (_ & _ & Hs & Ha). specialize (Hs true [] I).
  destruct (host_scan_id true t false [] [] Hs) as [Hf H58]. split; [|exact (H58 eq_refl)].
  rewrite app_nil_r in Hs. pose proof (scan_no_at t 0 None Hf Ha) as Hat.
  rewrite forallb_forall in *. intros c Hin. specialize (Hf c Hin). specialize (Hat c Hin).
  unfold plainc. apply andb_true_iff in Hf. destruct Hf as [F1 F2]. rewrite F1, F2, Hat. reflexivity.
Qed.

Lemma host_text_scan sp t X : host_text_ok t ->
  (forall count last, scan_last_at sp X count last = last) ->
  forall count last, scan_last_at sp (t ++ X) count last = last.
Proof.
  intros Ht HX count last. destruct (host_text_facts t Ht) as [Hf _].
  rewrite scan_plain; [apply HX|]. apply (forallb_impl (plainc true)); [apply plainc_weaken | exact Hf].
Qed.

Lemma host_text_last t ser : host_text_ok t -> ends_with_byte 47 (ser ++ t) = false.
Proof.
  intros Ht. destruct (host_text_facts t Ht) as [Hf _]. destruct Ht as (_ & Hne & _).
  unfold ends_with_byte. rewrite rev_app_distr. destruct (rev t) as [|x y] eqn:E.
  - exfalso. apply Hne. rewrite <- (rev_involutive t), E. reflexivity.
  - cbn [app]. rewrite forallb_forall in Hf. assert (In x t) as Hin by (apply in_rev; rewrite E; left; reflexivity).
    specialize (Hf x Hin). unfold plainc, auth_delim in Hf. bool_brute.
Qed.

(* what host_scan leaves, for every input *)
Lemma host_scan_out sp l : forall inside acc h rem, usv_list l ->
  host_scan sp inside acc l = (h, rem) ->
  usv_list rem /\ match rem with [] => True | c :: _ => is_tnl c = false /\ ((c =? 58) || auth_delim sp c) = true end.
Proof.
  induction l as [|c r IH]; intros inside acc h rem Hu H.
  - cbn [host_scan] in H. inversion H; subst. split; [constructor | exact I].
  - pose proof Hu as Hu0. apply usv_cons in Hu. destruct Hu as [Hc Hr]. cbn [host_scan] in H.
    fold (host_stop sp inside c) in H.
    destruct (is_tnl c) eqn:Et; [exact (IH _ _ _ _ Hr H)|].
    destruct (host_stop sp inside c) eqn:Es.
    { inversion H; subst. split; [exact Hu0|]. split; [exact Et|]. unfold host_stop, auth_delim in *. destruct sp, inside; bool_brute. }
    destruct (c =? 91); [exact (IH _ _ _ _ Hr H)|]. destruct (c =? 93); exact (IH _ _ _ _ Hr H).
Qed.

(* ================= port ================= *)
Definition pe_ok (X : list N) : Prop := match X with [] => True | c :: _ => is_tnl c = false /\ is_path_end c = true end.
(* canonical remainder after the authority: nothing, '/', '?' or '#' *)
Definition tail_ok (X : list N) : Prop := match X with [] => True | c :: _ => (c =? 47) || (c =? 63) || (c =? 35) = true end.

Lemma tail_stop sp X : tail_ok X -> stop_ok sp X.
Proof. destruct X as [|c r]; [tauto|]. cbn [tail_ok stop_ok]. unfold is_tnl, auth_delim. intros H. destruct sp; split; lia. Qed.
Lemma tail_pe X : tail_ok X -> pe_ok X.
Proof. destruct X as [|c r]; [tauto|]. cbn [tail_ok pe_ok]. unfold is_tnl, is_path_end. intros H. split; lia. Qed.

Lemma port_loop_out l : forall p0 any p any' rem, usv_list l -> p0 <= 65535 ->
  parse_port_loop CUrlParser l p0 any = POk (p, any', rem) -> p <= 65535 /\ usv_list rem /\ pe_ok rem.
Proof.
  induction l as [|c r IH]; intros p0 any p any' rem Hu Hp H; cbn [parse_port_loop] in H.
  - inversion H; subst. split; [exact Hp|]. split; [constructor | exact I].
  - pose proof Hu as Hu0. apply usv_cons in Hu. destruct Hu as [Hc Hr].
    destruct (is_tnl c) eqn:Et; [exact (IH _ _ _ _ _ Hr Hp H)|].
    destruct (is_digit c).
    { destruct (65535 <? p0 * 10 + (c - 48)) eqn:Eo; [discriminate|]. apply (IH _ _ _ _ _ Hr) in H; [exact H | lia]. }
    cbn [ctx_eqb andb] in H. destruct (is_path_end c) eqn:Ee; cbn [negb] in H; [|discriminate].
    inversion H; subst. split; [exact Hp|]. split; [exact Hu0|]. split; assumption.
Qed.

Lemma port_loop_stop X p any : pe_ok X -> parse_port_loop CUrlParser X p any = POk (p, any, X).
Proof.
  destruct X as [|c r]; [reflexivity|]. intros [Ht He]. cbn [parse_port_loop]. rewrite Ht.
  assert (is_digit c = false) as Hd by (unfold is_path_end, is_digit in *; lia).
  rewrite Hd, He. reflexivity.
Qed.

Lemma port_loop_digits ds : forall p0 any p any' X, forallb is_digit ds = true ->
  parse_port_loop CUrlParser ds p0 any = POk (p, any', []) -> pe_ok X ->
  parse_port_loop CUrlParser (ds ++ X) p0 any = POk (p, any', X).
Proof.
  induction ds as [|c ds IH]; intros p0 any p any' X Hd H HX.
  - cbn [parse_port_loop] in H. inversion H; subst. cbn [app]. apply port_loop_stop. exact HX.
  - cbn [forallb] in Hd. apply andb_true_iff in Hd. destruct Hd as [Hc Hd].
    assert (is_tnl c = false) as Ht by (unfold is_digit, is_tnl in *; lia).
    cbn [app parse_port_loop] in *. rewrite Ht, Hc in *.
    destruct (65535 <? p0 * 10 + (c - 48)); [discriminate|]. exact (IH _ _ _ _ _ Hd H HX).
Qed.

Lemma opt_eqb_false p d : opt_eqb (Some p) d = false -> d <> Some p.
Proof. intros H E. subst d. cbn [opt_eqb] in H. rewrite N.eqb_refl in H. discriminate. Qed.

Lemma opt_eqb_ne p d : d <> Some p -> opt_eqb (Some p) d = false.
Proof.
  intros H. destruct d as [q|]; [|reflexivity]. cbn [opt_eqb]. apply N.eqb_neq. intros E. apply H. subst. reflexivity.
Qed.

Definition port_text (pt : option N) : list N := match pt with Some p => 58 :: decimal p | None => [] end.
Definition port_ok (dflt pt : option N) : Prop :=
  match pt with Some p => p <= 65535 /\ dflt <> Some p | None => True end.

(* L3 for parse_port *)
Lemma parse_port_canon dflt p X : p <= 65535 -> dflt <> Some p -> pe_ok X ->
  parse_port CUrlParser dflt (decimal p ++ X) = POk (Some p, X).
Proof.
  intros Hp Hd HX. unfold parse_port. destruct (port_rt p Hp) as [H1 H2].
  rewrite (port_loop_digits _ _ _ _ _ X H2 H1 HX). cbn [pbind negb andb orb].
  rewrite (opt_eqb_ne p dflt Hd). reflexivity.
Qed.

(* ================= host and port together ================= *)
(* the display of every parsed host is above U+0020 (true of url::Host: forbidden host code points) *)
Definition host_above (hp hpo : list N -> result host) (hd : host -> list N) : Prop :=
  (forall s h, hp s = Ok h -> forallb above_space (hd h) = true)
  /\ (forall s h, hpo s = Ok h -> forallb above_space (hd h) = true).

(* the part of HostOK (C02_Reach.v) that the parser classes need: both host parsers are inverted by the
   display, whose output is a host text, and the empty host is displayed as nothing *)
Definition HostRT (hp hpo : list N -> result host) (hd : host -> list N) : Prop :=
  (forall s h, hp s = Ok h -> h <> HDomain [] -> host_text_ok (hd h) /\ hp (hd h) = Ok h)
  /\ (forall s h, hpo s = Ok h -> h <> HDomain [] -> host_text_ok (hd h) /\ hpo (hd h) = Ok h)
  /\ hd (HDomain []) = [] /\ hpo [] = Ok (HDomain []).

Lemma HostOK_RT hp hpo hd : HostOK hp hpo hd -> HostRT hp hpo hd.
Proof. intros (H1 & H2 & _ & H4 & _ & H6). split; [exact H1|]. split; [exact H2|]. split; [exact H4 | exact H6]. Qed.

Section HostPort.
Variable hp hpo : list N -> result host.
Variable hd : host -> list N.
Hypothesis HOK : HostRT hp hpo hd.
Hypothesis HAb : host_above hp hpo hd.
Variable st : scheme_type.
Hypothesis Hnf : st_is_file st = false.
Notation sp := (st_is_special st).

Definition hpx : list N -> result host := if sp then hp else hpo.

(* canonical host: the empty host of a non-special URL, or a host whose display parses back to it *)
Definition host_ok (h : host) : Prop :=
  (h = HDomain [] /\ sp = false)
  \/ (h <> HDomain [] /\ host_text_ok (hd h) /\ hpx (hd h) = Ok h /\ forallb above_space (hd h) = true).

Lemma hd_empty : hd (HDomain []) = [].
Proof. destruct HOK as (_ & _ & H & _). exact H. Qed.

Lemma hpx_host_ok s h : hpx s = Ok h -> h <> HDomain [] -> host_ok h.
Proof.
  intros H Hne. right. destruct HOK as (H1 & H2 & _). destruct HAb as [A1 A2]. unfold hpx in *. destruct sp.
  - destruct (H1 s h H Hne) as [T R]. split; [exact Hne|]. split; [exact T|]. split; [exact R | exact (A1 s h H)].
  - destruct (H2 s h H Hne) as [T R]. split; [exact Hne|]. split; [exact T|]. split; [exact R | exact (A2 s h H)].
Qed.

Definition hap_tail (se : N) (ser : list N) (host : host) (remaining : list N)
  : pres (list N * N * host_internal * option N * list N) :=
  let ser1 := ser ++ hd host in
  host_end <~ to_u32 (nlen ser1) ;;
  u_ <~ (match host with
        | HDomain [] => if inp_starts_with_char 58 remaining then PErr EmptyHost
                        else if sp then PErr EmptyHost else POk tt
        | _ => POk tt
        end) ;;
  match inp_split_prefix_char 58 remaining with
  | Some rem =>
      ' (port, rem2) <~ parse_port CUrlParser (default_port (nfirstn se ser1)) rem ;;
      POk (match port with Some p => ser1 ++ [58] ++ decimal p | None => ser1 end,
           host_end, hi_of_host host, port, rem2)
  | None => POk (ser1, host_end, hi_of_host host, None, remaining)
  end.

Lemma phap_unfold se ser l :
  parse_host_and_port hp hpo hd CUrlParser st se ser l
  = (' (host, remaining) <~ parse_host hp hpo st l ;; hap_tail se ser host remaining).
Proof. reflexivity. Qed.

Lemma parse_host_unfold l :
  parse_host hp hpo st l
  = (let '(h, rem) := host_scan sp false [] l in
     if scheme_type_eqb st STSpecialNotFile && (match h with [] => true | _ => false end) then PErr EmptyHost
     else host <~ of_result (hpx h) ;; POk (host, rem)).
Proof.
  unfold parse_host, hpx. rewrite Hnf. destruct (host_scan sp false [] l) as [h rem].
  destruct (scheme_type_eqb st STSpecialNotFile && match h with [] => true | _ :: _ => false end); [reflexivity|].
  destruct sp; reflexivity.
Qed.

(* L1 *)
Theorem phap_out se ser l ser2 he hi port rem2 : usv_list l ->
  parse_host_and_port hp hpo hd CUrlParser st se ser l = POk (ser2, he, hi, port, rem2) ->
  exists h, host_ok h /\ port_ok (default_port (nfirstn se (ser ++ hd h))) port
            /\ (h = HDomain [] -> port = None)
            /\ ser2 = ser ++ hd h ++ port_text port /\ he = nlen ser + nlen (hd h) /\ hi = hi_of_host h
            /\ usv_list rem2 /\ pe_ok rem2.
Proof.
  intros Hu. rewrite phap_unfold, parse_host_unfold.
  destruct (host_scan sp false [] l) as [ht remaining] eqn:Eh.
  destruct (host_scan_out sp l false [] ht remaining Hu Eh) as [Hur Hhead].
  destruct (scheme_type_eqb st STSpecialNotFile && match ht with [] => true | _ :: _ => false end); [discriminate|].
  destruct (hpx ht) as [h|e] eqn:Ehp; cbn [of_result pbind]; [|discriminate].
  unfold hap_tail. destruct (to_u32 (nlen (ser ++ hd h))) as [x| |] eqn:Eu; cbn [pbind]; try discriminate.
  apply to_u32_inv in Eu. destruct Eu as [-> Hb]. rewrite nlen_app.
  set (chk := match h with HDomain [] => _ | _ => POk tt end).
  destruct chk as [[]| |] eqn:Echk; cbn [pbind]; try discriminate.
  assert (host_ok h /\ (h = HDomain [] -> inp_split_prefix_char 58 remaining = None)) as [Hok Hemp].
  { destruct h as [[|d0 d]|a|pcs]; try (split; [eapply hpx_host_ok; [exact Ehp | discriminate] | discriminate]).
    unfold chk in Echk. unfold inp_starts_with_char in Echk. unfold inp_split_prefix_char.
    destruct (inp_next remaining) as [[d r]|].
    - destruct (d =? 58); [discriminate|]. destruct sp eqn:Esp; [discriminate|]. split; [left; split; [reflexivity | exact Esp] | reflexivity].
    - destruct sp eqn:Esp; [discriminate|]. split; [left; split; [reflexivity | exact Esp] | reflexivity]. }
  destruct (inp_split_prefix_char 58 remaining) as [rem|] eqn:E58.
  - assert (h <> HDomain []) as Hne by (intros E; specialize (Hemp E); discriminate).
    assert (usv_list rem) as Hurem.
    { unfold inp_split_prefix_char in E58. destruct (inp_next remaining) as [[d r]|] eqn:En; [|discriminate].
      destruct (d =? 58); [|discriminate]. inversion E58; subst. exact (inp_next_usv _ _ _ Hur En). }
    unfold parse_port.
    destruct (parse_port_loop CUrlParser rem 0 false) as [[[p any] r2]| |] eqn:El; cbn [pbind]; try discriminate.
    destruct (port_loop_out rem 0 false p any r2 Hurem ltac:(lia) El) as (Hp & Hur2 & Hpe).
    cbn [ctx_eqb andb]. rewrite andb_false_r. cbn [andb].
    destruct (negb any || opt_eqb (Some p) (default_port (nfirstn se (ser ++ hd h)))) eqn:Eo;
      intros H; inversion H; subst; clear H; exists h; (split; [exact Hok|]).
    + cbn [port_ok port_text]. rewrite app_nil_r. repeat split; try assumption; try reflexivity.
    + apply orb_false_iff in Eo. destruct Eo as [_ Eo]. cbn [port_ok port_text].
      rewrite <- app_assoc. cbn [app].
      repeat split; try assumption; try reflexivity; [exact (opt_eqb_false _ _ Eo) | intros E; contradiction].
  - intros H. inversion H; subst. clear H. exists h. split; [exact Hok|]. cbn [port_ok port_text]. rewrite app_nil_r.
    repeat split; try assumption; try reflexivity.
    destruct rem2 as [|c r]; [exact I|]. destruct Hhead as [Ht Hd]. split; [exact Ht|].
    unfold inp_split_prefix_char in E58. rewrite inp_next_cons in E58 by exact Ht.
    destruct (c =? 58) eqn:Ec; [discriminate|]. cbn [orb] in Hd.
    unfold auth_delim in Hd. unfold is_path_end. destruct sp; bool_brute.
Qed.

(* L3 *)
Lemma host_scan_tail X : tail_ok X -> host_scan sp false [] X = ([], X).
Proof.
  destruct X as [|c r]; [reflexivity|]. cbn [tail_ok]. intros H. cbn [host_scan].
  assert (is_tnl c = false) as Ht by (unfold is_tnl; lia). rewrite Ht.
  assert (((c =? 58) && negb false) || ((c =? 92) && sp) || (c =? 47) || (c =? 63) || (c =? 35) = true) as Hs
    by (destruct sp; lia).
  rewrite Hs. reflexivity.
Qed.

Lemma port_text_head pt X : tail_ok X ->
  match port_text pt ++ X with [] => True | c :: _ => (c =? 58) || (c =? 47) || (c =? 63) || (c =? 35) || ((c =? 92) && sp) = true end.
Proof.
  intros HX. destruct pt as [p|]; [reflexivity|]. cbn [port_text app]. destruct X as [|c r]; [exact I|].
  cbn [tail_ok] in HX. destruct sp; lia.
Qed.

Theorem parse_host_canon h pt X : host_ok h -> (h = HDomain [] -> pt = None) -> tail_ok X ->
  parse_host hp hpo st (hd h ++ port_text pt ++ X) = POk (h, port_text pt ++ X).
Proof.
  intros Hok Hemp HX. rewrite parse_host_unfold. destruct Hok as [[-> Hns]|(Hne & Ht & Hp & _)].
  - rewrite (Hemp eq_refl). rewrite hd_empty. cbn [port_text app]. rewrite host_scan_tail by exact HX.
    rewrite andb_true_r. assert (scheme_type_eqb st STSpecialNotFile = false) as E by (destruct st; [discriminate| discriminate |reflexivity]).
    rewrite E. unfold hpx. rewrite Hns. destruct HOK as (_ & _ & _ & H6). rewrite H6. reflexivity.
  - destruct Ht as (Ha & Hnn & Hs & Hat). rewrite (Hs sp (port_text pt ++ X) (port_text_head pt X HX)).
    destruct (hd h) as [|c0 t0] eqn:Ehd; [contradiction|]. rewrite andb_false_r.
    rewrite Hp. reflexivity.
Qed.

Theorem hap_tail_canon se ser h pt X : host_ok h -> (h = HDomain [] -> pt = None) ->
  port_ok (default_port (nfirstn se (ser ++ hd h))) pt -> tail_ok X ->
  nlen ser + nlen (hd h) <= U32_MAX_P ->
  hap_tail se ser h (port_text pt ++ X)
  = POk (ser ++ hd h ++ port_text pt, nlen ser + nlen (hd h), hi_of_host h, pt, X).
Proof.
  intros Hok Hemp Hpt HX Hb. unfold hap_tail. rewrite nlen_app. rewrite to_u32_ok by exact Hb. cbn [pbind].
  assert (tail_ok X -> inp_split_prefix_char 58 X = None /\ inp_starts_with_char 58 X = false) as HX58.
  { clear. intros HX. unfold inp_split_prefix_char, inp_starts_with_char. destruct X as [|c r]; [split; reflexivity|].
    cbn [tail_ok] in HX. rewrite inp_next_cons by (unfold is_tnl; lia). replace (c =? 58) with false by lia. split; reflexivity. }
  destruct (HX58 HX) as [E1 E2].
  set (chk := match h with HDomain [] => _ | _ => POk tt end).
  assert (chk = POk tt) as ->.
  { unfold chk. destruct Hok as [[-> Hns]|(Hne & _)].
    - rewrite (Hemp eq_refl). cbn [port_text app]. rewrite E2, Hns. reflexivity.
    - destruct h as [[|d0 d]|a|pcs]; try reflexivity. contradiction. }
  cbn [pbind]. destruct pt as [p|]; cbn [port_text port_ok] in *.
  - destruct Hpt as [Hp Hd]. cbn [app]. unfold inp_split_prefix_char at 1. rewrite inp_next_cons by reflexivity.
    replace (58 =? 58) with true by reflexivity.
    rewrite parse_port_canon by (try assumption; apply tail_pe; exact HX). cbn [pbind].
    rewrite <- app_assoc. reflexivity.
  - cbn [app]. rewrite E1. rewrite app_nil_r. reflexivity.
Qed.

End HostPort.
