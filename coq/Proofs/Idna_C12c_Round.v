(* Proofs/Idna_C12c_Round.v - C12, the clauses about the Unicode form (a_of_u, u_idem) on the class of accepted names
   WITHOUT an accepted xn-- input label (PunyIn d = false: no entry of already_punycode is MixedCasePunycode), outside
   Known_C12 and Known_C10_long, relative to the seven adapter premises of C12_statement4.
   ToASCII of the UTF-8 form of ToUnicode d is the ASCII form of d, and ToUnicode of it is ToUnicode d.
   For a name with an accepted xn-- input label the missing fact is about Punycode only:
   encode_internal (decode U8Internal p) = map to_lower p. *)
From RU Require Import Base.Prelude Base.Utf8 Base.Utf8Facts Base.U32_c13 Gen.Tables Model.Punycode Model.Uts46
  Proofs.C13_Ascii Proofs.Idna_Sim Proofs.Idna_Api Proofs.Idna_Known Proofs.Idna_Hyp Proofs.Idna_Redisc
  Proofs.Idna_C10_Deny Proofs.Idna_C10_Puny Proofs.Idna_C10_Prefix Proofs.Idna_C10_Inner Proofs.Idna_C10_Walk
  Proofs.Idna_C10b_Long Proofs.Idna_C10b_AsciiInner Proofs.Idna_C10b_AsciiWalk Proofs.Idna_C10b_Stmt
  Proofs.Idna_WalkFun Proofs.Idna_WalkInv Proofs.Idna_WalkApi Proofs.Idna_WalkEnc Proofs.Idna_PunyRT
  Proofs.Idna_C10c_Puny Proofs.Idna_C10c_Start Proofs.Idna_C10c_Drun Proofs.Idna_C10c_Loop Proofs.Idna_C10c_Rerun
  Proofs.Idna_C10c_Idem Proofs.Idna_C10c_Example Proofs.Idna_Mark Proofs.Idna_C12 Proofs.Idna_C12b_Stmt3
  Proofs.Idna_C10d_CaseLabel Proofs.Idna_C10d_CaseLoop Proofs.Idna_C10d_Case Proofs.Idna_C12c_Virtual Proofs.Idna_C12c_UofA
  Proofs.Idna_C12c_Stmt4 Proofs.Idna_C12c_ULabel.

(* the class: the accepted run recorded an xn-- input label *)
Definition is_mcp (e : aal) : bool := match e with MixedCasePunycode _ => true | _ => false end.
Definition PunyIn (A : adapter) (cfg : bool) (d : list N) (deny : N) (hy : hyphens) : bool :=
  match process_inner A cfg false hy deny d with
  | IRes _ _ _ _ ap => existsb is_mcp ap
  | IPanic _ => false
  end.

(* ---------------------------------------------------------------- UTF-8 and dots *)
Lemma utf8_encode1_nodot c : c <> DOT -> nodot (utf8_encode1 c).
Proof.
  intros H. unfold utf8_encode1, nodot, DOT in *. destruct (c <? 128) eqn:E1; [repeat constructor; exact H|].
  destruct (c <? 2048); [repeat constructor; lia|]. destruct (c <? 65536); repeat constructor; lia.
Qed.
Lemma utf8_encode_nodot l : nodot l -> nodot (utf8_encode l).
Proof.
  unfold nodot. induction 1 as [|c r Hc _ IH]; [constructor|]. unfold utf8_encode in *. cbn [flat_map].
  apply Forall_app. split; [exact (utf8_encode1_nodot c Hc)|exact IH].
Qed.
Lemma utf8_encode_join ls : utf8_encode (join_dots ls) = join_dots (map utf8_encode ls).
Proof.
  induction ls as [|l r IH]; [reflexivity|]. destruct r as [|x r'].
  - reflexivity.
  - rewrite join_dots_cons2. change (map utf8_encode (l :: x :: r')) with (utf8_encode l :: map utf8_encode (x :: r')).
    destruct (map utf8_encode (x :: r')) as [|y ys] eqn:E; [discriminate|]. rewrite join_dots_cons2, <- IH.
    change (DOT :: join_dots (x :: r')) with ([DOT] ++ join_dots (x :: r')). rewrite !utf8_encode_app. reflexivity.
Qed.
Lemma ascii_usv l : Forall (fun b => b < 128) l -> usv_list l.
Proof. unfold usv_list. intros H. eapply Forall_impl; [|exact H]. unfold is_usv. cbv beta. intros; lia. Qed.

Section Round.
Variable A : adapter.
Variable cfg : bool.
Variable deny : N.
Variable hy : hyphens.
Hypothesis HU : DenyUpper deny.
Hypothesis HL : LdhFree deny.
Hypothesis HOK : AdapterOK A.
Hypothesis HUSV : AdapterUSV A.
Hypothesis HNT : NvNoTrunc A.
Hypothesis HNI : NvIdem A.
Hypothesis HNM : AsciiNoMark A.
Hypothesis HMP : MapPrefix A.
Hypothesis HMF : NvMapFix A.

Notation PairOK := (PairOK A cfg deny hy).
Notation pres := (pres A cfg deny hy).
Notation proc_all := (proc_all A cfg deny hy).

Definition xn_free (dbl : list N) (e : aal) : Prop :=
  match e with MixedCaseAscii _ => True | _ => starts_with dbl XN_PREFIX = false end.

(* ---- one pair: the label step on the UTF-8 form of the Unicode text written for it ---- *)
Lemma pair_rtu dbl e o : PairOK dbl e -> is_mcp e = false -> xn_free dbl e ->
  out_label cfg is_ascii_l dbl e = inl o -> long_puny_label o = false ->
  exists ou e3, out_label cfg uT dbl e = inl ou /\ pres (utf8_encode ou) = SOk (dbl, false, [e3]) /\
    out_label cfg is_ascii_l dbl e3 = inl o /\ out_label cfg uT dbl e3 = inl ou /\ nodot (utf8_encode ou) /\ usv_list ou.
Proof.
  intros HP Hm Hx Ho Hlong.
  pose proof (pair_rt2 A cfg deny hy HU HL dbl e o HP Ho Hlong) as Hrt. pose proof (pres_of_rt A cfg deny hy _ _ _ Hrt) as Hpr.
  pose proof (out_e2 A cfg deny hy HU dbl e o HP Ho) as HoT. pose proof (pair_out_nodot A cfg deny hy HU HL dbl e o HP Ho) as Hndo.
  destruct HP as [m Han Hn Hacc|m dec dbl Ha Hn Hp Hc Hd Hapd Hchk Hna|dbl Hnv Hg Hchk Hu Hpre]; [| discriminate Hm |].
  - (* an all-ASCII input label: the Unicode text is the ASCII text *)
    cbn [out_label] in Ho. inversion Ho. subst o. destruct Han as [Ha _]. pose proof (lower_ascii m Ha) as Hla.
    exists (map to_lower m), (e2_of (cmap deny m) (MixedCaseAscii m) (map to_lower m)).
    rewrite (utf8_encode_ascii _ Hla). split; [reflexivity|]. split; [exact Hpr|]. cbn [e2_of out_label uT]. rewrite lower_lower.
    repeat split; [exact Hndo|exact (ascii_usv _ Hla)].
  - destruct (is_ascii_l dbl) eqn:Easc.
    + (* an ASCII label of the mapped stream *)
      cbn [out_label] in Ho. rewrite Easc in Ho. inversion Ho. subst o. pose proof (is_ascii_l_spec dbl Easc) as Ha.
      exists dbl, (e2_of dbl AalOther dbl). rewrite (utf8_encode_ascii _ Ha). split; [reflexivity|]. split; [exact Hpr|].
      split; [|split; [exact HoT|split; [exact Hndo|exact Hu]]].
      cbn [e2_of]. rewrite Easc. cbn [out_label]. f_equal. apply Idna_WalkFun.lower_noupper.
      apply Forall_forall. intros c Hin. rewrite Forall_forall in Ha, Hg.
      exact (proj1 (proj2 (clean_final deny c HU (gc_clean deny DOT_MASK c (Ha c Hin) (Hg c Hin))))).
    + (* a non-ASCII label *)
      exists dbl, AalOther. split; [reflexivity|]. cbn [xn_free] in Hx.
      split; [exact (pres_unicode A cfg deny hy HU HMP HMF dbl Hnv Hg Hchk Hu Easc Hx)|].
      split; [exact Ho|]. split; [reflexivity|]. split; [exact (utf8_encode_nodot dbl (gc_all_nodot deny dbl Hg))|exact Hu].
Qed.

(* ---- all the pairs ---- *)
Lemma build_U DBL : forall ap os, Forall2 PairOK DBL ap -> existsb is_mcp ap = false -> Forall2 xn_free DBL ap ->
  outs cfg is_ascii_l DBL ap = inl os -> Forall (fun o => long_puny_label o = false) os ->
  exists ous e3s, outs cfg uT DBL ap = inl ous /\ proc_all (map utf8_encode ous) = SOk (DBL, map (fun e => [e]) e3s) /\
    outs cfg is_ascii_l DBL e3s = inl os /\ outs cfg uT DBL e3s = inl ous /\
    Forall nodot (map utf8_encode ous) /\ Forall usv_list ous.
Proof.
  induction DBL as [|dbl DBL IH]; intros ap os HP Hm Hx Ho Hl.
  - inversion HP; subst. cbn [outs] in Ho. inversion Ho. exists [], []. repeat split; constructor.
  - inversion HP as [|? e ? ap' H1 H2]; subst. inversion Hx as [|? ? ? ? X1 X2]; subst. cbn [outs existsb] in Ho, Hm.
    apply orb_false_iff in Hm. destruct Hm as [M1 M2].
    destruct (out_label cfg is_ascii_l dbl e) as [o|s] eqn:E1; [|discriminate].
    destruct (outs cfg is_ascii_l DBL ap') as [os'|s] eqn:E2; [|discriminate]. inversion Ho. subst os.
    inversion Hl as [|? ? Hl1 Hl2]; subst.
    destruct (IH _ _ H2 M2 X2 E2 Hl2) as (ous & e3s & U1 & U2 & U3 & U4 & U5 & U6).
    destruct (pair_rtu dbl e o H1 M1 X1 E1 Hl1) as (ou & e3 & P1 & P2 & P3 & P4 & P5 & P6).
    exists (ou :: ous), (e3 :: e3s). cbn [outs map proc_all]. rewrite P1, U1, P2, U2, P3, U3, P4, U4.
    repeat split; constructor; assumption.
Qed.

Lemma combine_forall2 (Q : list N -> aal -> bool) DBL : forall ap, length DBL = length ap ->
  existsb (fun lp => Q (fst lp) (snd lp)) (combine DBL ap) = false -> Forall2 (fun l e => Q l e = false) DBL ap.
Proof.
  induction DBL as [|l r IH]; intros [|e ap] Hl H; try discriminate; [constructor|].
  cbn [combine existsb fst snd] in H. apply orb_false_iff in H. destruct H as [H1 H2].
  constructor; [exact H1|apply IH; [cbn [length] in Hl; lia|exact H2]].
Qed.

(* ---- the two clauses ---- *)
Theorem round_unicode d b a : bytes d -> to_ascii A cfg d deny hy DIgnore = Ok (b, a) -> Known_C10_long a = false ->
  Known_C12 A cfg d deny hy = false -> PunyIn A cfg d deny hy = false ->
  exists bu u b' bu', to_unicode A cfg d deny hy = UI bu u false /\
    to_ascii A cfg (utf8_encode u) deny hy DIgnore = Ok (b', a) /\
    to_unicode A cfg (utf8_encode u) deny hy = UI bu' u false.
Proof.
  intros Hb H Hlong HK12 HPI. pose proof (redisc_of_adapter A cfg deny (ok_nil A HOK) HU) as HR.
  destruct (first_run A cfg deny hy HU HL HOK HUSV HNT HNI HNM HMP d b a Hb H)
    as [(-> & Had & HTd)|(pl & DBL & ap & bd & os & ou & bu & Ei & Hpl & HD & HPK & Hbidi & Hbok & Eo & Hos & Ha & Eu & Hou & HTu)].
  - (* the whole name was passed through *)
    exists true, d, b, true. rewrite (utf8_encode_ascii d Had). repeat split; assumption.
  - pose proof (pairok_all_nodot A cfg deny hy _ _ HPK) as HDn.
    destruct (outs_nodot A cfg deny hy HU HL DBL ap os HPK Eo) as [Hosn Hosl].
    (* the classes, read on the entries *)
    destruct (inner_ff_facts A cfg hy deny d _ _ _ _ _ Ei) as [HX|[_ Hm]]; [inversion HX|].
    unfold Known_C12 in HK12. unfold PunyIn in HPI. rewrite Hm in HK12, HPI. rewrite (Idna_Mark.split_join DBL HD HDn) in HK12.
    assert (Hxf : Forall2 xn_free DBL ap).
    { pose proof (combine_forall2 (fun l e => match e with MixedCaseAscii _ => false | _ => starts_with l XN_PREFIX end) DBL ap
                    (Forall2_len _ _ _ HPK) HK12) as HF.
      clear -HF. induction HF as [|l e ls es H1 _ IH]; constructor; [|exact IH]. destruct e; cbn [xn_free]; [exact I|exact H1|exact H1]. }
    assert (Hsplit : split_on DOT a = pl ++ os).
    { rewrite Ha. apply Idna_Mark.split_join; [destruct pl; [exact Hos|discriminate]|].
      apply Forall_app. split; [|exact Hosn]. exact (pass_all_nodot _ Hpl). }
    assert (Hlo : Forall (fun o => long_puny_label o = false) os).
    { unfold Known_C10_long in Hlong. rewrite Hsplit, existsb_app in Hlong. apply orb_false_iff in Hlong. destruct Hlong as [_ Hl2].
      apply Forall_forall. intros o Hin. destruct (long_puny_label o) eqn:E; [|reflexivity]. exfalso.
      assert (Hx : existsb long_puny_label os = true) by (apply existsb_exists; exists o; split; assumption).
      rewrite Hx in Hl2. discriminate. }
    destruct (build_U DBL ap os HPK HPI Hxf Eo Hlo) as (ous & e3s & U1 & U2 & U3 & U4 & U5 & U6).
    rewrite Eu in U1. inversion U1. subst ous. clear U1.
    (* the UTF-8 form of the Unicode text *)
    set (u := join_dots (pl ++ ou)) in *.
    assert (Hpa : Forall (Forall (fun b => b < 128)) pl).
    { eapply Forall_impl; [|exact Hpl]. intros l [Hbl Hp]. exact (passthrough_ascii l Hbl Hp). }
    assert (Hw : utf8_encode u = join_dots (pl ++ map utf8_encode ou)).
    { unfold u. rewrite utf8_encode_join, map_app. f_equal. f_equal. clear -Hpa. induction Hpa as [|l r Hl _ IH]; [reflexivity|].
      cbn [map]. rewrite IH, (utf8_encode_ascii l Hl). reflexivity. }
    assert (Huu : usv_list u).
    { unfold u, usv_list. apply join_dots_Forall; [unfold is_usv, DOT; lia|]. apply Forall_app. split; [|exact U6].
      eapply Forall_impl; [|exact Hpa]. intros l Hl. exact (ascii_usv l Hl). }
    pose proof (utf8_encode_bytes u Huu) as Hbw.
    assert (Hne : map utf8_encode ou <> []) by (destruct ou; [contradiction Hou; reflexivity|discriminate]).
    assert (Hsw : split_on DOT (utf8_encode u) = pl ++ map utf8_encode ou).
    { rewrite Hw. apply Idna_Mark.split_join; [destruct pl; [exact Hne|discriminate]|].
      apply Forall_app. split; [exact (pass_all_nodot _ Hpl)|exact U5]. }
    assert (Hp : proc_all (split_on DOT (utf8_encode u)) =
                 SOk (pl ++ DBL, map (fun l => [MixedCaseAscii l]) pl ++ map (fun e => [e]) e3s)).
    { rewrite Hsw, proc_all_app, (proc_all_pass A cfg deny hy HL _ Hpl), U2. reflexivity. }
    assert (HV : VBk A cfg (length pl) bd (pl ++ DBL)).
    { split.
      - rewrite concat_app, is_bidi_app, (is_bidi_ascii A cfg _ (pass_all_ascii _ Hpl)), <- is_bidi_join. exact Hbidi.
      - intros Hb1. rewrite (skipn_app_le (length pl) pl DBL (le_n _)), skipn_all. cbn [app]. rewrite (VL_nodot _ HDn). exact (Hbok Hb1). }
    assert (Hk : (length pl <= length (ptake (split_on DOT (utf8_encode u))))%nat).
    { rewrite Hsw, ptake_app_pass, app_length; [lia|]. eapply Forall_impl; [|exact Hpl]. intros l Hl. exact (proj2 Hl). }
    assert (Hcc : concat (map (fun e : aal => [e]) e3s) = e3s).
    { clear. induction e3s as [|e r IH]; [reflexivity|]. cbn [map concat app]. rewrite IH. reflexivity. }
    assert (HoF : outs cfg is_ascii_l (VL (pl ++ DBL)) (concat (map (fun l => [MixedCaseAscii l]) pl ++ map (fun e => [e]) e3s)) = inl (pl ++ os)).
    { rewrite VL_app, (VL_nodot _ (pass_all_nodot _ Hpl)), (VL_nodot _ HDn), concat_app, concat_mca, Hcc.
      rewrite (outs_mca cfg is_ascii_l _ _ pl pl eq_refl), U3, (pass_all_lower deny HU HL _ Hpl). reflexivity. }
    destruct (virtual_ascii A cfg deny hy HU HL HR _ _ _ _ bd _ Hbw Hp HV Hk HoF) as (b' & HTa).
    destruct (virtual_unicode A cfg deny hy HU HL HR _ _ _ _ bd Hbw Hp HV Hk) as (bu' & ov & Eov & HTw).
    rewrite VL_app, (VL_nodot _ (pass_all_nodot _ Hpl)), (VL_nodot _ HDn), concat_app, concat_mca, Hcc in Eov.
    rewrite (outs_mca cfg uT _ _ pl pl eq_refl), U4, (pass_all_lower deny HU HL _ Hpl) in Eov. inversion Eov. subst ov.
    exists bu, u, b', bu'. rewrite <- Ha in HTa. repeat split; assumption.
Qed.
End Round.

(* ---------------------------------------------------------------- the statement: three of the four clauses on the class *)
Theorem c12_round A cfg : AdapterOK A -> AdapterUSV A -> NvNoTrunc A -> NvIdem A -> AsciiNoMark A -> MapPrefix A -> NvMapFix A ->
  forall d deny hy b a, bytes d -> valid_deny deny -> Known_C12 A cfg d deny hy = false -> PunyIn A cfg d deny hy = false ->
  to_ascii A cfg d deny hy DIgnore = Ok (b, a) -> Known_C10_long a = false ->
  let u := ui_text (to_unicode A cfg d deny hy) in
  (ui_text (to_unicode A cfg a deny hy) = u /\ ui_err (to_unicode A cfg a deny hy) = false) /\
  (exists b', to_ascii A cfg (utf8_encode u) deny hy DIgnore = Ok (b', a)) /\
  (ui_text (to_unicode A cfg (utf8_encode u) deny hy) = u /\ ui_err (to_unicode A cfg (utf8_encode u) deny hy) = false).
Proof.
  intros HOK HUSV HNT HNI HNM HMP HMF d deny hy b a Hb Hv HK HP H Hlong. destruct (valid_deny_facts deny Hv) as [HU HL].
  destruct (c12_u_of_a A cfg HOK HUSV HNT HNI HNM HMP d deny hy b a Hb Hv H Hlong) as (C1 & C2 & _).
  destruct (round_unicode A cfg deny hy HU HL HOK HUSV HNT HNI HNM HMP HMF d b a Hb H Hlong HK HP) as (bu & u & b' & bu' & E1 & E2 & E3).
  cbv zeta. rewrite E1. cbn [ui_text]. split; [split; [rewrite C1, E1; reflexivity|exact C2]|].
  split; [exists b'; exact E2|]. rewrite E3. split; reflexivity.
Qed.

(* the class is not empty: "A.B<u-umlaut>cher" under lowsan4 *)
Example c12_round_example :
  Known_C12 lowsan4 true W_idem3 DENY_URL HCheck = false /\ PunyIn lowsan4 true W_idem3 DENY_URL HCheck = false /\
  to_ascii lowsan4 true W_idem3 DENY_URL HCheck DIgnore = Ok (false, W_idem3_A) /\ Known_C10_long W_idem3_A = false /\
  to_unicode lowsan4 true W_idem3 DENY_URL HCheck = UI false [97; 46; 98; 252; 99; 104; 101; 114] false.
Proof. vm_compute. repeat split; reflexivity. Qed.
