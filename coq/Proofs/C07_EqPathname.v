(* Proofs/C07_EqPathname.v - the pathname setter on records with an authority (a host, possibly the empty host):
   url::quirks::set_pathname is the Standard's pathname setter on every corrS pair whose model record has an authority,
   outside classes 1, 3, 4, 5, 9 of Known_C07 (pathname_step_auth).  Model side: Url::set_path evaluated forwards
   (set_path_fwd) on the text computed by Proofs/C07_PathText.v, the record it builds (with_path of Proofs/C06_Path.v)
   related to the Standard's record with the new list of segments (corr_with_path).  Standard's side: the closed
   form of Proofs/C07_SpecPath.v.  Opaque paths: the assignment is ignored on both sides (pathname_step_opaque). *)
From Coq Require Import ZifyBool ZifyN.
From RU Require Import Base.Prelude Base.Utf8 Base.Utf8Facts Model.AsciiSet Gen.Tables Model.PercentEncoding
  Model.HostT Model.UrlRecord Model.Parser Model.Setters Model.WF Model.KnownC01 Model.KnownC07 Spec.Whatwg
  Proofs.ListN Proofs.C03_WF Proofs.C06_List Proofs.C06_WFI Proofs.C06_Tail Proofs.C06_Suffix Proofs.C06_Front
  Proofs.C06_Steps Proofs.C06_FragQuery Proofs.C06_Path Proofs.C02_Parts Proofs.C08_Input
  Proofs.C01_EqRun Proofs.C01_EqPathSpec Proofs.C01_EqPath Proofs.C01_EqSpSpec Proofs.C01_EqSpPath
  Proofs.C07_Defs Proofs.C07_Corr Proofs.C07_SpecRun Proofs.C07_SpecProto Proofs.C07_EqProto Proofs.C07_EqSix
  Proofs.C07_SpecPath Proofs.C07_PathText Proofs.C07_PathKnown.

(* ---------- the first byte of the value ---------- *)
Lemma head_is c (r : list N) k :
  (match c :: r with x :: _ => x =? k | [] => false end) = (c =? k).
Proof. reflexivity. Qed.

Lemma head47 c (r : list N) : (match c :: r with 47 :: _ => true | _ => false end) = (c =? 47).
Proof.
  destruct (c =? 47) eqn:E; [apply N.eqb_eq in E; subst c; reflexivity|].
  destruct c as [|p]; [reflexivity|].
  do 7 (try (destruct p as [p|p|]; try reflexivity)); discriminate E.
Qed.

Lemma head92 c (r : list N) : (match c :: r with 92 :: _ => true | _ => false end) = (c =? 92).
Proof.
  destruct (c =? 92) eqn:E; [apply N.eqb_eq in E; subst c; reflexivity|].
  destruct c as [|p]; [reflexivity|].
  do 8 (try (destruct p as [p|p|]; try reflexivity)); discriminate E.
Qed.

(* the argument url::quirks::set_pathname passes to Url::set_path *)
Definition path_arg (sp hh : bool) (v : list N) : list N :=
  match v with
  | [] => if sp || negb hh then [47] else []
  | c :: _ => if (c =? 47) || (sp && (c =? 92)) then v else 47 :: v
  end.

Section Pathname.
Variable dbg : bool.

Lemma q_set_pathname_arg u v st : cannot_be_a_base u = Some false -> u_scheme_type u = Some st ->
  q_set_pathname dbg u v = Setters.set_path dbg u (path_arg (st_is_special st) (has_host u) v).
Proof.
  intros Ec Es. unfold q_set_pathname. rewrite Ec. cbn [bindo]. rewrite Es. cbn [bindo]. unfold path_arg.
  destruct v as [|c r].
  - cbn [orb andb negb]. rewrite ?andb_false_r, ?orb_false_r. cbn [orb]. destruct (st_is_special st || negb (has_host u)); reflexivity.
  - rewrite (head47 c r), (head92 c r). destruct ((c =? 47) || st_is_special st && (c =? 92)); [reflexivity|].
    cbn [negb]. rewrite orb_true_r. reflexivity.
Qed.

(* ---------- Url::set_path, forwards ---------- *)
Lemma set_path_fwd u p P hh rem : wf_b u = true -> byte_eqb (ser u) (scheme_end u + 1) 47 = true ->
  parse_path_start dbg CSetter (scheme_type_of (nfirstn (scheme_end u) (ser u))) true (nfirstn (path_start u) (ser u)) p
    = POk (nfirstn (path_start u) (ser u) ++ P, hh, rem) ->
  Setters.set_path dbg u p = Some (with_path u P).
Proof.
  intros W Hsl Epp. unfold Setters.set_path. rewrite (take_after_path_eval u W). cbn [bindo].
  destruct (wf_ps_le_path_end u W) as [B5 B6]. pose proof (wf_se_lt_ps u W) as B0.
  destruct (wf_scheme_facts u W) as (Hse & Hc & Hlt).
  set (pe := path_end u) in *. set (ps := path_start u) in *.
  assert (nlen (nfirstn pe (ser u)) = pe) as Lpe by (apply nlen_nfirstn; exact B6).
  assert (cannot_be_a_base (set_ser u (nfirstn pe (ser u))) = Some false) as Ecbb.
  { unfold cannot_be_a_base, u_slice_from. cbn [ser set_ser scheme_end]. rewrite slice_from_o_some by lia. cbn [bindo].
    pose proof Hsl as C1. apply byte_eqb_nnth in C1.
    assert (nnth (nfirstn pe (ser u)) (scheme_end u + 1) = Some 47) as C1'.
    { destruct (N.lt_ge_cases (scheme_end u + 1) pe) as [Hlt1|Hge1].
      - rewrite nnth_nfirstn by lia. exact C1.
      - exfalso. assert (pe = scheme_end u + 1) as Epe by lia.
        pose proof (wf_qf_facts u W) as QF. pose proof (qf_q QF) as Q1. pose proof (qf_f QF) as Q2.
        pose proof (nnth_lt _ _ _ C1). unfold pe, path_end in Epe.
        destruct (query_start u) as [q|].
        + destruct Q1 as (_ & Qb & _). apply byte_eqb_nnth in Qb. rewrite Epe in Qb. congruence.
        + destruct (fragment_start u) as [f|]; [|lia].
          destruct Q2 as (_ & Qb & _). apply byte_eqb_nnth in Qb. rewrite Epe in Qb. congruence. }
    rewrite (nskipn_cons_of_nnth _ _ _ C1'). reflexivity. }
  rewrite Ecbb. cbn [bindo].
  assert (u_scheme_type (set_ser u (nfirstn pe (ser u))) = Some (scheme_type_of (nfirstn (scheme_end u) (ser u)))) as Est.
  { unfold u_scheme_type, scheme, u_slice_to. cbn [ser set_ser scheme_end]. rewrite slice_to_o_some by lia. cbn [bindo].
    rewrite nfirstn_nfirstn by lia. reflexivity. }
  rewrite Est. cbn [bindo].
  cbn [ser set_ser path_start]. unfold truncate. fold ps.
  rewrite nfirstn_nfirstn by lia.
  assert (nlen (nfirstn ps (ser u)) = ps) as Ls0 by (apply nlen_nfirstn; lia).
  fold ps in Epp. rewrite Epp. cbn [unpres bindo].
  unfold restore_after_path. cbn [ser set_ser query_start fragment_start]. rewrite Lpe.
  assert (match query_start u with Some i => pe <= i | None => True end) as Gq.
  { unfold pe, path_end. destruct (query_start u); [lia | exact I]. }
  assert (match fragment_start u with Some i => pe <= i | None => True end) as Gf.
  { pose proof (qf_qf (wf_qf_facts u W)) as Q3. unfold pe, path_end.
    destruct (query_start u), (fragment_start u); try exact I; lia. }
  rewrite !adjust_opt_ok by assumption. cbn [bindo].
  f_equal. unfold with_path. fold pe ps. rewrite nlen_app, Ls0. rewrite <- app_assoc. reflexivity.
Qed.

End Pathname.
