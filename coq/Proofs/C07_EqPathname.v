(* Proofs/C07_EqPathname.v - the pathname setter on records with an authority (a host, possibly the empty host):
   url::quirks::set_pathname is the Standard's pathname setter on every corrS pair whose model record has an authority,
   outside classes 1, 3, 4, 5, 9 of Known_C07 (pathname_step_auth).  Model side: Url::set_path evaluated forwards
   (set_path_fwd) on the text computed by Proofs/C07_PathText.v, the record it builds (with_path of Proofs/C06_Path.v)
   related to the Standard's record with the new list of segments (corr_with_path).  Standard's side: the closed
   form of Proofs/C07_SpecPath.v.  Opaque paths: the assignment is ignored on both sides (pathname_step_opaque). *)
From Coq Require Import ZifyBool ZifyN.
From RU Require Import Base.Prelude Base.Utf8 Base.Utf8Facts Model.AsciiSet Gen.Tables Model.PercentEncoding
  Model.HostT Model.UrlRecord Model.Parser Model.Setters Model.WF Model.KnownC01 Model.KnownC07 Spec.Whatwg
  Proofs.ListN Proofs.C03_WF Proofs.C06_List Proofs.C06_WFI Proofs.C06_Tail Proofs.C06_Suffix Proofs.C06_Front
  Proofs.C06_Steps Proofs.C06_FragQuery Proofs.C06_Path Proofs.C02_Parts Proofs.C08_Input
  Proofs.C01_Tables Proofs.C01_EqRun Proofs.C01_EqPathSpec Proofs.C01_EqPath Proofs.C01_EqSpSpec Proofs.C01_EqSpPath
  Proofs.C07_Defs Proofs.C07_Corr Proofs.C07_SpecRun Proofs.C07_SpecProto Proofs.C07_EqProto Proofs.C07_EqSix
  Proofs.C02_Path Proofs.C06_PathNoAuth Proofs.C07_SpecPath Proofs.C07_PathText Proofs.C07_PathKnown Proofs.C07_PathMarker.

(* ---------- the first byte of the value ---------- *)
Lemma head_is c (r : list N) k :
  (match c :: r with x :: _ => x =? k | [] => false end) = (c =? k).
Proof. reflexivity. Qed.

Lemma head47 c (r : list N) : (match c :: r with 47 :: _ => true | _ => false end) = (c =? 47).
Proof.
  destruct (c =? 47) eqn:E; [apply N.eqb_eq in E; subst c; reflexivity|].
  destruct c as [|p]; [reflexivity|].
  do 7 (try (destruct p as [p|p|]; try reflexivity)); discriminate E.
Qed.

Lemma head92 c (r : list N) : (match c :: r with 92 :: _ => true | _ => false end) = (c =? 92).
Proof.
  destruct (c =? 92) eqn:E; [apply N.eqb_eq in E; subst c; reflexivity|].
  destruct c as [|p]; [reflexivity|].
  do 8 (try (destruct p as [p|p|]; try reflexivity)); discriminate E.
Qed.

(* the argument url::quirks::set_pathname passes to Url::set_path *)
Definition path_arg (sp hh : bool) (v : list N) : list N :=
  match v with
  | [] => if sp || negb hh then [47] else []
  | c :: _ => if (c =? 47) || (sp && (c =? 92)) then v else 47 :: v
  end.

Section Pathname.
Variable dbg : bool.

Lemma q_set_pathname_arg u v st : cannot_be_a_base u = Some false -> u_scheme_type u = Some st ->
  q_set_pathname dbg u v = Setters.set_path dbg u (path_arg (st_is_special st) (has_host u) v).
Proof.
  intros Ec Es. unfold q_set_pathname. rewrite Ec. cbn [bindo]. rewrite Es. cbn [bindo]. unfold path_arg.
  destruct v as [|c r].
  - cbn [orb andb negb]. rewrite ?andb_false_r, ?orb_false_r. cbn [orb]. destruct (st_is_special st || negb (has_host u)); reflexivity.
  - rewrite (head47 c r), (head92 c r). destruct ((c =? 47) || st_is_special st && (c =? 92)); [reflexivity|].
    cbn [negb]. rewrite orb_true_r. reflexivity.
Qed.

(* ---------- Url::set_path, forwards ---------- *)
Lemma set_path_fwd u p P hh rem : wf_b u = true -> byte_eqb (ser u) (scheme_end u + 1) 47 = true ->
  parse_path_start dbg CSetter (scheme_type_of (nfirstn (scheme_end u) (ser u))) true (nfirstn (path_start u) (ser u)) p
    = POk (nfirstn (path_start u) (ser u) ++ P, hh, rem) ->
  Setters.set_path dbg u p = Some (with_path u P).
Proof.
  intros W Hsl Epp. unfold Setters.set_path. rewrite (take_after_path_eval u W). cbn [bindo].
  destruct (wf_ps_le_path_end u W) as [B5 B6]. pose proof (wf_se_lt_ps u W) as B0.
  destruct (wf_scheme_facts u W) as (Hse & Hc & Hlt).
  set (pe := path_end u) in *. set (ps := path_start u) in *.
  assert (nlen (nfirstn pe (ser u)) = pe) as Lpe by (apply nlen_nfirstn; exact B6).
  assert (cannot_be_a_base (set_ser u (nfirstn pe (ser u))) = Some false) as Ecbb.
  { unfold cannot_be_a_base, u_slice_from. cbn [ser set_ser scheme_end]. rewrite slice_from_o_some by lia. cbn [bindo].
    pose proof Hsl as C1. apply byte_eqb_nnth in C1.
    assert (nnth (nfirstn pe (ser u)) (scheme_end u + 1) = Some 47) as C1'.
    { destruct (N.lt_ge_cases (scheme_end u + 1) pe) as [Hlt1|Hge1].
      - rewrite nnth_nfirstn by lia. exact C1.
      - exfalso. assert (pe = scheme_end u + 1) as Epe by lia.
        pose proof (wf_qf_facts u W) as QF. pose proof (qf_q QF) as Q1. pose proof (qf_f QF) as Q2.
        pose proof (nnth_lt _ _ _ C1). unfold pe, path_end in Epe.
        destruct (query_start u) as [q|].
        + destruct Q1 as (_ & Qb & _). apply byte_eqb_nnth in Qb. rewrite Epe in Qb. congruence.
        + destruct (fragment_start u) as [f|]; [|lia].
          destruct Q2 as (_ & Qb & _). apply byte_eqb_nnth in Qb. rewrite Epe in Qb. congruence. }
    rewrite (nskipn_cons_of_nnth _ _ _ C1'). reflexivity. }
  rewrite Ecbb. cbn [bindo].
  assert (u_scheme_type (set_ser u (nfirstn pe (ser u))) = Some (scheme_type_of (nfirstn (scheme_end u) (ser u)))) as Est.
  { unfold u_scheme_type, scheme, u_slice_to. cbn [ser set_ser scheme_end]. rewrite slice_to_o_some by lia. cbn [bindo].
    rewrite nfirstn_nfirstn by lia. reflexivity. }
  rewrite Est. cbn [bindo].
  cbn [ser set_ser path_start]. unfold truncate. fold ps.
  rewrite nfirstn_nfirstn by lia.
  assert (nlen (nfirstn ps (ser u)) = ps) as Ls0 by (apply nlen_nfirstn; lia).
  fold ps in Epp. rewrite Epp. cbn [unpres bindo].
  unfold restore_after_path. cbn [ser set_ser query_start fragment_start]. rewrite Lpe.
  assert (match query_start u with Some i => pe <= i | None => True end) as Gq.
  { unfold pe, path_end. destruct (query_start u); [lia | exact I]. }
  assert (match fragment_start u with Some i => pe <= i | None => True end) as Gf.
  { pose proof (qf_qf (wf_qf_facts u W)) as Q3. unfold pe, path_end.
    destruct (query_start u), (fragment_start u); try exact I; lia. }
  rewrite !adjust_opt_ok by assumption. cbn [bindo].
  f_equal. unfold with_path. fold pe ps. rewrite nlen_app, Ls0. rewrite <- app_assoc. reflexivity.
Qed.


(* ---------- the value against the two path start states ---------- *)
Lemma spathO_nil_sp : spathO true [] [] [] = [[]].
Proof. vm_compute. reflexivity. Qed.

Lemma set_path_nil_same u0 : su_path u0 = SPList [] -> Whatwg.set_path u0 (SPList []) = u0.
Proof. destruct u0; cbn; intros ->; reflexivity. Qed.

Lemma spathO_nil_ns : spathO false [] [] [] = [[]].
Proof. vm_compute. reflexivity. Qed.

(* the shape of the new list of segments: empty (empty value on a URL with a host), or the override path state on
   the value without its leading '/' / on the whole value when it is not led by '/' *)
Definition segs_shape (hnull : bool) (t : list N) (segs : list (list N)) : Prop :=
  (hnull = false /\ segs = [])
  \/ exists x, segs = spathO false x [] [] /\ (t = 47 :: x \/ (t = x /\ starts_with_byte 47 x = false)).

Lemma path_text_ns s0 u0 v hh : usv_list v -> su_path u0 = SPList [] -> is_special u0 = false ->
  (if host_is_null (su_host u0) then hh = false
   else (match ntnl v with [] => true | _ => false end) && (negb (match v with [] => true | _ => false end) || negb hh) = false) ->
  has_drive_segment (ntnl v) && has_dotdot (ntnl v) = false ->
  (match v with c :: _ => is_tnl c | [] => false end) && starts_with_byte 47 (ntnl v) = false ->
  exists segs rem,
    parse_path_start dbg CSetter STNotSpecial true s0 (path_arg false hh v)
    = POk (s0 ++ flat_map (fun s => 47 :: s) segs, true, rem)
    /\ pstartO u0 (ntnl v) = Whatwg.set_path u0 (SPList segs)
    /\ forallb C06_WFI.no_qh (flat_map (fun s => 47 :: s) segs) = true
    /\ segs_shape (host_is_null (su_host u0)) (ntnl v) segs.
Proof.
  intros Hu HP Hsp K5 K1 K9. destruct v as [|c r].
  - destruct (host_is_null (su_host u0)) eqn:Hnull.
    + subst hh. unfold path_arg. cbn [orb negb].
      assert (usv_list [47]) as Hu' by (apply usv_cons; split; [left; lia | constructor]).
      destruct (pps_setter_exact_ns dbg s0 [47] [] true Hu' (inp_next_cons 47 [] eq_refl) (known1_okO false [] eq_refl)) as [rem E].
      exists (spathO false (ntnl []) [] []), rem. split; [exact E|]. split; [|split; [apply spathO_flat_no_qh|]].
      * unfold pstartO. rewrite Hsp, Hnull. cbn [ntnl filter]. rewrite spathO_nil_ns. reflexivity.
      * right. exists []. split; [reflexivity|]. right. split; reflexivity.
    + cbn [ntnl filter andb negb orb] in K5. destruct hh; [|discriminate K5].
      exists [], []. unfold path_arg. cbn [orb negb flat_map]. rewrite app_nil_r.
      split; [apply pps_setter_empty_ns; [constructor | reflexivity]|].
      split; [|split; [reflexivity | left; split; reflexivity]].
      unfold pstartO. rewrite Hsp, Hnull. cbn [ntnl filter]. symmetry. exact (set_path_nil_same u0 HP).
  - unfold path_arg. cbn [andb]. rewrite orb_false_r. destruct (c =? 47) eqn:E47.
    + apply N.eqb_eq in E47. subst c. rewrite (ntnl_cons 47 r eq_refl) in *.
      destruct (pps_setter_exact_ns dbg s0 (47 :: r) r true Hu (inp_next_cons 47 r eq_refl)
                  (known1_okO_tail false 47 (ntnl r) eq_refl K1)) as [rem E].
      exists (spathO false (ntnl r) [] []), rem. split; [exact E|]. split; [|split; [apply spathO_flat_no_qh|]].
      * unfold pstartO. rewrite Hsp. reflexivity.
      * right. exists (ntnl r). split; [reflexivity | left; reflexivity].
    + assert (usv_list (47 :: c :: r)) as Hu' by (apply usv_cons; split; [left; lia | exact Hu]).
      destruct (pps_setter_exact_ns dbg s0 (47 :: c :: r) (c :: r) true Hu' (inp_next_cons 47 (c :: r) eq_refl)
                  (known1_okO false (ntnl (c :: r)) K1)) as [rem E].
      exists (spathO false (ntnl (c :: r)) [] []), rem. split; [exact E|].
      cbn iota in K9.
      assert (starts_with_byte 47 (ntnl (c :: r)) = false) as Hsb.
      { destruct (is_tnl c) eqn:Et; [exact K9|]. rewrite (ntnl_cons c r Et). exact E47. }
      split; [|split; [apply spathO_flat_no_qh|]].
      * unfold pstartO. rewrite Hsp.
        destruct (ntnl (c :: r)) as [|d t'] eqn:Ent.
        -- destruct (host_is_null (su_host u0)); [rewrite spathO_nil_ns; reflexivity|].
           destruct (is_tnl c) eqn:Et; [|rewrite (ntnl_cons c r Et) in Ent; discriminate Ent].
           cbn [andb negb orb] in K5. discriminate K5.
        -- cbn [starts_with_byte] in Hsb. rewrite Hsb. reflexivity.
      * right. exists (ntnl (c :: r)). split; [reflexivity|]. right. split; [reflexivity | exact Hsb].
Qed.

Lemma path_text_sp s0 u0 v hh : usv_list v -> su_path u0 = SPList [] -> is_special u0 = true ->
  has_drive_segment (ntnl v) && has_dotdot (ntnl v) = false ->
  (match v with c :: _ => is_tnl c | [] => false end) && (starts_with_byte 47 (ntnl v) || starts_with_byte 92 (ntnl v)) = false ->
  exists segs rem,
    parse_path_start dbg CSetter STSpecialNotFile true s0 (path_arg true hh v)
    = POk (s0 ++ flat_map (fun s => 47 :: s) segs, true, rem)
    /\ pstartO u0 (ntnl v) = Whatwg.set_path u0 (SPList segs)
    /\ forallb C06_WFI.no_qh (flat_map (fun s => 47 :: s) segs) = true.
Proof.
  intros Hu HP Hsp K1 K9.
  assert (usv_list (47 :: v)) as Hu' by (apply usv_cons; split; [left; lia | exact Hu]).
  destruct v as [|c r].
  - unfold path_arg. cbn [orb].
    destruct (pps_setter_exact_sp dbg s0 47 [] true Hu' eq_refl (known1_okO true [] eq_refl)) as [rem E].
    exists (spathO true (ntnl []) [] []), rem. split; [exact E|]. split; [|apply spathO_flat_no_qh].
    unfold pstartO. rewrite Hsp. cbn [ntnl filter]. rewrite spathO_nil_sp. reflexivity.
  - unfold path_arg. cbn [andb]. change ((c =? 47) || (c =? 92)) with (is_sl c). destruct (is_sl c) eqn:Esl.
    + assert (is_tnl c = false) as Et by (unfold is_sl in Esl; unfold is_tnl; lia).
      rewrite (ntnl_cons c r Et) in *.
      destruct (pps_setter_exact_sp dbg s0 c r true Hu Esl (known1_okO_tail true c (ntnl r) Esl K1)) as [rem E].
      exists (spathO true (ntnl r) [] []), rem. split; [exact E|]. split; [|apply spathO_flat_no_qh].
      unfold pstartO. rewrite Hsp, sepc_true, Esl. reflexivity.
    + destruct (pps_setter_exact_sp dbg s0 47 (c :: r) true Hu' eq_refl (known1_okO true (ntnl (c :: r)) K1)) as [rem E].
      exists (spathO true (ntnl (c :: r)) [] []), rem. split; [exact E|]. split; [|apply spathO_flat_no_qh].
      unfold pstartO. rewrite Hsp. cbn iota in K9.
      destruct (is_tnl c) eqn:Et.
      * destruct (ntnl (c :: r)) as [|d t'] eqn:Ent; [rewrite spathO_nil_sp; reflexivity|].
        cbn [starts_with_byte andb] in K9. rewrite sepc_true. unfold is_sl. rewrite K9. reflexivity.
      * rewrite (ntnl_cons c r Et). rewrite sepc_true, Esl. reflexivity.
Qed.

End Pathname.

(* ---------- the records ---------- *)
Section Records.
Variable dbg : bool.
Variable hp ho : list N -> result host.
Variable hd : host -> list N.
Variable shp : bool -> list N -> option spec_host.
Variable shs : spec_host -> list N.

Lemma sane_set_path su segs : sane su -> sane (Whatwg.set_path su (SPList segs)).
Proof. intros [A B C]. constructor; [exact A | exact B | intros H; discriminate H]. Qed.

Lemma corr_with_path u su segs : corr dbg shs u su -> has_authority_b u = true ->
  forallb C06_WFI.no_qh (flat_map (fun s => 47 :: s) segs) = true ->
  corr dbg shs (with_path u (flat_map (fun s => 47 :: s) segs)) (Whatwg.set_path su (SPList segs)).
Proof.
  intros C Ha HQ. pose proof (co_wf _ _ _ _ C) as W.
  set (P := flat_map (fun s => 47 :: s) segs) in *.
  assert (P = [] \/ exists r, P = 47 :: r) as HP2 by (unfold P; destruct segs; [left | right; eexists]; reflexivity).
  pose proof (wp_wf u P W Ha HQ HP2) as W'.
  destruct (wp_front dbg u P W Ha HQ HP2) as (F1 & F2 & F3 & F4 & F5).
  pose proof (wp_has_authority u P W Ha) as Ha'.
  constructor.
  - exact W'.
  - exact (wp_host_text_ok u P W Ha HP2 (co_ht _ _ _ _ C)).
  - rewrite F1. exact (co_scheme _ _ _ _ C).
  - rewrite F2. exact (co_user _ _ _ _ C).
  - rewrite F3. exact (co_pass _ _ _ _ C).
  - rewrite F4. exact (co_host _ _ _ _ C).
  - exact (co_hh _ _ _ _ C).
  - rewrite Ha', <- Ha. exact (co_auth _ _ _ _ C).
  - rewrite Ha', <- Ha. exact (co_at _ _ _ _ C).
  - rewrite F5. exact (co_port _ _ _ _ C).
  - exact (wp_path u P W Ha HQ HP2).
  - rewrite (wp_query dbg u P W Ha HQ HP2). exact (co_query _ _ _ _ C).
  - rewrite (wp_fragment dbg u P W Ha HQ HP2). exact (co_frag _ _ _ _ C).
  - rewrite Ha'. cbn [negb andb]. unfold spec_marker. cbn [su_host Whatwg.set_path].
    pose proof (co_auth _ _ _ _ C) as K. rewrite Ha in K. destruct (su_host su); [reflexivity | discriminate K].
  - rewrite (is_opaque_by_path _ P W' (wp_path u P W Ha HQ HP2)), Ha'. reflexivity.
  - exact (co_uclean _ _ _ _ C).
Qed.

(* an opaque path: the assignment is ignored on both sides *)
Theorem pathname_step_opaque u su v : corrS dbg shs u su -> has_opaque_path su = true ->
  exists u' su', model_set dbg hp ho hd QPathname u v = Some u' /\ spec_step shp QPathname su v = Some su'
    /\ corrS dbg shs u' su'.
Proof.
  intros [C S] Hop. pose proof (co_wf _ _ _ _ C) as W.
  pose proof (cannot_be_a_base_eval u W) as Ecb.
  change (negb (byte_eqb (ser u) (scheme_end u + 1) 47)) with (is_opaque_b u) in Ecb.
  rewrite (co_opaque _ _ _ _ C), Hop in Ecb.
  exists u, su. cbn [model_set]. unfold q_set_pathname. rewrite Ecb. cbn [bindo].
  unfold spec_step. cbn [setter_of_q]. rewrite (spec_pathname_opaque shp su v Hop).
  split; [reflexivity|]. split; [reflexivity | split; assumption].
Qed.

(* an authority: the Standard's pathname setter, outside classes 1, 3, 4, 5, 9 of Known_C07 *)
Theorem pathname_step_auth u su v : corrS dbg shs u su -> usv_list v -> known_c07 u QPathname v = 0 ->
  has_authority_b u = true ->
  exists u' su', model_set dbg hp ho hd QPathname u v = Some u' /\ spec_step shp QPathname su v = Some su'
    /\ corrS dbg shs u' su'.
Proof.
  intros [C S] Hv Hk Ha. pose proof (co_wf _ _ _ _ C) as W.
  assert (byte_eqb (ser u) (scheme_end u + 1) 47 = true) as Hsl.
  { pose proof Ha as Ha2. unfold has_authority_b in Ha2. apply css_bytes in Ha2. destruct Ha2 as (_ & C1 & _).
    apply byte_eqb_true_iff. exact C1. }
  pose proof (cannot_be_a_base_eval u W) as Ecb. rewrite Hsl in Ecb. cbn [negb] in Ecb.
  assert (has_opaque_path su = false) as Hop.
  { rewrite <- (co_opaque _ _ _ _ C). unfold is_opaque_b. rewrite Hsl. reflexivity. }
  unfold known_c07, u_cbb, u_scheme_or_empty, u_path_or_empty, u_has_authority in Hk.
  rewrite Ecb, (co_scheme _ _ _ _ C), (co_path _ _ _ _ C), (has_authority_eval false u W), Ha in Hk.
  destruct (list_eqb (su_scheme su) s_file) eqn:Ef; [discriminate Hk|].
  match type of Hk with (if ?b then _ else _) = _ => destruct b eqn:E3; [discriminate Hk|] end.
  match type of Hk with (if ?b then _ else _) = _ => destruct b eqn:K1; [discriminate Hk|] end.
  match type of Hk with (if ?b then _ else _) = _ => destruct b eqn:K5; [discriminate Hk|] end.
  match type of Hk with (if ?b then _ else _) = _ => destruct b eqn:K9; [discriminate Hk|] end.
  clear Hk E3. change (no_tnl v) with (ntnl v) in *. change s_file with str_file in Ef.
  pose proof (special_schemes_are_the_standards (su_scheme su)) as Esp. fold (is_special su) in Esp.
  rewrite Esp in K5, K9.
  assert (st_is_file (scheme_type_of (su_scheme su)) = false) as Enf by (rewrite file_test_same; exact Ef).
  assert (scheme_type_of (su_scheme su) = if is_special su then STSpecialNotFile else STNotSpecial) as Est.
  { rewrite <- Esp. destruct (scheme_type_of (su_scheme su)); [discriminate Enf | reflexivity | reflexivity]. }
  assert (nfirstn (scheme_end u) (ser u) = su_scheme su) as Esch.
  { pose proof (co_scheme _ _ _ _ C) as K. destruct (wf_scheme_facts u W) as (_ & _ & Hlt).
    unfold scheme, u_slice_to in K. rewrite slice_to_o_some in K by lia. injection K as K. exact K. }
  assert (u_scheme_type u = Some (scheme_type_of (su_scheme su))) as Eust.
  { unfold u_scheme_type. rewrite (co_scheme _ _ _ _ C). reflexivity. }
  cbn [model_set]. rewrite (q_set_pathname_arg dbg u v _ Ecb Eust), Esp.
  unfold spec_step. cbn [setter_of_q]. rewrite (spec_pathname_closed shp su v Hop Ef). change (notnl v) with (ntnl v).
  set (u0 := Whatwg.set_path su (SPList [])).
  assert (exists segs rem,
            parse_path_start dbg CSetter (scheme_type_of (su_scheme su)) true (nfirstn (path_start u) (ser u))
              (path_arg (is_special su) (has_host u) v)
            = POk (nfirstn (path_start u) (ser u) ++ flat_map (fun s => 47 :: s) segs, true, rem)
            /\ pstartO u0 (ntnl v) = Whatwg.set_path u0 (SPList segs)
            /\ forallb C06_WFI.no_qh (flat_map (fun s => 47 :: s) segs) = true) as (segs & rem & Epp & Espec & HQ).
  { rewrite Est. destruct (is_special su) eqn:Es.
    - apply path_text_sp; [exact Hv | reflexivity | exact Es | exact K1 | exact K9].
    - assert (host_is_null (su_host u0) = false) as Hnull.
      { unfold u0. cbn [su_host Whatwg.set_path]. pose proof (co_auth _ _ _ _ C) as K. rewrite Ha in K.
        destruct (su_host su); [reflexivity | discriminate K]. }
      destruct (path_text_ns dbg (nfirstn (path_start u) (ser u)) u0 v (has_host u) Hv eq_refl Es) as (segs & rem & A1 & A2 & A3 & _).
      + rewrite Hnull. cbn [negb andb] in K5. exact K5.
      + exact K1.
      + cbn [andb] in K9. rewrite orb_false_r in K9. exact K9.
      + exists segs, rem. split; [exact A1|]. split; assumption. }
  rewrite <- Esch in Epp.
  rewrite (set_path_fwd dbg u _ _ true rem W Hsl Epp).
  exists (with_path u (flat_map (fun s => 47 :: s) segs)), (Whatwg.set_path su (SPList segs)).
  split; [reflexivity|]. split; [rewrite Espec; unfold u0; destruct su; reflexivity|].
  split; [exact (corr_with_path u su segs C Ha HQ) | exact (sane_set_path su segs S)].
Qed.

(* ---------- no host: no authority, a '/'-led path, no marker ---------- *)
Lemma spathO_ns_no_slash x : forallb no_slash (spathO false x [] []) = true.
Proof. rewrite spathO_ns. apply spath_no_slash; reflexivity. Qed.

Lemma flat_not_ss segs : forallb no_slash segs = true -> head_empty segs = false ->
  starts_with s_ss (flat_map (fun s => 47 :: s) segs) = false.
Proof.
  intros Hn Hh. destruct segs as [|p0 rest]; [reflexivity|].
  pose proof (marker_flat (p0 :: rest) ltac:(discriminate) Hn) as M. unfold marker_of in M.
  destruct (starts_with s_ss (flat_map (fun s => 47 :: s) (p0 :: rest))); [|reflexivity].
  destruct rest as [|p1 rest]; [discriminate M|]. cbn [head_empty] in Hh. rewrite Hh in M. discriminate M.
Qed.

Lemma corr_with_path_noauth u su segs : corr dbg shs u su -> has_authority_b u = false ->
  path_start u = scheme_end u + 1 -> segs <> [] ->
  forallb C06_WFI.no_qh (flat_map (fun s => 47 :: s) segs) = true ->
  forallb no_slash segs = true -> head_empty segs = false ->
  corr dbg shs (with_path u (flat_map (fun s => 47 :: s) segs)) (Whatwg.set_path su (SPList segs)).
Proof.
  intros C Ha Hnm Hne HQ Hns Hhe. pose proof (co_wf _ _ _ _ C) as W.
  pose proof (flat_not_ss segs Hns Hhe) as HS.
  set (P := flat_map (fun s => 47 :: s) segs) in *.
  assert (exists r, P = 47 :: r) as [r0 EP] by (unfold P; destruct segs; [contradiction | eexists; reflexivity]).
  assert (P = [] \/ exists r, P = 47 :: r) as HP2 by (right; exists r0; exact EP).
  pose proof (wn_wf u P W Ha Hnm HQ HP2 HS) as W'.
  destruct (wn_front dbg u P W Ha Hnm HQ HP2 HS) as (F1 & F2 & F3 & F4 & F5).
  pose proof (wn_has_authority u P W Ha Hnm HP2 HS) as Ha'.
  pose proof (wn_path u P W Ha Hnm HQ HP2 HS) as Hpath.
  pose proof (co_auth _ _ _ _ C) as Kh. rewrite Ha in Kh.
  constructor.
  - exact W'.
  - exact (wn_host_text_ok u P W Ha).
  - rewrite F1. exact (co_scheme _ _ _ _ C).
  - rewrite F2. exact (co_user _ _ _ _ C).
  - rewrite F3. exact (co_pass _ _ _ _ C).
  - rewrite F4. exact (co_host _ _ _ _ C).
  - exact (co_hh _ _ _ _ C).
  - rewrite Ha', <- Ha. exact (co_auth _ _ _ _ C).
  - rewrite Ha', <- Ha. exact (co_at _ _ _ _ C).
  - rewrite F5. exact (co_port _ _ _ _ C).
  - exact Hpath.
  - rewrite (wn_query dbg u P W Ha Hnm HQ HP2 HS). exact (co_query _ _ _ _ C).
  - rewrite (wn_fragment dbg u P W Ha Hnm HQ HP2 HS). exact (co_frag _ _ _ _ C).
  - rewrite Ha'. cbn [negb andb]. change (path_start (with_path u P)) with (path_start u).
    change (scheme_end (with_path u P)) with (scheme_end u). rewrite Hnm.
    replace (scheme_end u + 1 =? scheme_end u + 3) with false by lia.
    unfold spec_marker. cbn [su_host su_path Whatwg.set_path].
    destruct (su_host su); [discriminate Kh|]. symmetry. exact Hhe.
  - rewrite (is_opaque_by_path _ P W' Hpath), Ha'. rewrite EP. cbn [starts_with]. change (47 =? 47) with true.
    cbn [andb negb]. rewrite andb_false_r. reflexivity.
  - exact (co_uclean _ _ _ _ C).
Qed.

Theorem pathname_step_noauth u su v : corrS dbg shs u su -> usv_list v -> known_c07 u QPathname v = 0 ->
  has_authority_b u = false -> has_opaque_path su = false ->
  exists u' su', model_set dbg hp ho hd QPathname u v = Some u' /\ spec_step shp QPathname su v = Some su'
    /\ corrS dbg shs u' su'.
Proof.
  intros [C S] Hv Hk Ha Hop. pose proof (co_wf _ _ _ _ C) as W.
  pose proof (wf_noauth_facts u W Ha) as F.
  assert (has_host u = false) as Hh by (unfold has_host; rewrite (nf_host F); reflexivity).
  assert (byte_eqb (ser u) (scheme_end u + 1) 47 = true) as Hsl.
  { pose proof (co_opaque _ _ _ _ C) as K. rewrite Hop in K. unfold is_opaque_b in K. apply negb_false_iff in K. exact K. }
  pose proof (cannot_be_a_base_eval u W) as Ecb. rewrite Hsl in Ecb. cbn [negb] in Ecb.
  pose proof (co_auth _ _ _ _ C) as Kh. rewrite Ha in Kh.
  assert (su_host su = None) as Ehost by (destruct (su_host su); [discriminate Kh | reflexivity]).
  unfold known_c07, u_cbb, u_scheme_or_empty, u_path_or_empty, u_has_authority in Hk.
  rewrite Ecb, (co_scheme _ _ _ _ C), (co_path _ _ _ _ C), (has_authority_eval false u W), Ha, Hh in Hk.
  destruct (list_eqb (su_scheme su) s_file) eqn:Ef; [discriminate Hk|].
  match type of Hk with (if ?b then _ else _) = _ => destruct b eqn:E3; [discriminate Hk|] end.
  match type of Hk with (if ?b then _ else _) = _ => destruct b eqn:K1; [discriminate Hk|] end.
  match type of Hk with (if ?b then _ else _) = _ => destruct b eqn:K5; [discriminate Hk|] end.
  match type of Hk with (if ?b then _ else _) = _ => destruct b eqn:K9; [discriminate Hk|] end.
  clear Hk K5. change (no_tnl v) with (ntnl v) in *. change s_file with str_file in Ef.
  cbn [negb andb] in E3. apply orb_false_iff in E3. destruct E3 as [E3a E3b].
  apply orb_false_iff in E3b. destruct E3b as [E3b E3c].
  (* not special *)
  assert (is_special su = false) as Es.
  { destruct (is_special su) eqn:E; [|reflexivity]. destruct (sa_special su S E) as [K _]. rewrite Ehost in K. discriminate K. }
  pose proof (special_schemes_are_the_standards (su_scheme su)) as Esp. fold (is_special su) in Esp. rewrite Es in Esp.
  rewrite Esp in K9. cbn [andb] in K9. rewrite orb_false_r in K9.
  (* no marker *)
  assert (path_start u = scheme_end u + 1) as Hnm.
  { destruct (nf_ps F) as [X|(X & _)]; [exact X|]. exfalso.
    pose proof (co_marker _ _ _ _ C) as M. rewrite Ha, X, N.eqb_refl in M. cbn [negb andb] in M.
    unfold spec_marker in M. rewrite Ehost in M. unfold serialize_path in E3a.
    destruct (su_path su) as [o|[|p0 [|p1 pr]]]; try discriminate M.
    destruct p0; [|discriminate M]. cbn in E3a. discriminate E3a. }
  assert (st_is_file (scheme_type_of (su_scheme su)) = false) as Enf by (rewrite file_test_same; exact Ef).
  assert (scheme_type_of (su_scheme su) = STNotSpecial) as Est.
  { destruct (scheme_type_of (su_scheme su)); [discriminate Enf | discriminate Esp | reflexivity]. }
  assert (nfirstn (scheme_end u) (ser u) = su_scheme su) as Esch.
  { pose proof (co_scheme _ _ _ _ C) as K. destruct (wf_scheme_facts u W) as (_ & _ & Hlt).
    unfold scheme, u_slice_to in K. rewrite slice_to_o_some in K by lia. injection K as K. exact K. }
  assert (u_scheme_type u = Some (scheme_type_of (su_scheme su))) as Eust.
  { unfold u_scheme_type. rewrite (co_scheme _ _ _ _ C). reflexivity. }
  cbn [model_set]. rewrite (q_set_pathname_arg dbg u v _ Ecb Eust), Esp, Hh.
  unfold spec_step. cbn [setter_of_q]. rewrite (spec_pathname_closed shp su v Hop Ef). change (notnl v) with (ntnl v).
  set (u0 := Whatwg.set_path su (SPList [])).
  assert (host_is_null (su_host u0) = true) as Hnull by (unfold u0; cbn [su_host Whatwg.set_path]; rewrite Ehost; reflexivity).
  destruct (path_text_ns dbg (nfirstn (path_start u) (ser u)) u0 v false Hv eq_refl Es) as (segs & rem & Epp & Espec & HQ & Hshape);
    [rewrite Hnull; reflexivity | exact K1 | exact K9 |].
  rewrite Hnull in Hshape. destruct Hshape as [[X _]|(x & -> & Hx)]; [discriminate X|].
  rewrite <- Est, <- Esch in Epp.
  rewrite (set_path_fwd dbg u _ _ true rem W Hsl Epp).
  exists (with_path u (flat_map (fun s => 47 :: s) (spathO false x [] []))), (Whatwg.set_path su (SPList (spathO false x [] []))).
  split; [reflexivity|]. split; [rewrite Espec; unfold u0; destruct su; reflexivity|].
  split; [|exact (sane_set_path su _ S)].
  apply corr_with_path_noauth; [exact C | exact Ha | exact Hnm | apply spathO_nonempty | exact HQ | apply spathO_ns_no_slash|].
  destruct Hx as [Et|[Et Hsb]].
  - rewrite Et in E3b, E3c. exact (no_marker_tail x E3b E3c).
  - rewrite Et in E3c. exact (no_marker x Hsb E3c).
Qed.

(* ---------- pathname: every corrS pair, outside Known_C07 ---------- *)
Theorem pathname_step u su v : corrS dbg shs u su -> usv_list v -> known_c07 u QPathname v = 0 ->
  exists u' su', model_set dbg hp ho hd QPathname u v = Some u' /\ spec_step shp QPathname su v = Some su'
    /\ corrS dbg shs u' su'.
Proof.
  intros CS Hv Hk. destruct (has_opaque_path su) eqn:Hop; [exact (pathname_step_opaque u su v CS Hop)|].
  destruct (has_authority_b u) eqn:Ha.
  - exact (pathname_step_auth u su v CS Hv Hk Ha).
  - exact (pathname_step_noauth u su v CS Hv Hk Ha Hop).
Qed.

Theorem pathname_step_api u su v : corrS dbg shs u su -> usv_list v -> known_c07 u QPathname v = 0 ->
  exists u' su', model_set dbg hp ho hd QPathname u v = Some u' /\ spec_step shp QPathname su v = Some su'
    /\ corrS dbg shs u' su' /\ model_api dbg u' = Some (spec_api_list shs su').
Proof.
  intros CS Hv Hk. destruct (pathname_step u su v CS Hv Hk) as (u' & su' & A & B & C').
  exists u', su'. split; [exact A|]. split; [exact B|]. split; [exact C'|]. exact (corr_api dbg shs u' su' (proj1 C')).
Qed.

End Records.
