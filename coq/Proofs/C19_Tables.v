(* Proofs/C19_Tables.v - the regenerated MIME tables are the sets the standards name. *)
From RU Require Import Base.Prelude Base.Utf8 Gen.Tables Model.Mime.

(* RFC 7230 tchar = "!" / "#" / "$" / "%" / "&" / "'" / "*" / "+" / "-" / "." / "^" / "_" / "`" / "|" / "~"
   / DIGIT / ALPHA  (= the HTTP token code points of the MIME Sniffing Standard) *)
Definition TCHAR_PUNCT : list N := [33; 35; 36; 37; 38; 39; 42; 43; 45; 46; 94; 95; 96; 124; 126].
Definition rfc7230_tchar (c : N) : bool := is_alnum c || memb c TCHAR_PUNCT.

Lemma is_http_token_table_sweep :
  all_below 256 (fun b => match nth_error T_IS_HTTP_TOKEN (N.to_nat b) with
                          | Some f => Bool.eqb f (rfc7230_tchar b)
                          | None => false
                          end) = true.
Proof. vm_compute. reflexivity. Qed.

Lemma is_http_token_at_spec b : b < 256 -> is_http_token_at b = Ok (rfc7230_tchar b).
Proof.
  intros Hb. pose proof (all_below_spec _ _ is_http_token_table_sweep b Hb) as H. cbv beta in H.
  unfold is_http_token_at.
  destruct (nth_error T_IS_HTTP_TOKEN (N.to_nat b)) as [f|] eqn:E; [|discriminate H].
  apply Bool.eqb_prop in H. rewrite H. reflexivity.
Qed.

Lemma is_http_token_table_length : length T_IS_HTTP_TOKEN = 256%nat.
Proof. vm_compute. reflexivity. Qed.

Lemma tchar_ascii c : rfc7230_tchar c = true -> c < 128.
Proof.
  unfold rfc7230_tchar, is_alnum, is_alpha, is_upper, is_lower, is_digit, TCHAR_PUNCT. cbn [memb]. lia.
Qed.

Lemma http_whitespace_spec c : http_whitespace c = memb c [9; 10; 13; 32].
Proof. unfold http_whitespace, in_ranges, T_HTTP_WHITESPACE. cbn [existsb fst snd memb]. lia. Qed.

Lemma valid_value_char_spec c :
  valid_value_char c = ((c =? 9) || ((32 <=? c) && (c <=? 126)) || ((128 <=? c) && (c <=? 255))).
Proof. unfold valid_value_char, in_ranges, T_VALID_VALUE. cbn [existsb fst snd]. lia. Qed.

Lemma mime_escaped_spec c : memb c T_MIME_ESCAPED = ((c =? 34) || (c =? 92)).
Proof. unfold T_MIME_ESCAPED. cbn [memb]. lia. Qed.
