(* Proofs/C05_Parser.v - every parser function preserves "all bytes of the serialization satisfy P"
   for any P that holds on 0x21..0x7E (instantiated with ok_byte and with ok_or_space), one lemma per
   function of Model/Parser.v.  The opaque-path state is the only one that needs P 0x20. *)
From RU Require Import Base.Prelude Base.Utf8 Base.Utf8Facts Model.AsciiSet Gen.Tables Model.PercentEncoding
  Model.HostT Model.UrlRecord Model.Parser Proofs.ListN Proofs.C14_Set Proofs.C14_Enc Proofs.C14_Views Proofs.C05_Enc.

Lemma pbind_ok {A B} (x : pres A) (f : A -> pres B) b :
  pbind x f = POk b -> exists a, x = POk a /\ f a = POk b.
Proof. destruct x; cbn [pbind]; intros H; [eauto | discriminate | discriminate]. Qed.

Ltac lit_list l := lazymatch l with | nil => idtac | cons _ ?r => lit_list r end.

Ltac pb H a Ha := apply pbind_ok in H; destruct H as (a & Ha & H).

Lemma of_option_ok {A} (o : option A) a : of_option o = POk a -> o = Some a.
Proof. destruct o; cbn; intros H; [inversion H; reflexivity | discriminate]. Qed.
Lemma of_result_ok {A} (r : result A) a : of_result r = POk a -> r = Ok a.
Proof. destruct r; cbn; intros H; [inversion H; reflexivity | discriminate]. Qed.

(* what push_encoded (= utf8_percent_encode appended to the serialization) adds, per component set.
   `added` is in 0x21..0x7E and contains none of the listed delimiters; text = any code points. *)
Definition adds_clean (set : aset) (D : list N) : Prop :=
  forall ser text, exists added,
    push_encoded set ser text = ser ++ added /\ Forall ok_byte added /\ forall d, In d D -> ~ In d added.

Lemma adds_clean_of set D :
  covers_ctl_b set = true -> covers_list set D = true -> no_pct_hex_b D = true -> adds_clean set D.
Proof.
  intros H1 H2 H3 ser text. eexists. split; [reflexivity|].
  exact (pe_display_clean set D (utf8_encode text) H1 H2 H3).
Qed.


Lemma seg_split S D : covers_list S (37 :: D) = true -> aset_contains S 37 = true /\ covers_list S D = true.
Proof. unfold covers_list. cbn [forallb]. intros H. apply andb_true_iff in H. exact H. Qed.

Lemma path_enc_facts :
  adds_clean T_PATH [63; 35; 32; 34; 60; 62; 96; 123; 125]
  /\ adds_clean T_PATH_SEGMENT [47; 63; 35; 32; 34; 60; 62; 96; 123; 125]
  /\ adds_clean T_SPECIAL_PATH_SEGMENT [92; 47; 63; 35; 32; 34; 60; 62; 96; 123; 125]
  /\ aset_contains T_PATH_SEGMENT 37 = true /\ aset_contains T_SPECIAL_PATH_SEGMENT 37 = true
  /\ (forall text, usv_list text ->
        decode (pe_display T_PATH_SEGMENT (utf8_encode text)) = utf8_encode text
        /\ decode (pe_display T_SPECIAL_PATH_SEGMENT (utf8_encode text)) = utf8_encode text).
Proof.
  destruct (seg_split _ _ (proj2 T_PATH_SEGMENT_facts)) as [A1 B1].
  destruct (seg_split _ _ (proj2 T_SPECIAL_PATH_SEGMENT_facts)) as [A2 B2].
  split; [apply adds_clean_of; [apply T_PATH_facts | apply T_PATH_facts | reflexivity]|].
  split; [apply adds_clean_of; [apply T_PATH_SEGMENT_facts | exact B1 | reflexivity]|].
  split; [apply adds_clean_of; [apply T_SPECIAL_PATH_SEGMENT_facts | exact B2 | reflexivity]|].
  split; [exact A1|]. split; [exact A2|].
  intros text Hu. pose proof (utf8_encode_bytes text Hu) as Hb.
  rewrite !pe_display_is_encode by exact Hb.
  split; apply decode_encode; assumption.
Qed.

Definition okl (P : N -> Prop) (l : list N) : Prop := Forall P l.

(* ---------- decimal ---------- *)
Lemma decimal_rev_ok fuel : forall n, Forall ok_byte (decimal_rev fuel n).
Proof.
  induction fuel as [|f IH]; intros n; cbn [decimal_rev]; [constructor|].
  constructor; [unfold ok_byte; lia|]. destruct (n / 10 =? 0); [constructor | apply IH].
Qed.
Lemma decimal_ok n : Forall ok_byte (decimal n).
Proof. unfold decimal. apply Forall_rev, decimal_rev_ok. Qed.

(* ---------- scheme ---------- *)
Lemma parse_scheme_loop_ok ctx l : forall acc s r,
  parse_scheme_loop ctx acc l = Some (s, r) -> Forall ok_byte acc -> Forall ok_byte s.
Proof.
  induction l as [|c t IH]; intros acc s r H Ha; cbn [parse_scheme_loop] in H.
  - destruct (ctx_eqb ctx CSetter); [|discriminate]. inversion H; subst. apply Forall_rev. exact Ha.
  - destruct (is_tnl c); [eapply IH; eassumption|].
    destruct (is_lower c || is_digit c || (c =? 43) || (c =? 45) || (c =? 46)) eqn:E1.
    { eapply IH; [exact H|]. constructor; [|exact Ha]. unfold is_lower, is_digit, ok_byte in *. lia. }
    destruct (is_upper c) eqn:E2.
    { eapply IH; [exact H|]. constructor; [|exact Ha]. unfold is_upper, ok_byte in *. lia. }
    destruct (c =? 58); [|discriminate]. inversion H; subst. apply Forall_rev. exact Ha.
Qed.

Lemma parse_scheme_ok ctx l s r : parse_scheme ctx l = Some (s, r) -> Forall ok_byte s.
Proof.
  unfold parse_scheme. destruct (inp_starts_with_pred is_alpha l); [|discriminate].
  intros H. eapply parse_scheme_loop_ok; [exact H | constructor].
Qed.


Section Generic.
Variable P : N -> Prop.
Hypothesis P_ok : forall b, ok_byte b -> P b.
Notation okl := (okl P).

Lemma okl_ok l : Forall ok_byte l -> okl l.
Proof. intros H. eapply Forall_impl; [|exact H]. exact P_ok. Qed.
Lemma okl_app a b : okl a -> okl b -> okl (a ++ b).
Proof. intros. apply Forall_app. split; assumption. Qed.
Lemma okl_app_l a b : okl (a ++ b) -> okl a.
Proof. intros H. apply Forall_app in H. tauto. Qed.
Lemma okl_app_r a b : okl (a ++ b) -> okl b.
Proof. intros H. apply Forall_app in H. tauto. Qed.
Lemma okl_nfirstn n l : okl l -> okl (nfirstn n l).
Proof. apply Forall_firstn. Qed.
Lemma okl_nskipn n l : okl l -> okl (nskipn n l).
Proof. apply Forall_skipn. Qed.
Lemma okl_truncate n l : okl l -> okl (truncate l n).
Proof. apply Forall_firstn. Qed.
Lemma okl_drop_while f l : okl l -> okl (drop_while f l).
Proof.
  induction l as [|c r IH]; intros H; cbn [drop_while]; [constructor|].
  destruct (f c); [apply IH; inversion H; assumption | exact H].
Qed.
Lemma okl_rev l : okl l -> okl (rev l).
Proof. apply Forall_rev. Qed.
Lemma okl_slice_o l a b s : slice_o l a b = Some s -> okl l -> okl s.
Proof.
  unfold slice_o. destruct ((a <=? b) && (b <=? nlen l)); [|discriminate].
  intros H Hl. inversion H; subst. apply okl_nfirstn, okl_nskipn. exact Hl.
Qed.
Lemma okl_slice_from_o l a s : slice_from_o l a = Some s -> okl l -> okl s.
Proof.
  unfold slice_from_o. destruct (a <=? nlen l); [|discriminate].
  intros H Hl. inversion H; subst. apply okl_nskipn. exact Hl.
Qed.
Lemma okl_slice_to_o l a s : slice_to_o l a = Some s -> okl l -> okl s.
Proof.
  unfold slice_to_o. destruct (a <=? nlen l); [|discriminate].
  intros H Hl. inversion H; subst. apply okl_nfirstn. exact Hl.
Qed.

Ltac okt_step :=
  match goal with
  | |- _ => assumption
  | |- _ (_ ++ _) => apply okl_app
  | |- _ (nfirstn _ _) => apply okl_nfirstn
  | |- _ (nskipn _ _) => apply okl_nskipn
  | |- _ (truncate _ _) => apply okl_truncate
  | |- _ (drop_while _ _) => apply okl_drop_while
  | |- _ (rev _) => apply okl_rev
  | |- _ (if ?b then _ else _) => destruct b
  | |- _ ?l => lit_list l; solve [apply okl_ok; repeat constructor; unfold ok_byte; lia]
  | |- _ (_ :: _) => constructor; [solve [apply P_ok; unfold ok_byte; lia] |]
  end.
Ltac okt := repeat okt_step.

(* ---------- encoders ---------- *)
Lemma push_encoded_okl set ser text : covers_ctl set -> okl ser -> okl (push_encoded set ser text).
Proof. intros Hc H. unfold push_encoded. apply okl_app; [exact H | apply okl_ok, pe_display_ok; exact Hc]. Qed.

Lemma flush_part_okl set enc ser pr : covers_ctl set -> okl ser -> okl (flush_part set enc ser pr).
Proof. intros Hc H. unfold flush_part. apply okl_app; [exact H | apply okl_ok, pe_display_ok; exact Hc]. Qed.

(* ---------- fragment ---------- *)
Lemma parse_fragment_loop_okl l : forall ser pr, okl ser -> okl (parse_fragment_loop ser pr l).
Proof.
  induction l as [|c r IH]; intros ser pr H; cbn [parse_fragment_loop].
  - destruct pr; [exact H | apply flush_part_okl; [apply T_FRAGMENT_ctl | exact H]].
  - destruct (is_tnl c); apply IH; [apply flush_part_okl; [apply T_FRAGMENT_ctl | exact H] | exact H].
Qed.

Lemma parse_fragment_okl ser l : okl ser -> okl (parse_fragment ser l).
Proof. apply parse_fragment_loop_okl. Qed.

(* ---------- query ---------- *)
Lemma parse_query_loop_okl set enc iup l : covers_ctl set ->
  forall ser pr, okl ser -> okl (fst (parse_query_loop set enc iup ser pr l)).
Proof.
  intros Hc. induction l as [|c r IH]; intros ser pr H; cbn [parse_query_loop].
  - cbn [fst]. destruct pr; [exact H | apply flush_part_okl; assumption].
  - destruct (is_tnl c); [apply IH, flush_part_okl; assumption|].
    destruct ((c =? 35) && iup); [cbn [fst]; apply flush_part_okl; assumption | apply IH; exact H].
Qed.

Lemma query_set_ctl st : covers_ctl (query_set st).
Proof. unfold query_set. destruct (st_is_special st); [apply T_SPECIAL_QUERY_ctl | apply T_QUERY_ctl]. Qed.

Lemma parse_query_okl ovr ctx st se ser l : okl ser -> okl (fst (parse_query ovr ctx st se ser l)).
Proof. intros H. unfold parse_query. apply parse_query_loop_okl; [apply query_set_ctl | exact H]. Qed.

Lemma parse_query_and_fragment_okl ovr ctx st se ser l s qs fs :
  parse_query_and_fragment ovr ctx st se ser l = POk (s, qs, fs) -> okl ser -> okl s.
Proof.
  unfold parse_query_and_fragment. intros H Hs.
  destruct (inp_next l) as [[c r]|]; [|inversion H; subst; exact Hs].
  destruct (c =? 35).
  { pb H f0 Hf0. inversion H; subst. apply parse_fragment_okl. okt. }
  destruct (c =? 63); [|discriminate].
  pb H q0 Hq0.
  pose proof (parse_query_okl ovr ctx st se (ser ++ [63]) r ltac:(okt)) as Hq.
  destruct (parse_query ovr ctx st se (ser ++ [63]) r) as [ser1 rem]. cbn [fst] in Hq.
  destruct rem as [r2|].
  - pb H f0 Hf0. inversion H; subst. apply parse_fragment_okl. okt.
  - inversion H; subst. exact Hq.
Qed.

(* ---------- path ---------- *)
Lemma path_set_ctl ctx st : covers_ctl (path_set ctx st).
Proof.
  unfold path_set. destruct (ctx_eqb ctx CPathSegmentSetter); [|apply T_PATH_ctl].
  destruct (st_is_special st); [apply T_SPECIAL_PATH_SEGMENT_ctl | apply T_PATH_SEGMENT_ctl].
Qed.

Lemma push_pending_okl ctx st ser pr : okl ser -> okl (push_pending ctx st ser pr).
Proof.
  intros H. unfold push_pending. destruct pr; [exact H|]. apply push_encoded_okl; [apply path_set_ctl | exact H].
Qed.

Lemma pop_path_okl st ps ser s : pop_path st ps ser = POk s -> okl ser -> okl s.
Proof.
  unfold pop_path. intros H Hs. destruct (ps <? nlen ser); [|inversion H; subst; exact Hs].
  destruct (rfind 47 (nskipn ps ser)); [|discriminate].
  destruct (st_is_file st && is_normalized_wdl (nskipn (ps + n + 1) ser)); inversion H; subst; okt.
Qed.

Lemma shorten_path_okl st ps ser s : shorten_path st ps ser = POk s -> okl ser -> okl s.
Proof.
  unfold shorten_path. intros H Hs. destruct (nlen ser =? ps); [inversion H; subst; exact Hs|].
  destruct (st_is_file st && is_normalized_wdl (nskipn ps ser)); [inversion H; subst; exact Hs|].
  eapply pop_path_okl; eassumption.
Qed.

Lemma finish_segment_okl dbg st ps ser ss ews hh s hh' :
  finish_segment dbg st ps ser ss ews hh = POk (s, hh') -> okl ser -> okl s.
Proof.
  unfold finish_segment. cbv zeta. intros H Hs.
  pb H seg Hseg. apply of_option_ok in Hseg. pose proof (okl_slice_o _ _ _ _ Hseg Hs) as Hsg.
  destruct (is_double_dot seg).
  { pb H u_ Hu. pb H s3 Hs3. inversion H; subst.
    apply shorten_path_okl in Hs3; [|okt]. okt. }
  destruct (is_single_dot seg); [inversion H; subst; okt|].
  destruct (st_is_file st && (ss =? ps + 1) && is_wdl seg); [|inversion H; subst; exact Hs].
  inversion H; subst. destruct seg as [|c sg]; [exact Hs|].
  inversion Hsg as [|? ? Hc _]; subst.
  apply okl_app; [okt|]. constructor; [exact Hc|].
  constructor; [apply P_ok; unfold ok_byte; lia|]. okt.
Qed.

Lemma file_path_fixup_okl st ps ser : okl ser -> okl (file_path_fixup st ps ser).
Proof. intros H. unfold file_path_fixup. cbv zeta. okt. Qed.

Lemma parse_path_loop_okl dbg ctx st ps l : forall ser ss pr hh s hh' rem,
  parse_path_loop dbg ctx st ps l ser ss pr hh = POk (s, hh', rem) -> okl ser -> okl s.
Proof.
  induction l as [|c r IH]; intros ser ss pr hh s hh' rem H Hs; cbn [parse_path_loop] in H.
  - cbv zeta in H. pb H a Ha. destruct a as [s2 hh2]. inversion H; subst.
    apply file_path_fixup_okl. eapply finish_segment_okl; [exact Ha|]. apply push_pending_okl. exact Hs.
  - cbv zeta in H. destruct (is_tnl c).
    { eapply IH; [exact H|]. apply push_pending_okl. exact Hs. }
    destruct (negb (ctx_eqb ctx CPathSegmentSetter) && ((c =? 47) || (c =? 92) && st_is_special st)).
    { pb H a Ha. destruct a as [s2 hh2]. eapply IH; [exact H|].
      eapply finish_segment_okl; [exact Ha|]. apply okl_app; [apply push_pending_okl; exact Hs | okt]. }
    destruct (((c =? 63) || (c =? 35)) && ctx_eqb ctx CUrlParser).
    { pb H a Ha. destruct a as [s2 hh2]. inversion H; subst.
      apply file_path_fixup_okl. eapply finish_segment_okl; [exact Ha|]. apply push_pending_okl. exact Hs. }
    destruct (st_is_file st && (ps <? nlen ser) && is_normalized_wdl (nskipn (ps + 1) ser)).
    { eapply IH; [exact H|]. apply okl_app; [apply push_pending_okl; exact Hs | okt]. }
    eapply IH; [exact H | exact Hs].
Qed.

Lemma parse_path_okl dbg ctx st hh ps ser l s hh' rem :
  parse_path dbg ctx st hh ps ser l = POk (s, hh', rem) -> okl ser -> okl s.
Proof. unfold parse_path. apply parse_path_loop_okl. Qed.

Lemma parse_path_start_okl dbg ctx st hh ser l s hh' rem :
  parse_path_start dbg ctx st hh ser l = POk (s, hh', rem) -> okl ser -> okl s.
Proof.
  unfold parse_path_start. cbv zeta. intros H Hs.
  destruct (inp_split_first l) as [mc remaining].
  destruct (st_is_special st).
  - destruct (negb (ends_with_byte 47 ser)).
    + destruct mc as [c|]; [destruct (is_slash_or_bslash c)|];
        (eapply parse_path_okl; [exact H | okt]).
    + eapply parse_path_okl; [exact H | okt].
  - destruct mc as [c|].
    + destruct ((c =? 63) || (c =? 35)); [inversion H; subst; exact Hs|].
      destruct (c =? 47); (eapply parse_path_okl; [exact H | okt]).
    + eapply parse_path_okl; [exact H | okt].
Qed.

(* ---------- with_query_and_fragment ---------- *)
Lemma with_query_and_fragment_okl ovr ctx st se ue hs he hi port ps ser rem u :
  with_query_and_fragment ovr ctx st se ue hs he hi port ps ser rem = POk u -> okl ser -> okl (UrlRecord.ser u).
Proof.
  unfold with_query_and_fragment. intros H Hs.
  pb H a Ha. destruct a as [ser1 ps1].
  pb H b Hb. destruct b as [[ser2 qs] fs]. inversion H; subst. cbn [UrlRecord.ser].
  eapply parse_query_and_fragment_okl; [exact Hb|].
  destruct (ps =? se + 1).
  { destruct (starts_with s_ss (nskipn ps ser)); pb Ha u_ Hu; inversion Ha; subst; okt. }
  destruct ((ps =? se + 3) && list_eqb (nfirstn (ps - se) (nskipn se ser)) [58; 47; 46]).
  { pb Ha u_ Hu.
    destruct (nnth ser (ps + 1)) as [x|].
    - destruct (x =? 47) eqn:E47.
      + apply N.eqb_eq in E47. subst x. pb Ha v_ Hv. inversion Ha; subst. exact Hs.
      + assert ((match x with 47 => (ser, ps) | _ => (nfirstn se ser ++ [58] ++ nskipn ps ser, ps - 2) end)
                = (nfirstn se ser ++ [58] ++ nskipn ps ser, ps - 2)) as Ex.
        { destruct x as [|p]; [reflexivity|].
          do 6 (destruct p as [p|p|]; try reflexivity). discriminate. }
        rewrite Ex in Ha. pb Ha v_ Hv. inversion Ha; subst. okt.
    - pb Ha v_ Hv. inversion Ha; subst. okt. }
  inversion Ha; subst. exact Hs.
Qed.

(* ---------- fragment only ---------- *)
Lemma b_before_fragment_okl b : okl (ser b) -> okl (b_before_fragment b).
Proof. intros H. unfold b_before_fragment. destruct (fragment_start b); okt. Qed.
Lemma b_before_query_okl b : okl (ser b) -> okl (b_before_query b).
Proof. intros H. unfold b_before_query. destruct (query_start b); destruct (fragment_start b); okt. Qed.

Lemma fragment_only_okl base l u : fragment_only base l = POk u -> okl (ser base) -> okl (ser u).
Proof.
  unfold fragment_only. cbv zeta. intros H Hs. pb H f0 Hf0. inversion H; subst. cbn [ser].
  apply parse_fragment_okl. apply okl_app; [apply b_before_fragment_okl; exact Hs | okt].
Qed.

(* ---------- userinfo ---------- *)
Lemma userinfo_loop_okl l : forall n ser uend hp hu s uend' hp' hu',
  userinfo_loop l n ser uend hp hu = POk (s, uend', hp', hu') -> okl ser -> okl s.
Proof.
  induction l as [|c r IH]; intros n ser uend hp hu s uend' hp' hu' H Hs; cbn [userinfo_loop] in H.
  - destruct (n =? 0); [inversion H; subst; exact Hs | discriminate].
  - destruct (n =? 0); [inversion H; subst; exact Hs|].
    destruct (is_tnl c); [eapply IH; eassumption|]. cbv zeta in H.
    destruct ((c =? 58) && match uend with None => true | Some _ => false end).
    + pb H ue Hue. destruct (0 <? n - 1); (eapply IH; [exact H | okt]).
    + eapply IH; [exact H|]. apply push_encoded_okl; [apply T_USERINFO_ctl | exact Hs].
Qed.

Lemma parse_userinfo_okl st ser l s ue rem :
  parse_userinfo st ser l = POk (s, ue, rem) -> okl ser -> okl s.
Proof.
  unfold parse_userinfo. intros H Hs.
  destruct (scan_last_at (st_is_special st) l 0 None) as [[n remaining]|].
  - destruct n as [|p].
    + destruct (inp_next remaining) as [[c r]|]; [|discriminate].
      destruct ((c =? 47) || (c =? 63) || (c =? 35) || st_is_special st && (c =? 92)); [discriminate|].
      pb H x Hx. inversion H; subst. exact Hs.
    + pb H a Ha. destruct a as [[[ser1 uend] hp] hu]. pb H x Hx. inversion H; subst.
      apply userinfo_loop_okl in Ha; [|exact Hs]. okt.
  - pb H x Hx. inversion H; subst. exact Hs.
Qed.

(* ---------- decimal ---------- *)
Lemma decimal_okl n : okl (decimal n).
Proof. apply okl_ok, decimal_ok. Qed.

End Generic.

Ltac okt_step_g P_ok :=
  match goal with
  | |- _ => assumption
  | |- _ (_ ++ _) => apply (okl_app _)
  | |- _ (nfirstn _ _) => apply okl_nfirstn
  | |- _ (nskipn _ _) => apply okl_nskipn
  | |- _ (truncate _ _) => apply okl_truncate
  | |- _ (drop_while _ _) => apply okl_drop_while
  | |- _ (rev _) => apply okl_rev
  | |- _ (decimal _) => apply (decimal_okl _ P_ok)
  | |- _ (if ?b then _ else _) => destruct b
  | |- _ ?l => lit_list l; solve [apply (okl_ok _ P_ok); repeat constructor; unfold ok_byte; lia]
  | |- _ (_ :: _) => constructor; [solve [apply P_ok; unfold ok_byte; lia] |]
  end.
Ltac okt P_ok := repeat okt_step_g P_ok.

(* ---------- hosts ---------- *)
(* where a host value written by the parser can come from *)
Definition host_origin (hp hpo : list N -> result host) (h : host) : Prop :=
  h = HDomain [] \/ (exists s, hp s = Ok h) \/ (exists s, hpo s = Ok h).
(* the hypothesis about the host functions: what they produce prints inside 0x21..0x7E *)
Definition HostOK (hp hpo : list N -> result host) (hd : host -> list N) : Prop :=
  forall h, host_origin hp hpo h -> Forall ok_byte (hd h).

(* the input classes that reach the opaque-path state *)
Definition opaque_branch (l : list N) : bool :=
  match inp_split_prefix_str s_ss l with
  | Some _ => false
  | None => match inp_split_prefix_char 47 l with Some _ => false | None => true end
  end.
Definition opaque_input (scheme l : list N) : bool :=
  match scheme_type_of scheme with STNotSpecial => opaque_branch l | _ => false end.
Definition url_opaque_input (input : list N) : bool :=
  match parse_scheme CUrlParser (input_new_trim_c0 input) with
  | Some (scheme, remaining) => opaque_input scheme remaining
  | None => false
  end.

Lemma match47 {A} (c : N) (a b : A) : (match c with 47 => a | _ => b end) = if c =? 47 then a else b.
Proof. destruct c as [|p]; [reflexivity|]. do 6 (destruct p as [p|p|]; try reflexivity). Qed.

Lemma okl_oks (P : N -> Prop) l : P 32 -> (forall b, ok_byte b -> P b) -> Forall ok_or_space l -> okl P l.
Proof.
  intros H32 Hok H. eapply Forall_impl; [|exact H]. intros b Hb. apply ok_or_space_iff in Hb.
  destruct Hb as [Hb| ->]; [apply Hok; exact Hb | exact H32].
Qed.

Lemma split_on_aux_okl (P : N -> Prop) sep l : forall cur, okl P cur -> okl P l -> Forall (okl P) (split_on_aux sep cur l).
Proof.
  induction l as [|x r IH]; intros cur Hc Hl; cbn [split_on_aux].
  - constructor; [apply Forall_rev; exact Hc | constructor].
  - inversion Hl; subst. destruct (x =? sep).
    + constructor; [apply Forall_rev; exact Hc | apply IH; [constructor | assumption]].
    + apply IH; [constructor; assumption | assumption].
Qed.

Section WithHosts.
Variable P : N -> Prop.
Hypothesis P_ok : forall b, ok_byte b -> P b.
Variable dbg : bool.
Variable host_parse host_parse_opaque : list N -> result host.
Variable host_display : host -> list N.
Variable ovr : option (list N -> list N).
Hypothesis HOK : HostOK host_parse host_parse_opaque host_display.
Notation okl := (okl P).
Notation origin := (host_origin host_parse host_parse_opaque).

Lemma host_display_okl h : origin h -> okl (host_display h).
Proof. intros H. apply (okl_ok _ P_ok), HOK. exact H. Qed.

Lemma get_file_host_origin l h rem : get_file_host host_parse l = POk (h, rem) -> origin h.
Proof.
  unfold get_file_host. destruct (file_host l) as [t r]. intros H. pb H h0 Hh0. apply of_result_ok in Hh0.
  inversion H; subst. destruct h0 as [d| |]; try (right; left; eexists; exact Hh0).
  destruct (list_eqb d s_localhost); [left; reflexivity | right; left; eexists; exact Hh0].
Qed.

Lemma parse_host_origin st l h rem : parse_host host_parse host_parse_opaque st l = POk (h, rem) -> origin h.
Proof.
  unfold parse_host. intros H. destruct (st_is_file st); [eapply get_file_host_origin; exact H|].
  destruct (host_scan (st_is_special st) false [] l) as [t r].
  destruct (scheme_type_eqb st STSpecialNotFile && match t with [] => true | _ => false end); [discriminate|].
  destruct (negb (st_is_special st)); pb H h0 Hh0; apply of_result_ok in Hh0; inversion H; subst.
  - right; right; eexists; exact Hh0.
  - right; left; eexists; exact Hh0.
Qed.

Lemma parse_file_host_okl ser l s flag hi rem :
  parse_file_host host_parse host_display ser l = POk (s, flag, hi, rem) -> okl ser -> okl s.
Proof.
  unfold parse_file_host. destruct (file_host l) as [t r]. intros H Hs.
  destruct t as [|x t]; [inversion H; subst; exact Hs|].
  pb H h0 Hh0. apply of_result_ok in Hh0.
  assert (okl (ser ++ host_display h0)) as Hd.
  { apply okl_app; [exact Hs | apply host_display_okl; right; left; eexists; exact Hh0]. }
  destruct h0 as [d| |]; try (inversion H; subst; exact Hd).
  destruct (list_eqb d s_localhost); inversion H; subst; assumption.
Qed.

Lemma parse_host_and_port_okl ctx st se ser l s he hi port rem :
  parse_host_and_port host_parse host_parse_opaque host_display ctx st se ser l = POk (s, he, hi, port, rem) ->
  okl ser -> okl s.
Proof.
  unfold parse_host_and_port. intros H Hs. pb H a Ha. destruct a as [h remaining]. cbv zeta in H.
  apply parse_host_origin in Ha.
  assert (okl (ser ++ host_display h)) as Hd by (apply okl_app; [exact Hs | apply host_display_okl; exact Ha]).
  pb H he0 Hhe. pb H u_ Hu.
  destruct (inp_split_prefix_char 58 remaining) as [r|].
  - pb H b Hb. destruct b as [p rem2].
    destruct p as [p|]; inversion H; subst; [|exact Hd]. okt P_ok.
  - inversion H; subst. exact Hd.
Qed.

Lemma after_double_slash_okl ctx st se ser l u :
  after_double_slash dbg host_parse host_parse_opaque host_display ovr ctx st se ser l = POk u ->
  okl ser -> okl (UrlRecord.ser u).
Proof.
  unfold after_double_slash. cbv zeta. intros H Hs.
  pb H a Ha. destruct a as [[ser1 ue] remaining]. pb H hs Hhs.
  pb H b Hb. destruct b as [[[[ser2 he] hi] port] remaining2].
  destruct (hi_eqb hi HI_None && negb (nlen (ser ++ [47; 47]) =? nlen ser1)); [discriminate|].
  pb H ps Hps. pb H c Hc. destruct c as [[ser3 hh] remaining3].
  eapply with_query_and_fragment_okl; [exact P_ok | exact H|].
  eapply parse_path_start_okl; [exact P_ok | exact Hc|].
  eapply parse_host_and_port_okl; [exact Hb|].
  eapply parse_userinfo_okl; [exact P_ok | exact Ha|]. okt P_ok.
Qed.

(* ---------- opaque path ---------- *)
Lemma parse_cannot_be_a_base_path_oks ctx l : forall ser,
  Forall ok_or_space ser -> Forall ok_or_space (fst (parse_cannot_be_a_base_path ctx ser l)).
Proof.
  induction l as [|c r IH]; intros ser Hs; cbn [parse_cannot_be_a_base_path]; [exact Hs|].
  destruct (is_tnl c); [apply IH; exact Hs|].
  destruct (((c =? 63) || (c =? 35)) && ctx_eqb ctx CUrlParser); [exact Hs|].
  apply IH. unfold push_encoded. apply Forall_app. split; [exact Hs|].
  apply pe_display_ok_space, T_CONTROLS_c0.
Qed.

Lemma parse_cannot_be_a_base_path_okl ctx l ser : P 32 ->
  okl ser -> okl (fst (parse_cannot_be_a_base_path ctx ser l)).
Proof.
  intros H32. revert ser. induction l as [|c r IH]; intros ser Hs; cbn [parse_cannot_be_a_base_path]; [exact Hs|].
  destruct (is_tnl c); [apply IH; exact Hs|].
  destruct (((c =? 63) || (c =? 35)) && ctx_eqb ctx CUrlParser); [exact Hs|].
  apply IH. unfold push_encoded. apply okl_app; [exact Hs|].
  apply okl_oks; [exact H32 | exact P_ok | apply pe_display_ok_space, T_CONTROLS_c0].
Qed.

(* ---------- non-special ---------- *)
Lemma parse_non_special_okl ctx st se ser l u :
  (opaque_branch l = true -> P 32) ->
  parse_non_special dbg host_parse host_parse_opaque host_display ovr ctx st se ser l = POk u ->
  okl ser -> okl (UrlRecord.ser u).
Proof.
  unfold parse_non_special, opaque_branch. intros H32 H Hs.
  destruct (inp_split_prefix_str s_ss l) as [rem|]; [eapply after_double_slash_okl; eassumption|].
  pb H ps Hps. pb H a Ha. destruct a as [ser1 remaining].
  eapply with_query_and_fragment_okl; [exact P_ok | exact H|].
  destruct (inp_split_prefix_char 47 l) as [rem|].
  - pb Ha b Hb. destruct b as [[s hh] r]. inversion Ha; subst.
    eapply parse_path_okl; [exact P_ok | exact Hb|]. okt P_ok.
  - inversion Ha as [Hx].
    pose proof (parse_cannot_be_a_base_path_okl ctx l ser (H32 eq_refl) Hs) as Hc.
    rewrite Hx in Hc. exact Hc.
Qed.

(* ---------- relative ---------- *)
Lemma b_scheme_okl b : okl (ser b) -> okl (b_scheme b).
Proof. intros H. unfold b_scheme. okt P_ok. Qed.

Lemma parse_relative_okl ctx st base l u :
  parse_relative dbg host_parse host_parse_opaque host_display ovr ctx st base l = POk u ->
  okl (ser base) -> okl (ser u).
Proof.
  unfold parse_relative. intros H Hs.
  pose proof (b_before_fragment_okl _ base Hs) as Hbf. pose proof (b_before_query_okl _ base Hs) as Hbq.
  destruct (inp_split_first l) as [fc iaf].
  destruct fc as [c|]; [|inversion H; subst; exact Hbf].
  destruct (c =? 63).
  { pb H a Ha. destruct a as [[s qs] fs]. inversion H; subst. cbn [ser url_with].
    eapply parse_query_and_fragment_okl; [exact P_ok | exact Ha | exact Hbq]. }
  destruct (c =? 35); [eapply fragment_only_okl; eassumption|].
  destruct ((c =? 47) || (c =? 92) && st_is_special st).
  { destruct (inp_count_matching (fun d : N => (d =? 47) || (d =? 92) && st_is_special st) l) as [slashes remaining].
    destruct (2 <=? slashes).
    - cbv zeta in H. pb H u_ Hu.
      assert (okl (nfirstn (scheme_end base + 1) (ser base))) as H0 by okt P_ok.
      destruct (negb (st_is_special st)).
      + destruct (inp_split_prefix_str s_ss l); eapply after_double_slash_okl; eassumption.
      + eapply after_double_slash_okl; eassumption.
    - cbv zeta in H. pb H a Ha. destruct a as [[s hh] rem].
      eapply with_query_and_fragment_okl; [exact P_ok | exact H|].
      eapply parse_path_okl; [exact P_ok | exact Ha|]. okt P_ok. }
  cbv zeta in H. pb H s1 Hs1. pb H a Ha. destruct a as [[s3 hh] rem].
  eapply with_query_and_fragment_okl; [exact P_ok | exact H|].
  eapply pop_path_okl in Hs1; [|exact Hbq].
  assert (okl (if (nlen s1 =? path_start base) &&
                  (st_is_special (scheme_type_of (b_scheme base)) || negb (inp_is_empty l))
               then s1 ++ [47] else s1)) as H2 by okt P_ok.
  rewrite match47 in Ha.
  destruct (c =? 47); (eapply parse_path_okl; [exact P_ok | exact Ha | exact H2]).
Qed.

(* ---------- file ---------- *)
Lemma okl_file_css : okl s_file_css.
Proof.
  apply (okl_ok _ P_ok). unfold s_file_css, s_file, s_css. cbn [app].
  repeat constructor; unfold ok_byte; lia.
Qed.

Lemma path_okl b p : path b = Some p -> okl (ser b) -> okl p.
Proof.
  unfold path, u_slice_from, u_slice. intros H Hs.
  destruct (query_start b); destruct (fragment_start b);
    first [eapply okl_slice_o; eassumption | eapply okl_slice_from_o; eassumption].
Qed.

Lemma base_first_segment_okl b seg : base_first_segment b = Some seg -> okl (ser b) -> okl seg.
Proof.
  unfold base_first_segment. intros H Hs. destruct (path b) as [p|] eqn:Ep; [|discriminate].
  apply path_okl in Ep; [|exact Hs]. destruct p as [|x r]; [discriminate|].
  rewrite match47 in H. destruct (x =? 47); [|discriminate].
  inversion Ep as [|? ? _ Hr]; subst.
  pose proof (split_on_aux_okl P 47 r [] ltac:(constructor) Hr) as F. fold (split_on 47 r) in F.
  destruct (split_on 47 r) as [|s0 t]; [discriminate|]. inversion H; subst. inversion F; assumption.
Qed.

Lemma host_str_okl b hs : host_str b = Some (Some hs) -> okl (ser b) -> okl hs.
Proof.
  unfold host_str, u_slice. intros H Hs. destruct (has_host b); [|discriminate].
  destruct (slice_o (ser b) (host_start b) (host_end b)) as [x|] eqn:E; cbn [bindo] in H; [|discriminate].
  inversion H; subst. eapply okl_slice_o; eassumption.
Qed.

Lemma parse_file_okl ctx st base_file l u :
  parse_file dbg host_parse host_display ovr ctx st base_file l = POk u ->
  match base_file with Some b => okl (ser b) | None => True end -> okl (ser u).
Proof.
  unfold parse_file. intros H Hbase.
  assert (forall s2 hh rem s3 qs fs,
            parse_path dbg ctx STFile false 7 (s_file_css ++ [47]) l = POk (s2, hh, rem) ->
            parse_query_and_fragment ovr ctx STFile 4 s2 rem = POk (s3, qs, fs) -> okl s3) as Hplain.
  { intros s2 hh rem s3 qs fs H1 H2.
    eapply parse_query_and_fragment_okl; [exact P_ok | exact H2|].
    eapply parse_path_okl; [exact P_ok | exact H1|]. apply okl_app; [apply okl_file_css | okt P_ok]. }
  destruct (inp_split_first l) as [fc af]. cbv zeta in H.
  destruct (match fc with Some c => is_slash_or_bslash c | None => false end).
  { destruct (inp_split_first af) as [nc an].
    destruct (match nc with Some c => is_slash_or_bslash c | None => false end).
    - pb H a Ha. destruct a as [[[ser1 flag] hi] remaining]. pb H he Hhe.
      pb H b Hb. destruct b as [[ser2 hh] remaining2].
      apply parse_file_host_okl in Ha; [|apply okl_file_css].
      assert (okl ser2) as H2.
      { destruct flag.
        - eapply parse_path_start_okl; [exact P_ok | exact Hb | exact Ha].
        - eapply parse_path_okl; [exact P_ok | exact Hb|]. okt P_ok. }
      destruct (negb hh); cbv beta iota zeta in H; pb H c Hc; destruct c as [[ser4 qs] fs];
        inversion H; subst; cbn [ser file_url];
        (eapply parse_query_and_fragment_okl; [exact P_ok | exact Hc|]); okt P_ok.
    - match type of H with context [if negb (starts_with_wdl_segment af) then ?a else ?b] =>
        destruct (if negb (starts_with_wdl_segment af) then a else b) as [[ser1 he] hi] eqn:E end.
      assert (okl ser1) as Ee.
      { pose proof okl_file_css as F.
        destruct (negb (starts_with_wdl_segment af)); [|inversion E; subst; exact F].
        destruct base_file as [base|]; [|inversion E; subst; exact F].
        destruct (base_first_segment base) as [seg|] eqn:Eseg; [|inversion E; subst; exact F].
        apply base_first_segment_okl in Eseg; [|exact Hbase].
        destruct (is_normalized_wdl seg); [inversion E; subst; okt P_ok|].
        destruct (host_str base) as [[hs|]|] eqn:Eh; try (inversion E; subst; exact F).
        apply host_str_okl in Eh; [|exact Hbase]. inversion E; subst. okt P_ok. }
      pb H a Ha. destruct a as [[ser2 hh] remaining]. pb H c Hc. destruct c as [[ser3 qs] fs].
      inversion H; subst. cbn [ser file_url].
      eapply parse_query_and_fragment_okl; [exact P_ok | exact Hc|].
      eapply parse_path_okl; [exact P_ok | exact Ha | exact Ee]. }
  destruct base_file as [base|].
  2:{ pb H a Ha. destruct a as [[s2 hh] rem]. pb H c Hc. destruct c as [[s3 qs] fs].
      inversion H; subst. cbn [ser file_url]. eapply Hplain; eassumption. }
  pose proof (b_before_fragment_okl _ base Hbase) as Hbf. pose proof (b_before_query_okl _ base Hbase) as Hbq.
  destruct fc as [c|]; [|inversion H; subst; exact Hbf].
  destruct (c =? 63).
  { pb H a Ha. destruct a as [[s qs] fs]. inversion H; subst. cbn [ser url_with].
    eapply parse_query_and_fragment_okl; [exact P_ok | exact Ha | exact Hbq]. }
  destruct (c =? 35); [eapply fragment_only_okl; eassumption|].
  destruct (negb (starts_with_wdl_segment l)).
  - pb H s1 Hs1. pb H a Ha. destruct a as [[s2 hh] rem].
    eapply with_query_and_fragment_okl; [exact P_ok | exact H|].
    eapply parse_path_okl; [exact P_ok | exact Ha|].
    eapply shorten_path_okl; [exact Hs1 | exact Hbq].
  - pb H a Ha. destruct a as [[s2 hh] rem]. pb H c0 Hc. destruct c0 as [[s3 qs] fs].
    inversion H; subst. cbn [ser file_url]. eapply Hplain; eassumption.
Qed.

(* ---------- top level ---------- *)
Lemma parse_with_scheme_okl base scheme l u :
  (opaque_input scheme l = true -> P 32) ->
  parse_with_scheme dbg host_parse host_parse_opaque host_display ovr base scheme l = POk u ->
  okl scheme -> match base with Some b => okl (ser b) | None => True end -> okl (ser u).
Proof.
  unfold parse_with_scheme, opaque_input. intros H32 H Hsch Hbase. pb H se Hse. cbv zeta in H.
  assert (okl (scheme ++ [58])) as H0 by okt P_ok.
  destruct (scheme_type_of scheme).
  - eapply parse_file_okl; [exact H|].
    destruct base as [b|]; [|exact I]. destruct (list_eqb (b_scheme b) s_file); [exact Hbase | exact I].
  - destruct (inp_count_matching is_slash_or_bslash l) as [slashes remaining].
    destruct base as [b|]; [|eapply after_double_slash_okl; eassumption].
    destruct ((slashes <? 2) && list_eqb (b_scheme b) scheme); [|eapply after_double_slash_okl; eassumption].
    pb H u_ Hu. eapply parse_relative_okl; eassumption.
  - eapply parse_non_special_okl; eassumption.
Qed.

Theorem parse_url_okl base input u :
  (url_opaque_input input = true -> P 32) ->
  parse_url dbg host_parse host_parse_opaque host_display ovr base input = POk u ->
  match base with Some b => okl (ser b) | None => True end -> okl (ser u).
Proof.
  unfold parse_url, url_opaque_input. cbv zeta. intros H32 H Hbase.
  destruct (parse_scheme CUrlParser (input_new_trim_c0 input)) as [[scheme remaining]|] eqn:Es.
  - eapply parse_with_scheme_okl; [exact H32 | exact H | | exact Hbase].
    apply (okl_ok _ P_ok). eapply parse_scheme_ok. exact Es.
  - destruct base as [b|]; [|discriminate].
    destruct (inp_starts_with_char 35 (input_new_trim_c0 input)); [eapply fragment_only_okl; eassumption|].
    destruct (cannot_be_a_base b) as [[|]|]; try discriminate.
    destruct (st_is_file (scheme_type_of (b_scheme b))).
    + eapply parse_file_okl; [exact H | exact Hbase].
    + eapply parse_relative_okl; eassumption.
Qed.

End WithHosts.
