(* Proofs/C05_Parser.v - every parser function preserves "all bytes of the serialization satisfy P"
   for any P that holds on 0x21..0x7E (instantiated with ok_byte and with ok_or_space), one lemma per
   function of Model/Parser.v.  The opaque-path state is the only one that needs P 0x20. *)
From RU Require Import Base.Prelude Base.Utf8 Model.AsciiSet Gen.Tables Model.PercentEncoding
  Model.HostT Model.UrlRecord Model.Parser Proofs.ListN Proofs.C05_Enc.

Lemma pbind_ok {A B} (x : pres A) (f : A -> pres B) b :
  pbind x f = POk b -> exists a, x = POk a /\ f a = POk b.
Proof. destruct x; cbn [pbind]; intros H; [eauto | discriminate | discriminate]. Qed.

Ltac pb H a Ha := apply pbind_ok in H; destruct H as (a & Ha & H).

Lemma of_option_ok {A} (o : option A) a : of_option o = POk a -> o = Some a.
Proof. destruct o; cbn; intros H; [inversion H; reflexivity | discriminate]. Qed.
Lemma of_result_ok {A} (r : result A) a : of_result r = POk a -> r = Ok a.
Proof. destruct r; cbn; intros H; [inversion H; reflexivity | discriminate]. Qed.

Definition okl (P : N -> Prop) (l : list N) : Prop := Forall P l.

Section Generic.
Variable P : N -> Prop.
Hypothesis P_ok : forall b, ok_byte b -> P b.
Notation okl := (okl P).

Lemma okl_ok l : Forall ok_byte l -> okl l.
Proof. intros H. eapply Forall_impl; [|exact H]. exact P_ok. Qed.
Lemma okl_app a b : okl a -> okl b -> okl (a ++ b).
Proof. intros. apply Forall_app. split; assumption. Qed.
Lemma okl_app_l a b : okl (a ++ b) -> okl a.
Proof. intros H. apply Forall_app in H. tauto. Qed.
Lemma okl_app_r a b : okl (a ++ b) -> okl b.
Proof. intros H. apply Forall_app in H. tauto. Qed.
Lemma okl_nfirstn n l : okl l -> okl (nfirstn n l).
Proof. apply Forall_firstn. Qed.
Lemma okl_nskipn n l : okl l -> okl (nskipn n l).
Proof. apply Forall_skipn. Qed.
Lemma okl_truncate n l : okl l -> okl (truncate l n).
Proof. apply Forall_firstn. Qed.
Lemma okl_drop_while f l : okl l -> okl (drop_while f l).
Proof.
  induction l as [|c r IH]; intros H; cbn [drop_while]; [constructor|].
  destruct (f c); [apply IH; inversion H; assumption | exact H].
Qed.
Lemma okl_rev l : okl l -> okl (rev l).
Proof. apply Forall_rev. Qed.
Lemma okl_slice_o l a b s : slice_o l a b = Some s -> okl l -> okl s.
Proof.
  unfold slice_o. destruct ((a <=? b) && (b <=? nlen l)); [|discriminate].
  intros H Hl. inversion H; subst. apply okl_nfirstn, okl_nskipn. exact Hl.
Qed.
Lemma okl_slice_from_o l a s : slice_from_o l a = Some s -> okl l -> okl s.
Proof.
  unfold slice_from_o. destruct (a <=? nlen l); [|discriminate].
  intros H Hl. inversion H; subst. apply okl_nskipn. exact Hl.
Qed.
Lemma okl_slice_to_o l a s : slice_to_o l a = Some s -> okl l -> okl s.
Proof.
  unfold slice_to_o. destruct (a <=? nlen l); [|discriminate].
  intros H Hl. inversion H; subst. apply okl_nfirstn. exact Hl.
Qed.

Ltac okt :=
  repeat first
    [ assumption
    | apply okl_app
    | apply okl_nfirstn | apply okl_nskipn | apply okl_truncate | apply okl_drop_while | apply okl_rev
    | solve [apply okl_ok; repeat constructor; unfold ok_byte; lia]
    | match goal with |- _ (_ :: _) => constructor; [solve [apply P_ok; unfold ok_byte; lia] |] end
    | match goal with |- _ (if ?b then _ else _) => destruct b end ].

(* ---------- encoders ---------- *)
Lemma push_encoded_okl set ser text : covers_ctl set -> okl ser -> okl (push_encoded set ser text).
Proof. intros Hc H. unfold push_encoded. apply okl_app; [exact H | apply okl_ok, pe_display_ok; exact Hc]. Qed.

Lemma flush_part_okl set enc ser pr : covers_ctl set -> okl ser -> okl (flush_part set enc ser pr).
Proof. intros Hc H. unfold flush_part. apply okl_app; [exact H | apply okl_ok, pe_display_ok; exact Hc]. Qed.

(* ---------- fragment ---------- *)
Lemma parse_fragment_loop_okl l : forall ser pr, okl ser -> okl (parse_fragment_loop ser pr l).
Proof.
  induction l as [|c r IH]; intros ser pr H; cbn [parse_fragment_loop].
  - destruct pr; [exact H | apply flush_part_okl; [apply T_FRAGMENT_ctl | exact H]].
  - destruct (is_tnl c); apply IH; [apply flush_part_okl; [apply T_FRAGMENT_ctl | exact H] | exact H].
Qed.

Lemma parse_fragment_okl ser l : okl ser -> okl (parse_fragment ser l).
Proof. apply parse_fragment_loop_okl. Qed.

(* ---------- query ---------- *)
Lemma parse_query_loop_okl set enc iup l : covers_ctl set ->
  forall ser pr, okl ser -> okl (fst (parse_query_loop set enc iup ser pr l)).
Proof.
  intros Hc. induction l as [|c r IH]; intros ser pr H; cbn [parse_query_loop].
  - cbn [fst]. destruct pr; [exact H | apply flush_part_okl; assumption].
  - destruct (is_tnl c); [apply IH, flush_part_okl; assumption|].
    destruct ((c =? 35) && iup); [cbn [fst]; apply flush_part_okl; assumption | apply IH; exact H].
Qed.

Lemma query_set_ctl st : covers_ctl (query_set st).
Proof. unfold query_set. destruct (st_is_special st); [apply T_SPECIAL_QUERY_ctl | apply T_QUERY_ctl]. Qed.

Lemma parse_query_okl ovr ctx st se ser l : okl ser -> okl (fst (parse_query ovr ctx st se ser l)).
Proof. intros H. unfold parse_query. apply parse_query_loop_okl; [apply query_set_ctl | exact H]. Qed.

Lemma parse_query_and_fragment_okl ovr ctx st se ser l s qs fs :
  parse_query_and_fragment ovr ctx st se ser l = POk (s, qs, fs) -> okl ser -> okl s.
Proof.
  unfold parse_query_and_fragment. intros H Hs.
  destruct (inp_next l) as [[c r]|]; [|inversion H; subst; exact Hs].
  destruct (c =? 35).
  { pb H f0 Hf0. inversion H; subst. apply parse_fragment_okl. okt. }
  destruct (c =? 63); [|discriminate].
  pb H q0 Hq0.
  pose proof (parse_query_okl ovr ctx st se (ser ++ [63]) r ltac:(okt)) as Hq.
  destruct (parse_query ovr ctx st se (ser ++ [63]) r) as [ser1 rem]. cbn [fst] in Hq.
  destruct rem as [r2|].
  - pb H f0 Hf0. inversion H; subst. apply parse_fragment_okl. okt.
  - inversion H; subst. exact Hq.
Qed.

(* ---------- path ---------- *)
Lemma path_set_ctl ctx st : covers_ctl (path_set ctx st).
Proof.
  unfold path_set. destruct (ctx_eqb ctx CPathSegmentSetter); [|apply T_PATH_ctl].
  destruct (st_is_special st); [apply T_SPECIAL_PATH_SEGMENT_ctl | apply T_PATH_SEGMENT_ctl].
Qed.

Lemma push_pending_okl ctx st ser pr : okl ser -> okl (push_pending ctx st ser pr).
Proof.
  intros H. unfold push_pending. destruct pr; [exact H|]. apply push_encoded_okl; [apply path_set_ctl | exact H].
Qed.

Lemma pop_path_okl st ps ser s : pop_path st ps ser = POk s -> okl ser -> okl s.
Proof.
  unfold pop_path. intros H Hs. destruct (ps <? nlen ser); [|inversion H; subst; exact Hs].
  destruct (rfind 47 (nskipn ps ser)); [|discriminate].
  destruct (st_is_file st && is_normalized_wdl (nskipn (ps + n + 1) ser)); inversion H; subst; okt.
Qed.

Lemma shorten_path_okl st ps ser s : shorten_path st ps ser = POk s -> okl ser -> okl s.
Proof.
  unfold shorten_path. intros H Hs. destruct (nlen ser =? ps); [inversion H; subst; exact Hs|].
  destruct (st_is_file st && is_normalized_wdl (nskipn ps ser)); [inversion H; subst; exact Hs|].
  eapply pop_path_okl; eassumption.
Qed.

Lemma finish_segment_okl dbg st ps ser ss ews hh s hh' :
  finish_segment dbg st ps ser ss ews hh = POk (s, hh') -> okl ser -> okl s.
Proof.
  unfold finish_segment. cbv zeta. intros H Hs.
  pb H seg Hseg. apply of_option_ok in Hseg. pose proof (okl_slice_o _ _ _ _ Hseg Hs) as Hsg.
  destruct (is_double_dot seg).
  { pb H u_ Hu. pb H s3 Hs3. inversion H; subst.
    apply shorten_path_okl in Hs3; [|okt]. okt. }
  destruct (is_single_dot seg); [inversion H; subst; okt|].
  destruct (st_is_file st && (ss =? ps + 1) && is_wdl seg); [|inversion H; subst; exact Hs].
  inversion H; subst. destruct seg as [|c sg]; [exact Hs|].
  inversion Hsg as [|? ? Hc _]; subst.
  apply okl_app; [okt|]. constructor; [exact Hc|].
  constructor; [apply P_ok; unfold ok_byte; lia|]. okt.
Qed.

Lemma file_path_fixup_okl st ps ser : okl ser -> okl (file_path_fixup st ps ser).
Proof. intros H. unfold file_path_fixup. cbv zeta. okt. Qed.

Lemma parse_path_loop_okl dbg ctx st ps l : forall ser ss pr hh s hh' rem,
  parse_path_loop dbg ctx st ps l ser ss pr hh = POk (s, hh', rem) -> okl ser -> okl s.
Proof.
  induction l as [|c r IH]; intros ser ss pr hh s hh' rem H Hs; cbn [parse_path_loop] in H.
  - cbv zeta in H. pb H a Ha. destruct a as [s2 hh2]. inversion H; subst.
    apply file_path_fixup_okl. eapply finish_segment_okl; [exact Ha|]. apply push_pending_okl. exact Hs.
  - cbv zeta in H. destruct (is_tnl c).
    { eapply IH; [exact H|]. apply push_pending_okl. exact Hs. }
    destruct (negb (ctx_eqb ctx CPathSegmentSetter) && ((c =? 47) || (c =? 92) && st_is_special st)).
    { pb H a Ha. destruct a as [s2 hh2]. eapply IH; [exact H|].
      eapply finish_segment_okl; [exact Ha|]. apply okl_app; [apply push_pending_okl; exact Hs | okt]. }
    destruct (((c =? 63) || (c =? 35)) && ctx_eqb ctx CUrlParser).
    { pb H a Ha. destruct a as [s2 hh2]. inversion H; subst.
      apply file_path_fixup_okl. eapply finish_segment_okl; [exact Ha|]. apply push_pending_okl. exact Hs. }
    destruct (st_is_file st && (ps <? nlen ser) && is_normalized_wdl (nskipn (ps + 1) ser)).
    { eapply IH; [exact H|]. apply okl_app; [apply push_pending_okl; exact Hs | okt]. }
    eapply IH; [exact H | exact Hs].
Qed.

Lemma parse_path_okl dbg ctx st hh ps ser l s hh' rem :
  parse_path dbg ctx st hh ps ser l = POk (s, hh', rem) -> okl ser -> okl s.
Proof. unfold parse_path. apply parse_path_loop_okl. Qed.

Lemma parse_path_start_okl dbg ctx st hh ser l s hh' rem :
  parse_path_start dbg ctx st hh ser l = POk (s, hh', rem) -> okl ser -> okl s.
Proof.
  unfold parse_path_start. cbv zeta. intros H Hs.
  destruct (inp_split_first l) as [mc remaining].
  destruct (st_is_special st).
  - destruct (negb (ends_with_byte 47 ser)).
    + destruct mc as [c|]; [destruct (is_slash_or_bslash c)|];
        (eapply parse_path_okl; [exact H | okt]).
    + eapply parse_path_okl; [exact H | okt].
  - destruct mc as [c|].
    + destruct ((c =? 63) || (c =? 35)); [inversion H; subst; exact Hs|].
      destruct (c =? 47); (eapply parse_path_okl; [exact H | okt]).
    + eapply parse_path_okl; [exact H | okt].
Qed.

(* ---------- with_query_and_fragment ---------- *)
Lemma with_query_and_fragment_okl ovr ctx st se ue hs he hi port ps ser rem u :
  with_query_and_fragment ovr ctx st se ue hs he hi port ps ser rem = POk u -> okl ser -> okl (UrlRecord.ser u).
Proof.
  unfold with_query_and_fragment. intros H Hs.
  pb H a Ha. destruct a as [ser1 ps1].
  pb H b Hb. destruct b as [[ser2 qs] fs]. inversion H; subst. cbn [UrlRecord.ser].
  eapply parse_query_and_fragment_okl; [exact Hb|].
  destruct (ps =? se + 1).
  { destruct (starts_with s_ss (nskipn ps ser)); pb Ha u_ Hu; inversion Ha; subst; okt. }
  destruct ((ps =? se + 3) && list_eqb (nfirstn (ps - se) (nskipn se ser)) [58; 47; 46]).
  { pb Ha u_ Hu.
    destruct (nnth ser (ps + 1)) as [x|].
    - destruct (x =? 47) eqn:E47.
      + apply N.eqb_eq in E47. subst x. pb Ha v_ Hv. inversion Ha; subst. exact Hs.
      + assert ((match x with 47 => (ser, ps) | _ => (nfirstn se ser ++ [58] ++ nskipn ps ser, ps - 2) end)
                = (nfirstn se ser ++ [58] ++ nskipn ps ser, ps - 2)) as Ex.
        { destruct x as [|p]; [reflexivity|].
          do 6 (destruct p as [p|p|]; try reflexivity). discriminate. }
        rewrite Ex in Ha. pb Ha v_ Hv. inversion Ha; subst. okt.
    - pb Ha v_ Hv. inversion Ha; subst. okt. }
  inversion Ha; subst. exact Hs.
Qed.

(* ---------- fragment only ---------- *)
Lemma b_before_fragment_okl b : okl (ser b) -> okl (b_before_fragment b).
Proof. intros H. unfold b_before_fragment. destruct (fragment_start b); okt. Qed.
Lemma b_before_query_okl b : okl (ser b) -> okl (b_before_query b).
Proof. intros H. unfold b_before_query. destruct (query_start b); destruct (fragment_start b); okt. Qed.

Lemma fragment_only_okl base l u : fragment_only base l = POk u -> okl (ser base) -> okl (ser u).
Proof.
  unfold fragment_only. cbv zeta. intros H Hs. pb H f0 Hf0. inversion H; subst. cbn [ser].
  apply parse_fragment_okl. apply okl_app; [apply b_before_fragment_okl; exact Hs | okt].
Qed.

(* ---------- userinfo ---------- *)
Lemma userinfo_loop_okl l : forall n ser uend hp hu s uend' hp' hu',
  userinfo_loop l n ser uend hp hu = POk (s, uend', hp', hu') -> okl ser -> okl s.
Proof.
  induction l as [|c r IH]; intros n ser uend hp hu s uend' hp' hu' H Hs; cbn [userinfo_loop] in H.
  - destruct (n =? 0); [inversion H; subst; exact Hs | discriminate].
  - destruct (n =? 0); [inversion H; subst; exact Hs|].
    destruct (is_tnl c); [eapply IH; eassumption|]. cbv zeta in H.
    destruct ((c =? 58) && match uend with None => true | Some _ => false end).
    + pb H ue Hue. destruct (0 <? n - 1); (eapply IH; [exact H | okt]).
    + eapply IH; [exact H|]. apply push_encoded_okl; [apply T_USERINFO_ctl | exact Hs].
Qed.

Lemma parse_userinfo_okl st ser l s ue rem :
  parse_userinfo st ser l = POk (s, ue, rem) -> okl ser -> okl s.
Proof.
  unfold parse_userinfo. intros H Hs.
  destruct (scan_last_at (st_is_special st) l 0 None) as [[n remaining]|].
  - destruct n as [|p].
    + destruct (inp_next remaining) as [[c r]|]; [|discriminate].
      destruct ((c =? 47) || (c =? 63) || (c =? 35) || st_is_special st && (c =? 92)); [discriminate|].
      pb H x Hx. inversion H; subst. exact Hs.
    + pb H a Ha. destruct a as [[[ser1 uend] hp] hu]. pb H x Hx. inversion H; subst.
      apply userinfo_loop_okl in Ha; [|exact Hs]. okt.
  - pb H x Hx. inversion H; subst. exact Hs.
Qed.

(* ---------- decimal ---------- *)
Lemma decimal_rev_ok fuel : forall n, Forall ok_byte (decimal_rev fuel n).
Proof.
  induction fuel as [|f IH]; intros n; cbn [decimal_rev]; [constructor|].
  constructor; [unfold ok_byte; lia|]. destruct (n / 10 =? 0); [constructor | apply IH].
Qed.
Lemma decimal_ok n : Forall ok_byte (decimal n).
Proof. unfold decimal. apply Forall_rev, decimal_rev_ok. Qed.
Lemma decimal_okl n : okl (decimal n).
Proof. apply okl_ok, decimal_ok. Qed.

End Generic.

Ltac okt P_ok :=
  repeat first
    [ assumption
    | apply (okl_app _)
    | apply okl_nfirstn | apply okl_nskipn | apply okl_truncate | apply okl_drop_while | apply okl_rev
    | apply (decimal_okl _ P_ok)
    | solve [apply (okl_ok _ P_ok); repeat constructor; unfold ok_byte; lia]
    | match goal with |- _ (_ :: _) => constructor; [solve [apply P_ok; unfold ok_byte; lia] |] end
    | match goal with |- _ (if ?b then _ else _) => destruct b end ].
