(* Proofs/C07_AllOn.v - C07_statement's clauses under the host hypothesis restricted to the strings that are ever handed
   to the host functions: host_fns_ok_on (Proofs/C07_HostOn.v: agreement on scalar-value strings, non-empty for
   Host::parse) in place of host_fns_ok (agreement on every string), with HostWf and the empty host's empty text
   (together host_parse_ok_on).  The parse clause: C01_statement_all needs the host hypothesis on ONE string, a
   sub-string of the input (class_host_query_usv); the bridge related => corrS needs the text of the Standard's host to be
   non-empty, which follows from the host's provenance (Proofs/C07_SpecInvU.v: a host-parser result on a scalar-value
   buffer, non-empty when not opaque).  The href clause from it; hostname / host / pathname and the six others from
   Proofs/C07_HostOn.v.  Instance (statement_model): the REAL host functions - Host::parse with a domain-to-ASCII
   oracle, Host::parse_opaque, Display against the Standard's host parser with the same oracle and the Standard's host
   serializer - relative to IdnaOK idna ONLY. *)
From Coq Require Import Bool.
From RU Require Import Base.Prelude Base.Utf8 Model.AsciiSet Gen.Tables Model.PercentEncoding
  Model.HostT Model.Host Model.UrlRecord Model.Parser Model.Setters Model.WF Model.KnownC01 Model.KnownC07
  Spec.Whatwg Spec.WhatwgHost Spec.WhatwgHostParse
  Proofs.ListN Proofs.C03_WF Proofs.C06_Suffix Proofs.C06_Host Proofs.C08_Input
  Proofs.C02_Enc Proofs.C01_Tables Proofs.C01_EqRun Proofs.C01_EqEnc Proofs.C01_EqApi Proofs.C01_EqRef
  Proofs.C01_EqAuthModel Proofs.C01_EqSpModel Proofs.C01_EqRelArms Proofs.C01_EqSpBase
  Proofs.C01_EqAsm Proofs.C01_EqShape Proofs.C01_KnownExact Proofs.C01_EqCover
  Proofs.C03_ReachParts Proofs.C09_Host Proofs.C09_InstWf
  Proofs.C07_Defs Proofs.C07_Histories Proofs.C07_Corr Proofs.C07_SpecProto Proofs.C07_EqProto Proofs.C07_EqSix
  Proofs.C07_EqFive Proofs.C07_EqHostname Proofs.C07_EqSeven
  Proofs.C07_EqRel Proofs.C07_SpecInv Proofs.C07_ParseExtra Proofs.C07_EqParseAll Proofs.C07_HostReal
  Proofs.C07_SpecInvU Proofs.C07_HostOn.

Definition host_parse_ok_on (hp ho : list N -> result host) (hd : host -> list N)
           (shp : bool -> list N -> option spec_host) (shs : spec_host -> list N) : Prop :=
  host_fns_ok_on hp ho hd shp shs /\ HostWf hp ho hd /\ shs SEmpty = [].

Lemma host_parse_ok_on_of_all hp ho hd shp shs : host_parse_ok hp ho hd shp shs -> host_parse_ok_on hp ho hd shp shs.
Proof. intros (A & B & C). split; [exact (host_fns_ok_on_of_all hp ho hd shp shs A) | split; assumption]. Qed.

Section AllOn.
Variable dbg : bool.
Variable hp ho : list N -> result host.
Variable hd : host -> list N.
Variable shp : bool -> list N -> option spec_host.
Variable shs : spec_host -> list N.
Hypothesis HP : host_parse_ok_on hp ho hd shp shs.

Lemma host_agree_on s : usv_list s -> host_agree ho hd shp shs s.
Proof.
  intros Hs. destruct HP as [[_ H1] _]. specialize (H1 s Hs). unfold host_fn_ok_at in H1. unfold host_agree.
  destruct (ho s) as [h|e]; destruct (host_parsing shp true s) as [sh|]; try exact H1; try contradiction.
  destruct H1 as (A & B & C & D). split; [exact A|]. split; [exact (disp_not_colon hd h B)|]. split; [exact D|].
  rewrite (disp_nil_iff hd h B). exact D.
Qed.

Lemma host_agree_sp_on s : usv_list s -> host_agree_sp hp hd shp shs s.
Proof.
  intros Hs. destruct HP as [[H0 _] [(W1 & _) _]]. unfold host_agree_sp.
  destruct s as [|c r]; [exact I|]. specialize (H0 (c :: r) Hs ltac:(discriminate)). unfold host_fn_ok_at in H0.
  destruct (hp (c :: r)) as [h|e] eqn:Eh; destruct (host_parsing shp false (c :: r)) as [sh|]; try exact H0; try contradiction.
  destruct H0 as (A & B & C & D).
  assert (h <> HDomain []) as Hne by (intros E; apply D in E; discriminate E).
  destruct (W1 _ _ Eh Hne) as (T1 & _ & _ & T4).
  split; [exact A|]. split; [exact (disp_not_colon hd h B)|]. split; [exact Hne|]. split; [exact T1 | exact T4].
Qed.

Lemma host_hyp3_on sbase input : usv_list input -> host_hyp3 hp ho hd shp shs sbase input.
Proof.
  intros Hu. unfold host_hyp3. destruct (class_host_query sbase input) as [[o s]|] eqn:E; [|exact I].
  pose proof (class_host_query_usv sbase input o s Hu E) as Hs.
  destruct o; [exact (host_agree_on s Hs) | exact (host_agree_sp_on s Hs)].
Qed.

(* a host of the Standard that a host parser returns on such a string is the empty host or has a non-empty text *)
Lemma range_text_on o s h : usv_list s -> (o = false -> s <> []) -> host_parsing shp o s = Some h ->
  h = SEmpty \/ shs h <> [].
Proof.
  intros Hs Hne E. destruct HP as [[H0 H1] _].
  assert (forall hf, host_fn_ok_at hf hd shp shs o s -> h = SEmpty \/ shs h <> []) as K.
  { intros hf Hf. unfold host_fn_ok_at in Hf. rewrite E in Hf. destruct (hf s) as [h'|e]; [|contradiction].
    destruct Hf as (A & B & C & _).
    destruct (host_eq_dec_empty h') as [E'|E']; [left; apply C; exact E'|].
    right. rewrite <- A. intros Z. apply E'. apply (disp_nil_iff hd h' B). exact Z. }
  destruct o; [exact (K ho (H1 s Hs)) | exact (K hp (H0 s Hs (Hne eq_refl)))].
Qed.

(* ---------- parsing outside Known_C01 yields corrS ---------- *)
Theorem parse_all_corrS_on input u : usv_list input -> known_c01 None input = 0 -> input_is_file input = false ->
  parse_url dbg hp ho hd None None input = POk u ->
  exists su, spec_basic_url_parse shp input None = BDone su /\ corrS dbg shs u su.
Proof.
  intros Hu Hk Hif Hp.
  destruct (statement_all dbg hp ho hd shp shs input None None Hu I (known_v1_of input Hk Hif) (host_hyp3_on None input Hu)) as [A Hfull].
  rewrite Hp in A. unfold agree_good in A.
  destruct (spec_basic_url_parse shp input None) as [su|uf|] eqn:Hs; [|destruct A as [e A]; discriminate A | contradiction].
  exists su. split; [reflexivity|].
  destruct (Hfull su u eq_refl Hp) as [[R Hok] Hshape].
  destruct HP as (HF & HW & HE).
  destruct (parse_scheme CUrlParser (input_new_trim_c0 input)) as [[sch rem]|] eqn:Es.
  2:{ unfold parse_url in Hp. rewrite Es in Hp. discriminate Hp. }
  pose proof (input_not_file input sch rem Es Hif) as Hnf.
  pose proof (not_file_type sch Hnf) as Hnft.
  pose proof (parse_nobase_scheme dbg hp ho hd None input sch rem u Es Hnft Hp) as Esch.
  pose proof (rel_sch _ _ _ _ R) as Rsch. rewrite Esch in Rsch.
  destruct (parse_nobase_extra dbg hp ho hd None HW input u Hu Hif Hp) as [MW MT MU MN].
  destruct (spec_parse_uinv shp input su Hs) as [_ UP].
  pose proof (spec_parse_hostU shp input su Hu Hs) as UH.
  apply related_corrS.
  - exact R.
  - constructor.
    + exact MT.
    + exact MU.
    + intros Hh Ha. destruct (MN Hh Ha) as (E1 & E2 & E3). split; [exact E1|]. split; [exact E2|].
      unfold is_special. rewrite <- Rsch, <- special_schemes_are_the_standards, <- Esch. exact E3.
    + exact UP.
    + unfold hostU in UH. destruct (su_host su) as [h|]; [|exact I].
      destruct UH as [->|(o & s & U1 & U2 & E)]; [left; reflexivity | exact (range_text_on o s h U1 U2 E)].
    + exact HE.
  - rewrite <- Rsch. exact Hnf.
  - intros Hsp. unfold base_shape_ok in Hshape. unfold is_special in Hsp. rewrite Hsp in Hshape.
    rewrite <- Rsch in Hshape at 1. change str_file with s_file in Hshape. rewrite Hnf in Hshape.
    cbn [negb orb] in Hshape. unfold sp_base_ok in Hshape.
    apply andb_true_iff in Hshape. exact (proj2 Hshape).
Qed.

(* ---------- href ---------- *)
Theorem href_step_on u su v : corrS dbg shs u su -> usv_list v -> known_c07 u QHref v = 0 -> href_ok shp shs v ->
  exists u' su', model_set dbg hp ho hd QHref u v = Some u' /\ spec_step shp QHref su v = Some su'
    /\ corrS dbg shs u' su'.
Proof.
  intros C Hv Hk [Hfit Hif]. cbn [known_c07] in Hk.
  assert (known_c01 None v = 0) as Hk1.
  { destruct (known_c01 None v =? 0) eqn:E; [apply N.eqb_eq; exact E | lia]. }
  clear Hk. unfold href_fits in Hfit.
  destruct (statement_all dbg hp ho hd shp shs v None None Hv I (known_v1_of v Hk1 Hif) (host_hyp3_on None v Hv)) as [A _].
  unfold spec_step. cbn [setter_of_q spec_set model_set]. unfold agree_good in A.
  destruct (spec_basic_url_parse shp v None) as [su'|uf|] eqn:Hs.
  - destruct A as [_ [[Ho Hl]|(u' & Hp & _)]]; [lia|].
    rewrite Hp. exists u', su'. split; [reflexivity|]. split; [reflexivity|].
    destruct (parse_all_corrS_on v u' Hv Hk1 Hif Hp) as (su2 & Hs2 & C2). rewrite Hs in Hs2. injection Hs2 as <-. exact C2.
  - destruct A as [e A]. rewrite A. exists u, su. split; [reflexivity|]. split; [reflexivity | exact C].
  - contradiction.
Qed.

(* ---------- all ten setters ---------- *)
(* any value for the nine setters other than href; for href a value that fits and whose scheme is not "file" *)
Definition all_ok (s : qsetter) (v : list N) : Prop := s <> QHref \/ href_ok shp shs v.

Fixpoint all_ops (ops : list (qsetter * list N)) : Prop :=
  match ops with
  | [] => True
  | (s, v) :: r => all_ok s v /\ usv_list v /\ all_ops r
  end.

Theorem all_step u su s v : corrS dbg shs u su -> all_ok s v -> usv_list v -> known_c07 u s v = 0 ->
  exists u' su', model_set dbg hp ho hd s u v = Some u' /\ spec_step shp s su v = Some su' /\ corrS dbg shs u' su'.
Proof.
  intros C Hs Hv Hk. destruct (no_href s) eqn:Hn.
  - exact (no_href_step dbg hp ho hd shp shs (proj1 HP) u su s v C Hn Hv Hk).
  - destruct s; try discriminate Hn. destruct Hs as [Hs|Hs]; [contradiction|].
    exact (href_step_on u su v C Hv Hk Hs).
Qed.

Lemma all_run : forall ops u su, corrS dbg shs u su -> all_ops ops -> outside_known dbg hp ho hd u ops ->
  exists u' su', model_run dbg hp ho hd u ops = Some u' /\ spec_run shp su ops = Some su' /\ corrS dbg shs u' su'.
Proof.
  induction ops as [|[s v] r IH]; intros u su C Hf Ho.
  - exists u, su. cbn [model_run spec_run]. auto.
  - cbn [all_ops outside_known] in Hf, Ho. destruct Hf as (Hs & Hv & Hr). destruct Ho as [Hk Hrest].
    destruct (all_step u su s v C Hs Hv Hk) as (u1 & su1 & Em & Es & C1).
    rewrite Em in Hrest. destruct (IH u1 su1 C1 Hr Hrest) as (u2 & su2 & Em2 & Es2 & C2).
    exists u2, su2. cbn [model_run spec_run]. rewrite Em, Es. auto.
Qed.

Lemma all_ops_firstn n : forall ops, all_ops ops -> all_ops (firstn n ops).
Proof.
  induction n as [|n IH]; intros ops H; [exact I|]. destruct ops as [|[s v] r]; [exact I|].
  cbn [firstn all_ops] in *. destruct H as (A & B & Cc). auto.
Qed.

Theorem all_histories ops u su : corrS dbg shs u su -> all_ops ops -> outside_known dbg hp ho hd u ops ->
  forall n, exists u' su',
    model_run dbg hp ho hd u (firstn n ops) = Some u'
    /\ spec_run shp su (firstn n ops) = Some su'
    /\ corrS dbg shs u' su'
    /\ model_api dbg u' = Some (spec_api_list shs su').
Proof.
  intros C Hf Ho n.
  destruct (all_run (firstn n ops) u su C (all_ops_firstn n ops Hf) (outside_known_firstn dbg hp ho hd n ops u Ho))
    as (u' & su' & A & B & C').
  exists u', su'. split; [exact A|]. split; [exact B|]. split; [exact C'|]. exact (corr_api dbg shs u' su' (proj1 C')).
Qed.

Theorem all_from_parse input u ops : usv_list input -> known_c01 None input = 0 -> input_is_file input = false ->
  parse_url dbg hp ho hd None None input = POk u ->
  all_ops ops -> outside_known dbg hp ho hd u ops ->
  exists su, spec_basic_url_parse shp input None = BDone su
    /\ model_api dbg u = Some (spec_api_list shs su)
    /\ forall n, exists u' su',
         model_run dbg hp ho hd u (firstn n ops) = Some u'
         /\ spec_run shp su (firstn n ops) = Some su'
         /\ model_api dbg u' = Some (spec_api_list shs su').
Proof.
  intros Hu Hk Hif Hp Hops Hout.
  destruct (parse_all_corrS_on input u Hu Hk Hif Hp) as (su & Hs & C).
  exists su. split; [exact Hs|]. split; [exact (corr_api dbg shs u su (proj1 C))|].
  intros n.
  destruct (all_histories ops u su C Hops Hout n) as (u' & su' & A & B & _ & D).
  exists u', su'. split; [exact A|]. split; [exact B | exact D].
Qed.

Theorem statement_all_on :
  exists R : url -> spec_url -> Prop,
    (forall u su, R u su -> model_api dbg u = Some (spec_api_list shs su))
    /\ (forall input u, usv_list input -> known_c01 None input = 0 -> input_is_file input = false ->
          parse_url dbg hp ho hd None None input = POk u ->
          exists su, spec_basic_url_parse shp input None = BDone su /\ R u su)
    /\ (forall u su s v, R u su -> all_ok s v -> usv_list v -> known_c07 u s v = 0 ->
          exists u' su', model_set dbg hp ho hd s u v = Some u' /\ spec_step shp s su v = Some su' /\ R u' su').
Proof.
  exists (corrS dbg shs). split; [intros u su C; exact (corr_api dbg shs u su (proj1 C))|].
  split; [exact parse_all_corrS_on | exact all_step].
Qed.

End AllOn.

(* ---------- the real host functions: relative to IdnaOK only ---------- *)
Theorem real_host_parse_ok_on idna : IdnaOK idna ->
  host_parse_ok_on (host_parse idna) host_parse_opaque host_display (spec_host_parser idna) spec_host_serializer.
Proof.
  intros OK. split; [exact (real_host_fns_ok_on idna OK)|]. split; [exact (model_HostWf idna OK) | reflexivity].
Qed.

Theorem statement_model dbg idna : IdnaOK idna ->
  exists R : url -> spec_url -> Prop,
    (forall u su, R u su -> model_api dbg u = Some (spec_api_list spec_host_serializer su))
    /\ (forall input u, usv_list input -> known_c01 None input = 0 -> input_is_file input = false ->
          parse_url dbg (host_parse idna) host_parse_opaque host_display None None input = POk u ->
          exists su, spec_basic_url_parse (spec_host_parser idna) input None = BDone su /\ R u su)
    /\ (forall u su s v, R u su -> all_ok (spec_host_parser idna) spec_host_serializer s v -> usv_list v ->
          known_c07 u s v = 0 ->
          exists u' su', model_set dbg (host_parse idna) host_parse_opaque host_display s u v = Some u'
            /\ spec_step (spec_host_parser idna) s su v = Some su' /\ R u' su').
Proof. intros OK. exact (statement_all_on dbg _ _ _ _ _ (real_host_parse_ok_on idna OK)). Qed.

Theorem model_histories dbg idna : IdnaOK idna ->
  forall input u ops, usv_list input -> known_c01 None input = 0 -> input_is_file input = false ->
  parse_url dbg (host_parse idna) host_parse_opaque host_display None None input = POk u ->
  all_ops (spec_host_parser idna) spec_host_serializer ops ->
  outside_known dbg (host_parse idna) host_parse_opaque host_display u ops ->
  exists su, spec_basic_url_parse (spec_host_parser idna) input None = BDone su
    /\ model_api dbg u = Some (spec_api_list spec_host_serializer su)
    /\ forall n, exists u' su',
         model_run dbg (host_parse idna) host_parse_opaque host_display u (firstn n ops) = Some u'
         /\ spec_run (spec_host_parser idna) su (firstn n ops) = Some su'
         /\ model_api dbg u' = Some (spec_api_list spec_host_serializer su').
Proof. intros OK. exact (all_from_parse dbg _ _ _ _ _ (real_host_parse_ok_on idna OK)). Qed.
