(* Proofs/C02_PathL1.v - L1 for the path state (non-special scheme, URL parser context, no base):
   whatever the input, the path state leaves   pre "/" seg "/" ... "/" last   with every segment
   clean for the PATH set, free of '/', and not a dot segment in any spelling. *)
From RU Require Import Base.Prelude Base.Utf8 Base.Utf8Facts Model.AsciiSet Gen.Tables
  Model.PercentEncoding Model.HostT Model.UrlRecord Model.Parser Model.WF
  Proofs.ListN Proofs.C14_Set Proofs.C14_Enc Proofs.C14_Views Proofs.C02_Enc Proofs.C02_Parts
  Proofs.C02_Opaque Proofs.C02_Path.

Ltac len_lia := unfold nlen in *; rewrite ?app_length in *; cbn [length] in *; lia.

(* ---------- rfind ---------- *)
Definition no_byte (b : N) (t : list N) : bool := forallb (fun c => negb (c =? b)) t.

Lemma rfind_aux_none b t : forall i last, no_byte b t = true -> rfind_aux b t i last = last.
Proof.
  induction t as [|c t IH]; intros i last H; [reflexivity|].
  cbn [no_byte forallb] in H. apply andb_true_iff in H. destruct H as [H1 H2].
  cbn [rfind_aux]. apply negb_true_iff in H1. rewrite H1. apply IH. exact H2.
Qed.

Lemma rfind_aux_app_last b x : forall t i last, no_byte b t = true ->
  rfind_aux b (x ++ b :: t) i last = Some (i + nlen x).
Proof.
  induction x as [|c x IH]; intros t i last H.
  - cbn [app rfind_aux]. rewrite N.eqb_refl. rewrite rfind_aux_none by exact H. f_equal. unfold nlen. cbn. lia.
  - cbn [app rfind_aux]. rewrite IH by exact H. f_equal. rewrite nlen_cons. lia.
Qed.

Lemma rfind_app_last b x t : no_byte b t = true -> rfind b (x ++ b :: t) = Some (nlen x).
Proof. intros H. unfold rfind. rewrite rfind_aux_app_last by exact H. f_equal. Qed.

Lemma rfind_lt b l p : rfind b l = Some p -> p < nlen l.
Proof.
  unfold rfind.
  assert (forall l i last q, rfind_aux b l i last = Some q ->
          (last = Some q) \/ (i <= q /\ q < i + nlen l)) as G.
  { clear. induction l as [|c l IH]; intros i last q H; cbn [rfind_aux] in H; [left; exact H|].
    apply IH in H. rewrite nlen_cons. destruct H as [H|H]; [|right; lia].
    destruct (c =? b); [inversion H; subst; right; lia | left; exact H]. }
  intros H. apply G in H. destruct H as [H|H]; [discriminate | lia].
Qed.

(* ---------- the shape of the serialization during the path state ---------- *)
Section Shape.
Variable pre : list N.

Definition Bs (segs : list (list N)) : list N := (pre ++ [47]) ++ segs_text segs.

Lemma segs_text_snoc segs t : segs_text (segs ++ [t]) = segs_text segs ++ t ++ [47].
Proof. unfold segs_text. rewrite map_app, concat_app. cbn [map concat]. rewrite app_nil_r. reflexivity. Qed.

Lemma Bs_snoc segs t : Bs (segs ++ [t]) = Bs segs ++ t ++ [47].
Proof. unfold Bs. rewrite segs_text_snoc. rewrite <- !app_assoc. reflexivity. Qed.

Lemma Bs_ends segs : exists X, Bs segs = X ++ [47].
Proof.
  destruct (rev segs) as [|t r] eqn:E.
  - assert (segs = []) as -> by (rewrite <- (rev_involutive segs), E; reflexivity). exists pre. unfold Bs. cbn. rewrite app_nil_r. reflexivity.
  - assert (segs = rev r ++ [t]) as -> by (rewrite <- (rev_involutive segs), E; reflexivity).
    exists (Bs (rev r) ++ t). rewrite Bs_snoc. rewrite app_assoc. reflexivity.
Qed.

Lemma Bs_len_ge segs : nlen pre + 1 <= nlen (Bs segs).
Proof. unfold Bs, nlen. rewrite !app_length. cbn [length]. lia. Qed.

Lemma forallb_snoc {A} (f : A -> bool) l x : forallb f (l ++ [x]) = forallb f l && f x.
Proof. rewrite forallb_app. cbn [forallb]. rewrite andb_true_r. reflexivity. Qed.

Lemma no_slash_no_byte t : no_slash t = no_byte 47 t.
Proof. reflexivity. Qed.

Lemma nnth_app_last x c : nnth (x ++ [c]) (nlen x) = Some c.
Proof. unfold nnth, nlen. rewrite Nat2N.id. rewrite nth_error_app2 by lia. rewrite Nat.sub_diag. reflexivity. Qed.

Lemma nnth_app_l x y i : i < nlen x -> nnth (x ++ y) i = nnth x i.
Proof. unfold nnth, nlen. intros H. apply nth_error_app1. lia. Qed.

Section Finish.
Variable dbg : bool.
Notation ps := (nlen pre).

(* what finish_segment does to  B segs ++ cur [++ "/"] *)
Lemma finish_inv segs cur (ews : bool) hh :
  forallb good_seg segs = true -> clean T_PATH cur = true -> no_slash cur = true ->
  exists segs' last',
    finish_segment dbg STNotSpecial ps (Bs segs ++ cur ++ (if ews then [47] else [])) (nlen (Bs segs)) ews hh
    = POk (Bs segs' ++ last', hh)
    /\ forallb good_seg segs' = true /\ good_seg last' = true /\ (ews = true -> last' = []).
Proof.
  intros Hsegs Hc Hns.
  set (s1 := Bs segs ++ cur ++ (if ews then [47] else [])).
  assert (slice_o s1 (nlen (Bs segs)) (if ews then nlen s1 - 1 else nlen s1) = Some cur) as Hslice.
  { unfold s1. destruct ews.
    - rewrite !nlen_app. replace (nlen (Bs segs) + (nlen cur + nlen [47]) - 1) with (nlen (Bs segs) + nlen cur) by (unfold nlen; cbn [length]; lia).
      apply slice_mid.
    - rewrite !nlen_app. replace (nlen (Bs segs) + (nlen cur + nlen [])) with (nlen (Bs segs) + nlen cur) by (unfold nlen; cbn [length]; lia).
      apply slice_mid. }
  assert (truncate s1 (nlen (Bs segs)) = Bs segs) as Htr by (unfold truncate, s1; apply nfirstn_app_len).
  destruct (Bs_ends segs) as [X EX].
  assert (ends_with_byte 47 (Bs segs) = true) as Hends by (rewrite EX; apply ends_with_byte_snoc).
  unfold finish_segment. rewrite Hslice. cbn [of_option pbind].
  destruct (is_double_dot cur) eqn:Edd.
  - (* double dot *)
    assert ((if dbg then match (if 1 <=? nlen (Bs segs) then nnth s1 (nlen (Bs segs) - 1) else None) with
                         | Some b => passert (b =? 47) | None => PPanic end else POk tt) = POk tt) as Hdbg.
    { destruct dbg; [|reflexivity]. pose proof (Bs_len_ge segs) as Hl.
      replace (1 <=? nlen (Bs segs)) with true by lia.
      unfold s1. rewrite nnth_app_l by lia. rewrite EX. rewrite nlen_app.
      replace (nlen X + nlen [47] - 1) with (nlen X) by (unfold nlen; cbn [length]; lia).
      rewrite nnth_app_last. reflexivity. }
    rewrite Hdbg. cbn [pbind]. rewrite Htr, Hends. cbn [andb].
    destruct (rev segs) as [|t r] eqn:Er.
    + (* no segment yet: nothing to pop *)
      assert (segs = []) as -> by (rewrite <- (rev_involutive segs), Er; reflexivity).
      assert (Bs [] = pre ++ [47]) as EB by (unfold Bs; cbn; apply app_nil_r).
      assert (last_slash_can_be_removed (Bs []) ps = false) as Hl.
      { unfold last_slash_can_be_removed. rewrite EB. rewrite nlen_app.
        replace (ps + nlen [47] - 1) with ps by (unfold nlen; cbn [length]; lia).
        rewrite nfirstn_app_len. destruct (rfind 47 pre) as [p|] eqn:Ep; [|reflexivity].
        apply rfind_lt in Ep. replace (ps <=? p) with false by lia. reflexivity. }
      rewrite Hl.
      assert (shorten_path STNotSpecial ps (Bs []) = POk (Bs [])) as Hsh.
      { unfold shorten_path, pop_path. rewrite EB. rewrite nlen_app.
        replace (ps + nlen [47] =? ps) with false by (unfold nlen; cbn [length]; lia).
        cbn [st_is_file andb]. replace (ps <? ps + nlen [47]) with true by (unfold nlen; cbn [length]; lia).
        rewrite nskipn_app_len. change (rfind 47 [47]) with (rfind 47 ([] ++ 47 :: [])). rewrite (rfind_app_last 47 [] []) by reflexivity. unfold truncate.
        replace (ps + nlen [] + 1) with (nlen (pre ++ [47])) by (rewrite nlen_app; unfold nlen; cbn [length]; lia).
        rewrite nfirstn_all by lia. reflexivity. }
      rewrite Hsh. cbn [pbind]. rewrite Hends. rewrite andb_false_r.
      exists [], []. rewrite app_nil_r. repeat split; reflexivity.
    + assert (segs = rev r ++ [t]) as Es by (rewrite <- (rev_involutive segs), Er; reflexivity).
      set (segs0 := rev r) in *. rewrite Es in *. rewrite forallb_snoc in Hsegs.
      apply andb_true_iff in Hsegs. destruct Hsegs as [Hsegs0 Ht].
      destruct (good_seg_parts t Ht) as (Htc & Htn & _).
      destruct (Bs_ends segs0) as [X0 EX0].
      pose proof (Bs_len_ge segs0) as Hl0.
      assert (rfind 47 (nfirstn (nlen (Bs (segs0 ++ [t])) - 1) (Bs (segs0 ++ [t]))) = Some (nlen X0)) as Hrf.
      { rewrite Bs_snoc. rewrite !nlen_app.
        replace (nlen (Bs segs0) + (nlen t + nlen [47]) - 1) with (nlen (Bs segs0 ++ t)) by (rewrite nlen_app; unfold nlen; cbn [length]; lia).
        rewrite app_assoc. rewrite nfirstn_app_len. rewrite EX0. rewrite <- app_assoc. cbn [app].
        apply rfind_app_last. exact Htn. }
      assert (nlen (Bs segs0) = nlen X0 + 1) as EL0 by (rewrite EX0, nlen_app; reflexivity).
      unfold last_slash_can_be_removed. rewrite Hrf. replace (ps <=? nlen X0) with true by lia. cbn [andb].
      assert (nskipn (nlen X0) (Bs (segs0 ++ [t])) = 47 :: t ++ [47]) as Hsk.
      { rewrite Bs_snoc, EX0. rewrite <- !app_assoc. rewrite nskipn_app_len. reflexivity. }
      rewrite Hsk.
      destruct (path_starts_with_wdl (47 :: t ++ [47])) eqn:Ew; cbn [negb].
      * (* a drive-letter-like segment is not popped *)
        assert (shorten_path STNotSpecial ps (Bs (segs0 ++ [t])) = POk (Bs (segs0 ++ [t]))) as Hsh.
        { unfold shorten_path, pop_path. pose proof (Bs_len_ge (segs0 ++ [t])) as Hl1.
          replace (nlen (Bs (segs0 ++ [t])) =? ps) with false by lia. cbn [st_is_file andb].
          replace (ps <? nlen (Bs (segs0 ++ [t]))) with true by lia.
          assert (exists Y, nskipn ps (Bs (segs0 ++ [t])) = Y ++ [47] /\ ps + nlen Y + 1 = nlen (Bs (segs0 ++ [t]))) as (Y & EY & ELY).
          { rewrite Bs_snoc. unfold Bs. rewrite <- !app_assoc. rewrite nskipn_app_len.
            exists ([47] ++ segs_text segs0 ++ t). split; [rewrite <- !app_assoc; reflexivity|].
            len_lia. }
          rewrite EY. rewrite (rfind_app_last 47 Y []) by reflexivity.
          unfold truncate. rewrite ELY. rewrite nfirstn_all by lia. reflexivity. }
        rewrite Hsh. cbn [pbind]. destruct (Bs_ends (segs0 ++ [t])) as [X1 EX1].
        assert (ends_with_byte 47 (Bs (segs0 ++ [t])) = true) as He1 by (rewrite EX1; apply ends_with_byte_snoc).
        rewrite He1. rewrite andb_false_r.
        exists (segs0 ++ [t]), []. rewrite app_nil_r. rewrite forallb_snoc, Hsegs0, Ht. repeat split; reflexivity.
      * (* the last segment is popped *)
        assert (nfirstn (nlen (Bs (segs0 ++ [t])) - 1) (Bs (segs0 ++ [t])) = Bs segs0 ++ t) as Hcut.
        { rewrite Bs_snoc. rewrite !nlen_app.
          replace (nlen (Bs segs0) + (nlen t + nlen [47]) - 1) with (nlen (Bs segs0 ++ t)) by (rewrite nlen_app; unfold nlen; cbn [length]; lia).
          rewrite app_assoc. apply nfirstn_app_len. }
        rewrite Hcut.
        assert (shorten_path STNotSpecial ps (Bs segs0 ++ t) = POk (Bs segs0)) as Hsh.
        { unfold shorten_path, pop_path. rewrite nlen_app.
          replace (nlen (Bs segs0) + nlen t =? ps) with false by lia. cbn [st_is_file andb].
          replace (ps <? nlen (Bs segs0) + nlen t) with true by lia.
          assert (exists Y, nskipn ps (Bs segs0 ++ t) = Y ++ 47 :: t /\ ps + nlen Y + 1 = nlen (Bs segs0)) as (Y & EY & ELY).
          { unfold Bs. rewrite <- !app_assoc. rewrite nskipn_app_len.
            destruct (rev segs0) as [|t1 r1] eqn:Er0.
            - assert (segs0 = []) as E0 by (rewrite <- (rev_involutive segs0), Er0; reflexivity). rewrite E0.
              exists []. cbn. split; [reflexivity|]. unfold nlen. rewrite !app_length. cbn [length]. lia.
            - assert (segs0 = rev r1 ++ [t1]) as E0 by (rewrite <- (rev_involutive segs0), Er0; reflexivity). rewrite E0.
              rewrite segs_text_snoc. exists ([47] ++ segs_text (rev r1) ++ t1). split.
              + rewrite <- !app_assoc. reflexivity.
              + len_lia. }
          rewrite EY. rewrite (rfind_app_last 47 Y t) by exact Htn.
          unfold truncate. rewrite ELY. rewrite nfirstn_app_len. reflexivity. }
        rewrite Hsh. cbn [pbind]. rewrite EX0. rewrite ends_with_byte_snoc. rewrite andb_false_r. rewrite <- EX0.
        exists segs0, []. rewrite app_nil_r. repeat split; try reflexivity. exact Hsegs0.
  - destruct (is_single_dot cur) eqn:Esd.
    + (* single dot *)
      rewrite Htr, Hends. exists segs, []. rewrite app_nil_r. repeat split; try reflexivity. exact Hsegs.
    + cbn [st_is_file andb]. unfold s1. destruct ews.
      * exists (segs ++ [cur]), []. rewrite app_nil_r, Bs_snoc. repeat split; try reflexivity.
        rewrite forallb_snoc, Hsegs. unfold good_seg. rewrite Hc, Hns, Esd, Edd. reflexivity.
      * exists segs, cur. rewrite app_nil_r. repeat split; try assumption; try discriminate.
        unfold good_seg. rewrite Hc, Hns, Esd, Edd. reflexivity.
Qed.

End Finish.
End Shape.

(* ---------- the loop invariant ---------- *)
Section LoopInv.
Variable pre : list N.
Variable dbg : bool.
Notation ps := (nlen pre).
Notation loop := (parse_path_loop dbg CUrlParser STNotSpecial ps).

Definition pend_ok (pend : list N) : Prop := usv_list pend /\ no_byte 47 pend = true.

Lemma hex_not_slash d : d < 16 -> negb (hex_upper d =? 47) = true.
Proof. intros H. pose proof (hex_upper_ge d H). lia. Qed.

Lemma pend_flush cur pend : clean T_PATH cur = true -> no_slash cur = true -> pend_ok pend ->
  clean T_PATH (cur ++ encode T_PATH (utf8_encode (rev pend))) = true
  /\ no_slash (cur ++ encode T_PATH (utf8_encode (rev pend))) = true.
Proof.
  intros Hc Hn [Hu Hp]. split.
  - rewrite clean_app, Hc. cbn [andb]. apply encode_is_clean; [exact stable_PATH|].
    apply utf8_encode_bytes. apply usv_rev. exact Hu.
  - unfold no_slash in *. rewrite forallb_app, Hn. cbn [andb].
    apply encode_utf8_forallb; [reflexivity | exact hex_not_slash | apply usv_rev; exact Hu|].
    apply Forall_forall. intros c Hin _. unfold no_byte in Hp. rewrite forallb_forall in Hp.
    apply Hp. apply in_rev. exact Hin.
Qed.

Lemma push_pending_shape segs cur pend : usv_list pend ->
  push_pending CUrlParser STNotSpecial (Bs pre segs ++ cur) pend
  = Bs pre segs ++ (cur ++ encode T_PATH (utf8_encode (rev pend))).
Proof. intros H. rewrite push_pending_eq by exact H. rewrite <- app_assoc. reflexivity. Qed.

Theorem loop_inv l : forall segs cur pend hh s' hh' rem, usv_list l -> pend_ok pend ->
  forallb good_seg segs = true -> clean T_PATH cur = true -> no_slash cur = true ->
  loop l (Bs pre segs ++ cur) (nlen (Bs pre segs)) pend hh = POk (s', hh', rem) ->
  exists segs' last', s' = Bs pre segs' ++ last' /\ forallb good_seg segs' = true /\ good_seg last' = true
                      /\ hh' = hh /\ rem = cbb_rest l.
Proof.
  assert (forall l0 segs cur pend hh s' hh' rem,
            match l0 with [] => True | c :: _ => is_qh c = true /\ is_tnl c = false end ->
            pend_ok pend -> forallb good_seg segs = true -> clean T_PATH cur = true -> no_slash cur = true ->
            loop l0 (Bs pre segs ++ cur) (nlen (Bs pre segs)) pend hh = POk (s', hh', rem) ->
            exists segs' last', s' = Bs pre segs' ++ last' /\ forallb good_seg segs' = true /\ good_seg last' = true
                                /\ hh' = hh /\ rem = l0) as Hend.
  { intros l0 segs cur pend hh s' hh' rem Hl Hp Hsegs Hc Hn H.
    rewrite loop_end in H by exact Hl. rewrite push_pending_shape in H by (destruct Hp; assumption).
    destruct (pend_flush cur pend Hc Hn Hp) as [Hc' Hn'].
    destruct (finish_inv pre dbg segs (cur ++ encode T_PATH (utf8_encode (rev pend))) false hh Hsegs Hc' Hn') as (segs' & last' & Hf & G1 & G2 & _).
    rewrite app_nil_r in Hf. rewrite Hf in H. cbn [pbind] in H. inversion H; subst.
    exists segs', last'. repeat split; assumption. }
  induction l as [|c r IH]; intros segs cur pend hh s' hh' rem Hu Hp Hsegs Hc Hn H.
  - destruct (Hend [] segs cur pend hh s' hh' rem I Hp Hsegs Hc Hn H) as (segs' & last' & G).
    exists segs', last'. exact G.
  - apply usv_cons in Hu. destruct Hu as [Huc Hur]. cbn [cbb_rest].
    destruct (is_tnl c) eqn:Et.
    + rewrite loop_cons_tnl in H by exact Et. rewrite push_pending_shape in H by (destruct Hp; assumption).
      destruct (pend_flush cur pend Hc Hn Hp) as [Hc' Hn'].
      apply (IH segs (cur ++ encode T_PATH (utf8_encode (rev pend))) [] hh s' hh' rem Hur); try assumption.
      split; [constructor | reflexivity].
    + destruct (is_qh c) eqn:Eq.
      * apply (Hend (c :: r) segs cur pend hh s' hh' rem); try assumption. split; assumption.
      * destruct (c =? 47) eqn:E47.
        -- apply N.eqb_eq in E47. subst c. rewrite loop_cons_slash in H.
           rewrite push_pending_shape in H by (destruct Hp; assumption).
           destruct (pend_flush cur pend Hc Hn Hp) as [Hc' Hn'].
           destruct (finish_inv pre dbg segs (cur ++ encode T_PATH (utf8_encode (rev pend))) true hh Hsegs Hc' Hn') as (segs' & last' & Hf & G1 & G2 & G3).
           rewrite <- app_assoc in H. rewrite Hf in H. cbn [pbind] in H. rewrite (G3 eq_refl) in H.
           rewrite app_nil_r in H.
           rewrite <- (app_nil_r (Bs pre segs')) in H at 1.
           apply (IH segs' [] [] hh s' hh' rem Hur); try assumption; try reflexivity.
           split; [constructor | reflexivity].
        -- rewrite loop_cons_plain in H by assumption.
           apply (IH segs cur (c :: pend) hh s' hh' rem Hur); try assumption.
           destruct Hp as [Hp1 Hp2]. split; [apply usv_cons; split; assumption|].
           unfold no_byte in *. cbn [forallb]. rewrite E47, Hp2. reflexivity.
Qed.

End LoopInv.

(* ---------- L1 for the class: the parser's result has the canonical form ---------- *)
Section NoAuthOut.
Variable dbg : bool.
Variable hp hpo : list N -> result host.
Variable hd : host -> list N.
Variable ovr : option (list N -> list N).

Theorem parse_noauth_out input sch rem rem' u : usv_list input ->
  parse_scheme CUrlParser (input_new_trim_c0 input) = Some (sch, rem) ->
  scheme_type_of sch = STNotSpecial ->
  inp_split_prefix_str s_ss rem = None -> inp_split_prefix_char 47 rem = Some rem' ->
  parse_url dbg hp hpo hd ovr None input = POk u ->
  exists segs last q f, noauth_ok sch segs last q f /\ u = noauth_url sch (path_text segs last) q f.
Proof.
  intros Hu Hs Hns Hss H47. unfold parse_url. rewrite Hs. unfold parse_with_scheme. rewrite Hns.
  destruct (to_u32 (nlen sch)) as [se| |] eqn:Eu; cbn [pbind]; try discriminate.
  apply to_u32_inv in Eu. destruct Eu as [-> Hb0].
  destruct (parse_scheme_suffix _ _ _ _ Hs) as [pre0 Hpre].
  assert (usv_list rem) as Hur.
  { assert (usv_list (input_new_trim_c0 input)) as Ht.
    { unfold input_new_trim_c0, trim_matches. apply usv_rev.
      destruct (drop_while_spec is_c0_or_space (rev (drop_while is_c0_or_space input))) as (a & Ha & _).
      destruct (drop_while_spec is_c0_or_space input) as (a0 & Ha0 & _).
      rewrite Ha0 in Hu. apply usv_app in Hu. destruct Hu as [_ Hu].
      apply usv_rev in Hu. rewrite Ha in Hu. apply usv_app in Hu. tauto. }
    rewrite Hpre in Ht. apply usv_app in Ht. tauto. }
  assert (usv_list rem') as Hur'.
  { unfold inp_split_prefix_char in H47. destruct (inp_next rem) as [[d r]|] eqn:En; [|discriminate].
    destruct (d =? 47); [|discriminate]. inversion H47; subst. exact (inp_next_usv rem d rem' Hur En). }
  unfold parse_non_special. rewrite Hss, H47.
  destruct (to_u32 (nlen (sch ++ [58]))) as [ps| |] eqn:Eu; cbn [pbind]; try discriminate.
  apply to_u32_inv in Eu. destruct Eu as [-> Hb1].
  unfold parse_path.
  destruct (parse_path_loop dbg CUrlParser STNotSpecial (nlen (sch ++ [58])) rem' ((sch ++ [58]) ++ [47])
              (nlen ((sch ++ [58]) ++ [47])) [] false) as [[[s hh] r]| |] eqn:El; cbn [pbind]; try discriminate.
  assert ((sch ++ [58]) ++ [47] = Bs (sch ++ [58]) [] ++ []) as EB by (unfold Bs; cbn; rewrite !app_nil_r; reflexivity).
  rewrite EB in El. rewrite app_nil_r in El at 2.
  apply (loop_inv (sch ++ [58]) dbg rem' [] [] [] false s hh r Hur') in El; try reflexivity.
  2:{ split; [constructor | reflexivity]. }
  destruct El as (segs & last & -> & Hsegs & Hlast & _ & ->).
  set (T := path_text segs last).
  assert (Bs (sch ++ [58]) segs ++ last = (sch ++ [58]) ++ T) as ET.
  { unfold Bs, T, path_text. rewrite <- !app_assoc. reflexivity. }
  rewrite ET. rewrite (wqf_noauth_eq hp hpo ovr sch T (cbb_rest rem') eq_refl). cbv zeta.
  destruct (parse_query_and_fragment ovr CUrlParser STNotSpecial (nlen sch) (noauth_pre sch T) (cbb_rest rem'))
    as [[[s2 qs] fs]| |] eqn:Eq; cbn [pbind]; try discriminate.
  intros H. inversion H; subst u. clear H.
  apply pqf_out in Eq; [|apply usv_cbb_rest; exact Hur'|].
  2:{ unfold noauth_pre. rewrite <- !app_assoc. rewrite nfirstn_app_len. apply query_enc_nonspecial. exact Hns. }
  destruct Eq as (-> & -> & -> & Bq & Bf & Cq & Cf).
  exists segs, last, (pqf_q STNotSpecial (cbb_rest rem')), (pqf_f (cbb_rest rem')).
  split; [|reflexivity].
  constructor; try assumption.
  exact (parse_scheme_out _ _ _ Hs).
Qed.

(* composition: L1 + L3 *)
Theorem reparse_noauth_input input sch rem rem' u : usv_list input ->
  parse_scheme CUrlParser (input_new_trim_c0 input) = Some (sch, rem) ->
  scheme_type_of sch = STNotSpecial ->
  inp_split_prefix_str s_ss rem = None -> inp_split_prefix_char 47 rem = Some rem' ->
  parse_url dbg hp hpo hd ovr None input = POk u ->
  parse_url dbg hp hpo hd ovr None (ser u) = POk u.
Proof.
  intros Hu Hs Hns Hss H47 Hp.
  destruct (parse_noauth_out input sch rem rem' u Hu Hs Hns Hss H47 Hp) as (segs & last & q & f & K & ->).
  exact (reparse_noauth_form dbg hp hpo hd ovr sch segs last q f K).
Qed.

End NoAuthOut.

(* ---------- the canonical form satisfies the structural invariant ---------- *)
Lemma wf_qf_generic (A P : list N) q f u :
  ser u = (A ++ P) ++ qf_text q f -> path_start u = nlen A ->
  query_start u = qf_qs (nlen (A ++ P)) q -> fragment_start u = qf_fs (nlen (A ++ P)) q f ->
  forallb (fun c => negb ((c =? 63) || (c =? 35))) P = true -> opt_clean T_QUERY q ->
  wf_query_fragment u = true.
Proof.
  intros Es Ep Eq Ef HP Hq. unfold wf_query_fragment. rewrite Es, Ep, Eq, Ef.
  destruct q as [x|]; destruct f as [y|];
    cbn [qf_qs qf_fs qf_text qf_qtext qf_ftext opt_clean] in *; unfold qf_text; cbn [qf_qtext qf_ftext].
  - assert (forallb (fun c => negb (c =? 35)) x = true) as Hx.
    { apply (forallb_impl not_tnl_hash); [|exact (clean_forallb _ _ x kept_QUERY_sat Hq)].
      intros c Hc. unfold not_tnl_hash in Hc. apply andb_true_iff in Hc. tauto. }
    repeat (apply andb_true_iff; split).
    + rewrite nlen_app. lia.
    + cbn [app]. apply byte_eqb_app.
    + rewrite !nlen_app. lia.
    + replace ((A ++ P) ++ (63 :: x) ++ 35 :: y) with (((A ++ P) ++ 63 :: x) ++ 35 :: y) by (rewrite <- !app_assoc; reflexivity).
      rewrite <- nlen_app. apply byte_eqb_app.
    + rewrite nlen_cons. lia.
    + rewrite nlen_app. replace (nlen A + nlen P - nlen A) with (nlen P) by lia.
      rewrite <- !app_assoc. rewrite nskipn_app_len. rewrite nfirstn_app_len. exact HP.
    + rewrite nlen_cons. replace (nlen (A ++ P) + (1 + nlen x) - (nlen (A ++ P) + 1)) with (nlen x) by lia.
      rewrite nskipn_app_add. cbn [app]. change (nskipn 1 (63 :: x ++ 35 :: y)) with (x ++ 35 :: y).
      rewrite nfirstn_app_len. exact Hx.
  - assert (forallb (fun c => negb (c =? 35)) x = true) as Hx.
    { apply (forallb_impl not_tnl_hash); [|exact (clean_forallb _ _ x kept_QUERY_sat Hq)].
      intros c Hc. unfold not_tnl_hash in Hc. apply andb_true_iff in Hc. tauto. }
    rewrite app_nil_r. repeat (apply andb_true_iff; split); try reflexivity.
    + rewrite nlen_app. lia.
    + apply byte_eqb_app.
    + rewrite nlen_app. replace (nlen A + nlen P - nlen A) with (nlen P) by lia.
      rewrite <- !app_assoc. rewrite nskipn_app_len. rewrite nfirstn_app_len. exact HP.
    + rewrite nskipn_app_add. change (nskipn 1 (63 :: x)) with x. exact Hx.
  - cbn [app]. rewrite N.add_0_r. repeat (apply andb_true_iff; split); try reflexivity.
    + rewrite nlen_app. lia.
    + apply byte_eqb_app.
    + rewrite nlen_app. replace (nlen A + nlen P - nlen A) with (nlen P) by lia.
      rewrite <- !app_assoc. rewrite nskipn_app_len. rewrite nfirstn_app_len. exact HP.
  - cbn [app]. rewrite app_nil_r. repeat (apply andb_true_iff; split); try reflexivity.
    rewrite nlen_app. replace (nlen A + nlen P - nlen A) with (nlen P) by lia.
    rewrite nskipn_app_len. rewrite nfirstn_all by lia. exact HP.
Qed.

Lemma path_text_no_qh segs last : forallb good_seg segs = true -> good_seg last = true ->
  forallb (fun c => negb ((c =? 63) || (c =? 35))) (path_text segs last) = true.
Proof.
  intros Hs Hl.
  assert (forall s, good_seg s = true -> forallb (fun c => negb ((c =? 63) || (c =? 35))) s = true) as G.
  { intros s H. apply (forallb_impl seg_char); [|apply good_seg_chars; exact H].
    intros c Hc. unfold seg_char, is_qh in Hc. apply andb_true_iff in Hc. tauto. }
  unfold path_text. cbn [forallb]. replace (negb ((47 =? 63) || (47 =? 35))) with true by reflexivity. cbn [andb].
  rewrite forallb_app, (G last Hl), andb_true_r.
  induction segs as [|s segs IH]; [reflexivity|].
  cbn [forallb] in Hs. apply andb_true_iff in Hs. destruct Hs as [H1 H2].
  unfold segs_text. cbn [map concat]. fold (segs_text segs). rewrite !forallb_app. rewrite (G s H1), (IH H2). reflexivity.
Qed.

Lemma noauth_url_wf sch segs last q f : noauth_ok sch segs last q f ->
  wf_b (noauth_url sch (path_text segs last) q f) = true
  /\ cannot_be_a_base (noauth_url sch (path_text segs last) q f) = Some false
  /\ ascii (noauth_ser sch (path_text segs last) q f).
Proof.
  intros K. destruct K as [nk_sch0 nk_ns0 nk_segs0 nk_last0 nk_q0 nk_f0 nk_b2 nk_bq0 nk_bf0].
  unfold scheme_canon in nk_sch0. apply andb_true_iff in nk_sch0. destruct nk_sch0 as [Hhead Hall].
  set (T := path_text segs last) in *. set (body := segs_text segs ++ last).
  assert (T = 47 :: body) as ET by reflexivity.
  set (M := marker_of T). set (A := sch ++ [58]).
  assert (nlen A = nlen sch + 1) as EA by (unfold A; rewrite nlen_app; reflexivity).
  assert (noauth_ser sch T q f = ((A ++ M) ++ T) ++ qf_text q f) as Eser.
  { unfold noauth_ser, noauth_pre. fold A M. rewrite <- !app_assoc. reflexivity. }
  assert (starts_with s_ss (M ++ T ++ qf_text q f) = false) as Hno.
  { unfold M, marker_of. rewrite ET. destruct (starts_with s_ss (47 :: body)) eqn:Ess; [reflexivity|].
    cbn [app]. unfold s_ss in *. cbn [starts_with] in *. replace (47 =? 47) with true in * by reflexivity. cbn [andb] in *.
    destruct body as [|b0 b']; [|cbn [app]; exact Ess].
    cbn [app]. unfold qf_text. destruct q; destruct f; reflexivity. }
  assert (starts_with [47] (M ++ T ++ qf_text q f) = true) as Hsl.
  { unfold M, marker_of. rewrite ET. destruct (starts_with s_ss (47 :: body)); reflexivity. }
  split; [|split].
  - unfold wf_b. apply andb_true_iff. split; [apply andb_true_iff; split|].
    + unfold wf_scheme, noauth_url. cbn [ser scheme_end]. unfold noauth_ser, noauth_pre.
      repeat (apply andb_true_iff; split).
      * destruct sch; [discriminate|]. unfold nlen. cbn [length]. lia.
      * destruct sch as [|c s]; [discriminate|]. cbn [app]. unfold is_alpha. rewrite Hhead. apply orb_true_r.
      * rewrite <- !app_assoc. rewrite nfirstn_app_len.
        apply (forallb_impl scheme_out_char); [exact scheme_out_char_scheme_char | exact Hall].
      * rewrite <- !app_assoc. cbn [app]. apply byte_eqb_app.
    + assert (has_authority_b (noauth_url sch T q f) = false) as Hna.
      { unfold has_authority_b, noauth_url. cbn [ser scheme_end]. unfold noauth_ser, noauth_pre. fold M.
        rewrite <- !app_assoc. rewrite nskipn_app_len. unfold s_css. cbn [app starts_with].
        replace (58 =? 58) with true by reflexivity. cbn [andb]. exact Hno. }
      rewrite Hna. unfold wf_no_authority, noauth_url.
      cbn [ser scheme_end username_end host_start host_end hosti port path_start]. fold A M.
      rewrite Eser. rewrite !nlen_app. cbn [hi_eqb].
      replace (nlen A =? nlen sch + 1) with true by lia.
      replace (nlen A + nlen M <=? nlen A + nlen M + nlen T + nlen (qf_text q f)) with true by lia. cbn [andb].
      unfold M, marker_of. rewrite ET. destruct (starts_with s_ss (47 :: body)) eqn:Ess.
      * apply orb_true_iff. right. repeat (apply andb_true_iff; split).
        -- unfold nlen at 2. cbn [length]. lia.
        -- replace (nlen sch + 1) with (nlen A) by lia. rewrite <- !app_assoc. cbn [app]. apply byte_eqb_app.
        -- replace (nlen sch + 2) with (nlen (A ++ [47])) by (rewrite nlen_app; unfold nlen at 2; cbn [length]; lia).
           replace (((A ++ [47; 46]) ++ 47 :: body) ++ qf_text q f) with ((A ++ [47]) ++ 46 :: (47 :: body) ++ qf_text q f)
             by (rewrite <- !app_assoc; reflexivity).
           apply byte_eqb_app.
        -- replace (nlen A + nlen [47; 46]) with (nlen (A ++ [47; 46])) by (rewrite nlen_app; reflexivity).
           rewrite <- (app_assoc (A ++ [47; 46])). rewrite nskipn_app_len.
           unfold s_ss in *. cbn [app starts_with] in *. replace (47 =? 47) with true in * by reflexivity. cbn [andb] in *.
           destruct body as [|b0 b']; [discriminate|]. cbn [app]. exact Ess.
      * apply orb_true_iff. left. unfold nlen at 2. cbn [length]. lia.
    + apply (wf_qf_generic (A ++ M) T q f).
      * exact Eser.
      * unfold noauth_url. cbn [path_start]. fold A M. rewrite nlen_app. reflexivity.
      * unfold noauth_url. cbn [query_start]. unfold noauth_pre. fold A M. rewrite <- !app_assoc. reflexivity.
      * unfold noauth_url. cbn [fragment_start]. unfold noauth_pre. fold A M. rewrite <- !app_assoc. reflexivity.
      * apply path_text_no_qh; assumption.
      * exact nk_q0.
  - unfold cannot_be_a_base, u_slice_from, noauth_url. cbn [ser scheme_end].
    replace (nlen sch + 1) with (nlen A) by lia. unfold noauth_ser, noauth_pre. fold A M. rewrite <- !app_assoc.
    rewrite slice_from_o_some by (rewrite !nlen_app; lia). rewrite nskipn_app_len. cbn [bindo]. rewrite Hsl. reflexivity.
  - assert (ascii A) as HA.
    { unfold A. apply ascii_app. split; [|constructor; [unfold is_ascii; lia | constructor]].
      apply Forall_forall. intros c Hc. rewrite forallb_forall in Hall. specialize (Hall c Hc).
      unfold scheme_out_char, is_lower, is_digit, is_ascii in *. lia. }
    assert (ascii M) as HM.
    { unfold M, marker_of. destruct (starts_with s_ss T); repeat constructor; unfold is_ascii; lia. }
    assert (ascii (segs_text segs)) as HS.
    { clear - nk_segs0. induction segs as [|s segs IH]; [constructor|].
      cbn [forallb] in nk_segs0. apply andb_true_iff in nk_segs0. destruct nk_segs0 as [H1 H2].
      unfold segs_text. cbn [map concat]. fold (segs_text segs).
      apply ascii_app. split; [apply ascii_app; split|].
      - destruct (good_seg_parts s H1) as (Hc & _). apply (clean_ascii T_PATH). exact Hc.
      - constructor; [unfold is_ascii; lia | constructor].
      - exact (IH H2). }
    assert (ascii T) as HT.
    { rewrite ET. constructor; [unfold is_ascii; lia|]. unfold body. apply ascii_app. split; [exact HS|].
      destruct (good_seg_parts last nk_last0) as (Hc & _). apply (clean_ascii T_PATH). exact Hc. }
    assert (ascii (qf_text q f)) as HQ.
    { unfold qf_text. apply ascii_app. split.
      - destruct q as [x|]; [|constructor]. cbn [qf_qtext]. constructor; [unfold is_ascii; lia|].
        apply (clean_ascii T_QUERY). exact nk_q0.
      - destruct f as [y|]; [|constructor]. cbn [qf_ftext]. constructor; [unfold is_ascii; lia|].
        apply (clean_ascii T_FRAGMENT). exact nk_f0. }
    rewrite Eser. apply ascii_app. split; [|exact HQ]. apply ascii_app. split; [|exact HT].
    apply ascii_app. split; assumption.
Qed.
