(* Proofs/C05_HostClause.v - the last sentence of the property text ("special-scheme hosts are lower-case and free of
   forbidden host code points") as an invariant of the mutators, relative to a hypothesis on what the host parser of
   special schemes returns.
   HostSpQ hp hd Q : every host other than the empty one that hp (Host::parse) returns, and every address value, is
                     displayed as a text that satisfies Q.
   HC Q u          : if the scheme of u is special, what Url::host_str() returns satisfies Q.
   hc_step / hc_qpm: HC is kept by every step_gate3 step of the 19 mutators and by query_pairs_mut sessions - the host
                     text stays, disappears, or is the Display of a host that the parser OF THE SCHEME CLASS returned
                     (a special URL never gets its host from Host::parse_opaque: frame_step3), and the scheme class can
                     only go from special to special.
   GHistF          : histories of gated steps and sessions from a start record; hc_history.
   hc_parse        : HC for every parse result, from HC of the base (C05_HostParse.parse_url_host: the host text of a
                     parse result is the Display of a host the parser of the scheme class returned, or the host text of
                     a base of the same scheme class).
   creachF_hc      : HC for every record of CReachF. *)
From RU Require Import Base.Prelude Base.Utf8 Model.AsciiSet Gen.Tables Model.PercentEncoding
  Model.HostT Model.UrlRecord Model.Parser Model.Setters Model.WF Model.FormUrlencoded Model.QueryPairs
  Proofs.ListN Proofs.C03_WF Proofs.C05_Enc Proofs.C05_Parser Proofs.C05_Setters Proofs.C05_History
  Proofs.C05_Comp Proofs.C05_CompSteps Proofs.C06_Host Proofs.C06_Main Proofs.C03_ReachParts
  Proofs.C05_CompSteps2 Proofs.C05_CompReach Proofs.C05_CompSteps3 Proofs.C05_Alphabet Proofs.C05_AuthOfs
  Proofs.C05_HostText Proofs.C15_Ser Proofs.C05_Qpm Proofs.C05_ReachF Proofs.C05_BaseOk Proofs.C05_HostParse Proofs.C06_Suffix.

Section HostClause.
Variable dbg : bool.
Variable hp hpo : list N -> result host.
Variable hd : host -> list N.
Variable Q : list N -> Prop.

Definition HostSpQ : Prop :=
  (forall s h, hp s = Ok h -> h <> HDomain [] -> Q (hd h)) /\ (forall h, ip_arg h -> Q (hd h)).

Definition HC (u : url) : Prop := spb u = true -> HTx Q u.

Hypothesis HQ : HostSpQ.

Lemma hc_frame u u' : FR hp hpo hd u u' -> HC u -> HC u'.
Proof.
  intros [Fs Fh] H Hs' s Hs. pose proof (Fs Hs') as Hsp.
  destruct Fh as [E|[E|(h & E & Hne & Ho)]].
  - rewrite E in Hs. exact (H Hsp s Hs).
  - rewrite E in Hs. discriminate.
  - rewrite E in Hs. inversion Hs; subst s. destruct HQ as [Q1 Q2].
    destruct Ho as [Ho|Ho]; [exact (Q2 h Ho)|]. rewrite Hsp in Ho. destruct Ho as [s0 E0]. exact (Q1 s0 h E0 Hne).
Qed.

Hypothesis HW : HostWf hp hpo hd.
Hypothesis HI : IpDisp hd.

Theorem hc_step u o u' : CInv dbg u -> step_gate3 hp hpo hd u o u' -> apply_op dbg hp hpo hd u o = Some u' ->
  HC u -> HC u'.
Proof. intros K G H. exact (hc_frame u u' (frame_step3 dbg hp hpo hd HW u o u' HI K G H)). Qed.

Theorem hc_qpm u ops u' : CInv dbg u -> Forall ok_or_space (ser u) -> Forall op_ok ops ->
  query_pairs_session dbg u ops = Some u' -> HC u -> HC u'.
Proof.
  intros K O Hops H Hc. pose proof K as [[W _] _].
  destruct (qpm_inv dbg u ops u' K O Hops H) as ([[W' _] _] & _ & _ & Es & Eh).
  apply (hc_frame u u'); [|exact Hc]. exact (fr_same hp hpo hd u u' W W' Es Eh).
Qed.

(* histories of gated steps and sessions *)
Inductive GHistF : url -> url -> Prop :=
| GF_refl u : GHistF u u
| GF_step u o u1 u2 : step_gate3 hp hpo hd u o u1 -> apply_op dbg hp hpo hd u o = Some u1 -> GHistF u1 u2 -> GHistF u u2
| GF_qpm u ops u1 u2 : Forall op_ok ops -> query_pairs_session dbg u ops = Some u1 -> GHistF u1 u2 -> GHistF u u2.

Hypothesis HOK : HostOK hp hpo hd.
Hypothesis HV : IpOKv hd.

Theorem hc_history u u' : GHistF u u' -> FInv dbg u -> HC u -> FInv dbg u' /\ HC u'.
Proof.
  induction 1 as [u | u o u1 u2 G H _ IH | u ops u1 u2 Hops H _ IH]; intros F Hc.
  - split; assumption.
  - apply IH.
    + exact (finv_step dbg hp hpo hd HW HOK HI HV u o u1 F G H).
    + exact (hc_step u o u1 (proj1 F) G H Hc).
  - apply IH.
    + exact (finv_qpm dbg u ops u1 F Hops H).
    + destruct F as (K & _ & O & _). exact (hc_qpm u ops u1 K O Hops H Hc).
Qed.

(* ---------- parse results ---------- *)
Theorem hc_parse ovr base input u : wf_b u = true ->
  match base with Some b => wf_b b = true /\ host_text_ok b /\ bk b /\ HC b | None => True end ->
  parse_url dbg hp hpo hd ovr base input = POk u -> HC u.
Proof.
  intros W Hb Hp Hs s Hstr.
  rewrite (host_str_ht u W) in Hstr. destruct (has_host u) eqn:Ehh; [|discriminate]. inversion Hstr; subst s. clear Hstr.
  assert (match base with Some b => wf_b b = true /\ host_text_ok b /\ bk b | None => True end) as Hb3
    by (destruct base as [b|]; [tauto | exact I]).
  destruct (parse_url_host dbg hp hpo hd ovr HW base input u Hb3 Hp) as [A|[(h & Hne & Ho & Eh)|(b & Eb & Hn & Eh & Esp)]].
  - unfold has_host in Ehh. rewrite A in Ehh. discriminate.
  - rewrite Eh. rewrite Hs in Ho. destruct Ho as [s0 E0]. exact (proj1 HQ s0 h E0 Hne).
  - rewrite Eb in Hb. destruct Hb as (Wb & _ & _ & Hcb). rewrite Eh. apply Hcb; [rewrite <- Esp; exact Hs|].
    rewrite (host_str_ht b Wb). unfold has_host. destruct (hosti b); [contradiction | reflexivity ..].
Qed.

(* ---------- every record of CReachF ---------- *)
Theorem creachF_hc u : CReachF dbg hp hpo hd u -> HC u.
Proof.
  intros R. assert (FInv dbg u /\ HC u) as [_ X]; [|exact X].
  induction R as [ovr input u Hp | ovr b input u Rb IHb Hp | u o u' R IH G H | u ops u' R IH Hops H].
  - pose proof (finv_parse dbg hp hpo hd HW HOK ovr None input u I Hp) as F. split; [exact F|].
    destruct F as ([[W _] _] & _). exact (hc_parse ovr None input u W I Hp).
  - destruct IHb as [Fb Hcb]. pose proof (finv_parse dbg hp hpo hd HW HOK ovr (Some b) input u Fb Hp) as F. split; [exact F|].
    destruct F as ([[W _] _] & _). apply (hc_parse ovr (Some b) input u W); [|exact Hp].
    destruct Fb as ([[Wb HTb] _] & Ab & _). split; [exact Wb|]. split; [exact HTb|]. split; [exact (as_bk b Wb Ab) | exact Hcb].
  - destruct IH as [F Hc]. split; [exact (finv_step dbg hp hpo hd HW HOK HI HV u o u' F G H)|].
    exact (hc_step u o u' (proj1 F) G H Hc).
  - destruct IH as [F Hc]. split; [exact (finv_qpm dbg u ops u' F Hops H)|].
    destruct F as (K & _ & O & _). exact (hc_qpm u ops u' K O Hops H Hc).
Qed.

End HostClause.
