(* Proofs/C05_HostClause.v - the last sentence of the property text ("special-scheme hosts are lower-case and free of
   forbidden host code points") as an invariant of the mutators, relative to a hypothesis on what the host parser of
   special schemes returns.
   HostSpQ hp hd Q : every host other than the empty one that hp (Host::parse) returns, and every address value, is
                     displayed as a text that satisfies Q.
   HC Q u          : if the scheme of u is special, what Url::host_str() returns satisfies Q.
   hc_step / hc_qpm: HC is kept by every step_gate3 step of the 19 mutators and by query_pairs_mut sessions - the host
                     text stays, disappears, or is the Display of a host that the parser OF THE SCHEME CLASS returned
                     (a special URL never gets its host from Host::parse_opaque: frame_step3), and the scheme class can
                     only go from special to special.
   GHistF          : histories of gated steps and sessions from a start record; hc_history.
   NOT proved here: HC for parse results (the start records) - it needs the position of the host text in the result of
   every parser arm (after "//": Display of the host parse_host returned; relative / file arms: the host text of the
   base); see the theorem notes. *)
From RU Require Import Base.Prelude Base.Utf8 Model.AsciiSet Gen.Tables Model.PercentEncoding
  Model.HostT Model.UrlRecord Model.Parser Model.Setters Model.WF Model.FormUrlencoded Model.QueryPairs
  Proofs.ListN Proofs.C03_WF Proofs.C05_Enc Proofs.C05_Parser Proofs.C05_Setters Proofs.C05_History
  Proofs.C05_Comp Proofs.C05_CompSteps Proofs.C06_Host Proofs.C06_Main Proofs.C03_ReachParts
  Proofs.C05_CompSteps2 Proofs.C05_CompReach Proofs.C05_CompSteps3 Proofs.C05_Alphabet Proofs.C05_AuthOfs
  Proofs.C05_HostText Proofs.C15_Ser Proofs.C05_Qpm Proofs.C05_ReachF.

Section HostClause.
Variable dbg : bool.
Variable hp hpo : list N -> result host.
Variable hd : host -> list N.
Variable Q : list N -> Prop.

Definition HostSpQ : Prop :=
  (forall s h, hp s = Ok h -> h <> HDomain [] -> Q (hd h)) /\ (forall h, ip_arg h -> Q (hd h)).

Definition HC (u : url) : Prop := spb u = true -> HTx Q u.

Hypothesis HQ : HostSpQ.

Lemma hc_frame u u' : FR hp hpo hd u u' -> HC u -> HC u'.
Proof.
  intros [Fs Fh] H Hs' s Hs. pose proof (Fs Hs') as Hsp.
  destruct Fh as [E|[E|(h & E & Hne & Ho)]].
  - rewrite E in Hs. exact (H Hsp s Hs).
  - rewrite E in Hs. discriminate.
  - rewrite E in Hs. inversion Hs; subst s. destruct HQ as [Q1 Q2].
    destruct Ho as [Ho|Ho]; [exact (Q2 h Ho)|]. rewrite Hsp in Ho. destruct Ho as [s0 E0]. exact (Q1 s0 h E0 Hne).
Qed.

Hypothesis HW : HostWf hp hpo hd.
Hypothesis HI : IpDisp hd.

Theorem hc_step u o u' : CInv dbg u -> step_gate3 hp hpo hd u o u' -> apply_op dbg hp hpo hd u o = Some u' ->
  HC u -> HC u'.
Proof. intros K G H. exact (hc_frame u u' (frame_step3 dbg hp hpo hd HW u o u' HI K G H)). Qed.

Theorem hc_qpm u ops u' : CInv dbg u -> Forall ok_or_space (ser u) -> Forall op_ok ops ->
  query_pairs_session dbg u ops = Some u' -> HC u -> HC u'.
Proof.
  intros K O Hops H Hc. pose proof K as [[W _] _].
  destruct (qpm_inv dbg u ops u' K O Hops H) as ([[W' _] _] & _ & _ & Es & Eh).
  apply (hc_frame u u'); [|exact Hc]. exact (fr_same hp hpo hd u u' W W' Es Eh).
Qed.

(* histories of gated steps and sessions *)
Inductive GHistF : url -> url -> Prop :=
| GF_refl u : GHistF u u
| GF_step u o u1 u2 : step_gate3 hp hpo hd u o u1 -> apply_op dbg hp hpo hd u o = Some u1 -> GHistF u1 u2 -> GHistF u u2
| GF_qpm u ops u1 u2 : Forall op_ok ops -> query_pairs_session dbg u ops = Some u1 -> GHistF u1 u2 -> GHistF u u2.

Hypothesis HOK : HostOK hp hpo hd.
Hypothesis HV : IpOKv hd.

Theorem hc_history u u' : GHistF u u' -> FInv dbg u -> HC u -> FInv dbg u' /\ HC u'.
Proof.
  induction 1 as [u | u o u1 u2 G H _ IH | u ops u1 u2 Hops H _ IH]; intros F Hc.
  - split; assumption.
  - apply IH.
    + exact (finv_step dbg hp hpo hd HW HOK HI HV u o u1 F G H).
    + exact (hc_step u o u1 (proj1 F) G H Hc).
  - apply IH.
    + exact (finv_qpm dbg u ops u1 F Hops H).
    + destruct F as (K & _ & O & _). exact (hc_qpm u ops u1 K O Hops H Hc).
Qed.

End HostClause.
