(* Proofs/C01_KnownExact.v - the exact classes of Known_C01 (Model/KnownC01.v: computed on the raw text)
   against the recognisers on the Standard's side:
     - the cuts of the authority (k_apart, k_after_at, k_hrest, k_port_cut ...) ARE the cuts of
       Proofs/C01_EqAuthSpec.v (non-special) and Proofs/C01_EqSpSpec.v (special);
     - the path simulation on raw characters with one drive-letter flag per segment (k_path_ok) implies
       the test on the Standard's own state (spath_ok / spath_ok_s: percent-encoded buffer, segment list):
       the dot-segment tests do not see the percent-encoding of the path set, and an encoded segment that
       is drive-letter-shaped was so before encoding;
     - hence  k_auth T = 0 -> auth_class_ok T,  k_special R = 0 -> sp_class_ok (drop_sl R). *)
From Coq Require Import ZifyBool ZifyN.
From RU Require Import Base.Prelude Base.Utf8 Base.Utf8Facts Model.HostT Model.UrlRecord Model.Parser
  Model.KnownC01 Spec.Whatwg
  Proofs.C02_Path Proofs.C08_Input Proofs.C01_EqEnc Proofs.C01_EqRun Proofs.C01_EqDots Proofs.C01_EqPathSpec Proofs.C01_EqPath Proofs.C01_EqAuthSpec
  Proofs.C01_Tables Proofs.C01_EqOpaque Proofs.C01_EqClasses2 Proofs.C01_EqSpSpec Proofs.C01_EqSpPath Proofs.C01_EqSp.

Local Ltac Zify.zify_post_hook ::= Z.div_mod_to_equations.

(* ================= the cuts ================= *)
Lemma k_ae_false c : k_ae false c = is_ae c.
Proof. unfold k_ae, is_ae. cbn [andb]. apply orb_false_r. Qed.
Lemma k_ae_true c : k_ae true c = is_aes c.
Proof. reflexivity. Qed.
Lemma k_sl_eq c : k_sl c = is_sl c.
Proof. reflexivity. Qed.
Lemma k_sep_false c : k_sep false c = (c =? 47).
Proof. unfold k_sep. cbn [andb]. apply orb_false_r. Qed.
Lemma k_sep_true c : k_sep true c = is_sl c.
Proof. reflexivity. Qed.
Lemma k_qh_eq c : k_qh c = is_qh c.
Proof. reflexivity. Qed.

Lemma k_apart_false t : k_apart false t = a_part t.
Proof. induction t as [|c r IH]; [reflexivity|]. cbn [k_apart a_part]. rewrite k_ae_false, IH. reflexivity. Qed.
Lemma k_apart_true t : k_apart true t = as_part t.
Proof. induction t as [|c r IH]; [reflexivity|]. cbn [k_apart as_part]. rewrite k_ae_true, IH. reflexivity. Qed.
Lemma k_arest_false t : k_arest false t = a_rest t.
Proof. induction t as [|c r IH]; [reflexivity|]. cbn [k_arest a_rest]. rewrite k_ae_false, IH. reflexivity. Qed.
Lemma k_arest_true t : k_arest true t = as_rest t.
Proof. induction t as [|c r IH]; [reflexivity|]. cbn [k_arest as_rest]. rewrite k_ae_true, IH. reflexivity. Qed.
Lemma k_last_at_eq t : k_last_at t = last_at t.
Proof. induction t as [|c r IH]; [reflexivity|]. cbn [k_last_at last_at]. rewrite IH. reflexivity. Qed.

Lemma k_after_at_false T : k_after_at false T = snd (after_at T).
Proof.
  unfold k_after_at, after_at. rewrite k_apart_false, k_arest_false, k_last_at_eq.
  destruct (last_at (a_part T)) as [[w h]|]; reflexivity.
Qed.
Lemma k_after_at_true T : k_after_at true T = snd (after_at_s T).
Proof.
  unfold k_after_at, after_at_s. rewrite k_apart_true, k_arest_true, k_last_at_eq.
  destruct (last_at (as_part T)) as [[w h]|]; reflexivity.
Qed.

Lemma k_hrest_false t : forall br, k_hrest false br t = hs_rest br t.
Proof.
  induction t as [|c r IH]; intros br; [reflexivity|]. cbn [k_hrest hs_rest].
  unfold k_hstop, hs_stop. rewrite k_ae_false. change (k_br_next br c) with (br_next br c). rewrite IH. reflexivity.
Qed.
Lemma k_hrest_true t : forall br, k_hrest true br t = hss_rest br t.
Proof.
  induction t as [|c r IH]; intros br; [reflexivity|]. cbn [k_hrest hss_rest].
  unfold k_hstop, hss_stop. rewrite k_ae_true. change (k_br_next br c) with (br_next br c). rewrite IH. reflexivity.
Qed.
Lemma k_digits_eq t : k_digits t = digits_of t.
Proof. induction t as [|c r IH]; [reflexivity|]. cbn [k_digits digits_of]. rewrite IH. reflexivity. Qed.
Lemma k_after_digits_eq t : k_after_digits t = after_digits t.
Proof. induction t as [|c r IH]; [reflexivity|]. cbn [k_after_digits after_digits]. rewrite IH. reflexivity. Qed.
Lemma k_dec_eq s : k_dec s = decimal_value s.
Proof. reflexivity. Qed.
Lemma k_drop_sl_eq t : k_drop_sl t = drop_sl t.
Proof.
  unfold drop_sl. induction t as [|c r IH]; [reflexivity|]. cbn [k_drop_sl drop_leading].
  rewrite k_sl_eq, IH. reflexivity.
Qed.

(* the port cut in terms of port_split / after_digits *)
Lemma k_port_cut_split X :
  match X with
  | c :: r => if c =? 58 then (Some (k_digits r), k_after_digits r) else (None, c :: r)
  | [] => (None, [])
  end = match port_split X with
        | Some PR => (Some (digits_of PR), after_digits PR)
        | None => (None, X)
        end.
Proof.
  destruct X as [|c r]; [reflexivity|]. cbn [port_split]. destruct (c =? 58); [|reflexivity].
  rewrite k_digits_eq, k_after_digits_eq. reflexivity.
Qed.

Lemma k_port_cut_false T :
  k_port_cut false T = match port_split (hs_rest false (snd (after_at T))) with
                       | Some PR => (Some (digits_of PR), after_digits PR)
                       | None => (None, hs_rest false (snd (after_at T)))
                       end.
Proof. unfold k_port_cut. rewrite k_after_at_false, k_hrest_false. apply k_port_cut_split. Qed.
Lemma k_port_cut_true T :
  k_port_cut true T = match port_split (hss_rest false (snd (after_at_s T))) with
                      | Some PR => (Some (digits_of PR), after_digits PR)
                      | None => (None, hss_rest false (snd (after_at_s T)))
                      end.
Proof. unfold k_port_cut. rewrite k_after_at_true, k_hrest_true. apply k_port_cut_split. Qed.

Lemma k_path_text_false T : snd (k_port_cut false T) = auth_path_text T.
Proof.
  rewrite k_port_cut_false. unfold auth_path_text.
  destruct (port_split (hs_rest false (snd (after_at T)))); reflexivity.
Qed.
Lemma k_path_text_true T : snd (k_port_cut true T) = sp_path_text T.
Proof.
  rewrite k_port_cut_true. unfold sp_path_text.
  destruct (port_split (hss_rest false (snd (after_at_s T)))); reflexivity.
Qed.
Lemma k_port_bslash T :
  match fst (k_port_cut false T) with
  | Some ds => (k_dec ds <=? 65535) && match snd (k_port_cut false T) with c :: _ => c =? 92 | [] => false end
  | None => false
  end = auth_port_bslash T.
Proof.
  rewrite k_port_cut_false. unfold auth_port_bslash.
  destruct (port_split (hs_rest false (snd (after_at T)))) as [PR|]; [|reflexivity]. cbn [fst snd].
  rewrite k_dec_eq. reflexivity.
Qed.

(* ================= the percent-encoding of the path set and the dot-segment tests ================= *)
(* an encoded code point is itself, or "%HL..." where "%HL" is not a spelling of "%2e" *)
Lemma enc_cp_shape c : utf8_percent_encode_cp in_path_set c = [c]
  \/ exists h l tl, utf8_percent_encode_cp in_path_set c = 37 :: h :: l :: tl /\ is_pct2e 37 h l = false.
Proof.
  unfold utf8_percent_encode_cp. destruct (in_path_set c) eqn:Es; [|left; reflexivity]. right.
  unfold utf8_encode. cbn [flat_map]. rewrite app_nil_r.
  assert (exists b bs, utf8_encode1 c = b :: bs /\ (b = c /\ c < 128 \/ 192 <= b)) as (b & bs & E & Hb).
  { unfold utf8_encode1. destruct (c <? 128) eqn:E1; [exists c, []; split; [reflexivity | left; lia]|].
    destruct (c <? 2048); [eexists; eexists; split; [reflexivity | right; lia]|].
    destruct (c <? 65536); eexists; eexists; (split; [reflexivity | right; lia]). }
  rewrite E. cbn [flat_map percent_encode_byte app]. eexists. eexists. eexists. split; [reflexivity|].
  unfold is_pct2e, hex_upper. destruct Hb as [[-> Hc]|Hb].
  - unfold in_path_set, in_query_set, in_c0_control_set, is_c0_control in Es. cbn [memb] in Es.
    destruct (c / 16 <? 10) eqn:E1; destruct (c mod 16 <? 10) eqn:E2; lia.
  - destruct (b / 16 <? 10) eqn:E1; destruct (b mod 16 <? 10) eqn:E2; lia.
Qed.

(* the encoded string is the string itself, or contains a "%HL" that is not "%2e" *)
Lemma enc_id_or_bad B : upe in_path_set B = B
  \/ exists p h l r, upe in_path_set B = p ++ 37 :: h :: l :: r /\ is_pct2e 37 h l = false.
Proof.
  induction B as [|c B IH]; [left; reflexivity|]. rewrite upe_cons.
  destruct (enc_cp_shape c) as [E|(h & l & tl & E & Hn)]; rewrite E.
  - destruct IH as [IH|(p & h & l & r & IH & Hn)].
    + left. rewrite IH. reflexivity.
    + right. exists (c :: p), h, l, r. rewrite IH. split; [reflexivity | exact Hn].
  - right. exists [], h, l, (tl ++ upe in_path_set B). split; [reflexivity | exact Hn].
Qed.

(* in a dot segment every '%' starts a "%2e" *)
Lemma single_dot_pct p h l r : is_single_dot' (p ++ 37 :: h :: l :: r) = true -> is_pct2e 37 h l = true.
Proof.
  destruct p as [|p1 [|p2 [|p3 [|p4 p]]]]; destruct r as [|r1 [|r2 r]]; cbn [app is_single_dot'];
    try discriminate; unfold is_pct2e; lia.
Qed.
Lemma double_dot_pct p h l r : is_double_dot' (p ++ 37 :: h :: l :: r) = true -> is_pct2e 37 h l = true.
Proof.
  destruct p as [|p1 [|p2 [|p3 [|p4 [|p5 [|p6 [|p7 p]]]]]]]; destruct r as [|r1 [|r2 [|r3 [|r4 r]]]]; cbn [app is_double_dot'];
    try discriminate; unfold is_pct2e; lia.
Qed.

(* the characters of dot segments are not in the path percent-encode set *)
Definition dotc (c : N) : bool := (c =? 46) || (c =? 37) || (c =? 50) || (c =? 101) || (c =? 69).
Lemma dotc_enc c : dotc c = true -> utf8_percent_encode_cp in_path_set c = [c].
Proof.
  intros H. unfold utf8_percent_encode_cp.
  assert (in_path_set c = false) as ->; [|reflexivity].
  unfold dotc in H. unfold in_path_set, in_query_set, in_c0_control_set, is_c0_control. cbn [memb]. lia.
Qed.
Lemma dotc_upe B : forallb dotc B = true -> upe in_path_set B = B.
Proof.
  induction B as [|c B IH]; [reflexivity|]. cbn [forallb]. intros H. apply andb_true_iff in H. destruct H as [H1 H2].
  rewrite upe_cons, (dotc_enc c H1), (IH H2). reflexivity.
Qed.
Lemma single_dot_dotc s : is_single_dot' s = true -> forallb dotc s = true.
Proof.
  destruct s as [|a [|b [|c [|d r]]]]; cbn [is_single_dot' forallb]; try discriminate; unfold dotc, is_pct2e; lia.
Qed.
Lemma double_dot_dotc s : is_double_dot' s = true -> forallb dotc s = true.
Proof.
  destruct s as [|a [|b [|c [|d [|e [|f [|g r]]]]]]]; cbn [is_double_dot' forallb]; try discriminate; unfold dotc, is_pct2e; lia.
Qed.

Lemma single_dot_enc B : is_single_dot_segment (upe in_path_set B) = is_single_dot B.
Proof.
  rewrite is_single_dot_segment_eq, is_single_dot_eq.
  destruct (enc_id_or_bad B) as [E|(p & h & l & r & E & Hn)]; [rewrite E; reflexivity|].
  assert (is_single_dot' (upe in_path_set B) = false) as ->.
  { destruct (is_single_dot' (upe in_path_set B)) eqn:K; [|reflexivity]. rewrite E in K.
    rewrite (single_dot_pct _ _ _ _ K) in Hn. discriminate Hn. }
  destruct (is_single_dot' B) eqn:K; [|reflexivity].
  rewrite (dotc_upe B (single_dot_dotc B K)) in E. rewrite E in K.
  rewrite (single_dot_pct _ _ _ _ K) in Hn. discriminate Hn.
Qed.
Lemma double_dot_enc B : is_double_dot_segment (upe in_path_set B) = is_double_dot B.
Proof.
  rewrite is_double_dot_segment_eq, is_double_dot_eq.
  destruct (enc_id_or_bad B) as [E|(p & h & l & r & E & Hn)]; [rewrite E; reflexivity|].
  assert (is_double_dot' (upe in_path_set B) = false) as ->.
  { destruct (is_double_dot' (upe in_path_set B)) eqn:K; [|reflexivity]. rewrite E in K.
    rewrite (double_dot_pct _ _ _ _ K) in Hn. discriminate Hn. }
  destruct (is_double_dot' B) eqn:K; [|reflexivity].
  rewrite (dotc_upe B (double_dot_dotc B K)) in E. rewrite E in K.
  rewrite (double_dot_pct _ _ _ _ K) in Hn. discriminate Hn.
Qed.

(* an encoded segment that is drive-letter-shaped was so before encoding *)
Lemma upe_cp_shape' c : utf8_percent_encode_cp in_path_set c = [c]
  \/ exists h l tl, utf8_percent_encode_cp in_path_set c = 37 :: h :: l :: tl.
Proof. destruct (enc_cp_shape c) as [E|(h & l & tl & E & _)]; [left; exact E | right; eauto]. Qed.

Lemma wdl_enc_raw B : starts_with_wdl (upe in_path_set B ++ [47]) = true -> k_wdl B = true.
Proof.
  unfold k_wdl. intros H. destruct B as [|x rest1]; [discriminate H|].
  rewrite upe_cons in H.
  destruct (upe_cp_shape' x) as [Ex|(h & l & tl & Ex)]; rewrite Ex in H.
  2:{ exfalso. cbn [app starts_with_wdl] in H. replace (is_alpha 37) with false in H by reflexivity. discriminate H. }
  destruct rest1 as [|y rest2].
  { exfalso. cbn [upe utf8_percent_encode flat_map app starts_with_wdl] in H.
    replace ((47 =? 58) || (47 =? 124)) with false in H by reflexivity. rewrite andb_false_r in H. discriminate H. }
  rewrite upe_cons in H.
  destruct (upe_cp_shape' y) as [Ey|(h & l & tl & Ey)]; rewrite Ey in H.
  2:{ exfalso. cbn [app starts_with_wdl] in H. replace ((37 =? 58) || (37 =? 124)) with false in H by reflexivity.
      rewrite andb_false_r in H. discriminate H. }
  destruct rest2 as [|z rest3].
  { cbn [upe utf8_percent_encode flat_map app starts_with_wdl] in H. cbn [app starts_with_wdl]. exact H. }
  rewrite upe_cons in H.
  destruct (upe_cp_shape' z) as [Ez|(h & l & tl & Ez)]; rewrite Ez in H; cbn [app starts_with_wdl] in H; cbn [app starts_with_wdl].
  - exact H.
  - exfalso. replace (is_path_end 37) with false in H by reflexivity. rewrite andb_false_r in H. discriminate H.
Qed.

(* ================= the flags against the Standard's segment list ================= *)
Definition wrel (P : list (list N)) (W : list bool) : Prop :=
  Forall2 (fun s w => starts_with_wdl (s ++ [47]) = true -> w = true) P W.

Lemma snoc_case {A} (l : list A) : l = [] \/ exists l' x, l = l' ++ [x].
Proof.
  destruct l as [|a l]; [left; reflexivity|]. right.
  assert (a :: l <> []) as Hne by discriminate. exists (removelast (a :: l)), (last (a :: l) a).
  apply app_removelast_last. exact Hne.
Qed.

Lemma wrel_nil : wrel [] [].
Proof. constructor. Qed.
Lemma wrel_snoc P W s w : wrel P W -> (starts_with_wdl (s ++ [47]) = true -> w = true) -> wrel (P ++ [s]) (W ++ [w]).
Proof. intros H1 H2. apply Forall2_app; [exact H1|]. constructor; [exact H2 | constructor]. Qed.
Lemma wrel_snoc_inv P s W : wrel (P ++ [s]) W ->
  exists W' w, W = W' ++ [w] /\ wrel P W' /\ (starts_with_wdl (s ++ [47]) = true -> w = true).
Proof.
  intros H. apply Forall2_app_inv_l in H. destruct H as (W1 & W2 & H1 & H2 & ->).
  inversion H2 as [|? w ? W3 Hw H3]; subst. inversion H3; subst. exists W1, w. repeat split; assumption.
Qed.
Lemma wrel_nil_inv W : wrel [] W -> W = [].
Proof. intros H. inversion H. reflexivity. Qed.

Lemma wrel_removelast P W : wrel P W -> wrel (removelast P) (removelast W).
Proof.
  intros H. destruct (snoc_case P) as [->|(P' & s & ->)].
  - rewrite (wrel_nil_inv W H). exact wrel_nil.
  - destruct (wrel_snoc_inv P' s W H) as (W' & w & -> & H1 & _). rewrite !removelast_last. exact H1.
Qed.
Lemma wrel_last P W : wrel P W -> last_is_wdl P = true -> k_last W = true.
Proof.
  intros H. unfold last_is_wdl, k_last. destruct (snoc_case P) as [->|(P' & s & ->)]; [discriminate|].
  destruct (wrel_snoc_inv P' s W H) as (W' & w & -> & _ & Hw). rewrite !rev_unit. exact Hw.
Qed.

Lemma wrel_fin_ok P W B : wrel P W -> k_fin_ok W B = true -> fin_ok P (upe in_path_set B) = true.
Proof.
  intros H K. unfold fin_ok, k_fin_ok in *. rewrite double_dot_enc.
  destruct (is_double_dot B); [|reflexivity]. cbn [andb] in *.
  destruct (last_is_wdl P) eqn:E; [|reflexivity]. rewrite (wrel_last P W H E) in K. exact K.
Qed.
Lemma wrel_fin P W B sep : wrel P W -> wrel (fin P (upe in_path_set B) sep) (k_fin W B sep).
Proof.
  intros H. unfold fin, k_fin. rewrite double_dot_enc, single_dot_enc.
  pose proof (wrel_removelast P W H) as HR.
  destruct (is_double_dot B).
  { destruct sep; [exact HR|]. apply wrel_snoc; [exact HR | discriminate]. }
  destruct (is_single_dot B).
  { destruct sep; [exact H|]. apply wrel_snoc; [exact H | discriminate]. }
  apply wrel_snoc; [exact H | apply wdl_enc_raw].
Qed.

Lemma upe_snoc B c : upe in_path_set B ++ utf8_percent_encode_cp in_path_set c = upe in_path_set (B ++ [c]).
Proof. rewrite upe_app. cbn [upe utf8_percent_encode flat_map]. rewrite app_nil_r. reflexivity. Qed.

(* the raw simulation implies the test on the Standard's state *)
Theorem k_path_ok_spath t : forall P W B, wrel P W ->
  k_path_ok false t W B = true -> spath_ok t P (upe in_path_set B) = true.
Proof.
  induction t as [|c r IH]; intros P W B H K; cbn [k_path_ok spath_ok] in *.
  - exact (wrel_fin_ok P W B H K).
  - rewrite k_sep_false in K. destruct (c =? 47).
    + apply andb_true_iff in K. destruct K as [K1 K2]. rewrite (wrel_fin_ok P W B H K1). cbn [andb].
      change (@nil N) with (upe in_path_set []). apply (IH _ (k_fin W B true) []); [apply wrel_fin; exact H | exact K2].
    + rewrite k_qh_eq in K. change (C01_EqRun.is_qh c) with (is_qh c). destruct (is_qh c).
      * exact (wrel_fin_ok P W B H K).
      * rewrite upe_snoc. exact (IH P W (B ++ [c]) H K).
Qed.
Theorem k_path_ok_spath_s t : forall P W B, wrel P W ->
  k_path_ok true t W B = true -> spath_ok_s t P (upe in_path_set B) = true.
Proof.
  induction t as [|c r IH]; intros P W B H K; cbn [k_path_ok spath_ok_s] in *.
  - exact (wrel_fin_ok P W B H K).
  - rewrite k_sep_true in K. destruct (is_sl c).
    + apply andb_true_iff in K. destruct K as [K1 K2]. rewrite (wrel_fin_ok P W B H K1). cbn [andb].
      change (@nil N) with (upe in_path_set []). apply (IH _ (k_fin W B true) []); [apply wrel_fin; exact H | exact K2].
    + rewrite k_qh_eq in K. change (C01_EqRun.is_qh c) with (is_qh c). destruct (is_qh c).
      * exact (wrel_fin_ok P W B H K).
      * rewrite upe_snoc. exact (IH P W (B ++ [c]) H K).
Qed.

Corollary k_path_ok_spath0 t : k_path_ok false t [] [] = true -> spath_ok t [] [] = true.
Proof. exact (k_path_ok_spath t [] [] [] wrel_nil). Qed.
Corollary k_path_ok_spath_s0 t : k_path_ok true t [] [] = true -> spath_ok_s t [] [] = true.
Proof. exact (k_path_ok_spath_s t [] [] [] wrel_nil). Qed.

(* ================= the two authority recognisers ================= *)
Theorem k_auth_class_ok T : k_auth T = 0 -> auth_class_ok T = true.
Proof.
  unfold k_auth, auth_class_ok. rewrite k_port_bslash, k_apart_false, k_path_text_false. intros H.
  destruct (auth_path_text T) as [|c r] eqn:EX.
  - destruct (auth_port_bslash T); [discriminate H|]. destruct (list_eqb (a_part T) [58; 64]); [discriminate H | reflexivity].
  - destruct (c =? 47) eqn:E47; cbn [andb] in H.
    + destruct (k_path_ok false r [] []) eqn:Ep; [|discriminate H]. cbn [negb] in H.
      destruct (auth_port_bslash T); [discriminate H|]. destruct (list_eqb (a_part T) [58; 64]); [discriminate H|].
      cbn [negb andb]. exact (k_path_ok_spath0 r Ep).
    + destruct (auth_port_bslash T); [discriminate H|]. destruct (list_eqb (a_part T) [58; 64]); [discriminate H | reflexivity].
Qed.

Theorem k_special_class_ok R : k_special R = 0 -> sp_class_ok (drop_sl R) = true.
Proof.
  unfold k_special, sp_class_ok. rewrite k_drop_sl_eq, k_path_text_true. intros H.
  set (X := sp_path_text (drop_sl R)) in *.
  assert (match X with [] => true | c :: _ => k_ae true c end = starts_aes X) as E1 by (destruct X; reflexivity).
  assert (match X with c :: r => if k_sl c then r else X | [] => [] end = path_text_s X) as E2 by (destruct X; reflexivity).
  rewrite E1, E2 in H. destruct (starts_aes X); [|reflexivity]. cbn [negb orb andb] in *.
  destruct (k_path_ok true (path_text_s X) [] []) eqn:Ep; [|discriminate H].
  exact (k_path_ok_spath_s0 _ Ep).
Qed.

(* ================= the segments of the serialized base path ================= *)
Lemma k_split_flat P : forall cur s, no_slash s = true -> forallb no_slash P = true ->
  k_split_from cur (s ++ flat_map (fun x => 47 :: x) P) = (cur ++ s) :: P.
Proof.
  induction P as [|s' P IH]; intros cur s Hs HP.
  - cbn [flat_map]. rewrite app_nil_r. revert cur. induction s as [|c s IHs]; intros cur; [rewrite app_nil_r; reflexivity|].
    cbn [no_slash forallb] in Hs. apply andb_true_iff in Hs. destruct Hs as [Hc Hs].
    cbn [app k_split_from]. apply negb_true_iff in Hc. rewrite Hc. rewrite (IHs Hs). rewrite <- app_assoc. reflexivity.
  - cbn [forallb] in HP. apply andb_true_iff in HP. destruct HP as [Hs' HP].
    revert cur. induction s as [|c s IHs]; intros cur.
    + cbn [app flat_map k_split_from]. replace (47 =? 47) with true by reflexivity. rewrite app_nil_r.
      rewrite (IH [] s' Hs' HP). reflexivity.
    + cbn [no_slash forallb] in Hs. apply andb_true_iff in Hs. destruct Hs as [Hc Hs].
      cbn [app k_split_from]. apply negb_true_iff in Hc. rewrite Hc. rewrite (IHs Hs). rewrite <- app_assoc. reflexivity.
Qed.

Lemma wrel_map P : wrel P (map k_wdl P).
Proof. induction P as [|s P IH]; [constructor|]. cbn [map]. constructor; [intros H; exact H | exact IH]. Qed.

(* ================= Known_C01 read on the Standard's scheme scan ================= *)
Lemma scheme_cp_not_colon c : is_scheme_cp c = true -> (c =? 58) = false.
Proof. unfold is_scheme_cp, is_alnum, is_alpha, is_upper, is_lower, is_digit. intros H. lia. Qed.

Lemma scheme_scan_leading t : forall buf sch R, scheme_scan buf t = Some (sch, R) ->
  leading_scheme_loop (rev buf) t = Some sch /\ after_colon t = R.
Proof.
  induction t as [|c r IH]; intros buf sch R H; [discriminate H|]. cbn [scheme_scan] in H.
  cbn [leading_scheme_loop after_colon]. change (is_alnum c || (c =? 43) || (c =? 45) || (c =? 46)) with (is_scheme_cp c).
  destruct (is_scheme_cp c) eqn:Ec.
  - rewrite (scheme_cp_not_colon c Ec). specialize (IH _ _ _ H). rewrite rev_app_distr in IH. exact IH.
  - destruct (c =? 58); [|discriminate H]. inversion H; subst. rewrite rev_involutive. split; reflexivity.
Qed.

Lemma scheme_scan_none_leading t : forall buf, scheme_scan buf t = None -> leading_scheme_loop (rev buf) t = None.
Proof.
  induction t as [|c r IH]; intros buf H; [reflexivity|]. cbn [scheme_scan] in H. cbn [leading_scheme_loop].
  change (is_alnum c || (c =? 43) || (c =? 45) || (c =? 46)) with (is_scheme_cp c).
  destruct (is_scheme_cp c) eqn:Ec.
  - specialize (IH _ H). rewrite rev_app_distr in IH. exact IH.
  - destruct (c =? 58); [discriminate H | reflexivity].
Qed.

Lemma spec_scheme_none_leading t : spec_scheme t = None -> leading_scheme t = None.
Proof.
  unfold spec_scheme, leading_scheme. destruct t as [|c r]; [reflexivity|].
  destruct (is_alpha c); [|reflexivity]. exact (scheme_scan_none_leading (c :: r) []).
Qed.

Lemma spec_scheme_some_leading t sch R : spec_scheme t = Some (sch, R) -> leading_scheme t = Some sch /\ after_colon t = R.
Proof.
  unfold spec_scheme, leading_scheme. destruct t as [|c r]; [discriminate|].
  destruct (is_alpha c); [|discriminate]. exact (scheme_scan_leading (c :: r) [] sch R).
Qed.

Lemma special_name sch : is_special_scheme_name sch = is_special_scheme sch.
Proof. unfold is_special_scheme_name. apply special_schemes_are_the_standards. Qed.

Lemma cleaned_spec_clean input : cleaned input = spec_clean input.
Proof. change (cleaned input) with (ntnl (input_new_trim_c0 input)). symmetry. apply spec_clean_is_ntnl_trim. Qed.

(* no base, a scheme *)
Lemma known_exact_nobase input sch R :
  spec_scheme (spec_clean input) = Some (sch, R) -> known_c01_v1 None input = 0 ->
  list_eqb sch str_file = false /\ k_absolute (is_special_scheme sch) R = 0.
Proof.
  intros Hs Hk. unfold known_c01_v1 in Hk. cbv zeta in Hk. rewrite cleaned_spec_clean in Hk.
  destruct (spec_scheme_some_leading _ _ _ Hs) as [E1 E2]. rewrite E1, E2 in Hk.
  change s_file with str_file in Hk. rewrite special_name in Hk.
  destruct (list_eqb sch str_file); [discriminate Hk|]. cbn [orb andb] in Hk. split; [reflexivity | exact Hk].
Qed.

(* a base, no scheme in the reference: the reference is bare (empty, '?...', '#...'), or the base is not
   file and the reference is outside classes 2-4 *)
Lemma known_exact_base_noscheme b input :
  spec_scheme (spec_clean input) = None -> known_c01_v1 (Some b) input = 0 ->
  k_bare_ref (spec_clean input) = true
  \/ (list_eqb (b_scheme b) str_file = false
      /\ k_relative (is_special_scheme (b_scheme b)) b (spec_clean input) = 0).
Proof.
  intros Hs Hk. unfold known_c01_v1 in Hk. cbv zeta in Hk. rewrite cleaned_spec_clean in Hk.
  rewrite (spec_scheme_none_leading _ Hs) in Hk.
  change s_file with str_file in Hk. rewrite special_name in Hk.
  destruct (k_bare_ref (spec_clean input)); [left; reflexivity | right].
  destruct (list_eqb (b_scheme b) str_file); [discriminate Hk|]. cbn [orb andb] in Hk. split; [reflexivity | exact Hk].
Qed.

(* a base, a scheme in the reference *)
Lemma known_exact_base_scheme b input sch R :
  spec_scheme (spec_clean input) = Some (sch, R) -> known_c01_v1 (Some b) input = 0 ->
  list_eqb sch str_file = false
  /\ (if is_special_scheme sch && list_eqb sch (b_scheme b) && negb (k_two_sl R)
      then k_relative (is_special_scheme sch) b R else k_absolute (is_special_scheme sch) R) = 0.
Proof.
  intros Hs Hk. unfold known_c01_v1 in Hk. cbv zeta in Hk. rewrite cleaned_spec_clean in Hk.
  destruct (spec_scheme_some_leading _ _ _ Hs) as [E1 E2]. rewrite E1, E2 in Hk.
  change s_file with str_file in Hk. rewrite special_name in Hk.
  destruct (list_eqb sch str_file); [discriminate Hk|]. cbn [orb andb] in Hk. split; [reflexivity | exact Hk].
Qed.

(* with a scheme of its own and the base ignored, the base does not matter to Known_C01 *)
Lemma known_exact_absolute b input sch R :
  spec_scheme (spec_clean input) = Some (sch, R) ->
  is_special_scheme sch && list_eqb sch (b_scheme b) && negb (k_two_sl R) = false ->
  known_c01_v1 (Some b) input = 0 -> known_c01_v1 None input = 0.
Proof.
  intros Hs Hi Hk. destruct (known_exact_base_scheme b input sch R Hs Hk) as [Hf Hr]. rewrite Hi in Hr.
  unfold known_c01_v1. cbv zeta. rewrite cleaned_spec_clean.
  destruct (spec_scheme_some_leading _ _ _ Hs) as [E1 E2]. rewrite E1, E2.
  change s_file with str_file. rewrite special_name, Hf. cbn [orb andb]. exact Hr.
Qed.
