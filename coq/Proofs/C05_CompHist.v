(* Proofs/C05_CompHist.v - the component clauses along histories of mutator calls.
   step_gate u o u' : the call is outside the known classes (computable on the records and the argument)
   and is one of the mutators for which the step is proved; GHist: histories of gated steps.
   Start: every parse result (no base) of the opaque-input class of C02 satisfies CInv. *)
From RU Require Import Base.Prelude Base.Utf8 Base.Utf8Facts Model.AsciiSet Gen.Tables Model.PercentEncoding
  Model.HostT Model.UrlRecord Model.Parser Model.Setters Model.WF
  Proofs.ListN Proofs.C03_WF Proofs.C05_Enc Proofs.C05_Parser Proofs.C05_Setters Proofs.C05_History
  Proofs.C05_Frag Proofs.C05_Query Proofs.C05_Comp Proofs.C05_PathClean Proofs.C05_CompSteps
  Proofs.C02_Opaque
  Proofs.C06_List Proofs.C06_WFI Proofs.C06_Tail Proofs.C06_Steps Proofs.C06_Suffix
  Proofs.C06_Front Proofs.C06_Atomic Proofs.C06_FragQuery Proofs.C06_Port Proofs.C06_Cred Proofs.C06_Scheme
  Proofs.C06_HostNone Proofs.C06_Host Proofs.C06_PathParser Proofs.C06_Path Proofs.C06_Segments Proofs.C06_PathNoAuth
  Proofs.C06_Main Proofs.C06_PathMore.

Section Hist.
Variable dbg : bool.
Variable hp hpo : list N -> result host.
Variable hd : host -> list N.

Definition step_gate (u : url) (o : op) (u' : url) : Prop :=
  match o with
  | OSetFragment _ | OQHash _ => True
  | OSetQuery q => str_arg_ok q
  | OQSearch v => usv_list v
  | OSetPort p => port_arg_ok p
  | OSetPassword _ | OSetUsername _ | OSetScheme _ | OQProtocol _ | OQUsername _ | OQPassword _ => True
  | OSetHost None =>
      (* outside F-C06-5 and F-C02-2 *)
      has_host u = true -> path_empty_at_end u = false /\ path_starts_with_2slash u = false
  | OSetHost (Some _) =>
      (* outside F-C03-5 (marker) and F-C02-4 (the new host is empty while a port is stored) *)
      (forall h, host_disp_ok hd h)
      /\ (has_authority_b u = false -> path_start u = scheme_end u + 1)
      /\ (has_authority_b u = true -> hosti u' = HI_None -> port u = None)
  | OSetIpHost h =>
      host_disp_ok hd h
      /\ (has_authority_b u = false -> path_start u = scheme_end u + 1)
      /\ (has_authority_b u = true -> hi_of_host h = HI_None -> port u = None)
  | OSetPath p =>
      (* outside F-C02-3 ('?' / '#' into an opaque path) and, by path_gate, F-C02-8 / F-C03-5 *)
      usv_list p /\ auth_end_ok u /\ (is_opaque_b u = true -> forallb no_qh p = true) /\ path_gate u u'
  | OPathSegments _ | OQHost _ | OQHostname _ | OQPort _ | OQPathname _ => False   (* step not proved *)
  end.

Lemma usv_tail c (r : list N) : usv_list (c :: r) -> usv_list r.
Proof. intros H. inversion H; assumption. Qed.

Theorem cinv_step u o u' : CInv dbg u -> step_gate u o u' -> apply_op dbg hp hpo hd u o = Some u' -> CInv dbg u'.
Proof.
  intros K G H. destruct o; cbn [apply_op step_gate] in H, G;
    try (apply drop_status_some in H; destruct H as [st H]); try contradiction.
  - exact (set_fragment_cinv dbg u f u' K H).
  - exact (set_query_cinv dbg u q u' K G H).
  - destruct G as (G1 & G2 & G3 & G4). exact (set_path_cinv dbg u p u' K G1 G2 G3 G4 H).
  - exact (set_port_cinv dbg u p u' st K G H).
  - destruct h as [x|].
    + destruct G as (G1 & G2 & G3). exact (set_host_some_cinv dbg hp hpo hd u x u' st K G1 G2 G3 H).
    + exact (set_host_none_cinv dbg hp hpo hd u u' st K G H).
  - destruct G as (G1 & G2 & G3). exact (set_ip_host_cinv dbg hd u h u' st K G1 G2 G3 H).
  - exact (set_password_cinv dbg u p u' st K H).
  - exact (set_username_cinv dbg u s u' st K H).
  - exact (set_scheme_cinv dbg u s u' st K H).
  - unfold q_set_protocol in H. cbv zeta in H. eapply set_scheme_cinv; [exact K | exact H].
  - exact (set_username_cinv dbg u v u' st K H).
  - unfold q_set_password in H. eapply set_password_cinv; [exact K | exact H].
  - unfold q_set_search in H. eapply set_query_cinv; [exact K | | exact H].
    destruct v as [|c r]; [exact I|]. destruct (N.eq_dec c 63) as [->|Hc].
    + exact (usv_tail _ _ G).
    + unfold str_arg_ok. destruct c as [|q]; [exact G|]. do 6 (destruct q as [q|q|]; try exact G). contradiction.
  - unfold q_set_hash in H. eapply set_fragment_cinv; [exact K | exact H].
Qed.

(* histories of gated steps *)
Inductive GHist : url -> url -> Prop :=
| GH_refl u : GHist u u
| GH_step u o u1 u2 : step_gate u o u1 -> apply_op dbg hp hpo hd u o = Some u1 -> GHist u1 u2 -> GHist u u2.

Theorem cinv_history u u' : GHist u u' -> CInv dbg u -> CInv dbg u'.
Proof. induction 1 as [u|u o u1 u2 G H _ IH]; intros K; [exact K|]. apply IH. exact (cinv_step u o u1 K G H). Qed.

Theorem components_history u u' : GHist u u' -> CInv dbg u -> wfh u' /\ components_clean dbg u'.
Proof.
  intros Hh K. destruct (cinv_history u u' Hh K) as [[W HT] C]. split; [split; assumption|].
  exact (comp_ok_components dbg u' W C).
Qed.

(* ---------- start: parse results of the opaque-input class ---------- *)
Definition opaque_start (input : list N) : bool :=
  match parse_scheme CUrlParser (input_new_trim_c0 input) with
  | Some (sch, rem) =>
      scheme_type_eqb (scheme_type_of sch) STNotSpecial
      && match inp_split_prefix_char 47 rem with None => true | Some _ => false end
  | None => false
  end.

Lemma opaque_no_slash_path u r : wf_b u = true -> is_opaque_b u = true -> path u = Some (47 :: r) -> False.
Proof.
  intros W Ho Hp. unfold is_opaque_b in Ho. apply negb_true_iff in Ho.
  destruct (opaque_path_start u W Ho) as [Ha Eps]. rewrite (path_eval u W) in Hp. inversion Hp as [Hp1].
  unfold piece in Hp1. cbn [pidx] in Hp1.
  assert (nnth (nskipn (path_start u) (ser u)) 0 = Some 47) as Hn.
  { unfold nfirstn in Hp1. destruct (nskipn (path_start u) (ser u)) as [|c t].
    - rewrite firstn_nil in Hp1. discriminate.
    - destruct (N.to_nat _); [discriminate|]. cbn [firstn] in Hp1. inversion Hp1. reflexivity. }
  rewrite nnth_nskipn, N.add_0_r, Eps in Hn. unfold byte_eqb in Ho. rewrite Hn in Ho. discriminate.
Qed.

Theorem parse_opaque_cinv ovr input u : usv_list input -> opaque_start input = true ->
  parse_url dbg hp hpo hd ovr None input = POk u -> CInv dbg u /\ cannot_be_a_base u = Some true.
Proof.
  intros Hu Hc Hp. unfold opaque_start in Hc.
  destruct (parse_scheme CUrlParser (input_new_trim_c0 input)) as [[sch rem]|] eqn:Hs; [|discriminate].
  apply andb_true_iff in Hc. destruct Hc as [H1 H2].
  assert (scheme_type_of sch = STNotSpecial) as Hns by (destruct (scheme_type_of sch); try discriminate; reflexivity).
  destruct (inp_split_prefix_char 47 rem) eqn:H47; [discriminate|].
  destruct (parse_opaque_out dbg hp hpo hd ovr input sch rem u Hu Hs Hns H47 Hp) as (P & q & f & K & E).
  assert (wf_b u = true) as W by (rewrite E; exact (opaque_url_wf sch P q f K)).
  assert (cannot_be_a_base u = Some true) as C by (rewrite E; exact (opaque_url_cbb sch P q f K)).
  split; [|exact C].
  assert (is_opaque_b u = true) as Ho.
  { unfold is_opaque_b. pose proof C as C'. rewrite (cannot_be_a_base_eval u W) in C'. congruence. }
  pose proof Ho as Ho2. unfold is_opaque_b in Ho2. apply negb_true_iff in Ho2.
  destruct (opaque_path_start u W Ho2) as [Ha Eps]. pose proof (wf_noauth_facts u W Ha) as F.
  split; [split; [exact W|]|].
  - intros Hh. unfold has_host in Hh. rewrite (nf_host F) in Hh. discriminate.
  - split; [|split; [|split; [|split]]].
    + intros un Hun. rewrite (username_eval dbg u W) in Hun. inversion Hun as [Hx]. unfold piece. cbn [pidx].
      rewrite Ha, (nf_ue F), N.sub_diag. apply free_nil.
    + intros pw Hpw. rewrite (password_piece dbg u W) in Hpw. unfold has_password_b in Hpw. rewrite Ha in Hpw. discriminate.
    + intros p r Hpp Hr. subst p. destruct (opaque_no_slash_path u r W Ho Hpp).
    + intros q0 Hq. apply comp_clean_free.
      exact (query_oku_query dbg u q0 (parse_url_query dbg hp hpo hd ovr None input u I Hp) Hq).
    + intros f0 Hf. apply comp_clean_free.
      exact (frag_oku_fragment dbg u f0 (parse_url_frag dbg hp hpo hd ovr None input u Hp) Hf).
Qed.

End Hist.
