(* Proofs/C02_Reach6.v - the histories of C02_Reach5.ReachC4 with the joins extended from tail references (empty,
   fragment-only, query-led) to
     - EVERY reference without a scheme (C02_JoinPath: path-absolute, path-relative, scheme-relative as well), and
     - references with their own non-file scheme that do not consult the base (C02_JoinAbs: non-special scheme;
       special scheme other than the base's, or followed by two or more slashes).
   ReachC5: every record of such a history is Canon, hence a fixpoint of re-parsing; ReachC5 is inside Reachable4. *)
From RU Require Import Proofs.C15_Ser.
From Coq Require Import String.
From RU Require Import Base.Prelude Base.Utf8 Base.Utf8Facts Base.Outcome_c15 Model.AsciiSet Gen.Tables
  Model.PercentEncoding Model.HostT Model.Host Model.UrlRecord Model.Parser Model.Setters Model.WF Model.FormUrlencoded
  Model.QueryPairs
  Proofs.ListN Proofs.C02_Enc Proofs.C02_Parts Proofs.C02_Opaque Proofs.C02_Path Proofs.C02_PathL1 Proofs.C02_Reach
  Proofs.C02_AuthParts Proofs.C02_Auth Proofs.C02_AuthWf Proofs.C02_PathSp Proofs.C02_AuthSp Proofs.C02_AuthMain
  Proofs.C02_Hist Proofs.C02_SetQF Proofs.C02_Canon Proofs.C02_SetPort Proofs.C02_JoinTail Proofs.C02_ReachPartial
  Proofs.C02_Form Proofs.C02_SetCred Proofs.C02_SetCredCanon Proofs.C02_QPort Proofs.C08_AbsNonfile Proofs.C02_Reach3
  Proofs.C02_SetHostFrame Proofs.C02_SetHostCanon Proofs.C02_SetScheme Proofs.C02_PathSetter Proofs.C02_SetPath
  Proofs.C09_Host Proofs.C16_RT6Model Proofs.C02_HistInst Proofs.C02_Reach4 Proofs.C02_Stmt4 Proofs.C02_QHost
  Proofs.C02_SetHostNone Proofs.C02_SetPathNoAuth Proofs.C02_SetPathOpaque Proofs.C02_Reach5
  Proofs.C02_JoinAbs Proofs.C02_JoinPath Proofs.C02_Segments Proofs.C02_SegmentsCanon.
Open Scope N_scope.
Open Scope list_scope.

Lemma tail_ref_rel input : tail_ref input = true -> rel_ref input = true.
Proof.
  unfold tail_ref, rel_ref. destruct (parse_scheme CUrlParser (input_new_trim_c0 input)); [discriminate | reflexivity].
Qed.

(* every operation of the model is in canon_op4, except path_segments_mut sessions *)
Lemma canon_op4_all u o : canon_op4 u o = true \/ exists ops, o = OPathSegments ops.
Proof.
  destruct o; try (left; reflexivity); try (right; eexists; reflexivity).
  destruct h; left; reflexivity.
Qed.

Section ReachC5.
Variable dbg : bool.
Variable hp hpo : list N -> result host.
Variable hd : host -> list N.
Hypothesis HOK : HostOK2 hp hpo hd.
Hypothesis HNE : host_nonempty hp hpo.

Let HRT : HostRT hp hpo hd := proj1 HOK.
Let HAb : host_above hp hpo hd := proj1 (proj2 HOK).

(* one step with ANY operation of the model outside the known step classes *)
Lemma canon_step_all u o u' : Canon hp hpo hd u -> op_args_ok o ->
  known_step3 dbg hp hpo hd u o = false -> apply_op dbg hp hpo hd u o = Some u' -> nlen (ser u') <= U32_MAX_P ->
  Canon hp hpo hd u'.
Proof using HOK HNE HRT HAb.
  intros C Ha Hk3 Ho Hb. destruct (canon_op4_all u o) as [H4 | [ops ->]].
  - exact (canon_op4_step dbg hp hpo hd HOK HNE u o u' C H4 Ha Hk3 Ho Hb).
  - pose proof (known_step3_2 dbg hp hpo hd u _ Hk3) as Hk.
    destruct (known_path_parts dbg hp hpo hd u (OPathSegments ops) eq_refl Hk) as [Hm _].
    cbn [apply_op op_args_ok] in *. destruct (option_map_fst_some _ _ Ho) as [s Es].
    exact (psm_session_Canon dbg hp hpo hd HRT u ops u' s C Ha Hm Es Hb).
Qed.

Inductive ReachC5 : url -> Prop :=
| RC5_parse ovr input u :
    usv_list input -> nonfile_input input = true -> (ovr = None \/ special_input input = false) ->
    parse_url dbg hp hpo hd ovr None input = POk u -> ReachC5 u
| RC5_join_rel ovr b input u :
    ReachC5 b -> usv_list input -> rel_ref input = true ->
    (ovr = None \/ st_is_special (scheme_type_of (b_scheme b)) = false) ->
    parse_url dbg hp hpo hd ovr (Some b) input = POk u -> ReachC5 u
| RC5_join_abs ovr b input u :
    ReachC5 b -> usv_list input -> abs_ref b input = true ->
    (ovr = None \/ special_input input = false) ->
    parse_url dbg hp hpo hd ovr (Some b) input = POk u -> ReachC5 u
| RC5_step u o u' :
    ReachC5 u -> op_args_ok o -> known_step3 dbg hp hpo hd u o = false ->
    apply_op dbg hp hpo hd u o = Some u' -> nlen (ser u') <= U32_MAX_P -> ReachC5 u'
| RC5_qpm u ops u' :
    ReachC5 u -> Forall op_ok ops -> query_pairs_session dbg u ops = Some u' ->
    nlen (ser u') <= U32_MAX_P -> ReachC5 u'.

Lemma ReachC4_C5 u : ReachC4 dbg hp hpo hd u -> ReachC5 u.
Proof.
  induction 1 as [ovr input u Hu Hn Hov Hp | ovr b input u Hr IH Hu Ht Hov Hp | u o u' Hr IH Ht Ha Hk Ho Hb
                 | u ops u' Hr IH Hops Hs Hb].
  - exact (RC5_parse ovr input u Hu Hn Hov Hp).
  - exact (RC5_join_rel ovr b input u IH Hu (tail_ref_rel input Ht) Hov Hp).
  - exact (RC5_step u o u' IH Ha Hk Ho Hb).
  - exact (RC5_qpm u ops u' IH Hops Hs Hb).
Qed.

Theorem ReachC5_Canon u : ReachC5 u -> Canon hp hpo hd u.
Proof using HOK HNE HRT HAb.
  induction 1 as [ovr input u Hu Hn Hov Hp | ovr b input u Hr IH Hu Ht Hov Hp | ovr b input u Hr IH Hu Ht Hov Hp
                 | u o u' Hr IH Ha Hk Ho Hb | u ops u' Hr IH Hops Hs Hb].
  - exact (parse_Canon dbg hp hpo hd HRT ovr input u HAb Hu Hn Hov Hp).
  - exact (join_rel_Canon dbg hp hpo hd HRT HAb ovr b input u IH Hu Ht Hov Hp).
  - exact (join_abs_Canon dbg hp hpo hd HRT ovr b input u HAb Hu Ht Hov Hp).
  - exact (canon_step_all u o u' IH Ha Hk Ho Hb).
  - exact (qpm_Canon dbg hp hpo hd HRT u ops u' IH Hops Hs Hb).
Qed.

Theorem reach_partial5 u : ReachC5 u ->
  Fixpoint_of_reparse dbg hp hpo hd u /\ wf_b u = true /\ ascii (ser u).
Proof using HOK HNE HRT HAb. intros H. exact (Canon_fixpoint dbg hp hpo hd HRT u (ReachC5_Canon u H)). Qed.

Theorem reach5_absolute u b : ReachC5 u ->
  parse_url dbg hp hpo hd None (Some b) (utf8_lossy (ser u)) = POk u.
Proof using HOK HNE HRT HAb.
  intros H. exact (absolute_form dbg hp hpo hd HRT b u (Canon_nonfile_form hp hpo hd u (ReachC5_Canon u H))).
Qed.

Theorem ReachC5_Reachable4 u : ReachC5 u -> Reachable4 dbg hp hpo hd u.
Proof using HOK HNE HRT HAb.
  intros H. induction H as [ovr input u Hu Hn Hov Hp | ovr b input u Hr IH Hu Ht Hov Hp | ovr b input u Hr IH Hu Ht Hov Hp
                           | u o u' Hr IH Ha Hk Ho Hb | u ops u' Hr IH Hops Hs Hb].
  - apply (R4_parse dbg hp hpo hd ovr input u Hu Hp).
    apply (Canon_not_file_drive hp hpo hd). exact (parse_Canon dbg hp hpo hd HRT ovr input u HAb Hu Hn Hov Hp).
  - apply (R4_join dbg hp hpo hd ovr b input u IH Hu Hp).
    apply (Canon_not_file_drive hp hpo hd). apply ReachC5_Canon. exact (RC5_join_rel ovr b input u Hr Hu Ht Hov Hp).
  - apply (R4_join dbg hp hpo hd ovr b input u IH Hu Hp).
    apply (Canon_not_file_drive hp hpo hd). apply ReachC5_Canon. exact (RC5_join_abs ovr b input u Hr Hu Ht Hov Hp).
  - apply (R4_step dbg hp hpo hd u o u' IH Ha Hk Ho).
    apply (Canon_not_file_drive hp hpo hd). apply ReachC5_Canon. exact (RC5_step u o u' Hr Ha Hk Ho Hb).
  - apply (R4_qpm dbg hp hpo hd u ops u' IH Hops Hs).
    apply (Canon_not_file_drive hp hpo hd). apply ReachC5_Canon. exact (RC5_qpm u ops u' Hr Hops Hs Hb).
Qed.
End ReachC5.

Theorem reach_partial5_model dbg idna : IdnaOK idna -> forall u,
  ReachC5 dbg (host_parse idna) host_parse_opaque host_display u ->
  Fixpoint_of_reparse dbg (host_parse idna) host_parse_opaque host_display u /\ wf_b u = true /\ ascii (ser u).
Proof. intros OK u. exact (reach_partial5 dbg _ _ _ (HostOK2_model idna OK) (host_nonempty_model idna) u). Qed.

(* ================= non-vacuity, on the host model (idna_clean) ================= *)
Definition m_join (b r : string) : option url :=
  match parse_url true mhp host_parse_opaque host_display None None (B b) with
  | POk bu => match parse_url true mhp host_parse_opaque host_display None (Some bu) (B r) with POk u => Some u | _ => None end
  | _ => None
  end.

(* http://h/a/b?q#f -> path_segments_mut: push(".<TAB>.") (skipped: F-C06-7 is fixed), push("x/y") = http://h/a/b/x%2Fy?q#f ;
   a:/p/q -> pop, pop, push(""), push("z w") = a:/z%20w ; a://h -> extend(["a", "..", "%2e", ""]), pop_if_empty =
   a://h/a/%252e ; joins against http://h/a/b?q#f: "../c d/./e?k" = http://h/c%20d/e?k, "https:x" = https://x/ (base
   ignored), "zz:/.//p" = zz:/.//p ; each record is a fixpoint *)
Example reach5_example :
  match m_hist "http://h/a/b?q#f" [OPathSegments [PPush [46; 9; 46]; PPush (B "x/y")]] with
  | Some u => list_eqb (ser u) (B "http://h/a/b/x%2Fy?q#f") && m_fix u | None => false end = true
  /\ match m_hist "a:/p/q" [OPathSegments [PPop; PPop; PPush []; PPush (B "z w")]] with
     | Some u => list_eqb (ser u) (B "a:/z%20w") && m_fix u | None => false end = true
  /\ match m_hist "a://h" [OPathSegments [PExtend [B "a"; B ".."; B "%2e"; []]; PPopIfEmpty]] with
     | Some u => list_eqb (ser u) (B "a://h/a/%252e") && m_fix u | None => false end = true
  /\ match m_join "http://h/a/b?q#f" "../c d/./e?k" with
     | Some u => list_eqb (ser u) (B "http://h/c%20d/e?k") && m_fix u | None => false end = true
  /\ match m_join "http://h/a/b?q#f" "https:x" with
     | Some u => list_eqb (ser u) (B "https://x/") && m_fix u | None => false end = true
  /\ match m_join "http://h/a/b?q#f" "zz:/.//p" with
     | Some u => list_eqb (ser u) (B "zz:/.//p") && m_fix u | None => false end = true
  /\ rel_ref (B "../c d/./e?k") = true
  /\ match parse_url true mhp host_parse_opaque host_display None None (B "http://h/a/b?q#f") with
     | POk bu => abs_ref bu (B "https:x") && abs_ref bu (B "zz:/.//p") && negb (abs_ref bu (B "http:x")) && abs_ref bu (B "http://x")
     | _ => false end = true.
Proof. vm_compute. repeat split. Qed.
