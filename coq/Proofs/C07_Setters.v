(* Proofs/C07_Setters.v - facts about the model of url::quirks that are clauses of the Standard's
   attribute setters: the single leading '?' / '#', the text of the protocol value up to the first
   ':', "cannot have a username/password/port", the legality of scheme changes. *)
From RU Require Import Base.Prelude Base.Utf8 Model.AsciiSet Gen.Tables Model.PercentEncoding
  Model.HostT Model.UrlRecord Model.Parser Model.Setters Model.KnownC01 Model.KnownC07 Spec.Whatwg
  Proofs.C06_Atomic Proofs.C07_Defs.

(* ====================================================================================== *)
(* search and hash: the empty value removes the component, one leading marker is dropped     *)
(* ====================================================================================== *)

(* what both sides hand to the query / fragment machinery: nothing for the empty value, otherwise
   the value with a single leading marker removed, if any *)
Definition setter_arg (mark : N) (v : list N) : option (list N) :=
  match v with
  | [] => None
  | c :: r => Some (if c =? mark then r else v)
  end.

Section SearchHash.
Variable dbg : bool.

Lemma q_set_search_arg u v : q_set_search dbg u v = Setters.set_query dbg u (setter_arg 63 v).
Proof.
  destruct v as [|c r]; [reflexivity|]. cbn [setter_arg].
  destruct (c =? 63) eqn:E.
  - apply N.eqb_eq in E. subst c. reflexivity.
  - unfold q_set_search. destruct c as [|p]; [reflexivity|].
    do 6 (try (destruct p as [p|p|]; try reflexivity)).
    cbn in E. discriminate E.
Qed.

Lemma q_set_hash_arg u v : q_set_hash dbg u v = Setters.set_fragment dbg u (setter_arg 35 v).
Proof.
  destruct v as [|c r]; [reflexivity|]. cbn [setter_arg].
  destruct (c =? 35) eqn:E.
  - apply N.eqb_eq in E. subst c. reflexivity.
  - unfold q_set_hash. destruct c as [|p]; [reflexivity|].
    do 6 (try (destruct p as [p|p|]; try reflexivity)).
    cbn in E. discriminate E.
Qed.

(* exactly one leading marker is dropped: "?x" is treated as "x" whenever "x" is itself a value
   that is not empty and does not start with the marker *)
Lemma setter_arg_strip mark c x : c <> mark ->
  setter_arg mark (mark :: c :: x) = setter_arg mark (c :: x).
Proof.
  intros Hc. cbn [setter_arg]. rewrite N.eqb_refl.
  destruct (c =? mark) eqn:E; [apply N.eqb_eq in E; contradiction|reflexivity].
Qed.
End SearchHash.

Section SearchHashSpec.
Variable shp : bool -> list N -> option spec_host.

(* the Standard's search / hash setters factor through the same function *)
Lemma spec_set_search_arg su v :
  spec_set shp SetSearch su v =
  match setter_arg 63 v with
  | None => SetTo (potentially_strip_trailing_spaces (Whatwg.set_query su None))
  | Some inp => after_override (spec_basic_url_parse_override shp inp (Whatwg.set_query su (Some [])) StQuery)
  end.
Proof. destruct v as [|c r]; reflexivity. Qed.

Lemma spec_set_hash_arg su v :
  spec_set shp SetHash su v =
  match setter_arg 35 v with
  | None => SetTo (potentially_strip_trailing_spaces (Whatwg.set_fragment su None))
  | Some inp => after_override (spec_basic_url_parse_override shp inp (Whatwg.set_fragment su (Some [])) StFragment)
  end.
Proof. destruct v as [|c r]; reflexivity. Qed.
End SearchHashSpec.

Theorem search_hash_leading_marker : forall dbg shp u su,
  (* the empty value: query / fragment := null *)
  q_set_search dbg u [] = Setters.set_query dbg u None
  /\ q_set_hash dbg u [] = Setters.set_fragment dbg u None
  /\ spec_set shp SetSearch su [] = SetTo (potentially_strip_trailing_spaces (Whatwg.set_query su None))
  /\ spec_set shp SetHash su [] = SetTo (potentially_strip_trailing_spaces (Whatwg.set_fragment su None))
  (* one leading '?' / '#' is dropped, on both sides, for every value *)
  /\ (forall x, q_set_search dbg u (63 :: x) = Setters.set_query dbg u (Some x))
  /\ (forall x, q_set_hash dbg u (35 :: x) = Setters.set_fragment dbg u (Some x))
  /\ (forall c x, c <> 63 -> q_set_search dbg u (63 :: c :: x) = q_set_search dbg u (c :: x)
                             /\ spec_set shp SetSearch su (63 :: c :: x) = spec_set shp SetSearch su (c :: x))
  /\ (forall c x, c <> 35 -> q_set_hash dbg u (35 :: c :: x) = q_set_hash dbg u (c :: x)
                             /\ spec_set shp SetHash su (35 :: c :: x) = spec_set shp SetHash su (c :: x))
  (* only one: "??x" keeps a '?' *)
  /\ (forall x, q_set_search dbg u (63 :: 63 :: x) = Setters.set_query dbg u (Some (63 :: x)))
  /\ (forall x, q_set_hash dbg u (35 :: 35 :: x) = Setters.set_fragment dbg u (Some (35 :: x))).
Proof.
  intros dbg shp u su.
  split; [reflexivity|]. split; [reflexivity|]. split; [reflexivity|]. split; [reflexivity|].
  split; [intros x; reflexivity|]. split; [intros x; reflexivity|].
  split.
  { intros c x Hc. split.
    - rewrite !q_set_search_arg, (setter_arg_strip 63 c x Hc). reflexivity.
    - rewrite !spec_set_search_arg, (setter_arg_strip 63 c x Hc). reflexivity. }
  split.
  { intros c x Hc. split.
    - rewrite !q_set_hash_arg, (setter_arg_strip 35 c x Hc). reflexivity.
    - rewrite !spec_set_hash_arg, (setter_arg_strip 35 c x Hc). reflexivity. }
  split; intros x; reflexivity.
Qed.

(* ====================================================================================== *)
(* protocol: everything from the first ':' on is ignored                                     *)
(* ====================================================================================== *)

Lemma find_byte_aux_take l : forall i,
  match find_byte_aux 58 l i with
  | Some j => exists k, j = i + k /\ nfirstn k l = take_until_colon l
  | None => take_until_colon l = l
  end.
Proof.
  induction l as [|x r IH]; intros i; cbn [find_byte_aux take_until_colon]; [reflexivity|].
  destruct (x =? 58) eqn:E.
  - exists 0. split; [lia|reflexivity].
  - specialize (IH (i + 1)). destruct (find_byte_aux 58 r (i + 1)) as [j|].
    + destruct IH as (k & Hj & Hk). exists (k + 1). split; [lia|].
      unfold nfirstn in *. replace (N.to_nat (k + 1)) with (S (N.to_nat k)) by lia.
      cbn [firstn]. rewrite Hk. reflexivity.
    + rewrite IH. reflexivity.
Qed.

Lemma protocol_value_cut v :
  match find_byte 58 v with Some i => nfirstn i v | None => v end = take_until_colon v.
Proof.
  unfold find_byte. pose proof (find_byte_aux_take v 0) as H.
  destruct (find_byte_aux 58 v 0) as [j|].
  - destruct H as (k & Hj & Hk). replace j with k by lia. exact Hk.
  - symmetry. exact H.
Qed.

Lemma take_until_colon_app a b : memb 58 a = false -> take_until_colon (a ++ 58 :: b) = a.
Proof.
  induction a as [|x a IH]; intros H; cbn [app take_until_colon].
  - rewrite N.eqb_refl. reflexivity.
  - cbn [memb] in H. apply orb_false_iff in H. destruct H as [Hx Ha].
    rewrite N.eqb_sym in Hx. rewrite Hx, (IH Ha). reflexivity.
Qed.

Lemma take_until_colon_none a : memb 58 a = false -> take_until_colon a = a.
Proof.
  induction a as [|x a IH]; intros H; cbn [take_until_colon]; [reflexivity|].
  cbn [memb] in H. apply orb_false_iff in H. destruct H as [Hx Ha].
  rewrite N.eqb_sym in Hx. rewrite Hx, (IH Ha). reflexivity.
Qed.

Theorem protocol_ignores_after_colon : forall dbg u a b,
  memb 58 a = false ->
  q_set_protocol dbg u (a ++ 58 :: b) = q_set_protocol dbg u a
  /\ q_set_protocol dbg u a = Setters.set_scheme dbg u a.
Proof.
  intros dbg u a b Ha. unfold q_set_protocol.
  rewrite (protocol_value_cut (a ++ 58 :: b)), (protocol_value_cut a),
    (take_until_colon_app a b Ha), (take_until_colon_none a Ha). split; reflexivity.
Qed.

(* ====================================================================================== *)
(* username, password, port: "cannot have a username/password/port"                          *)
(* ====================================================================================== *)

Ltac walk H := repeat (at_step H; try discriminate).

Section Credentials.
Variable dbg : bool.

Lemma set_username_errunit u v u' :
  Setters.set_username dbg u v = Some (u', SErrUnit) <-> cannot_have_credentials_or_port u = Some true /\ u' = u.
Proof.
  split.
  - intros H. unfold Setters.set_username in H.
    destruct (cannot_have_credentials_or_port u) as [[|]|] eqn:Ec; cbn [bindo] in H.
    + inversion H. auto.
    + exfalso. walk H.
    + discriminate H.
  - intros [Hc ->]. unfold Setters.set_username. rewrite Hc. reflexivity.
Qed.

Lemma set_password_errunit u pw u' :
  Setters.set_password dbg u pw = Some (u', SErrUnit) <-> cannot_have_credentials_or_port u = Some true /\ u' = u.
Proof.
  split.
  - intros H. unfold Setters.set_password in H.
    destruct (cannot_have_credentials_or_port u) as [[|]|] eqn:Ec; cbn [bindo] in H.
    + inversion H. auto.
    + exfalso. walk H.
    + discriminate H.
  - intros [Hc ->]. unfold Setters.set_password. rewrite Hc. reflexivity.
Qed.

Lemma q_set_port_errunit u v u' :
  q_set_port dbg u v = Some (u', SErrUnit) <->
  u' = u /\ (cannot_have_credentials_or_port u = Some true
             \/ (cannot_have_credentials_or_port u = Some false
                 /\ exists sc e, scheme u = Some sc
                                 /\ parse_port CSetter (default_port sc) (input_new_no_trim v) = PErr e)).
Proof.
  split.
  - intros H. unfold q_set_port in H.
    destruct (cannot_have_credentials_or_port u) as [[|]|] eqn:Ec; cbn [bindo] in H.
    + inversion H. auto.
    + destruct (scheme u) as [sc|] eqn:Es; cbn [bindo] in H; [|discriminate H].
      destruct (parse_port CSetter (default_port sc) (input_new_no_trim v)) as [[p rem]|e|] eqn:Ep.
      * exfalso. walk H.
      * inversion H. split; [reflexivity|]. right. split; [reflexivity|]. exists sc, e. auto.
      * discriminate H.
    + discriminate H.
  - intros [-> [Hc|(Hc & sc & e & Hs & Hp)]]; unfold q_set_port; rewrite Hc; cbn [bindo]; [reflexivity|].
    rewrite Hs. cbn [bindo]. rewrite Hp. reflexivity.
Qed.
End Credentials.

Theorem cannot_have_credentials_or_port_iff : forall dbg u,
  (forall v u', q_set_username dbg u v = Some (u', SErrUnit)
                <-> cannot_have_credentials_or_port u = Some true /\ u' = u)
  /\ (forall v u', q_set_password dbg u v = Some (u', SErrUnit)
                   <-> cannot_have_credentials_or_port u = Some true /\ u' = u)
  /\ (forall v, cannot_have_credentials_or_port u = Some true -> q_set_port dbg u v = Some (u, SErrUnit))
  /\ (forall v u', q_set_port dbg u v = Some (u', SErrUnit) ->
        u' = u /\ (cannot_have_credentials_or_port u = Some true
                   \/ exists sc e, scheme u = Some sc
                        /\ parse_port CSetter (default_port sc) (input_new_no_trim v) = PErr e)).
Proof.
  intros dbg u. split; [|split; [|split]].
  - intros v u'. unfold q_set_username. apply set_username_errunit.
  - intros v u'. unfold q_set_password. apply set_password_errunit.
  - intros v Hc. apply q_set_port_errunit. auto.
  - intros v u' H. apply q_set_port_errunit in H. destruct H as [Hu [Hc|(Hc & sc & e & Hs & Hp)]].
    + auto.
    + split; [exact Hu|]. right. exists sc, e. auto.
Qed.

(* the model's test has the Standard's three disjuncts: host null, empty host, scheme "file".
   (rust-url represents the empty host of a non-special URL as "no host"; both fall under the test.) *)
Definition host_null_or_empty_corr (h : option host) (sh : option spec_host) : Prop :=
  match h with
  | None => sh = None \/ sh = Some SEmpty
  | Some (HDomain []) => sh = Some SEmpty
  | Some _ => match sh with Some SEmpty | None => False | Some _ => True end
  end.

Theorem cannot_have_is_the_standards : forall u su h sc,
  host_of u = Some h -> scheme u = Some sc -> su_scheme su = sc ->
  host_null_or_empty_corr h (su_host su) ->
  (has_host u = false <-> h = None) ->
  cannot_have_credentials_or_port u = Some (cannot_have_username_password_port su).
Proof.
  intros u su h sc Hh Hs Hsu Hcorr Hhas.
  unfold cannot_have_credentials_or_port, cannot_have_username_password_port.
  assert (list_eqb (su_scheme su) str_file = list_eqb sc s_file) as Hf by (rewrite Hsu; reflexivity).
  destruct (has_host u) eqn:Ehh; cbn [negb].
  - rewrite Hh, Hs. cbn [bindo]. rewrite Hf.
    destruct h as [h'|].
    + unfold host_null_or_empty_corr in Hcorr.
      destruct h' as [[|d0 d]|a|p].
      * rewrite Hcorr. reflexivity.
      * destruct (su_host su) as [[| | | |]|]; try contradiction; reflexivity.
      * destruct (su_host su) as [[| | | |]|]; try contradiction; reflexivity.
      * destruct (su_host su) as [[| | | |]|]; try contradiction; reflexivity.
    + destruct Hhas as [_ Hn]. specialize (Hn eq_refl). discriminate Hn.
  - destruct Hhas as [Hn _]. specialize (Hn eq_refl). subst h.
    unfold host_null_or_empty_corr in Hcorr. destruct Hcorr as [-> | ->]; reflexivity.
Qed.

(* ====================================================================================== *)
(* protocol: which scheme changes are carried out                                            *)
(* ====================================================================================== *)

(* the test of Url::set_scheme on: old and new scheme type, has_authority(), has_host() *)
Definition protocol_rejects (ost nst : scheme_type) (ha hh : bool) : bool :=
  (st_is_special nst && negb (st_is_special ost)) || (negb (st_is_special nst) && st_is_special ost)
  || (st_is_file nst && ha) || (negb hh && st_is_special nst).

(* scheme state with a state override, steps 2.1.1-2.1.3 of the Standard: special-ness differs;
   credentials or port and the new scheme is "file"; the old scheme is "file" and the host is empty *)
Definition standard_rejects (ost nst : scheme_type) (cred_or_port host_empty : bool) : bool :=
  negb (Bool.eqb (st_is_special ost) (st_is_special nst))
  || (cred_or_port && st_is_file nst) || (st_is_file ost && host_empty).

Theorem set_scheme_decision : forall dbg u sch new rem ost ha,
  parse_scheme CSetter (input_new_no_trim sch) = Some (new, rem) ->
  u_scheme_type u = Some ost -> has_authority dbg u = Some ha ->
  (protocol_rejects ost (scheme_type_of new) ha (has_host u) || negb (inp_is_empty rem) = true ->
     Setters.set_scheme dbg u sch = Some (u, SErrUnit))
  /\ (protocol_rejects ost (scheme_type_of new) ha (has_host u) || negb (inp_is_empty rem) = false ->
     forall r, Setters.set_scheme dbg u sch = Some r -> snd r = SOk).
Proof.
  intros dbg u sch new rem ost ha Hp Ho Ha. unfold Setters.set_scheme. rewrite Hp, Ho. cbn [bindo]. rewrite Ha. cbn [bindo].
  unfold protocol_rejects.
  destruct ((st_is_special (scheme_type_of new) && negb (st_is_special ost))
            || (negb (st_is_special (scheme_type_of new)) && st_is_special ost)
            || (st_is_file (scheme_type_of new) && ha)) eqn:E1; cbn [orb].
  - split; [reflexivity|discriminate].
  - rewrite (orb_comm (negb (has_host u) && st_is_special (scheme_type_of new))).
    destruct (negb (inp_is_empty rem) || (negb (has_host u) && st_is_special (scheme_type_of new))) eqn:E2.
    + split; [reflexivity|discriminate].
    + split; [discriminate|]. intros _ [u' st] H. walk H. reflexivity.
Qed.

(* For URLs as the parser builds them (a special non-file URL has an authority and a non-empty host;
   a file URL has an authority, no credentials, no port, and has_host() exactly when its host is not
   empty) the two tests agree, except that
   - file -> file is refused by the code and carried out by the Standard (nothing changes either way);
   - special non-file -> file is always refused by the code (F-C07-7, Known_C07 class 6). *)
Theorem protocol_rule_is_the_standards : forall ost nst ha hh cp he,
  (ost = STSpecialNotFile -> ha = true /\ hh = true /\ he = false) ->
  (ost = STFile -> ha = true /\ cp = false /\ hh = negb he) ->
  ~ (ost = STSpecialNotFile /\ nst = STFile) ->
  protocol_rejects ost nst ha hh = standard_rejects ost nst cp he || (st_is_file ost && st_is_file nst).
Proof.
  intros ost nst ha hh cp he H1 H2 HK.
  destruct ost.
  - destruct (H2 eq_refl) as (-> & -> & ->). destruct nst, he; reflexivity.
  - destruct (H1 eq_refl) as (-> & -> & ->). destruct nst; try reflexivity.
    + exfalso. apply HK. auto.
    + destruct cp; reflexivity.
  - destruct nst, ha, hh, cp, he; reflexivity.
Qed.

(* ====================================================================================== *)
(* an assignment that reports an error leaves the record as it was (from Proofs/C06_Atomic)  *)
(* ====================================================================================== *)
Theorem quirks_setters_ignore_atomically : forall dbg hp ho hd u v u' st, st <> SOk ->
  (q_set_protocol dbg u v = Some (u', st) -> u' = u)
  /\ (q_set_username dbg u v = Some (u', st) -> u' = u)
  /\ (q_set_password dbg u v = Some (u', st) -> u' = u)
  /\ (q_set_host dbg hp ho hd u v = Some (u', st) -> u' = u)
  /\ (q_set_hostname dbg hp ho hd u v = Some (u', st) -> u' = u)
  /\ (q_set_port dbg u v = Some (u', st) -> u' = u).
Proof.
  intros dbg hp ho hd u v u' st Hst. repeat split; intros H.
  - exact (q_set_protocol_atomic dbg u v u' st H Hst).
  - exact (q_set_username_atomic dbg u v u' st H Hst).
  - exact (q_set_password_atomic dbg u v u' st H Hst).
  - exact (q_set_host_atomic dbg hp ho hd u v u' st H Hst).
  - exact (q_set_hostname_atomic dbg hp ho hd u v u' st H Hst).
  - exact (q_set_port_atomic dbg u v u' st H Hst).
Qed.
