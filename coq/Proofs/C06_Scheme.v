(* Proofs/C06_Scheme.v - set_scheme on a well-formed record: the serialization from ':' on is kept,
   every offset moves by the change of length, and the port is re-normalised against the new
   scheme's default. *)
From RU Require Import Base.Prelude Base.Utf8 Model.AsciiSet Gen.Tables Model.PercentEncoding
  Model.HostT Model.UrlRecord Model.Parser Model.Setters Model.WF
  Proofs.ListN Proofs.C03_WF Proofs.C06_List Proofs.C06_WFI Proofs.C06_Tail Proofs.C06_Suffix Proofs.C06_Front
  Proofs.C06_Port.

(* ---------- what parse_scheme returns ---------- *)
Lemma scheme_char_lower c : is_lower c = true -> scheme_char c = true.
Proof. intros H. unfold scheme_char, is_alnum, is_alpha. rewrite H. rewrite orb_true_r. reflexivity. Qed.

Lemma is_lower_of_upper c : is_upper c = true -> is_lower (c + 32) = true.
Proof. unfold is_upper, is_lower. lia. Qed.

Lemma parse_scheme_loop_chars ctx l : forall acc sch rem,
  parse_scheme_loop ctx acc l = Some (sch, rem) -> forallb scheme_char (rev acc) = true ->
  forallb scheme_char sch = true.
Proof.
  induction l as [|c r IH]; intros acc sch rem H Hacc; cbn [parse_scheme_loop] in H.
  - destruct (ctx_eqb ctx CSetter); [|discriminate]. inversion H; subst. exact Hacc.
  - destruct (is_tnl c); [eapply IH; eassumption|].
    destruct (is_lower c || is_digit c || (c =? 43) || (c =? 45) || (c =? 46)) eqn:E1.
    + eapply IH; [exact H|]. cbn [rev]. apply forallb_app_iff. split; [exact Hacc|]. cbn [forallb].
      rewrite andb_true_r. unfold scheme_char, is_alnum, is_alpha.
      repeat (apply orb_true_iff in E1; destruct E1 as [E1|E1]); rewrite E1; rewrite ?orb_true_r; reflexivity.
    + destruct (is_upper c) eqn:E2.
      * eapply IH; [exact H|]. cbn [rev]. apply forallb_app_iff. split; [exact Hacc|]. cbn [forallb].
        rewrite andb_true_r. apply scheme_char_lower. apply is_lower_of_upper. exact E2.
      * destruct (c =? 58); [|discriminate]. inversion H; subst. exact Hacc.
Qed.

Lemma parse_scheme_loop_prefix ctx l : forall acc sch rem,
  parse_scheme_loop ctx acc l = Some (sch, rem) -> exists t, sch = rev acc ++ t.
Proof.
  induction l as [|c r IH]; intros acc sch rem H; cbn [parse_scheme_loop] in H.
  - destruct (ctx_eqb ctx CSetter); [|discriminate]. inversion H; subst. exists []. symmetry. apply app_nil_r.
  - destruct (is_tnl c); [eapply IH; eassumption|].
    destruct (is_lower c || is_digit c || (c =? 43) || (c =? 45) || (c =? 46)).
    + destruct (IH _ _ _ H) as (t & ->). cbn [rev]. rewrite <- app_assoc. eexists. reflexivity.
    + destruct (is_upper c).
      * destruct (IH _ _ _ H) as (t & ->). cbn [rev]. rewrite <- app_assoc. eexists. reflexivity.
      * destruct (c =? 58); [|discriminate]. inversion H; subst. exists []. symmetry. apply app_nil_r.
Qed.

Lemma parse_scheme_head ctx l sch rem : parse_scheme ctx l = Some (sch, rem) ->
  exists c r, sch = c :: r /\ is_alpha c = true.
Proof.
  unfold parse_scheme, inp_starts_with_pred, inp_next.
  induction l as [|c r IH]; cbn [drop_while]; [discriminate|].
  cbn [parse_scheme_loop]. destruct (is_tnl c) eqn:Et; [exact IH|].
  intros H. destruct (is_alpha c) eqn:Ea; [|discriminate].
  unfold is_alpha in Ea. apply orb_true_iff in Ea.
  destruct (is_lower c) eqn:El; cbn [orb] in H.
  - destruct (parse_scheme_loop_prefix _ _ _ _ _ H) as (t & ->). cbn [rev app]. do 2 eexists. split; [reflexivity|].
    unfold is_alpha. rewrite El. apply orb_true_r.
  - destruct Ea as [Eu|?]; [|discriminate].
    assert (is_digit c = false) as Ed by (unfold is_upper, is_digit in *; lia).
    assert ((c =? 43) = false /\ (c =? 45) = false /\ (c =? 46) = false) as (E1 & E2 & E3)
      by (unfold is_upper in Eu; lia).
    rewrite Ed, E1, E2, E3, Eu in H. cbn [orb] in H.
    destruct (parse_scheme_loop_prefix _ _ _ _ _ H) as (t & ->). cbn [rev app]. do 2 eexists. split; [reflexivity|].
    unfold is_alpha. rewrite (is_lower_of_upper c Eu). apply orb_true_r.
Qed.

Lemma parse_scheme_chars ctx l sch rem : parse_scheme ctx l = Some (sch, rem) -> forallb scheme_char sch = true.
Proof.
  unfold parse_scheme. destruct (inp_starts_with_pred is_alpha l); [|discriminate].
  intros H. eapply parse_scheme_loop_chars; [exact H | reflexivity].
Qed.

Lemma default_port_special s d : default_port s = Some d ->
  st_is_special (scheme_type_of s) = true /\ list_eqb s s_file = false.
Proof.
  unfold default_port, scheme_type_of.
  destruct (list_eqb s s_http) eqn:E1; [apply list_eqb_spec in E1; subst; intros _; split; reflexivity|].
  destruct (list_eqb s s_ws) eqn:E2; [apply list_eqb_spec in E2; subst; intros _; split; reflexivity|].
  destruct (list_eqb s s_https) eqn:E3; [apply list_eqb_spec in E3; subst; intros _; split; reflexivity|].
  destruct (list_eqb s s_wss) eqn:E4; [apply list_eqb_spec in E4; subst; intros _; split; reflexivity|].
  destruct (list_eqb s s_ftp) eqn:E5; [apply list_eqb_spec in E5; subst; intros _; split; reflexivity|].
  cbn [orb]. discriminate.
Qed.

Lemma norm_port_no_default s p : default_port s = None -> norm_port s p = p.
Proof. intros E. unfold norm_port. rewrite E. destruct p; reflexivity. Qed.

(* ---------- the record after the scheme text is replaced ---------- *)
Definition with_scheme (u : url) (new : list N) : url :=
  let b := scheme_end u in let b' := nlen new in
  mkUrl (new ++ nskipn b (ser u)) b' (shift b b' (username_end u)) (shift b b' (host_start u))
        (shift b b' (host_end u)) (hosti u) (port u) (shift b b' (path_start u))
        (option_map (shift b b') (query_start u)) (option_map (shift b b') (fragment_start u)).

Ltac splits := repeat match goal with |- _ /\ _ => split end.

Section WithScheme.
Variables (dbg : bool) (u : url) (new : list N).
Hypothesis W : wf_b u = true.
Hypothesis HT : host_text_ok u.
Hypothesis Hhead : exists c r, new = c :: r /\ is_alpha c = true.
Hypothesis Hchars : forallb scheme_char new = true.

Let u' := with_scheme u new.
Let b := scheme_end u.
Let b' := nlen new.

Lemma ws_suf : agree_suf b b' (ser u) (ser u').
Proof. unfold agree_suf. change (ser u') with (new ++ nskipn b (ser u)). apply nskipn_app_exact. Qed.

Lemma ws_len : nlen (ser u') = b' + (nlen (ser u) - b).
Proof. change (ser u') with (new ++ nskipn b (ser u)). rewrite nlen_app, nlen_nskipn. reflexivity. Qed.

Lemma ws_byte i c : b <= i -> byte_eqb (ser u') (shift b b' i) c = byte_eqb (ser u) i c.
Proof. intros H. apply (suf_byte_eqb b b'); [apply ws_suf | exact H | reflexivity]. Qed.

Lemma ws_piece i j : b <= i -> i <= j ->
  nfirstn (shift b b' j - shift b b' i) (nskipn (shift b b' i) (ser u')) = nfirstn (j - i) (nskipn i (ser u)).
Proof.
  intros Hi Hij. replace (shift b b' j - shift b b' i) with (j - i) by (unfold shift; lia).
  apply (suf_piece b b'); [apply ws_suf | exact Hi | reflexivity].
Qed.

Lemma ws_tail : shifted_tail b b' u u'.
Proof. repeat split. Qed.
Lemma ws_sauth : shifted_auth b b' u u'.
Proof. repeat split. Qed.

Lemma ws_has_authority : has_authority_b u' = has_authority_b u.
Proof.
  unfold has_authority_b. change (scheme_end u') with (nlen new). change (ser u') with (new ++ nskipn b (ser u)).
  rewrite nskipn_app_exact. reflexivity.
Qed.

Lemma ws_wf : wf_b u' = true.
Proof.
  destruct (wf_scheme_facts u W) as (Hse & Hcolon & Hselt).
  pose proof (wf_se_lt_ps u W) as Hps. pose proof (path_start_le_len u W) as Hpl.
  pose proof W as W0. apply wf_b_iff in W0. destruct W0 as (S & AU & Q).
  pose proof ws_len as Hl.
  destruct Hhead as (c0 & r0 & En & Hal).
  assert (1 <= b') as Hb1 by (subst b'; rewrite En, nlen_cons; lia).
  apply wf_b_iff. split; [|split].
  - unfold scheme_ok. change (scheme_end u') with b'. splits.
    + exact Hb1.
    + exists c0. split; [|exact Hal]. change (ser u') with (new ++ nskipn b (ser u)). rewrite En. reflexivity.
    + change (ser u') with (new ++ nskipn b (ser u)). subst b'. rewrite nfirstn_app_exact. exact Hchars.
    + replace b' with (shift b b' b) at 1 by (unfold shift; lia). rewrite ws_byte by lia. exact Hcolon.
  - rewrite ws_has_authority. destruct (has_authority_b u) eqn:Ha.
    + destruct AU as [(A1 & A2 & A3 & A4 & A5 & U & Hn & P) PS]. split.
      * unfold auth_ok. change (scheme_end u') with b'. change (username_end u') with (shift b b' (username_end u)).
        change (host_start u') with (shift b b' (host_start u)). change (host_end u') with (shift b b' (host_end u)).
        change (path_start u') with (shift b b' (path_start u)). change (hosti u') with (hosti u).
        split; [unfold shift; lia|]. split; [unfold shift; lia|]. split; [unfold shift; lia|].
        split; [unfold shift; lia|]. split; [rewrite Hl; unfold shift; lia|].
        split; [|split].
        -- unfold userinfo_ok. change (scheme_end u') with b'. change (username_end u') with (shift b b' (username_end u)).
           change (host_start u') with (shift b b' (host_start u)).
           destruct U as [(U1 & U2 & U3)|[(U1 & U2 & U3)|(U1 & U2)]].
           ++ left. rewrite ws_byte by lia. splits; [unfold shift; lia | unfold shift; lia | exact U3].
           ++ right. left. rewrite ws_byte by lia.
              replace (shift b b' (host_start u) - 1) with (shift b b' (host_start u - 1)) by (unfold shift; lia).
              rewrite ws_byte by lia. splits; [exact U1 | unfold shift; lia | exact U3].
           ++ right. right. rewrite ws_byte by lia. split; [exact U1 | unfold shift; lia].
        -- intros E. specialize (Hn E). unfold shift. lia.
        -- apply (asfx_port_ok u u' b b' W Ha ws_suf); [lia | rewrite Hl; lia | apply ws_tail | apply ws_sauth].
      * apply (sfx_pathstart_ok u u' b b' W ws_suf); [lia | rewrite Hl; lia | apply ws_tail | exact PS].
    + destruct AU as (H1 & H2 & H3 & H4 & H5 & H6 & H7). unfold noauth_ok.
      change (scheme_end u') with b'. change (username_end u') with (shift b b' (username_end u)).
      change (host_start u') with (shift b b' (host_start u)). change (host_end u') with (shift b b' (host_end u)).
      change (path_start u') with (shift b b' (path_start u)). change (hosti u') with (hosti u). change (port u') with (port u).
      split; [unfold shift; lia|]. split; [unfold shift; lia|]. split; [unfold shift; lia|].
      split; [exact H4|]. split; [exact H5|]. split; [rewrite Hl; unfold shift; lia|].
      destruct H7 as [H7|(E1 & E2 & E3 & E4)]; [left; unfold shift; lia|]. right.
        replace (b' + 1) with (shift b b' (b + 1)) by (unfold shift; lia).
        replace (b' + 2) with (shift b b' (b + 2)) by (unfold shift; lia).
        rewrite !ws_byte by lia. split; [unfold shift; lia|]. split; [exact E2|]. split; [exact E3|].
        rewrite (sfx_skip u u' b b' ws_suf) by lia. exact E4.
  - apply (sfx_qf_ok u u' b b' W ws_suf); [lia | rewrite Hl; lia | apply ws_tail].
Qed.

Lemma ws_host_text_ok : host_text_ok u'.
Proof.
  intros Hh. change (has_host u') with (has_host u) in Hh. destruct (HT Hh) as (T1 & T2 & T3).
  pose proof (has_host_authority u W Hh) as Ha. pose proof (af_ue (wf_auth_facts u W Ha)). pose proof (af_hs (wf_auth_facts u W Ha)).
  change (host_start u') with (shift b b' (host_start u)). change (host_end u') with (shift b b' (host_end u)).
  rewrite (ws_byte (host_start u) 58), (ws_byte (host_start u) 64) by (unfold b; lia).
  split; [unfold shift, b; lia | tauto].
Qed.

Lemma ws_scheme : scheme u' = Some new.
Proof.
  rewrite (scheme_eval u' ws_wf). f_equal. unfold piece. cbn [pidx]. rewrite N.sub_0_r, nskipn_0.
  change (scheme_end u') with (nlen new). change (ser u') with (new ++ nskipn b (ser u)). apply nfirstn_app_exact.
Qed.

Lemma ws_back : same_back dbg u u'.
Proof.
  pose proof (wf_se_lt_ps u W). pose proof ws_len as Hl. pose proof (path_start_le_len u W).
  apply (sfx_back dbg u u' b b' W ws_wf ws_suf); [unfold b; lia | rewrite Hl; lia | apply ws_tail].
Qed.

Lemma ws_host_str : host_str u' = host_str u.
Proof.
  destruct (has_authority_b u) eqn:Ha.
  - pose proof (wf_auth_facts u W Ha) as F. pose proof (af_ue F); pose proof (af_hs F). pose proof ws_len as Hl.
    pose proof (af_he F); pose proof (af_ps F); pose proof (af_len F).
    apply (asfx_host_str u u' b b' W Ha ws_suf); [unfold b; lia | rewrite Hl; lia | apply ws_sauth | apply ws_wf].
  - rewrite (host_str_eval u' ws_wf), (host_str_eval u W). change (has_host u') with (has_host u).
    pose proof (nf_host (wf_noauth_facts u W Ha)) as E. unfold has_host. rewrite E. reflexivity.
Qed.

Lemma ws_username : username dbg u' = username dbg u.
Proof.
  rewrite (username_eval dbg u' ws_wf), (username_eval dbg u W). f_equal. unfold piece. cbn [pidx].
  rewrite ws_has_authority. change (scheme_end u') with b'. change (username_end u') with (shift b b' (username_end u)).
  destruct (has_authority_b u) eqn:Ha.
  - pose proof (af_ue (wf_auth_facts u W Ha)).
    replace (b' + 3) with (shift b b' (b + 3)) by (unfold shift; lia).
    apply ws_piece; unfold b; lia.
  - pose proof (nf_ue (wf_noauth_facts u W Ha)) as E. rewrite E.
    replace (b' + 1) with (shift b b' (b + 1)) by (unfold shift; lia).
    apply ws_piece; unfold b; lia.
Qed.

Lemma ws_password : password dbg u' = password dbg u.
Proof.
  rewrite (password_piece dbg u' ws_wf), (password_piece dbg u W).
  assert (has_password_b u' = has_password_b u) as Hp.
  { unfold has_password_b. rewrite ws_has_authority. destruct (has_authority_b u) eqn:Ha; [|reflexivity]. cbn [andb].
    pose proof (wf_auth_facts u W Ha) as F. pose proof (af_ue F); pose proof (af_hs F); pose proof (af_he F);
      pose proof (af_ps F); pose proof (af_len F).
    change (username_end u') with (shift b b' (username_end u)). rewrite ws_byte by (unfold b; lia).
    rewrite ws_len.
    replace (shift b b' (username_end u) =? b' + (nlen (ser u) - b)) with (username_end u =? nlen (ser u))
      by (unfold shift, b; lia).
    reflexivity. }
  rewrite Hp. destruct (has_password_b u) eqn:Hpw; [|reflexivity]. do 2 f_equal.
  unfold piece. cbn [pidx]. rewrite Hp, Hpw.
  destruct (has_password_facts u W Hpw) as (G1 & _).
  assert (has_authority_b u = true) as Ha.
  { unfold has_password_b in Hpw. destruct (has_authority_b u); [reflexivity | discriminate]. }
  pose proof (af_ue (wf_auth_facts u W Ha)).
  change (username_end u') with (shift b b' (username_end u)). change (host_start u') with (shift b b' (host_start u)).
  replace (shift b b' (username_end u) + 1) with (shift b b' (username_end u + 1)) by (unfold shift, b; lia).
  replace (shift b b' (host_start u) - 1) with (shift b b' (host_start u - 1)) by (unfold shift, b; lia).
  apply ws_piece; unfold b; lia.
Qed.

End WithScheme.

Lemma set_port_err dbg u p u' st : set_port dbg u p = Some (u', st) -> st <> SOk ->
  cannot_have_credentials_or_port u = Some true.
Proof.
  unfold set_port. intros H Hne.
  destruct (cannot_have_credentials_or_port u) as [[|]|]; cbn [bindo] in H; [reflexivity| |discriminate].
  destruct (scheme u); cbn [bindo] in H; [|discriminate].
  destruct (set_port_internal dbg u _); cbn [bindo] in H; [|discriminate].
  inversion H; subst. contradiction.
Qed.

Lemma chcp_true u : wf_b u = true -> host_text_ok u -> cannot_have_credentials_or_port u = Some true ->
  has_host u = false \/ exists s, scheme u = Some s /\ list_eqb s s_file = true.
Proof.
  intros W HT H. unfold cannot_have_credentials_or_port in H.
  destruct (has_host u) eqn:Hh; [|left; reflexivity]. right. cbn [negb] in H.
  pose proof (has_host_authority u W Hh) as Ha. pose proof (wf_auth_facts u W Ha) as F.
  pose proof (af_he F); pose proof (af_ps F); pose proof (af_len F). destruct (HT Hh) as (T1 & _).
  rewrite (scheme_eval u W) in *. eexists. split; [reflexivity|].
  unfold host_of in H. unfold has_host in Hh.
  destruct (hosti u); cbn [bindo] in H; [discriminate Hh | | inversion H; reflexivity | inversion H; reflexivity].
  - unfold u_slice in H. rewrite slice_o_some in H by lia. cbn [bindo] in H.
    assert (nlen (nfirstn (host_end u - host_start u) (nskipn (host_start u) (ser u))) = host_end u - host_start u) as L
      by (apply nlen_nfirstn; rewrite nlen_nskipn; lia).
    destruct (nfirstn (host_end u - host_start u) (nskipn (host_start u) (ser u))) as [|c r].
    + rewrite nlen_nil in L. lia.
    + cbn [orb] in H. inversion H. reflexivity.
Qed.

Theorem set_scheme_ok dbg u sch : wf_b u = true -> host_text_ok u ->
  exists u' st, set_scheme dbg u sch = Some (u', st)
  /\ (st <> SOk -> u' = u)
  /\ (st = SOk -> exists new rem, parse_scheme CSetter sch = Some (new, rem)
      /\ wf_b u' = true /\ host_text_ok u' /\ scheme u' = Some new
      /\ username dbg u' = username dbg u /\ password dbg u' = password dbg u /\ host_str u' = host_str u
      /\ same_back dbg u u' /\ port u' = norm_port new (port u)).
Proof.
  intros W HT. unfold set_scheme, input_new_no_trim.
  destruct (parse_scheme CSetter sch) as [[new rem]|] eqn:Eps.
  2:{ exists u, SErrUnit. split; [reflexivity|]. split; [reflexivity | discriminate]. }
  unfold u_scheme_type. rewrite (scheme_eval u W). cbn [bindo]. rewrite (has_authority_eval dbg u W). cbn [bindo].
  match goal with |- context [if ?c then Some (u, SErrUnit) else _] => destruct c eqn:C1 end.
  { exists u, SErrUnit. split; [reflexivity|]. split; [reflexivity | discriminate]. }
  match goal with |- context [if ?c then Some (u, SErrUnit) else _] => destruct c eqn:C2 end.
  { exists u, SErrUnit. split; [reflexivity|]. split; [reflexivity | discriminate]. }
  destruct (wf_scheme_facts u W) as (Hse & Hcolon & Hselt).
  pose proof (wf_se_lt_ps u W) as Hps. pose proof (path_start_le_len u W) as Hpl.
  destruct (wf_tail_offsets_ge u (path_start u) W ltac:(lia)) as [Gq Gf].
  assert (scheme_end u <= username_end u /\ scheme_end u <= host_start u /\ scheme_end u <= host_end u) as (G1 & G2 & G3).
  { destruct (has_authority_b u) eqn:Ha.
    - pose proof (wf_auth_facts u W Ha) as F. pose proof (af_ue F); pose proof (af_hs F); pose proof (af_he F). lia.
    - pose proof (wf_noauth_facts u W Ha) as F. rewrite (nf_ue F), (nf_hs F), (nf_he F). lia. }
  rewrite !adjust_ok by lia. rewrite !adjust_opt_ok by (destruct (query_start u), (fragment_start u); try exact I; lia).
  cbn [bindo]. unfold u_slice_from. rewrite slice_from_o_some by lia. cbn [bindo].
  match goal with |- context [set_port dbg ?X _] => change X with (with_scheme u new) end.
  set (u1 := with_scheme u new).
  pose proof (parse_scheme_head _ _ _ _ Eps) as Hhead. pose proof (parse_scheme_chars _ _ _ _ Eps) as Hchars.
  pose proof (ws_wf u new W Hhead Hchars) as W1. fold u1 in W1.
  pose proof (ws_host_text_ok u new W HT) as HT1. fold u1 in HT1.
  assert (match port u1 with Some x => x <= 65535 | None => True end) as Hp.
  { change (port u1) with (port u). destruct (has_authority_b u) eqn:Ha.
    - pose proof (af_port (wf_auth_facts u W Ha)) as P. destruct (port u); [tauto | exact I].
    - rewrite (nf_port (wf_noauth_facts u W Ha)). exact I. }
  destruct (set_port_ok dbg u1 (port u1) W1 HT1 Hp) as (u2 & st & E2 & Herr & Hok).
  rewrite E2. cbn [bindo fst]. exists u2, SOk. split; [reflexivity|]. split; [intros X; contradiction|]. intros _.
  exists new, rem. split; [reflexivity|].
  pose proof (ws_scheme u new W Hhead Hchars) as S1. fold u1 in S1.
  pose proof (ws_username dbg u new W Hhead Hchars) as Un1. fold u1 in Un1.
  pose proof (ws_password dbg u new W Hhead Hchars) as Pw1. fold u1 in Pw1.
  pose proof (ws_host_str u new W Hhead Hchars) as Hs1. fold u1 in Hs1.
  pose proof (ws_back dbg u new W Hhead Hchars) as B1. fold u1 in B1.
  assert (st = SOk \/ st <> SOk) as [Est|Est] by (destruct st; [left; reflexivity | right; discriminate | right; discriminate]).
  - destruct (Hok Est) as (W2 & HT2 & (I1 & I2 & I3 & I4) & (B2a & B2b & B2c) & (s1 & Es1 & P2)).
    destruct B1 as (B1a & B1b & B1c).
    split; [exact W2|]. split; [exact HT2|]. split; [congruence|]. split; [congruence|]. split; [congruence|].
    split; [congruence|]. split; [split; [congruence | split; congruence]|].
    rewrite P2. rewrite S1 in Es1. inversion Es1; subst s1. reflexivity.
  - specialize (Herr Est). subst u2.
    split; [exact W1|]. split; [exact HT1|]. split; [exact S1|]. split; [exact Un1|]. split; [exact Pw1|].
    split; [exact Hs1|]. split; [exact B1|].
    change (port u1) with (port u).
    destruct (default_port new) as [d|] eqn:Ed; [|symmetry; apply norm_port_no_default; exact Ed].
    exfalso. destruct (default_port_special new d Ed) as [Sp Nf].
    pose proof (set_port_err dbg u1 _ _ _ E2 Est) as Ec.
    destruct (chcp_true u1 W1 HT1 Ec) as [Hh|(s1 & Es1 & Ef)].
    + change (has_host u1) with (has_host u) in Hh. rewrite Hh, Sp in C2. cbn [negb andb] in C2.
      rewrite orb_true_r in C2. discriminate.
    + rewrite S1 in Es1. inversion Es1; subst s1. congruence.
Qed.
