(* Proofs/C07_EqRel.v - from the relation of the C01 equivalence to the relation of the C07 equivalence:
   `related` (Proofs/C01_EqRef.v: well-formed, same ten API strings, same text before the fragment / before the
   query, same cannot-be-a-base flag, spec_valid) implies corr (Proofs/C07_Corr.v) and corrS, given a few facts
   that the ten strings do not determine (parse_extra): the host text facts of the model record, a clean
   username, "no host => no credentials, no port, not special" on the model side, the port bound and the host
   range on the Standard's side.
   The layout flags ("//" present, '@' present, "/." marker, password present but empty) are read off the two
   serializations: all components are equal, the serializations are equal, so the punctuation between them is. *)
From Coq Require Import Bool.
From RU Require Import Base.Prelude Base.Utf8 Model.AsciiSet Gen.Tables Model.PercentEncoding
  Model.HostT Model.UrlRecord Model.Parser Model.Setters Model.WF Spec.Whatwg
  Proofs.ListN Proofs.C03_WF Proofs.C06_List Proofs.C06_WFI Proofs.C06_Tail Proofs.C06_Suffix Proofs.C06_Steps
  Proofs.C06_FragQuery Proofs.C02_Enc Proofs.C01_EqApi Proofs.C01_EqRef
  Proofs.C07_Defs Proofs.C07_Corr Proofs.C07_SpecProto Proofs.C07_EqSix.

(* ---------- the port text determines the port ---------- *)
Lemma decimal_value_serialize_sweep :
  all_below 65536 (fun p => decimal_value (serialize_integer p) =? p) = true.
Proof. vm_compute. reflexivity. Qed.

Lemma serialize_integer_inj p p' : p <= 65535 -> p' <= 65535 ->
  serialize_integer p = serialize_integer p' -> p = p'.
Proof.
  intros H H' E.
  pose proof (all_below_spec _ _ decimal_value_serialize_sweep p ltac:(lia)) as A.
  pose proof (all_below_spec _ _ decimal_value_serialize_sweep p' ltac:(lia)) as A'.
  cbv beta in A, A'. apply N.eqb_eq in A, A'. rewrite <- A, <- A', E. reflexivity.
Qed.

Lemma dec_digits_ne fuel : forall n acc, acc <> [] -> dec_digits fuel n acc <> [].
Proof.
  induction fuel as [|k IH]; intros n acc H; [exact H|]. cbn [dec_digits].
  destruct (n <? 10); [discriminate | apply IH; discriminate].
Qed.

Lemma serialize_integer_not_nil p : serialize_integer p <> [].
Proof.
  unfold serialize_integer. cbn [dec_digits]. destruct (p <? 10); [discriminate|].
  apply dec_digits_ne. discriminate.
Qed.

(* ---------- the text before the fragment / before the query, model side ---------- *)
Lemma piece0 u k : piece u 0 k = nfirstn k (ser u).
Proof. unfold piece. rewrite N.sub_0_r, nskipn_0. reflexivity. Qed.

Lemma piece_full u : piece u 0 (nlen (ser u)) = ser u.
Proof. rewrite piece0. apply nfirstn_all. lia. Qed.

Lemma ser_split_fragment dbg u f : wf_b u = true -> fragment dbg u = Some f ->
  ser u = b_before_fragment u ++ ftext f.
Proof.
  intros W Hf. rewrite (fragment_eval dbg u W) in Hf. injection Hf as Hf. subst f.
  pose proof (qf_f (wf_qf_facts u W)) as Q. unfold b_before_fragment.
  destruct (fragment_start u) as [fs|]; [|cbn [ftext]; rewrite app_nil_r; reflexivity].
  destruct Q as (_ & Q2 & Q3). cbn [pidx ftext].
  rewrite <- (piece_full u) at 1.
  rewrite <- (piece_cat u 0 fs (nlen (ser u))) by lia.
  rewrite <- (piece_cat u fs (fs + 1) (nlen (ser u))) by lia.
  rewrite (piece_byte u fs 35) by (apply byte_eqb_nnth; exact Q2).
  rewrite piece0. reflexivity.
Qed.

Lemma before_fragment_split_query dbg u q : wf_b u = true -> query dbg u = Some q ->
  b_before_fragment u = b_before_query u ++ qtext q.
Proof.
  intros W Hq. rewrite (query_eval dbg u W) in Hq. injection Hq as Hq. subst q.
  pose proof (wf_qf_facts u W) as QF. pose proof (qf_q QF) as Q1. pose proof (qf_f QF) as Q2. pose proof (qf_qf QF) as Q3.
  unfold b_before_fragment, b_before_query.
  destruct (query_start u) as [qs|].
  - destruct Q1 as (_ & Q1b & Q1c). cbn [pidx qtext].
    destruct (fragment_start u) as [fs|].
    + rewrite <- piece0. rewrite <- (piece_cat u 0 qs fs) by lia.
      rewrite <- (piece_cat u qs (qs + 1) fs) by lia.
      rewrite (piece_byte u qs 63) by (apply byte_eqb_nnth; exact Q1b).
      rewrite piece0. reflexivity.
    + rewrite <- (piece_full u) at 1. rewrite <- (piece_cat u 0 qs (nlen (ser u))) by lia.
      rewrite <- (piece_cat u qs (qs + 1) (nlen (ser u))) by lia.
      rewrite (piece_byte u qs 63) by (apply byte_eqb_nnth; exact Q1b).
      rewrite piece0. reflexivity.
  - cbn [qtext]. rewrite app_nil_r. destruct (fragment_start u); reflexivity.
Qed.

(* ---------- the same cuts of the Standard's serialization ---------- *)
Section SpecCuts.
Variable shs : spec_host -> list N.

Lemma serialize_url_fragment su :
  serialize_url shs su false = serialize_url shs su true ++ ftext (su_fragment su).
Proof.
  unfold serialize_url, ftext. rewrite app_nil_r. rewrite <- !app_assoc. reflexivity.
Qed.

Lemma serialize_url_query su :
  serialize_url shs su true = serialize_url shs (Whatwg.set_query su None) true ++ qtext (su_query su).
Proof.
  unfold serialize_url, qtext, serialize_path, includes_credentials.
  destruct su as [sc un pw ho po pa qu fr]. cbn [Whatwg.set_query su_scheme su_username su_password su_host su_port su_path su_query su_fragment].
  rewrite !app_nil_r. rewrite <- !app_assoc. reflexivity.
Qed.
End SpecCuts.

Lemma ftext_inj f f' : ftext f = ftext f' -> f = f'.
Proof. destruct f, f'; cbn [ftext]; intros H; try discriminate H; [injection H as ->|]; reflexivity. Qed.
Lemma qtext_inj q q' : qtext q = qtext q' -> q = q'.
Proof. destruct q, q'; cbn [qtext]; intros H; try discriminate H; [injection H as ->|]; reflexivity. Qed.

(* ---------- what the ten strings do not determine ---------- *)
Section Bridge.
Variable dbg : bool.
Variable shs : spec_host -> list N.

Record parse_extra (u : url) (su : spec_url) : Prop := mk_px {
  px_ht : host_text_ok u;
  px_uclean : forall un, username dbg u = Some un -> clean T_USERINFO un = true;
  px_nohost : has_host u = false -> has_authority_b u = true ->
              username_end u = host_start u /\ port u = None /\ is_special su = false;
  px_port : match su_port su with Some p => p <= 65535 | None => True end;
  px_range : match su_host su with Some h => h = SEmpty \/ shs h <> [] | None => True end;
  px_empty : shs SEmpty = []
}.

(* the punctuation of the model's serialization *)
Definition m_front (A T M : bool) (un : list N) (pw : option (list N)) (H : list N) (po : option N) : list N :=
  (if A then s_css else [58]) ++ un ++ (match pw with Some p => 58 :: p | None => [] end)
  ++ (if T then [64] else []) ++ H ++ (match po with Some p => 58 :: decimal p | None => [] end)
  ++ (if M then [47; 46] else []).

Definition s_front (su : spec_url) : list N :=
  [58]
  ++ match su_host su with
     | Some h =>
         [47; 47]
         ++ (if includes_credentials su then
               su_username su ++ (if negb (list_eqb (su_password su) []) then 58 :: su_password su else []) ++ [64]
             else [])
         ++ shs h
         ++ match su_port su with Some p => 58 :: serialize_integer p | None => [] end
     | None => if spec_marker su then [47; 46] else []
     end.

Lemma serialize_url_front su :
  serialize_url shs su false
  = su_scheme su ++ s_front su ++ serialize_path su ++ qtext (su_query su) ++ ftext (su_fragment su).
Proof.
  unfold serialize_url, s_front, spec_marker, qtext, ftext.
  destruct (su_host su) as [h|].
  - cbn [app]. rewrite <- ?app_assoc. cbn [app]. rewrite <- ?app_assoc. reflexivity.
  - cbn [app]. destruct (su_path su) as [p|[|p0 [|p1 pr]]]; cbn [app]; reflexivity.
Qed.

Lemma list_eqb_nil_false (l : list N) : list_eqb l [] = false -> l <> [].
Proof. intros H ->. discriminate H. Qed.

(* the part of parse_extra that the relation corr needs (px_nohost is used for `sane` only; it is false of
   "file:///p", whose record is special and has "//" without host) *)
Record parse_extra0 (u : url) (su : spec_url) : Prop := mk_px0 {
  px0_ht : host_text_ok u;
  px0_uclean : forall un, username dbg u = Some un -> clean T_USERINFO un = true;
  px0_port : match su_port su with Some p => p <= 65535 | None => True end;
  px0_range : match su_host su with Some h => h = SEmpty \/ shs h <> [] | None => True end;
  px0_empty : shs SEmpty = []
}.

Lemma parse_extra_0 u su : parse_extra u su -> parse_extra0 u su.
Proof. intros [XT XU XN XP XR XE]. constructor; assumption. Qed.

Theorem related_corr0 u su :
  related dbg shs u su -> parse_extra0 u su -> corr dbg shs u su.
Proof.
  intros [W Hapi Hbf Hbq Hcbb Hsch Hval] [XT XU XP XR XE].
  destruct (accessors_reconcatenate dbg u W)
    as (sch & un & pw & hs & pth & q & f & Es & Eun & Epw & Ehs & Ept & Eq & Ef & Eser & Hh1 & Hh0).
  rewrite (api_by_accessors dbg u W _ _ _ _ _ _ _ Es Eun Epw Ehs Ept Eq Ef) in Hapi.
  unfold api_of_parts, spec_api_list in Hapi.
  injection Hapi as A1 A2 A3 A4 A5 A6 A7 A8 A9 A10.
  unfold get_protocol in A2. apply app_inv_tail in A2.
  unfold get_username in A3. unfold get_password in A4. unfold get_hostname in A6. unfold get_pathname in A8.
  unfold get_href in A1.
  (* fragment and query *)
  assert (f = su_fragment su) as Ff.
  { apply ftext_inj. apply (app_inv_head (b_before_fragment u)).
    rewrite <- (ser_split_fragment dbg u f W Ef). rewrite Hbf, <- serialize_url_fragment. exact A1. }
  assert (q = su_query su) as Fq.
  { apply qtext_inj. apply (app_inv_head (b_before_query u)).
    rewrite <- (before_fragment_split_query dbg u q W Eq). rewrite Hbq, <- serialize_url_query. exact Hbf. }
  (* the host piece *)
  assert (piece u (host_start u) (host_end u) = optl hs) as Ehp.
  { destruct (has_host u) eqn:Hh; [rewrite (Hh1 eq_refl); reflexivity|].
    rewrite (Hh0 eq_refl). rewrite (host_str_eval u W), Hh in Ehs. injection Ehs as <-. reflexivity. }
  (* the port *)
  assert (match port u with Some p => p <= 65535 | None => True end) as Hpb.
  { destruct (port u) as [p|] eqn:Epo; [|exact I].
    destruct (has_authority_b u) eqn:Ha.
    - pose proof (af_port (wf_auth_facts u W Ha)) as P. rewrite Epo in P. tauto.
    - pose proof (nf_port (wf_noauth_facts u W Ha)) as P. congruence. }
  assert (port u = su_port su) as Epo.
  { unfold get_port in A7. destruct (port u) as [p|]; destruct (su_port su) as [p'|]; cbn [port_text] in A7.
    - f_equal. apply serialize_integer_inj; [exact Hpb | exact XP|]. rewrite <- A7. symmetry. apply decimal_serialize. exact Hpb.
    - exfalso. rewrite (decimal_serialize p Hpb) in A7. exact (serialize_integer_not_nil p A7).
    - exfalso. symmetry in A7. exact (serialize_integer_not_nil p' A7).
    - reflexivity. }
  (* the fronts of the two serializations are equal *)
  assert (m_front (has_authority_b u) (has_authority_b u && negb (username_end u =? host_start u))
                  (negb (has_authority_b u) && (path_start u =? scheme_end u + 3)) un pw (optl hs) (port u)
          = s_front su) as K.
  { rewrite Eser, Ehp, serialize_url_front in A1. subst sch pth q f.
    apply app_inv_head in A1.
    unfold m_front. rewrite <- ?app_assoc.
    apply (app_inv_tail (serialize_path su ++ qtext (su_query su) ++ ftext (su_fragment su))).
    rewrite <- !app_assoc. unfold qtext, ftext. exact A1. }
  clear A1 A5 A9 A10 Eser.
  subst sch un pth q f.
  unfold m_front, s_front in K.
  destruct (has_authority_b u) eqn:Ha.
  - (* "//" *)
    pose proof (wf_auth_facts u W Ha) as F.
    cbn [negb andb app] in K. rewrite app_nil_r in K. unfold s_css in K.
    destruct (su_host su) as [h|] eqn:Esh.
    2:{ exfalso. cbn [app] in K. destruct (spec_marker su); discriminate K. }
    cbn [app] in K. injection K as K.
    cbn [serialize_host_opt] in A6. rewrite A6, Epo in K.
    assert (match su_port su with Some p => 58 :: decimal p | None => [] end
            = match su_port su with Some p => 58 :: serialize_integer p | None => [] end) as Ep.
    { destruct (su_port su) as [p|]; [|reflexivity]. rewrite (decimal_serialize p XP). reflexivity. }
    rewrite Ep in K. rewrite !app_assoc in K. apply app_inv_tail in K. apply app_inv_tail in K.
    rewrite <- !app_assoc in K.
    (* credentials *)
    assert (pw = pw_opt (su_password su)
            /\ negb (username_end u =? host_start u) = includes_credentials su) as [Fpw Fat].
    { unfold includes_credentials in *. rewrite <- A4 in *.
      destruct (su_username su) as [|a ra] eqn:Eu.
      - cbn [list_eqb negb orb app] in K |- *.
        destruct pw as [[|b rb]|]; cbn [optl list_eqb negb app pw_opt] in K |- *.
        + destruct (negb (username_end u =? host_start u)); discriminate K.
        + injection K as K. apply app_inv_head in K.
          destruct (negb (username_end u =? host_start u)); [split; reflexivity | discriminate K].
        + destruct (negb (username_end u =? host_start u)); [discriminate K | split; reflexivity].
      - cbn [list_eqb negb orb] in K |- *. apply app_inv_head in K.
        destruct pw as [[|b rb]|]; cbn [optl list_eqb negb app pw_opt] in K |- *.
        + destruct (negb (username_end u =? host_start u)); discriminate K.
        + injection K as K. apply app_inv_head in K.
          destruct (negb (username_end u =? host_start u)); [split; reflexivity | discriminate K].
        + destruct (negb (username_end u =? host_start u)); [split; reflexivity | discriminate K]. }
    (* host *)
    assert (has_host u = negb (host_is_empty (Some h))) as Fhh.
    { cbn [host_is_empty]. destruct (has_host u) eqn:Hh.
      - destruct (XT Hh) as (T1 & _). rewrite (Hh1 eq_refl) in A6. cbn [optl] in A6.
        destruct h; try reflexivity. exfalso. rewrite XE in A6.
        assert (nlen (piece u (host_start u) (host_end u)) = 0) as L by (rewrite A6; reflexivity).
        unfold piece in L. pose proof (af_ps F); pose proof (af_len F).
        rewrite nlen_nfirstn in L by (rewrite nlen_nskipn; lia). lia.
      - rewrite <- Ehp, (Hh0 eq_refl) in A6. destruct XR as [->|XR]; [reflexivity|].
        exfalso. apply XR. symmetry. exact A6. }
    constructor; try assumption.
    + rewrite Epw, Fpw. reflexivity.
    + rewrite Ehs, Esh. cbn [host_text option_map serialize_host_opt]. rewrite A6. reflexivity.
    + rewrite Esh. cbn [host_is_null orb]. exact Fhh.
    + rewrite Ha, Esh. reflexivity.
    + rewrite Ha. cbn [andb]. exact Fat.
    + rewrite Ha. unfold spec_marker. rewrite Esh. reflexivity.
    + rewrite (cannot_be_a_base_eval u W) in Hcbb. injection Hcbb as Hcbb. exact Hcbb.
    + apply XU. exact Eun.
  - (* no "//" *)
    pose proof (wf_noauth_facts u W Ha) as F.
    assert (su_username su = []) as Eu.
    { rewrite (username_eval dbg u W) in Eun. injection Eun as Eun. rewrite <- Eun. cbn [pidx]. rewrite Ha.
      rewrite (nf_ue F). apply piece_empty. }
    assert (pw = None) as Ep.
    { rewrite (password_piece dbg u W) in Epw. injection Epw as Epw. rewrite <- Epw.
      unfold has_password_b. rewrite Ha. reflexivity. }
    assert (optl hs = []) as Eh0.
    { rewrite <- Ehp, (nf_hs F), (nf_he F). apply piece_empty. }
    assert (has_host u = false) as Hh by (unfold has_host; rewrite (nf_host F); reflexivity).
    subst pw. cbn [optl] in A4.
    rewrite Eu, Eh0, (nf_port F) in K. cbn [negb andb app] in K.
    destruct (su_host su) as [h|] eqn:Esh.
    { exfalso. cbn [app] in K. destruct (path_start u =? scheme_end u + 3); discriminate K. }
    injection K as K.
    assert ((path_start u =? scheme_end u + 3) = spec_marker su) as Fm.
    { destruct (path_start u =? scheme_end u + 3), (spec_marker su); try reflexivity; discriminate K. }
    constructor; try assumption.
    + rewrite Epw, <- A4. reflexivity.
    + rewrite Ehs, Esh. cbn [host_text option_map]. rewrite A6. reflexivity.
    + rewrite Hh, Esh. reflexivity.
    + rewrite Ha, Esh. reflexivity.
    + rewrite Ha. unfold includes_credentials. rewrite Eu, <- A4. reflexivity.
    + rewrite Ha. cbn [negb andb]. exact Fm.
    + rewrite (cannot_be_a_base_eval u W) in Hcbb. injection Hcbb as Hcbb. exact Hcbb.
    + apply XU. exact Eun.
Qed.

Theorem related_corr u su :
  related dbg shs u su -> parse_extra u su -> corr dbg shs u su.
Proof. intros R X. exact (related_corr0 u su R (parse_extra_0 u su X)). Qed.

(* ... and the invariants `sane` of the Standard's record: for a record whose scheme is not "file" and which,
   when special, has a host (base_shape_ok of Proofs/C01_EqShape.v) *)
Theorem related_corrS u su :
  related dbg shs u su -> parse_extra u su ->
  list_eqb (su_scheme su) str_file = false ->
  (is_special su = true -> opt_is_some (su_host su) = true) ->
  corrS dbg shs u su.
Proof.
  intros R X Hnf Hsp. pose proof (related_corr u su R X) as C. split; [exact C|].
  destruct R as [W _ _ _ _ _ Hval]. destruct X as [_ _ XN _ _ _].
  pose proof (co_hh _ _ _ _ C) as Chh. pose proof (co_auth _ _ _ _ C) as Cau.
  pose proof (co_at _ _ _ _ C) as Cat. pose proof (co_port _ _ _ _ C) as Cpo.
  constructor.
  - unfold cannot_have_username_password_port. rewrite Hnf, orb_false_r. intros Hc.
    rewrite Hc in Chh. cbn [negb] in Chh. rewrite <- Cpo, <- Cat.
    destruct (has_authority_b u) eqn:Ha.
    + destruct (XN Chh eq_refl) as (E1 & E2 & _). rewrite E1, E2, N.eqb_refl. split; reflexivity.
    + split; [exact (nf_port (wf_noauth_facts u W Ha)) | reflexivity].
  - intros Hs. pose proof (Hsp Hs) as Hh. destruct (su_host su) as [h|] eqn:Esh; [|discriminate Hh].
    split; [reflexivity|]. intros _. cbn [host_is_null host_is_empty orb] in *.
    destruct h; try reflexivity. exfalso. cbn [negb opt_is_some] in *.
    destruct (XN Chh Cau) as (_ & _ & E3). congruence.
  - intros Ho. destruct Hval as [V1 _]. exact (proj1 (V1 Ho)).
Qed.

End Bridge.
