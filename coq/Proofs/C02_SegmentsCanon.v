(* Proofs/C02_SegmentsCanon.v - L2 for Url::path_segments_mut sessions on EVERY canonical record without the "/."
   marker (the marker case is the known class F-C03-5): opaque path - refused, unchanged; records with authority
   (classes (iii), (iv)) - C02_Segments.session_frame; records without authority (class (ii)) - session_frame plus
   C03_SessNoSS.session_no_ss (the new path never starts with "//", so no marker is needed). *)
From RU Require Import Base.Prelude Base.Utf8 Base.Utf8Facts Model.AsciiSet Gen.Tables
  Model.PercentEncoding Model.HostT Model.UrlRecord Model.Parser Model.Setters Model.WF
  Proofs.ListN Proofs.C06_List Proofs.C14_Set Proofs.C14_Enc Proofs.C02_Enc Proofs.C02_Parts
  Proofs.C02_Opaque Proofs.C02_Path Proofs.C02_PathL1 Proofs.C02_Reach Proofs.C02_AuthParts
  Proofs.C02_Auth Proofs.C02_AuthWf Proofs.C02_PathSp Proofs.C02_AuthSp Proofs.C02_AuthMain Proofs.C02_SetQF
  Proofs.C02_Canon Proofs.C02_SetPort Proofs.C02_SetHostFrame Proofs.C02_SetHostCanon Proofs.C02_SetScheme Proofs.C02_PathSetter
  Proofs.C02_SetPath Proofs.C02_SetHostNone Proofs.C02_SetPathNoAuth Proofs.C02_JoinTail Proofs.C02_JoinPath Proofs.C06_Segments Proofs.C02_Segments
  Proofs.C06_HostNone Proofs.C06_PathNoAuth Proofs.C03_SessNoSS.
Open Scope N_scope.
Open Scope list_scope.

Lemma psm_ok_usv ops : Forall psm_op_ok ops -> Forall psm_op_usv ops.
Proof. apply Forall_impl. intros o; destruct o; exact (fun x => x). Qed.

Section SessCanon.
Variable dbg : bool.
Variable hp hpo : list N -> result host.
Variable hd : host -> list N.
Hypothesis HRT : HostRT hp hpo hd.

Notation Canon := (Canon hp hpo hd).

Lemma PI_pth st X : PI st X -> exists p', X = pth_text p' /\ pth_ok p' /\ (st_is_special st = true -> pth_ok_sp p').
Proof.
  intros [[-> Hs] | (segs & last & -> & Hs & Hl)].
  - exists None. split; [reflexivity | split; [exact I | congruence]].
  - exists (Some (segs, last)). split; [reflexivity|]. unfold gseg in *. destruct (st_is_special st).
    + split; [split; [apply good_segs_sp_good; exact Hs | apply good_seg_sp_good; exact Hl] | intros _; split; assumption].
    + split; [split; assumption | discriminate].
Qed.

Lemma pth_PI st p : pth_ok p -> (st_is_special st = true -> pth_ok_sp p) -> PI st (pth_text p).
Proof.
  intros H1 H2. destruct p as [[segs last]|]; cbn [pth_text].
  - right. exists segs, last. split; [reflexivity|]. unfold gseg. destruct (st_is_special st).
    + exact (H2 eq_refl).
    + exact H1.
  - left. split; [reflexivity|]. destruct (st_is_special st); [destruct (H2 eq_refl) | reflexivity].
Qed.

Theorem session_auth st sch ui h pt p q f ops u' status : auth_ok hp hpo hd st sch ui h pt p q f -> st_is_file st = false ->
  (st = STSpecialNotFile -> pth_ok_sp p) -> Forall psm_op_usv ops ->
  path_segments_session dbg (auth_url hd sch ui h pt p q f) ops = Some (u', status) -> nlen (ser u') <= U32_MAX_P ->
  exists p', auth_ok hp hpo hd st sch ui h pt p' q f /\ (st = STSpecialNotFile -> pth_ok_sp p') /\ u' = auth_url hd sch ui h pt p' q f.
Proof.
  intros K Hnf Ksp Ho H Hb. pose proof (proj2 (auth_url_wf hp hpo hd HRT _ _ _ _ _ _ _ _ K)) as Hc.
  pose proof (ak_st _ _ _ _ _ _ _ _ _ _ _ K) as Hst.
  rewrite auth_url_qf in H, Hc. unfold auth_pre in H, Hc. rewrite (auth_front_Z hd) in H, Hc.
  assert (PI (scheme_type_of sch) (pth_text p)) as HP.
  { apply pth_PI; [exact (ak_p _ _ _ _ _ _ _ _ _ _ _ K)|]. rewrite Hst. destruct st; try discriminate; intros _; exact (Ksp eq_refl). }
  rewrite <- Hst in Hnf.
  destruct (session_frame dbg sch _ _ _ _ _ _ Hnf (pth_text p) q f ops u' status HP Ho Hc H) as (X' & HX' & ->).
  destruct (PI_pth _ X' HX') as (p' & -> & Hp' & Hsp'). rewrite <- (auth_front_Z hd) in *.
  assert (qf_url (auth_front hd sch ui h pt ++ pth_text p') (nlen sch) (nlen sch + 3 + ui_ulen ui) (nlen sch + 3 + nlen (ui_text ui))
                 (nlen sch + 3 + nlen (ui_text ui) + nlen (hd h)) (hi_of_host h) pt (nlen (auth_front hd sch ui h pt)) q f
          = auth_url hd sch ui h pt p' q f) as EU by (rewrite auth_url_qf; reflexivity).
  rewrite EU in *. exists p'. split; [exact (auth_ok_path hp hpo hd st sch ui h pt p q f p' K Hp' Hb)|]. split; [|reflexivity].
  intros E. apply Hsp'. rewrite Hst, E. reflexivity.
Qed.

Theorem psm_session_Canon u ops u' status : Canon u -> Forall psm_op_ok ops -> has_marker u = false ->
  path_segments_session dbg u ops = Some (u', status) -> nlen (ser u') <= U32_MAX_P -> Canon u'.
Proof.
  intros C Ho Hm H Hb. apply psm_ok_usv in Ho.
  destruct C as [sch P q f K | sch segs last q f K | sch ui h pt p q f K | sch ui h pt p q f K Kp].
  - unfold path_segments_session, path_segments_mut in H. rewrite (opaque_url_cbb sch P q f K) in H. cbn [bindo] in H.
    inversion H; subst u'. exact (Canon_opaque hp hpo hd sch P q f K).
  - (* no authority, no marker *)
    rewrite (noauth_marker sch (path_text segs last) q f eq_refl) in Hm.
    destruct (noauth_url_wf sch segs last q f K) as (W & Hc & _).
    pose proof (nk_ns _ _ _ _ _ K) as Hns.
    set (u := noauth_url sch (path_text segs last) q f) in *.
    assert (status = SOk) as ->.
    { unfold path_segments_session, path_segments_mut in H. rewrite Hc in H. cbn [bindo] in H.
      destruct (psm_new dbg u) as [p0|]; cbn [bindo] in H; [|discriminate H].
      destruct (psm_run dbg p0 ops) as [p1|]; cbn [bindo] in H; [|discriminate H].
      destruct (psm_close dbg p1); cbn [bindo] in H; [|discriminate H]. inversion H. reflexivity. }
    assert (noauth_slash_path u) as NA.
    { split; [apply noauth_no_authority|]. unfold u. rewrite (noauth_url_nomarker sch _ q f Hm).
      cbn [qf_url ser scheme_end path_start]. split; [|rewrite nlen_app; reflexivity].
      unfold byte_eqb, path_text. replace (nlen sch + 1) with (nlen (sch ++ [58])) by (rewrite nlen_app; reflexivity).
      rewrite <- app_assoc. rewrite nnth_app_ge by lia. rewrite N.sub_diag. reflexivity. }
    assert (st_is_special (scheme_type_of (b_scheme u)) = false) as Hsp.
    { unfold u. rewrite noauth_url_qf. destruct (noauth_pre_sch sch (path_text segs last)) as [S1 S2].
      rewrite (b_scheme_qf _ _ _ _ _ _ _ _ q f sch S1 S2). rewrite Hns. reflexivity. }
    pose proof (session_no_ss dbg u ops u' W NA Hsp Ho H) as H2.
    unfold u in H, Hc. rewrite (noauth_url_nomarker sch _ q f Hm) in H, Hc. clear u W NA Hsp.
    set (a := nlen (sch ++ [58])) in *.
    assert (forall X, qf_url ((sch ++ [58]) ++ X) (nlen sch) a a a HI_None None (nlen (sch ++ [58])) q f
                      = qf_url (((sch ++ [58]) ++ []) ++ X) (nlen sch) a a a HI_None None (nlen ((sch ++ [58]) ++ [])) q f) as EQ
      by (intros X; rewrite app_nil_r; reflexivity).
    rewrite EQ in H, Hc.
    assert (st_is_file (scheme_type_of sch) = false) as Hnf by (rewrite Hns; reflexivity).
    assert (PI (scheme_type_of sch) (path_text segs last)) as HP.
    { right. exists segs, last. split; [reflexivity|]. unfold gseg. rewrite Hns. cbn [st_is_special].
      split; [exact (nk_segs _ _ _ _ _ K) | exact (nk_last _ _ _ _ _ K)]. }
    destruct (session_frame dbg sch [] a a a HI_None None Hnf (path_text segs last) q f ops u' SOk HP Ho Hc H) as (X' & HX' & ->).
    rewrite <- EQ in *.
    destruct (PI_pth _ X' HX') as (p' & -> & Hp' & _).
    destruct p' as [[segs' last']|]; cbn [pth_text] in *.
    + assert (starts_with s_ss (path_text segs' last') = false) as Hm'.
      { unfold path_starts_with_2slash in H2. cbn [qf_url path_start ser] in H2. unfold a in H2.
        rewrite <- app_assoc in H2. rewrite nskipn_app_len in H2. exact (starts_with_app_false _ _ _ H2). }
      unfold a in *. rewrite <- (noauth_url_nomarker sch _ q f Hm') in *. apply Canon_noauth.
      destruct K as [Ksch Kns Ksegs Klast Kq Kf Kb1 Kbq Kbf]. destruct Hp' as [Hp1 Hp2].
      cbn [noauth_url ser] in Hb. unfold noauth_ser in Hb. destruct (qf_bounds _ _ _ _ Hb) as [B1 B2].
      constructor; assumption.
    + rewrite app_nil_r in *. unfold a in *.
      assert (qf_url (sch ++ [58]) (nlen sch) (nlen (sch ++ [58])) (nlen (sch ++ [58])) (nlen (sch ++ [58])) HI_None None
                     (nlen (sch ++ [58])) q f = opaque_url sch [] q f) as EU
        by (rewrite opaque_url_qf; unfold opaque_pre; rewrite app_nil_r; reflexivity).
      rewrite EU in *. apply Canon_opaque.
      apply (noauth_to_opaque sch segs last q f q f K (nk_q _ _ _ _ _ K) (nk_f _ _ _ _ _ K)). exact Hb.
  - destruct (session_auth STNotSpecial sch ui h pt p q f ops u' status K eq_refl ltac:(discriminate) Ho H Hb) as (p' & K' & _ & ->).
    exact (Canon_auth hp hpo hd sch ui h pt p' q f K').
  - destruct (session_auth STSpecialNotFile sch ui h pt p q f ops u' status K eq_refl (fun _ => Kp) Ho H Hb) as (p' & K' & Kp' & ->).
    exact (Canon_special hp hpo hd sch ui h pt p' q f K' (Kp' eq_refl)).
Qed.
End SessCanon.
