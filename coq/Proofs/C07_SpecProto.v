(* Proofs/C07_SpecProto.v - the specification side of the C07 equivalence for the protocol setter:
   what the basic URL parser of Spec/Whatwg.v computes when it is run WITH a state override from the
   scheme start state on "value:" (scheme start state, scheme state), in closed form, and the
   invariants of URL records of the Standard that the protocol setter's decision relies on (`sane`):
   a URL that cannot have a username/password/port has none; a special URL has a host, and a
   non-empty one unless its scheme is "file"; a URL with an opaque path has no host. *)
From RU Require Import Base.Prelude Base.Utf8 Spec.Whatwg Spec.WhatwgFuel Proofs.C01_EqRun Proofs.C07_SpecRun.

(* steps 2.1 - 2.6 of the scheme state when a state override is given and c is ':' *)
Definition proto_refuses (u : spec_url) (buffer : list N) : bool :=
  (is_special_scheme (su_scheme u) && negb (is_special_scheme buffer))
  || (negb (is_special_scheme (su_scheme u)) && is_special_scheme buffer)
  || ((includes_credentials u || opt_is_some (su_port u)) && list_eqb buffer str_file)
  || (list_eqb (su_scheme u) str_file && host_is_empty (su_host u)).

(* a port equal to the default port of the scheme is stored as null *)
Definition renorm (u1 : spec_url) : spec_url :=
  match su_port u1 with
  | Some p => if port_is_default (su_scheme u1) p then set_port u1 None else u1
  | None => u1
  end.

Definition proto_decide (u : spec_url) (buffer : list N) : spec_url :=
  if proto_refuses u buffer then u else renorm (set_scheme u buffer).

Section ProtoRuns.
Variable hp : bool -> list N -> option spec_host.
Variable input : list N.
Variable ov : pstate.

Notation runO := (run hp input None (Some ov)).

(* the scheme state with a state override, on any remaining text *)
Theorem run_scheme_ov : forall t pre fuel buf a b pw u,
  input = pre ++ t -> (length t < fuel)%nat ->
  after_override (runO fuel (at_pos StScheme pre buf a b pw u))
  = SetTo (match scheme_scan buf t with Some (sch, _) => proto_decide u sch | None => u end).
Proof.
  induction t as [|c r IH]; intros pre fuel buf a b pw u Hin Hfuel;
    (destruct fuel as [|fuel]; [cbn [length] in Hfuel; lia|]); cbn [run].
  - rewrite (step_at hp input ov _ _ _ _ _ _ _ _ Hin). cbn zeta. cbn [hd_error tl]. reflexivity.
  - rewrite (step_at hp input ov _ _ _ _ _ _ _ _ Hin). cbn zeta. cbn [hd_error tl scheme_scan].
    unfold st_scheme. cbn [cpred cis]. destruct (is_scheme_cp c) eqn:Ec.
    + unfold push_buf, set_buf. cbn [m_state m_ptr m_buf m_at m_br m_pw m_url at_pos].
      rewrite (len_split hp input pre (c :: r) Hin). cbn [length].
      replace (Z.of_nat (length pre) + Z.of_nat (S (length r)) <=? Z.of_nat (length pre))%Z with false by lia.
      rewrite (inc_at hp StScheme pre c).
      apply (IH (pre ++ [c]) fuel (buf ++ [to_lower c]) a b pw u (snoc_split input pre c r Hin)).
      cbn [length] in Hfuel. lia.
    + destruct (c =? 58) eqn:E58; [|reflexivity].
      cbn [has_ov opt_is_some andb m_url m_buf at_pos]. unfold proto_decide, proto_refuses, renorm.
      destruct (is_special_scheme (su_scheme u) && negb (is_special_scheme buf)); [reflexivity|].
      destruct (negb (is_special_scheme (su_scheme u)) && is_special_scheme buf); [reflexivity|].
      destruct ((includes_credentials u || opt_is_some (su_port u)) && list_eqb buf str_file); [reflexivity|].
      destruct (list_eqb (su_scheme u) str_file && host_is_empty (su_host u)); reflexivity.
Qed.

(* the scheme start state with a state override, at the start of the text *)
Theorem run_scheme_start_ov : forall fuel u,
  (length input < fuel)%nat ->
  after_override (runO fuel (at_pos StSchemeStart [] [] false false false u))
  = SetTo (match spec_scheme input with Some (sch, _) => proto_decide u sch | None => u end).
Proof.
  intros fuel u Hfuel. destruct fuel as [|fuel]; [lia|]. cbn [run].
  assert (input = [] ++ input) as Hin by reflexivity.
  rewrite (step_at hp input ov _ _ _ _ _ _ _ _ Hin). cbn zeta. unfold spec_scheme.
  destruct input as [|c r] eqn:Ein; cbn [hd_error tl]; [reflexivity|].
  unfold st_scheme_start. cbn [cpred]. destruct (is_alpha c) eqn:Ea; [|reflexivity].
  unfold goto, push_buf, set_buf. cbn [m_state m_ptr m_buf m_at m_br m_pw m_url at_pos app length].
  replace (Z.of_nat (S (length r)) <=? Z.of_nat 0)%Z with false by lia.
  cbn [scheme_scan]. rewrite (is_alpha_scheme_cp c Ea).
  change (inc_ptr (mkM StScheme (Z.of_nat 0) [to_lower c] false false false u))
    with (at_pos StScheme ([] ++ [c]) ([] ++ [to_lower c]) false false false u).
  rewrite <- Ein in *.
  apply (run_scheme_ov r ([] ++ [c]) fuel ([] ++ [to_lower c]) false false false u).
  - rewrite Ein. reflexivity.
  - rewrite Ein in Hfuel. cbn [length] in Hfuel. lia.
Qed.

End ProtoRuns.

Lemma notnl_app a b : notnl (a ++ b) = notnl a ++ notnl b.
Proof. unfold notnl. apply filter_app. Qed.

(* the protocol attribute setter in closed form *)
Theorem spec_protocol_closed shp su v :
  spec_set shp SetProtocol su v
  = SetTo (match spec_scheme (notnl v ++ [58]) with Some (sch, _) => proto_decide su sch | None => su end).
Proof.
  cbn [spec_set]. unfold spec_basic_url_parse_override. fold (notnl (v ++ [58])).
  rewrite notnl_app. change (notnl [58]) with [58].
  change (mkM StSchemeStart 0%Z [] false false false su) with (at_pos StSchemeStart [] [] false false false su).
  apply run_scheme_start_ov. apply fuel_enough.
Qed.

(* ---------- invariants of URL records of the Standard ---------- *)
Record sane (su : spec_url) : Prop := mk_sane {
  sa_cannot : cannot_have_username_password_port su = true ->
              su_port su = None /\ includes_credentials su = false;
  sa_special : is_special su = true ->
               host_is_null (su_host su) = false
               /\ (list_eqb (su_scheme su) str_file = false -> host_is_empty (su_host su) = false);
  sa_opaque : has_opaque_path su = true -> su_host su = None
}.

(* a boolean recogniser *)
Definition sane_b (su : spec_url) : bool :=
  (negb (cannot_have_username_password_port su)
   || (negb (opt_is_some (su_port su)) && negb (includes_credentials su)))
  && (negb (is_special su)
      || (negb (host_is_null (su_host su))
          && (list_eqb (su_scheme su) str_file || negb (host_is_empty (su_host su)))))
  && (negb (has_opaque_path su) || host_is_null (su_host su)).

Lemma sane_b_sound su : sane_b su = true -> sane su.
Proof.
  unfold sane_b. intros H. apply andb_true_iff in H. destruct H as [H H3].
  apply andb_true_iff in H. destruct H as [H1 H2]. constructor.
  - intros Hc. rewrite Hc in H1. cbn [negb orb] in H1. apply andb_true_iff in H1. destruct H1 as [A B].
    apply negb_true_iff in A, B. split; [|exact B]. destruct (su_port su); [discriminate A | reflexivity].
  - intros Hs. rewrite Hs in H2. cbn [negb orb] in H2. apply andb_true_iff in H2. destruct H2 as [A B].
    apply negb_true_iff in A. split; [exact A|]. intros Hf. rewrite Hf in B. cbn [orb] in B.
    apply negb_true_iff in B. exact B.
  - intros Ho. rewrite Ho in H3. cbn [negb orb] in H3. destruct (su_host su); [discriminate H3 | reflexivity].
Qed.

(* the Standard's protocol setter keeps the invariants *)
Lemma scheme_default_port_special s d : scheme_default_port s = Some d -> is_special_scheme s = true.
Proof.
  unfold scheme_default_port, is_special_scheme, special_schemes. cbn [find existsb fst].
  destruct (list_eqb str_ftp s); [reflexivity|]. destruct (list_eqb str_file s); [discriminate|].
  destruct (list_eqb str_http s); [reflexivity|]. destruct (list_eqb str_https s); [reflexivity|].
  destruct (list_eqb str_ws s); [reflexivity|]. destruct (list_eqb str_wss s); [reflexivity|]. discriminate.
Qed.

Lemma file_is_special s : list_eqb s str_file = true -> is_special_scheme s = true.
Proof. intros H. apply list_eqb_spec in H. subst s. reflexivity. Qed.

Lemma set_scheme_sane su sch : sane su -> proto_refuses su sch = false -> sane (set_scheme su sch).
Proof.
  intros [S1 S2 S3] R. unfold proto_refuses in R.
  apply orb_false_iff in R. destruct R as [R D4]. apply orb_false_iff in R. destruct R as [R D3].
  apply orb_false_iff in R. destruct R as [D1 D2].
  assert (is_special_scheme sch = is_special_scheme (su_scheme su)) as Esp.
  { destruct (is_special_scheme (su_scheme su)), (is_special_scheme sch); try reflexivity; discriminate. }
  constructor; cbn [set_scheme su_scheme su_host su_port su_path];
    unfold cannot_have_username_password_port, is_special, includes_credentials, has_opaque_path in *;
    cbn [set_scheme su_scheme su_host su_port su_path su_username su_password].
  - intros Hc. destruct (list_eqb sch str_file) eqn:Ef.
    + rewrite andb_true_r in D3. apply orb_false_iff in D3. destruct D3 as [A B]. split; [|exact A].
      destruct (su_port su); [discriminate B | reflexivity].
    + rewrite orb_false_r in Hc. apply S1. rewrite Hc. reflexivity.
  - intros Hs. rewrite Esp in Hs. destruct (S2 Hs) as [A B]. split; [exact A|]. intros Hf.
    destruct (list_eqb (su_scheme su) str_file) eqn:Eof; [|exact (B eq_refl)].
    cbn [andb] in D4. exact D4.
  - exact S3.
Qed.

Lemma renorm_sane u1 : sane u1 -> sane (renorm u1).
Proof.
  intros S. unfold renorm.
  destruct (su_port u1) as [p|] eqn:Ep; [|exact S].
  destruct (port_is_default (su_scheme u1) p); [|exact S].
  destruct S as [T1 T2 T3].
  constructor; unfold cannot_have_username_password_port, is_special, includes_credentials, has_opaque_path in *;
    cbn [set_port su_scheme su_host su_port su_path su_username su_password] in *.
  - intros Hc. split; [reflexivity|]. exact (proj2 (T1 Hc)).
  - exact T2.
  - exact T3.
Qed.

Lemma proto_decide_sane su sch : sane su -> sane (proto_decide su sch).
Proof.
  intros S. unfold proto_decide. destruct (proto_refuses su sch) eqn:R; [exact S|].
  apply renorm_sane. apply set_scheme_sane; assumption.
Qed.

Theorem spec_protocol_sane shp su v su' : sane su -> spec_set shp SetProtocol su v = SetTo su' -> sane su'.
Proof.
  intros S H. rewrite spec_protocol_closed in H. injection H as <-.
  destruct (spec_scheme (notnl v ++ [58])) as [[sch rest]|]; [apply proto_decide_sane; exact S | exact S].
Qed.
