(* Proofs/C09_Host.v - Host::parse_opaque, Display round trips, domain results. *)
From RU Require Import Base.Prelude Base.Utf8 Base.Utf8Facts Model.AsciiSet Gen.Tables Model.PercentEncoding Model.HostT Model.Host
  Proofs.C14_Set Proofs.C14_Enc Proofs.C14_Views Proofs.C09_V6 Proofs.C09_V6rt Proofs.C09_V4 Proofs.C09_Wf Spec.WhatwgHost.

(* ------------------------------------------------------------------ tables against the Standard *)

Lemma invalid_host_is_spec : T_HOST_INVALID_HOST_CHARS = Spec.forbidden_host_code_points.
Proof. reflexivity. Qed.

Lemma controls_sweep :
  all_below 256 (fun b => Bool.eqb (should_encode T_CONTROLS b) ((b <=? 31) || (126 <? b))) = true.
Proof. vm_compute. reflexivity. Qed.

Lemma controls_spec b : b < 256 -> should_encode T_CONTROLS b = ((b <=? 31) || (126 <? b)).
Proof. intros H. apply eqb_prop. exact (all_below_spec _ _ controls_sweep b H). Qed.

(* every ASCII code point outside the deny list handed to idna is lower case (not upper case) and
   not a forbidden domain code point *)
Lemma denied_sweep :
  all_below 128 (fun c => memb c T_HOST_IDNA_DENIED
                          || (negb (Spec.forbidden_domain_code_point c) && negb (is_upper c))) = true.
Proof. vm_compute. reflexivity. Qed.

(* and conversely the deny list is exactly: forbidden domain code points and upper-case letters *)
Lemma denied_exact :
  all_below 128 (fun c => Bool.eqb (memb c T_HOST_IDNA_DENIED) (Spec.forbidden_domain_code_point c || is_upper c)) = true.
Proof. vm_compute. reflexivity. Qed.

(* ------------------------------------------------------------------ UTF-8 of ASCII *)

Lemma utf8_encode_ascii s : ascii s -> utf8_encode s = s.
Proof.
  induction s as [|c s IH]; intros H; [reflexivity|]. inversion H as [|? ? Hc Hs]; subst.
  unfold utf8_encode in *. cbn [flat_map]. rewrite IH by exact Hs. unfold utf8_encode1, is_ascii in *.
  replace (c <? 128) with true by lia. reflexivity.
Qed.

Lemma utf8_encode1_high c b : 128 <= c -> In b (utf8_encode1 c) -> 128 <= b.
Proof.
  intros Hc. unfold utf8_encode1. replace (c <? 128) with false by lia.
  destruct (c <? 2048); [|destruct (c <? 65536)]; cbn [In]; intros H;
    repeat (destruct H as [H|H]; [subst; lia|]); contradiction.
Qed.

Lemma utf8_ascii_origin s b : In b (utf8_encode s) -> b < 128 -> In b s.
Proof.
  induction s as [|c s IH]; intros Hin Hb; [exact Hin|].
  unfold utf8_encode in Hin. cbn [flat_map] in Hin. apply in_app_or in Hin. destruct Hin as [Hin|Hin].
  - destruct (c <? 128) eqn:E.
    + unfold utf8_encode1 in Hin. rewrite E in Hin. destruct Hin as [->|[]]. left. reflexivity.
    + pose proof (utf8_encode1_high c b ltac:(lia) Hin). lia.
  - right. apply IH; assumption.
Qed.

(* ------------------------------------------------------------------ Host::parse_opaque *)

Definition c0_encode (bs : list N) : list N :=
  flat_map (fun b => if (b <=? 31) || (126 <? b) then [37; hex_upper (b / 16); hex_upper (b mod 16)] else [b]) bs.

Lemma encode_controls bs : bytes bs -> encode T_CONTROLS bs = c0_encode bs.
Proof.
  induction bs as [|b r IH]; intros H; [reflexivity|]. inversion H as [|? ? Hb Hr]; subst.
  unfold encode, c0_encode in *. cbn [flat_map]. rewrite IH by exact Hr.
  rewrite controls_spec by exact Hb. reflexivity.
Qed.

Theorem parse_opaque_spec input : usv_list input -> starts_with 91 input = false ->
  host_parse_opaque input =
  if existsb (fun c => memb c Spec.forbidden_host_code_points) input then Err InvalidDomainCharacter
  else Ok (HDomain (c0_encode (utf8_encode input))).
Proof.
  intros Hu Hs. unfold host_parse_opaque, host_parse_opaque_x. rewrite Hs.
  unfold is_invalid_host_char. rewrite invalid_host_is_spec.
  destruct (existsb (fun c => memb c Spec.forbidden_host_code_points) input); [reflexivity|].
  cbn [xr_result]. rewrite pe_display_is_encode by (apply utf8_encode_bytes; exact Hu).
  rewrite encode_controls by (apply utf8_encode_bytes; exact Hu). reflexivity.
Qed.

(* characters of an opaque host that the parser returns *)
Definition good_opaque_char (b : N) : bool :=
  (b <? 128) && negb (should_encode T_CONTROLS b) && negb (is_invalid_host_char b).

Lemma hex_upper_good : all_below 16 (fun d => good_opaque_char (hex_upper d)) = true.
Proof. vm_compute. reflexivity. Qed.

Lemma encode_good bs : bytes bs ->
  (forall b, In b bs -> b < 128 -> is_invalid_host_char b = false) ->
  forallb good_opaque_char (encode T_CONTROLS bs) = true.
Proof.
  induction bs as [|b r IH]; intros Hb Hin; [reflexivity|]. inversion Hb as [|? ? Hb1 Hr]; subst.
  rewrite encode_cons, forallb_app. rewrite IH; [|exact Hr|intros; apply Hin; [right|]; assumption].
  rewrite andb_true_r. unfold enc1. destruct (should_encode T_CONTROLS b) eqn:E.
  - unfold enc_byte_spec. cbn [forallb]. unfold is_byte in Hb1.
    rewrite (all_below_spec _ _ hex_upper_good (b / 16)) by lia.
    rewrite (all_below_spec _ _ hex_upper_good (b mod 16)) by lia. reflexivity.
  - cbn [forallb]. rewrite andb_true_r. unfold good_opaque_char. rewrite E.
    assert (b < 128). { unfold should_encode in E. destruct (128 <=? b) eqn:E2; [discriminate|lia]. }
    rewrite Hin; [|left; reflexivity|assumption]. replace (b <? 128) with true by lia. reflexivity.
Qed.

Lemma good_opaque_fixed d : forallb good_opaque_char d = true -> host_parse_opaque_x d = XOk (HDomain d).
Proof.
  intros H. rewrite forallb_forall in H.
  assert (Ha : ascii d).
  { apply Forall_forall. intros b Hb. specialize (H b Hb). unfold good_opaque_char in H. unfold is_ascii. lia. }
  assert (Hi : existsb is_invalid_host_char d = false).
  { destruct (existsb is_invalid_host_char d) eqn:E; [|reflexivity]. apply existsb_exists in E.
    destruct E as (b & Hb & Hinv). specialize (H b Hb). unfold good_opaque_char in H. rewrite Hinv in H.
    rewrite andb_false_r in H. discriminate. }
  unfold host_parse_opaque_x.
  assert (Hs : starts_with 91 d = false).
  { destruct d as [|c d']; [reflexivity|]. cbn [starts_with]. destruct (c =? 91) eqn:E; [|reflexivity].
    apply N.eqb_eq in E. subst c. cbn [existsb] in Hi. apply orb_false_iff in Hi. destruct Hi as [Hi _].
    vm_compute in Hi. discriminate. }
  rewrite Hs, Hi. rewrite utf8_encode_ascii by exact Ha.
  rewrite pe_display_is_encode by (apply ascii_bytes; exact Ha).
  replace (encode T_CONTROLS d) with d; [reflexivity|]. symmetry. apply encode_id_iff.
  apply Forall_forall. intros b Hb. specialize (H b Hb). unfold good_opaque_char in H.
  destruct (should_encode T_CONTROLS b); [|reflexivity]. rewrite andb_false_r in H. discriminate.
Qed.

(* ------------------------------------------------------------------ "[" write_ipv6 "]" *)

Lemma lower_hex_ascii c : is_lower_hex c = true -> c < 128.
Proof. unfold is_lower_hex, is_digit. lia. Qed.

Lemma hex4_ascii v : v < 65536 -> ascii (hex4 v).
Proof.
  intros Hv. destruct (hex4_facts v Hv) as (H & _). apply Forall_forall. intros c Hc.
  rewrite forallb_forall in H. apply lower_hex_ascii. apply H. exact Hc.
Qed.

Lemma write_loop_ascii f : forall segs cs ce i out,
  Forall (fun x => x < 65536) segs -> write_ipv6_loop f segs cs ce i = Some out -> ascii out.
Proof.
  induction f as [|f IH]; intros segs cs ce i out Hs H; cbn [write_ipv6_loop] in H.
  - destruct (8 <=? i)%Z; [inversion H; constructor | discriminate].
  - destruct (8 <=? i)%Z; [inversion H; constructor|].
    assert (P : forall j o, match nth_error segs (Z.to_nat j) with
                            | Some v => match write_ipv6_loop f segs cs ce (j + 1) with
                                        | Some rest => Some (hex4 v ++ (if (j <? 7)%Z then [58] else []) ++ rest)
                                        | None => None end
                            | None => None end = Some o -> ascii o).
    { intros j o Hj. destruct (nth_error segs (Z.to_nat j)) as [v|] eqn:En; [|discriminate].
      destruct (write_ipv6_loop f segs cs ce (j + 1)) as [rest|] eqn:Er; [|discriminate].
      inversion Hj; subst. apply ascii_app. split.
      - apply hex4_ascii. rewrite Forall_forall in Hs. apply Hs. eapply nth_error_In. exact En.
      - apply ascii_app. split; [destruct (j <? 7)%Z; repeat constructor; unfold is_ascii; lia|].
        eapply IH; eassumption. }
    destruct (i =? cs)%Z.
    + destruct (ce <? 8)%Z.
      * match type of H with match ?X with _ => _ end = _ => destruct X as [rest|] eqn:E; [|discriminate] end.
        inversion H; subst. apply P in E. cbn [app]. constructor; [unfold is_ascii; lia|].
        destruct (i =? 0)%Z; [constructor; [unfold is_ascii; lia|]|]; exact E.
      * inversion H; subst. destruct (i =? 0)%Z; repeat constructor; unfold is_ascii; lia.
    + apply P in H. exact H.
Qed.

Lemma write_ipv6_ascii a : Forall (fun x => x < 65536) a -> ascii (write_ipv6 a).
Proof.
  intros H. unfold write_ipv6, write_ipv6_o. destruct (longest_zero_sequence a) as [cs ce].
  destruct (write_ipv6_loop 9 a cs ce 0) as [out|] eqn:E; [|constructor].
  eapply write_loop_ascii; eassumption.
Qed.

Lemma bracketed_write a : wf8 a -> bracketed ([91] ++ write_ipv6 a ++ [93]) = XOk (HIpv6 a).
Proof.
  intros [Hl Hb]. unfold bracketed, ends_with. cbn [app]. 
  cbn [rev]. rewrite rev_app_distr. cbn [rev app]. replace (93 =? 93) with true by reflexivity. cbn [negb tl].
  rewrite removelast_last. rewrite utf8_encode_ascii by (apply write_ipv6_ascii; exact Hb).
  rewrite parse_write_ipv6 by assumption. reflexivity.
Qed.

Lemma bracketed_ok input h : bracketed input = XOk h -> exists a, h = HIpv6 a /\ wf8 a.
Proof.
  unfold bracketed. destruct (negb (ends_with 93 input)); [discriminate|].
  destruct (parse_ipv6addr (utf8_encode (removelast (tl input)))) as [a| | |] eqn:E; cbn [xr_map]; try discriminate.
  intros H. inversion H; subst. exists a. split; [reflexivity|]. eapply parse_ipv6addr_wf. exact E.
Qed.

(* ------------------------------------------------------------------ Display round trip, opaque hosts *)

Theorem opaque_display_rt input h : usv_list input ->
  host_parse_opaque_x input = XOk h -> host_parse_opaque_x (host_display h) = XOk h.
Proof.
  intros Hu H. unfold host_parse_opaque_x in H. destruct (starts_with 91 input) eqn:Es.
  - destruct (bracketed_ok _ _ H) as (a & -> & Hw). cbn [host_display]. unfold host_parse_opaque_x.
    cbn [app starts_with]. replace (91 =? 91) with true by reflexivity. apply (bracketed_write a Hw).
  - destruct (existsb is_invalid_host_char input) eqn:Ei; [discriminate|]. inversion H; subst.
    cbn [host_display]. apply good_opaque_fixed.
    rewrite pe_display_is_encode by (apply utf8_encode_bytes; exact Hu).
    apply encode_good; [apply utf8_encode_bytes; exact Hu|].
    intros b Hb Hlt. pose proof (utf8_ascii_origin _ _ Hb Hlt) as Hin.
    destruct (is_invalid_host_char b) eqn:E; [|reflexivity].
    assert (existsb is_invalid_host_char input = true) by (apply existsb_exists; exists b; tauto). congruence.
Qed.

(* ------------------------------------------------------------------ the oracle hypothesis *)

Definition dom_char_ok (c : N) : Prop := c < 128 /\ memb c T_HOST_IDNA_DENIED = false.

Record IdnaOK (idna : list N -> option (list N)) : Prop := {
  idna_out : forall bs d, idna bs = Some d -> Forall dom_char_ok d;      (* ASCII outside the deny list *)
  idna_fix : forall bs d, idna bs = Some d -> idna d = Some d;           (* outputs are fixed points *)
  idna_v4 : forall a, a < 4294967296 -> idna (ipv4_display a) = Some (ipv4_display a)
}.

Lemma dom_char_facts c : dom_char_ok c ->
  c < 128 /\ is_upper c = false /\ Spec.forbidden_domain_code_point c = false /\ c <> 37 /\ c <> 91.
Proof.
  intros [H1 H2]. pose proof (all_below_spec _ _ denied_exact c H1) as S. cbv beta in S.
  rewrite H2 in S. apply eqb_prop in S. symmetry in S. apply orb_false_iff in S. destruct S as [S1 S2].
  repeat split; try assumption.
  - intros ->. vm_compute in S1. discriminate.
  - intros ->. vm_compute in S1. discriminate.
Qed.

Lemma decode_no_pct d : ~ In 37 d -> decode d = d.
Proof.
  induction d as [|c d IH]; intros H; [apply decode_nil|].
  rewrite decode_other by (intros ->; apply H; left; reflexivity).
  rewrite IH; [reflexivity|]. intros Hin. apply H. right. exact Hin.
Qed.

(* ------------------------------------------------------------------ domains *)

Section Idna.
  Variable idna : list N -> option (list N).

  Theorem parse_domain input d : host_parse_x idna input = XOk (HDomain d) ->
    idna (decode (utf8_encode input)) = Some d /\ d <> [] /\ ends_in_a_number d = false.
  Proof.
    unfold host_parse_x. destruct (starts_with 91 input).
    { intros H. destruct (bracketed_ok _ _ H) as (a & Ha & _). discriminate Ha. }
    destruct (idna (decode (utf8_encode input))) as [dom|]; [|discriminate].
    destruct dom as [|c dom']; [discriminate|].
    destruct (ends_in_a_number (c :: dom')) eqn:Ee.
    - destruct (parse_ipv4addr (c :: dom')); cbn [xr_map]; discriminate.
    - intros H. inversion H; subst. repeat split; [discriminate|exact Ee].
  Qed.

  (* a host that ends in a number is never returned as a domain *)
  Theorem parse_number_not_domain input dom : starts_with 91 input = false ->
    idna (decode (utf8_encode input)) = Some dom -> ends_in_a_number dom = true ->
    host_parse_x idna input = xr_map HIpv4 (parse_ipv4addr dom).
  Proof.
    intros Hs Hi He. unfold host_parse_x. rewrite Hs, Hi, He.
    destruct dom; [vm_compute in He; discriminate | reflexivity].
  Qed.

  Hypothesis OK : IdnaOK idna.

  Lemma domain_fixed d : (exists bs, idna bs = Some d) -> d <> [] -> ends_in_a_number d = false ->
    host_parse_x idna d = XOk (HDomain d).
  Proof.
    intros (bs & Hb) Hn He.
    pose proof (idna_out idna OK bs d Hb) as Hout. pose proof (idna_fix idna OK bs d Hb) as Hfix.
    assert (Ha : ascii d).
    { eapply Forall_impl; [|exact Hout]. intros c Hc. destruct (dom_char_facts c Hc). assumption. }
    assert (H37 : ~ In 37 d).
    { intros Hin. rewrite Forall_forall in Hout. destruct (dom_char_facts 37 (Hout 37 Hin)) as (_ & _ & _ & H & _). congruence. }
    unfold host_parse_x.
    assert (Hs : starts_with 91 d = false).
    { destruct d as [|c d']; [reflexivity|]. cbn [starts_with]. inversion Hout as [|? ? Hc _]; subst.
      destruct (dom_char_facts c Hc) as (_ & _ & _ & _ & H). apply N.eqb_neq. exact H. }
    rewrite Hs. rewrite utf8_encode_ascii by exact Ha. rewrite decode_no_pct by exact H37. rewrite Hfix, He.
    destruct d; [congruence|reflexivity].
  Qed.

  Theorem domain_display_rt input d : host_parse_x idna input = XOk (HDomain d) ->
    host_parse_x idna (host_display (HDomain d)) = XOk (HDomain d).
  Proof.
    intros H. destruct (parse_domain input d H) as (H1 & H2 & H3). cbn [host_display].
    apply domain_fixed; eauto.
  Qed.

  Theorem domain_form input d : host_parse_x idna input = XOk (HDomain d) ->
    Forall (fun c => c < 128 /\ is_upper c = false /\ Spec.forbidden_domain_code_point c = false) d.
  Proof.
    intros H. destruct (parse_domain input d H) as (H1 & _).
    pose proof (idna_out idna OK _ d H1) as Hout. eapply Forall_impl; [|exact Hout].
    intros c Hc. destruct (dom_char_facts c Hc) as (? & ? & ? & _). tauto.
  Qed.
End Idna.

(* ------------------------------------------------------------------ dotted decimal *)

Definition dec_u8_ok (x : N) : bool :=
  let ds := dec_u8 x in
  forallb is_digit ds && negb (match ds with [] => true | _ => false end)
  && (match ds with c :: _ :: _ => negb (c =? 48) | _ => true end)
  && (horner 10 ds 0 =? x).

Lemma dec_u8_sweep : all_below 256 dec_u8_ok = true.
Proof. vm_compute. reflexivity. Qed.

Lemma dec_u8_part x : x < 256 -> part_ok (Dec, dec_u8 x) /\ pvalue (Dec, dec_u8 x) = x.
Proof.
  intros Hx. pose proof (all_below_spec _ _ dec_u8_sweep x Hx) as S. unfold dec_u8_ok in S. cbv zeta in S.
  repeat (apply andb_true_iff in S; destruct S as [S ?]).
  unfold part_ok, pvalue. cbn [fst snd digits_ok radix_n]. repeat split.
  - exact S.
  - destruct (dec_u8 x); [discriminate|discriminate].
  - destruct (dec_u8 x) as [|c [|c2 r]]; try exact I. intros ->. discriminate.
  - apply N.eqb_eq. assumption.
Qed.

Definition octets (a : N) : list N := [a / 16777216; (a / 65536) mod 256; (a / 256) mod 256; a mod 256].
Definition dec_parts (a : N) : list (radix * list N) := map (fun x => (Dec, dec_u8 x)) (octets a).

Lemma ipv4_display_spell a : ipv4_display a = spell_addr (dec_parts a) false.
Proof. unfold ipv4_display, spell_addr, dec_parts, octets. cbn [map join_dot spell fst snd app]. rewrite app_nil_r. reflexivity. Qed.

Lemma octets_lt a : a < 4294967296 -> Forall (fun x => x < 256) (octets a).
Proof. intros H. unfold octets. repeat constructor; lia. Qed.

Lemma dec_parts_ok a : a < 4294967296 ->
  Forall part_ok (dec_parts a) /\ map pvalue (dec_parts a) = octets a.
Proof.
  intros H. pose proof (octets_lt a H) as Ho. unfold dec_parts. split.
  - apply Forall_forall. intros p Hp. apply in_map_iff in Hp. destruct Hp as (x & <- & Hx).
    rewrite Forall_forall in Ho. apply dec_u8_part. apply Ho. exact Hx.
  - rewrite map_map. rewrite <- (map_id (octets a)) at 2. apply map_ext_in. intros x Hx.
    rewrite Forall_forall in Ho. apply dec_u8_part. apply Ho. exact Hx.
Qed.

Theorem parse_ipv4_display a : a < 4294967296 -> parse_ipv4addr (ipv4_display a) = XOk a.
Proof.
  intros H. destruct (dec_parts_ok a H) as [H1 H2]. rewrite ipv4_display_spell.
  rewrite parse_ipv4addr_value; [|exact H1|].
  - rewrite H2. unfold octets, positional. f_equal. lia.
  - rewrite H2. unfold octets, in_range. lia.
Qed.

Lemma ipv4_display_digits a : a < 4294967296 ->
  Forall (fun c => is_digit c = true \/ c = 46) (ipv4_display a) /\ ipv4_display a <> []
  /\ ends_in_a_number (ipv4_display a) = true.
Proof.
  intros H. pose proof (octets_lt a H) as Ho. unfold octets in Ho.
  repeat match goal with Hx : Forall _ (_ :: _) |- _ => inversion Hx; clear Hx; subst end.
  assert (D : forall x, x < 256 -> forallb is_digit (dec_u8 x) = true /\ dec_u8 x <> []).
  { intros x Hx. destruct (dec_u8_part x Hx) as [(P1 & P2 & _) _]. cbn [fst snd] in *. tauto. }
  assert (Dd : forall x, x < 256 -> Forall (fun c => is_digit c = true \/ c = 46) (dec_u8 x)).
  { intros x Hx. destruct (D x Hx) as [Hd _]. apply Forall_forall. intros c Hc. left. rewrite forallb_forall in Hd. auto. }
  repeat split.
  - unfold ipv4_display. repeat (apply Forall_app; split); try (apply Dd; assumption); repeat constructor; right; reflexivity.
  - unfold ipv4_display. destruct (D (a / 16777216) ltac:(assumption)) as [_ Hn].
    destruct (dec_u8 (a / 16777216)); [congruence|discriminate].
  - destruct (dec_parts_ok a H) as [H1 _]. rewrite ipv4_display_spell. unfold spell_addr. rewrite app_nil_r.
    unfold ends_in_a_number.
    assert (Hdf : Forall dotfree (map spell (dec_parts a))).
    { apply Forall_forall. intros x Hx. apply in_map_iff in Hx. destruct Hx as (p & <- & Hp).
      rewrite Forall_forall in H1. apply spell_dotfree. apply H1. exact Hp. }
    destruct (split_join (map spell (dec_parts a)) ltac:(discriminate) Hdf) as [S1 _]. rewrite S1.
    unfold dec_parts, octets. cbn [map rev app spell fst snd].
    destruct (D (a mod 256) ltac:(assumption)) as [Hd Hn].
    destruct (dec_u8 (a mod 256)) as [|c r] eqn:E; [congruence|]. rewrite Hd. reflexivity.
Qed.

Section IdnaV4.
  Variable idna : list N -> option (list N).
  Hypothesis OK : IdnaOK idna.

  Theorem ipv4_display_rt a : a < 4294967296 -> host_parse_x idna (host_display (HIpv4 a)) = XOk (HIpv4 a).
  Proof.
    intros H. cbn [host_display]. destruct (ipv4_display_digits a H) as (Hd & Hn & He).
    assert (Ha : ascii (ipv4_display a)).
    { eapply Forall_impl; [|exact Hd]. intros c [Hc| ->]; unfold is_ascii; [unfold is_digit in Hc|]; lia. }
    assert (H37 : ~ In 37 (ipv4_display a)).
    { intros Hin. rewrite Forall_forall in Hd. destruct (Hd 37 Hin) as [Hc|Hc]; [vm_compute in Hc|]; discriminate. }
    assert (Hs : starts_with 91 (ipv4_display a) = false).
    { destruct (ipv4_display a) as [|c r]; [reflexivity|]. cbn [starts_with]. inversion Hd as [|? ? Hc _]; subst.
      destruct Hc as [Hc| ->]; [unfold is_digit in Hc; lia|reflexivity]. }
    unfold host_parse_x. rewrite Hs. rewrite utf8_encode_ascii by exact Ha. rewrite decode_no_pct by exact H37.
    rewrite (idna_v4 idna OK a H). rewrite He. rewrite parse_ipv4_display by exact H.
    destruct (ipv4_display a); [congruence|reflexivity].
  Qed.

  (* every host Host::parse returns is reproduced by parsing its Display text *)
  Theorem special_display_rt input h : host_parse_x idna input = XOk h ->
    host_parse_x idna (host_display h) = XOk h.
  Proof.
    intros H. destruct h as [d|a|ps].
    - eapply domain_display_rt; eassumption.
    - apply ipv4_display_rt. unfold host_parse_x in H. destruct (starts_with 91 input).
      { destruct (bracketed_ok _ _ H) as (x & Hx & _). discriminate Hx. }
      destruct (idna (decode (utf8_encode input))) as [dom|]; [|discriminate].
      destruct dom as [|c dom']; [discriminate|].
      destruct (ends_in_a_number (c :: dom')); [|discriminate].
      destruct (parse_ipv4addr (c :: dom')) as [x| | |] eqn:E; cbn [xr_map] in H; try discriminate.
      inversion H; subst. eapply parse_ipv4addr_bound. exact E.
    - assert (Hw : wf8 ps).
      { unfold host_parse_x in H. destruct (starts_with 91 input).
        - destruct (bracketed_ok _ _ H) as (x & Hx & Hw). inversion Hx; subst. exact Hw.
        - destruct (idna (decode (utf8_encode input))) as [dom|]; [|discriminate].
          destruct dom as [|c dom']; [discriminate|].
          destruct (ends_in_a_number (c :: dom')); [|discriminate].
          destruct (parse_ipv4addr (c :: dom')); cbn [xr_map] in H; discriminate. }
      cbn [host_display]. unfold host_parse_x. cbn [app starts_with]. replace (91 =? 91) with true by reflexivity.
      apply (bracketed_write ps Hw).
  Qed.
End IdnaV4.

(* IPv6 hosts need no hypothesis *)
Theorem ipv6_display_rt (idna : list N -> option (list N)) a : wf8 a ->
  host_parse_x idna (host_display (HIpv6 a)) = XOk (HIpv6 a)
  /\ host_parse_opaque_x (host_display (HIpv6 a)) = XOk (HIpv6 a).
Proof.
  intros Hw. cbn [host_display]. unfold host_parse_x, host_parse_opaque_x. cbn [app starts_with].
  replace (91 =? 91) with true by reflexivity. split; apply (bracketed_write a Hw).
Qed.

Lemma denied_spec c : c < 128 ->
  memb c T_HOST_IDNA_DENIED = (Spec.forbidden_domain_code_point c || is_upper c).
Proof. intros H. apply eqb_prop. exact (all_below_spec _ _ denied_exact c H). Qed.

Lemma host_parse_ok_x idna input h : host_parse idna input = Ok h -> host_parse_x idna input = XOk h.
Proof. unfold host_parse. destruct (host_parse_x idna input); cbn [xr_result]; intros H; inversion H; reflexivity. Qed.

Lemma host_parse_opaque_ok_x input h : host_parse_opaque input = Ok h -> host_parse_opaque_x input = XOk h.
Proof. unfold host_parse_opaque. destruct (host_parse_opaque_x input); cbn [xr_result]; intros H; inversion H; reflexivity. Qed.

Lemma x_ok_host_parse idna input h : host_parse_x idna input = XOk h -> host_parse idna input = Ok h.
Proof. unfold host_parse. intros ->. reflexivity. Qed.

Lemma x_ok_host_parse_opaque input h : host_parse_opaque_x input = XOk h -> host_parse_opaque input = Ok h.
Proof. unfold host_parse_opaque. intros ->. reflexivity. Qed.
