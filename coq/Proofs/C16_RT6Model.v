(* Proofs/C16_RT6Model.v - the IPv6 round trip of origins with the host functions of the host MODEL
   (Model/Host.v: Host::parse with any IDNA function, Display for Host): the two premises of rt_bracket -
   the text is bracketed, Host::parse inverts Display (C09) - hold for every IPv6 address. *)
From RU Require Import Base.Prelude Base.Utf8 Gen.Tables Model.HostT Model.Host Model.UrlRecord Model.Parser Model.Origin
  Spec.WhatwgHost Proofs.C09_V6 Proofs.C09_Wf Proofs.C09_Host Proofs.C16_Conc Proofs.C16_Origin Proofs.ListN Proofs.C16_RT Proofs.C16_RT6 Proofs.C16_RTParsed.

Lemma lower_hex_v6c c : is_lower_hex c = true -> v6c c = true.
Proof. unfold is_lower_hex, is_digit, v6c. cbn [memb]. lia. Qed.

Lemma hex4_v6c v : v < 65536 -> forallb v6c (hex4 v) = true /\ (length (hex4 v) <= 4)%nat.
Proof.
  intros Hv. destruct (hex4_facts v Hv) as (H1 & H2 & _). split; [|exact H2].
  apply forallb_forall. intros x Hx. rewrite forallb_forall in H1. apply lower_hex_v6c. now apply H1.
Qed.

(* what Display writes between the brackets: lower-case hex digits and ':' - at most 7 characters per step *)
Lemma write_loop_chars fuel : forall segs cs ce i out, Forall (fun x => x < 65536) segs ->
  write_ipv6_loop fuel segs cs ce i = Some out -> forallb v6c out = true /\ (length out <= 7 * fuel)%nat.
Proof.
  induction fuel as [|f IH]; intros segs cs ce i out Hs H; cbn [write_ipv6_loop] in H.
  - destruct (8 <=? i)%Z; [|discriminate]. inversion H. split; [reflexivity|cbn; lia].
  - destruct (8 <=? i)%Z; [inversion H; split; [reflexivity|cbn; lia]|].
    cbv beta zeta in H.
    assert (Hpiece : forall j o,
      match nth_error segs (Z.to_nat j) with
      | None => None
      | Some v => match write_ipv6_loop f segs cs ce (j + 1)%Z with
                  | None => None
                  | Some rest => Some (hex4 v ++ (if (j <? 7)%Z then [58] else []) ++ rest)
                  end
      end = Some o -> forallb v6c o = true /\ (length o <= 5 + 7 * f)%nat).
    { intros j o Ho. destruct (nth_error segs (Z.to_nat j)) as [v|] eqn:En; [|discriminate].
      destruct (write_ipv6_loop f segs cs ce (j + 1)%Z) as [rest|] eqn:Er; [|discriminate]. inversion Ho; subst.
      apply IH in Er; [|exact Hs]. destruct Er as [R1 R2].
      assert (Hv : v < 65536) by (rewrite Forall_forall in Hs; apply Hs; eapply nth_error_In; eassumption).
      destruct (hex4_v6c v Hv) as [V1 V2].
      rewrite !forallb_app, !app_length, V1, R1. destruct (j <? 7)%Z; cbn [forallb andb length]; split; try reflexivity; lia. }
    destruct (i =? cs)%Z.
    + destruct (ce <? 8)%Z.
      * match type of H with match ?X with _ => _ end = _ => destruct X as [rest|] eqn:E end; [|discriminate].
        inversion H; subst. apply Hpiece in E. destruct E as [E1 E2].
        cbn [app forallb length]. destruct (i =? 0)%Z; cbn [app forallb length]; rewrite E1; split; try reflexivity; lia.
      * inversion H; subst. destruct (i =? 0)%Z; cbn [forallb length]; split; try reflexivity; lia.
    + apply Hpiece in H. destruct H as [E1 E2]. split; [exact E1|lia].
Qed.

Lemma write_ipv6_chars a : Forall (fun x => x < 65536) a ->
  forallb v6c (write_ipv6 a) = true /\ (length (write_ipv6 a) <= 63)%nat.
Proof.
  intros Ha. unfold write_ipv6, write_ipv6_o. destruct (longest_zero_sequence a) as [cs ce].
  destruct (write_ipv6_loop 9 a cs ce 0%Z) as [out|] eqn:E; [|split; [reflexivity|cbn; lia]].
  apply write_loop_chars in E; [|exact Ha]. exact E.
Qed.

Lemma decimal_rev_length fuel : forall n, (length (decimal_rev fuel n) <= fuel)%nat.
Proof.
  induction fuel as [|f IH]; intros n; cbn [decimal_rev length]; [lia|].
  destruct (n / 10 =? 0); [cbn [length]; lia|]. specialize (IH (n / 10)). lia.
Qed.

Lemma decimal_length n : (length (decimal n) <= 40)%nat.
Proof. unfold decimal. rewrite rev_length. apply decimal_rev_length. Qed.

Lemma five_length s : In s five_schemes -> (length s <= 5)%nat.
Proof. intros H. cbn [five_schemes In] in H. destruct H as [<-|[<-|[<-|[<-|[<-|[]]]]]]; cbn; lia. Qed.

Definition rt_ipv6_model_stmt : Prop :=
  forall dbg idna ho tu s a p,
    In s five_schemes -> p <= 65535 -> length a = 8%nat -> Forall (fun x => x < 65536) a ->
    let hp := Host.host_parse idna in
    let hd := Host.host_display in
    (exists w, url_parse dbg hp ho hd (ascii_serialization hd (Tuple s (HIpv6 a) p)) = POk w
               /\ forall f k, url_origin_fuel dbg hp ho hd f k w = OOk (Tuple s (HIpv6 a) p) k)
    /\ (exists w, url_parse dbg hp ho hd (unicode_serialization hd tu (Tuple s (HIpv6 a) p)) = POk w
                  /\ forall f k, url_origin_fuel dbg hp ho hd f k w = OOk (Tuple s (HIpv6 a) p) k).

Theorem rt_ipv6_model : rt_ipv6_model_stmt.
Proof.
  intros dbg idna ho tu s a p H5 Hp Hlen Ha hp hd.
  destruct (write_ipv6_chars a Ha) as [Hc Hl].
  assert (Hfmt : host_fmt hd (HIpv6 a) = 91 :: write_ipv6 a ++ [93]) by reflexivity.
  destruct (rt_bracket dbg hp ho hd tu s (HIpv6 a) p H5 Hp) as [R1 R2].
  - exists (write_ipv6 a). split; [exact Hfmt|exact Hc].
  - reflexivity.
  - unfold hp. apply x_ok_host_parse. apply (ipv6_display_rt idna a). split; assumption.
  - cbn [ascii_serialization]. rewrite tuple_serialization_eq, Hfmt.
    pose proof (five_length s H5) as L5. pose proof (decimal_length p) as Ld.
    unfold nlen, U32_MAX_P. rewrite app_length. cbn [length]. rewrite app_length. cbn [length]. rewrite app_length. cbn [length].
    assert (length (port_suffix s p) <= 41)%nat by (unfold port_suffix; destruct (opt_eqb _ _); cbn [length]; lia).
    lia.
  - split; [exact R1|]. apply R2. intros d. discriminate.
Qed.

(* non-vacuity of rt_bracket / rt_ipv6_model: [::1] and a full-length address *)
Example ipv6_texts :
  Host.host_display (HIpv6 [0; 0; 0; 0; 0; 0; 0; 1]) = [91; 58; 58; 49; 93]
  /\ ascii_serialization Host.host_display (Tuple s_https (HIpv6 [0; 0; 0; 0; 0; 0; 0; 1]) 8443)
     = [104; 116; 116; 112; 115; 58; 47; 47; 91; 58; 58; 49; 93; 58; 56; 52; 52; 51]
  /\ ascii_serialization Host.host_display (Tuple s_http (HIpv6 [8193; 3512; 0; 0; 1; 0; 0; 1]) 80)
     = [104; 116; 116; 112; 58; 47; 47; 91; 50; 48; 48; 49; 58; 100; 98; 56; 58; 58; 49; 58; 48; 58; 48; 58; 49; 93].
Proof. vm_compute. repeat split. Qed.

(* ---------- every host the host model returns ---------- *)
Lemma forbidden_plain_sweep :
  all_below 128 (fun c => Spec.forbidden_domain_code_point c || plainc c) = true.
Proof. vm_compute. reflexivity. Qed.

Lemma forbidden_plain c : c < 128 -> Spec.forbidden_domain_code_point c = false -> plainc c = true.
Proof.
  intros Hc Hf. pose proof (all_below_spec 128 _ forbidden_plain_sweep c Hc) as H. cbv beta in H.
  rewrite Hf in H. exact H.
Qed.

Lemma digit_dot_plain c : is_digit c = true \/ c = 46 -> plainc c = true.
Proof. unfold is_digit, plainc. cbn [memb]. lia. Qed.

Section ModelHosts.
Variable idna : list N -> option (list N).
Hypothesis OK : IdnaOK idna.

(* what Host::parse (host model, IDNA function satisfying IdnaOK) returns has a plain or a bracketed text,
   Display is host_fmt on it, and Host::parse reads the text back as the same host *)
Lemma model_host_text input h : Host.host_parse idna input = Ok h ->
  (plain_text (host_fmt Host.host_display h) \/ bracket_text (host_fmt Host.host_display h))
  /\ Host.host_display h = host_fmt Host.host_display h
  /\ Host.host_parse idna (host_fmt Host.host_display h) = Ok h.
Proof.
  intros H. pose proof (host_parse_ok_x _ _ _ H) as Hx.
  assert (Hfmt : Host.host_display h = host_fmt Host.host_display h) by (destruct h; reflexivity).
  split; [|split; [exact Hfmt|]].
  - destruct h as [d|a|ps].
    + left. cbn [host_fmt]. destruct (parse_domain idna input d Hx) as (_ & Hne & _). split; [exact Hne|].
      apply forallb_forall. intros c Hc. pose proof (domain_form idna OK input d Hx) as Hd.
      rewrite Forall_forall in Hd. destruct (Hd c Hc) as (H1 & _ & H3). now apply forbidden_plain.
    + left. cbn [host_fmt Host.host_display].
      assert (Ha : a < 4294967296).
      { unfold host_parse_x in Hx. destruct (Host.starts_with 91 input).
        { destruct (bracketed_ok _ _ Hx) as (x & Hx' & _). discriminate Hx'. }
        destruct (idna (PercentEncoding.decode (utf8_encode input))) as [dom|]; [|discriminate].
        destruct dom as [|c dom']; [discriminate|].
        destruct (ends_in_a_number (c :: dom')); [|discriminate].
        destruct (parse_ipv4addr (c :: dom')) as [x| | |] eqn:E; cbn [xr_map] in Hx; try discriminate.
        inversion Hx; subst. eapply parse_ipv4addr_bound. exact E. }
      destruct (ipv4_display_digits a Ha) as (Hd & Hn & _). split; [exact Hn|].
      apply forallb_forall. intros c Hc. rewrite Forall_forall in Hd. apply digit_dot_plain. now apply Hd.
    + right. cbn [host_fmt Host.host_display].
      assert (Hw : wf8 ps).
      { unfold host_parse_x in Hx. destruct (Host.starts_with 91 input).
        - destruct (bracketed_ok _ _ Hx) as (x & Hx' & Hw). inversion Hx'; subst. exact Hw.
        - destruct (idna (PercentEncoding.decode (utf8_encode input))) as [dom|]; [|discriminate].
          destruct dom as [|c dom']; [discriminate|].
          destruct (ends_in_a_number (c :: dom')); [|discriminate].
          destruct (parse_ipv4addr (c :: dom')); cbn [xr_map] in Hx; discriminate. }
      destruct Hw as [_ Hw]. exists (write_ipv6 ps). split; [reflexivity|]. exact (proj1 (write_ipv6_chars ps Hw)).
  - rewrite <- Hfmt. apply x_ok_host_parse. eapply special_display_rt; eassumption.
Qed.

End ModelHosts.

(* the ASCII round trip for every tuple whose host was returned by the host model's Host::parse *)
Definition rt_host_model_stmt : Prop :=
  forall dbg idna ho s h p input,
    IdnaOK idna -> Host.host_parse idna input = Ok h ->
    In s five_schemes -> p <= 65535 ->
    nlen (ascii_serialization Host.host_display (Tuple s h p)) < U32_MAX_P ->
    exists w, url_parse dbg (Host.host_parse idna) ho Host.host_display
                (ascii_serialization Host.host_display (Tuple s h p)) = POk w
              /\ forall f k, url_origin_fuel dbg (Host.host_parse idna) ho Host.host_display f k w
                             = OOk (Tuple s h p) k.

Theorem rt_host_model : rt_host_model_stmt.
Proof.
  intros dbg idna ho s h p input OK Hh H5 Hp HB.
  destruct (model_host_text idna OK input h Hh) as ([Hpl|Hbr] & Hfmt & Hrt).
  - exact (proj1 (rt_plain dbg (Host.host_parse idna) ho Host.host_display (fun d => d) s h p H5 Hp Hpl Hfmt Hrt HB)).
  - exact (proj1 (rt_bracket dbg (Host.host_parse idna) ho Host.host_display (fun d => d) s h p H5 Hp Hbr Hfmt Hrt HB)).
Qed.

(* ---------- origins of parse results, host model ---------- *)
(* the ASCII half of the round trip of the property, for the parser model with the host model: the origin o
   of ANY parse result, if a tuple, serializes to a text that parses to a URL whose origin is o *)
Definition rt_parsed_model_stmt : Prop :=
  forall dbg idna ho input u c o c',
    IdnaOK idna ->
    url_parse dbg (Host.host_parse idna) ho Host.host_display input = POk u ->
    url_origin dbg (Host.host_parse idna) ho Host.host_display c u = OOk o c' -> is_tuple o = true ->
    nlen (ascii_serialization Host.host_display o) < U32_MAX_P ->
    exists w, url_parse dbg (Host.host_parse idna) ho Host.host_display (ascii_serialization Host.host_display o) = POk w
              /\ url_origin dbg (Host.host_parse idna) ho Host.host_display c' w = OOk o c'.

Theorem rt_parsed_model : rt_parsed_model_stmt.
Proof.
  intros dbg idna ho input u c o c' OK Hu Ho Ht HB.
  apply (rt_parsed dbg (Host.host_parse idna) ho Host.host_display (fun d => eq_refl) input u c o c'); try assumption.
  intros t h Hh. exact (model_host_text idna OK t h Hh).
Qed.

(* IdnaOK is satisfiable: the identity on ASCII strings without denied characters *)
Definition clean_char (c : N) : bool := (c <? 128) && negb (memb c T_HOST_IDNA_DENIED).
Definition idna_clean (bs : list N) : option (list N) := if forallb clean_char bs then Some bs else None.

Lemma digit_dot_clean_sweep : all_below 128 (fun c => negb (is_digit c || (c =? 46)) || clean_char c) = true.
Proof. vm_compute. reflexivity. Qed.

Example idna_clean_ok : IdnaOK idna_clean.
Proof.
  constructor.
  - intros bs d H. unfold idna_clean in H. destruct (forallb clean_char bs) eqn:E; inversion H; subst.
    apply Forall_forall. intros c Hc. rewrite forallb_forall in E. apply E in Hc.
    unfold clean_char in Hc. unfold dom_char_ok. apply andb_true_iff in Hc. destruct Hc as [H1 H2].
    split; [lia|]. destruct (memb c T_HOST_IDNA_DENIED); [discriminate|reflexivity].
  - intros bs d H. unfold idna_clean in *. destruct (forallb clean_char bs) eqn:E; inversion H; subst. now rewrite E.
  - intros a Ha. unfold idna_clean. destruct (ipv4_display_digits a Ha) as (Hd & _).
    replace (forallb clean_char (ipv4_display a)) with true; [reflexivity|]. symmetry.
    apply forallb_forall. intros c Hc. rewrite Forall_forall in Hd. specialize (Hd c Hc).
    assert (c < 128) as L by (destruct Hd as [Hd| ->]; [unfold is_digit in Hd|]; lia).
    pose proof (all_below_spec 128 _ digit_dot_clean_sweep c L) as S. cbv beta in S.
    destruct Hd as [Hd| ->]; [rewrite Hd in S; exact S|exact S].
Qed.
