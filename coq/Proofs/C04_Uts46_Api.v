(* Proofs/C04_Uts46_Api.v - the deprecated Idna::to_ascii(domain, out) wrapper: the exact class of finding
   F-C04-13 (the DNS-length check and its debug assertion on ASCII are applied to the WHOLE of `out`), and the
   ASCII-ness of everything Uts46::to_ascii returns (from the C10 output theorem). *)
From RU Require Import Base.Prelude Base.Utf8 Base.U32_c13 Gen.Tables Model.Punycode Model.Uts46
  Proofs.Idna_Known Proofs.Idna_Hyp Proofs.Idna_C10_Inner Proofs.Idna_C10_Walk.

Lemma verify_pub_panic cfg t allow :
  is_panic (verify_dns_length_pub cfg t allow) = true <-> cfg = true /\ is_ascii_l t = false.
Proof.
  unfold verify_dns_length_pub. destruct cfg; cbn [andb].
  - destruct (is_ascii_l t); cbn [negb is_panic]; split; try discriminate; try tauto. intros [_ X]; discriminate.
  - cbn [is_panic]. split; [discriminate | intros [X _]; discriminate].
Qed.

Section Api.
Variable A : adapter.
Variable cfg : bool.

(* when the processing itself wrote its output (no panic, no error), Idna::to_ascii panics exactly when debug
   assertions are on, verify_dns_length is configured and the UTF-8 text of  out ++ written  is not ASCII *)
Theorem idna_to_ascii_wrote c domain out s x :
  process A cfg true never_unicode (utf8_encode (map_transitional domain (transitional_processing c)))
          (config_deny_list c) (config_hyphens c) None None false = (PWroteToSink, s, x) ->
  (is_panic (idna_to_ascii A cfg c domain out) = true
   <-> cfg = true /\ cfg_verify_dns_length c = true /\ is_ascii_l (utf8_encode (out ++ s)) = false).
Proof.
  intros E. unfold idna_to_ascii. cbv zeta. rewrite E.
  destruct (cfg_verify_dns_length c).
  - pose proof (verify_pub_panic cfg (utf8_encode (out ++ s)) true) as V.
    destruct (verify_dns_length_pub cfg (utf8_encode (out ++ s)) true) as [[|]| |p]; cbn [is_panic] in *.
    + split; [discriminate|]. intros (H1 & _ & H3). apply V. tauto.
    + split; [discriminate|]. intros (H1 & _ & H3). apply V. tauto.
    + split; [discriminate|]. intros (H1 & _ & H3). apply V. tauto.
    + split; [|reflexivity]. intros _. destruct (proj1 V eq_refl) as [H1 H2]. tauto.
  - cbn [is_panic]. split; [discriminate | intros (_ & X & _); discriminate].
Qed.

(* everything Uts46::to_ascii returns (the borrowed input or the owned output) is ASCII *)
Theorem to_ascii_returns_ascii d deny hy dns b r : NvNoTrunc A -> bytes d -> valid_deny deny ->
  to_ascii A cfg d deny hy dns = Ok (b, r) -> Forall (fun c => c < 128) r.
Proof.
  intros HN Hd Hv H. eapply Forall_impl; [|exact (to_ascii_output A cfg d deny hy dns b r HN Hd Hv H)].
  intros c Hc. exact (proj1 Hc).
Qed.
End Api.

(* finding F-C04-13: out = "é" (not ASCII), domain "éx", verify_dns_length(true) *)
Definition cfg_verify : config :=
  {| use_std3_ascii_rules := false; transitional_processing := false; cfg_verify_dns_length := true; cfg_check_hyphens := false |}.
Lemma c04_13_witness :
  idna_to_ascii toy true cfg_verify [233; 120] [233] = Panic 468
  /\ idna_to_ascii toy false cfg_verify [233; 120] [233] = Ok [233; 120; 110; 45; 45; 120; 45; 57; 102; 97]
  /\ idna_to_ascii toy true cfg_verify [233; 120] [] = Ok [120; 110; 45; 45; 120; 45; 57; 102; 97].
Proof. vm_compute. repeat split; reflexivity. Qed.
