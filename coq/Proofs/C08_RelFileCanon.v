(* Proofs/C08_RelFileCanon.v - the make_relative inverse law for canonical file records (C02's fifth form FileCanon) and
   for the records of C02's histories ReachC7:
     file_curl_hier      a canonical file record is  hier_url ("file://" host) 4 7 7 ..
     join_root_file      the reference "/" [?q][#f] against  file://host/name : the one-slash arm of parse_file copies
                         host_str of the base and builds the record of  file://host/
     FileCanon_same_host inside MR_ok two canonical file records have the same host
     relative_FileCanon  the law for two FileCanon records
     relative_CanonF     ... for two records each in one of the five canonical forms
     relative_reach7     ... for two records of ReachC7 histories *)
From Coq Require Import String.
From RU Require Import Base.Prelude Base.Utf8 Base.Utf8Facts Model.AsciiSet Gen.Tables Model.PercentEncoding
  Model.HostT Model.Host Model.UrlRecord Model.Parser Model.Setters Model.WF Model.MakeRelative Model.KnownC08
  Proofs.ListN Proofs.C14_Set Proofs.C14_Enc Proofs.C14_Views Proofs.C02_Enc Proofs.C02_Parts Proofs.C02_Opaque
  Proofs.C02_Path Proofs.C02_PathL1 Proofs.C02_PathSp Proofs.C02_SetQF Proofs.C02_Reach Proofs.C02_AuthParts
  Proofs.C02_Hist Proofs.C02_Canon Proofs.C02_SetHostCanon Proofs.C02_Reach4 Proofs.C02_Reach6 Proofs.C02_HistInst Proofs.C09_Host
  Proofs.C02_File Proofs.C02_FileCanon Proofs.C02_FileHost Proofs.C02_FileParse Proofs.C02_FileSet Proofs.C02_Reach8
  Proofs.C08_Input Proofs.C08_Simple Proofs.C08_Contain Proofs.C08_RelEval Proofs.C08_RelPath Proofs.C08_RelJoin
  Proofs.C08_RelMr Proofs.C08_RelLaw Proofs.C08_RelFile Proofs.C08_Reach.
Open Scope N_scope.
Open Scope list_scope.

Lemma qf_text_split_not_slash q f o r : inp_split_first (qf_text q f) = (o, r) ->
  match o with Some c => is_slash_or_bslash c | None => false end = false.
Proof.
  unfold inp_split_first, qf_text.
  destruct q as [x|]; [|destruct f as [y|]]; cbn [qf_qtext qf_ftext app].
  - rewrite inp_next_cons by reflexivity. intros H. inversion H. reflexivity.
  - rewrite inp_next_cons by reflexivity. intros H. inversion H. reflexivity.
  - cbn. intros H. inversion H. reflexivity.
Qed.

Lemma qf_text_not_wdl_segment q f : starts_with_wdl_segment (qf_text q f) = false.
Proof.
  unfold starts_with_wdl_segment, qf_text.
  destruct q as [x|]; [|destruct f as [y|]]; cbn [qf_qtext qf_ftext app].
  - rewrite inp_next_cons by reflexivity. destruct (inp_next (x ++ qf_ftext f)) as [[b r2]|]; reflexivity.
  - rewrite inp_next_cons by reflexivity. destruct (inp_next y) as [[b r2]|]; reflexivity.
  - reflexivity.
Qed.

Section RelFileCanon.
Variable dbg : bool.
Variable hp hpo : list N -> result host.
Variable hd : host -> list N.
Notation join b input := (parse_url dbg hp hpo hd None (Some b) input).
Notation front := (file_front hd).

Lemma file_curl_hier ho segs last q f :
  file_curl hd ho (path_text segs last) q f
  = hier_url (front ho) 4 7 7 (nlen (front ho)) (fhost_hi ho) None segs last q f.
Proof. reflexivity. Qed.

Lemma front_file ho : exists R, front ho = s_file ++ [58; 47; 47] ++ R.
Proof. exists (fhost_text hd ho). reflexivity. Qed.

(* what the one-slash arm of parse_file reads off a canonical base: "file://" host, its length, the host kind *)
Lemma one_slash_front ho segs last q f : fhost_ok hp hd ho ->
  match host_str (file_curl hd ho (path_text segs last) q f) with
  | Some (Some hs) => (s_file_css ++ hs, nlen (s_file_css ++ hs), hosti (file_curl hd ho (path_text segs last) q f))
  | _ => (s_file_css, 7, HI_None)
  end = (front ho, nlen (front ho), fhost_hi ho).
Proof.
  intros Kh. unfold host_str, has_host. destruct ho as [h|].
  - destruct Kh as (Hne & _). cbn [file_curl qf_url hosti fhost_hi].
    assert (match hi_of_host h with HI_None => false | _ => true end = true) as ->.
    { destruct h as [[|c d]| |]; try reflexivity. exfalso. apply Hne. reflexivity. }
    unfold u_slice, file_curl, qf_url. cbn [ser host_start host_end]. unfold file_pre, file_front. cbn [fhost_text].
    rewrite <- !app_assoc. rewrite nlen_app. change 7 with (nlen s_file_css). rewrite slice_mid. cbn [bindo]. rewrite ?nlen_app. reflexivity.
  - cbn [file_curl qf_url hosti fhost_hi]. unfold file_front. cbn [fhost_text]. rewrite app_nil_r. reflexivity.
Qed.

(* "/" [?q][#f] against  file://host/name  gives  file://host/ [?q][#f] *)
Theorem join_root_file ho blast bq bf tq tf :
  fhost_ok hp hd ho -> no_slash blast = true -> is_normalized_wdl blast = false ->
  opt_clean T_SPECIAL_QUERY tq -> opt_clean T_FRAGMENT tf ->
  let P := front ho ++ [47] in
  opt_le (qf_qs (nlen P) tq) U32_MAX_P -> opt_le (qf_fs (nlen P) tq tf) U32_MAX_P ->
  join (file_curl hd ho (path_text [] blast) bq bf) (47 :: qf_text tq tf)
  = POk (file_curl hd ho (path_text [] []) tq tf).
Proof.
  intros Kh Hbl Hnw Hq Hf P Bq Bf.
  set (b := file_curl hd ho (path_text [] blast) bq bf).
  assert (forallb above_space (47 :: qf_text tq tf) = true) as Habove.
  { cbn [forallb]. rewrite (sqf_above tq tf Hq Hf). reflexivity. }
  unfold parse_url. rewrite trim_c0_id by (apply all_above_edge; exact Habove).
  rewrite parse_scheme_first_not_alpha by (rewrite above_ntnl by exact Habove; reflexivity).
  assert (inp_next (47 :: qf_text tq tf) = Some (47, qf_text tq tf)) as En by (apply inp_next_cons; reflexivity).
  unfold inp_starts_with_char. rewrite En. replace (47 =? 35) with false by reflexivity.
  unfold b. rewrite file_curl_cbb.
  assert (b_scheme (file_curl hd ho (path_text [] blast) bq bf) = s_file) as Hsch.
  { rewrite file_curl_hier. rewrite hier_b_scheme by (left; exists s_file, (fhost_text hd ho); split; reflexivity). reflexivity. }
  rewrite Hsch. change (scheme_type_of s_file) with STFile. cbn [st_is_file].
  unfold parse_file. unfold inp_split_first at 1. rewrite En.
  change (is_slash_or_bslash 47) with true. cbv iota.
  destruct (inp_split_first (qf_text tq tf)) as [nc an] eqn:E2. rewrite (qf_text_split_not_slash _ _ _ _ E2).
  rewrite qf_text_not_wdl_segment. cbn [negb].
  assert (base_first_segment (file_curl hd ho (path_text [] blast) bq bf) = Some blast) as Hfs.
  { unfold base_first_segment. rewrite file_curl_hier, hier_path. unfold path_text. cbn [segs_text map concat app].
    pose proof (split_on_aux_segs [] blast eq_refl Hbl) as E. cbn [segs_text map concat app] in E.
    unfold split_on. rewrite E. reflexivity. }
  rewrite Hfs. rewrite Hnw. rewrite (one_slash_front ho [] blast bq bf Kh).
  (* the path state on "/" *)
  unfold parse_path. rewrite floop_slash. cbn [push_pending].
  rewrite (finish_plain_f dbg (front ho) (front ho ++ [47]) (nlen (front ho)) true false []); try reflexivity.
  2:{ rewrite nlen_app. replace (nlen (front ho) + nlen [47] - 1) with (nlen (front ho) + nlen (@nil N)) by (unfold nlen; cbn [length]; lia).
      rewrite <- (app_nil_r (front ho ++ [47])). rewrite <- app_assoc. change ([47] ++ []) with ([] ++ [47] : list N). apply slice_mid. }
  cbn [pbind].
  pose proof (file_path_host dbg (front ho) [] [] tq tf false eq_refl eq_refl I) as HP.
  unfold parse_path in HP. cbn [segs_text map concat app] in HP. rewrite HP. cbn [pbind].
  rewrite pqf_canon; [| reflexivity | exact Hq | exact Hf | exact Bq | exact Bf].
  cbn [pbind]. reflexivity.
Qed.

(* ---------- two canonical file records inside MR_ok ---------- *)
Lemma FileCanon_same_host hob hot bsegs blast bq bf tsegs tlast tq tf :
  fhost_ok hp hd hob -> fhost_ok hp hd hot ->
  mr_ok (file_curl hd hob (path_text bsegs blast) bq bf) (file_curl hd hot (path_text tsegs tlast) tq tf) = true ->
  hob = hot.
Proof.
  intros Kb Kt H. unfold mr_ok, mr_class in H. rewrite !file_curl_cbb in H.
  rewrite !file_curl_hier in H. rewrite !hier_path in H.
  change (path_start (hier_url (front hob) 4 7 7 (nlen (front hob)) (fhost_hi hob) None bsegs blast bq bf)) with (nlen (front hob)) in H.
  change (path_start (hier_url (front hot) 4 7 7 (nlen (front hot)) (fhost_hi hot) None tsegs tlast tq tf)) with (nlen (front hot)) in H.
  rewrite !hier_pre_of in H.
  destruct (list_eqb (front hob) (front hot)) eqn:E; [|cbn [negb] in H; discriminate H].
  apply list_eqb_spec in E. unfold file_front in E. apply app_inv_head in E.
  destruct hob as [hb|]; destruct hot as [ht|]; cbn [fhost_text] in E.
  - destruct Kb as (_ & _ & _ & Pb & _). destruct Kt as (_ & _ & _ & Pt & _). rewrite E in Pb. rewrite Pb in Pt.
    inversion Pt. reflexivity.
  - exfalso. destruct Kb as (_ & _ & (_ & Hn & _) & _). apply Hn. exact E.
  - exfalso. destruct Kt as (_ & _ & (_ & Hn & _) & _). apply Hn. symmetry. exact E.
  - reflexivity.
Qed.

Theorem relative_FileCanon b t r : FileCanon hp hd b -> FileCanon hp hd t ->
  mr_ok b t = true -> make_relative dbg b t = Some (Some r) ->
  join b r = POk t.
Proof.
  intros [hob bsegs blast bq bf Kb] [hot tsegs tlast tq tf Kt] Hok Hmr.
  pose proof (FileCanon_same_host hob hot bsegs blast bq bf tsegs tlast tq tf (fk_host _ _ _ _ _ _ _ Kb) (fk_host _ _ _ _ _ _ _ Kt) Hok) as Eh.
  subst hot. rename hob into ho.
  destruct Kb as [Kbh Kbsegs Kblast _ _ _ _ _ _]. destruct Kt as [Kth Ktsegs Ktlast Ktfirst Ktq Ktf Kt1 Ktbq Ktbf].
  rewrite !file_curl_hier in *.
  apply (relative_file_hier dbg hp hpo hd (front ho) 7 7 (nlen (front ho)) (fhost_hi ho) None bsegs blast bq bf tsegs tlast tq tf r);
    try assumption.
  - constructor; try assumption.
    + apply front_file.
    + apply fsegs_no_slash. exact Kbsegs.
    + exact (proj1 (proj2 (good_seg_sp_parts blast (fseg_ok_sp blast Kblast)))).
  - intros -> -> -> Hne. rewrite <- !file_curl_hier.
    apply join_root_file; try assumption.
    + exact (proj1 (proj2 (good_seg_sp_parts blast (fseg_ok_sp blast Kblast)))).
    + apply nwdl_of_not_wdl. pose proof (fseg_ok_like blast Kblast) as Hl.
      destruct blast as [|a [|c0 r0]]; try reflexivity. cbn [starts_with_wdl]. unfold wdl_like in Hl. rewrite Hl. reflexivity.
Qed.
End RelFileCanon.

(* ---------- records of the five canonical forms, records of ReachC7 histories ---------- *)
Section Reach7.
Variable dbg : bool.
Variable hp hpo : list N -> result host.
Variable hd : host -> list N.
Hypothesis HOK : HostOK2 hp hpo hd.

Lemma make_relative_same_scheme b t r : make_relative dbg b t = Some (Some r) -> is_file b = is_file t.
Proof.
  intros H. unfold make_relative in H.
  destruct (cannot_be_a_base b) as [cb|]; cbn [bindo] in H; [|discriminate].
  destruct (if cb then Some true else cannot_be_a_base t) as [ct|]; cbn [bindo] in H; [|discriminate].
  destruct (cb || ct); [discriminate|].
  destruct (scheme b) as [sb|] eqn:Eb; cbn [bindo] in H; [|discriminate].
  destruct (scheme t) as [st|] eqn:Et; cbn [bindo] in H; [|discriminate].
  destruct (list_eqb sb st) eqn:El; cbn [negb] in H; [|discriminate].
  apply list_eqb_spec in El. subst st.
  unfold scheme, u_slice_to in Eb, Et. unfold is_file, scheme_of.
  unfold slice_to_o in Eb, Et.
  destruct (scheme_end b <=? nlen (ser b)); [|discriminate]. destruct (scheme_end t <=? nlen (ser t)); [|discriminate].
  inversion Eb as [H1]. inversion Et as [H2]. rewrite H1, H2. reflexivity.
Qed.

Theorem relative_CanonF b t r : CanonF hp hpo hd b -> CanonF hp hpo hd t ->
  mr_ok b t = true -> make_relative dbg b t = Some (Some r) ->
  parse_url dbg hp hpo hd None (Some b) r = POk t.
Proof using HOK.
  intros Cb Ct Hok Hmr. pose proof (make_relative_same_scheme b t r Hmr) as Es.
  destruct Cb as [Cb|Cb]; destruct Ct as [Ct|Ct].
  - exact (relative_Canon dbg hp hpo hd HOK b t r Cb Ct Hok Hmr).
  - exfalso. rewrite (Canon_not_file hp hpo hd b Cb), (FileCanon_is_file hp hd t Ct) in Es. discriminate Es.
  - exfalso. rewrite (Canon_not_file hp hpo hd t Ct), (FileCanon_is_file hp hd b Cb) in Es. discriminate Es.
  - exact (relative_FileCanon dbg hp hpo hd b t r Cb Ct Hok Hmr).
Qed.

Hypothesis HNE : host_nonempty hp hpo.
Hypothesis HW : host_no_wdl hp hd.

Theorem relative_reach7 b t r : ReachC7 dbg hp hpo hd b -> ReachC7 dbg hp hpo hd t ->
  mr_ok b t = true -> make_relative dbg b t = Some (Some r) ->
  parse_url dbg hp hpo hd None (Some b) r = POk t.
Proof using HOK HNE HW.
  intros Rb Rt. exact (relative_CanonF b t r (ReachC7_CanonF dbg hp hpo hd HOK HNE HW b Rb) (ReachC7_CanonF dbg hp hpo hd HOK HNE HW t Rt)).
Qed.
End Reach7.

Theorem relative_reach7_model dbg idna : IdnaOK idna -> forall b t r,
  ReachC7 dbg (host_parse idna) host_parse_opaque host_display b ->
  ReachC7 dbg (host_parse idna) host_parse_opaque host_display t ->
  mr_ok b t = true -> make_relative dbg b t = Some (Some r) ->
  parse_url dbg (host_parse idna) host_parse_opaque host_display None (Some b) r = POk t.
Proof.
  intros OK b t r.
  exact (relative_reach7 dbg _ _ _ (HostOK2_model idna OK) (host_nonempty_model idna) (host_no_wdl_model idna OK) b t r).
Qed.

(* ---------- non-vacuity on the host model (idna_clean) ---------- *)
(* base and target file records of ReachC7 histories (parse results of the three entries of parse_file, a setter), inside
   MR_ok; the reference make_relative answers; its resolution is the target *)
Definition mf_case (ob ot : option url) (rs : string) : bool :=
  match ob, ot with
  | Some b, Some t =>
      is_file b && is_file t && negb (Known_file_drive b) && negb (Known_file_drive t) && mr_ok b t
      && match make_relative true b t with
         | Some (Some r) => list_eqb r (B rs)
                            && match C08_Reach.m_join b r with POk v => url_eqb v t | _ => false end
         | _ => false
         end
  | _, _ => false
  end.

Example rel_reach7_example :
  mf_case (m_parse "file:///tmp/a") (m_parse "file:///tmp/b/c/") "b/c/" = true
  /\ mf_case (m_parse "file://h.x/a/b/c?bq") (m_parse "file://h.x/a/d/e#f") "../d/e#f" = true
  /\ mf_case (m_parse "file://h.x/a/b") (m_hist "file://h.x/a/b" [OSetQuery (Some (B "k v"))]) "?k%20v" = true
  /\ mf_case (m_parse "file://h.x/f?q") (m_parse "file://h.x/") "/" = true
  /\ mf_case (m_parse "file:/x/y/z") (m_parse "file:x") "../../x" = true
  /\ mf_case (m_parse "file://localhost/a/b#x") (m_parse "file:///a/b") "" = true.
Proof. vm_compute. repeat split. Qed.
