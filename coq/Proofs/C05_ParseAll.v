(* Proofs/C05_ParseAll.v - the file states, the top level, and the component invariant CInv for EVERY parse
   result.
     parse_url_up   : up_ok (userinfo + path clauses) for every record parse_url returns - any input numbers,
                      any encoding override, any host functions; the base is base_ok (well-formed, and not
                      cannot-be-a-base if its scheme is special) and satisfies up_ok;
     parse_url_cinv : CInv for every record parse_url returns, from a base with CInv /\ base_ok, under the
                      host hypothesis HostWf of C03 (needed for wf_b, not for the clauses);
     parse_url_base_ok : the result is again a possible base. *)
From RU Require Import Base.Prelude Base.Utf8 Model.AsciiSet Gen.Tables Model.PercentEncoding
  Model.HostT Model.UrlRecord Model.Parser Model.Setters Model.WF
  Proofs.ListN Proofs.C06_List Proofs.C02_Parts Proofs.C03_WF Proofs.C06_WFI Proofs.C06_Tail Proofs.C06_Steps
  Proofs.C06_Suffix Proofs.C06_PathParser Proofs.C06_FragQuery Proofs.C04_Parse Proofs.C04_PathTotal Proofs.C04_ParseTotal
  Proofs.C03_ReachParts Proofs.C03_Reach Proofs.C03_ReachFile
  Proofs.C05_Enc Proofs.C05_Parser Proofs.C05_Setters Proofs.C05_History Proofs.C05_Sharp Proofs.C05_Frag Proofs.C05_Query
  Proofs.C05_Comp Proofs.C05_PathClean Proofs.C05_CompSteps Proofs.C05_QueryFree Proofs.C05_ParseUI Proofs.C05_ParseArms.

(* ---------- the query clause of a well-formed record, in the form the query chain uses ---------- *)
Lemma wf_query_okuF dbg u : wf_b u = true -> (forall q, query dbg u = Some (Some q) -> free D_QUERY q) -> query_okuF u.
Proof.
  intros W Hq. unfold query_okuF, query_okF. destruct (query_start u) as [q|] eqn:Eq; [|exact I].
  pose proof (wf_qf_facts u W) as QF. pose proof (qf_q QF) as Q1. pose proof (qf_f QF) as Q2. pose proof (qf_qf QF) as Q3.
  rewrite Eq in Q1, Q3. destruct Q1 as (Q1a & Q1b & Q1c). apply byte_eqb_nnth in Q1b.
  set (e := match fragment_start u with Some f => f | None => nlen (ser u) end).
  assert (q + 1 <= e /\ e <= nlen (ser u)) as [He1 He2].
  { subst e. destruct (fragment_start u) as [f|]; lia. }
  set (tq := nfirstn (e - (q + 1)) (nskipn (q + 1) (ser u))).
  assert (nlen tq = e - (q + 1)) as Ltq by (subst tq; apply nlen_nfirstn; rewrite nlen_nskipn; lia).
  exists (nfirstn q (ser u)), tq, (nskipn (e - (q + 1)) (nskipn (q + 1) (ser u))).
  split; [|split; [symmetry; apply nlen_nfirstn; lia|split]].
  - cbn [app]. subst tq. rewrite nfirstn_nskipn. rewrite <- (nskipn_cons_of_nnth _ _ _ Q1b). symmetry. apply nfirstn_nskipn.
  - apply Hq. rewrite (query_eval dbg u W), Eq. unfold piece. cbn [pidx]. rewrite Eq. reflexivity.
  - rewrite (nlen_nfirstn q) by lia. destruct (fragment_start u) as [f|]; [subst e; lia|].
    apply nskipn_all. rewrite nlen_nskipn. subst e. lia.
Qed.

(* ---------- the file states ---------- *)
Lemma file_tail_up ovr st s he hi rem s4 qs fs :
  parse_query_and_fragment ovr CUrlParser st 4 s rem = POk (s4, qs, fs) ->
  he <= nlen s -> path_raw (nskipn he s) -> up_ok (file_url s4 7 he hi qs fs).
Proof.
  intros H L P. unfold file_url. apply (pqf_up ovr st 4 s rem s4 qs fs 4 7 7 he hi None he H L); [|exact P].
  intros t. apply ui_raw_trivial; lia.
Qed.

Lemma pq_split_raw s0 s' he : (exists P, s' = s0 ++ P /\ forallb pq P = true) -> he = nlen s0 ->
  he <= nlen s' /\ path_raw (nskipn he s').
Proof.
  intros (P & -> & HP) ->. split; [rewrite nlen_app; lia|]. rewrite nskipn_app_exact. apply path_raw_pq. exact HP.
Qed.

Lemma file_fresh_up dbg ovr st hh l u :
  (' (s2, _, rem) <~ parse_path dbg CUrlParser STFile hh 7 (s_file_css ++ [47]) l ;;
   ' (s3, qs, fs) <~ parse_query_and_fragment ovr CUrlParser st 4 s2 rem ;;
   POk (file_url s3 7 7 HI_None qs fs)) = POk u -> up_ok u.
Proof.
  intros H. pb H a Ha. destruct a as [[s2 h2] rem]. pb H c Hc. destruct c as [[s3 qs] fs]. inversion H; subst u.
  assert (PInvQ 7 s_file_css (s_file_css ++ [47])) as I1.
  { apply pinvq_app; [reflexivity | exact (pinvq_start s_file_css) | reflexivity]. }
  pose proof (pinvq_parse_path dbg 7 s_file_css eq_refl _ _ _ _ _ _ _ _ Ha I1) as I2.
  apply (file_tail_up ovr st s2 7 HI_None rem s3 qs fs Hc); [exact (pinvq_len 7 s_file_css eq_refl s2 I2) | exact (pinvq_raw _ _ _ I2)].
Qed.

Lemma normalized_wdl_form seg : is_normalized_wdl seg = true -> exists a, seg = [a; 58] /\ is_alpha a = true.
Proof.
  intros Ew. unfold is_normalized_wdl, is_wdl, starts_with_wdl in Ew. destruct seg as [|a [|b [|c r]]]; try discriminate.
  apply andb_true_iff in Ew. destruct Ew as [Ew Eb]. apply N.eqb_eq in Eb. subst b.
  exists a. split; [reflexivity|]. cbn in Ew. rewrite andb_true_r in Ew. apply andb_true_iff in Ew. tauto.
Qed.

Section All.
Variable dbg : bool.
Variable hp hpo : list N -> result host.
Variable hd : host -> list N.
Variable ovr : option (list N -> list N).

Lemma pfh_pre ser l ser1 flag hi rem : parse_file_host hp hd ser l = POk (ser1, flag, hi, rem) -> exists t, ser1 = ser ++ t.
Proof.
  unfold parse_file_host. destruct (file_host l) as [t rm].
  destruct t as [|c t']; [intros H; inversion H; subst; exists []; rewrite app_nil_r; reflexivity|].
  intros H. pb H h Hh.
  assert (POk (ser ++ hd h, true, hi_of_host h, rm) = POk (ser1, flag, hi, rem) -> exists t, ser1 = ser ++ t) as Hgen.
  { intros X. inversion X; subst. eexists. reflexivity. }
  destruct h as [d|a|p]; [|exact (Hgen H)|exact (Hgen H)].
  destruct (list_eqb d s_localhost); [|exact (Hgen H)].
  inversion H; subst. exists []. rewrite app_nil_r. reflexivity.
Qed.

Definition base_up (b : url) : Prop :=
  wf_b b = true /\ up_ok b /\ nnth (ser b) (scheme_end b + 1) = Some 47.

Theorem parse_file_up st base_file l u :
  match base_file with Some b => base_up b | None => True end ->
  parse_file dbg hp hd ovr CUrlParser st base_file l = POk u -> up_ok u.
Proof.
  intros Hb. unfold parse_file. destruct (inp_split_first l) as [first_char after_first] eqn:Esf.
  destruct (match first_char with Some c => is_slash_or_bslash c | None => false end) eqn:Efs.
  - destruct (inp_split_first after_first) as [next_char after_next].
    destruct (match next_char with Some c => is_slash_or_bslash c | None => false end).
    + (* "//" : file host *)
      intros H. pb H a Ha. destruct a as [[[ser1 flag] hi] remaining]. destruct (pfh_pre _ _ _ _ _ _ Ha) as (t & ->).
      pb H he Hhe. apply to_u32_eq in Hhe. subst he. cbv zeta in H.
      pb H b Hb2. destruct b as [[ser2 hh] rem2].
      assert (exists P, ser2 = (s_file_css ++ t) ++ P /\ forallb pq P = true) as HP.
      { destruct flag.
        - exact (parse_path_start_clean dbg CUrlParser STFile _ _ _ _ _ _ Hb2).
        - apply pinvq_split.
          assert (PInvQ (nlen (s_file_css ++ t)) (s_file_css ++ t) ((s_file_css ++ t) ++ [47])) as I1
            by (apply pinvq_app; [reflexivity | apply pinvq_start | reflexivity]).
          exact (pinvq_parse_path dbg _ _ eq_refl _ _ _ _ _ _ _ _ Hb2 I1). }
      destruct (pq_split_raw _ _ _ HP eq_refl) as [L2 P2].
      destruct (negb hh); cbv beta iota zeta in H; pb H c Hc; destruct c as [[ser4 qs] fs]; inversion H; subst u.
      * apply (file_tail_up ovr st _ 7 HI_None rem2 ser4 qs fs Hc).
        -- rewrite nlen_app. rewrite nlen_nfirstn by (rewrite nlen_app in L2; change (nlen s_file_css) with 7 in L2; lia). lia.
        -- assert (nlen (nfirstn 7 ser2) = 7) as L7
             by (apply nlen_nfirstn; rewrite nlen_app in L2; change (nlen s_file_css) with 7 in L2; lia).
           rewrite <- L7 at 1. rewrite nskipn_app_exact. exact P2.
      * exact (file_tail_up ovr st _ _ hi rem2 ser4 qs fs Hc L2 P2).
    + (* a single slash *)
      set (T := if negb (starts_with_wdl_segment after_first)
                then match base_file with
                     | Some base =>
                         match base_first_segment base with
                         | Some seg =>
                             if is_normalized_wdl seg then (s_file_css ++ [47] ++ seg, 7, HI_None)
                             else match host_str base with
                                  | Some (Some hs) => (s_file_css ++ hs, nlen (s_file_css ++ hs), hosti base)
                                  | _ => (s_file_css, 7, HI_None)
                                  end
                         | None => (s_file_css, 7, HI_None)
                         end
                     | None => (s_file_css, 7, HI_None)
                     end
                else (s_file_css, 7, HI_None)).
      assert (let '(ser1, he, hi) := T in he <= nlen ser1 /\ forallb pq (nskipn he ser1) = true) as HT.
      { assert (7 <= nlen s_file_css /\ forallb pq (nskipn 7 s_file_css) = true) as Hplain by (split; [vm_compute; discriminate | reflexivity]).
        subst T. destruct (negb (starts_with_wdl_segment after_first)); [|exact Hplain].
        destruct base_file as [base|]; [|exact Hplain].
        destruct (base_first_segment base) as [seg|]; [|exact Hplain].
        destruct (is_normalized_wdl seg) eqn:Ew.
        - destruct (normalized_wdl_form seg Ew) as (a & -> & Ha). split; [vm_compute; discriminate|].
          replace 7 with (nlen s_file_css) by reflexivity. rewrite nskipn_app_exact. cbn [app forallb].
          rewrite (pq_alpha a Ha). reflexivity.
        - destruct (host_str base) as [[hs|]|]; try exact Hplain.
          split; [lia|]. rewrite nskipn_all by lia. reflexivity. }
      destruct T as [[ser1 he] hi]. destruct HT as [Hle Hq].
      intros H. pb H a Ha. destruct a as [[ser2 hh] remaining]. pb H c Hc. destruct c as [[ser3 qs] fs]. inversion H; subst u.
      assert (nlen (nfirstn he ser1) = he) as Lp by (apply nlen_nfirstn; exact Hle).
      assert (PInvQ he (nfirstn he ser1) ser1) as I1 by (split; [reflexivity | exact Hq]).
      pose proof (pinvq_parse_path dbg he _ Lp _ _ _ _ _ _ _ _ Ha I1) as I2.
      apply (file_tail_up ovr st ser2 he hi remaining ser3 qs fs Hc); [exact (pinvq_len he _ Lp ser2 I2) | exact (pinvq_raw _ _ _ I2)].
  - destruct base_file as [base|]; [|apply file_fresh_up].
    destruct Hb as (Wb & Ub & Sb).
    destruct first_char as [c|].
    2:{ intros H. inversion H; subst u. apply cut_fragment_up; assumption. }
    destruct (c =? 63).
    { intros H. pb H a Ha. destruct a as [[s qs] fs]. inversion H; subst u. eapply query_ref_up; eassumption. }
    destruct (c =? 35); [apply fragment_only_up; assumption|].
    destruct (negb (starts_with_wdl_segment l)); [|apply file_fresh_up].
    intros H. pb H s1 Hs1. pb H a Ha. destruct a as [[s2 hh] rem].
    pose proof (path_start_le_len base Wb) as PL.
    assert (nlen (nfirstn (path_start base) (ser base)) = path_start base) as Lp by (apply nlen_nfirstn; exact PL).
    pose proof (pinvq_shorten_path _ _ Lp _ _ _ Hs1 (bq_pinvq base Wb Ub Sb)) as I1.
    pose proof (pinvq_parse_path dbg _ _ Lp _ _ _ _ _ _ _ _ Ha I1) as I2.
    eapply base_path_up; eassumption.
Qed.

(* ---------- top level ---------- *)
Definition base_c (b : url) : Prop := base_ok b = true /\ up_ok b.

Lemma base_c_wf b : base_c b -> wf_b b = true.
Proof. intros [H _]. unfold base_ok in H. apply andb_true_iff in H. tauto. Qed.

Lemma base_c_up b : base_c b -> st_is_special (scheme_type_of (b_scheme b)) = true -> base_up b.
Proof.
  intros [H U] Hs. unfold base_ok in H. apply andb_true_iff in H. destruct H as [W H]. rewrite Hs in H. cbn [negb orb] in H.
  split; [exact W|]. split; [exact U | apply byte_eqb_nnth; exact H].
Qed.

Theorem parse_with_scheme_up base sch l u :
  match base with Some b => base_c b | None => True end ->
  parse_with_scheme dbg hp hpo hd ovr base sch l = POk u -> up_ok u.
Proof.
  intros Hb. unfold parse_with_scheme. intros H. pb H se Hse. apply to_u32_eq in Hse. subst se. cbv zeta in H.
  assert (nlen (sch ++ [58]) = nlen sch + 1) as L0 by (rewrite nlen_app; reflexivity).
  pose proof (nnth_last sch 58) as H58.
  destruct (scheme_type_of sch) eqn:Est.
  - eapply parse_file_up; [|exact H].
    destruct base as [b|]; [|exact I]. destruct (list_eqb (b_scheme b) s_file) eqn:Eb; [|exact I].
    apply base_c_up; [exact Hb|]. apply list_eqb_spec in Eb. rewrite Eb. reflexivity.
  - destruct (inp_count_matching is_slash_or_bslash l) as [slashes remaining].
    destruct base as [b|]; [|eapply ads_up; eassumption].
    destruct ((slashes <? 2) && list_eqb (b_scheme b) sch) eqn:Ec; [|eapply ads_up; eassumption].
    apply andb_true_iff in Ec. destruct Ec as [_ Ec]. apply list_eqb_spec in Ec.
    pb H x Hx. destruct (base_c_up b Hb ltac:(rewrite Ec, Est; reflexivity)) as (W & U & S).
    eapply parse_relative_up; eassumption.
  - eapply parse_non_special_up; eassumption.
Qed.

Theorem parse_url_up base input u :
  match base with Some b => base_c b | None => True end ->
  parse_url dbg hp hpo hd ovr base input = POk u -> up_ok u.
Proof.
  intros Hb. unfold parse_url. cbv zeta.
  destruct (parse_scheme CUrlParser (input_new_trim_c0 input)) as [[sch rem]|].
  - apply parse_with_scheme_up. exact Hb.
  - destruct base as [b|]; [|discriminate]. pose proof (base_c_wf b Hb) as W.
    destruct (inp_starts_with_char 35 (input_new_trim_c0 input)); [apply fragment_only_up; [exact W | exact (proj2 Hb)]|].
    rewrite (cannot_be_a_base_eval b W).
    destruct (byte_eqb (ser b) (scheme_end b + 1) 47) eqn:Eb; cbn [negb]; [|discriminate].
    apply byte_eqb_nnth in Eb.
    destruct (st_is_file (scheme_type_of (b_scheme b))).
    + apply (parse_file_up _ (Some b)). split; [exact W|]. split; [exact (proj2 Hb) | exact Eb].
    + apply parse_relative_up; [exact W | exact (proj2 Hb) | exact Eb].
Qed.

End All.

(* ---------- CInv for every parse result ---------- *)
Theorem parse_url_cinv dbg dbg' hp hpo hd ovr base input u : HostWf hp hpo hd ->
  match base with Some b => CInv dbg' b /\ base_ok b = true | None => True end ->
  parse_url dbg hp hpo hd ovr base input = POk u -> CInv dbg' u.
Proof.
  intros HW Hb Hp.
  assert (wf_b u = true /\ host_text_ok u) as [W HT].
  { apply (parse_url_wf_all dbg hp hpo hd ovr HW base input u); [|exact Hp].
    destruct base as [b|]; [|exact I]. destruct Hb as [[[Wb Tb] _] Bb]. split; assumption. }
  split; [split; assumption|].
  apply (up_comp dbg' u W).
  - apply (parse_url_up dbg hp hpo hd ovr base input u); [|exact Hp].
    destruct base as [b|]; [|exact I]. destruct Hb as [[[Wb Tb] Cb] Bb]. split; [exact Bb | exact (comp_up dbg' b Wb Cb)].
  - intros q Hq. apply (query_oku_queryF dbg' u q); [|exact Hq].
    apply (parse_url_queryF dbg hp hpo hd ovr base input u); [|exact Hp].
    destruct base as [b|]; [|exact I]. destruct Hb as [[[Wb Tb] (_ & _ & _ & Qb & _)] Bb]. exact (wf_query_okuF dbg' b Wb Qb).
  - intros f Hf. apply comp_clean_free.
    exact (frag_oku_fragment dbg' u f (parse_url_frag dbg hp hpo hd ovr base input u Hp) Hf).
Qed.
