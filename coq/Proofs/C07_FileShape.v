(* Proofs/C07_FileShape.v - the layout of every record Parser::parse_file returns without a file base:
   "file://" in front, scheme_end = 4, username_end = host_start = 7, no port.  (Proofs/C03_ReachFile.v proves
   wf_b and the host text facts of these records; here the fields that the C07 bridge related => corrS needs for
   file records: no credentials, no port, "//" present, scheme "file".) *)
From RU Require Import Base.Prelude Base.Utf8 Model.AsciiSet Gen.Tables Model.PercentEncoding
  Model.HostT Model.UrlRecord Model.Parser Model.Setters Model.WF
  Proofs.ListN Proofs.C06_List Proofs.C02_Parts Proofs.C03_WF Proofs.C06_WFI Proofs.C06_Tail Proofs.C06_Steps
  Proofs.C06_Suffix Proofs.C06_PathParser Proofs.C06_FragQuery Proofs.C04_Parse Proofs.C04_PathTotal Proofs.C04_ParseTotal
  Proofs.C03_ReachParts Proofs.C03_Reach Proofs.C03_ReachFile
  Proofs.C05_Enc Proofs.C05_Parser Proofs.C05_Frag Proofs.C05_PathClean Proofs.C05_ParseUI Proofs.C05_ParseArms Proofs.C05_ParseAll
  Proofs.C05_BaseOk.

(* a record "file://..." as parse_file builds it *)
Definition file_shaped (u : url) : Prop :=
  scheme_end u = 4 /\ username_end u = 7 /\ host_start u = 7 /\ port u = None /\ nfirstn 7 (ser u) = s_file_css.

Section FileShape.
Variable dbg : bool.
Variable hp : list N -> result host.
Variable hd : host -> list N.
Variable ovr : option (list N -> list N).

Lemma css7_len s : nfirstn 7 s = s_file_css -> 7 <= nlen s.
Proof.
  intros H. destruct (N.le_gt_cases 7 (nlen s)) as [L|L]; [exact L|]. exfalso.
  assert (nlen (nfirstn 7 s) = 7) as K by (rewrite H; reflexivity).
  rewrite nfirstn_all in K by lia. lia.
Qed.

Lemma file_tail_shaped st s he hi rem s4 qs fs :
  parse_query_and_fragment ovr CUrlParser st 4 s rem = POk (s4, qs, fs) -> nfirstn 7 s = s_file_css ->
  file_shaped (file_url s4 7 he hi qs fs).
Proof.
  intros H P7. unfold file_shaped, file_url. cbn [ser scheme_end username_end host_start port].
  repeat split. rewrite (pqf_keep_pre _ _ _ _ _ _ _ _ 7 H (css7_len s P7)). exact P7.
Qed.

Lemma file_fresh_shaped st hh l u :
  (' (s2, _, rem) <~ parse_path dbg CUrlParser STFile hh 7 (s_file_css ++ [47]) l ;;
   ' (s3, qs, fs) <~ parse_query_and_fragment ovr CUrlParser st 4 s2 rem ;;
   POk (file_url s3 7 7 HI_None qs fs)) = POk u -> file_shaped u.
Proof.
  intros H. pb H a Ha. destruct a as [[s2 h2] rem]. pb H c Hc. destruct c as [[s3 qs] fs]. inversion H; subst u.
  assert (PInvQ 7 s_file_css (s_file_css ++ [47])) as I1.
  { apply pinvq_app; [reflexivity | exact (pinvq_start s_file_css) | reflexivity]. }
  pose proof (pinvq_parse_path dbg 7 s_file_css eq_refl _ _ _ _ _ _ _ _ Ha I1) as I2.
  apply (file_tail_shaped st s2 _ _ rem s3 qs fs Hc). exact (proj1 I2).
Qed.

Theorem parse_file_nobase_shaped st l u :
  parse_file dbg hp hd ovr CUrlParser st None l = POk u -> file_shaped u.
Proof.
  unfold parse_file. destruct (inp_split_first l) as [first_char after_first] eqn:Esf.
  destruct (match first_char with Some c => is_slash_or_bslash c | None => false end) eqn:Efs.
  - destruct (inp_split_first after_first) as [next_char after_next].
    destruct (match next_char with Some c => is_slash_or_bslash c | None => false end).
    + intros H. pb H a Ha. destruct a as [[[ser1 flag] hi] remaining]. destruct (pfh_pre hp hd _ _ _ _ _ _ Ha) as (t & ->).
      pb H he Hhe. apply to_u32_eq in Hhe. subst he. cbv zeta in H.
      pb H b Hb2. destruct b as [[ser2 hh] rem2].
      assert (exists P, ser2 = (s_file_css ++ t) ++ P) as (P & ->).
      { destruct flag.
        - destruct (parse_path_start_clean dbg CUrlParser STFile _ _ _ _ _ _ Hb2) as (P & E & _). exists P. exact E.
        - assert (PInvQ (nlen (s_file_css ++ t)) (s_file_css ++ t) ((s_file_css ++ t) ++ [47])) as I1
            by (apply pinvq_app; [reflexivity | apply pinvq_start | reflexivity]).
          destruct (pinvq_split _ _ (pinvq_parse_path dbg _ _ eq_refl _ _ _ _ _ _ _ _ Hb2 I1)) as (P & E & _). exists P. exact E. }
      assert (nfirstn 7 ((s_file_css ++ t) ++ P) = s_file_css) as P7 by (rewrite <- app_assoc; apply file_css_pre).
      destruct (negb hh); cbv beta iota zeta in H; pb H c Hc; destruct c as [[ser4 qs] fs]; inversion H; subst u.
      * apply (file_tail_shaped st _ _ _ rem2 ser4 qs fs Hc). rewrite P7. apply file_css_pre.
      * exact (file_tail_shaped st _ _ _ rem2 ser4 qs fs Hc P7).
    + assert ((if negb (starts_with_wdl_segment after_first) then (s_file_css, 7, HI_None) else (s_file_css, 7, HI_None))
              = (s_file_css, 7, HI_None)) as Eif by (destruct (negb (starts_with_wdl_segment after_first)); reflexivity).
      rewrite Eif.
      intros H. pb H a Ha. destruct a as [[ser2 hh] remaining]. pb H c Hc. destruct c as [[ser3 qs] fs]. inversion H; subst u.
      assert (PInvQ 7 (nfirstn 7 s_file_css) s_file_css) as I1 by (split; reflexivity).
      pose proof (pinvq_parse_path dbg 7 (nfirstn 7 s_file_css) eq_refl _ _ _ _ _ _ _ _ Ha I1) as I2.
      apply (file_tail_shaped st ser2 _ _ remaining ser3 qs fs Hc).
      apply (pinvq_file_pre 7 (nfirstn 7 s_file_css) ser2 (N.le_refl _) eq_refl); [reflexivity | exact I2].
  - apply file_fresh_shaped.
Qed.

End FileShape.

(* ---------- the whole parser on an input whose scheme is "file", no base ---------- *)
Theorem parse_url_file_shaped dbg hp hpo hd ovr input sch rem u :
  parse_scheme CUrlParser (input_new_trim_c0 input) = Some (sch, rem) ->
  st_is_file (scheme_type_of sch) = true ->
  parse_url dbg hp hpo hd ovr None input = POk u -> file_shaped u.
Proof.
  intros Es Hf Hp. unfold parse_url in Hp. rewrite Es in Hp. unfold parse_with_scheme in Hp.
  destruct (to_u32 (nlen sch)) as [se| |]; cbn [pbind] in Hp; try discriminate Hp.
  destruct (scheme_type_of sch); try discriminate Hf.
  exact (parse_file_nobase_shaped dbg hp hd ovr _ rem u Hp).
Qed.

(* what the bridge needs *)
Lemma file_shaped_facts u : wf_b u = true -> file_shaped u ->
  b_scheme u = s_file /\ has_authority_b u = true /\ username_end u = host_start u /\ port u = None
  /\ username_end u <= scheme_end u + 3.
Proof.
  intros W (E1 & E2 & E3 & E4 & E5). split.
  - unfold b_scheme. rewrite E1. rewrite <- (nfirstn_nfirstn 4 7 (ser u)) by lia. rewrite E5. reflexivity.
  - split; [|split; [congruence | split; [exact E4 | lia]]].
    unfold has_authority_b. rewrite E1.
    apply css_of_bytes; rewrite (file_pre_bytes (ser u) _ E5) by lia; reflexivity.
Qed.
