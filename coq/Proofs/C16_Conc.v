(* Proofs/C16_Conc.v - every schedule of atomic fetch_add steps hands out consecutive identities;
   a load/store pair does not. *)
From RU Require Import Base.Prelude Gen.Tables Model.UrlRecord Model.Origin.

(* c, c+1, ..., c+n-1 *)
Fixpoint nseq (c : N) (n : nat) : list N :=
  match n with O => [] | S k => c :: nseq (c + 1) k end.

Lemma nseq_length c n : length (nseq c n) = n.
Proof. revert c. induction n as [|n IH]; intros c; cbn [nseq length]; [reflexivity|]. now rewrite IH. Qed.

Lemma nseq_in c n x : In x (nseq c n) <-> c <= x /\ x < c + N.of_nat n.
Proof.
  revert c. induction n as [|n IH]; intros c; cbn [nseq In].
  - split; [tauto|]. lia.
  - rewrite IH. lia.
Qed.

Lemma nseq_nodup c n : NoDup (nseq c n).
Proof.
  revert c. induction n as [|n IH]; intros c; cbn [nseq]; constructor.
  - rewrite nseq_in. lia.
  - apply IH.
Qed.

Lemma nseq_app c n m : nseq c (n + m) = nseq c n ++ nseq (c + N.of_nat n) m.
Proof.
  revert c. induction n as [|n IH]; intros c; cbn [nseq Nat.add app].
  - f_equal. lia.
  - rewrite IH. do 3 f_equal. lia.
Qed.

Lemma wrap_small n : n < USIZE_MOD -> wrap_usize n = n.
Proof. intros H. unfold wrap_usize. apply N.mod_small. exact H. Qed.

(* ---------- unfolding ---------- *)
Lemma run_nil op cfg : run op [] cfg = (cfg, []).
Proof. reflexivity. Qed.

Lemma run_cons op t r cfg :
  run op (t :: r) cfg =
  (fst (run op r (fst (step op t cfg))),
   match snd (step op t cfg) with
   | Some x => x :: snd (run op r (fst (step op t cfg)))
   | None => snd (run op r (fst (step op t cfg)))
   end).
Proof.
  cbn [run]. destruct (step op t cfg) as [cfg1 o]. cbn [fst snd].
  destruct (run op r cfg1) as [cfg2 ids]. reflexivity.
Qed.

(* running two segments one after the other = running their concatenation *)
Lemma run_app op s1 s2 cfg :
  run op (s1 ++ s2) cfg =
  (fst (run op s2 (fst (run op s1 cfg))), snd (run op s1 cfg) ++ snd (run op s2 (fst (run op s1 cfg)))).
Proof.
  revert cfg. induction s1 as [|t r IH]; intros cfg.
  - cbn [app]. rewrite run_nil. cbn [fst snd app]. now destruct (run op s2 cfg).
  - cbn [app]. rewrite !run_cons. rewrite IH. cbn [fst snd].
    destruct (snd (step op t cfg)); reflexivity.
Qed.

(* ---------- FetchAdd: the k-th atomic step hands out counter + k ---------- *)
Lemma step_fetch_add t cfg :
  step FetchAdd t cfg = (mkConfig (wrap_usize (counter cfg + 1)) (pending cfg), Some (t, counter cfg)).
Proof. reflexivity. Qed.

Lemma run_fetch_add s : forall cfg,
  counter cfg + N.of_nat (length s) < USIZE_MOD ->
  run FetchAdd s cfg =
  (mkConfig (counter cfg + N.of_nat (length s)) (pending cfg), combine s (nseq (counter cfg) (length s))).
Proof.
  induction s as [|t r IH]; intros cfg Hb.
  - rewrite run_nil. cbn [length nseq combine]. destruct cfg as [c p]. cbn [counter pending].
    f_equal. f_equal. cbn. lia.
  - rewrite run_cons, step_fetch_add. cbn [fst snd length] in *.
    assert (Hw : wrap_usize (counter cfg + 1) = counter cfg + 1) by (apply wrap_small; lia).
    rewrite Hw. rewrite IH by (cbn [counter]; lia).
    cbn [fst snd counter pending nseq combine]. f_equal. f_equal. lia.
Qed.

Lemma map_snd_combine (s : list N) (l : list N) :
  length s = length l -> map snd (combine s l) = l.
Proof.
  revert l. induction s as [|a s IH]; intros [|b l] H; cbn in *; try reflexivity; try discriminate.
  f_equal. apply IH. lia.
Qed.
Lemma map_fst_combine (s : list N) (l : list N) :
  length s = length l -> map fst (combine s l) = s.
Proof.
  revert l. induction s as [|a s IH]; intros [|b l] H; cbn in *; try reflexivity; try discriminate.
  f_equal. apply IH. lia.
Qed.

Lemma ids_fetch_add s cfg :
  counter cfg + N.of_nat (length s) < USIZE_MOD ->
  ids_of (run FetchAdd s cfg) = nseq (counter cfg) (length s).
Proof.
  intros Hb. unfold ids_of. rewrite run_fetch_add by exact Hb. cbn [snd].
  apply map_snd_combine. now rewrite nseq_length.
Qed.

(* the statement of C16_opaque *)
Definition opaque_unique_stmt : Prop :=
  forall (s : schedule) (cfg : config),
    counter cfg + N.of_nat (length s) < USIZE_MOD ->
    let r := run FetchAdd s cfg in
    (* who gets what: the k-th scheduled step hands counter + k to the thread scheduled k-th *)
    snd r = combine s (nseq (counter cfg) (length s))
    /\ NoDup (ids_of r)
    /\ Forall (fun i => counter cfg <= i) (ids_of r)
    /\ counter (fst r) = counter cfg + N.of_nat (length s)
    (* and nothing handed out in a later segment repeats anything handed out before it *)
    /\ (forall s1 s2, s = s1 ++ s2 ->
        forall a b, In a (ids_of (run FetchAdd s1 cfg)) ->
                    In b (ids_of (run FetchAdd s2 (fst (run FetchAdd s1 cfg)))) -> a < b).

Lemma opaque_unique : opaque_unique_stmt.
Proof.
  intros s cfg Hb r. subst r.
  split; [now rewrite run_fetch_add|].
  split; [rewrite ids_fetch_add by exact Hb; apply nseq_nodup|].
  split.
  { rewrite ids_fetch_add by exact Hb. apply Forall_forall. intros x Hx. apply nseq_in in Hx. cbv beta. lia. }
  split; [now rewrite run_fetch_add|].
  intros s1 s2 -> a b Ha Hb2.
  rewrite app_length in Hb.
  rewrite ids_fetch_add in Ha by lia.
  rewrite (run_fetch_add s1 cfg) in Hb2 by lia. cbn [fst] in Hb2.
  rewrite ids_fetch_add in Hb2 by (cbn [counter]; lia). cbn [counter] in Hb2.
  apply nseq_in in Ha. apply nseq_in in Hb2. lia.
Qed.

(* ---------- LoadThenStore: two threads, one lost update ---------- *)
Definition race_stmt : Prop :=
  exists s : schedule,
    Forall (fun t => t = 0 \/ t = 1) s
    /\ (exists i, snd (run LoadThenStore s (mkConfig 0 [])) = [(0, i); (1, i)])
    /\ ~ NoDup (ids_of (run LoadThenStore s (mkConfig 0 []))).

Lemma race : race_stmt.
Proof.
  exists [0; 1; 0; 1].
  split; [repeat constructor; lia|].
  split; [exists 0; vm_compute; reflexivity|].
  assert (E : ids_of (run LoadThenStore [0; 1; 0; 1] (mkConfig 0 [])) = [0; 0]) by (vm_compute; reflexivity).
  rewrite E. intros H. inversion H as [|x l Hn Hd]. apply Hn. left. reflexivity.
Qed.

(* without interference both patterns hand out the counter value and increment it *)
Lemma solo_run op c : c + 1 < USIZE_MOD ->
  run op (solo_schedule op) (mkConfig c []) = (mkConfig (c + 1) [], [(0, c)]).
Proof.
  intros H. destruct op; cbn [solo_schedule run step counter pending lookup_pending remove_pending].
  - now rewrite wrap_small.
  - replace (0 =? 0) with true by reflexivity. cbn [remove_pending]. replace (0 =? 0) with true by reflexivity.
    now rewrite wrap_small.
Qed.

(* the wrap-around is real: the premise "fewer than 2^64 creations" cannot be dropped *)
Lemma wrap_witness :
  ids_of (run FetchAdd [0; 0] (mkConfig (USIZE_MOD - 1) [])) = [USIZE_MOD - 1; 0].
Proof. vm_compute. reflexivity. Qed.
