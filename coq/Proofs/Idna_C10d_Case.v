(* Proofs/Idna_C10d_Case.v - ToASCII does not see the case of ASCII letters (C10), every input, every option combination.
   c10_case3 : C10_case_statement2 A cfg (Proofs/Idna_C10b_Stmt.v): premises AdapterOK (fields ok_nil, ok_case) and
   PassBidi (the bidi rule accepts every pass-through label), both sampled on the real idna_adapter.
   Proof: the accepted run on d is read through the virtual run proc_all (split_on DOT d) (Proofs/Idna_C10d_CaseLoop.v):
     accept_inv  the result text is join_dots (outs (labels of the virtual buffer) (virtual entries)), the virtual
                 buffer passes the bidi pass (VB; PassBidi is used for the labels the real run passed through);
     proc_all_cv the virtual run on the case variant d' has the same buffer and entries that differ by case only;
     accept_syn  a name whose virtual run is accepted in this sense is accepted by to_ascii with that text
                 (its own pass-through prefix may be longer or shorter). *)
From RU Require Import Base.Prelude Base.Utf8 Base.U32_c13 Gen.Tables Model.Punycode Model.Uts46
  Proofs.Idna_Sim Proofs.Idna_Api Proofs.Idna_Known Proofs.Idna_Hyp Proofs.Idna_Redisc
  Proofs.Idna_C10_Deny Proofs.Idna_C10_Prefix Proofs.Idna_C10_Inner Proofs.Idna_C10_Walk
  Proofs.Idna_C10b_AsciiInner Proofs.Idna_C10b_AsciiWalk Proofs.Idna_C10b_Stmt Proofs.Idna_WalkInv Proofs.Idna_WalkEnc Proofs.Idna_WalkFun
  Proofs.Idna_WalkApi Proofs.Idna_C10c_Puny Proofs.Idna_C10c_Start Proofs.Idna_C10c_Drun Proofs.Idna_C10c_Loop Proofs.Idna_C10c_Rerun
  Proofs.Idna_C10c_Idem Proofs.Idna_Mark Proofs.Idna_C10d_CaseLabel Proofs.Idna_C10d_CaseLoop.

Lemma to_ascii_dns_eq A cfg x deny hy dns :
  to_ascii A cfg x deny hy dns =
  match to_ascii A cfg x deny hy DIgnore with
  | Ok (b, s) => if negb (dns_is_ignore dns)
                 then (if cfg && negb (is_ascii_l s) then Panic 468
                       else if negb (verify_dns_length s (dns_is_root dns)) then Err else Ok (b, s))
                 else Ok (b, s)
  | Err => Err
  | Panic p => Panic p
  end.
Proof.
  unfold to_ascii. destruct (process A cfg true never_unicode x deny hy None None false) as [[st s1] s2].
  destruct st; cbn [dns_is_ignore negb]; reflexivity.
Qed.

Lemma concat_ascii (pl : list (list N)) : Forall (Forall (fun b => b < 128)) pl -> Forall (fun b => b < 128) (concat pl).
Proof. induction 1 as [|l r Hl _ IH]; [constructor|]. cbn [concat]. apply Forall_app. split; assumption. Qed.

Section Case.
Variable A : adapter.
Variable cfg : bool.
Variable deny : N.
Variable hy : hyphens.
Hypothesis HU : DenyUpper deny.
Hypothesis HL : LdhFree deny.
Hypothesis HR : Redisc A cfg deny.
Hypothesis HPB : PassBidi A.

Notation proc_all := (proc_all A cfg deny hy).
Definition BOKl (l : list N) : Prop := bidi_label A true l false = SOk (l, false).
Definition VB (Ys : list (list N)) : Prop :=
  exists bd, is_bidi A cfg (concat Ys) = Ok bd /\ (bd = true -> Forall BOKl (VL Ys)).

Lemma pass_all_ascii pl : Forall PassL pl -> Forall (fun b => b < 128) (concat pl).
Proof.
  intros H. apply concat_ascii. eapply Forall_impl; [|exact H]. intros l [Hb Hp]. exact (passthrough_ascii l Hb Hp).
Qed.
Lemma pass_all_nodot pl : Forall PassL pl -> Forall nodot pl.
Proof. intros H. eapply Forall_impl; [|exact H]. intros l. apply pass_nodot. Qed.
Lemma pass_all_lower pl : Forall PassL pl -> map (map to_lower) pl = pl.
Proof. induction 1 as [|l r Hl _ IH]; [reflexivity|]. cbn [map]. rewrite IH, (pass_lower deny l HU HL Hl). reflexivity. Qed.
Lemma pass_all_bok pl : Forall PassL pl -> Forall BOKl pl.
Proof. intros H. eapply Forall_impl; [|exact H]. intros l [Hb Hp]. exact (HPB l false Hb Hp). Qed.

(* ---- the shape of a name: its leading pass-through labels, then the others ---- *)
Lemma run_shape d : bytes d ->
  Forall PassL (ptake (split_on DOT d)) /\
  ((pdrop (split_on DOT d) = [] /\ ptake (split_on DOT d) = split_on DOT d) \/
   exists l rest, pdrop (split_on DOT d) = l :: rest /\
     d = ptext (ptake (split_on DOT d)) ++ join_dots (l :: rest) /\ len (ptext (ptake (split_on DOT d))) < len d).
Proof.
  intros Hb. pose proof (ptake_pdrop (split_on DOT d)) as E.
  assert (Hbl : Forall bytes (split_on DOT d)) by (apply split_on_Forall; exact Hb).
  assert (Hp : Forall PassL (ptake (split_on DOT d))).
  { rewrite <- E in Hbl. apply Forall_app in Hbl. destruct Hbl as [Hb1 _]. pose proof (ptake_pass (split_on DOT d)) as Hpp.
    revert Hb1 Hpp. generalize (ptake (split_on DOT d)). intros pl. induction pl as [|x xs IH]; intros H1 H2; [constructor|].
    inversion H1; inversion H2; subst. constructor; [split; assumption|apply IH; assumption]. }
  split; [exact Hp|]. destruct (pdrop (split_on DOT d)) as [|l rest] eqn:Ed.
  - left. split; [reflexivity|]. rewrite app_nil_r in E. exact E.
  - right. exists l, rest. split; [reflexivity|].
    assert (Hd : d = ptext (ptake (split_on DOT d)) ++ join_dots (l :: rest)).
    { pose proof (ptext_join (ptake (split_on DOT d)) (l :: rest) ltac:(discriminate)) as X. rewrite E, join_split in X. exact X. }
    split; [exact Hd|]. rewrite Hd at 2. rewrite len_app.
    assert (Hl : l <> []) by (intros ->; pose proof (pdrop_head _ _ _ Ed) as Hx; discriminate Hx).
    assert (0 < len (join_dots (l :: rest))).
    { rewrite join_dots_cons, len_app. destruct l as [|c t]; [contradiction Hl; reflexivity|]. rewrite len_cons1. lia. }
    lia.
Qed.

Lemma to_ascii_exit d : d <> [] -> process_inner A cfg true hy deny d = I_EXIT -> to_ascii A cfg d deny hy DIgnore = Err.
Proof.
  intros Hne Hi. unfold to_ascii, process. rewrite Hi. unfold I_EXIT.
  destruct (0 =? len d) eqn:E; [apply len_nil_iff in E; contradiction|]. reflexivity.
Qed.
Lemma to_ascii_ipanic d p : process_inner A cfg true hy deny d = IPanic p -> to_ascii A cfg d deny hy DIgnore = Panic p.
Proof. intros Hi. unfold to_ascii, process. rewrite Hi. reflexivity. Qed.

(* ---- to_ascii on the walking branch, from the fail-fast result ---- *)
Lemma to_ascii_text d pl l rest bd db ap : bytes d ->
  d = ptext pl ++ join_dots (l :: rest) -> len (ptext pl) < len d ->
  process_inner A cfg true hy deny d = IRes (len (ptext pl)) bd false db ap ->
  length (split_on DOT db) = length ap /\
  match outs cfg is_ascii_l (split_on DOT db) ap with
  | inl os => exists b, to_ascii A cfg d deny hy DIgnore = Ok (b, ptext pl ++ join_dots os)
  | inr s => to_ascii A cfg d deny hy DIgnore = Panic s
  end.
Proof.
  intros Hb Hd Hlt Ei.
  destruct (inner_facts A cfg true hy deny d _ _ _ _ _ Hb Ei) as [(_ & Hx & _)|[(Hx & _)|[HB Hm]]]; [discriminate|lia|].
  pose proof HB as HB'. destruct HB' as (_ & Hlen & _ & _ & _ & P & rl & Hd2 & HP & Hcv & _). split; [exact Hlen|].
  pose proof (to_ascii_walk A cfg d deny hy _ _ _ _ HR Hm HB P rl Hd2 HP Hcv) as HW.
  assert (HPe : P = ptext pl) by (apply (app_eq_len P (join_dots rl) (ptext pl) (join_dots (l :: rest))); [rewrite <- Hd2; exact Hd|exact HP]).
  subst P. destruct (outs cfg is_ascii_l (split_on DOT db) ap) as [os|s]; [|exact HW].
  destruct (stays is_ascii_l (split_on DOT db) ap).
  - destruct HW as [HW1 HW2]. exists true. rewrite HW1. exact HW2.
  - exists false. exact HW.
Qed.

(* ---- analysis of an accepted name ---- *)
Theorem accept_inv d b r : bytes d -> to_ascii A cfg d deny hy DIgnore = Ok (b, r) ->
  exists Ys Fss ov, proc_all (split_on DOT d) = SOk (Ys, Fss) /\ VB Ys /\
    outs cfg is_ascii_l (VL Ys) (concat Fss) = inl ov /\ r = join_dots ov.
Proof.
  intros Hb H. pose proof (inner_closed A cfg deny hy HR d Hb) as Hic.
  destruct (run_shape d Hb) as [Hpl [[Ed Epl]|(l & rest & Ed & Hd & Hlt)]].
  - rewrite Ed in Hic. rewrite Epl in Hpl.
    assert (Hr : to_ascii A cfg d deny hy DIgnore = Ok (true, d)).
    { unfold to_ascii, process. rewrite Hic, N.eqb_refl, andb_false_r. reflexivity. }
    rewrite Hr in H. inversion H. subst b r.
    exists (split_on DOT d), (map (fun l => [MixedCaseAscii l]) (split_on DOT d)), (split_on DOT d).
    split; [exact (proc_all_pass A cfg deny hy HL _ Hpl)|]. split.
    + exists false. split; [exact (is_bidi_ascii A cfg _ (pass_all_ascii _ Hpl))|discriminate].
    + split; [|symmetry; apply join_split].
      rewrite (VL_nodot _ (pass_all_nodot _ Hpl)), concat_mca.
      pose proof (outs_mca cfg is_ascii_l [] [] (split_on DOT d) (split_on DOT d) eq_refl) as E.
      rewrite !app_nil_r in E. rewrite E. cbn [outs]. rewrite app_nil_r, (pass_all_lower _ Hpl). reflexivity.
  - set (pl := ptake (split_on DOT d)) in *. rewrite Ed in Hic.
    assert (Hdne : d <> []) by (intros ->; unfold len in Hlt; cbn [length] in Hlt; lia).
    destruct (proc_all (l :: rest)) as [[Xs Ess]| |p] eqn:Ep;
      [|rewrite (to_ascii_exit d Hdne Hic) in H; discriminate|rewrite (to_ascii_ipanic d p Hic) in H; discriminate].
    assert (HXne : Xs <> []).
    { destruct (proc_all_len A cfg deny hy _ _ _ Ep) as [Hx _]. intros ->. discriminate Hx. }
    (* the bidi pass *)
    assert (HF : exists bd, is_bidi A cfg (join_dots Xs) = Ok bd /\ (bd = true -> Forall BOKl (split_on DOT (join_dots Xs))) /\
                   process_inner A cfg true hy deny d = IRes (len (ptext pl)) bd false (join_dots Xs) (concat Ess)).
    { unfold finish in Hic. destruct (is_bidi A cfg (join_dots Xs)) as [[|]| |p] eqn:Eb;
        [| |rewrite (to_ascii_ipanic d 0 Hic) in H; discriminate|rewrite (to_ascii_ipanic d p Hic) in H; discriminate].
      - destruct (bidi_labels A true (split_on DOT (join_dots Xs)) false) as [[ls2 he2]| |p] eqn:Ebl;
          [|rewrite (to_ascii_exit d Hdne Hic) in H; discriminate|rewrite (to_ascii_ipanic d p Hic) in H; discriminate].
        pose proof (bidi_labels_true A _ _ _ _ Ebl) as ->. destruct (bidi_labels_all A _ _ _ _ Ebl) as [-> HB].
        rewrite join_split in Hic. exists true. split; [reflexivity|]. split; [intros _; exact HB|exact Hic].
      - exists false. split; [reflexivity|]. split; [discriminate|exact Hic]. }
    destruct HF as (bd & Hbd & Hbok & Ei).
    destruct (to_ascii_text d pl l rest bd _ _ Hb Hd Hlt Ei) as [Hlen HT].
    destruct (outs cfg is_ascii_l (split_on DOT (join_dots Xs)) (concat Ess)) as [os|s] eqn:Eo; [|rewrite HT in H; discriminate].
    destruct HT as (b0 & HT). rewrite HT in H. inversion H. subst b0 r.
    assert (Hos : os <> []).
    { pose proof (outs_len cfg is_ascii_l _ _ _ Eo Hlen) as Hl. intros ->. cbn [length] in Hl.
      pose proof (Idna_WalkApi.split_on_ne (join_dots Xs)) as Hn. destruct (split_on DOT (join_dots Xs)); [congruence|discriminate]. }
    exists (pl ++ Xs), (map (fun l => [MixedCaseAscii l]) pl ++ Ess), (pl ++ os).
    split; [|split; [|split]].
    + rewrite <- (ptake_pdrop (split_on DOT d)), Ed. fold pl. rewrite proc_all_app, (proc_all_pass A cfg deny hy HL _ Hpl), Ep. reflexivity.
    + exists bd. split.
      * rewrite concat_app, is_bidi_app, (is_bidi_ascii A cfg _ (pass_all_ascii _ Hpl)), <- is_bidi_join. exact Hbd.
      * intros Hb1. rewrite VL_app, (VL_nodot _ (pass_all_nodot _ Hpl)), <- (split_join_gen Xs HXne).
        apply Forall_app. split; [exact (pass_all_bok _ Hpl)|exact (Hbok Hb1)].
    + rewrite VL_app, (VL_nodot _ (pass_all_nodot _ Hpl)), concat_app, concat_mca, (outs_mca cfg is_ascii_l _ _ pl pl eq_refl).
      rewrite <- (split_join_gen Xs HXne), Eo, (pass_all_lower _ Hpl). reflexivity.
    + symmetry. apply ptext_join. exact Hos.
Qed.

(* ---- a name whose virtual run is accepted ---- *)
Theorem accept_syn d Ys Fss ov : bytes d -> proc_all (split_on DOT d) = SOk (Ys, Fss) -> VB Ys ->
  outs cfg is_ascii_l (VL Ys) (concat Fss) = inl ov -> exists b, to_ascii A cfg d deny hy DIgnore = Ok (b, join_dots ov).
Proof.
  intros Hb Hp (bd & Hbd & Hbok) Ho. pose proof (inner_closed A cfg deny hy HR d Hb) as Hic.
  destruct (run_shape d Hb) as [Hpl [[Ed Epl]|(l & rest & Ed & Hd & Hlt)]].
  - rewrite Ed in Hic. rewrite Epl in Hpl. exists true.
    rewrite (proc_all_pass A cfg deny hy HL _ Hpl) in Hp. inversion Hp. subst Ys Fss.
    rewrite (VL_nodot _ (pass_all_nodot _ Hpl)), concat_mca in Ho.
    pose proof (outs_mca cfg is_ascii_l [] [] (split_on DOT d) (split_on DOT d) eq_refl) as E.
    rewrite !app_nil_r in E. rewrite E in Ho. cbn [outs] in Ho. rewrite app_nil_r, (pass_all_lower _ Hpl) in Ho. inversion Ho. subst ov.
    rewrite join_split. unfold to_ascii, process. rewrite Hic, N.eqb_refl, andb_false_r. reflexivity.
  - set (pl := ptake (split_on DOT d)) in *. rewrite Ed in Hic.
    rewrite <- (ptake_pdrop (split_on DOT d)), Ed in Hp. fold pl in Hp.
    rewrite proc_all_app, (proc_all_pass A cfg deny hy HL _ Hpl) in Hp.
    destruct (proc_all (l :: rest)) as [[Xs Ess]| |p] eqn:Ep; try discriminate. inversion Hp. subst Ys Fss. clear Hp.
    assert (HXne : Xs <> []).
    { destruct (proc_all_len A cfg deny hy _ _ _ Ep) as [Hx _]. intros ->. discriminate Hx. }
    rewrite concat_app, is_bidi_app, (is_bidi_ascii A cfg _ (pass_all_ascii _ Hpl)), <- is_bidi_join in Hbd.
    rewrite VL_app, (VL_nodot _ (pass_all_nodot _ Hpl)), <- (split_join_gen Xs HXne) in Hbok.
    assert (Ei : process_inner A cfg true hy deny d = IRes (len (ptext pl)) bd false (join_dots Xs) (concat Ess)).
    { rewrite Hic. unfold finish. rewrite Hbd. destruct bd; [|reflexivity].
      specialize (Hbok eq_refl). apply Forall_app in Hbok. destruct Hbok as [_ Hbok].
      rewrite (bidi_labels_ok A _ Hbok), join_split. reflexivity. }
    destruct (to_ascii_text d pl l rest bd _ _ Hb Hd Hlt Ei) as [Hlen HT].
    rewrite VL_app, (VL_nodot _ (pass_all_nodot _ Hpl)), concat_app, concat_mca, (outs_mca cfg is_ascii_l _ _ pl pl eq_refl) in Ho.
    rewrite <- (split_join_gen Xs HXne) in Ho.
    destruct (outs cfg is_ascii_l (split_on DOT (join_dots Xs)) (concat Ess)) as [os|s] eqn:Eo; [|discriminate].
    inversion Ho. subst ov. rewrite (pass_all_lower _ Hpl).
    assert (Hos : os <> []).
    { pose proof (outs_len cfg is_ascii_l _ _ _ Eo Hlen) as Hl. intros ->. cbn [length] in Hl.
      pose proof (Idna_WalkApi.split_on_ne (join_dots Xs)) as Hn. destruct (split_on DOT (join_dots Xs)); [congruence|discriminate]. }
    destruct HT as (b0 & HT). exists b0. rewrite (ptext_join pl os Hos). exact HT.
Qed.

Hypothesis Hcase : forall l l', ascii_case_variant l l' -> map_normalize A l = map_normalize A l'.

Lemma split_cv_all d d' : cv d d' -> Forall2 cv (split_on DOT d) (split_on DOT d').
Proof.
  intros H. pose proof (split_on_map_lower d) as E1. pose proof (split_on_map_lower d') as E2. unfold cv in H. rewrite H, E2 in E1.
  revert E1. generalize (split_on DOT d) (split_on DOT d'). intros ls. induction ls as [|x xs IH]; intros [|y ys] E; try discriminate; [constructor|].
  cbn [map] in E. inversion E. constructor; [unfold cv; congruence|apply IH; assumption].
Qed.

Theorem to_ascii_case_ignore d d' b r : bytes d -> cv d d' ->
  to_ascii A cfg d deny hy DIgnore = Ok (b, r) -> exists b', to_ascii A cfg d' deny hy DIgnore = Ok (b', r).
Proof.
  intros Hb Hcv H. destruct (accept_inv d b r Hb H) as (Ys & Fss & ov & Hp & HVB & Ho & ->).
  assert (Hbl : Forall bytes (split_on DOT d)) by (apply split_on_Forall; exact Hb).
  destruct (proc_all_cv A cfg deny hy HU HL Hcase _ _ (split_cv_all d d' Hcv) Hbl _ _ Hp) as (Fss' & Hp' & He).
  apply (accept_syn d' Ys Fss' ov (cv_bytes d d' Hcv Hb) Hp' HVB). rewrite (outs_ecase cfg is_ascii_l _ _ _ He). exact Ho.
Qed.
End Case.

(* ---------------------------------------------------------------- the statement *)
Theorem c10_case3 : forall A cfg, C10_case_statement2 A cfg.
Proof.
  intros A cfg HOK HPB d d' deny hy dns b r Hb Hv Hcv H.
  destruct (valid_deny_facts deny Hv) as [HU HL].
  pose proof (redisc_of_adapter A cfg deny (ok_nil A HOK) HU) as HR.
  rewrite to_ascii_dns_eq in H. rewrite to_ascii_dns_eq.
  destruct (to_ascii A cfg d deny hy DIgnore) as [[b0 s]| |p] eqn:E0; try discriminate.
  destruct (to_ascii_case_ignore A cfg deny hy HU HL HR HPB (ok_case A HOK) d d' b0 s Hb Hcv E0) as (b' & E').
  rewrite E'. destruct (negb (dns_is_ignore dns)).
  - destruct (cfg && negb (is_ascii_l s)); [discriminate|]. destruct (negb (verify_dns_length s (dns_is_root dns))); [discriminate|].
    inversion H. subst. exists b'. reflexivity.
  - inversion H. subst. exists b'. reflexivity.
Qed.

(* the premises hold for a concrete adapter, and a non-trivial pair of case variants goes through:
   "A.B<u-umlaut>cher" and "a.b<u-umlaut>CHER" (in the second the label "a" is passed through, in the first it is not) *)
