(* Proofs/C02_JoinTail.v - G1, first part: joins whose reference has no scheme and is (after trimming and
   tab/newline removal) empty, fragment-only ("#...") or query-led ("?..." possibly followed by "#..."),
   against a canonical base: the result is canonical again (L1 for these arms of the relative state), hence a
   fixpoint of re-parsing.  The path arms (path-absolute, path-relative, scheme-relative) are not covered. *)
From Coq Require Import String.
From RU Require Import Base.Prelude Base.Utf8 Base.Utf8Facts Model.AsciiSet Gen.Tables
  Model.PercentEncoding Model.HostT Model.UrlRecord Model.Parser Model.Setters Model.WF
  Proofs.ListN Proofs.C06_List Proofs.C14_Set Proofs.C14_Enc Proofs.C02_Enc Proofs.C02_Parts
  Proofs.C02_Opaque Proofs.C02_Path Proofs.C02_PathL1 Proofs.C02_Reach Proofs.C02_AuthParts
  Proofs.C02_Auth Proofs.C02_AuthWf Proofs.C02_PathSp Proofs.C02_AuthSp Proofs.C02_AuthMain Proofs.C02_SetQF
  Proofs.C02_Canon.
Open Scope N_scope.
Open Scope list_scope.

(* ---------- the base as the relative state reads it ---------- *)
Section BaseQF.
Variables (pre : list N) (se ue hs he : N) (hi : host_internal) (pt : option N) (ps : N).
Notation U q f := (qf_url pre se ue hs he hi pt ps q f).

Lemma before_fragment_qf q f : b_before_fragment (U q f) = pre ++ qf_qtext q.
Proof.
  unfold b_before_fragment, qf_url. cbn [fragment_start ser]. destruct f as [y|]; cbn [qf_fs].
  - unfold qf_text. cbn [qf_ftext]. rewrite app_assoc, <- nlen_app. apply nfirstn_app_len.
  - unfold qf_text. cbn [qf_ftext]. rewrite app_nil_r. reflexivity.
Qed.

Lemma before_query_qf q f : b_before_query (U q f) = pre.
Proof.
  unfold b_before_query, qf_url. cbn [query_start fragment_start ser].
  destruct q as [x|]; cbn [qf_qs].
  - apply nfirstn_app_len.
  - destruct f as [y|]; cbn [qf_fs qf_qtext].
    + rewrite N.add_0_r. apply nfirstn_app_len.
    + unfold qf_text. cbn. rewrite app_nil_r. reflexivity.
Qed.

Lemma b_scheme_qf q f sch : nfirstn se pre = sch -> se <= nlen pre -> b_scheme (U q f) = sch.
Proof. intros E H. unfold b_scheme, qf_url. cbn [scheme_end ser]. rewrite nfirstn_app_le by exact H. exact E. Qed.

(* fragment-only reference *)
Lemma fragment_only_qf q f l u : usv_list l -> fragment_only (U q f) l = POk u ->
  exists F, u = U q (Some F) /\ clean T_FRAGMENT F = true /\ opt_le (qf_fs (nlen pre) q (Some F)) U32_MAX_P.
Proof.
  intros Hl. unfold fragment_only. rewrite before_fragment_qf.
  destruct (to_u32 (nlen (pre ++ qf_qtext q))) as [n| |] eqn:Eu; cbn [pbind]; try discriminate.
  apply to_u32_inv in Eu. destruct Eu as [-> Hb].
  assert (usv_list (match inp_next l with Some (_, r) => r | None => [] end)) as Hr.
  { destruct (inp_next l) as [[c r]|] eqn:En; [exact (inp_next_usv l c r Hl En) | constructor]. }
  rewrite parse_fragment_spec by exact Hr. intros E. inversion E; subst u. clear E.
  eexists. split; [|split; [exact (frag_of_clean _ Hr)|]].
  - unfold qf_url. cbn [scheme_end username_end host_start host_end hosti port path_start query_start].
    unfold qf_text. cbn [qf_ftext qf_fs]. rewrite nlen_app, <- !app_assoc. reflexivity.
  - cbn [qf_fs opt_le]. rewrite nlen_app in Hb. exact Hb.
Qed.
End BaseQF.

Section JoinTail.
Variable dbg : bool.
Variable hp hpo : list N -> result host.
Variable hd : host -> list N.
Hypothesis HRT : HostRT hp hpo hd.

(* a canonical record seen as a frame in which query and fragment can be replaced *)
Definition qf_view (u : url) : Prop :=
  exists pre se ue hs he hi pt ps sch (cbb : bool) q0 f0,
    u = qf_url pre se ue hs he hi pt ps q0 f0
    /\ nfirstn se pre = sch /\ se <= nlen pre /\ st_is_file (scheme_type_of sch) = false
    /\ cannot_be_a_base u = Some cbb
    /\ opt_clean (query_set (scheme_type_of sch)) q0 /\ opt_le (qf_qs (nlen pre) q0) U32_MAX_P
    /\ (forall q f, opt_clean (query_set (scheme_type_of sch)) q -> opt_clean T_FRAGMENT f ->
          opt_le (qf_qs (nlen pre) q) U32_MAX_P -> opt_le (qf_fs (nlen pre) q f) U32_MAX_P ->
          (cbb = true -> q = None -> f = None -> False) ->
          Canon hp hpo hd (qf_url pre se ue hs he hi pt ps q f)).

Lemma Canon_view u : Canon hp hpo hd u -> qf_view u.
Proof.
  intros [sch P q0 f0 K | sch segs last q0 f0 K | sch ui h pt p q0 f0 K | sch ui h pt p q0 f0 K Kp].
  - destruct (opaque_pre_sch sch P) as [S1 S2].
    exists (opaque_pre sch P), (nlen sch), (nlen (sch ++ [58])), (nlen (sch ++ [58])), (nlen (sch ++ [58])), HI_None, None,
      (nlen (sch ++ [58])), sch, true, q0, f0.
    split; [reflexivity|]. split; [exact S1|]. split; [exact S2|]. split; [rewrite (ok_ns _ _ _ _ K); reflexivity|].
    split; [exact (opaque_url_cbb sch P q0 f0 K)|]. rewrite (ok_ns _ _ _ _ K).
    split; [exact (ok_q _ _ _ _ K)|]. split; [exact (ok_bq _ _ _ _ K)|].
    intros q f Hq Hf Bq Bf Hl. rewrite <- opaque_url_qf. apply Canon_opaque.
    destruct K as [Ksch Kns KP KPq KPh Kq Kf Klast Kb1 Kbq Kbf]. constructor; try assumption.
    intros Eq Ef. exfalso. exact (Hl eq_refl Eq Ef).
  - destruct (noauth_pre_sch sch (path_text segs last)) as [S1 S2].
    exists (noauth_pre sch (path_text segs last)), (nlen sch), (nlen (sch ++ [58])), (nlen (sch ++ [58])), (nlen (sch ++ [58])),
      HI_None, None, (nlen (sch ++ [58]) + nlen (marker_of (path_text segs last))), sch, false, q0, f0.
    split; [reflexivity|]. split; [exact S1|]. split; [exact S2|]. split; [rewrite (nk_ns _ _ _ _ _ K); reflexivity|].
    split; [exact (proj1 (proj2 (noauth_url_wf sch segs last q0 f0 K)))|]. rewrite (nk_ns _ _ _ _ _ K).
    split; [exact (nk_q _ _ _ _ _ K)|]. split; [exact (nk_bq _ _ _ _ _ K)|].
    intros q f Hq Hf Bq Bf _. rewrite <- noauth_url_qf. apply Canon_noauth.
    destruct K as [Ksch Kns Ksegs Klast Kq Kf Kb1 Kbq Kbf]. constructor; assumption.
  - destruct (auth_pre_sch hd sch ui h pt p) as [S1 S2].
    exists (auth_pre hd sch ui h pt p), (nlen sch), (nlen sch + 3 + ui_ulen ui), (nlen sch + 3 + nlen (ui_text ui)),
      (nlen sch + 3 + nlen (ui_text ui) + nlen (hd h)), (hi_of_host h), pt, (nlen (auth_front hd sch ui h pt)), sch, false, q0, f0.
    split; [reflexivity|]. split; [exact S1|]. split; [exact S2|]. split; [rewrite (ak_st _ _ _ _ _ _ _ _ _ _ _ K); reflexivity|].
    split; [exact (proj2 (auth_url_wf hp hpo hd HRT _ _ _ _ _ _ _ _ K))|]. rewrite (ak_st _ _ _ _ _ _ _ _ _ _ _ K).
    split; [exact (ak_q _ _ _ _ _ _ _ _ _ _ _ K)|]. split; [exact (ak_bq _ _ _ _ _ _ _ _ _ _ _ K)|].
    intros q f Hq Hf Bq Bf _. rewrite <- auth_url_qf. apply Canon_auth.
    destruct K as [Ksch Kst Kui Kh Kemp Kpt Kp Kq Kf Kb Kbq Kbf]. constructor; assumption.
  - destruct (auth_pre_sch hd sch ui h pt p) as [S1 S2].
    exists (auth_pre hd sch ui h pt p), (nlen sch), (nlen sch + 3 + ui_ulen ui), (nlen sch + 3 + nlen (ui_text ui)),
      (nlen sch + 3 + nlen (ui_text ui) + nlen (hd h)), (hi_of_host h), pt, (nlen (auth_front hd sch ui h pt)), sch, false, q0, f0.
    split; [reflexivity|]. split; [exact S1|]. split; [exact S2|]. split; [rewrite (ak_st _ _ _ _ _ _ _ _ _ _ _ K); reflexivity|].
    split; [exact (proj2 (auth_url_wf hp hpo hd HRT _ _ _ _ _ _ _ _ K))|]. rewrite (ak_st _ _ _ _ _ _ _ _ _ _ _ K).
    split; [exact (ak_q _ _ _ _ _ _ _ _ _ _ _ K)|]. split; [exact (ak_bq _ _ _ _ _ _ _ _ _ _ _ K)|].
    intros q f Hq Hf Bq Bf _. rewrite <- auth_url_qf. apply Canon_special; [|exact Kp].
    destruct K as [Ksch Kst Kui Kh Kemp Kpt Kp0 Kq Kf Kb Kbq Kbf]. constructor; assumption.
Qed.

(* the references covered: no scheme; empty, or led by '#' or '?' *)
Definition tail_ref (input : list N) : bool :=
  let l := input_new_trim_c0 input in
  match parse_scheme CUrlParser l with
  | Some _ => false
  | None => match inp_next l with None => true | Some (c, _) => (c =? 35) || (c =? 63) end
  end.

Lemma trim_usv input : usv_list input -> usv_list (input_new_trim_c0 input).
Proof. apply usv_trim. Qed.

Theorem join_tail_Canon ovr b input u : Canon hp hpo hd b -> usv_list input -> tail_ref input = true ->
  (ovr = None \/ st_is_special (scheme_type_of (b_scheme b)) = false) ->
  parse_url dbg hp hpo hd ovr (Some b) input = POk u -> Canon hp hpo hd u.
Proof.
  intros Cb Hu Ht Hov.
  destruct (Canon_view b Cb) as (pre & se & ue & hs & he & hi & pt & ps & sch & cbb & q0 & f0 & -> & Hsch & Hse & Hnf & Hcbb & Hq0 & Bq0 & Repl).
  pose proof (trim_usv input Hu) as Hl.
  unfold tail_ref in Ht. unfold parse_url. set (l := input_new_trim_c0 input) in *.
  destruct (parse_scheme CUrlParser l) as [[s r]|]; [discriminate|].
  rewrite (b_scheme_qf pre se ue hs he hi pt ps q0 f0 sch Hsch Hse) in *.
  unfold inp_starts_with_char.
  destruct (inp_next l) as [[c r]|] eqn:En.
  - destruct (c =? 35) eqn:E35.
    + (* fragment only *)
      intros E. destruct (fragment_only_qf pre se ue hs he hi pt ps q0 f0 l u Hl E) as (F & -> & CF & BF).
      apply Repl; try assumption. intros _ _ E0. discriminate E0.
    + rewrite Hcbb. destruct cbb; [discriminate|]. rewrite Hnf.
      destruct (c =? 63) eqn:E63; [|cbn in Ht; discriminate Ht].
      unfold parse_relative, inp_split_first. rewrite En. rewrite E63.
      rewrite before_query_qf. change (scheme_end (qf_url pre se ue hs he hi pt ps q0 f0)) with se.
      destruct (parse_query_and_fragment ovr CUrlParser (scheme_type_of sch) se pre l) as [[[s' qs] fs]| |] eqn:Ep;
        cbn [pbind]; try discriminate.
      apply pqf_out in Ep; [|exact Hl|].
      2:{ rewrite nfirstn_app_le by exact Hse. rewrite Hsch.
          destruct Hov as [-> | Hns]; [reflexivity|].
          apply query_enc_nonspecial. destruct (scheme_type_of sch); try discriminate Hns; reflexivity. }
      destruct Ep as (-> & -> & -> & Bq & Bf & Cq & Cf).
      cbv beta iota zeta. intros E. injection E as <-.
      change (url_with (qf_url pre se ue hs he hi pt ps q0 f0)
                (pre ++ qf_text (pqf_q (scheme_type_of sch) l) (pqf_f l))
                (qf_qs (nlen pre) (pqf_q (scheme_type_of sch) l))
                (qf_fs (nlen pre) (pqf_q (scheme_type_of sch) l) (pqf_f l)))
        with (qf_url pre se ue hs he hi pt ps (pqf_q (scheme_type_of sch) l) (pqf_f l)).
      apply Repl; try assumption. intros E0. discriminate E0.
  - (* empty reference *)
    rewrite Hcbb. destruct cbb; [discriminate|]. rewrite Hnf.
    unfold parse_relative, inp_split_first. rewrite En.
    intros E. injection E as <-.
    rewrite before_fragment_qf.
    match goal with |- Canon _ _ _ ?t => replace t with (qf_url pre se ue hs he hi pt ps q0 None) end.
    2:{ unfold url_with, qf_url, qf_text.
        cbn [qf_ftext qf_fs scheme_end username_end host_start host_end hosti port path_start query_start].
        rewrite app_nil_r. reflexivity. }
    apply Repl; try assumption; try exact I. intros E0. discriminate E0.
Qed.

(* the join result is a fixpoint of re-parsing *)
Theorem join_tail_fixpoint ovr b input u : Canon hp hpo hd b -> usv_list input -> tail_ref input = true ->
  (ovr = None \/ st_is_special (scheme_type_of (b_scheme b)) = false) ->
  parse_url dbg hp hpo hd ovr (Some b) input = POk u ->
  Fixpoint_of_reparse dbg hp hpo hd u /\ wf_b u = true /\ ascii (ser u).
Proof.
  intros Cb Hu Ht Hov Hp. apply (Canon_fixpoint dbg hp hpo hd HRT).
  exact (join_tail_Canon ovr b input u Cb Hu Ht Hov Hp).
Qed.
End JoinTail.

(* non-vacuity *)
Example join_tail_examples :
  tail_ref (B " #x y") = true /\ tail_ref (B "?a b#c") = true /\ tail_ref (B "  ") = true
  /\ tail_ref (B "x") = false /\ tail_ref (B "a:b") = false
  /\ match parse_url true ex_hp ex_hp ex_hd None None (B "http://h/p?q#f") with
     | POk b => match parse_url true ex_hp ex_hp ex_hd None (Some b) (B "?a b#c") with
                | POk u => list_eqb (ser u) (B "http://h/p?a%20b#c") | _ => false end
                && match parse_url true ex_hp ex_hp ex_hd None (Some b) (B " #x y") with
                   | POk u => list_eqb (ser u) (B "http://h/p?q#x%20y") | _ => false end
                && match parse_url true ex_hp ex_hp ex_hd None (Some b) (B "") with
                   | POk u => list_eqb (ser u) (B "http://h/p?q") | _ => false end
     | _ => false
     end = true.
Proof. vm_compute. repeat split. Qed.
