(* Proofs/C06_SpliceCred.v - WHOLE-URL parser agreement, part 3: set_password and set_username on the canonical
   records with an authority: the setter maps auth_url .. ui .. to auth_url .. ui' .. (the userinfo rewritten, every
   offset behind it shifted), and Parser::parse_url on the old serialization with the RAW argument in that position
   returns exactly this record. *)
From RU Require Import Base.Prelude Base.Utf8 Base.Utf8Facts Model.AsciiSet Gen.Tables
  Model.PercentEncoding Model.HostT Model.UrlRecord Model.Parser Model.Setters Model.WF
  Proofs.ListN Proofs.C14_Set Proofs.C14_Enc Proofs.C14_Views Proofs.C02_Enc Proofs.C02_Parts
  Proofs.C02_Opaque Proofs.C02_Path Proofs.C02_PathL1 Proofs.C02_Reach Proofs.C16_RT Proofs.C02_AuthParts
  Proofs.C02_Auth Proofs.C02_AuthWf Proofs.C02_PathSp Proofs.C02_AuthSp Proofs.C02_AuthMain Proofs.C02_SetQF
  Proofs.C02_Canon Proofs.C02_SetPort Proofs.C06_List Proofs.C06_Agree Proofs.C06_AgreeUrl Proofs.C06_Splice
  Proofs.C06_SpliceAuth.
Open Scope N_scope.
Open Scope list_scope.

(* ---------- the shape: A = scheme "://", U = username, TL = the rest of the userinfo, R = host port path ---------- *)
Definition cr_url (A U TL R : list N) (se dhe dps : N) (hi : host_internal) (pt : option N) (q f : option (list N)) : url :=
  qf_url (((A ++ U) ++ TL) ++ R) se (nlen (A ++ U)) (nlen ((A ++ U) ++ TL)) (nlen ((A ++ U) ++ TL) + dhe) hi pt
         (nlen ((A ++ U) ++ TL) + dps) q f.

Definition ui_user (ui : uinfo) : list N := match ui with UNone => [] | UUser u | UPw u _ => u end.
Definition ui_tail (ui : uinfo) : list N := match ui with UNone => [] | UUser _ => [64] | UPw _ p => 58 :: p ++ [64] end.

Lemma ui_text_split ui : ui_text ui = ui_user ui ++ ui_tail ui.
Proof. destruct ui; reflexivity. Qed.

Section Frame.
Variable dbg : bool.

Lemma cr_ser A U TL R se dhe dps hi pt q f :
  ser (cr_url A U TL R se dhe dps hi pt q f) = ((A ++ U) ++ TL) ++ R ++ qf_text q f.
Proof. unfold cr_url, qf_url. cbn [ser]. rewrite <- !app_assoc. reflexivity. Qed.

Lemma adjust_qs' n a m q : a <= n -> adjust_opt dbg (qf_qs n q) a m = Some (qf_qs (n - a + m) q).
Proof. intros H. destruct q; cbn [qf_qs adjust_opt]; [|reflexivity]. rewrite adjust_ge by exact H. reflexivity. Qed.

Lemma adjust_fs' n a m q f : a <= n -> adjust_opt dbg (qf_fs n q f) a m = Some (qf_fs (n - a + m) q f).
Proof.
  intros H. destruct f; cbn [qf_fs adjust_opt]; [|reflexivity]. rewrite adjust_ge by lia. cbn [bindo]. do 2 f_equal. lia.
Qed.

(* set_password with a non-empty argument *)
Theorem set_password_frame A U TL R se dhe dps hi pt q f y : usv_list y -> y <> [] ->
  cannot_have_credentials_or_port (cr_url A U TL R se dhe dps hi pt q f) = Some false ->
  set_password dbg (cr_url A U TL R se dhe dps hi pt q f) (Some y)
  = Some (cr_url A U (58 :: uenc y ++ [64]) R se dhe dps hi pt q f, SOk).
Proof.
  intros Hy Hne Hc. unfold set_password. rewrite Hc. cbn [bindo]. destruct y as [|y0 y']; [contradiction|].
  set (y := y0 :: y') in *.
  unfold u_slice_from. rewrite cr_ser.
  change (host_start (cr_url A U TL R se dhe dps hi pt q f)) with (nlen ((A ++ U) ++ TL)).
  change (username_end (cr_url A U TL R se dhe dps hi pt q f)) with (nlen (A ++ U)).
  change (host_end (cr_url A U TL R se dhe dps hi pt q f)) with (nlen ((A ++ U) ++ TL) + dhe).
  change (path_start (cr_url A U TL R se dhe dps hi pt q f)) with (nlen ((A ++ U) ++ TL) + dps).
  change (query_start (cr_url A U TL R se dhe dps hi pt q f)) with (qf_qs (nlen ((((A ++ U) ++ TL) ++ R))) q).
  change (fragment_start (cr_url A U TL R se dhe dps hi pt q f)) with (qf_fs (nlen ((((A ++ U) ++ TL) ++ R))) q f).
  rewrite slice_from_o_some by (rewrite !nlen_app; lia). rewrite nskipn_app_len. cbn [bindo].
  unfold truncate. rewrite <- (app_assoc (A ++ U)). rewrite nfirstn_app_len.
  rewrite push_encoded_eq by exact Hy. fold (uenc y).
  rewrite !adjust_ge by lia. cbn [bindo]. rewrite adjust_qs, adjust_fs. cbn [bindo].
  match goal with |- Some (?a, SOk) = Some (?b, SOk) => assert (a = b) as ->; [|reflexivity] end.
  unfold cr_url, qf_url. cbn [scheme_end hosti port]. f_equal; try (clear; llia); try (f_equal; clear; llia).
  rewrite <- !app_assoc. cbn [app]. rewrite <- !app_assoc. reflexivity.
Qed.

End Frame.

(* ---------- set_username ---------- *)
Lemma utf8_encode1_ascii_inv' c : Forall (fun b => b < 128) (utf8_encode1 c) -> utf8_encode1 c = [c].
Proof.
  unfold utf8_encode1. destruct (c <? 128) eqn:E1; [reflexivity|].
  destruct (c <? 2048) eqn:E2.
  { intros H. inversion H as [|? ? _ H1]; subst. inversion H1 as [|? ? Hx _]; subst. lia. }
  destruct (c <? 65536) eqn:E3.
  { intros H. inversion H as [|? ? _ H1]; subst. inversion H1 as [|? ? _ H2]; subst. inversion H2 as [|? ? Hx _]; subst. lia. }
  intros H. inversion H as [|? ? _ H1]; subst. inversion H1 as [|? ? _ H2]; subst. inversion H2 as [|? ? _ H3]; subst.
  inversion H3 as [|? ? Hx _]; subst. lia.
Qed.
Lemma utf8_encode_ascii_inv' l : ascii (utf8_encode l) -> utf8_encode l = l.
Proof.
  induction l as [|c r IH]; [reflexivity|]. unfold utf8_encode, ascii, is_ascii in *. cbn [flat_map]. intros H.
  apply Forall_app in H. destruct H as [H1 H2]. rewrite (utf8_encode1_ascii_inv' c H1), (IH H2). reflexivity.
Qed.

Lemma uenc_nil_inv x : uenc x = [] -> x = [].
Proof.
  destruct x as [|c r]; [reflexivity|]. unfold uenc, utf8_encode. cbn [flat_map]. unfold utf8_encode1.
  destruct (c <? 128); [|destruct (c <? 2048); [|destruct (c <? 65536)]]; cbn [app]; unfold encode; cbn [flat_map];
    match goal with |- context [if ?b then _ else _] => destruct b end; unfold enc_byte_spec; cbn [app]; discriminate.
Qed.

Definition un_pick {T} (e : bool) (after : list N) (k64t : list N -> T) (k64f k58 kt kf : T) : T :=
  match e, after with
  | true, 64 :: rest => k64t rest
  | false, 64 :: _ => k64f
  | _, 58 :: _ => k58
  | true, _ => kt
  | false, _ => kf
  end.

Lemma un_pick_64t {T} r (k64t : list N -> T) k64f k58 kt kf : un_pick true (64 :: r) k64t k64f k58 kt kf = k64t r.
Proof. reflexivity. Qed.
Lemma un_pick_64f {T} r (k64t : list N -> T) k64f k58 kt kf : un_pick false (64 :: r) k64t k64f k58 kt kf = k64f.
Proof. reflexivity. Qed.
Lemma un_pick_58 {T} e r (k64t : list N -> T) k64f k58 kt kf : un_pick e (58 :: r) k64t k64f k58 kt kf = k58.
Proof. destruct e; reflexivity. Qed.
Lemma un_pick_other {T} e c r (k64t : list N -> T) k64f k58 kt kf : c <> 58 -> c <> 64 ->
  un_pick e (c :: r) k64t k64f k58 kt kf = if e then kt else kf.
Proof.
  intros H1 H2. unfold un_pick. destruct c as [|p]; [destruct e; reflexivity|].
  repeat match goal with p : positive |- _ => destruct p as [p|p|]; try (destruct e; reflexivity) end;
    exfalso; (apply H1; reflexivity) || (apply H2; reflexivity).
Qed.

Lemma un_pick_other' {T} e after c r (k64t : list N -> T) k64f k58 kt kf : after = c :: r -> c <> 58 -> c <> 64 ->
  un_pick e after k64t k64f k58 kt kf = if e then kt else kf.
Proof. intros ->. apply un_pick_other. Qed.

Section FrameUser.
Variable dbg : bool.
Variables (sch R : list N) (dhe dps : N) (hi : host_internal) (pt : option N) (q f : option (list N)).
Notation A := (sch ++ s_css).
Notation CU U TL := (cr_url A U TL R (nlen sch) dhe dps hi pt q f).

Lemma nlenA : nlen A = nlen sch + 3.
Proof. rewrite nlen_app. reflexivity. Qed.

Lemma new_empty_iff E : (nlen (A ++ E) =? nlen sch + 3) = match E with [] => true | _ => false end.
Proof. rewrite nlen_app, nlenA. destruct E as [|e E']; [rewrite nlen_nil | rewrite nlen_cons]; lia. Qed.

(* everything up to the five-way case distinction *)
Lemma set_username_pre U TL x : usv_list x -> cannot_have_credentials_or_port (CU U TL) = Some false ->
  set_username dbg (CU U TL) x
  = if list_eqb U (utf8_encode x) then Some (CU U TL, SOk) else
    (let s := A ++ uenc x in let after_username := TL ++ R ++ qf_text q f in
     let removed0 := nlen (A ++ U) in let new_ue := nlen s in
     let '(s', removed, added) :=
       un_pick (match uenc x with [] => true | _ => false end) after_username
         (fun rest => (s ++ rest, removed0 + 1, new_ue)) (s ++ after_username, removed0, new_ue)
         (s ++ after_username, removed0, new_ue) (s ++ after_username, removed0, new_ue)
         (s ++ [64] ++ after_username, removed0, new_ue + 1) in
     hs <- adjust dbg (nlen ((A ++ U) ++ TL)) removed added ;;
     he <- adjust dbg (nlen ((A ++ U) ++ TL) + dhe) removed added ;;
     ps <- adjust dbg (nlen ((A ++ U) ++ TL) + dps) removed added ;;
     qs <- adjust_opt dbg (qf_qs (nlen (((A ++ U) ++ TL) ++ R)) q) removed added ;;
     fs <- adjust_opt dbg (qf_fs (nlen (((A ++ U) ++ TL) ++ R)) q f) removed added ;;
     Some (mkUrl s' (nlen sch) new_ue hs he hi pt ps qs fs, SOk)).
Proof.
  intros Hx Hc. unfold set_username. rewrite Hc. cbn [bindo].
  unfold u_slice, u_slice_from. rewrite cr_ser.
  change (scheme_end (CU U TL)) with (nlen sch).
  change (host_start (CU U TL)) with (nlen ((A ++ U) ++ TL)).
  change (username_end (CU U TL)) with (nlen (A ++ U)).
  change (host_end (CU U TL)) with (nlen ((A ++ U) ++ TL) + dhe).
  change (path_start (CU U TL)) with (nlen ((A ++ U) ++ TL) + dps).
  change (query_start (CU U TL)) with (qf_qs (nlen ((((A ++ U) ++ TL) ++ R))) q).
  change (fragment_start (CU U TL)) with (qf_fs (nlen ((((A ++ U) ++ TL) ++ R))) q f).
  change (hosti (CU U TL)) with hi. change (port (CU U TL)) with pt.
  set (SER := ((A ++ U) ++ TL) ++ R ++ qf_text q f).
  assert (SER = sch ++ s_css ++ U ++ TL ++ R ++ qf_text q f) as E1 by (unfold SER; rewrite <- !app_assoc; reflexivity).
  assert ((if dbg then x0 <- slice_o SER (nlen sch) (nlen sch + 3) ;; assert_o (list_eqb x0 s_css) else Some tt) = Some tt) as ->.
  { destruct dbg; [|reflexivity]. rewrite E1. rewrite slice_o_some by (clear; unfold s_css; llia).
    rewrite nskipn_app_len. replace (nlen sch + 3 - nlen sch) with (nlen s_css) by (clear; unfold s_css; llia).
    rewrite nfirstn_app_len. reflexivity. }
  cbn [bindo].
  assert (slice_o SER (nlen sch + 3) (nlen (A ++ U)) = Some U) as ->.
  { rewrite slice_o_some by (unfold SER; clear; unfold s_css; llia). rewrite <- nlenA. unfold SER.
    replace (((A ++ U) ++ TL) ++ R ++ qf_text q f) with (A ++ U ++ (TL ++ R ++ qf_text q f)) by (rewrite <- !app_assoc; reflexivity).
    rewrite nskipn_app_len. replace (nlen (A ++ U) - nlen A) with (nlen U) by (clear; llia).
    rewrite nfirstn_app_len. reflexivity. }
  cbn [bindo]. destruct (list_eqb U (utf8_encode x)); [reflexivity|].
  assert (slice_from_o SER (nlen (A ++ U)) = Some (TL ++ R ++ qf_text q f)) as ->.
  { rewrite slice_from_o_some by (unfold SER; clear; llia). unfold SER. rewrite <- (app_assoc (A ++ U)). rewrite nskipn_app_len. reflexivity. }
  cbn [bindo].
  assert (truncate SER (nlen sch + 3) = A) as ->.
  { unfold truncate, SER. rewrite <- nlenA.
    replace (((A ++ U) ++ TL) ++ R ++ qf_text q f) with (A ++ U ++ (TL ++ R ++ qf_text q f)) by (rewrite <- !app_assoc; reflexivity).
    apply nfirstn_app_len. }
  rewrite push_encoded_eq by exact Hx. fold (uenc x). rewrite new_empty_iff. reflexivity.
Qed.

End FrameUser.

(* ================= the spliced texts ================= *)
(* ':' y '@' behind the username *)
Definition splice_password (u : url) (y : list N) : list N :=
  nfirstn (username_end u) (ser u) ++ 58 :: y ++ 64 :: nskipn (host_start u) (ser u).
(* x in the username position; behind it the old ":password@" if there is one, otherwise '@' unless x is empty *)
Definition splice_username (u : url) (x : list N) : list N :=
  nfirstn (scheme_end u + 3) (ser u) ++ x
  ++ (if byte_eqb (ser u) (username_end u) 58 then nskipn (username_end u) (ser u)
      else match x with [] => [] | _ => [64] end ++ nskipn (host_start u) (ser u)).

(* is the scheme of the record special? *)
Definition sp_of (u : url) : bool := st_is_special (scheme_type_of (nfirstn (scheme_end u) (ser u))).

(* ================= the canonical records with an authority ================= *)
Section CredAuth.
Variable dbg : bool.
Variable hp hpo : list N -> result host.
Variable hd : host -> list N.
Hypothesis HRT : HostRT hp hpo hd.

Notation auth_ok := (auth_ok hp hpo hd).
Notation auth_url := (auth_url hd).
Notation auth_ser := (auth_ser hd).
Notation auth_front := (auth_front hd).
Notation host_ok := (host_ok hp hpo hd).

Lemma auth_url_cr sch ui h pt p q f :
  auth_url sch ui h pt p q f
  = cr_url (sch ++ s_css) (ui_user ui) (ui_tail ui) (hd h ++ port_text pt ++ pth_text p) (nlen sch) (nlen (hd h))
           (nlen (hd h ++ port_text pt)) (hi_of_host h) pt q f.
Proof.
  unfold C02_Auth.auth_url, cr_url, qf_url, C02_Auth.auth_ser, C02_Auth.auth_pre, C02_Auth.auth_front, s_css.
  rewrite (ui_text_split ui).
  assert (ui_ulen ui = nlen (ui_user ui)) as -> by (destruct ui; reflexivity).
  f_equal; try (clear; llia); try (f_equal; clear; llia).
  rewrite <- !app_assoc. reflexivity.
Qed.

Lemma auth_ok_ui st sch ui h pt p q f ui' : auth_ok st sch ui h pt p q f -> h <> HDomain [] -> ui_ok ui' ->
  nlen (auth_ser sch ui' h pt p q f) <= U32_MAX_P -> auth_ok st sch ui' h pt p q f.
Proof.
  intros K Hne Hui Hb. destruct K as [Ksch Kst Kui Kh Kemp Kpt Kp Kq Kf Kb Kbq Kbf].
  destruct (qf_bounds _ _ _ _ Hb) as [B1 B2]. constructor; try assumption.
  - intros E. contradiction.
  - unfold C02_Auth.auth_ser, C02_Auth.auth_pre in Hb. rewrite !nlen_app in Hb. lia.
Qed.

Lemma ui_user_clean ui : ui_ok ui -> clean T_USERINFO (ui_user ui) = true.
Proof. destruct ui as [|u|u p]; cbn [ui_ok ui_user]; [reflexivity | tauto | tauto]. Qed.

Lemma uenc_clean x : usv_list x -> clean T_USERINFO (uenc x) = true.
Proof. intros H. apply encode_is_clean; [reflexivity|]. apply utf8_encode_bytes. exact H. Qed.

(* ---------- set_password ---------- *)
Theorem set_password_auth st sch ui h pt p q f y : auth_ok st sch ui h pt p q f -> st_is_file st = false ->
  h <> HDomain [] -> usv_list y -> y <> [] ->
  set_password dbg (auth_url sch ui h pt p q f) (Some y)
  = Some (auth_url sch (UPw (ui_user ui) (uenc y)) h pt p q f, SOk).
Proof.
  intros K Hnf Hne Hy Hyn.
  pose proof (auth_cannot_port hp hpo hd st sch ui h pt p q f K Hnf) as Hc.
  assert (match h with HDomain [] => true | _ => false end = false) as Eh by (destruct h as [[|d0 d]|a|pcs]; try reflexivity; contradiction).
  rewrite Eh in Hc. rewrite (auth_url_cr sch (UPw (ui_user ui) (uenc y))). rewrite auth_url_cr in Hc |- *.
  exact (set_password_frame dbg _ _ _ _ _ _ _ _ _ _ _ y Hy Hyn Hc).
Qed.

(* ---------- set_username ---------- *)
Definition ui_set_user (ui : uinfo) (E : list N) : uinfo :=
  match ui with
  | UPw _ p => UPw E p
  | _ => match E with [] => UNone | _ => UUser E end
  end.

Lemma ui_set_user_ok ui E : ui_ok ui -> clean T_USERINFO E = true -> ui_ok (ui_set_user ui E).
Proof.
  intros Hui HE. destruct ui as [|u|u p]; cbn [ui_set_user ui_ok] in *.
  - destruct E; [exact I | split; [exact HE | discriminate]].
  - destruct E; [exact I | split; [exact HE | discriminate]].
  - tauto.
Qed.

Lemma hd_head st h : host_ok st h -> h <> HDomain [] -> exists c r, hd h = c :: r /\ c <> 58 /\ c <> 64.
Proof.
  intros [[-> _]|(Hne & Ht & _)] Hn; [contradiction|]. destruct (host_text_facts _ Ht) as [Hf H58].
  destruct Ht as (_ & Hnn & _). destruct (hd h) as [|c r] eqn:E; [contradiction|]. exists c, r. split; [reflexivity|].
  cbn [forallb] in Hf. apply andb_true_iff in Hf. destruct Hf as [Hc _]. unfold plainc in Hc.
  apply andb_true_iff in Hc. destruct Hc as [Hc _]. apply andb_true_iff in Hc. destruct Hc as [_ Hc]. apply negb_true_iff in Hc. lia.
Qed.

Lemma uenc_clean_id U : clean T_USERINFO U = true -> uenc U = U.
Proof. intros H. unfold uenc. rewrite utf8_encode_ascii by (apply (clean_ascii T_USERINFO); exact H). apply encode_clean. exact H. Qed.

Ltac rec_eq :=
  match goal with |- Some (?a, SOk) = Some (?b, SOk) => assert (a = b) as ->; [|reflexivity] end;
  rewrite auth_url_cr; unfold cr_url, qf_url; cbn [ui_user ui_tail];
  f_equal; try (clear; unfold s_css; llia); try (f_equal; clear; unfold s_css; llia);
  try (rewrite <- !app_assoc; cbn [app]; rewrite <- ?app_assoc; reflexivity).

Theorem set_username_auth st sch ui h pt p q f x : auth_ok st sch ui h pt p q f -> st_is_file st = false ->
  h <> HDomain [] -> usv_list x ->
  set_username dbg (auth_url sch ui h pt p q f) x
  = Some (auth_url sch (ui_set_user ui (uenc x)) h pt p q f, SOk).
Proof.
  intros K Hnf Hne Hx.
  pose proof (auth_cannot_port hp hpo hd st sch ui h pt p q f K Hnf) as Hc.
  assert (match h with HDomain [] => true | _ => false end = false) as Eh by (destruct h as [[|d0 d]|a|pcs]; try reflexivity; contradiction).
  rewrite Eh in Hc. pose proof (ak_ui _ _ _ _ _ _ _ _ _ _ _ K) as Kui.
  destruct (hd_head st h (ak_h _ _ _ _ _ _ _ _ _ _ _ K) Hne) as (c0 & r0 & Ehd & Hc58 & Hc64).
  rewrite (auth_url_cr sch ui) in Hc |- *.
  rewrite (set_username_pre dbg sch _ _ _ _ _ _ _ _ _ x Hx Hc).
  destruct (list_eqb (ui_user ui) (utf8_encode x)) eqn:Hsc.
  - apply list_eqb_spec in Hsc. pose proof (ui_user_clean ui Kui) as Hcl.
    assert (utf8_encode x = x) as Ex by (apply utf8_encode_ascii_inv'; rewrite <- Hsc; apply (clean_ascii T_USERINFO); exact Hcl).
    rewrite Ex in Hsc. subst x. rewrite (uenc_clean_id _ Hcl). rewrite <- auth_url_cr.
    do 3 f_equal. destruct ui as [|u|u pw]; cbn [ui_set_user ui_user]; try reflexivity.
    destruct Kui as [_ Hn]. destruct u; [contradiction | reflexivity].
  - cbv zeta. destruct ui as [|u|u pw]; cbn [ui_user ui_tail ui_set_user] in *.
    + (* no credentials so far *)
      destruct (uenc x) as [|e E'] eqn:EE.
      { apply uenc_nil_inv in EE. subst x. discriminate Hsc. }
      erewrite un_pick_other'; [| cbn [app]; rewrite Ehd; reflexivity | assumption | assumption].
      rewrite !adjust_ge by (clear; llia). cbn [bindo]. rewrite adjust_qs', adjust_fs' by (clear; llia). cbn [bindo].
      rec_eq.
    + destruct (uenc x) as [|e E'] eqn:EE; cbn [app].
      * rewrite un_pick_64t. rewrite !adjust_ge by (clear; llia). cbn [bindo]. rewrite adjust_qs', adjust_fs' by (clear; llia). cbn [bindo].
        rec_eq.
      * rewrite un_pick_64f. rewrite !adjust_ge by (clear; llia). cbn [bindo]. rewrite adjust_qs', adjust_fs' by (clear; llia). cbn [bindo].
        rec_eq.
    + cbn [app]. rewrite un_pick_58. rewrite !adjust_ge by (clear; llia). cbn [bindo]. rewrite adjust_qs', adjust_fs' by (clear; llia). cbn [bindo].
      rec_eq.
Qed.

(* ---------- the parser on the spliced texts ---------- *)
Definition auth_rest (h : host) (pt : option N) (p : pth) (q f : option (list N)) : list N :=
  hd h ++ port_text pt ++ pth_text p ++ qf_text q f.

Lemma auth_ser_rest sch ui h pt p q f : auth_ser sch ui h pt p q f = (sch ++ s_css) ++ ui_text ui ++ auth_rest h pt p q f.
Proof. unfold C02_Auth.auth_ser, C02_Auth.auth_pre, C02_Auth.auth_front, auth_rest, s_css. rewrite <- !app_assoc. reflexivity. Qed.

Lemma rest_above st sch ui h pt p q f : auth_ok st sch ui h pt p q f -> forallb above_space (auth_rest h pt p q f) = true.
Proof.
  intros K. pose proof (auth_ser_okc hp hpo hd HRT _ _ _ _ _ _ _ _ K) as H. rewrite auth_ser_rest in H.
  rewrite !forallb_app in H. apply andb_true_iff in H. destruct H as [_ H]. apply andb_true_iff in H. destruct H as [_ H].
  apply okc_above. exact H.
Qed.

Lemma rest_not_nil st h pt p q f : host_ok st h -> h <> HDomain [] -> auth_rest h pt p q f <> [].
Proof.
  intros Kh Hne. destruct (hd_head st h Kh Hne) as (c & r & E & _). unfold auth_rest. rewrite E. discriminate.
Qed.

(* the last three states on the canonical rest of the record *)
Lemma rest_states st sch ui h pt p q f : auth_ok st sch ui h pt p q f -> auth_cls st p ->
  (forall count last, scan_last_at (st_is_special st) (auth_rest h pt p q f) count last = last)
  /\ parse_host_and_port hp hpo hd CUrlParser st (nlen sch) (((sch ++ [58]) ++ [47; 47]) ++ ui_text ui) (auth_rest h pt p q f)
     = POk (auth_front sch ui h pt, nlen (((sch ++ [58]) ++ [47; 47]) ++ ui_text ui) + nlen (hd h), hi_of_host h, pt,
            pth_text p ++ qf_text q f)
  /\ parse_path_start dbg CUrlParser st true (auth_front sch ui h pt) (pth_text p ++ qf_text q f)
     = POk (C02_Auth.auth_pre hd sch ui h pt p, true, qf_text q f)
  /\ parse_query_and_fragment None CUrlParser st (nlen sch) (C02_Auth.auth_pre hd sch ui h pt p) (qf_text q f)
     = POk (auth_ser sch ui h pt p q f, qf_qs (nlen (C02_Auth.auth_pre hd sch ui h pt p)) q,
            qf_fs (nlen (C02_Auth.auth_pre hd sch ui h pt p)) q f).
Proof.
  intros K Hc. pose proof (auth_cls_nf st p Hc) as Hnf. destruct K as [Ksch Kst Kui Kh Kemp Kpt Kp Kq Kf Kb Kbq Kbf].
  assert (tail_ok (pth_text p ++ qf_text q f)) as Htail by (apply pth_tail; apply qf_qh_ok).
  split; [|split; [|split]].
  - apply (auth_scan hp hpo hd HRT st h pt _ Kh (fun E => proj2 (Kemp E)) (port_ok_le _ _ Kpt) Htail).
  - apply (phap_canon hp hpo hd HRT); try assumption. exact (fun E => proj2 (Kemp E)).
  - apply (pps_cls dbg hp hpo hd); [exact Kh | exact Hc | apply qf_qh_ok].
  - apply pqf_canon; [reflexivity | exact Kq | exact Kf | exact Kbq | exact Kbf].
Qed.

Lemma cr_slices A U TL R se dhe dps hi pt q f :
  nfirstn (nlen (A ++ U)) (ser (cr_url A U TL R se dhe dps hi pt q f)) = A ++ U
  /\ nskipn (nlen (A ++ U)) (ser (cr_url A U TL R se dhe dps hi pt q f)) = TL ++ R ++ qf_text q f
  /\ nskipn (nlen ((A ++ U) ++ TL)) (ser (cr_url A U TL R se dhe dps hi pt q f)) = R ++ qf_text q f
  /\ nfirstn (nlen A) (ser (cr_url A U TL R se dhe dps hi pt q f)) = A
  /\ byte_eqb (ser (cr_url A U TL R se dhe dps hi pt q f)) (nlen (A ++ U)) 58 = head_is (TL ++ R ++ qf_text q f) 58.
Proof.
  rewrite cr_ser. split; [|split; [|split; [|split]]].
  - rewrite <- (app_assoc (A ++ U)). apply nfirstn_app_len.
  - rewrite <- (app_assoc (A ++ U)). apply nskipn_app_len.
  - apply nskipn_app_len.
  - rewrite <- (app_assoc (A ++ U)), <- (app_assoc A). apply nfirstn_app_len.
  - rewrite <- (app_assoc (A ++ U)). apply byte_eqb_head. reflexivity.
Qed.

(* WHOLE-URL agreement for set_password (non-empty argument free of TAB/LF/CR, '@' and the authority delimiters) *)
Theorem splice_password_auth_parse st sch ui h pt p q f y u' : auth_ok st sch ui h pt p q f -> auth_cls st p ->
  usv_list y -> y <> [] -> forallb (plainc (st_is_special st)) y = true ->
  set_password dbg (auth_url sch ui h pt p q f) (Some y) = Some (u', SOk) -> h <> HDomain [] -> nlen (ser u') <= U32_MAX_P ->
  parse_url dbg hp hpo hd None None (splice_password (auth_url sch ui h pt p q f) y) = POk u'.
Proof.
  intros K Hc Hy Hyn Hpl E Hne Hb. pose proof (auth_cls_nf st p Hc) as Hnf.
  rewrite (set_password_auth st sch ui h pt p q f y K Hnf Hne Hy Hyn) in E. inversion E; subst u'. clear E.
  cbn [ser C02_Auth.auth_url] in Hb.
  pose proof (ak_ui _ _ _ _ _ _ _ _ _ _ _ K) as Kui. pose proof (ui_user_clean ui Kui) as Hcl.
  assert (ui_ok (UPw (ui_user ui) (uenc y))) as Kui'.
  { split; [exact Hcl|]. split; [apply uenc_clean; exact Hy|]. intros E0. apply uenc_nil_inv in E0. contradiction. }
  pose proof (auth_ok_ui st sch ui h pt p q f _ K Hne Kui' Hb) as K'.
  destruct (rest_states st sch (UPw (ui_user ui) (uenc y)) h pt p q f K' Hc) as (S1 & S2 & S3 & S4).
  pose proof (rest_above _ _ _ _ _ _ _ _ K) as Hab. pose proof (rest_not_nil st h pt p q f (ak_h _ _ _ _ _ _ _ _ _ _ _ K) Hne) as Hrn.
  assert (splice_password (auth_url sch ui h pt p q f) y
          = sch ++ 58 :: 47 :: 47 :: (ui_user ui ++ 58 :: y ++ 64 :: auth_rest h pt p q f)) as ->.
  { unfold splice_password. rewrite auth_url_cr.
    change (username_end (cr_url (sch ++ s_css) (ui_user ui) (ui_tail ui) (hd h ++ port_text pt ++ pth_text p) (nlen sch) (nlen (hd h))
              (nlen (hd h ++ port_text pt)) (hi_of_host h) pt q f)) with (nlen ((sch ++ s_css) ++ ui_user ui)).
    change (host_start (cr_url (sch ++ s_css) (ui_user ui) (ui_tail ui) (hd h ++ port_text pt ++ pth_text p) (nlen sch) (nlen (hd h))
              (nlen (hd h ++ port_text pt)) (hi_of_host h) pt q f)) with (nlen (((sch ++ s_css) ++ ui_user ui) ++ ui_tail ui)).
    destruct (cr_slices (sch ++ s_css) (ui_user ui) (ui_tail ui) (hd h ++ port_text pt ++ pth_text p) (nlen sch) (nlen (hd h))
              (nlen (hd h ++ port_text pt)) (hi_of_host h) pt q f) as (C1 & _ & C3 & _). rewrite C1, C3.
    unfold auth_rest, s_css. rewrite <- !app_assoc. reflexivity. }
  pose proof (ak_b _ _ _ _ _ _ _ _ _ _ _ K') as Kb'. pose proof (front_len hd sch (UPw (ui_user ui) (uenc y)) h pt) as FL.
  apply (auth_parse dbg hp hpo hd st sch (UPw (ui_user ui) (uenc y)) h pt p q f _ (auth_rest h pt p q f) (pth_text p ++ qf_text q f) (qf_text q f) true K').
  - destruct Hc as [[-> _]|[-> _]]; [left; reflexivity | right; split; [reflexivity|]].
    destruct (ui_user ui) as [|c r] eqn:EU; [cbn [app]; split; reflexivity|]. cbn [app]. apply plain_not_slash.
    pose proof (clean_ui_plain true _ Hcl) as Hp. cbn [forallb] in Hp. apply andb_true_iff in Hp. tauto.
  - intros E0. apply (f_equal (@length N)) in E0. rewrite !app_length in E0. cbn [length] in E0. lia.
  - replace (ui_user ui ++ 58 :: y ++ 64 :: auth_rest h pt p q f) with ((ui_user ui ++ 58 :: y ++ [64]) ++ auth_rest h pt p q f)
      by (rewrite <- !app_assoc; cbn [app]; rewrite <- !app_assoc; reflexivity). apply first_ok_rev_app; [exact Hrn | apply forallb_above; exact Hab].
  - cbn [ui_text ui_ulen]. rewrite <- !app_assoc.
    rewrite (parse_userinfo_raw_pw st _ (ui_user ui) y (auth_rest h pt p q f) Hy Hcl Hpl Hyn S1) by (clear - Kb' FL; cbn [ui_text] in FL; llia).
    rewrite <- !app_assoc. reflexivity.
  - exact S2.
  - exact S3.
  - exact S4.
Qed.

(* ---------- set_username ---------- *)
Lemma rest_first_ok st sch ui h pt p q f Y : auth_ok st sch ui h pt p q f -> h <> HDomain [] ->
  first_ok (rev (Y ++ auth_rest h pt p q f)).
Proof.
  intros K Hne. apply first_ok_rev_app; [exact (rest_not_nil st h pt p q f (ak_h _ _ _ _ _ _ _ _ _ _ _ K) Hne)|].
  apply forallb_above. exact (rest_above _ _ _ _ _ _ _ _ K).
Qed.

(* a raw username x, an optional canonical password, '@' *)
Lemma user_parse st sch ui' h pt p q f x pw : auth_ok st sch ui' h pt p q f -> auth_cls st p -> h <> HDomain [] ->
  ui_text ui' = uenc x ++ pw_text pw ++ [64] -> ui_ulen ui' = nlen (uenc x) ->
  usv_list x -> forallb (fun c => plainc (st_is_special st) c && negb (c =? 58)) x = true ->
  match pw with Some p0 => clean T_USERINFO p0 = true /\ p0 <> [] | None => x <> [] end ->
  parse_url dbg hp hpo hd None None (sch ++ 58 :: 47 :: 47 :: x ++ pw_text pw ++ 64 :: auth_rest h pt p q f)
  = POk (auth_url sch ui' h pt p q f).
Proof.
  intros K' Hc Hne Et El Hx Hpl Hpw.
  destruct (rest_states st sch ui' h pt p q f K' Hc) as (S1 & S2 & S3 & S4).
  pose proof (ak_b _ _ _ _ _ _ _ _ _ _ _ K') as Kb'. pose proof (front_len hd sch ui' h pt) as FL. pose proof (ui_ulen_le ui') as UL.
  apply (auth_parse dbg hp hpo hd st sch ui' h pt p q f _ (auth_rest h pt p q f) (pth_text p ++ qf_text q f) (qf_text q f) true K').
  - destruct Hc as [[-> _]|[-> _]]; [left; reflexivity | right; split; [reflexivity|]].
    destruct x as [|c r]; cbn [app].
    + destruct pw as [p0|]; [cbn [pw_text app]; split; reflexivity | contradiction].
    + apply plain_not_slash. cbn [forallb st_is_special] in Hpl. apply andb_true_iff in Hpl. destruct Hpl as [Hpl _].
      apply andb_true_iff in Hpl. tauto.
  - intros E0. apply (f_equal (@length N)) in E0. rewrite !app_length in E0. cbn [length] in E0. lia.
  - replace (x ++ pw_text pw ++ 64 :: auth_rest h pt p q f) with ((x ++ pw_text pw ++ [64]) ++ auth_rest h pt p q f)
      by (rewrite <- !app_assoc; cbn [app]; reflexivity).
    exact (rest_first_ok st sch ui' h pt p q f _ K' Hne).
  - rewrite (parse_userinfo_raw_user st _ x pw (auth_rest h pt p q f) Hx Hpl Hpw S1) by (clear - Kb' FL UL El; llia).
    rewrite Et, El. reflexivity.
  - exact S2.
  - exact S3.
  - exact S4.
Qed.

(* no userinfo at all *)
Lemma nouser_parse st sch h pt p q f : auth_ok st sch UNone h pt p q f -> auth_cls st p -> h <> HDomain [] ->
  parse_url dbg hp hpo hd None None (sch ++ 58 :: 47 :: 47 :: auth_rest h pt p q f) = POk (auth_url sch UNone h pt p q f).
Proof.
  intros K' Hc Hne.
  destruct (rest_states st sch UNone h pt p q f K' Hc) as (S1 & S2 & S3 & S4).
  pose proof (ak_b _ _ _ _ _ _ _ _ _ _ _ K') as Kb'. pose proof (front_len hd sch UNone h pt) as FL.
  apply (auth_parse dbg hp hpo hd st sch UNone h pt p q f _ (auth_rest h pt p q f) (pth_text p ++ qf_text q f) (qf_text q f) true K').
  - destruct Hc as [[-> _]|[-> _]]; [left; reflexivity | right; split; [reflexivity|]].
    exact (rest_head hp hpo hd UNone h _ I (ak_h _ _ _ _ _ _ _ _ _ _ _ K')).
  - exact (rest_not_nil st h pt p q f (ak_h _ _ _ _ _ _ _ _ _ _ _ K') Hne).
  - exact (rest_first_ok st sch UNone h pt p q f [] K' Hne).
  - apply (parse_userinfo_canon st _ UNone); [exact I | exact S1 | clear - Kb' FL; cbn [ui_ulen]; llia].
  - exact S2.
  - exact S3.
  - exact S4.
Qed.

(* WHOLE-URL agreement for set_username (argument free of TAB/LF/CR, ':', '@' and the authority delimiters) *)
Theorem splice_username_auth_parse st sch ui h pt p q f x u' : auth_ok st sch ui h pt p q f -> auth_cls st p ->
  usv_list x -> forallb (fun c => plainc (st_is_special st) c && negb (c =? 58)) x = true ->
  set_username dbg (auth_url sch ui h pt p q f) x = Some (u', SOk) -> h <> HDomain [] -> nlen (ser u') <= U32_MAX_P ->
  parse_url dbg hp hpo hd None None (splice_username (auth_url sch ui h pt p q f) x) = POk u'.
Proof.
  intros K Hc Hx Hpl E Hne Hb. pose proof (auth_cls_nf st p Hc) as Hnf.
  rewrite (set_username_auth st sch ui h pt p q f x K Hnf Hne Hx) in E. inversion E; subst u'. clear E.
  cbn [ser C02_Auth.auth_url] in Hb.
  pose proof (ak_ui _ _ _ _ _ _ _ _ _ _ _ K) as Kui.
  pose proof (ui_set_user_ok ui (uenc x) Kui (uenc_clean x Hx)) as Kui'.
  pose proof (auth_ok_ui st sch ui h pt p q f _ K Hne Kui' Hb) as K'.
  destruct (hd_head st h (ak_h _ _ _ _ _ _ _ _ _ _ _ K) Hne) as (c0 & r0 & Ehd & Hc58 & Hc64).
  unfold splice_username. rewrite auth_url_cr.
  change (scheme_end (cr_url (sch ++ s_css) (ui_user ui) (ui_tail ui) (hd h ++ port_text pt ++ pth_text p) (nlen sch) (nlen (hd h))
            (nlen (hd h ++ port_text pt)) (hi_of_host h) pt q f)) with (nlen sch).
  change (username_end (cr_url (sch ++ s_css) (ui_user ui) (ui_tail ui) (hd h ++ port_text pt ++ pth_text p) (nlen sch) (nlen (hd h))
            (nlen (hd h ++ port_text pt)) (hi_of_host h) pt q f)) with (nlen ((sch ++ s_css) ++ ui_user ui)).
  change (host_start (cr_url (sch ++ s_css) (ui_user ui) (ui_tail ui) (hd h ++ port_text pt ++ pth_text p) (nlen sch) (nlen (hd h))
            (nlen (hd h ++ port_text pt)) (hi_of_host h) pt q f)) with (nlen (((sch ++ s_css) ++ ui_user ui) ++ ui_tail ui)).
  replace (nlen sch + 3) with (nlen (sch ++ s_css)) by (clear; unfold s_css; llia).
  destruct (cr_slices (sch ++ s_css) (ui_user ui) (ui_tail ui) (hd h ++ port_text pt ++ pth_text p) (nlen sch) (nlen (hd h))
            (nlen (hd h ++ port_text pt)) (hi_of_host h) pt q f) as (_ & C2 & C3 & C4 & C5). rewrite C2, C3, C4, C5.
  assert ((hd h ++ port_text pt ++ pth_text p) ++ qf_text q f = auth_rest h pt p q f) as ER by (unfold auth_rest; rewrite <- !app_assoc; reflexivity).
  rewrite ER.
  destruct ui as [|u|u p0]; cbn [ui_tail ui_set_user app head_is] in *.
  - (* no credentials before *)
    assert (head_is (auth_rest h pt p q f) 58 = false) as -> by (unfold auth_rest; rewrite Ehd; cbn [app head_is]; lia).
    destruct x as [|c r].
    + change (uenc []) with (@nil N) in *. cbn [app]. unfold s_css. rewrite <- app_assoc. cbn [app].
      exact (nouser_parse st sch h pt p q f K' Hc Hne).
    + destruct (uenc (c :: r)) as [|e E'] eqn:EE; [apply uenc_nil_inv in EE; discriminate|]. rewrite <- EE in *.
      unfold s_css. rewrite <- !app_assoc. cbn [app].
      apply (user_parse st sch (UUser (uenc (c :: r))) h pt p q f (c :: r) None K' Hc Hne);
        [cbn [ui_text pw_text app]; reflexivity | reflexivity | exact Hx | exact Hpl | discriminate].
  - replace (64 =? 58) with false by reflexivity.
    destruct x as [|c r].
    + change (uenc []) with (@nil N) in *. cbn [app]. unfold s_css. rewrite <- app_assoc. cbn [app].
      exact (nouser_parse st sch h pt p q f K' Hc Hne).
    + destruct (uenc (c :: r)) as [|e E'] eqn:EE; [apply uenc_nil_inv in EE; discriminate|]. rewrite <- EE in *.
      unfold s_css. rewrite <- !app_assoc. cbn [app].
      apply (user_parse st sch (UUser (uenc (c :: r))) h pt p q f (c :: r) None K' Hc Hne);
        [cbn [ui_text pw_text app]; reflexivity | reflexivity | exact Hx | exact Hpl | discriminate].
  - replace (58 =? 58) with true by reflexivity. destruct Kui as (_ & Hp0 & Hp0n).
    replace ((sch ++ s_css) ++ x ++ 58 :: (p0 ++ [64]) ++ auth_rest h pt p q f)
      with (sch ++ 58 :: 47 :: 47 :: x ++ pw_text (Some p0) ++ 64 :: auth_rest h pt p q f)
      by (unfold s_css; cbn [pw_text]; rewrite <- ?app_assoc; cbn [app]; rewrite <- ?app_assoc; reflexivity).
    apply (user_parse st sch (UPw (uenc x) p0) h pt p q f x (Some p0) K' Hc Hne);
      [cbn [ui_text pw_text app]; rewrite <- ?app_assoc; reflexivity | reflexivity | exact Hx | exact Hpl | split; assumption].
Qed.

(* ---------- every canonical record ---------- *)
Lemma sp_of_auth st sch ui h pt p q f : auth_ok st sch ui h pt p q f -> sp_of (auth_url sch ui h pt p q f) = st_is_special st.
Proof.
  intros K. unfold sp_of. cbn [scheme_end ser C02_Auth.auth_url]. unfold C02_Auth.auth_ser, C02_Auth.auth_pre.
  rewrite <- app_assoc. rewrite (front_sch hd). rewrite (ak_st _ _ _ _ _ _ _ _ _ _ _ K). reflexivity.
Qed.

Lemma cred_ok_host st sch ui h pt p q f : auth_ok st sch ui h pt p q f -> st_is_file st = false ->
  cannot_have_credentials_or_port (auth_url sch ui h pt p q f) = Some false -> h <> HDomain [].
Proof.
  intros K Hnf Hc E. subst h. rewrite (auth_cannot_port hp hpo hd st sch ui _ pt p q f K Hnf) in Hc. discriminate Hc.
Qed.

Lemma cred_cases st sch ui h pt p q f : auth_ok st sch ui h pt p q f -> st_is_file st = false ->
  (h = HDomain [] /\ cannot_have_credentials_or_port (auth_url sch ui h pt p q f) = Some true)
  \/ (h <> HDomain [] /\ cannot_have_credentials_or_port (auth_url sch ui h pt p q f) = Some false).
Proof.
  intros K Hnf. rewrite (auth_cannot_port hp hpo hd st sch ui h pt p q f K Hnf).
  destruct h as [[|d0 d]|a|pcs]; [left; split; reflexivity | right | right | right]; split; try reflexivity; discriminate.
Qed.

Theorem splice_agreement_set_password u y u' : Canon hp hpo hd u -> usv_list y -> y <> [] ->
  forallb (plainc (sp_of u)) y = true ->
  set_password dbg u (Some y) = Some (u', SOk) -> nlen (ser u') <= U32_MAX_P ->
  parse_url dbg hp hpo hd None None (splice_password u y) = POk u'.
Proof.
  intros C Hy Hyn. destruct C as [sch P q f K | sch segs last q f K | sch ui h pt p q f K | sch ui h pt p q f K Kp].
  - intros _. unfold set_password, cannot_have_credentials_or_port, has_host. cbn [opaque_url hosti negb bindo]. discriminate.
  - intros _. unfold set_password, cannot_have_credentials_or_port, has_host. cbn [noauth_url hosti negb bindo]. discriminate.
  - rewrite (sp_of_auth _ _ _ _ _ _ _ _ K). intros Hpl E Hb.
    destruct (cred_cases _ _ _ _ _ _ _ _ K eq_refl) as [[_ Hc]|[Hne _]].
    { unfold set_password in E. rewrite Hc in E. discriminate E. }
    apply (splice_password_auth_parse STNotSpecial sch ui h pt p q f y u' K); try assumption.
    left. split; [reflexivity | exact (ak_p _ _ _ _ _ _ _ _ _ _ _ K)].
  - rewrite (sp_of_auth _ _ _ _ _ _ _ _ K). intros Hpl E Hb.
    destruct (cred_cases _ _ _ _ _ _ _ _ K eq_refl) as [[_ Hc]|[Hne _]].
    { unfold set_password in E. rewrite Hc in E. discriminate E. }
    apply (splice_password_auth_parse STSpecialNotFile sch ui h pt p q f y u' K); try assumption.
    right. split; [reflexivity | exact Kp].
Qed.

Theorem splice_agreement_set_username u x u' : Canon hp hpo hd u -> usv_list x ->
  forallb (fun c => plainc (sp_of u) c && negb (c =? 58)) x = true ->
  set_username dbg u x = Some (u', SOk) -> nlen (ser u') <= U32_MAX_P ->
  parse_url dbg hp hpo hd None None (splice_username u x) = POk u'.
Proof.
  intros C Hx. destruct C as [sch P q f K | sch segs last q f K | sch ui h pt p q f K | sch ui h pt p q f K Kp].
  - intros _. unfold set_username, cannot_have_credentials_or_port, has_host. cbn [opaque_url hosti negb bindo]. discriminate.
  - intros _. unfold set_username, cannot_have_credentials_or_port, has_host. cbn [noauth_url hosti negb bindo]. discriminate.
  - rewrite (sp_of_auth _ _ _ _ _ _ _ _ K). intros Hpl E Hb.
    destruct (cred_cases _ _ _ _ _ _ _ _ K eq_refl) as [[_ Hc]|[Hne _]].
    { unfold set_username in E. rewrite Hc in E. discriminate E. }
    apply (splice_username_auth_parse STNotSpecial sch ui h pt p q f x u' K); try assumption.
    left. split; [reflexivity | exact (ak_p _ _ _ _ _ _ _ _ _ _ _ K)].
  - rewrite (sp_of_auth _ _ _ _ _ _ _ _ K). intros Hpl E Hb.
    destruct (cred_cases _ _ _ _ _ _ _ _ K eq_refl) as [[_ Hc]|[Hne _]].
    { unfold set_username in E. rewrite Hc in E. discriminate E. }
    apply (splice_username_auth_parse STSpecialNotFile sch ui h pt p q f x u' K); try assumption.
    right. split; [reflexivity | exact Kp].
Qed.

End CredAuth.
