(* Proofs/Idna_WalkPass.v - the Passthrough clause of C11 WITHOUT the adapter premise H0.
   The simulation of Proofs/Idna_Sim.v needs the rediscovery premise only where the fail-fast run rejects an all-ASCII
   "xn--" label at once while the marking run sends it through the mapping path; there the marking run appends an
   AalOther entry to already_punycode.  Hence: an error-free marking run whose already_punycode has no AalOther
   entry is reproduced exactly by the fail-fast run - and a Passthrough result has no such entry. *)
From RU Require Import Base.Prelude Base.Utf8 Base.U32_c13 Gen.Tables Model.Punycode Model.Uts46
  Proofs.Idna_Sim Proofs.Idna_Api Proofs.Idna_Known Proofs.Idna_Hyp Proofs.Idna_Redisc
  Proofs.Idna_C10_Deny Proofs.Idna_C10_Prefix Proofs.Idna_C10_Inner Proofs.Idna_C10_Walk
  Proofs.Idna_Mark Proofs.Idna_MarkWalk Proofs.Idna_MarkFffd Proofs.Idna_WalkFun Proofs.Idna_WalkInv Proofs.Idna_WalkApi.

Section ORel.
Context {X : Type} (he_of : X -> bool) (ap_of : X -> list aal).
(* the fail-fast run left early and the marking run shows why (an error, or an AalOther entry), or they agree *)
Definition WO (rt rf : step X) : Prop :=
  (rt = SExit /\ match rf with SOk x => he_of x = true \/ In AalOther (ap_of x) | _ => True end) \/
  match rf with
  | SOk x => he_of x = false /\ rt = SOk x
  | SExit => False
  | SPanic s => rt = SPanic s
  end.
Lemma WO_of_R rt rf : R he_of rt rf -> WO rt rf.
Proof.
  unfold WO. destruct rf as [x| |s]; cbn [R]; intros H.
  - destruct (he_of x) eqn:E; [left; split; [exact H|left; reflexivity]|right; split; [reflexivity|exact H]].
  - contradiction.
  - destruct H as [H|H]; [left; split; [exact H|exact I]|right; exact H].
Qed.
End ORel.

Definition apT (x : list N * bool * list aal) : list aal := snd x.

Section Pass.
Variable A : adapter.
Variable cfg : bool.

Lemma complexF_other hy deny db he ap ascii non_ascii db' he' ap' :
  complexF A cfg false hy deny db he ap ascii non_ascii = SOk (db', he', ap') -> In AalOther ap'.
Proof.
  unfold complexF. intros H. apply sbind_ok in H. destruct H as ([c1 h1] & _ & H).
  destruct (split1 DOT (map (apply_lower deny) (map_normalize A (utf8_lossy non_ascii)))) as [s rest].
  apply (sublabels_ap A cfg) in H. destruct H as (k & ->). apply in_or_app. left. apply in_or_app. right. left. reflexivity.
Qed.

Lemma label_nonempty_WO hy deny label db ap :
  WO heT apT (label_nonempty A cfg true hy deny label db false ap) (label_nonempty A cfg false hy deny label db false ap).
Proof.
  rewrite !label_nonempty_eq. destruct (split_ascii_fast_path_prefix label) as [ascii non_ascii] eqn:Es.
  destruct non_ascii as [|na nr]; [|apply WO_of_R, complexF_R].
  destruct (has_punycode_prefix ascii) eqn:Eh; [|apply WO_of_R, complexT_R].
  destruct (negb match last_opt ascii with Some l => l =? HYPHEN | None => false end
            && (len ascii - 4 <=? PUNYCODE_DECODE_MAX_INPUT_LENGTH)) eqn:Ec.
  - destruct (decode_with cfg U8Internal (skipn 4 ascii)) as [dec| |s]; [|left; split; [reflexivity|left; reflexivity]|right; reflexivity].
    apply WO_of_R. apply R_bind with (hx := he2); [apply after_punycode_decode_R| |].
    + intros [l h] E. cbn [he2 snd] in E. subst h. apply R_bind with (hx := he2); [apply check_label_R| |].
      * intros [l2 h2] E. cbn [he2 snd] in E. subst h2. apply R_ok. reflexivity.
      * intros [l2 h2] E. cbn [he2 snd] in E. subst h2. reflexivity.
    + intros [l h] E. cbn [he2 snd] in E. subst h. apply M_bind with (hx := he2); [apply check_label_M|].
      intros [l2 h2] E. cbn [he2 snd] in E. subst h2. reflexivity.
  - left. split; [reflexivity|].
    destruct (complexF A cfg false hy deny db false ap ascii []) as [[[db' he'] ap']| |s] eqn:E; [|exact I|exact I].
    right. cbn [apT snd]. exact (complexF_other _ _ _ _ _ _ _ _ _ _ E).
Qed.

(* already_punycode only grows *)
Lemma label_step_ap hy deny label s s' : nodot label ->
  label_step A cfg false hy deny label s = SOk s' -> exists es, i_ap s' = i_ap s ++ es.
Proof.
  intros Hn. unfold label_step. destruct (i_inpre s && is_passthrough_ascii_label label).
  - intros H. inversion H. exists []. cbn [i_ap]. rewrite app_nil_r. reflexivity.
  - destruct label as [|b r].
    + intros H. inversion H. cbn [i_ap]. eauto.
    + intros H. apply sbind_ok in H. destruct H as ([[db1 he1] ap1] & H1 & H). inversion H. cbn [i_ap].
      pose proof (label_nonempty_LN A cfg hy deny (b :: r) (if i_seen s && negb (i_inpre s) then i_db s ++ [DOT] else i_db s)
                    (i_he s) (i_ap s) Hn) as HL.
      rewrite H1 in HL. destruct HL as (labs & es & _ & _ & _ & Hap & _). exists es. exact Hap.
Qed.
Lemma labels_loop_ap hy deny labels : Forall nodot labels -> forall s s',
  labels_loop A cfg false hy deny labels s = SOk s' -> exists es, i_ap s' = i_ap s ++ es.
Proof.
  induction labels as [|l r IH]; intros Hn s s' H; cbn [labels_loop] in H.
  - inversion H. exists []. rewrite app_nil_r. reflexivity.
  - apply sbind_ok in H. destruct H as (s1 & H1 & H).
    destruct (label_step_ap hy deny l s s1 (Forall_inv Hn) H1) as (e1 & E1).
    destruct (IH (Forall_inv_tail Hn) s1 s' H) as (e2 & E2). exists (e1 ++ e2). rewrite E2, E1, app_assoc. reflexivity.
Qed.

Lemma label_step_WO hy deny label s : i_he s = false ->
  WO i_he i_ap (label_step A cfg true hy deny label s) (label_step A cfg false hy deny label s).
Proof.
  intros Hs. unfold label_step.
  destruct (i_inpre s && is_passthrough_ascii_label label); [right; split; [exact Hs|reflexivity]|].
  destruct label as [|b r]; [right; split; [exact Hs|reflexivity]|].
  rewrite Hs. pose proof (label_nonempty_WO hy deny (b :: r) (if i_seen s && negb (i_inpre s) then i_db s ++ [DOT] else i_db s) (i_ap s)) as HW.
  destruct HW as [[-> HW]|HW].
  - left. split; [reflexivity|]. destruct (label_nonempty A cfg false hy deny (b :: r) _ false (i_ap s)) as [[[db1 he1] ap1]| |p]; cbn [sbind]; [|exact I|exact I].
    cbn [i_he i_ap]. exact HW.
  - destruct (label_nonempty A cfg false hy deny (b :: r) _ false (i_ap s)) as [[[db1 he1] ap1]| |p]; [|contradiction|].
    + destruct HW as [E ->]. cbn [heT snd fst] in E. subst he1. right. cbn [sbind]. split; reflexivity.
    + rewrite HW. right. reflexivity.
Qed.

Lemma labels_loop_WO hy deny labels : Forall nodot labels -> forall s, i_he s = false ->
  WO i_he i_ap (labels_loop A cfg true hy deny labels s) (labels_loop A cfg false hy deny labels s).
Proof.
  induction labels as [|l r IH]; intros Hn s Hs; cbn [labels_loop]; [right; split; [exact Hs|reflexivity]|].
  destruct (label_step_WO hy deny l s Hs) as [[-> HW]|HW].
  - left. split; [reflexivity|].
    destruct (label_step A cfg false hy deny l s) as [s1| |p]; cbn [sbind]; [|exact I|exact I].
    destruct (labels_loop A cfg false hy deny r s1) as [s'| |p] eqn:El; [|exact I|exact I].
    destruct HW as [HW|HW].
    + left. pose proof (labels_loop_M A cfg hy deny r s1 HW) as HM. rewrite El in HM. exact HM.
    + right. destruct (labels_loop_ap hy deny r (Forall_inv_tail Hn) s1 s' El) as (es & ->). apply in_or_app. left. exact HW.
  - destruct (label_step A cfg false hy deny l s) as [s1| |p]; [|contradiction|].
    + destruct HW as [E ->]. cbn [sbind]. exact (IH (Forall_inv_tail Hn) s1 E).
    + rewrite HW. right. reflexivity.
Qed.

Definition inner_osim (rt rf : inner_res) : Prop :=
  (rt = I_EXIT /\ match rf with IRes _ _ he _ ap => he = true \/ In AalOther ap | IPanic _ => True end) \/
  match rf with
  | IRes ptu b he db ap => he = false /\ rt = rf
  | IPanic s => rt = rf
  end.

Lemma process_innermost_osim hy deny d tail :
  inner_osim (process_innermost A cfg true hy deny d tail) (process_innermost A cfg false hy deny d tail).
Proof.
  unfold process_innermost.
  set (s0 := {| i_ptu := len d - len tail; i_seen := false; i_inpre := true; i_db := []; i_he := false; i_ap := [] |}).
  pose proof (labels_loop_WO hy deny (split_on DOT tail) (split_on_nodot tail) s0 eq_refl) as HW.
  destruct HW as [[-> HW]|HW].
  - left. split; [reflexivity|].
    destruct (labels_loop A cfg false hy deny (split_on DOT tail) s0) as [s| |p]; [|left; reflexivity|exact I].
    destruct (is_bidi A cfg (i_db s)) as [[|]| |p]; try exact I; [|exact HW].
    pose proof (bidi_labels_BLP A (split_on DOT (i_db s)) (i_he s)) as HB.
    destruct (bidi_labels A false (split_on DOT (i_db s)) (i_he s)) as [[ls he2]| |p] eqn:Eb; [|left; reflexivity|exact I].
    destruct HW as [HW|HW]; [|right; exact HW]. left.
    rewrite HW in Eb. pose proof (bidi_labels_M A (split_on DOT (i_db s))) as HM. rewrite Eb in HM. exact HM.
  - destruct (labels_loop A cfg false hy deny (split_on DOT tail) s0) as [s| |p]; [|contradiction|rewrite HW; right; reflexivity].
    destruct HW as [Eh ->]. rewrite Eh.
    destruct (is_bidi A cfg (i_db s)) as [[|]| |p]; try (right; reflexivity); [|right; split; reflexivity].
    pose proof (bidi_labels_R A (split_on DOT (i_db s))) as HB.
    destruct (bidi_labels A false (split_on DOT (i_db s)) false) as [[ls h]| |p]; cbn [R heL snd] in HB.
    + destruct h; rewrite HB; [left; split; [reflexivity|left; reflexivity]|right; split; reflexivity].
    + contradiction.
    + destruct HB as [-> | ->]; [left; split; [reflexivity|exact I]|right; reflexivity].
Qed.

Theorem process_inner_osim hy deny d :
  inner_osim (process_inner A cfg true hy deny d) (process_inner A cfg false hy deny d).
Proof.
  unfold process_inner. destruct (fast_tier d d) as [tail|].
  - apply process_innermost_osim.
  - right. split; reflexivity.
Qed.

(* an error-free marking run without AalOther entry is what the fail-fast run returns *)
Corollary ff_of_mark_noother hy deny d ptu bd db ap :
  process_inner A cfg false hy deny d = IRes ptu bd false db ap -> ~ In AalOther ap ->
  process_inner A cfg true hy deny d = IRes ptu bd false db ap.
Proof.
  intros H Hn. pose proof (process_inner_osim hy deny d) as HS. rewrite H in HS.
  destruct HS as [[_ [HS|HS]]|[_ HS]]; [discriminate|contradiction|exact HS].
Qed.

Lemma stays_no_other uni labels : forall ap, length labels = length ap -> stays uni labels ap = true -> ~ In AalOther ap.
Proof.
  induction labels as [|l ls IH]; intros ap Hlen Hs Hin; destruct ap as [|ip ips]; try discriminate; [destruct Hin|].
  cbn [stays length] in *. apply andb_true_iff in Hs. destruct Hs as [H1 H2].
  destruct Hin as [->|Hin]; [discriminate|]. exact (IH ips ltac:(lia) H2 Hin).
Qed.

(* the marking run that never leaves the passed-through prefix has an empty already_punycode *)
Lemma mark_all_prefix_ap hy deny d ptu bd he db ap :
  process_inner A cfg false hy deny d = IRes ptu bd he db ap -> ptu = len d -> ap = [].
Proof.
  unfold process_inner. destruct (fast_tier d d) as [tail|] eqn:Ef; [|intros H _; inversion H; reflexivity].
  assert (Hpre : exists pre, d = pre ++ tail).
  { destruct (fast_tier_suffix d d tail Ef) as [->|(pre & Hd)]; [exists []; reflexivity|exists pre; exact Hd]. }
  destruct Hpre as (pre & Hd). unfold process_innermost.
  set (s0 := {| i_ptu := len d - len tail; i_seen := false; i_inpre := true; i_db := []; i_he := false; i_ap := [] |}).
  assert (H0 : SInv d s0 (split_on DOT tail)).
  { exists pre. unfold s0. cbn [i_db i_ap i_ptu i_inpre i_seen i_he]. split; [rewrite Hd, len_app; lia|].
    repeat split. cbn [tailtext]. rewrite join_split. exact Hd. }
  pose proof (labels_loop_SInv A cfg d hy deny (split_on DOT tail) (split_on_nodot tail) s0 H0) as HL.
  destruct (labels_loop A cfg false hy deny (split_on DOT tail) s0) as [s| |p]; cbn [SPost] in HL; [|contradiction|discriminate].
  destruct HL as (P & HP & HS).
  assert (Hap : i_ptu s = len d -> i_ap s = []).
  { intros E. destruct (i_inpre s); [exact (proj1 (proj2 HS))|]. destruct HS as (_ & Hlt & _). lia. }
  destruct (is_bidi A cfg (i_db s)) as [[|]| |p]; try discriminate.
  - destruct (bidi_labels A false (split_on DOT (i_db s)) (i_he s)) as [[ls he2]| |p]; try discriminate.
    + intros H. inversion H. subst. exact Hap.
    + intros H _. inversion H. reflexivity.
  - intros H. inversion H. subst. exact Hap.
Qed.

(* to_ascii on the walking branch, given the fail-fast result *)
Lemma to_ascii_walk_t d deny hy ptu bd db ap :
  process_inner A cfg true hy deny d = IRes ptu bd false db ap -> InnerB d ptu bd false db ap ->
  forall P rl, d = P ++ join_dots rl -> len P = ptu -> cover ap rl ->
  stays is_ascii_l (split_on DOT db) ap = true -> to_ascii A cfg d deny hy DIgnore = Ok (true, d).
Proof.
  intros Ht HB P rl Hd HP Hcv Hst. destruct HB as (Hlt & Hlen & He1 & He2 & _).
  rewrite (to_ascii_B A cfg d deny hy _ _ _ _ Ht ltac:(lia) He2). cbv zeta.
  pose proof (walk1_spec cfg d false true never_unicode (tld_of db) bd (split_on DOT db) ap false ptu false false P rl Hlen
                ltac:(intros _; symmetry; exact He1)
                ltac:(intros _; split; [apply split_on_ne|cbn [tailtext]; repeat split; assumption])) as HW.
  rewrite (outs_agree cfg _ _ _ _ (agree_all _ _ (uni1_never (tld_of db) bd) _ _)) in HW.
  rewrite (stays_agree _ _ _ _ (agree_all _ _ (uni1_never (tld_of db) bd) _ _)) in HW.
  destruct (stays_outs cfg is_ascii_l _ _ Hst) as (os & Eo). rewrite Eo, Hst in HW.
  unfold Post1, Res1 in HW. cbn [negb andb] in HW. rewrite andb_false_r in HW. destruct HW as [_ HW]. rewrite HW. reflexivity.
Qed.

Theorem passthrough_own_result_all ff p d deny hy k1 k2 w s a : bytes d ->
  process A cfg ff p d deny hy k1 k2 w = (PPassthrough, s, a) -> Known_C11 A cfg d deny hy = false ->
  to_ascii A cfg d deny hy DIgnore = Ok (true, d).
Proof.
  intros Hb H HK.
  destruct (process_inner A cfg ff hy deny d) as [ptu bd he db ap|site] eqn:Ei.
  2:{ unfold process in H. rewrite Ei in H. discriminate. }
  destruct (inner_facts A cfg ff hy deny d _ _ _ _ _ Hb Ei) as [(-> & -> & -> & Hne)|[(-> & -> & Ha)|[HB Hm]]].
  - exfalso. unfold process in H. rewrite Ei in H.
    destruct (0 =? len d) eqn:E; [apply len_nil_iff in E; contradiction|]. cbn [andb] in H. discriminate.
  - assert (Ht : process_inner A cfg true hy deny d = IRes (len d) bd false db ap).
    { destruct ff; [exact Ei|]. apply ff_of_mark_noother; [exact Ei|].
      rewrite (mark_all_prefix_ap hy deny d _ _ _ _ _ Ei eq_refl). intros []. }
    unfold to_ascii, process. rewrite Ht, N.eqb_refl, andb_false_r. reflexivity.
  - assert (Hne : ptu <> len d) by (destruct HB as [Hlt _]; lia).
    assert (Hhe : he = false).
    { destruct he; [|reflexivity]. destruct ff.
      - exfalso. unfold process in H. rewrite Ei in H.
        replace (ptu =? len d) with false in H by (symmetry; apply N.eqb_neq; exact Hne). cbn [andb] in H. discriminate.
      - exfalso. pose proof (mark_err_status A cfg d deny hy p k1 k2 w _ _ _ _ Ei HK) as HX. rewrite H in HX. exact HX. }
    subst he.
    assert (Hfd : false = fffd db) by (destruct HB as (_ & _ & _ & Hx & _); exact Hx).
    rewrite (process_B A cfg ff p d deny hy k1 k2 w _ _ _ _ _ Ei Hne (andb_false_r ff) Hfd) in H. cbv zeta in H.
    pose proof HB as (_ & Hlen & He1 & _ & _ & P & rl & Hd & HP & Hcv & HaP & Hma).
    pose proof (walk1_spec cfg d false ff p (tld_of db) bd (split_on DOT db) ap false ptu false false P rl Hlen
                  ltac:(intros _; symmetry; exact He1)
                  ltac:(intros _; split; [apply split_on_ne|cbn [tailtext]; repeat split; assumption])) as HW.
    destruct (walk1 cfg ff p d (tld_of db) bd false (split_on DOT db) ap false ptu false false) as [ws we].
    cbn [fst snd] in *. destruct (run_sink k1 ws) as [s1 th]. destruct th; cbn [negb] in H; [|discriminate].
    destruct we as [|huo|site]; [| |discriminate].
    2:{ destruct (huo && w); [|discriminate].
        destruct (run_sink k2 (fst (walk2 cfg d false (split_on DOT db) ap false ptu false))) as [s2 th2].
        destruct th2; cbn [negb] in H; [|discriminate].
        destruct (snd (walk2 cfg d false (split_on DOT db) ap false ptu false)); discriminate. }
    unfold Post1 in HW. destruct (outs cfg (uni1 ff p (tld_of db) bd) (split_on DOT db) ap) as [os|site]; [|discriminate].
    unfold Res1 in HW. cbn [negb andb snd] in HW.
    destruct (stays (uni1 ff p (tld_of db) bd) (split_on DOT db) ap) eqn:Es; [|destruct HW; discriminate].
    pose proof (stays_below _ is_ascii_l (uni1_false_nonascii ff p (tld_of db) bd) _ _ Es) as Es2.
    assert (Ht : process_inner A cfg true hy deny d = IRes ptu bd false db ap).
    { apply ff_of_mark_noother; [exact Hm|]. exact (stays_no_other _ _ _ Hlen Es). }
    exact (to_ascii_walk_t d deny hy _ _ _ _ Ht HB P rl Hd HP Hcv Es2).
Qed.
End Pass.

(* C11_passthrough_statement for EVERY adapter *)
Lemma c11_passthrough_all : forall A cfg, C11_passthrough_statement A cfg.
Proof.
  intros A cfg ff p d deny hy k1 k2 w s a Hb Hv H Hk. split.
  - exact (passthrough_ascii_input A cfg ff p d deny hy k1 k2 w s a Hb H).
  - exact (passthrough_own_result_all A cfg ff p d deny hy k1 k2 w s a Hb H Hk).
Qed.
