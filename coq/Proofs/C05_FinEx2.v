(* Proofs/C05_FinEx2.v - the hypotheses of the CReachF theorems are met and the new steps are taken: with the example
   host functions of C05_FinEx (HostWf, HostOK, IpDisp, IpOKv):
   parse "http://h.x/a?q"; quirks set_host "o.x:81"; query_pairs_mut().append_pair("k'", "v w~");
   join "../w v#f`" against the result - a base that comes straight out of mutator steps, no premise. *)
From Coq Require Import String.
From RU Require Import Base.Prelude Model.HostT Model.UrlRecord Model.Parser Model.Setters Model.WF Model.FormUrlencoded Model.QueryPairs
  Proofs.ListN Proofs.C02_Reach Proofs.C02_AuthMain Proofs.C03_ReachParts
  Proofs.C05_Enc Proofs.C05_Parser Proofs.C05_History Proofs.C05_Sharp Proofs.C05_Comp Proofs.C05_CompSteps Proofs.C05_CompHist
  Proofs.C05_CompSteps2 Proofs.C05_CompReach Proofs.C05_CompSteps3 Proofs.C05_Alphabet Proofs.C05_FinEx
  Proofs.C15_Ser Proofs.C05_ReachF.
Open Scope N_scope.
Open Scope list_scope.

Definition finF_example_stmt : Prop :=
  HostWf ex_hp ex_hp fx_hd /\ HostOK ex_hp ex_hp fx_hd /\ IpDisp fx_hd /\ IpOKv fx_hd
  /\ exists u, CReachF true ex_hp ex_hp fx_hd u /\ ser u = B "http://o.x:81/w%20v#f%60"
       /\ alphabet_ok u /\ sharp u.

Lemma finF_example : finF_example_stmt.
Proof.
  split; [exact fx_host_wf|]. split; [exact fx_host_ok|]. split; [exact fx_ip_disp|]. split; [exact fx_ip_okv|].
  destruct (parse_url true ex_hp ex_hp fx_hd None None (B "http://h.x/a?q")) as [u0| |] eqn:E0;
    [|vm_compute in E0; discriminate ..].
  pose proof (CRF_parse true ex_hp ex_hp fx_hd None _ u0 E0) as R0. vm_compute in E0. injection E0 as <-.
  match type of R0 with CReachF _ _ _ _ ?u =>
    destruct (apply_op true ex_hp ex_hp fx_hd u (OQHost (B "o.x:81"))) as [u1|] eqn:E1;
      [|vm_compute in E1; discriminate] end.
  pose proof E1 as E1'. vm_compute in E1'. injection E1' as <-.
  match type of E1 with apply_op _ _ _ _ ?u ?o = Some ?u' =>
    assert (CReachF true ex_hp ex_hp fx_hd u') as R1 end.
  { eapply CRF_step; [exact R0 | | exact E1]. cbn [step_gate3]. split.
    - intros X. vm_compute in X. discriminate.
    - intros _ X. vm_compute in X. discriminate. }
  clear R0 E1.
  match type of R1 with CReachF _ _ _ _ ?u =>
    destruct (query_pairs_session true u [OpAppendPair (B "k'") (B "v w~")]) as [u2|] eqn:E2;
      [|vm_compute in E2; discriminate] end.
  pose proof E2 as E2'. vm_compute in E2'. injection E2' as <-.
  match type of E2 with query_pairs_session _ ?u ?o = Some ?u' =>
    assert (CReachF true ex_hp ex_hp fx_hd u') as R2 end.
  { eapply CRF_qpm; [exact R1 | | exact E2]. repeat constructor; unfold is_usv; lia. }
  clear R1 E2.
  match type of R2 with CReachF _ _ _ _ ?b =>
    destruct (parse_url true ex_hp ex_hp fx_hd None (Some b) (B "../w v#f`")) as [u3| |] eqn:E3;
      [|vm_compute in E3; discriminate ..];
    assert (CReachF true ex_hp ex_hp fx_hd u3) as R3
      by (eapply (CRF_join true ex_hp ex_hp fx_hd None b); [exact R2 | exact E3])
  end.
  exists u3. split; [exact R3|]. split; [vm_compute in E3; injection E3 as <-; vm_compute; reflexivity|].
  split.
  - exact (creachF_alphabet true ex_hp ex_hp fx_hd fx_host_wf fx_host_ok fx_ip_disp fx_ip_okv u3 R3).
  - exact (creachF_sharp true ex_hp ex_hp fx_hd fx_host_wf fx_host_ok fx_ip_disp fx_ip_okv u3 R3).
Qed.

(* ---------- the hypotheses of the host-clause theorem are met ---------- *)
From RU Require Import Proofs.C05_HostText Proofs.C05_HostClause.

Definition okb_text (s : list N) : Prop := Forall ok_byte s.

Lemma fx_host_spq : HostSpQ ex_hp fx_hd okb_text.
Proof.
  split.
  - intros s h E _. apply fx_host_ok. right. left. exists s. exact E.
  - exact fx_ip_okv.
Qed.

(* parse "http://h.x/a?q" satisfies FInv and HC; quirks set_host "o.x:81" is a gated step; the result has the host
   text "o.x" *)
Definition hc_example_stmt : Prop :=
  HostSpQ ex_hp fx_hd okb_text
  /\ exists u0 u1, parse_url true ex_hp ex_hp fx_hd None None (B "http://h.x/a?q") = POk u0
       /\ FInv true u0 /\ HC okb_text u0 /\ GHistF true ex_hp ex_hp fx_hd u0 u1
       /\ host_str u1 = Some (Some (B "o.x")) /\ HC okb_text u1.

Lemma hc_example : hc_example_stmt.
Proof.
  split; [exact fx_host_spq|].
  destruct (parse_url true ex_hp ex_hp fx_hd None None (B "http://h.x/a?q")) as [u0| |] eqn:E0;
    [|vm_compute in E0; discriminate ..].
  pose proof (creachF_inv true ex_hp ex_hp fx_hd fx_host_wf fx_host_ok fx_ip_disp fx_ip_okv u0
                (CRF_parse true ex_hp ex_hp fx_hd None _ u0 E0)) as F0.
  vm_compute in E0. injection E0 as <-.
  match type of F0 with FInv _ ?u =>
    destruct (apply_op true ex_hp ex_hp fx_hd u (OQHost (B "o.x:81"))) as [u1|] eqn:E1;
      [|vm_compute in E1; discriminate] end.
  pose proof E1 as E1'. vm_compute in E1'. injection E1' as <-.
  match type of E1 with apply_op _ _ _ _ ?u ?o = Some ?u' => exists u, u' end.
  split; [reflexivity|]. split; [exact F0|].
  match goal with |- HC _ ?u /\ _ => assert (HC okb_text u) as H0 end.
  { intros _ s Hs. vm_compute in Hs. inversion Hs; subst s. repeat constructor; unfold ok_byte; lia. }
  split; [exact H0|].
  match goal with |- GHistF _ _ _ _ ?u ?u' /\ _ => assert (GHistF true ex_hp ex_hp fx_hd u u') as G end.
  { eapply GF_step; [ | exact E1 | apply GF_refl]. cbn [step_gate3]. split.
    - intros X. vm_compute in X. discriminate.
    - intros _ X. vm_compute in X. discriminate. }
  split; [exact G|]. split; [vm_compute; reflexivity|].
  exact (proj2 (hc_history true ex_hp ex_hp fx_hd okb_text fx_host_spq fx_host_wf fx_ip_disp fx_host_ok fx_ip_okv _ _ G F0 H0)).
Qed.

(* ---------- the backslash clause: parse "http://h.x\a"; set_path("x\y"); path_segments_mut().push("c\d") ---------- *)
From RU Require Import Proofs.C05_PathSp Proofs.C05_ReachFSp.

Definition bs_example_stmt : Prop :=
  exists u, CReachF true ex_hp ex_hp fx_hd u /\ ser u = B "http://h.x/x/y/c%5Cd" /\ spb u = true
    /\ cannot_be_a_base u = Some false /\ forall p, path u = Some p -> ~ In 92 p.

Lemma bs_example : bs_example_stmt.
Proof.
  destruct (parse_url true ex_hp ex_hp fx_hd None None (B "http://h.x\a")) as [u0| |] eqn:E0;
    [|vm_compute in E0; discriminate ..].
  pose proof (CRF_parse true ex_hp ex_hp fx_hd None _ u0 E0) as R0. vm_compute in E0. injection E0 as <-.
  match type of R0 with CReachF _ _ _ _ ?u =>
    destruct (apply_op true ex_hp ex_hp fx_hd u (OSetPath (B "x\y"))) as [u1|] eqn:E1;
      [|vm_compute in E1; discriminate] end.
  pose proof E1 as E1'. vm_compute in E1'. injection E1' as <-.
  match type of E1 with apply_op _ _ _ _ ?u ?o = Some ?u' =>
    assert (CReachF true ex_hp ex_hp fx_hd u') as R1 end.
  { eapply CRF_step; [exact R0 | | exact E1]. cbn [step_gate3 step_gate2 step_gate].
    split; [repeat constructor; unfold is_usv; lia|]. split; [intros _ _; vm_compute; reflexivity|].
    split; [intros X; vm_compute in X; discriminate | vm_compute; exact I]. }
  clear R0 E1.
  match type of R1 with CReachF _ _ _ _ ?u =>
    destruct (apply_op true ex_hp ex_hp fx_hd u (OPathSegments [PPush (B "c\d")])) as [u2|] eqn:E2;
      [|vm_compute in E2; discriminate] end.
  pose proof E2 as E2'. vm_compute in E2'. injection E2' as <-.
  match type of E2 with apply_op _ _ _ _ ?u ?o = Some ?u' =>
    assert (CReachF true ex_hp ex_hp fx_hd u') as R2 end.
  { eapply CRF_step; [exact R1 | | exact E2]. cbn [step_gate3 step_gate2].
    split; [repeat constructor; unfold is_usv; lia | vm_compute; exact I]. }
  eexists. split; [exact R2|]. split; [vm_compute; reflexivity|].
  assert (spb {| ser := B "http://h.x/x/y/c%5Cd"; scheme_end := 4; username_end := 7; host_start := 7; host_end := 10;
                 hosti := HI_Domain; port := None; path_start := 10; query_start := None; fragment_start := None |} = true) as Hs
    by (vm_compute; reflexivity).
  split; [vm_compute; reflexivity|].
  exact (creachF_special_path true ex_hp ex_hp fx_hd fx_host_wf fx_host_ok fx_ip_disp fx_ip_okv _ R2 Hs).
Qed.
