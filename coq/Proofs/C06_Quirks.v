(* Proofs/C06_Quirks.v - Url::set_host(Some _) with the host the code parses made explicit, and the
   quirks setters that write the host / the port / the path: q_set_port, q_set_hostname, q_set_host
   (host and optional port in one call), q_set_pathname.  Frame, get-after-set and preservation of the
   invariant on a well-formed record, with the same two exclusions as set_ip_host (C06_Host.v):
   F-C02-4 (an empty host on a URL that has a port) and F-C03-5 (the "/." marker).
   Hypothesis on the host functions (host_fns_ok): every host returned by Host::parse /
   Host::parse_opaque is displayed in accordance with its kind (host_disp_ok) - it follows from
   HostWf of C03 (hence from HostRT / HostOK of C02). *)
From RU Require Import Base.Prelude Base.Utf8 Model.AsciiSet Gen.Tables Model.PercentEncoding
  Model.HostT Model.UrlRecord Model.Parser Model.Setters Model.WF
  Proofs.ListN Proofs.C03_WF Proofs.C06_List Proofs.C06_WFI Proofs.C06_Tail Proofs.C06_Steps Proofs.C06_Suffix
  Proofs.C06_Front Proofs.C06_Port Proofs.C06_Host Proofs.C06_FragQuery Proofs.C06_Main Proofs.C03_ReachParts.

Ltac splits := repeat match goal with |- _ /\ _ => split end.

(* ---------- the hypothesis on the host functions ---------- *)
Definition host_fns_ok (hp hpo : list N -> result host) (hd : host -> list N) : Prop :=
  (forall s h, hp s = Ok h -> host_disp_ok hd h)
  /\ (forall s h, hpo s = Ok h -> host_disp_ok hd h)
  /\ hd (HDomain []) = [].

Lemma hi_of_host_none h : hi_of_host h = HI_None -> h = HDomain [].
Proof. destruct h as [[|c d]|a|p]; cbn; intros H; try discriminate; reflexivity. Qed.

Lemma host_text_wf_disp hd h : h <> HDomain [] -> host_text_wf (hd h) -> host_disp_ok hd h.
Proof.
  intros Hne (H1 & H2 & H3 & _). unfold host_disp_ok.
  destruct (hi_of_host h) eqn:E; [apply hi_of_host_none in E; contradiction | ..];
    (destruct (hd h) as [|c r]; [contradiction|]; exists c, r; split; [reflexivity|];
     cbn in H2, H3; split; congruence).
Qed.

Lemma HostWf_fns_ok hp hpo hd : HostWf hp hpo hd -> host_fns_ok hp hpo hd.
Proof.
  intros (W1 & W2 & W3).
  assert (forall h, (h <> HDomain [] -> host_text_wf (hd h)) -> host_disp_ok hd h) as G.
  { intros h Hh. destruct (host_eq_dec_empty h) as [->|Hne]; [exact W3|].
    apply host_text_wf_disp; [exact Hne | apply Hh; exact Hne]. }
  split; [|split; [|exact W3]].
  - intros s h E. apply G. intros Hne. exact (W1 s h E Hne).
  - intros s h E. apply G. intros Hne. exact (W2 s h E Hne).
Qed.

(* ---------- Url::set_host(Some x): which text goes to the host parser ---------- *)
(* a bracketed argument whole; otherwise the text in front of the first ':' (None: the argument starts
   with ':', the call fails) *)
Definition set_host_arg_text (hs : list N) : option (list N) :=
  if (match hs with 91 :: _ => true | _ => false end) && ends_with_byte 93 hs then Some hs else
  match find_byte 58 hs with
  | Some 0 => None
  | Some i => Some (nfirstn i hs)
  | None => Some hs
  end.

Section HostSome.
Variable dbg : bool.
Variable hp hpo : list N -> result host.
Variable hd : host -> list N.
Hypothesis HF : host_fns_ok hp hpo hd.

Theorem set_host_some_post u x u' : wf_b u = true ->
  (has_authority_b u = false -> path_start u = scheme_end u + 1) ->
  set_host dbg hp hpo hd u (Some x) = Some (u', SOk) ->
  exists sch t h, scheme u = Some sch /\ set_host_arg_text x = Some t
    /\ (if st_is_special (scheme_type_of sch) then hp t else hpo t) = Ok h
    /\ ((has_authority_b u = true -> hi_of_host h = HI_None -> port u = None) -> host_set_post dbg hd u u' h).
Proof using HF.
  intros W X2 H. unfold set_host in H. rewrite (cannot_be_a_base_eval u W) in H. cbn [bindo] in H.
  destruct (byte_eqb (ser u) (scheme_end u + 1) 47) eqn:Hsl; cbn [negb] in H; [|discriminate].
  unfold u_scheme_type in H. rewrite (scheme_eval u W) in H. cbn [bindo] in H.
  set (sch := piece u (pidx u BeforeScheme) (pidx u AfterScheme)) in *.
  match type of H with (if ?c then _ else _) = _ => destruct c end; [discriminate|].
  fold (set_host_arg_text x) in H.
  destruct (set_host_arg_text x) as [t|] eqn:Et; [|discriminate].
  destruct (if st_is_special (scheme_type_of sch) then hp t else hpo t) as [h|e] eqn:Eh; [|discriminate].
  destruct (set_host_internal dbg hd u h None) as [u0|] eqn:E; cbn [bindo] in H; [|discriminate].
  inversion H; subst u0. exists sch, t, h. split; [apply (scheme_eval u W)|]. split; [reflexivity|]. split; [exact Eh|].
  intros X1.
  assert (host_disp_ok hd h) as Hd.
  { destruct HF as (F1 & F2 & _). destruct (st_is_special (scheme_type_of sch)); [exact (F1 t h Eh) | exact (F2 t h Eh)]. }
  apply (set_host_internal_post dbg hd u h u' W Hd X1 X2 Hsl E).
Qed.

End HostSome.

(* ---------- quirks::set_port ---------- *)
Section QPort.
Variable dbg : bool.

(* never a panic; a failure leaves the record; a success stores the port parse_port (setter context,
   default port of the scheme) returns for the argument - what the parser's port state produces - and
   everything else reads the same *)
Theorem q_set_port_ok u v : wf_b u = true -> host_text_ok u ->
  exists u' st, q_set_port dbg u v = Some (u', st)
  /\ (st <> SOk -> u' = u)
  /\ (st = SOk ->
      wf_b u' = true /\ host_text_ok u' /\ same_ids dbg u u' /\ same_back dbg u u'
      /\ exists sch rem, scheme u = Some sch
           /\ parse_port CSetter (default_port sch) (input_new_no_trim v) = POk (port u', rem)).
Proof.
  intros W HT. unfold q_set_port. destruct (chcp_eval u W) as (c & Ec & Hc). rewrite Ec. cbn [bindo].
  destruct c.
  - exists u, SErrUnit. split; [reflexivity|]. split; [reflexivity | discriminate].
  - specialize (Hc eq_refl). rewrite (scheme_eval u W). cbn [bindo].
    set (sch := piece u (pidx u BeforeScheme) (pidx u AfterScheme)).
    destruct (parse_port CSetter (default_port sch) (input_new_no_trim v)) as [[p rem]|e|] eqn:Ep.
    + pose proof (parse_port_le _ _ _ _ _ Ep) as Hp.
      destruct (set_port_internal_ok dbg u p W HT Hc Hp) as (u' & E & W' & HT' & I' & P' & B').
      rewrite E. cbn [bindo]. exists u', SOk. split; [reflexivity|]. split; [intros X; contradiction|].
      intros _. splits; try assumption. exists sch, rem. split; [reflexivity|]. rewrite P'. exact Ep.
    + exists u, SErrUnit. split; [reflexivity|]. split; [reflexivity | discriminate].
    + exfalso. unfold parse_port in Ep.
      destruct (parse_port_loop CSetter (input_new_no_trim v) 0 false) as [[[p any] rm]| |] eqn:El; cbn [pbind] in Ep.
      * destruct (negb any && ctx_eqb CSetter CSetter && negb (inp_is_empty rm)); [discriminate|]. discriminate.
      * discriminate.
      * clear Ep. revert El. generalize 0 false. generalize (input_new_no_trim v).
        induction l as [|c r IH]; intros p0 any0; cbn [parse_port_loop]; [discriminate|].
        destruct (is_tnl c); [apply IH|]. destruct (is_digit c).
        -- destruct (65535 <? p0 * 10 + (c - 48)); [discriminate | apply IH].
        -- cbn [ctx_eqb andb]. discriminate.
Qed.

End QPort.

(* ---------- set_host_internal with a new port (quirks::set_host) ---------- *)
(* = the host replaced as by set_host_internal .. None (with_host_auth / with_host_noauth of C06_Host.v),
   then the port replaced (with_port of C06_Port.v) *)
Lemma with_port_shape (X : url) A B0 C np : ser X = (A ++ B0) ++ C -> nlen A = host_end X -> nlen (A ++ B0) = path_start X ->
  with_port X np
  = mkUrl (A ++ port_text np ++ C) (scheme_end X) (username_end X) (host_start X) (host_end X) (hosti X) np
          (host_end X + nlen (port_text np))
          (option_map (shift (path_start X) (host_end X + nlen (port_text np))) (query_start X))
          (option_map (shift (path_start X) (host_end X + nlen (port_text np))) (fragment_start X)).
Proof.
  intros Es L1 L2. unfold with_port. rewrite Es. rewrite <- L2 at 1. rewrite nskipn_app_exact.
  rewrite <- app_assoc. rewrite <- L1 at 1. rewrite nfirstn_app_exact. reflexivity.
Qed.

Section HostPortEval.
Variable dbg : bool.
Variable hd : host -> list N.

Lemma set_host_internal_port_eval u h np : wf_b u = true ->
  (has_authority_b u = false -> path_start u = scheme_end u + 1 /\ byte_eqb (ser u) (scheme_end u + 1) 47 = true) ->
  set_host_internal dbg hd u h (Some np)
  = Some (with_port (if has_authority_b u then with_host_auth u (hi_of_host h) (hd h)
                     else with_host_noauth u (hi_of_host h) (hd h)) np).
Proof.
  intros W Hx2. unfold set_host_internal.
  destruct (wf_scheme_facts u W) as (Hse & Hc & Hlt).
  destruct (has_authority_b u) eqn:Ha.
  - pose proof (wf_auth_facts u W Ha) as F.
    pose proof (af_ue F); pose proof (af_hs F); pose proof (af_he F); pose proof (af_ps F); pose proof (af_len F).
    destruct (wf_tail_offsets_ge u (path_start u) W ltac:(lia)) as [Gq Gf].
    unfold u_slice_from; rewrite slice_from_o_some by lia; cbn [bindo].
    rewrite (has_authority_trunc dbg u W); cbn [bindo]; rewrite Ha; cbn [negb].
    unfold truncate. cbn [bindo].
    set (A := nfirstn (host_start u) (ser u) ++ hd h).
    assert (nlen A = host_start u + nlen (hd h)) as LA by (unfold A; rewrite nlen_app, nlen_nfirstn by lia; reflexivity).
    assert (match np with Some p => A ++ [58] ++ decimal p | None => A end = A ++ port_text np) as Es3
      by (destruct np; cbn [port_text app]; [reflexivity | rewrite app_nil_r; reflexivity]).
    rewrite Es3. rewrite adjust_ok by lia. rewrite !adjust_opt_ok by assumption. cbn [bindo].
    f_equal.
    rewrite (with_port_shape (with_host_auth u (hi_of_host h) (hd h)) A
               (nfirstn (path_start u - host_end u) (nskipn (host_end u) (ser u))) (nskipn (path_start u) (ser u)) np).
    + unfold with_host_auth. cbn [scheme_end username_end host_start host_end hosti path_start query_start fragment_start].
      rewrite <- app_assoc. rewrite nlen_app, LA.
      f_equal; try (unfold shift; lia).
      * destruct (query_start u) as [i|]; [cbn [option_map]; f_equal; unfold shift; lia | reflexivity].
      * destruct (fragment_start u) as [i|]; [cbn [option_map]; f_equal; unfold shift; lia | reflexivity].
    + unfold with_host_auth. cbn [ser]. unfold A. rewrite <- !app_assoc. do 2 f_equal.
      rewrite <- (nfirstn_nskipn (path_start u - host_end u) (nskipn (host_end u) (ser u))) at 1.
      f_equal. rewrite nskipn_nskipn. f_equal. lia.
    + unfold with_host_auth. cbn [host_end]. exact LA.
    + unfold with_host_auth. cbn [path_start]. rewrite nlen_app, LA, nlen_nfirstn by (rewrite nlen_nskipn; lia).
      unfold shift. lia.
  - pose proof (wf_noauth_facts u W Ha) as F. pose proof (nf_ue F) as Eue. pose proof (nf_hs F) as Ehs.
    pose proof (nf_he F) as Ehe. pose proof (nf_len F). pose proof (nf_port F) as Eport. destruct (Hx2 eq_refl) as [Hnm Hsl].
    destruct (wf_tail_offsets_ge u (path_start u) W ltac:(lia)) as [Gq Gf].
    unfold u_slice_from; rewrite slice_from_o_some by lia; cbn [bindo].
    rewrite (has_authority_trunc dbg u W); cbn [bindo]; rewrite Ha; cbn [negb].
    unfold truncate; rewrite Ehs, Eue.
    assert (nfirstn (scheme_end u + 1 - scheme_end u) (nskipn (scheme_end u) (nfirstn (scheme_end u + 1) (ser u))) = [58]) as E58
      by (replace (scheme_end u + 1 - scheme_end u) with 1 by lia; rewrite nskipn_nfirstn_comm;
          rewrite nfirstn_nfirstn by lia; apply (piece_one _ _ _ (byte_eqb_nnth _ _ _ Hc))).
    replace (if dbg then x <- slice_o (nfirstn (scheme_end u + 1) (ser u)) (scheme_end u) (scheme_end u + 1);;
                         assert_o (list_eqb x [58]);;; assert_o (scheme_end u + 1 =? scheme_end u + 1) else Some tt)
      with (Some tt)
      by (destruct dbg; [|reflexivity]; rewrite slice_o_some by (rewrite ?nlen_nfirstn; lia); cbn [bindo];
          rewrite E58; cbn [list_eqb]; rewrite !N.eqb_refl; reflexivity).
    cbn [bindo].
    set (A := (nfirstn (scheme_end u + 1) (ser u) ++ [47; 47]) ++ hd h).
    assert (nlen A = scheme_end u + 3 + nlen (hd h)) as LA
      by (unfold A; rewrite !nlen_app, nlen_nfirstn by lia; change (nlen [47; 47]) with 2; lia).
    assert (match np with Some p => A ++ [58] ++ decimal p | None => A end = A ++ port_text np) as Es3
      by (destruct np; cbn [port_text app]; [reflexivity | rewrite app_nil_r; reflexivity]).
    rewrite Es3. rewrite adjust_ok by lia. rewrite !adjust_opt_ok by assumption. cbn [bindo].
    f_equal.
    rewrite (with_port_shape (with_host_noauth u (hi_of_host h) (hd h)) A [] (nskipn (scheme_end u + 1) (ser u)) np).
    + unfold with_host_noauth. cbn [scheme_end username_end host_start host_end hosti path_start query_start fragment_start].
      rewrite Hnm. rewrite <- app_assoc. rewrite nlen_app, LA.
      f_equal; try (unfold shift; lia).
      * destruct (query_start u) as [i|]; [cbn [option_map]; f_equal; unfold shift; lia | reflexivity].
      * destruct (fragment_start u) as [i|]; [cbn [option_map]; f_equal; unfold shift; lia | reflexivity].
    + unfold with_host_noauth. cbn [ser]. unfold A. rewrite app_nil_r. rewrite <- !app_assoc. reflexivity.
    + unfold with_host_noauth. cbn [host_end]. exact LA.
    + unfold with_host_noauth. cbn [path_start]. rewrite app_nil_r, LA, Hnm. unfold shift. lia.
Qed.

End HostPortEval.

(* a record without a port: replacing the port by "no port" changes nothing *)
Lemma with_port_none_id X : wf_b X = true -> has_authority_b X = true -> port X = None -> with_port X None = X.
Proof.
  intros W Ha Hp. pose proof (wf_auth_facts X W Ha) as F. pose proof (af_he F); pose proof (af_ps F); pose proof (af_len F).
  destruct (wf_tail_offsets_ge X (path_start X) W ltac:(lia)) as [Gq Gf].
  pose proof W as W0. apply wf_b_iff in W0. rewrite Ha in W0. destruct W0 as (_ & ((_ & _ & _ & _ & _ & _ & _ & P) & _) & _).
  unfold port_ok in P. rewrite Hp in P.
  unfold with_port. cbn [port_text app]. rewrite nlen_nil, N.add_0_r. rewrite P. rewrite nfirstn_nskipn.
  assert (forall o, (match o with Some i => host_end X <= i | None => True end) ->
                    option_map (shift (host_end X) (host_end X)) o = o) as G.
  { intros [i|] Hi; [|reflexivity]. cbn. f_equal. unfold shift. lia. }
  rewrite P in Gq, Gf. rewrite (G _ Gq), (G _ Gf).
  transitivity (mkUrl (ser X) (scheme_end X) (username_end X) (host_start X) (host_end X) (hosti X) (port X) (path_start X)
                      (query_start X) (fragment_start X)); [|destruct X; reflexivity].
  rewrite Hp, P. reflexivity.
Qed.

Section HostPortPost.
Variable dbg : bool.
Variable hd : host -> list N.

(* what a successful set_host_internal .. (Some np) establishes *)
Definition host_port_post (u u' : url) (h : host) (np : option N) : Prop :=
  wf_b u' = true /\ host_text_ok u' /\ scheme u' = scheme u /\ username dbg u' = username dbg u
  /\ password dbg u' = password dbg u /\ port u' = np /\ same_back dbg u u'
  /\ host_str u' = Some (if hi_some (hi_of_host h) then Some (hd h) else None)
  /\ hosti u' = hi_of_host h.

Lemma set_host_internal_port_post u h np u' : wf_b u = true -> host_disp_ok hd h ->
  (match np with Some x => x <= 65535 | None => True end) ->
  (hi_of_host h = HI_None -> np = None /\ (has_authority_b u = true -> port u = None)) ->
  (has_authority_b u = false -> path_start u = scheme_end u + 1) ->
  byte_eqb (ser u) (scheme_end u + 1) 47 = true ->
  set_host_internal dbg hd u h (Some np) = Some u' -> host_port_post u u' h np.
Proof.
  intros W Hdo Hnp Hemp X2 Hsl E.
  rewrite (set_host_internal_port_eval dbg hd u h np W) in E by (intros Ha; split; [apply X2; exact Ha | exact Hsl]).
  inversion E as [E']. clear E E'.
  set (X := if has_authority_b u then with_host_auth u (hi_of_host h) (hd h) else with_host_noauth u (hi_of_host h) (hd h)).
  (* the record with the new host and the old port *)
  assert (wf_b X = true /\ host_text_ok X /\ has_authority_b X = true /\ scheme X = scheme u /\ username dbg X = username dbg u
          /\ password dbg X = password dbg u /\ same_back dbg u X
          /\ host_str X = Some (if hi_some (hi_of_host h) then Some (hd h) else None)
          /\ hosti X = hi_of_host h /\ (hi_of_host h = HI_None -> port X = None)) as (WX & HTX & HaX & SX & UX & PX & BX & HX & HiX & PoX).
  { unfold X. destruct (host_disp_ok_cases _ _ Hdo) as [(Ehi & Ed)|(Ehi & Hcr)]; destruct (has_authority_b u) eqn:Ha.
    - assert (hi_of_host h = HI_None) as En by (destruct (hi_of_host h); [reflexivity | discriminate ..]).
      assert ((hi_some (hi_of_host h) = false /\ hd h = [] /\ port u = None)
              \/ (hi_some (hi_of_host h) = true /\ exists c r, hd h = c :: r /\ c <> 58 /\ c <> 64)) as Hd
        by (left; splits; try assumption; apply (proj2 (Hemp En)); reflexivity).
      splits; [apply wha_wf | apply wha_host_text_ok | apply wha_has_authority | apply wha_scheme | apply wha_username
               | apply wha_password | apply wha_back | apply wha_host_str | reflexivity | intros _; apply (proj2 (Hemp En)); reflexivity];
        assumption.
    - pose proof (X2 eq_refl) as Hnm.
      assert ((hi_some (hi_of_host h) = false /\ hd h = [])
              \/ (hi_some (hi_of_host h) = true /\ exists c r, hd h = c :: r /\ c <> 58 /\ c <> 64)) as Hd
        by (left; split; assumption).
      splits; [apply whn_wf | apply whn_host_text_ok | apply whn_has_authority | apply whn_scheme | apply whn_username
               | apply whn_password | apply whn_back | apply whn_host_str | reflexivity | intros _; reflexivity];
        assumption.
    - assert ((hi_some (hi_of_host h) = false /\ hd h = [] /\ port u = None)
              \/ (hi_some (hi_of_host h) = true /\ exists c r, hd h = c :: r /\ c <> 58 /\ c <> 64)) as Hd
        by (right; split; assumption).
      splits; [apply wha_wf | apply wha_host_text_ok | apply wha_has_authority | apply wha_scheme | apply wha_username
               | apply wha_password | apply wha_back | apply wha_host_str | reflexivity
               | intros En; rewrite En in Ehi; discriminate];
        assumption.
    - pose proof (X2 eq_refl) as Hnm.
      assert ((hi_some (hi_of_host h) = false /\ hd h = [])
              \/ (hi_some (hi_of_host h) = true /\ exists c r, hd h = c :: r /\ c <> 58 /\ c <> 64)) as Hd
        by (right; split; assumption).
      splits; [apply whn_wf | apply whn_host_text_ok | apply whn_has_authority | apply whn_scheme | apply whn_username
               | apply whn_password | apply whn_back | apply whn_host_str | reflexivity | intros _; reflexivity];
        assumption. }
  unfold host_port_post.
  destruct (hi_some (hi_of_host h)) eqn:Ehi.
  - assert (has_host X = true) as HhX by (unfold has_host; rewrite HiX; destruct (hi_of_host h); [discriminate | reflexivity ..]).
    destruct (with_port_ok dbg X np WX HTX HhX Hnp) as (W' & HT' & (I1 & I2 & I3 & I4) & P' & (B1 & B2 & B3)).
    destruct BX as (C1 & C2 & C3).
    splits; try assumption; try congruence.
    split; [congruence|]. split; congruence.
  - assert (hi_of_host h = HI_None) as En by (destruct (hi_of_host h); [reflexivity | discriminate ..]).
    destruct (Hemp En) as [-> _]. rewrite (with_port_none_id X WX HaX (PoX En)).
    splits; try assumption. apply PoX. exact En.
Qed.

End HostPortPost.

(* ---------- the host state of the parser, as the quirks setters call it ---------- *)
Lemma parse_host_disp hp hpo hd st l h rem : host_fns_ok hp hpo hd ->
  parse_host hp hpo st l = POk (h, rem) -> host_disp_ok hd h.
Proof.
  intros (F1 & F2 & F3). unfold parse_host. destruct (st_is_file st).
  - unfold get_file_host. destruct (file_host l) as [t rm].
    destruct (hp t) as [h0|e] eqn:Ep; cbn [of_result pbind]; [|discriminate].
    intros H. inversion H; subst. destruct h0 as [d|a|p]; try exact (F1 t _ Ep).
    destruct (list_eqb d s_localhost); [exact F3 | exact (F1 t _ Ep)].
  - destruct (host_scan (st_is_special st) false [] l) as [t rm].
    destruct (scheme_type_eqb st STSpecialNotFile && match t with [] => true | _ => false end); [discriminate|].
    destruct (negb (st_is_special st)).
    + destruct (hpo t) as [h0|e] eqn:Ep; cbn [of_result pbind]; [|discriminate].
      intros H. inversion H; subst. exact (F2 t _ Ep).
    + destruct (hp t) as [h0|e] eqn:Ep; cbn [of_result pbind]; [|discriminate].
      intros H. inversion H; subst. exact (F1 t _ Ep).
Qed.

Lemma decimal_nonempty p : exists c r, decimal p = c :: r.
Proof.
  unfold decimal. destruct (decimal_rev_head 39 p) as (d & r & E & _). change (S 39) with 40%nat in E. rewrite E.
  cbn [rev]. destruct (rev r) as [|c r']; [exists d, []; reflexivity | exists c, (r' ++ [d]); reflexivity].
Qed.

Lemma q_port_empty dbg u : wf_b u = true -> q_port dbg u = Some [] -> port u = None.
Proof.
  intros W H. unfold q_port in H. rewrite (index_range_eval dbg u W BeforePort AfterPort) in H by (cbn; lia).
  inversion H as [Hp]. clear H. destruct (port u) as [p|] eqn:E; [exfalso | reflexivity].
  unfold piece in Hp. cbn [pidx] in Hp. rewrite ?E in Hp.
  assert (has_authority_b u = true) as Ha.
  { destruct (has_authority_b u) eqn:Ha; [reflexivity|]. pose proof (wf_noauth_facts u W Ha) as F.
    rewrite (nf_port F) in E. discriminate. }
  pose proof W as W0. apply wf_b_iff in W0. rewrite Ha in W0. destruct W0 as (_ & ((_ & _ & _ & _ & _ & _ & _ & P) & _) & _).
  unfold port_ok in P. rewrite E in P. destruct P as (_ & _ & _ & P4).
  destruct (decimal_nonempty p) as (c & r & Ed). rewrite Ed in P4.
  destruct (nskipn (host_end u + 1) (ser u)) as [|c0 r0]; [unfold nfirstn in P4; rewrite firstn_nil in P4; discriminate|].
  assert (1 <= host_end u + 1 + count_digits p - (host_end u + 1)) as Hn by (unfold count_digits; repeat destruct (_ <=? _); lia).
  unfold nfirstn in Hp. destruct (N.to_nat (host_end u + 1 + count_digits p - (host_end u + 1))) eqn:En; [lia|].
  cbn [firstn] in Hp. discriminate.
Qed.

Section QHost.
Variable dbg : bool.
Variable hp hpo : list N -> result host.
Variable hd : host -> list N.
Hypothesis HF : host_fns_ok hp hpo hd.

(* quirks::set_hostname: the host is the one the parser's host state returns for the argument (for a
   file URL and an empty argument: the empty host); a success is set_host_internal with that host.
   The empty host is refused by the code itself when the URL has a port, so F-C02-4 needs no premise
   here except for the file/empty-argument shortcut *)
Theorem q_set_hostname_post u v u' : wf_b u = true ->
  (has_authority_b u = false -> path_start u = scheme_end u + 1) ->
  q_set_hostname dbg hp hpo hd u v = Some (u', SOk) ->
  exists sch h, scheme u = Some sch
    /\ ((scheme_type_of sch = STFile /\ v = [] /\ h = HDomain []
         /\ ((has_authority_b u = true -> port u = None) -> host_set_post dbg hd u u' h))
        \/ ((exists rem, parse_host hp hpo (scheme_type_of sch) (input_new_no_trim v) = POk (h, rem))
            /\ host_set_post dbg hd u u' h)).
Proof using HF.
  intros W X2 H. unfold q_set_hostname in H. rewrite (cannot_be_a_base_eval u W) in H. cbn [bindo] in H.
  destruct (byte_eqb (ser u) (scheme_end u + 1) 47) eqn:Hsl; cbn [negb] in H; [|discriminate].
  rewrite (scheme_eval u W) in H. cbn [bindo] in H.
  set (sch := piece u (pidx u BeforeScheme) (pidx u AfterScheme)) in *.
  exists sch.
  destruct (scheme_type_eqb (scheme_type_of sch) STFile && match v with [] => true | _ => false end) eqn:Ef.
  - apply andb_true_iff in Ef. destruct Ef as [Ef Ev].
    destruct (set_host_internal dbg hd u (HDomain []) None) as [u0|] eqn:E; cbn [bindo] in H; [|discriminate].
    inversion H; subst u0. exists (HDomain []). split; [apply (scheme_eval u W)|]. left.
    split; [destruct (scheme_type_of sch); try discriminate; reflexivity|].
    split; [destruct v; [reflexivity | discriminate]|]. split; [reflexivity|]. intros X1.
    apply (set_host_internal_post dbg hd u (HDomain []) u' W); try assumption.
    + exact (proj2 (proj2 HF)).
    + intros Ha _. exact (X1 Ha).
  - destruct (parse_host hp hpo (scheme_type_of sch) (input_new_no_trim v)) as [[h rem]|e|] eqn:Ep; cbn [pres_ok bindo] in H;
      [|discriminate|discriminate].
    match type of H with bindo ?r _ = _ => destruct r as [[|]|] eqn:Er end; cbn [bindo] in H; try discriminate.
    destruct (set_host_internal dbg hd u h None) as [u0|] eqn:E; cbn [bindo] in H; [|discriminate].
    inversion H; subst u0. exists h. split; [apply (scheme_eval u W)|]. right. split; [exists rem; reflexivity|].
    apply (set_host_internal_post dbg hd u h u' W (parse_host_disp _ _ _ _ _ _ _ HF Ep)); try assumption.
    intros Ha Hn. apply hi_of_host_none in Hn. subst h.
    destruct (q_port dbg u) as [p|] eqn:Eq; cbn [bindo] in Er; [|discriminate].
    destruct (username dbg u) as [un|]; cbn [bindo] in Er; [|discriminate].
    destruct (q_password dbg u) as [pw|]; cbn [bindo] in Er; [|discriminate].
    inversion Er as [Hr]. destruct p as [|c r]; [apply (q_port_empty dbg u W Eq)|].
    cbn [negb] in Hr. rewrite orb_true_r in Hr. cbn [orb] in Hr. discriminate.
Qed.

End QHost.

(* ---------- quirks::set_host: host and, optionally, port ---------- *)
(* what the text behind the host says about the port: None = nothing (no ':', nothing behind it, or not a
   port: the old port stays); Some p = the parser's port state (setter context) returned p *)
Definition q_host_port (sc remaining : list N) : option (option N) :=
  match inp_split_prefix_char 58 remaining with
  | Some rem =>
      if inp_is_empty rem then None
      else match parse_port CSetter (default_port sc) rem with
           | POk (p, _) => Some p
           | _ => None
           end
  | None => None
  end.

Section QHost2.
Variable dbg : bool.
Variable hp hpo : list N -> result host.
Variable hd : host -> list N.
Hypothesis HF : host_fns_ok hp hpo hd.

Theorem q_set_host_post u v u' : wf_b u = true ->
  (has_authority_b u = false -> path_start u = scheme_end u + 1) ->
  q_set_host dbg hp hpo hd u v = Some (u', SOk) ->
  exists sch h, scheme u = Some sch
    /\ ((scheme_type_of sch = STFile /\ v = [] /\ h = HDomain []
         /\ ((has_authority_b u = true -> port u = None) -> host_set_post dbg hd u u' h))
        \/ (exists rem, parse_host hp hpo (scheme_type_of sch) (input_new_no_trim v) = POk (h, rem)
            /\ match q_host_port sch rem with
               | None => host_set_post dbg hd u u' h
               | Some np => host_port_post dbg hd u u' h np
               end)).
Proof using HF.
  intros W X2 H. unfold q_set_host in H. rewrite (cannot_be_a_base_eval u W) in H. cbn [bindo] in H.
  destruct (byte_eqb (ser u) (scheme_end u + 1) 47) eqn:Hsl; cbn [negb] in H; [|discriminate].
  rewrite (scheme_eval u W) in H. cbn [bindo] in H.
  set (sch := piece u (pidx u BeforeScheme) (pidx u AfterScheme)) in *.
  exists sch.
  destruct (scheme_type_eqb (scheme_type_of sch) STFile && match v with [] => true | _ => false end) eqn:Ef.
  - apply andb_true_iff in Ef. destruct Ef as [Ef Ev].
    destruct (set_host_internal dbg hd u (HDomain []) None) as [u0|] eqn:E; cbn [bindo] in H; [|discriminate].
    inversion H; subst u0. exists (HDomain []). split; [apply (scheme_eval u W)|]. left.
    split; [destruct (scheme_type_of sch); try discriminate; reflexivity|].
    split; [destruct v; [reflexivity | discriminate]|]. split; [reflexivity|]. intros X1.
    apply (set_host_internal_post dbg hd u (HDomain []) u' W); try assumption.
    + exact (proj2 (proj2 HF)).
    + intros Ha _. exact (X1 Ha).
  - destruct (parse_host hp hpo (scheme_type_of sch) (input_new_no_trim v)) as [[h rem]|e|] eqn:Ep; cbn [pres_ok bindo] in H;
      [|discriminate|discriminate].
    match type of H with bindo ?r _ = _ => replace r with (Some (q_host_port sch rem)) in H end.
    2:{ unfold q_host_port. destruct (inp_split_prefix_char 58 rem) as [rm|]; [|reflexivity].
        destruct (inp_is_empty rm); [reflexivity|].
        destruct (parse_port CSetter (default_port sch) rm) as [[p r0]|e|]; reflexivity. }
    cbn [bindo] in H. rewrite (username_eval dbg u W) in H. cbn [bindo] in H.
    exists h. split; [apply (scheme_eval u W)|]. right. exists rem. split; [reflexivity|].
    pose proof (parse_host_disp _ _ _ _ _ _ _ HF Ep) as Hdo.
    match type of H with (if ?c then _ else _) = _ => destruct c eqn:Ec end; [discriminate|].
    assert (hi_of_host h = HI_None -> port u = None
            /\ match q_host_port sch rem with Some (Some _) => False | _ => True end) as Hemp.
    { intros Hn. apply hi_of_host_none in Hn. subst h. cbn [andb] in Ec.
      apply orb_false_iff in Ec. destruct Ec as [Ec E3]. apply orb_false_iff in Ec. destruct Ec as [_ E2].
      split; [destruct (port u); [discriminate | reflexivity]|].
      destruct (q_host_port sch rem) as [[x|]|]; [discriminate | exact I | exact I]. }
    destruct (q_host_port sch rem) as [np|] eqn:Eq.
    + destruct (set_host_internal dbg hd u h (Some np)) as [u0|] eqn:E; cbn [bindo] in H; [|discriminate].
      inversion H; subst u0.
      apply (set_host_internal_port_post dbg hd u h np u' W Hdo); try assumption.
      * unfold q_host_port in Eq. destruct (inp_split_prefix_char 58 rem) as [rm|]; [|discriminate].
        destruct (inp_is_empty rm); [discriminate|].
        destruct (parse_port CSetter (default_port sch) rm) as [[p r0]|e|] eqn:Epp; try discriminate.
        inversion Eq; subst. exact (parse_port_le _ _ _ _ _ Epp).
      * intros Hn. destruct (Hemp Hn) as [Hp Hq]. split; [destruct np; [contradiction | reflexivity] | intros _; exact Hp].
    + destruct (set_host_internal dbg hd u h None) as [u0|] eqn:E; cbn [bindo] in H; [|discriminate].
      inversion H; subst u0.
      apply (set_host_internal_post dbg hd u h u' W Hdo); try assumption.
      intros _ Hn. exact (proj1 (Hemp Hn)).
Qed.

End QHost2.

(* ---------- quirks::set_pathname ---------- *)
(* on an opaque path nothing happens; otherwise it is Url::set_path with the argument, or with '/' in front
   of it, so the four set_path theorems of C06 (C06_frame_path, _noauth, _marker and their exactness
   companions) apply to it verbatim *)
Definition q_pathname_arg (st : scheme_type) (hh : bool) (v : list N) : list N :=
  if (match v with 47 :: _ => true | _ => false end) || (st_is_special st && (match v with 92 :: _ => true | _ => false end))
  then v
  else if st_is_special st || negb (match v with [] => true | _ => false end) || negb hh then 47 :: v else v.

Theorem q_set_pathname_eval dbg u v : wf_b u = true ->
  exists sch, scheme u = Some sch
    /\ q_set_pathname dbg u v
       = if negb (byte_eqb (ser u) (scheme_end u + 1) 47) then Some u
         else set_path dbg u (q_pathname_arg (scheme_type_of sch) (has_host u) v).
Proof.
  intros W. exists (piece u (pidx u BeforeScheme) (pidx u AfterScheme)). split; [apply (scheme_eval u W)|].
  unfold q_set_pathname. rewrite (cannot_be_a_base_eval u W). cbn [bindo].
  destruct (negb (byte_eqb (ser u) (scheme_end u + 1) 47)); [reflexivity|].
  unfold u_scheme_type. rewrite (scheme_eval u W). cbn [bindo]. unfold q_pathname_arg.
  destruct ((match v with 47 :: _ => true | _ => false end)
            || (st_is_special (scheme_type_of (piece u (pidx u BeforeScheme) (pidx u AfterScheme)))
                && (match v with 92 :: _ => true | _ => false end))); [reflexivity|].
  destruct (st_is_special (scheme_type_of (piece u (pidx u BeforeScheme) (pidx u AfterScheme)))
            || negb (match v with [] => true | _ => false end) || negb (has_host u)); reflexivity.
Qed.

Lemma q_pathname_arg_cases st hh v : q_pathname_arg st hh v = v \/ q_pathname_arg st hh v = 47 :: v.
Proof.
  unfold q_pathname_arg.
  destruct ((match v with 47 :: _ => true | _ => false end) || (st_is_special st && (match v with 92 :: _ => true | _ => false end)));
    [left; reflexivity|].
  destruct (st_is_special st || negb (match v with [] => true | _ => false end) || negb hh); [right | left]; reflexivity.
Qed.

Lemma q_pathname_arg_usv st hh v : usv_list v -> usv_list (q_pathname_arg st hh v).
Proof.
  intros Hv. destruct (q_pathname_arg_cases st hh v) as [->| ->]; [exact Hv|].
  constructor; [|exact Hv]. unfold is_usv. lia.
Qed.

(* ================= assembled: the quirks setters that write host / port / path ================= *)
Section QuirksAll.
Variable dbg : bool.
Variable hp hpo : list N -> result host.
Variable hd : host -> list N.

Theorem quirks_all u : host_fns_ok hp hpo hd -> wfh u ->
  (has_authority_b u = false -> path_start u = scheme_end u + 1) ->
  (forall v, exists r, q_set_port dbg u v = Some r)
  /\ (forall v u', q_set_port dbg u v = Some (u', SOk) ->
        wfh u' /\ same_ids dbg u u' /\ same_back dbg u u'
        /\ exists sch rem, scheme u = Some sch /\ parse_port CSetter (default_port sch) v = POk (port u', rem))
  /\ (forall v u', q_set_hostname dbg hp hpo hd u v = Some (u', SOk) ->
        exists sch h, scheme u = Some sch
          /\ ((scheme_type_of sch = STFile /\ v = [] /\ h = HDomain []
               /\ ((has_authority_b u = true -> port u = None) -> host_set_post dbg hd u u' h))
              \/ ((exists rem, parse_host hp hpo (scheme_type_of sch) v = POk (h, rem))
                  /\ host_set_post dbg hd u u' h)))
  /\ (forall v u', q_set_host dbg hp hpo hd u v = Some (u', SOk) ->
        exists sch h, scheme u = Some sch
          /\ ((scheme_type_of sch = STFile /\ v = [] /\ h = HDomain []
               /\ ((has_authority_b u = true -> port u = None) -> host_set_post dbg hd u u' h))
              \/ (exists rem, parse_host hp hpo (scheme_type_of sch) v = POk (h, rem)
                  /\ match q_host_port sch rem with
                     | None => host_set_post dbg hd u u' h
                     | Some np => host_port_post dbg hd u u' h np
                     end)))
  /\ (forall v u', q_set_pathname dbg u v = Some u' ->
        if is_opaque_b u then u' = u
        else exists p, (p = v \/ p = 47 :: v) /\ (usv_list v -> usv_list p) /\ set_path dbg u p = Some u').
Proof.
  intros HF [W HT] X2. splits.
  - intros v. destruct (q_set_port_ok dbg u v W HT) as (u' & st & E & _). exists (u', st). exact E.
  - intros v u' E. destruct (q_set_port_ok dbg u v W HT) as (u'' & st & E' & _ & Hok).
    rewrite E in E'. inversion E'; subst u'' st. destruct (Hok eq_refl) as (W' & HT' & I & B & P).
    split; [split; assumption|]. splits; assumption.
  - intros v u' E. exact (q_set_hostname_post dbg hp hpo hd HF u v u' W X2 E).
  - intros v u' E. exact (q_set_host_post dbg hp hpo hd HF u v u' W X2 E).
  - intros v u' E. destruct (q_set_pathname_eval dbg u v W) as (sch & _ & Ev). rewrite Ev in E. clear Ev.
    unfold is_opaque_b. destruct (negb (byte_eqb (ser u) (scheme_end u + 1) 47)); [inversion E; reflexivity|].
    exists (q_pathname_arg (scheme_type_of sch) (has_host u) v).
    split; [apply q_pathname_arg_cases|]. split; [apply q_pathname_arg_usv | exact E].
Qed.

End QuirksAll.

(* ---------- non-vacuity: a host function instance and one call of each setter ---------- *)
(* texts over letters and digits (and the empty text) are hosts, displayed as they are *)
Definition qx_hp (s : list N) : result host := if forallb is_alnum s then Ok (HDomain s) else Err InvalidDomainCharacter.
Definition qx_hd (h : host) : list N := match h with HDomain d => d | _ => [] end.

Lemma qx_fns_ok : host_fns_ok qx_hp qx_hp qx_hd.
Proof.
  assert (forall s h, qx_hp s = Ok h -> host_disp_ok qx_hd h) as G.
  { intros s h. unfold qx_hp. destruct (forallb is_alnum s) eqn:E; [|discriminate]. intros H. inversion H; subst.
    unfold host_disp_ok. destruct s as [|c r]; [reflexivity|]. cbn [hi_of_host qx_hd]. exists c, r. split; [reflexivity|].
    cbn [forallb] in E. apply andb_true_iff in E. destruct E as [E _].
    unfold is_alnum, is_alpha, is_upper, is_lower, is_digit in E. lia. }
  split; [exact G | split; [exact G | reflexivity]].
Qed.

(* "a://h:80/p?q#f" *)
Definition qx_u : url := mkUrl [97;58;47;47;104;58;56;48;47;112;63;113;35;102] 1 4 4 5 HI_Domain (Some 80) 8 (Some 10) (Some 12).

Example quirks_inhabited :
  wfh qx_u /\ (has_authority_b qx_u = false -> path_start qx_u = scheme_end qx_u + 1)
  /\ (exists u', q_set_host true qx_hp qx_hp qx_hd qx_u [120; 58; 56; 49] = Some (u', SOk)
                  /\ ser u' = [97;58;47;47;120;58;56;49;47;112;63;113;35;102])
  /\ (exists u', q_set_hostname true qx_hp qx_hp qx_hd qx_u [121; 122] = Some (u', SOk)
                  /\ ser u' = [97;58;47;47;121;122;58;56;48;47;112;63;113;35;102])
  /\ (exists u', q_set_port true qx_u [57] = Some (u', SOk) /\ ser u' = [97;58;47;47;104;58;57;47;112;63;113;35;102])
  /\ (exists u', q_set_pathname true qx_u [122] = Some u' /\ ser u' = [97;58;47;47;104;58;56;48;47;122;63;113;35;102])
  /\ (exists u', set_host true qx_hp qx_hp qx_hd qx_u (Some [120; 58; 49]) = Some (u', SOk)
                  /\ ser u' = [97;58;47;47;120;58;56;48;47;112;63;113;35;102]).
Proof.
  split; [split; [vm_compute; reflexivity | intros _; vm_compute; repeat split; discriminate]|].
  split; [intros H; vm_compute in H; discriminate|].
  repeat split; eexists; split; vm_compute; reflexivity.
Qed.
