(* Proofs/C06_Suffix.v - two serializations that share everything from the path on, at shifted
   offsets: the query/fragment part of the invariant and the path, query, fragment read-backs carry
   over.  Used by every setter that edits in front of the path. *)
From RU Require Import Base.Prelude Model.HostT Model.UrlRecord Model.Parser Model.Setters Model.WF
  Proofs.ListN Proofs.C03_WF Proofs.C06_List Proofs.C06_WFI Proofs.C06_Tail.

Definition shift (b b' o : N) : N := o - b + b'.

Definition shifted_tail (b b' : N) (u u' : url) : Prop :=
  path_start u' = shift b b' (path_start u)
  /\ query_start u' = option_map (shift b b') (query_start u)
  /\ fragment_start u' = option_map (shift b b') (fragment_start u).

(* host text is non-empty whenever there is a host (true of every parsed URL; wf_b itself does not
   relate the host kind to the host text) *)
Definition host_text_ok (u : url) : Prop :=
  has_host u = true ->
  host_start u < host_end u /\ byte_eqb (ser u) (host_start u) 58 = false /\ byte_eqb (ser u) (host_start u) 64 = false.

Section Suffix.
Variables (u u' : url) (b b' : N).
Hypothesis W : wf_b u = true.
Hypothesis Hsuf : agree_suf b b' (ser u) (ser u').
Hypothesis Hb : b <= path_start u.
Hypothesis Hb' : b' <= nlen (ser u').
Hypothesis Hsh : shifted_tail b b' u u'.

Lemma sfx_len : nlen (ser u') = nlen (ser u) - b + b'.
Proof. pose proof (path_start_le_len u W). apply (suf_len b b'); [exact Hsuf | lia | exact Hb']. Qed.

Lemma sfx_path_end : path_end u' = shift b b' (path_end u).
Proof.
  destruct Hsh as (E1 & E2 & E3). unfold path_end. rewrite E2, E3.
  destruct (query_start u); [reflexivity|]. destruct (fragment_start u); [reflexivity|].
  cbn [option_map]. unfold shift. apply sfx_len.
Qed.

Lemma sfx_byte i c : b <= i -> byte_eqb (ser u') (shift b b' i) c = byte_eqb (ser u) i c.
Proof. intros Hi. apply (suf_byte_eqb b b'); [exact Hsuf | exact Hi | reflexivity]. Qed.

Lemma sfx_piece i j : b <= i -> i <= j ->
  nfirstn (shift b b' j - shift b b' i) (nskipn (shift b b' i) (ser u')) = nfirstn (j - i) (nskipn i (ser u)).
Proof.
  intros Hi Hij. replace (shift b b' j - shift b b' i) with (j - i) by (unfold shift; lia).
  apply (suf_piece b b'); [exact Hsuf | exact Hi | reflexivity].
Qed.

Lemma sfx_skip i : b <= i -> nskipn (shift b b' i) (ser u') = nskipn i (ser u).
Proof. intros Hi. apply (suf_skip b b'); [exact Hsuf | exact Hi | reflexivity]. Qed.

Lemma sfx_qf_ok : qf_ok u'.
Proof.
  pose proof W as W0. apply wf_b_iff in W0. destruct W0 as (_ & _ & (Q1 & Q2 & Q3 & Q4 & Q5)).
  pose proof (wf_qf_facts u W) as QF. pose proof (qf_q QF) as F1. pose proof (qf_f QF) as F2.
  pose proof (wf_ps_le_path_end u W) as [P1 P2].
  pose proof Hsh as (E1 & E2 & E3). unfold qf_ok. rewrite sfx_path_end, E1, E2, E3.
  split; [|split; [|split; [|split]]].
  - destruct (query_start u) as [q|]; [|exact I]. cbn [option_map]. destruct Q1 as [Q1a Q1b].
    split; [unfold shift; lia|]. rewrite sfx_byte by lia. exact Q1b.
  - destruct (fragment_start u) as [f|]; [|exact I]. cbn [option_map]. destruct Q2 as [Q2a Q2b].
    split; [unfold shift; lia|]. rewrite sfx_byte by lia. exact Q2b.
  - destruct (query_start u) as [q|]; [|exact I]. destruct (fragment_start u) as [f|]; [|exact I].
    cbn [option_map]. unfold shift. lia.
  - rewrite sfx_piece by lia. exact Q4.
  - destruct (query_start u) as [q|]; [|exact I]. cbn [option_map].
    replace (shift b b' q + 1) with (shift b b' (q + 1)) by (unfold shift; lia).
    destruct (fragment_start u) as [f|]; cbn [option_map].
    + rewrite sfx_piece by lia. exact Q5.
    + rewrite sfx_skip by lia. exact Q5.
Qed.

Lemma sfx_pathstart_ok : pathstart_ok u -> pathstart_ok u'.
Proof.
  intros PS. pose proof Hsh as (E1 & _). unfold pathstart_ok. rewrite E1, !sfx_byte by lia.
  pose proof (path_start_le_len u W).
  destruct PS as [PS|PS]; [left|right; exact PS]. rewrite sfx_len. unfold shift. lia.
Qed.

Hypothesis W' : wf_b u' = true.

Lemma sfx_path : path u' = path u.
Proof.
  rewrite (path_eval u' W'), (path_eval u W). unfold piece.
  change (pidx u' AfterPath) with (path_end u'). change (pidx u AfterPath) with (path_end u). cbn [pidx].
  pose proof Hsh as (E1 & _). rewrite sfx_path_end, E1.
  pose proof (wf_ps_le_path_end u W) as [P1 P2]. rewrite sfx_piece by lia. reflexivity.
Qed.

Lemma sfx_query dbg : query dbg u' = query dbg u.
Proof.
  rewrite (query_eval dbg u' W'), (query_eval dbg u W).
  pose proof Hsh as (E1 & E2 & E3). rewrite E2.
  pose proof (wf_qf_facts u W) as QF. pose proof (qf_q QF) as F1. pose proof (qf_f QF) as F2. pose proof (qf_qf QF) as F3.
  destruct (query_start u) as [q|] eqn:Eq; [|reflexivity]. cbn [option_map]. do 2 f_equal.
  unfold piece. cbn [pidx]. rewrite E2, E3, Eq. cbn [option_map].
  replace (shift b b' q + 1) with (shift b b' (q + 1)) by (unfold shift; lia).
  destruct (fragment_start u) as [f|]; cbn [option_map].
  - apply sfx_piece; lia.
  - rewrite sfx_len. replace (nlen (ser u) - b + b') with (shift b b' (nlen (ser u))) by reflexivity.
    apply sfx_piece; lia.
Qed.

Lemma sfx_fragment dbg : fragment dbg u' = fragment dbg u.
Proof.
  rewrite (fragment_eval dbg u' W'), (fragment_eval dbg u W).
  pose proof Hsh as (E1 & E2 & E3). rewrite E3.
  pose proof (wf_qf_facts u W) as QF. pose proof (qf_f QF) as F2.
  destruct (fragment_start u) as [f|] eqn:Ef; [|reflexivity]. cbn [option_map]. do 2 f_equal.
  unfold piece. cbn [pidx]. rewrite E3, Ef. cbn [option_map].
  replace (shift b b' f + 1) with (shift b b' (f + 1)) by (unfold shift; lia).
  rewrite sfx_len. replace (nlen (ser u) - b + b') with (shift b b' (nlen (ser u))) by reflexivity.
  apply sfx_piece; lia.
Qed.

End Suffix.

(* the offset arithmetic of the setters *)
Lemma adjust_ok dbg idx a b0 : a <= idx -> adjust dbg idx a b0 = Some (idx - a + b0).
Proof. intros H. unfold adjust. replace (a <=? idx) with true by lia. reflexivity. Qed.

Lemma adjust_opt_ok dbg idx a b0 : (match idx with Some i => a <= i | None => True end) ->
  adjust_opt dbg idx a b0 = Some (option_map (shift a b0) idx).
Proof.
  intros H. unfold adjust_opt. destruct idx as [i|]; [|reflexivity]. rewrite adjust_ok by exact H. reflexivity.
Qed.

Lemma wf_tail_offsets_ge u x : wf_b u = true -> x <= path_start u ->
  (match query_start u with Some i => x <= i | None => True end)
  /\ (match fragment_start u with Some i => x <= i | None => True end).
Proof.
  intros W H. pose proof (wf_qf_facts u W) as QF. pose proof (qf_q QF) as F1. pose proof (qf_f QF) as F2.
  split; [destruct (query_start u); [lia | exact I] | destruct (fragment_start u); [lia | exact I]].
Qed.

(* the part after the path, as one relation *)
Definition same_back (dbg : bool) (u u' : url) : Prop :=
  path u' = path u /\ query dbg u' = query dbg u /\ fragment dbg u' = fragment dbg u.

Lemma sfx_back dbg u u' b b' : wf_b u = true -> wf_b u' = true -> agree_suf b b' (ser u) (ser u') ->
  b <= path_start u -> b' <= nlen (ser u') -> shifted_tail b b' u u' -> same_back dbg u u'.
Proof.
  intros W W' S Hb Hb' Sh. split; [|split].
  - eapply sfx_path; eassumption.
  - eapply sfx_query; eassumption.
  - eapply sfx_fragment; eassumption.
Qed.

(* ---------- the shared part starts at or before the host ---------- *)
Definition shifted_auth (b b' : N) (u u' : url) : Prop :=
  host_start u' = shift b b' (host_start u) /\ host_end u' = shift b b' (host_end u)
  /\ hosti u' = hosti u /\ port u' = port u.

Section AuthSuffix.
Variables (u u' : url) (b b' : N).
Hypothesis W : wf_b u = true.
Hypothesis Ha : has_authority_b u = true.
Hypothesis Hsuf : agree_suf b b' (ser u) (ser u').
Hypothesis Hb : b <= host_start u.
Hypothesis Hb' : b' <= nlen (ser u').
Hypothesis Hsh : shifted_tail b b' u u'.
Hypothesis Hsa : shifted_auth b b' u u'.

Lemma asfx_bounds : host_start u <= host_end u /\ host_end u <= path_start u /\ path_start u <= nlen (ser u).
Proof. pose proof (wf_auth_facts u W Ha) as F. pose proof (af_he F); pose proof (af_ps F); pose proof (af_len F). lia. Qed.

Lemma asfx_port_ok : port_ok u'.
Proof.
  pose proof (af_port (wf_auth_facts u W Ha)) as P. destruct asfx_bounds as (B1 & B2 & B3).
  destruct Hsh as (E1 & _). destruct Hsa as (S1 & S2 & S3 & S4).
  unfold port_ok. rewrite S4, E1, S2. destruct (port u) as [p|].
  - destruct P as (P1 & P2 & P3 & P4). split; [|split; [|split]].
    + rewrite (suf_byte_eqb b b' _ _ (host_end u)) by (try exact Hsuf; try lia; reflexivity). exact P1.
    + unfold shift. lia.
    + exact P3.
    + replace (shift b b' (host_end u) + 1) with (shift b b' (host_end u + 1)) by (unfold shift; lia).
      rewrite (sfx_piece u u' b b' Hsuf) by lia. exact P4.
  - unfold shift. lia.
Qed.

Lemma asfx_host_text_ok : host_text_ok u -> host_text_ok u'.
Proof.
  intros HT Hh. destruct Hsa as (S1 & S2 & S3 & S4). unfold has_host in Hh. rewrite S3 in Hh.
  destruct (HT Hh) as (T1 & T2 & T3). rewrite S1, S2.
  rewrite (suf_byte_eqb b b' _ _ (host_start u) _ 58) by (try exact Hsuf; try lia; reflexivity).
  rewrite (suf_byte_eqb b b' _ _ (host_start u) _ 64) by (try exact Hsuf; try lia; reflexivity).
  split; [unfold shift; lia | tauto].
Qed.

Hypothesis W' : wf_b u' = true.

Lemma asfx_host_str : host_str u' = host_str u.
Proof.
  rewrite (host_str_eval u' W'), (host_str_eval u W). destruct Hsa as (S1 & S2 & S3 & S4).
  unfold has_host. rewrite S3. destruct asfx_bounds as (B1 & B2 & B3).
  destruct (hosti u); try reflexivity; unfold piece; cbn [pidx]; rewrite S1, S2;
    rewrite (sfx_piece u u' b b' Hsuf) by lia; reflexivity.
Qed.

Lemma asfx_back dbg : same_back dbg u u'.
Proof. destruct asfx_bounds as (B1 & B2 & B3). apply (sfx_back dbg u u' b b'); try assumption. lia. Qed.

End AuthSuffix.
