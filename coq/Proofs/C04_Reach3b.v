(* Proofs/C04_Reach3b.v - C04_Reach3.reach3_no_panic with the path_segments_mut clause as plain no-panic: on a Reachable3
   record PathSegmentsMut::new's debug assertion (C04_SetPath.psm_assert_fails) cannot fail, because a special scheme implies
   that the byte at path_start is '/' (invariant SP: Proofs/C03_InvSP.v, C03_InvSPSteps.v, C03_InvSPReach.v). *)
From RU Require Import Base.Prelude Base.Utf8 Model.HostT Model.UrlRecord Model.Parser Model.Setters Model.WF
  Proofs.ListN Proofs.C03_WF Proofs.C02_Reach Proofs.C02_Reach3 Proofs.C02_SetHostCanon
  Proofs.C03_ReachParts Proofs.C03_AuthEnd Proofs.C04_SetPath Proofs.C04_Reach3 Proofs.C03_InvSP Proofs.C03_InvSPReach.
From RU Require Proofs.C05_Parser Proofs.C05_Alphabet.

Section R3b.
Variable hp hpo : list N -> result host.
Variable hd : host -> list N.
Hypothesis HW : HostWf hp hpo hd.
Hypothesis HNE : host_nonempty hp hpo.
Hypothesis HIPW : IpWf hd.
Hypothesis HOK : C05_Parser.HostOK hp hpo hd.
Hypothesis HIP : C05_Alphabet.IpOKv hd.

Theorem reach3_sessions_total dbg u : Reachable3 dbg hp hpo hd u ->
  psm_assert_fails u = false /\ forall dbg' ops, exists r, path_segments_session dbg' u ops = Some r.
Proof using HW HNE HIPW HOK HIP.
  intros R. destruct (reach3_psm_assert dbg hp hpo hd HW HNE HIPW HOK HIP u R) as [_ F]. split; [exact F|].
  intros dbg' ops.
  destruct (reach3_no_panic hp hpo hd HW HNE HIPW HOK HIP dbg u R dbg') as (_ & (_ & Hs & _) & _).
  destruct (path_segments_session dbg' u ops) as [r|] eqn:E; [exists r; reflexivity|].
  exfalso. destruct (proj1 (Hs ops) E) as [_ X]. rewrite F in X. discriminate X.
Qed.
End R3b.
