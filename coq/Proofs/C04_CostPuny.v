(* Proofs/C04_CostPuny.v - the cost of the Punycode ENCODER (idna/src/punycode.rs encode_into), the quadratic step the
   property text allows "capped by the documented label-length limits".
   Cost semantics of Model/Cost.v: one step per element examined.  encode_into makes one pass over the input for the
   basic code points (enc_basic); then, per iteration of `while processed < input_length` (enc_outer), one pass for the
   minimum (min_ge) and one pass of the inner `for c in input` loop (enc_inner), two steps of bookkeeping; every digit
   written is one step (they are the output, counted by its length).  The cost function follows the recursion of
   enc_outer and takes the state after each iteration from the model itself.
     encode_cost_le : steps <= |input| + (|input| + 1) (2 |input| + 2) + 1 + |output|   - quadratic, every input: the
                      upper bound matching finding F-C04-10 for the public encoder (no cap there);
     encode_cost_capped : for an input of at most 1000 scalar values (what the uts46 walks hand to the internal
                      encoder: C04_CostIdna.labels_capped) steps <= 2005 (|input| + 1) + |output| - a constant per
                      character.
   The DECODER has no cost twin (its quadratic part - insertions into the output - is capped at 2000 code units inside
   uts46: C04_punycode_cap). *)
From RU Require Import Base.Prelude Base.Utf8 Base.U32_c13 Gen.Tables Model.Punycode.

Definition plen (l : list N) : N := N.of_nat (length l).

(* the iterations of `while processed < input_length` *)
Fixpoint enc_outer_cost (fuel : nat) (cfg_debug external : bool) (input : list N) (input_length basic_length : N)
    (code_point delta bias processed : N) : N :=
  if processed <? input_length then
    match fuel with
    | O => 1
    | Datatypes.S f =>
        2 + 2 * plen input
        + match min_ge code_point input with
          | None => 0
          | Some min_code_point =>
              match rbind (caller_mul cfg_debug external 413 (min_code_point - code_point) (processed + 1)) (fun product =>
                    rbind (caller_add cfg_debug external 413 delta product) (fun delta =>
                    enc_inner cfg_debug external input min_code_point basic_length delta bias processed)) with
              | Ok (delta, bias, processed, _) =>
                  match unchecked_add cfg_debug 451 delta 1 with
                  | Ok delta => enc_outer_cost f cfg_debug external input input_length basic_length
                                               (min_code_point + 1) delta bias processed
                  | _ => 0
                  end
              | _ => 0
              end
          end
    end
  else 1.

Definition out_len (r : res (list N)) : N := match r with Ok o => plen o | _ => 0 end.

Definition encode_cost (cfg_debug external : bool) (input : list N) : N :=
  plen input
  + match enc_basic input 0 0 with
    | None => 0
    | Some (input_length, basic_length, _) =>
        enc_outer_cost (Datatypes.S (List.length input)) cfg_debug external input input_length basic_length
                       INITIAL_N 0 INITIAL_BIAS basic_length
    end
  + out_len (encode_into cfg_debug external input).

Lemma enc_outer_cost_le fuel cfg ext input il bl : forall cp delta bias processed,
  enc_outer_cost fuel cfg ext input il bl cp delta bias processed <= N.of_nat fuel * (2 * plen input + 2) + 1.
Proof.
  induction fuel as [|f IH]; intros cp delta bias processed; cbn [enc_outer_cost].
  - destruct (processed <? il); lia.
  - destruct (processed <? il); [|lia].
    rewrite Nat2N.inj_succ.
    destruct (min_ge cp input) as [m|]; [|lia].
    match goal with |- context [match ?x with Ok _ => _ | Err => _ | Panic _ => _ end] => destruct x as [[[[d b] p] o]| |] end; [|lia|lia].
    destruct (unchecked_add cfg 451 d 1) as [d'| |]; [|lia|lia].
    specialize (IH (m + 1) d' b p). lia.
Qed.

(* quadratic upper bound, every input, both callers *)
Theorem encode_cost_le cfg ext input :
  encode_cost cfg ext input
  <= plen input + (plen input + 1) * (2 * plen input + 2) + 1 + out_len (encode_into cfg ext input).
Proof.
  unfold encode_cost. destruct (enc_basic input 0 0) as [[[il bl] basic]|]; [|lia].
  pose proof (enc_outer_cost_le (Datatypes.S (length input)) cfg ext input il bl INITIAL_N 0 INITIAL_BIAS bl) as H.
  rewrite Nat2N.inj_succ in H. unfold plen in *. lia.
Qed.

(* with the cap of the internal caller: a constant per character *)
Theorem encode_cost_capped cfg ext input : plen input <= 1000 ->
  encode_cost cfg ext input <= 2005 * (plen input + 1) + out_len (encode_into cfg ext input).
Proof. intros Hc. pose proof (encode_cost_le cfg ext input) as H. nia. Qed.

(* finding F-C04-10 in the cost model: n pairwise distinct non-ASCII code points make n iterations of two passes each *)
Fixpoint distinct_cjk (n : nat) : list N :=
  match n with O => [] | Datatypes.S k => (19968 + N.of_nat k) :: distinct_cjk k end.

Lemma f_c04_10_quadratic_50_100_200 :
  2 * 50 * 50 <= encode_cost false true (distinct_cjk 50)
  /\ 2 * 100 * 100 <= encode_cost false true (distinct_cjk 100)
  /\ 2 * 200 * 200 <= encode_cost false true (distinct_cjk 200)
  /\ encode_cost false true (map (fun _ => 19968) (distinct_cjk 200)) <= 5 * 200 + 20.
Proof. vm_compute. repeat split; discriminate. Qed.
