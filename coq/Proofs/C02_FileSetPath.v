(* Proofs/C02_FileSetPath.v - L2 on canonical file records for the path setters:
     - loop_setter_sub_f: the setter context of the FILE path loop equals the URL-parser context on the text with '?'
       and '#' replaced by their escapes (C02_PathSetter.loop_setter_sub had the premise "not the file scheme": the
       drive-letter arm of the loop does not look at the character and cannot fire twice in a row, arm_once);
     - set_path_File: Url::set_path on a canonical file record that has a host, or with an argument that starts with
       '/' or '\\': the result outside Known_file_drive is a canonical file record;
     - q_set_pathname_File: url::quirks::set_pathname on a canonical file record, EVERY argument (the quirks setter
       puts a slash in front when there is none).
   NOT covered: Url::set_path with an argument that does not start with a slash on a file record WITHOUT a host: the
   serialization "file://" already ends with '/', parse_path_start adds none and the loop runs with the first segment
   starting AT path_start - a different invariant (see file_set_path_no_slash: there ".." does not remove the first
   segment). *)
From RU Require Import Proofs.C15_Ser.
From Coq Require Import String.
From RU Require Import Base.Prelude Base.Utf8 Base.Utf8Facts Base.Outcome_c15 Model.AsciiSet Gen.Tables
  Model.PercentEncoding Model.HostT Model.Host Model.UrlRecord Model.Parser Model.Setters Model.WF
  Proofs.ListN Proofs.C14_Set Proofs.C14_Enc Proofs.C14_Views Proofs.C02_Enc Proofs.C02_Parts Proofs.C02_Opaque Proofs.C02_Path Proofs.C02_PathL1 Proofs.C02_Reach
  Proofs.C02_AuthParts Proofs.C02_Auth Proofs.C02_AuthWf Proofs.C02_PathSp Proofs.C02_AuthSp Proofs.C02_AuthMain
  Proofs.C02_Hist Proofs.C02_SetQF Proofs.C02_Canon Proofs.C02_JoinTail Proofs.C02_JoinAbs Proofs.C02_JoinPath Proofs.C02_Ovr Proofs.C02_Reach7
  Proofs.C02_PathSetter Proofs.C02_SetPath Proofs.C06_List
  Proofs.C02_File Proofs.C02_FileL1 Proofs.C02_FileCanon Proofs.C02_FileParse Proofs.C02_FileSet Proofs.C02_FileOps Proofs.C02_FileJoin.
Open Scope N_scope.
Open Scope list_scope.

(* the setter context of the file path loop = the URL-parser context on the text with '?' and '#' replaced by their
   escapes (C02_PathSetter.loop_setter_sub without the premise "not the file scheme": the drive-letter arm does not
   look at the character, and cannot fire twice in a row) *)
Section ReduceF.
Variable dbg : bool.
Variable ps : N.

Lemma arm_once ser X : (ps <? nlen ser) && is_normalized_wdl (nskipn (ps + 1) ser) = true ->
  is_normalized_wdl (nskipn (ps + 1) ((ser ++ X) ++ [47])) = false.
Proof.
  intros H. apply andb_true_iff in H. destruct H as [Hl Hw]. destruct (nwdl_inv _ Hw) as (a & Ea & _).
  assert (ps + 1 <= nlen ser) as Hle by lia.
  rewrite <- app_assoc. rewrite (nskipn_app_le (ps + 1) ser (X ++ [47]) Hle). rewrite Ea. cbn [app].
  destruct X as [|x X']; reflexivity.
Qed.

Theorem loop_setter_sub_f l : forall ser ss a b hh, usv_list l -> pend_eq a b ->
  parse_path_loop dbg CSetter STFile ps l ser ss a hh = parse_path_loop dbg CUrlParser STFile ps (qh_sub l) ser ss b hh.
Proof.
  induction l as [|c r IH]; intros ser ss a b hh Hu Hp.
  - cbn [qh_sub parse_path_loop]. rewrite (pend_eq_push STFile ser a b Hp). reflexivity.
  - apply usv_cons in Hu. destruct Hu as [Hc Hr]. cbn [qh_sub].
    pose proof (pend_eq_push STFile ser a b Hp) as Epush.
    assert (forall e1 e2 e3, is_tnl e1 = false -> is_tnl e2 = false -> is_tnl e3 = false ->
              (e1 =? 47) = false -> (e1 =? 92) = false -> (e1 =? 63) = false -> (e1 =? 35) = false ->
              (e2 =? 47) = false -> (e2 =? 92) = false -> (e2 =? 63) = false -> (e2 =? 35) = false ->
              (e3 =? 47) = false -> (e3 =? 92) = false -> (e3 =? 63) = false -> (e3 =? 35) = false ->
              (forall a' b', pend_eq a' b' -> pend_eq (c :: a') (e3 :: e2 :: e1 :: b')) ->
              (if st_is_file STFile && (ps <? nlen ser) && is_normalized_wdl (nskipn (ps + 1) ser)
               then parse_path_loop dbg CSetter STFile ps r (push_pending CSetter STFile ser a ++ [47]) (ss + 1) [c] hh
               else parse_path_loop dbg CSetter STFile ps r ser ss (c :: a) hh)
              = parse_path_loop dbg CUrlParser STFile ps (e1 :: e2 :: e3 :: qh_sub r) ser ss b hh) as Hesc.
    { intros e1 e2 e3 T1 T2 T3 A1 A2 A3 A4 B1 B2 B3 B4 C1 C2 C3 C4 Hsub.
      cbn [parse_path_loop]. rewrite T1. cbn [ctx_eqb negb st_is_special st_is_file andb].
      rewrite A1, A2, A3, A4. cbn [andb orb].
      destruct ((ps <? nlen ser) && is_normalized_wdl (nskipn (ps + 1) ser)) eqn:Earm.
      - rewrite Epush.
        rewrite (push_pending_eq_sp STFile ser b (proj1 (proj2 Hp))).
        do 3 (cbn [parse_path_loop ctx_eqb negb st_is_special st_is_file andb orb];
              rewrite ?T2, ?T3, ?B1, ?B2, ?B3, ?B4, ?C1, ?C2, ?C3, ?C4, ?(arm_once ser _ Earm), ?andb_false_r).
        apply IH; [exact Hr|]. apply (Hsub [] []). exact pend_eq_nil.
      - do 3 (cbn [parse_path_loop ctx_eqb negb st_is_special st_is_file andb orb];
              rewrite ?T2, ?T3, ?B1, ?B2, ?B3, ?B4, ?C1, ?C2, ?C3, ?C4, ?Earm).
        apply IH; [exact Hr|]. apply Hsub. exact Hp. }
    destruct (c =? 63) eqn:E63.
    + apply N.eqb_eq in E63. subst c. cbn [parse_path_loop].
      cbn [is_tnl N.eqb Pos.eqb orb andb ctx_eqb negb st_is_special].
      apply (Hesc 37 51 70); try reflexivity.
      intros a' b' Hp'. apply (pend_eq_sub STFile 63 37 51 70); try lia; try (left; lia); try exact Hp';
        [exact (proj1 enc_q) | exact (proj1 (proj2 enc_q))].
    + destruct (c =? 35) eqn:E35.
      * apply N.eqb_eq in E35. subst c. cbn [parse_path_loop].
        cbn [is_tnl N.eqb Pos.eqb orb andb ctx_eqb negb st_is_special].
        apply (Hesc 37 50 51); try reflexivity.
        intros a' b' Hp'. apply (pend_eq_sub STFile 35 37 50 51); try lia; try (left; lia); try exact Hp';
          [exact (proj1 (proj2 (proj2 enc_q))) | exact (proj2 (proj2 (proj2 enc_q)))].
      * cbn [parse_path_loop]. destruct (is_tnl c) eqn:Et.
        -- rewrite Epush. apply IH; [exact Hr | exact pend_eq_nil].
        -- cbn [ctx_eqb negb andb]. rewrite E63, E35. cbn [orb andb].
           destruct ((c =? 47) || (c =? 92) && st_is_special STFile).
           ++ rewrite Epush.
              destruct (finish_segment dbg STFile ps (push_pending CUrlParser STFile ser b ++ [47]) ss true hh) as [[s2 hh2]|e|]; cbn [pbind];
                try reflexivity.
              apply IH; [exact Hr | exact pend_eq_nil].
           ++ destruct (st_is_file STFile && (ps <? nlen ser) && is_normalized_wdl (nskipn (ps + 1) ser)).
              ** rewrite Epush. apply IH; [exact Hr|]. apply pend_eq_cons; [exact Hc | exact pend_eq_nil].
              ** apply IH; [exact Hr | exact (pend_eq_cons c a b Hc Hp)].
Qed.
End ReduceF.

(* the argument starts with '/' or '\\' (after tab / LF / CR removal) *)
Definition lead_slash (x : list N) : bool :=
  match inp_next x with Some (c, _) => is_slash_or_bslash c | None => false end.

Section SetPathFile.
Variable dbg : bool.
Variable hp hpo : list N -> result host.
Variable hd : host -> list N.

Notation FileCanon := (FileCanon hp hd).
Notation file_curl := (file_curl hd).
Notation file_front := (file_front hd).
Notation file_ok := (file_ok hp hd).

(* the setter path loop from  front "/"  *)
Lemma setter_loop_out F l s1 hh rm : usv_list l ->
  parse_path dbg CSetter STFile true (nlen F) (F ++ [47]) l = POk (s1, hh, rm) ->
  path_good F true s1 hh \/ path_drive F true s1 hh.
Proof.
  intros Hl H. unfold parse_path in H.
  rewrite (loop_setter_sub_f dbg (nlen F) l (F ++ [47]) (nlen (F ++ [47])) [] [] true Hl pend_eq_nil) in H.
  exact (proj2 (loop_out dbg F (qh_sub l) true s1 hh rm (usv_qh_sub l Hl) H)).
Qed.

Lemma pps_setter_file ho x s1 hh rm : fhost_ok hp hd ho -> usv_list x ->
  (match ho with Some _ => true | None => false end) || lead_slash x = true ->
  parse_path_start dbg CSetter STFile true (file_front ho) x = POk (s1, hh, rm) ->
  path_good (file_front ho) true s1 hh \/ path_drive (file_front ho) true s1 hh.
Proof.
  intros Kh Hx Harg H. unfold parse_path_start, inp_split_first in H. cbn [st_is_special] in H.
  destruct ho as [h|].
  - destruct Kh as (_ & _ & Ht & _).
    unfold C02_File.file_front in H. cbn [fhost_text] in H. rewrite (host_text_last (hd h) s_file_css Ht) in H. cbn [negb] in H.
    destruct (inp_next x) as [[c r]|] eqn:En.
    + destruct (is_slash_or_bslash c);
        [exact (setter_loop_out _ r s1 hh rm (inp_next_usv x c r Hx En) H) | exact (setter_loop_out _ x s1 hh rm Hx H)].
    + exact (setter_loop_out _ x s1 hh rm Hx H).
  - cbn [orb] in Harg. unfold lead_slash in Harg.
    destruct (inp_next x) as [[c r]|] eqn:En; [|discriminate Harg].
    change (ends_with_byte 47 (file_front None)) with true in H. cbn [negb] in H.
    unfold parse_path in H.
    rewrite (loop_setter_sub_f dbg (nlen (file_front None)) x (file_front None) (nlen (file_front None)) [] [] true Hx pend_eq_nil) in H.
    assert (is_qh c = false) as Hq by (unfold is_slash_or_bslash in Harg; unfold is_qh; lia).
    assert (inp_split_first (qh_sub x) = (Some c, qh_sub r)) as Es
      by (unfold inp_split_first; rewrite (inp_next_sub x c r En Hq); reflexivity).
    rewrite (loop_one_slash_g dbg (file_front None) (qh_sub x) c (qh_sub r) true Es Harg) in H.
    exact (proj2 (loop_out dbg (file_front None) (qh_sub r) true s1 hh rm (usv_qh_sub r (inp_next_usv x c r Hx En)) H)).
Qed.

Theorem set_path_file ho segs last q f x u' : file_ok ho segs last q f -> usv_list x ->
  (match ho with Some _ => true | None => false end) || lead_slash x = true ->
  set_path dbg (file_curl ho (path_text segs last) q f) x = Some u' -> nlen (ser u') <= U32_MAX_P ->
  Known_file_drive u' = false -> FileCanon u'.
Proof.
  intros K Hx Harg E Hb Hk.
  change (file_curl ho (path_text segs last) q f)
    with (qf_url ((s_file ++ 58 :: 47 :: (47 :: fhost_text hd ho)) ++ path_text segs last) (nlen s_file) 7 7 (nlen (file_front ho))
                 (fhost_hi ho) None (nlen (s_file ++ 58 :: 47 :: (47 :: fhost_text hd ho))) q f) in E.
  apply set_path_frame in E. destruct E as (s1 & hh & rm & Ep & ->).
  change (s_file ++ 58 :: 47 :: 47 :: fhost_text hd ho) with (file_front ho) in *.
  change (scheme_type_of s_file) with STFile in Ep.
  destruct K as [Kh Ksegs Klast Kfirst Kq Kf Kb1 Kbq Kbf].
  destruct (pps_setter_file ho x s1 hh rm Kh Hx Harg Ep) as [(segs' & last' & -> & G1 & G2 & G3 & _) | (a & X & Ha & ->)].
  - change (qf_url (file_front ho ++ path_text segs' last') (nlen s_file) 7 7 (nlen (file_front ho)) (fhost_hi ho) None
                   (nlen (file_front ho)) q f) with (file_curl ho (path_text segs' last') q f) in *.
    destruct (file_bounds_of_len hp hpo hd ho (path_text segs' last') q f Hb) as (_ & Bq & Bf).
    apply file_good_out; assumption.
  - exfalso.
    change (qf_url (file_front ho ++ [47; a; 58; 47] ++ X) (nlen s_file) 7 7 (nlen (file_front ho)) (fhost_hi ho) None
                   (nlen (file_front ho)) q f) with (file_curl ho ([47; a; 58; 47] ++ X) q f) in Hk.
    rewrite (drive_known hd ho a X q f Ha) in Hk. discriminate Hk.
Qed.

Lemma file_has_host ho T q f : fhost_ok hp hd ho ->
  has_host (file_curl ho T q f) = match ho with Some _ => true | None => false end.
Proof.
  destruct ho as [h|]; [|reflexivity]. intros (Hne & _). unfold has_host, C02_File.file_curl, qf_url. cbn [hosti fhost_hi].
  destruct h as [[|c d]|a|pcs]; [contradiction | reflexivity ..].
Qed.

(* Url::set_path on a canonical file record: with a host, or with an argument that starts with a slash *)
Theorem set_path_File u x u' : FileCanon u -> usv_list x -> has_host u || lead_slash x = true ->
  set_path dbg u x = Some u' -> nlen (ser u') <= U32_MAX_P -> Known_file_drive u' = false -> FileCanon u'.
Proof.
  intros [ho segs last q f K] Hx Harg E Hb Hk. rewrite (file_has_host ho _ q f (fk_host _ _ _ _ _ _ _ K)) in Harg.
  exact (set_path_file ho segs last q f x u' K Hx Harg E Hb Hk).
Qed.

Lemma lead_slash_of_match v :
  (match v with 47 :: _ => true | _ => false end) || (true && match v with 92 :: _ => true | _ => false end) = true ->
  lead_slash v = true.
Proof.
  destruct v as [|c r]; [discriminate|]. destruct c as [|p]; [discriminate|].
  repeat (destruct p as [p|p|]; try discriminate); reflexivity.
Qed.

(* url::quirks::set_pathname on a canonical file record, every argument (a slash is put in front when there is none) *)
Theorem q_set_pathname_File u v u' : FileCanon u -> usv_list v ->
  q_set_pathname dbg u v = Some u' -> nlen (ser u') <= U32_MAX_P -> Known_file_drive u' = false -> FileCanon u'.
Proof.
  intros [ho segs last q f K] Hv E Hb Hk. unfold q_set_pathname in E. rewrite file_curl_cbb in E. cbn [bindo] in E.
  unfold u_scheme_type in E. rewrite file_scheme in E. cbn [bindo] in E. change (scheme_type_of s_file) with STFile in E.
  cbn [st_is_special] in E.
  destruct ((match v with 47 :: _ => true | _ => false end) || (true && match v with 92 :: _ => true | _ => false end)) eqn:Ec.
  - apply (set_path_file ho segs last q f v u' K Hv); try assumption.
    rewrite (lead_slash_of_match v Ec). apply orb_true_r.
  - cbn [orb] in E. apply (set_path_file ho segs last q f (47 :: v) u' K); try assumption.
    + apply usv_cons. split; [left; lia | exact Hv].
    + apply orb_true_r.
Qed.
End SetPathFile.
