(* Proofs/C02_AuthWf.v - the canonical record of the classes with authority satisfies the structural
   invariant wf_b (L1, structural part), and its serialization is ASCII. *)
From RU Require Import Base.Prelude Base.Utf8 Base.Utf8Facts Model.AsciiSet Gen.Tables
  Model.PercentEncoding Model.HostT Model.UrlRecord Model.Parser Model.WF
  Proofs.ListN Proofs.C14_Set Proofs.C14_Enc Proofs.C14_Views Proofs.C02_Enc Proofs.C02_Parts
  Proofs.C02_Opaque Proofs.C02_Path Proofs.C02_PathL1 Proofs.C02_Reach Proofs.C16_RT Proofs.C02_AuthParts
  Proofs.C02_Auth.

Ltac nl := repeat first [rewrite nlen_app | rewrite nlen_cons | rewrite nlen_nil]; lia.

Definition head_is (Z : list N) (d : N) : bool := match Z with c :: _ => c =? d | [] => false end.

Lemma byte_eqb_head X Z i d : i = nlen X -> byte_eqb (X ++ Z) i d = head_is Z d.
Proof.
  intros ->. unfold byte_eqb, nnth, nlen. rewrite Nat2N.id. rewrite nth_error_app2 by lia. rewrite Nat.sub_diag.
  destruct Z; reflexivity.
Qed.

Lemma list_eqb_refl l : list_eqb l l = true.
Proof. apply list_eqb_spec. reflexivity. Qed.

(* ---------- the userinfo clauses of wf_authority ---------- *)
Lemma wf_ui_clause A ui Z : ui_ok ui -> (ui = UNone -> head_is Z 58 = false) ->
  let s := A ++ ui_text ui ++ Z in
  let ue := nlen A + ui_ulen ui in
  let hs := nlen A + nlen (ui_text ui) in
  (if ue =? hs then ue =? nlen A
   else if byte_eqb s ue 58 then (ue + 2 <=? hs) && byte_eqb s (hs - 1) 64
        else byte_eqb s ue 64 && (hs =? ue + 1))
  && (if ue =? hs then negb (byte_eqb s ue 58) else true) = true.
Proof.
  intros Hok HZ s ue hs. subst s ue hs. destruct ui as [|u|u p]; cbn [ui_ok ui_text ui_ulen] in *.
  - rewrite nlen_nil, N.eqb_refl. cbn [app]. rewrite (byte_eqb_head A Z) by lia. rewrite (HZ eq_refl).
    replace (nlen A + 0 =? nlen A) with true by lia. reflexivity.
  - replace (nlen A + nlen u =? nlen A + nlen (u ++ [64])) with false by nl.
    replace (A ++ (u ++ [64]) ++ Z) with ((A ++ u) ++ 64 :: Z) by (rewrite <- !app_assoc; reflexivity).
    rewrite (byte_eqb_head (A ++ u) (64 :: Z) (nlen A + nlen u) 58) by (rewrite nlen_app; reflexivity).
    cbn [head_is]. replace (64 =? 58) with false by reflexivity.
    rewrite (byte_eqb_head (A ++ u) (64 :: Z) (nlen A + nlen u) 64) by (rewrite nlen_app; reflexivity).
    cbn [head_is]. replace (64 =? 64) with true by reflexivity. cbn [andb].
    rewrite andb_true_r. nl.
  - destruct Hok as (_ & _ & Hne).
    assert (0 < nlen p) as Hp by (destruct p; [contradiction | rewrite nlen_cons; lia]).
    replace (nlen A + nlen u =? nlen A + nlen (u ++ 58 :: p ++ [64])) with false by nl.
    replace (A ++ (u ++ 58 :: p ++ [64]) ++ Z) with ((A ++ u) ++ 58 :: p ++ 64 :: Z)
      by (rewrite <- !app_assoc; cbn [app]; rewrite <- !app_assoc; reflexivity).
    rewrite byte_eqb_head by (rewrite nlen_app; reflexivity). cbn [head_is].
    replace (58 =? 58) with true by reflexivity.
    replace ((A ++ u) ++ 58 :: p ++ 64 :: Z) with (((A ++ u) ++ 58 :: p) ++ 64 :: Z) by (rewrite <- !app_assoc; reflexivity).
    rewrite byte_eqb_head by nl. cbn [head_is]. replace (64 =? 64) with true by reflexivity.
    rewrite !andb_true_r. nl.
Qed.

(* ---------- the port clause ---------- *)
Lemma wf_port_clause Bf pt Z dflt : port_ok dflt pt ->
  let s := Bf ++ port_text pt ++ Z in
  let he := nlen Bf in
  let ps := nlen Bf + nlen (port_text pt) in
  match pt with
  | None => ps =? he
  | Some p => byte_eqb s he 58
              && list_eqb (nfirstn (ps - (he + 1)) (nskipn (he + 1) s)) (decimal p)
              && (ps =? he + 1 + nlen (decimal p))
              && (p <=? 65535)
  end = true.
Proof.
  intros Hok s he ps. subst s he ps. destruct pt as [p|]; cbn [port_text port_ok] in *.
  - destruct Hok as [Hp _]. rewrite byte_eqb_head by reflexivity. cbn [app head_is].
    replace (58 =? 58) with true by reflexivity. rewrite nskipn_app_add.
    change (nskipn 1 (58 :: decimal p ++ Z)) with (decimal p ++ Z).
    replace (nlen Bf + nlen (58 :: decimal p) - (nlen Bf + 1)) with (nlen (decimal p)) by (rewrite nlen_cons; lia).
    rewrite nfirstn_app_len, list_eqb_refl. rewrite nlen_cons. cbn [andb].
    replace (nlen Bf + (1 + nlen (decimal p)) =? nlen Bf + 1 + nlen (decimal p)) with true by lia.
    replace (p <=? 65535) with true by lia. reflexivity.
  - rewrite nlen_nil. lia.
Qed.

(* ---------- query / fragment clauses, for the query set of any scheme type ---------- *)
Lemma wf_qf_generic_st st (A P : list N) q f u :
  ser u = (A ++ P) ++ qf_text q f -> path_start u = nlen A ->
  query_start u = qf_qs (nlen (A ++ P)) q -> fragment_start u = qf_fs (nlen (A ++ P)) q f ->
  forallb (fun c => negb ((c =? 63) || (c =? 35))) P = true -> opt_clean (query_set st) q ->
  wf_query_fragment u = true.
Proof.
  intros Es Ep Eq Ef HP Hq. unfold wf_query_fragment. rewrite Es, Ep, Eq, Ef.
  assert (forall x, clean (query_set st) x = true -> forallb (fun c => negb (c =? 35)) x = true) as Hx35.
  { intros x Hc. apply (forallb_impl not_tnl_hash); [|exact (clean_forallb _ _ x (kept_query_set_sat st) Hc)].
    intros c Hcc. unfold not_tnl_hash in Hcc. apply andb_true_iff in Hcc. tauto. }
  destruct q as [x|]; destruct f as [y|];
    cbn [qf_qs qf_fs qf_text qf_qtext qf_ftext opt_clean] in *; unfold qf_text; cbn [qf_qtext qf_ftext].
  - pose proof (Hx35 x Hq) as Hx.
    repeat (apply andb_true_iff; split).
    + rewrite nlen_app. lia.
    + cbn [app]. apply byte_eqb_app.
    + rewrite !nlen_app. lia.
    + replace ((A ++ P) ++ (63 :: x) ++ 35 :: y) with (((A ++ P) ++ 63 :: x) ++ 35 :: y) by (rewrite <- !app_assoc; reflexivity).
      rewrite <- nlen_app. apply byte_eqb_app.
    + rewrite nlen_cons. lia.
    + rewrite nlen_app. replace (nlen A + nlen P - nlen A) with (nlen P) by lia.
      rewrite <- !app_assoc. rewrite nskipn_app_len. rewrite nfirstn_app_len. exact HP.
    + rewrite nlen_cons. replace (nlen (A ++ P) + (1 + nlen x) - (nlen (A ++ P) + 1)) with (nlen x) by lia.
      rewrite nskipn_app_add. cbn [app]. change (nskipn 1 (63 :: x ++ 35 :: y)) with (x ++ 35 :: y).
      rewrite nfirstn_app_len. exact Hx.
  - pose proof (Hx35 x Hq) as Hx.
    rewrite app_nil_r. repeat (apply andb_true_iff; split); try reflexivity.
    + rewrite nlen_app. lia.
    + apply byte_eqb_app.
    + rewrite nlen_app. replace (nlen A + nlen P - nlen A) with (nlen P) by lia.
      rewrite <- !app_assoc. rewrite nskipn_app_len. rewrite nfirstn_app_len. exact HP.
    + rewrite nskipn_app_add. change (nskipn 1 (63 :: x)) with x. exact Hx.
  - cbn [app]. rewrite N.add_0_r. repeat (apply andb_true_iff; split); try reflexivity.
    + rewrite nlen_app. lia.
    + apply byte_eqb_app.
    + rewrite nlen_app. replace (nlen A + nlen P - nlen A) with (nlen P) by lia.
      rewrite <- !app_assoc. rewrite nskipn_app_len. rewrite nfirstn_app_len. exact HP.
  - cbn [app]. rewrite app_nil_r. repeat (apply andb_true_iff; split); try reflexivity.
    rewrite nlen_app. replace (nlen A + nlen P - nlen A) with (nlen P) by lia.
    rewrite nskipn_app_len. rewrite nfirstn_all by lia. exact HP.
Qed.

Lemma pth_text_no_qh p : pth_ok p -> forallb (fun c => negb ((c =? 63) || (c =? 35))) (pth_text p) = true.
Proof. destruct p as [[segs last]|]; [|reflexivity]. intros [Hs Hl]. apply path_text_no_qh; assumption. Qed.

Section AuthWf.
Variable hp hpo : list N -> result host.
Variable hd : host -> list N.
Hypothesis HOK : HostRT hp hpo hd.

Lemma host_head st h pt X : host_ok hp hpo hd st h -> (h = HDomain [] -> pt = None) -> tail_ok X ->
  head_is (hd h ++ port_text pt ++ X) 58 = false.
Proof.
  intros [[-> _]|(Hne & Ht & _)] Hemp HX.
  - rewrite (Hemp eq_refl). rewrite (hd_empty hp hpo hd HOK). cbn [port_text app].
    destruct X as [|c r]; [reflexivity|]. cbn [tail_ok head_is] in *. lia.
  - destruct (host_text_facts _ Ht) as [_ H58]. destruct Ht as (_ & Hnn & _).
    destruct (hd h) as [|c r]; [contradiction|]. exact H58.
Qed.

Theorem auth_url_wf st sch ui h pt p q f : auth_ok hp hpo hd st sch ui h pt p q f ->
  wf_b (auth_url hd sch ui h pt p q f) = true
  /\ cannot_be_a_base (auth_url hd sch ui h pt p q f) = Some false.
Proof.
  intros K. destruct K as [Ksch Kst Kui Kh Kemp Kpt Kp Kq Kf Kb Kbq Kbf].
  unfold scheme_canon in Ksch. apply andb_true_iff in Ksch. destruct Ksch as [Hhead Hall].
  assert (qh_ok (qf_text q f)) as Hqf by (unfold qf_text; destruct q; destruct f; cbn; auto).
  pose proof (pth_tail p _ Hqf) as Htail.
  set (A := sch ++ [58; 47; 47]). set (U := ui_text ui). set (Hh := hd h). set (Pt := port_text pt).
  set (T := pth_text p). set (Q := qf_text q f).
  assert (nlen A = nlen sch + 3) as EA by (unfold A; nl).
  assert (auth_ser hd sch ui h pt p q f = sch ++ 58 :: 47 :: 47 :: U ++ Hh ++ Pt ++ T ++ Q) as Eshape by apply auth_ser_shape.
  assert (auth_ser hd sch ui h pt p q f = A ++ U ++ Hh ++ Pt ++ T ++ Q) as Eser
    by (rewrite Eshape; unfold A; rewrite <- app_assoc; reflexivity).
  pose proof (ui_ulen_le ui) as UL. fold U in UL.
  split.
  - unfold wf_b. apply andb_true_iff. split; [apply andb_true_iff; split|].
    + (* scheme *)
      unfold wf_scheme, auth_url. cbn [ser scheme_end]. rewrite Eshape.
      repeat (apply andb_true_iff; split).
      * destruct sch; [discriminate|]. unfold nlen. cbn [length]. lia.
      * destruct sch as [|c s]; [discriminate|]. cbn [app]. unfold is_alpha. rewrite Hhead. apply orb_true_r.
      * rewrite nfirstn_app_len. apply (forallb_impl scheme_out_char); [exact scheme_out_char_scheme_char | exact Hall].
      * apply byte_eqb_app.
    + assert (has_authority_b (auth_url hd sch ui h pt p q f) = true) as Hha.
      { unfold has_authority_b, auth_url. cbn [ser scheme_end]. rewrite Eshape. rewrite nskipn_app_len. reflexivity. }
      rewrite Hha. unfold wf_authority, auth_url.
      cbn [ser scheme_end username_end host_start host_end hosti port path_start].
      rewrite front_len. fold U Hh Pt. rewrite Eser.
      pose proof (wf_ui_clause A ui (Hh ++ Pt ++ T ++ Q) Kui
                    (fun _ => host_head st h pt (T ++ Q) Kh (fun E => proj2 (Kemp E)) Htail)) as CU.
      cbv zeta in CU. fold U in CU. rewrite EA in CU. apply andb_true_iff in CU. destruct CU as [C6 C7].
      pose proof (wf_port_clause (A ++ U ++ Hh) pt (T ++ Q) _ Kpt) as CP. cbv zeta in CP. fold Pt in CP.
      rewrite <- !app_assoc in CP. rewrite !nlen_app, EA in CP.
      assert (nlen (A ++ U ++ Hh ++ Pt ++ T ++ Q) = nlen sch + 3 + nlen U + nlen Hh + nlen Pt + nlen (T ++ Q)) as EN
        by (rewrite !nlen_app, EA; lia).
      repeat (apply andb_true_iff; split).
      * lia.
      * lia.
      * lia.
      * lia.
      * rewrite EN. lia.
      * exact C6.
      * exact C7.
      * destruct Kh as [[-> _]|(Hne & _)].
        -- cbn [hi_of_host]. unfold Hh. rewrite (hd_empty hp hpo hd HOK). rewrite nlen_nil. lia.
        -- destruct h as [[|d0 d]|a|pcs]; try reflexivity. contradiction.
      * replace (nlen sch + 3 + nlen U + nlen Hh + nlen Pt) with (nlen sch + 3 + (nlen U + nlen Hh) + nlen Pt) by lia.
        replace (nlen sch + 3 + nlen U + nlen Hh) with (nlen sch + 3 + (nlen U + nlen Hh)) by lia. exact CP.
      * rewrite EN.
        replace (A ++ U ++ Hh ++ Pt ++ T ++ Q) with ((A ++ U ++ Hh ++ Pt) ++ T ++ Q) by (rewrite <- !app_assoc; reflexivity).
        rewrite !byte_eqb_head by (rewrite !nlen_app, EA; lia).
        change (tail_ok (T ++ Q)) in Htail. clear CP C6 C7 EN. revert Htail.
        destruct (T ++ Q) as [|c r]; intros Htail; [rewrite nlen_nil; replace (_ =? _) with true by lia; reflexivity|].
        cbn [tail_ok head_is] in *. rewrite <- !orb_assoc. apply orb_true_iff. right. rewrite !orb_assoc. exact Htail.
    + apply (wf_qf_generic_st st (auth_front hd sch ui h pt) T q f).
      * reflexivity.
      * reflexivity.
      * reflexivity.
      * reflexivity.
      * apply pth_text_no_qh. exact Kp.
      * exact Kq.
  - unfold cannot_be_a_base, u_slice_from, auth_url. cbn [ser scheme_end]. rewrite Eshape.
    rewrite slice_from_o_some by nl.
    replace (sch ++ 58 :: 47 :: 47 :: U ++ Hh ++ Pt ++ T ++ Q) with ((sch ++ [58]) ++ 47 :: 47 :: U ++ Hh ++ Pt ++ T ++ Q)
      by (rewrite <- app_assoc; reflexivity).
    replace (nlen sch + 1) with (nlen (sch ++ [58])) by nl. rewrite nskipn_app_len. reflexivity.
Qed.

End AuthWf.
