(* Proofs/Idna_C10c_Refute.v - C10_idem_statement2 (Proofs/Idna_C10b_Stmt.v) is FALSE for an abstract adapter: its
   premises AdapterOK, NvNoTrunc, NvIdem, AsciiNoMark do not relate map_normalize of the tail of a label to the ASCII
   prefix that uts46.rs copies into the buffer.  The adapter ctxad rewrites U+00EA to U+00EB exactly when it follows
   "ab" (in map_normalize and in normalize_validate); it satisfies the four premises.  For the label "ab" U+00EA the
   code maps only the tail "b" U+00EA (unchanged), the buffer label is "ab" U+00EA, the result is xn--ab-fja; the second
   run decodes it, normalize_validate rewrites the decoded text, and the label is rejected.  Not a defect of the crate:
   the real map_normalize satisfies MapPrefix (sampled fact ok_map_prefix), the premise added in C10_idem_statement3. *)
From RU Require Import Base.Prelude Base.Utf8 Base.U32_c13 Gen.Tables Model.Punycode Model.Uts46
  Proofs.Idna_Sim Proofs.Idna_Api Proofs.Idna_Known Proofs.Idna_Hyp Proofs.Idna_C10_Deny Proofs.Idna_C10_Inner Proofs.Idna_C10b_Long
  Proofs.Idna_C10b_Stmt Proofs.Idna_C10c_Drun.

Fixpoint rw (a1 ab : bool) (l : list N) : list N :=
  match l with
  | [] => []
  | c :: r => (if (c =? 234) && ab then 235 else c) :: rw (c =? 97) (a1 && (c =? 98)) r
  end.
Definition ctxad : adapter :=
  {| map_normalize := fun l => rw false false (map to_lower l); normalize_validate := rw false false;
     joining_type := fun _ => 0; bidi_class := toy_bc;
     is_mark := fun _ => false; is_virama := fun _ => false |}.

(* no rewriting happens when the text is read from the state (a1, ab) *)
Fixpoint notrig (a1 ab : bool) (l : list N) : Prop :=
  match l with
  | [] => True
  | c :: r => (c =? 234) && ab = false /\ notrig (c =? 97) (a1 && (c =? 98)) r
  end.

Lemma rw_notrig l : forall a1 ab, notrig a1 ab (rw a1 ab l).
Proof.
  induction l as [|c r IH]; intros a1 ab; cbn [rw notrig]; [exact I|].
  destruct ((c =? 234) && ab) eqn:E.
  - apply andb_true_iff in E. destruct E as [E1 E2]. apply N.eqb_eq in E1. subst c. split; [reflexivity|]. exact (IH _ _).
  - split; [exact E|exact (IH _ _)].
Qed.
Lemma notrig_fix l : forall a1 ab, notrig a1 ab l -> rw a1 ab l = l.
Proof.
  induction l as [|c r IH]; intros a1 ab H; cbn [rw notrig] in *; [reflexivity|]. destruct H as [H1 H2].
  rewrite H1, (IH _ _ H2). reflexivity.
Qed.
Lemma notrig_pieces l : forall a1 ab h t, notrig a1 ab l -> split1 DOT l = (h, t) -> notrig a1 ab h /\ Forall (notrig false false) t.
Proof.
  induction l as [|c r IH]; intros a1 ab h t H Hs; cbn [split1] in Hs.
  - inversion Hs. split; [exact I|constructor].
  - cbn [notrig] in H. destruct H as [H1 H2]. destruct (split1 DOT r) as [h0 t0] eqn:E.
    destruct (c =? DOT) eqn:Ed.
    + inversion Hs. subst h t. apply N.eqb_eq in Ed. subst c. cbn [N.eqb] in H2.
      change (DOT =? 97) with false in H2. change (DOT =? 98) with false in H2. rewrite andb_false_r in H2.
      destruct (IH _ _ _ _ H2 eq_refl) as [I1 I2]. split; [exact I|constructor; assumption].
    + inversion Hs. subst h t. destruct (IH _ _ _ _ H2 eq_refl) as [I1 I2]. split; [|exact I2]. cbn [notrig]. split; assumption.
Qed.
Lemma rw_length l : forall a1 ab, length (rw a1 ab l) = length l.
Proof. induction l as [|c r IH]; intros a1 ab; cbn [rw length]; [reflexivity|]. rewrite IH. reflexivity. Qed.
Lemma rw_fffd l : forall a1 ab, existsb is_fffd (rw a1 ab l) = existsb is_fffd l.
Proof.
  induction l as [|c r IH]; intros a1 ab; cbn [rw existsb]; [reflexivity|]. rewrite IH. f_equal.
  destruct ((c =? 234) && ab) eqn:E; [|reflexivity]. apply andb_true_iff in E. destruct E as [E _]. apply N.eqb_eq in E. subst c. reflexivity.
Qed.
Lemma rw_ascii l : forall a1 ab, Forall (fun c => c < 128) l -> rw a1 ab l = l.
Proof.
  induction l as [|c r IH]; intros a1 ab H; cbn [rw]; [reflexivity|]. inversion H as [|? ? Hc Hr]; subst.
  rewrite (IH _ _ Hr). replace (c =? 234) with false by lia. reflexivity.
Qed.

Lemma ctxad_ok : AdapterOK ctxad.
Proof.
  constructor; cbn [ctxad map_normalize normalize_validate].
  - reflexivity.
  - intros l H. apply rw_ascii. unfold is_ascii_l in H. rewrite forallb_forall in H.
    apply Forall_forall. intros x Hx. apply in_map_iff in Hx. destruct Hx as (c & <- & Hc). specialize (H c Hc).
    unfold is_ascii_cp in H. unfold to_lower, is_upper. destruct ((65 <=? c) && (c <=? 90)) eqn:E; lia.
  - intros l l' H. unfold ascii_case_variant in H. rewrite H. reflexivity.
  - intros l _ piece Hp. apply notrig_fix. pose proof (rw_notrig (map to_lower l) false false) as Hn.
    unfold split_on in Hp. destruct (split1 DOT (rw false false (map to_lower l))) as [h t] eqn:E.
    destruct (notrig_pieces _ _ _ _ _ Hn E) as [H1 H2]. destruct Hp as [<-|Hp]; [exact H1|].
    rewrite Forall_forall in H2. exact (H2 piece Hp).
  - intros l H1 H2. rewrite rw_fffd, H1 in H2. discriminate.
Qed.

Lemma ctxad_premises : AdapterOK ctxad /\ NvNoTrunc ctxad /\ NvIdem ctxad /\ AsciiNoMark ctxad.
Proof.
  split; [exact ctxad_ok|]. split; [|split].
  - intros l t H. cbn [ctxad normalize_validate] in H. apply (f_equal (@List.length N)) in H.
    rewrite app_length, rw_length in H. destruct t; [reflexivity|]. cbn [List.length] in H. lia.
  - intros l _. cbn [ctxad normalize_validate]. apply notrig_fix. apply rw_notrig.
  - intros c _. reflexivity.
Qed.

(* "ab" U+00EA -> xn--ab-fja, which is then rejected *)
Definition W_idem2 : list N := [97; 98; 195; 170].
Definition W_idem2_A : list N := [120; 110; 45; 45; 97; 98; 45; 102; 106; 97].
Lemma w_idem2 :
  to_ascii ctxad false W_idem2 DENY_EMPTY HAllow DIgnore = Ok (false, W_idem2_A) /\
  Known_C10_long W_idem2_A = false /\
  to_ascii ctxad false W_idem2_A DENY_EMPTY HAllow DIgnore = Err /\
  map_normalize ctxad [97; 98; 234] = [97; 98; 235] /\ map_normalize ctxad [98; 234] = [98; 234].
Proof. vm_compute. repeat split; reflexivity. Qed.

Theorem c10_idem2_refuted : exists A cfg, AdapterOK A /\ NvNoTrunc A /\ NvIdem A /\ AsciiNoMark A /\ ~ C10_idem_statement2 A cfg.
Proof.
  exists ctxad, false. destruct ctxad_premises as (H1 & H2 & H3 & H4).
  split; [exact H1|]. split; [exact H2|]. split; [exact H3|]. split; [exact H4|]. intros HS. destruct w_idem2 as (E1 & E2 & E3 & _).
  assert (Hb : bytes W_idem2) by (unfold W_idem2; repeat constructor; unfold is_byte; lia).
  destruct (HS H1 H2 H3 H4 W_idem2 DENY_EMPTY HAllow DIgnore false W_idem2_A Hb deny_empty_valid E1 E2) as (b' & Hx).
  rewrite E3 in Hx. discriminate.
Qed.

(* the adapter does not satisfy MapPrefix *)
Lemma ctxad_not_map_prefix : ~ MapPrefix ctxad.
Proof.
  intros H. specialize (H [97] 98 [234] eq_refl ltac:(lia)). vm_compute in H. discriminate.
Qed.
