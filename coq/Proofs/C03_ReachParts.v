(* Proofs/C03_ReachParts.v - what a SUCCESSFUL run of each parser state writes, as far as the structural
   invariant wf_b (Model/WF.v) is concerned.  No hypothesis on the input (no scalar-value condition), none
   on the query encoding override, and only on the host functions where a host is written.
     1. percent-encoded text never contains a byte its set encodes (any input, bytes or not);
     2. the path states (context UrlParser) keep the text in front of the path and write no '?' / '#';
     3. query / fragment states: serialization = old ++ ['?' q] ++ ['#' f], q free of '#';
     4. the userinfo state: where username_end lies and which delimiters stand around it;
     5. host and port: host text, ':' and the decimal port, port <= 65535.
   Inversion twin of the totality lemmas of C04_Parse / C04_PathTotal. *)
From RU Require Import Base.Prelude Base.Utf8 Model.AsciiSet Gen.Tables Model.PercentEncoding
  Model.HostT Model.UrlRecord Model.Parser Model.WF
  Proofs.ListN Proofs.C06_List Proofs.C02_Parts Proofs.C02_Opaque Proofs.C03_WF Proofs.C06_WFI Proofs.C06_Tail
  Proofs.C06_Steps Proofs.C06_FragQuery Proofs.C06_PathParser
  Proofs.C04_Parse Proofs.C04_PathTotal Proofs.C04_ParseTotal.

(* ================= 1. percent-encoded text ================= *)
(* the bytes of the encoding table: '%', 0-9, A-F *)
Definition pct_out (c : N) : bool := (c =? 37) || is_digit c || ((65 <=? c) && (c <=? 70)).

Lemma enc_table_sweep : forallb pct_out T_ENC_TABLE = true.
Proof. vm_compute. reflexivity. Qed.

Lemma enc_byte_pct b : forallb pct_out (enc_byte b) = true.
Proof.
  unfold enc_byte. change (forallb pct_out (nfirstn T_ENC_WIDTH (nskipn (b * T_ENC_STRIDE) T_ENC_TABLE)) = true).
  apply forallb_nfirstn. apply forallb_nskipn. exact enc_table_sweep.
Qed.

Section PeOut.
Variables (S : aset) (Q : N -> bool).
Hypothesis Hpct : forall c, pct_out c = true -> Q c = true.
(* a byte that is kept satisfies Q *)
Definition keepQ (b : N) : Prop := should_encode S b = false -> Q b = true.

Lemma span_keep_Q bs : Forall keepQ bs ->
  forallb Q (fst (span_keep S bs)) = true /\ Forall keepQ (snd (span_keep S bs)).
Proof.
  induction bs as [|b r IH]; intros H; [split; [reflexivity | constructor]|]. cbn [span_keep].
  destruct (should_encode S b) eqn:E; [split; [reflexivity | exact H]|].
  inversion H as [|? ? Hb Hr]; subst. destruct (IH Hr) as [I1 I2].
  destruct (span_keep S r) as [u rest]. cbn [fst snd forallb] in *. rewrite (Hb E), I1. split; [reflexivity | exact I2].
Qed.

Lemma pe_chunks_f_Q fuel : forall bs, Forall keepQ bs -> forallb Q (concat (pe_chunks_f fuel S bs)) = true.
Proof.
  induction fuel as [|f IH]; intros bs H; [reflexivity|]. cbn [pe_chunks_f]. unfold pe_next.
  destruct bs as [|b r]; [reflexivity|]. inversion H as [|? ? Hb Hr]; subst. destruct (should_encode S b) eqn:E.
  - cbn [concat]. apply forallb_app_iff. split; [|apply IH; exact Hr].
    apply (forallb_impl pct_out Q); [exact Hpct | apply enc_byte_pct].
  - destruct (span_keep_Q r Hr) as [Hs Hrest]. destruct (span_keep S r) as [u rest]. cbn [fst snd] in Hs, Hrest.
    cbn [concat]. apply forallb_app_iff. split; [|apply IH; exact Hrest]. cbn [forallb]. rewrite (Hb E), Hs. reflexivity.
Qed.

Lemma pe_display_Q_in bs : Forall keepQ bs -> forallb Q (pe_display S bs) = true.
Proof. unfold pe_display, pe_chunks. apply pe_chunks_f_Q. Qed.

Lemma pe_display_Q bs : (forall b, should_encode S b = false -> Q b = true) -> forallb Q (pe_display S bs) = true.
Proof. intros H. apply pe_display_Q_in. apply Forall_forall. intros b _. exact (H b). Qed.
End PeOut.

(* the UTF-8 encoding of anything at or above 128 consists of bytes at or above 128 (all percent-encoded) *)
Lemma utf8_encode1_high c : 128 <= c -> Forall (fun b => 128 <= b) (utf8_encode1 c).
Proof.
  intros H. unfold utf8_encode1. replace (c <? 128) with false by lia.
  destruct (c <? 2048); [repeat constructor; lia|]. destruct (c <? 65536); repeat constructor; lia.
Qed.

Lemma pe_display_char_Q S Q c : (forall d, pct_out d = true -> Q d = true) -> Q c = true ->
  forallb Q (pe_display S (utf8_encode [c])) = true.
Proof.
  intros Hpct Hc. apply pe_display_Q_in; [exact Hpct|]. cbn [utf8_encode flat_map]. rewrite app_nil_r.
  destruct (c <? 128) eqn:E.
  - unfold utf8_encode1. rewrite E. constructor; [intros _; exact Hc | constructor].
  - eapply Forall_impl; [|apply utf8_encode1_high; lia]. intros b Hb. cbv beta in Hb. unfold keepQ, should_encode.
    replace (128 <=? b) with true by lia. discriminate.
Qed.

Lemma pct_no_qh c : pct_out c = true -> no_qh c = true.
Proof. unfold pct_out, no_qh, is_digit. lia. Qed.

Lemma pct_no_h c : pct_out c = true -> no_h c = true.
Proof. unfold pct_out, no_h, is_digit. lia. Qed.

Lemma pe_display_no_qh set bs : should_encode set 63 = true -> should_encode set 35 = true ->
  forallb no_qh (pe_display set bs) = true.
Proof.
  intros H63 H35. apply pe_display_Q; [exact pct_no_qh|]. intros b Hb. unfold no_qh.
  destruct (b =? 63) eqn:E1; [apply N.eqb_eq in E1; subst b; congruence|].
  destruct (b =? 35) eqn:E2; [apply N.eqb_eq in E2; subst b; congruence|]. reflexivity.
Qed.

Lemma pe_display_no_h set bs : should_encode set 35 = true -> forallb no_h (pe_display set bs) = true.
Proof.
  intros H35. apply pe_display_Q; [exact pct_no_h|]. intros b Hb. unfold no_h.
  destruct (b =? 35) eqn:E2; [apply N.eqb_eq in E2; subst b; congruence|]. reflexivity.
Qed.

(* ================= 2. the path states, context UrlParser ================= *)
Section UrlPath.
Variables (dbg : bool) (st : scheme_type) (ps m : N) (pre : list N).
Hypothesis Hm1 : ps <= m.
Hypothesis Hm2 : m <= ps + 1.
Hypothesis Hpre : nlen pre = m.
Hypothesis Hf : st_is_file st = true -> m = ps.
Notation PI := (PInv ps m pre).

Lemma pinv_push_pending_any ctx ser pending : PI ser -> PI (push_pending ctx st ser pending).
Proof using Hm1 Hm2 Hpre.
  intros H. unfold push_pending. destruct pending as [|c r]; [exact H|].
  unfold push_encoded. apply (pinv_app ps m pre Hm1 Hm2 Hpre); [exact H|].
  destruct (path_set_encodes_qh ctx st). apply pe_display_no_qh; assumption.
Qed.

Lemma pinv_loop_url l : forall ser ss pend hh s' hh' rem,
  parse_path_loop dbg CUrlParser st ps l ser ss pend hh = POk (s', hh', rem) -> PI ser -> m <= ss ->
  exists x, s' = file_path_fixup st ps x /\ PI x /\ rem_ok rem.
Proof using Hm1 Hm2 Hpre Hf.
  induction l as [|c r IH]; intros ser ss pend hh s' hh' rem H I Hs; cbn [parse_path_loop] in H.
  - destruct (finish_segment dbg st ps (push_pending CUrlParser st ser pend) ss false hh) as [[s2 h2]| |] eqn:E;
      cbn [pbind] in H; try discriminate.
    injection H as <- <- <-. exists s2. split; [reflexivity|]. split; [|exact rem_ok_nil].
    eapply (pinv_finish_segment dbg ps m pre Hm1 Hm2 Hpre); [exact E | apply pinv_push_pending_any; exact I | exact Hs].
  - destruct (is_tnl c) eqn:Et.
    { eapply IH; [exact H | apply pinv_push_pending_any; exact I | exact Hs]. }
    cbn [ctx_eqb negb andb] in H.
    destruct ((c =? 47) || (c =? 92) && st_is_special st).
    { destruct (finish_segment dbg st ps (push_pending CUrlParser st ser pend ++ [47]) ss true hh) as [[s2 h2]| |] eqn:E;
        cbn [pbind] in H; try discriminate.
      assert (PI s2) as I2.
      { eapply (pinv_finish_segment dbg ps m pre Hm1 Hm2 Hpre); [exact E | | exact Hs].
        apply (pinv_app ps m pre Hm1 Hm2 Hpre); [apply pinv_push_pending_any; exact I | reflexivity]. }
      eapply IH; [exact H | exact I2 | apply (pinv_len ps m pre Hm1 Hm2 Hpre); exact I2]. }
    rewrite andb_true_r in H. fold (is_qh c) in H. destruct (is_qh c) eqn:Eq.
    { destruct (finish_segment dbg st ps (push_pending CUrlParser st ser pend) ss false hh) as [[s2 h2]| |] eqn:E;
        cbn [pbind] in H; try discriminate.
      injection H as <- <- <-. exists s2. split; [reflexivity|]. split; [|apply rem_ok_cons; assumption].
      eapply (pinv_finish_segment dbg ps m pre Hm1 Hm2 Hpre); [exact E | apply pinv_push_pending_any; exact I | exact Hs]. }
    destruct (st_is_file st && (ps <? nlen ser) && is_normalized_wdl (nskipn (ps + 1) ser)).
    { eapply IH; [exact H | | lia].
      apply (pinv_app ps m pre Hm1 Hm2 Hpre); [apply pinv_push_pending_any; exact I | reflexivity]. }
    eapply IH; [exact H | exact I | exact Hs].
Qed.
End UrlPath.

(* parse_path for a scheme other than file, entered with "prefix / ..." (what follows the prefix free of
   '?' / '#'): the prefix and the '/' stay, what follows is free of '?' and '#', and the rest of the input
   is empty or starts with '?' / '#' *)
Lemma parse_path_shape dbg st hh ps ser l s' hh' rem : st_is_file st = false -> ps + 1 <= nlen ser ->
  nnth ser ps = Some 47 -> forallb no_qh (nskipn ps ser) = true ->
  parse_path dbg CUrlParser st hh ps ser l = POk (s', hh', rem) ->
  agree_pre (ps + 1) ser s' /\ ps + 1 <= nlen s' /\ nnth s' ps = Some 47
  /\ forallb no_qh (nskipn ps s') = true /\ rem_ok rem.
Proof.
  intros Hnf Hl H47 Hq H. unfold parse_path in H.
  assert (nlen (nfirstn (ps + 1) ser) = ps + 1) as Lp by (apply nlen_nfirstn; exact Hl).
  assert (PInv ps (ps + 1) (nfirstn (ps + 1) ser) ser) as I0 by (split; [reflexivity | exact Hq]).
  destruct (pinv_loop_url dbg st ps (ps + 1) (nfirstn (ps + 1) ser) ltac:(lia) ltac:(lia) Lp ltac:(rewrite Hnf; discriminate)
              l ser (nlen ser) [] hh s' hh' rem H I0 ltac:(lia)) as (x & Ex & Ix & Hr).
  unfold file_path_fixup in Ex. rewrite Hnf in Ex. subst x.
  pose proof (pinv_len ps (ps + 1) (nfirstn (ps + 1) ser) ltac:(lia) ltac:(lia) Lp s' Ix) as L. destruct Ix as [I1 I2].
  split; [exact I1|]. split; [exact L|]. split; [|split; [exact I2 | exact Hr]].
  rewrite (pre_nnth (ps + 1) ser s' ps I1) by lia. exact H47.
Qed.

(* parse_path_start behind an authority: the text in front stays, the path is empty or starts with '/' *)
Lemma parse_path_start_shape dbg st hh ser l s' hh' rem : st_is_file st = false ->
  (st_is_special st = true -> ends_with_byte 47 ser = false) ->
  parse_path_start dbg CUrlParser st hh ser l = POk (s', hh', rem) ->
  agree_pre (nlen ser) ser s' /\ nlen ser <= nlen s'
  /\ (nlen s' = nlen ser \/ nnth s' (nlen ser) = Some 47)
  /\ forallb no_qh (nskipn (nlen ser) s') = true /\ rem_ok rem.
Proof.
  intros Hnf He H. unfold parse_path_start in H.
  assert (forall X, parse_path dbg CUrlParser st hh (nlen ser) (ser ++ [47]) X = POk (s', hh', rem) ->
            agree_pre (nlen ser) ser s' /\ nlen ser <= nlen s'
            /\ (nlen s' = nlen ser \/ nnth s' (nlen ser) = Some 47)
            /\ forallb no_qh (nskipn (nlen ser) s') = true /\ rem_ok rem) as Hpush.
  { intros X HX.
    destruct (parse_path_shape dbg st hh (nlen ser) (ser ++ [47]) X s' hh' rem Hnf
                ltac:(rewrite nlen_app; change (nlen [47]) with 1; lia) (nnth_last ser 47)
                ltac:(rewrite nskipn_app_exact; reflexivity) HX) as (A & B & C & D & E).
    split; [|split; [lia | split; [right; exact C | split; [exact D | exact E]]]].
    eapply agree_pre_trans; [apply agree_pre_app_r | eapply agree_pre_le; [exact A | lia]]. }
  assert (agree_pre (nlen ser) ser ser /\ nlen ser <= nlen ser
          /\ (nlen ser = nlen ser \/ nnth ser (nlen ser) = Some 47)
          /\ forallb no_qh (nskipn (nlen ser) ser) = true) as Hsame.
  { split; [reflexivity|]. split; [lia|]. split; [left; reflexivity|]. rewrite nskipn_all by lia. reflexivity. }
  unfold inp_split_first in H. destruct (inp_next l) as [[c r]|] eqn:En.
  - destruct (st_is_special st) eqn:Esp.
    + rewrite (He eq_refl) in H. cbn [negb] in H. destruct (is_slash_or_bslash c); apply (Hpush _ H).
    + destruct ((c =? 63) || (c =? 35)) eqn:Eq.
      * inversion H; subst. destruct Hsame as (A & B & C & D). repeat split; try assumption.
        unfold rem_ok. rewrite En. exact Eq.
      * destruct (c =? 47) eqn:E47; [|apply (Hpush _ H)].
        apply N.eqb_eq in E47. subst c. unfold parse_path in H. rewrite (loop_drop_tnl dbg st) in H.
        unfold inp_next in En. destruct (drop_while is_tnl l) as [|c' r'] eqn:Ed; [discriminate|].
        inversion En; subst c' r'.
        assert (is_tnl 47 = false) as Et by reflexivity.
        cbn [parse_path_loop] in H. rewrite Et in H. cbn [ctx_eqb negb andb push_pending] in H.
        rewrite N.eqb_refl in H. cbn [orb] in H.
        rewrite (finish_empty_seg dbg st Hnf (nlen ser) ser true hh) in H. cbn [pbind] in H.
        apply (Hpush r). unfold parse_path. exact H.
  - assert (parse_path dbg CUrlParser st hh (nlen ser) ser l = POk (ser, hh, [])) as Enone.
    { unfold parse_path. rewrite (loop_drop_tnl dbg st). unfold inp_next in En.
      destruct (drop_while is_tnl l) as [|c' r']; [|discriminate].
      cbn [parse_path_loop push_pending]. rewrite (finish_empty_seg dbg st Hnf (nlen ser) ser false hh). cbn [pbind].
      unfold file_path_fixup. rewrite Hnf. reflexivity. }
    destruct (st_is_special st) eqn:Esp.
    + rewrite (He eq_refl) in H. cbn [negb] in H. apply (Hpush _ H).
    + rewrite Enone in H. inversion H; subst. destruct Hsame as (A & B & C & D). repeat split; try assumption.
Qed.

(* the opaque-path state writes no '?' / '#' and stops in front of one *)
Lemma cbb_path_shape l : forall ser, exists x,
  fst (parse_cannot_be_a_base_path CUrlParser ser l) = ser ++ x /\ forallb no_qh x = true.
Proof.
  induction l as [|c r IH]; intros ser; cbn [parse_cannot_be_a_base_path].
  - exists []. rewrite app_nil_r. split; reflexivity.
  - destruct (is_tnl c); [apply IH|]. cbn [ctx_eqb]. rewrite andb_true_r.
    destruct ((c =? 63) || (c =? 35)) eqn:Eq.
    + exists []. rewrite app_nil_r. split; reflexivity.
    + destruct (IH (push_encoded T_CONTROLS ser [c])) as (x & Ex & Hx). unfold push_encoded in *.
      exists (pe_display T_CONTROLS (utf8_encode [c]) ++ x). rewrite app_assoc. split; [exact Ex|].
      apply forallb_app_iff. split; [|exact Hx]. apply pe_display_char_Q; [exact pct_no_qh|]. unfold no_qh. rewrite Eq. reflexivity.
Qed.

(* ================= 3. query and fragment ================= *)
Lemma parse_query_loop_shape set enc iup l : should_encode set 35 = true -> forall ser part,
  exists x, fst (parse_query_loop set enc iup ser part l) = ser ++ x /\ forallb no_h x = true.
Proof.
  intros H35.
  assert (forall ser part, exists x, flush_part set enc ser part = ser ++ x /\ forallb no_h x = true) as Hfl.
  { intros ser part. unfold flush_part. eexists. split; [reflexivity|]. apply pe_display_no_h. exact H35. }
  induction l as [|c r IH]; intros ser part; cbn [parse_query_loop].
  - cbn [fst]. destruct part as [|p0 pr]; [exists []; rewrite app_nil_r; split; reflexivity | apply Hfl].
  - destruct (is_tnl c).
    + destruct (Hfl ser part) as (x & Ex & Hx). rewrite Ex. destruct (IH (ser ++ x) []) as (y & Ey & Hy).
      exists (x ++ y). rewrite app_assoc. split; [exact Ey|]. apply forallb_app_iff. split; assumption.
    + destruct ((c =? 35) && iup); [cbn [fst]; apply Hfl | apply IH].
Qed.

Definition opt_no_h (q : option (list N)) : Prop := match q with Some x => forallb no_h x = true | None => True end.

Theorem pqf_shape ovr st se ser l s' qs fs :
  parse_query_and_fragment ovr CUrlParser st se ser l = POk (s', qs, fs) ->
  exists q f, s' = ser ++ qf_text q f /\ qs = qf_qs (nlen ser) q /\ fs = qf_fs (nlen ser) q f /\ opt_no_h q.
Proof.
  unfold parse_query_and_fragment. destruct (inp_next l) as [[c r]|].
  2:{ intros H. inversion H; subst. exists None, None. unfold qf_text. cbn. rewrite app_nil_r. repeat split. }
  destruct (c =? 35).
  - destruct (to_u32 (nlen ser)) as [n| |] eqn:Eu; cbn [pbind]; try discriminate.
    apply to_u32_inv in Eu. destruct Eu as [-> _]. intros H. inversion H; subst.
    rewrite parse_fragment_text. exists None, (Some (tnl_text T_FRAGMENT r)).
    unfold qf_text. cbn [qf_qtext qf_ftext qf_qs qf_fs app opt_no_h]. rewrite <- app_assoc.
    repeat split. rewrite nlen_nil, N.add_0_r. reflexivity.
  - destruct (c =? 63); [|discriminate].
    destruct (to_u32 (nlen ser)) as [n| |] eqn:Eu; cbn [pbind]; try discriminate.
    apply to_u32_inv in Eu. destruct Eu as [-> _]. unfold parse_query.
    destruct (parse_query_loop_shape (query_set st) (query_enc ovr (nfirstn se (ser ++ [63]))) (ctx_eqb CUrlParser CUrlParser)
                r (query_sets_encode_hash st) (ser ++ [63]) []) as (x & Ex & Hx).
    destruct (parse_query_loop (query_set st) (query_enc ovr (nfirstn se (ser ++ [63]))) (ctx_eqb CUrlParser CUrlParser)
                (ser ++ [63]) [] r) as [ser1 rm]. cbn [fst] in Ex. subst ser1.
    destruct rm as [r2|].
    + destruct (to_u32 (nlen ((ser ++ [63]) ++ x))) as [n| |] eqn:Eu2; cbn [pbind]; try discriminate.
      apply to_u32_inv in Eu2. destruct Eu2 as [-> _]. intros H. inversion H; subst.
      rewrite parse_fragment_text. exists (Some x), (Some (tnl_text T_FRAGMENT r2)).
      unfold qf_text. cbn [qf_qtext qf_ftext qf_qs qf_fs opt_no_h].
      split; [rewrite <- !app_assoc; reflexivity|]. split; [reflexivity|]. split; [|exact Hx].
      f_equal. rewrite !nlen_app, !nlen_cons, nlen_nil. lia.
    + intros H. inversion H; subst. exists (Some x), None.
      unfold qf_text. cbn [qf_qtext qf_ftext qf_qs qf_fs opt_no_h]. rewrite app_nil_r, <- app_assoc.
      repeat split. exact Hx.
Qed.

(* the query / fragment clauses of wf_b for a serialization  A ++ P ++ ['?' q] ++ ['#' f] *)
Lemma wf_qf_shape (A P : list N) q f u :
  ser u = (A ++ P) ++ qf_text q f -> path_start u = nlen A ->
  query_start u = qf_qs (nlen (A ++ P)) q -> fragment_start u = qf_fs (nlen (A ++ P)) q f ->
  forallb no_qh P = true -> opt_no_h q ->
  wf_query_fragment u = true.
Proof.
  intros Es Ep Eq Ef HP Hq. unfold wf_query_fragment. rewrite Es, Ep, Eq, Ef.
  fold no_qh. fold no_h.
  destruct q as [x|]; destruct f as [y|];
    cbn [qf_qs qf_fs qf_text qf_qtext qf_ftext opt_no_h] in *; unfold qf_text; cbn [qf_qtext qf_ftext].
  - repeat (apply andb_true_iff; split).
    + rewrite nlen_app. lia.
    + cbn [app]. apply byte_eqb_app.
    + rewrite !nlen_app. lia.
    + replace ((A ++ P) ++ (63 :: x) ++ 35 :: y) with (((A ++ P) ++ 63 :: x) ++ 35 :: y) by (rewrite <- !app_assoc; reflexivity).
      rewrite <- nlen_app. apply byte_eqb_app.
    + rewrite nlen_cons. lia.
    + rewrite nlen_app. replace (nlen A + nlen P - nlen A) with (nlen P) by lia.
      rewrite <- !app_assoc. rewrite nskipn_app_len. rewrite nfirstn_app_len. exact HP.
    + rewrite nlen_cons. replace (nlen (A ++ P) + (1 + nlen x) - (nlen (A ++ P) + 1)) with (nlen x) by lia.
      rewrite nskipn_app_add. cbn [app]. change (nskipn 1 (63 :: x ++ 35 :: y)) with (x ++ 35 :: y).
      rewrite nfirstn_app_len. exact Hq.
  - rewrite app_nil_r. repeat (apply andb_true_iff; split); try reflexivity.
    + rewrite nlen_app. lia.
    + apply byte_eqb_app.
    + rewrite nlen_app. replace (nlen A + nlen P - nlen A) with (nlen P) by lia.
      rewrite <- !app_assoc. rewrite nskipn_app_len. rewrite nfirstn_app_len. exact HP.
    + rewrite nskipn_app_add. change (nskipn 1 (63 :: x)) with x. exact Hq.
  - cbn [app]. rewrite N.add_0_r. repeat (apply andb_true_iff; split); try reflexivity.
    + rewrite nlen_app. lia.
    + apply byte_eqb_app.
    + rewrite nlen_app. replace (nlen A + nlen P - nlen A) with (nlen P) by lia.
      rewrite <- !app_assoc. rewrite nskipn_app_len. rewrite nfirstn_app_len. exact HP.
  - cbn [app]. rewrite app_nil_r. repeat (apply andb_true_iff; split); try reflexivity.
    rewrite nlen_app. replace (nlen A + nlen P - nlen A) with (nlen P) by lia.
    rewrite nskipn_app_len. rewrite nfirstn_all by lia. exact HP.
Qed.

(* ================= 4. userinfo ================= *)
(* the state of the second pass: n characters still to read *)
Definition ui_state (ser0 : list N) (n : N) (ser : list N) (uend : option N) (hpw hun : bool) : Prop :=
  (exists x, ser = ser0 ++ x)
  /\ match uend with
     | None => hpw = false /\ (hun = false -> ser = ser0) /\ (n = 0 -> hun = true)
     | Some i => nlen ser0 <= i
                 /\ (if hpw then i < nlen ser /\ nnth ser i = Some 58
                     else n = 0 /\ i = nlen ser /\ (hun = false -> ser = ser0))
     end.

Lemma ui_state_app ser0 n n' ser x i hun hun' :
  ui_state ser0 n ser (Some i) true hun -> ui_state ser0 n' (ser ++ x) (Some i) true hun'.
Proof.
  intros [[y ->] (H1 & H2 & H3)]. split; [exists (y ++ x); rewrite app_assoc; reflexivity|].
  split; [exact H1|]. split; [rewrite nlen_app; lia|]. rewrite nnth_app_lt by exact H2. exact H3.
Qed.

Lemma uloop_shape ser0 l : forall n ser uend hpw hun ser1 uend1 hpw1 hun1,
  userinfo_loop l n ser uend hpw hun = POk (ser1, uend1, hpw1, hun1) ->
  ui_state ser0 n ser uend hpw hun -> ui_state ser0 0 ser1 uend1 hpw1 hun1.
Proof.
  induction l as [|c r IH]; intros n ser uend hpw hun ser1 uend1 hpw1 hun1 H I.
  - cbn [userinfo_loop] in H. destruct (n =? 0) eqn:E0; [|discriminate]. inversion H; subst.
    apply N.eqb_eq in E0. subst n. exact I.
  - cbn [userinfo_loop] in H. destruct (n =? 0) eqn:E0.
    { inversion H; subst. apply N.eqb_eq in E0. subst n. exact I. }
    apply N.eqb_neq in E0.
    destruct (is_tnl c); [eapply IH; [exact H | exact I]|].
    destruct uend as [i|].
    + (* username_end already fixed *)
      rewrite andb_false_r in H. destruct I as [Ix (I1 & I2)]. destruct hpw.
      * eapply IH; [exact H|]. unfold push_encoded. apply (ui_state_app ser0 n _ ser _ i hun _). split; [exact Ix|]. split; [exact I1 | exact I2].
      * destruct I2 as (I2 & _). contradiction.
    + rewrite andb_true_r in H. destruct I as [[x ->] (I1 & I2 & I3)]. subst hpw.
      destruct (c =? 58).
      * destruct (to_u32 (nlen (ser0 ++ x))) as [ue| |] eqn:Eu; cbn [pbind] in H; try discriminate.
        apply to_u32_inv in Eu. destruct Eu as [-> _].
        destruct (0 <? n - 1) eqn:En.
        -- eapply IH; [exact H|]. split; [exists (x ++ [58]); rewrite app_assoc; reflexivity|].
           split; [rewrite nlen_app; lia|]. split; [rewrite !nlen_app; change (nlen [58]) with 1; lia|].
           apply nnth_last.
        -- eapply IH; [exact H|]. split; [exists x; reflexivity|].
           split; [rewrite nlen_app; lia|]. split; [lia|]. split; [reflexivity | exact I2].
      * eapply IH; [exact H|]. unfold push_encoded. split; [eexists; rewrite <- app_assoc; reflexivity|].
        split; [reflexivity|]. split; [discriminate | reflexivity].
Qed.

(* what parse_userinfo leaves: nothing (username_end = host_start = old length), or
   "user:pw@" with username_end at the ':', or "user@" / ":@"-less forms with username_end at the '@' *)
Theorem parse_userinfo_shape st ser0 l ser1 ue rem :
  parse_userinfo st ser0 l = POk (ser1, ue, rem) ->
  exists x, ser1 = ser0 ++ x
    /\ ((x = [] /\ ue = nlen ser0)
        \/ (nlen ser0 <= ue /\ nnth ser1 ue = Some 58 /\ ue + 2 <= nlen ser1 /\ nnth ser1 (nlen ser1 - 1) = Some 64)
        \/ (nlen ser0 <= ue /\ nnth ser1 ue = Some 64 /\ nlen ser1 = ue + 1)).
Proof.
  assert (forall u, u = nlen ser0 -> exists x, ser0 = ser0 ++ x
            /\ ((x = [] /\ u = nlen ser0)
                \/ (nlen ser0 <= u /\ nnth ser0 u = Some 58 /\ u + 2 <= nlen ser0 /\ nnth ser0 (nlen ser0 - 1) = Some 64)
                \/ (nlen ser0 <= u /\ nnth ser0 u = Some 64 /\ nlen ser0 = u + 1))) as Hnone.
  { intros u ->. exists []. rewrite app_nil_r. split; [reflexivity|]. left. split; reflexivity. }
  unfold parse_userinfo. destruct (scan_last_at (st_is_special st) l 0 None) as [[n rm]|].
  - destruct n as [|p].
    + destruct (inp_next rm) as [[c r]|]; [|discriminate].
      destruct ((c =? 47) || (c =? 63) || (c =? 35) || st_is_special st && (c =? 92)); [discriminate|].
      destruct (to_u32 (nlen ser0)) as [u| |] eqn:Eu; cbn [pbind]; try discriminate.
      apply to_u32_inv in Eu. destruct Eu as [Eu _]. intros H. inversion H; subst. apply Hnone. reflexivity.
    + destruct (userinfo_loop l (N.pos p) ser0 None false false) as [[[[s1 uend] hpw] hun]| |] eqn:E; cbn [pbind]; try discriminate.
      assert (ui_state ser0 (N.pos p) ser0 None false false) as I0.
      { split; [exists []; rewrite app_nil_r; reflexivity|]. split; [reflexivity|]. split; [reflexivity | lia]. }
      pose proof (uloop_shape ser0 l _ _ _ _ _ _ _ _ _ E I0) as [[x ->] I].
      destruct uend as [i|].
      * cbn [pbind]. intros H. inversion H; subst. destruct I as (I1 & I2). destruct hpw.
        -- destruct I2 as (I2 & I3). rewrite orb_true_r. exists (x ++ [64]). rewrite app_assoc. split; [reflexivity|].
           right. left. split; [exact I1|]. split; [rewrite nnth_app_lt by exact I2; exact I3|].
           rewrite !nlen_app in *. change (nlen [64]) with 1.
           split; [lia|]. replace (nlen ser0 + nlen x + 1 - 1) with (nlen (ser0 ++ x)) by (rewrite nlen_app; lia).
           apply nnth_last.
        -- destruct I2 as (_ & I2 & I3). rewrite orb_false_r. destruct hun.
           ++ exists (x ++ [64]). rewrite app_assoc. split; [reflexivity|]. right. right.
              split; [exact I1|]. subst ue. split; [apply nnth_last|]. rewrite nlen_app. reflexivity.
           ++ specialize (I3 eq_refl). exists []. rewrite app_nil_r. split; [exact I3|]. left. split; [reflexivity|].
              rewrite I2, I3. reflexivity.
      * destruct I as (_ & _ & I3). specialize (I3 eq_refl). subst hun.
        destruct (to_u32 (nlen (ser0 ++ x))) as [u| |] eqn:Eu; cbn [pbind]; try discriminate.
        apply to_u32_inv in Eu. destruct Eu as [-> _]. intros H. inversion H; subst. cbn [orb].
        exists (x ++ [64]). rewrite app_assoc. split; [reflexivity|]. right. right.
        split; [rewrite nlen_app; lia|]. split; [apply nnth_last|]. rewrite nlen_app. reflexivity.
  - destruct (to_u32 (nlen ser0)) as [u| |] eqn:Eu; cbn [pbind]; try discriminate.
    apply to_u32_inv in Eu. destruct Eu as [Eu _]. intros H. inversion H; subst. apply Hnone. reflexivity.
Qed.

(* ================= 5. host and port ================= *)
Definition ptext (pt : option N) : list N := match pt with Some p => 58 :: decimal p | None => [] end.

Lemma port_loop_le ctx l : forall p0 any p any' rem, p0 <= 65535 ->
  parse_port_loop ctx l p0 any = POk (p, any', rem) -> p <= 65535.
Proof.
  induction l as [|c r IH]; intros p0 any p any' rem Hp H; cbn [parse_port_loop] in H.
  - inversion H; subst. exact Hp.
  - destruct (is_tnl c); [eapply IH; eassumption|].
    destruct (is_digit c).
    + destruct (65535 <? p0 * 10 + (c - 48)) eqn:E; [discriminate|]. eapply IH; [|exact H]. lia.
    + destruct (ctx_eqb ctx CUrlParser && negb (is_path_end c)); [discriminate|]. inversion H; subst. exact Hp.
Qed.

Lemma parse_port_le ctx dflt l pt rem : parse_port ctx dflt l = POk (pt, rem) ->
  match pt with Some p => p <= 65535 | None => True end.
Proof.
  unfold parse_port. destruct (parse_port_loop ctx l 0 false) as [[[p any] rm]| |] eqn:E; cbn [pbind]; try discriminate.
  apply port_loop_le in E; [|lia].
  destruct (negb any && ctx_eqb ctx CSetter && negb (inp_is_empty rm)); [discriminate|].
  destruct (negb any || opt_eqb (Some p) dflt); intros H; inversion H; subst; [exact I | exact E].
Qed.

(* the last byte of "...:port" is a digit *)
Lemma decimal_rev_head fuel n : exists d r, decimal_rev (S fuel) n = d :: r /\ 48 <= d /\ d <= 57.
Proof. cbn [decimal_rev]. eexists. eexists. split; [reflexivity|]. lia. Qed.

Lemma port_text_last p X : ends_with_byte 47 (X ++ 58 :: decimal p) = false.
Proof.
  unfold ends_with_byte, decimal. destruct (decimal_rev_head 39 p) as (d & r & E & H1 & H2).
  change (S 39) with 40%nat in E. rewrite E.
  replace (X ++ 58 :: rev (d :: r)) with ((X ++ [58]) ++ rev (d :: r)) by (rewrite <- app_assoc; reflexivity).
  rewrite rev_app_distr, rev_involutive. cbn [app]. lia.
Qed.

(* what wf_b needs to know about the host functions: a host other than the empty one is displayed as a
   non-empty text that does not start with ':' or '@' and does not end with '/'; the empty host as nothing *)
Definition host_text_wf (t : list N) : Prop :=
  t <> [] /\ nnth t 0 <> Some 58 /\ nnth t 0 <> Some 64 /\ ends_with_byte 47 t = false.
Definition HostWf (hp hpo : list N -> result host) (hd : host -> list N) : Prop :=
  (forall s h, hp s = Ok h -> h <> HDomain [] -> host_text_wf (hd h))
  /\ (forall s h, hpo s = Ok h -> h <> HDomain [] -> host_text_wf (hd h))
  /\ hd (HDomain []) = [].

Lemma host_eq_dec_empty (h : host) : {h = HDomain []} + {h <> HDomain []}.
Proof. destruct h as [[|c d]|a|p]; [left; reflexivity | right; discriminate | right; discriminate | right; discriminate]. Qed.

Section HostPort.
Variable hp hpo : list N -> result host.
Variable hd : host -> list N.
Hypothesis HW : HostWf hp hpo hd.

Theorem phap_shape st se ser l ser2 he hi pt rem : st_is_file st = false ->
  parse_host_and_port hp hpo hd CUrlParser st se ser l = POk (ser2, he, hi, pt, rem) ->
  exists h, ser2 = ser ++ hd h ++ ptext pt /\ he = nlen ser + nlen (hd h) /\ hi = hi_of_host h
    /\ match pt with Some p => p <= 65535 | None => True end
    /\ ((h = HDomain [] /\ hd h = [] /\ pt = None /\ st_is_special st = false) \/ host_text_wf (hd h)).
Proof.
  intros Hnf. destruct HW as (W1 & W2 & W3). unfold parse_host_and_port.
  destruct (parse_host hp hpo st l) as [[h remaining]| |] eqn:Eh; cbn [pbind]; try discriminate.
  assert (h = HDomain [] \/ host_text_wf (hd h)) as Hh.
  { destruct (host_eq_dec_empty h) as [E|E]; [left; exact E|]. right.
    unfold parse_host in Eh. rewrite Hnf in Eh.
    destruct (host_scan (st_is_special st) false [] l) as [t rm].
    destruct (scheme_type_eqb st STSpecialNotFile && match t with [] => true | _ => false end); [discriminate|].
    destruct (negb (st_is_special st)).
    - destruct (hpo t) as [h0|e] eqn:Ep; cbn [of_result pbind] in Eh; [|discriminate].
      inversion Eh; subst. eapply W2; eassumption.
    - destruct (hp t) as [h0|e] eqn:Ep; cbn [of_result pbind] in Eh; [|discriminate].
      inversion Eh; subst. eapply W1; eassumption. }
  destruct (to_u32 (nlen (ser ++ hd h))) as [n| |] eqn:Eu; cbn [pbind]; try discriminate.
  apply to_u32_inv in Eu. destruct Eu as [-> _].
  match goal with |- pbind ?e _ = _ -> _ => destruct e as [[]| |] eqn:Ee; cbn [pbind]; try discriminate end.
  destruct (inp_split_prefix_char 58 remaining) as [rm|] eqn:E58.
  - destruct (parse_port CUrlParser (default_port (nfirstn se (ser ++ hd h))) rm) as [[p rm2]| |] eqn:Ep; cbn [pbind]; try discriminate.
    intros H. inversion H; subst. exists h. pose proof (parse_port_le _ _ _ _ _ Ep) as Hp.
    split; [destruct pt; cbn [ptext]; [rewrite <- app_assoc; reflexivity | rewrite !app_nil_r; reflexivity]|].
    split; [apply nlen_app|]. split; [reflexivity|]. split; [exact Hp|].
    destruct Hh as [->|Hh]; [|right; exact Hh]. exfalso.
    unfold inp_starts_with_char in Ee. unfold inp_split_prefix_char in E58.
    destruct (inp_next remaining) as [[d r0]|]; [|discriminate]. destruct (d =? 58); discriminate.
  - intros H. inversion H; subst. exists h. cbn [ptext]. rewrite app_nil_r.
    split; [reflexivity|]. split; [apply nlen_app|]. split; [reflexivity|]. split; [exact I|].
    destruct Hh as [->|Hh]; [|right; exact Hh]. left. rewrite W3. repeat split.
    destruct (inp_starts_with_char 58 rem); [discriminate|]. destruct (st_is_special st); [discriminate | reflexivity].
Qed.
End HostPort.
