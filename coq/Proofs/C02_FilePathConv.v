(* Proofs/C02_FilePathConv.v - Url::from_file_path / from_directory_path (Model/FilePath.v, unix) give canonical file
   records: by C20's shape theorem the result is  "file://" "/" enc(c1) "/" ... "/" enc(cn)  for the kept components of
   the path; the encoding (SPECIAL_PATH_SEGMENT set) of a component other than "." and ".." is a canonical segment of a
   special scheme (enc_good_seg_sp: clean for the path set, no '/', no '\\', no dot segment in any spelling - '%' is
   encoded, so "%2e" cannot come out, C06_SegPush.encode_single_dot / encode_double_dot).  Premises: no ".." component
   (with one the result is not a fixpoint: F-C02-5, from_file_path_example) and the result outside Known_file_drive
   (a component like "C:"). *)
From Coq Require Import String.
From RU Require Import Base.Prelude Base.Utf8 Base.Utf8Facts Model.AsciiSet Gen.Tables
  Model.PercentEncoding Model.HostT Model.UrlRecord Model.Parser Model.Setters Model.WF Model.FilePath
  Proofs.ListN Proofs.C14_Set Proofs.C14_Enc Proofs.C14_Views Proofs.C02_Enc Proofs.C02_Parts
  Proofs.C02_Opaque Proofs.C02_Path Proofs.C02_PathL1 Proofs.C02_Reach Proofs.C02_AuthParts
  Proofs.C02_Auth Proofs.C02_AuthWf Proofs.C02_PathSp Proofs.C02_AuthSp Proofs.C02_SetQF Proofs.C02_Canon
  Proofs.C02_Segments Proofs.C20_Path Proofs.C20_RT Proofs.C06_SegPush
  Proofs.C02_File Proofs.C02_FileL1 Proofs.C02_FileCanon Proofs.C02_FileParse.
From RU Require Proofs.C02_Reach4.
Open Scope N_scope.
Open Scope list_scope.

(* what the encoder writes for arbitrary bytes satisfies every predicate that holds of '%', the hex digits and the
   kept bytes of the set *)
Lemma enc_bytes_sat S (Q : N -> bool) c : Q 37 = true -> (forall d, d < 16 -> Q (hex_upper d) = true) ->
  kept_sat S Q = true -> bytes c -> forallb Q (encode S c) = true.
Proof.
  intros H37 Hh HS. induction c as [|b c IH]; intros Hb; [reflexivity|].
  inversion Hb as [|? ? Hb1 Hb2]; subst. rewrite encode_cons, forallb_app, (IH Hb2), andb_true_r.
  unfold enc1. destruct (should_encode S b) eqn:E.
  - unfold enc_byte_spec. cbn [forallb]. unfold is_byte in Hb1.
    rewrite H37, (Hh (b / 16)), (Hh (b mod 16)); [reflexivity | | ].
    + apply N.mod_lt. lia.
    + apply N.div_lt_upper_bound; lia.
  - assert (clean S [b] = true) as Hc by (unfold clean, C02_Enc.kept; cbn [forallb]; rewrite E; reflexivity).
    exact (clean_forallb S Q [b] HS Hc).
Qed.


Lemma sps37 : should_encode T_SPECIAL_PATH_SEGMENT 37 = true. Proof. vm_compute. reflexivity. Qed.
Lemma sps46 : should_encode T_SPECIAL_PATH_SEGMENT 46 = false. Proof. vm_compute. reflexivity. Qed.

(* the encoding of a path component other than "." and ".." is a canonical segment of a special scheme *)
Lemma enc_good_seg_sp k : bytes k -> k <> [46] -> k <> [46; 46] -> good_seg_sp (enc k) = true.
Proof.
  intros Hb H1 H2. unfold good_seg_sp, good_seg, enc.
  assert (clean T_PATH (encode T_SPECIAL_PATH_SEGMENT k) = true) as ->
    by exact (enc_bytes_sat _ (C02_Enc.kept T_PATH) k kept_PATH_37 hex_kept_PATH (seg_sat_PATH STFile) Hb).
  assert (no_slash (encode T_SPECIAL_PATH_SEGMENT k) = true) as ->
    by exact (enc_bytes_sat _ (fun c => negb (c =? 47)) k eq_refl C02_PathL1.hex_not_slash (seg_sat_47 STFile) Hb).
  assert (no_byte 92 (encode T_SPECIAL_PATH_SEGMENT k) = true) as ->.
  { apply (enc_bytes_sat _ (fun c => negb (c =? 92)) k eq_refl); [|exact (seg_sat_92 STFile eq_refl) | exact Hb].
    intros d Hd. apply hex_not_b; [exact Hd | lia]. }
  destruct (is_single_dot (encode T_SPECIAL_PATH_SEGMENT k)) eqn:Es.
  { exfalso. apply H1. exact (encode_single_dot T_SPECIAL_PATH_SEGMENT sps37 sps46 k Hb Es). }
  destruct (is_double_dot (encode T_SPECIAL_PATH_SEGMENT k)) eqn:Ed.
  { exfalso. apply H2. exact (encode_double_dot T_SPECIAL_PATH_SEGMENT sps37 sps46 k Hb Ed). }
  reflexivity.
Qed.

Lemma join_slash_segs l : join_slash l ++ [47] = 47 :: segs_text l.
Proof.
  induction l as [|c cs IH]; [reflexivity|]. rewrite join_slash_cons. unfold segs_text. cbn [map concat]. fold (segs_text cs).
  cbn [app]. rewrite <- !app_assoc. rewrite IH. reflexivity.
Qed.

Lemma join_slash_path_text l0 t : join_slash (l0 ++ [t]) = path_text l0 t.
Proof.
  rewrite join_slash_app. unfold path_text. change (join_slash [t]) with (47 :: t ++ []). rewrite app_nil_r.
  change (join_slash l0 ++ 47 :: t) with (join_slash l0 ++ [47] ++ t). rewrite app_assoc, join_slash_segs. reflexivity.
Qed.

Section FromFilePath.
Variable hp : list N -> result host.
Variable hd : host -> list N.

Lemma file_rec_curl T : file_rec T = file_curl hd None T None None.
Proof.
  unfold file_rec, file_curl, qf_url, file_pre, file_front, qf_text. cbn [fhost_text fhost_hi qf_qtext qf_ftext qf_qs qf_fs app].
  rewrite !app_nil_r. reflexivity.
Qed.

Lemma kept_piece_facts p k : In k (C20_Path.kept p) -> k <> [] /\ k <> [46].
Proof.
  unfold C20_Path.kept. intros H. apply filter_In in H. destruct H as [_ H]. unfold keep_piece in H.
  apply andb_true_iff in H. destruct H as [H1 H2]. split; intros ->; [discriminate H1 | discriminate H2].
Qed.

(* Url::from_file_path: when no component of the path is "..", the result outside Known_file_drive is a canonical
   file record (hence a fixpoint of re-parsing); with a ".." component it is not (F-C02-5) *)
Theorem from_file_path_File p u : bytes p -> from_file_path p = FOk u ->
  Forall (fun k => k <> [46; 46]) (C20_Path.kept p) -> Known_file_drive u = false -> FileCanon hp hd u.
Proof.
  intros Hb E Hdd Hk. destruct (path_is_absolute p) eqn:Ha.
  2:{ rewrite (proj1 (from_file_path_rel p Ha)) in E. discriminate E. }
  rewrite (from_file_path_spec p Hb Ha) in E. inversion E; subst u. clear E.
  pose proof (kept_bytes p Hb) as Hkb.
  assert (forall k, In k (C20_Path.kept p) -> good_seg_sp (enc k) = true /\ enc k <> []) as Hgood.
  { intros k Hin. destruct (kept_piece_facts p k Hin) as [Hne Hnd]. split.
    - apply enc_good_seg_sp; [exact (proj1 (Forall_forall _ _) Hkb k Hin) | exact Hnd | exact (proj1 (Forall_forall _ _) Hdd k Hin)].
    - apply enc_nonempty. exact Hne. }
  rewrite file_rec_curl in *.
  assert (nlen (file_front hd None) <= U32_MAX_P) as Hb0 by (vm_compute; discriminate).
  destruct (snoc_cases (C20_Path.kept p)) as [E0 | (l0 & t & E0)]; rewrite E0 in *.
  - change (url_path_of []) with (path_text [] []) in *.
    apply file_good_out; try exact I; try reflexivity; try assumption.
  - assert (url_path_of (l0 ++ [t]) = path_text (map enc l0) (enc t)) as EP.
    { unfold url_path_of. destruct (l0 ++ [t]) eqn:El; [destruct l0; discriminate El|]. rewrite <- El.
      rewrite map_app. cbn [map]. apply join_slash_path_text. }
    rewrite EP in *.
    apply file_good_out; try exact I; try assumption.
    + apply forallb_forall. intros s Hs. apply in_map_iff in Hs. destruct Hs as (k & <- & Hin).
      apply (Hgood k). apply in_or_app. left. exact Hin.
    + apply (Hgood t). apply in_or_app. right. left. reflexivity.
    + unfold first_nonempty. destruct l0 as [|k0 l1]; [exact I|]. cbn [map].
      apply (Hgood k0). left. reflexivity.
Qed.

Lemma ends_with_app_last b x l : l <> [] -> ends_with_byte b (x ++ l) = ends_with_byte b l.
Proof.
  intros Hl. unfold ends_with_byte. rewrite rev_app_distr. destruct (rev l) as [|c r] eqn:E; [|reflexivity].
  exfalso. apply Hl. rewrite <- (rev_involutive l), E. reflexivity.
Qed.

(* Url::from_directory_path: the same with a trailing slash *)
Theorem from_directory_path_File p u : bytes p -> from_directory_path p = FOk u ->
  Forall (fun k => k <> [46; 46]) (C20_Path.kept p) -> Known_file_drive u = false -> FileCanon hp hd u.
Proof.
  intros Hb E Hdd Hk. destruct (path_is_absolute p) eqn:Ha.
  2:{ rewrite (proj2 (from_file_path_rel p Ha)) in E. discriminate E. }
  unfold from_directory_path in E. rewrite (from_file_path_spec p Hb Ha) in E.
  pose proof (kept_bytes p Hb) as Hkb.
  assert (forall k, In k (C20_Path.kept p) -> good_seg_sp (enc k) = true /\ enc k <> []) as Hgood.
  { intros k Hin. destruct (kept_piece_facts p k Hin) as [Hne Hnd]. split.
    - apply enc_good_seg_sp; [exact (proj1 (Forall_forall _ _) Hkb k Hin) | exact Hnd | exact (proj1 (Forall_forall _ _) Hdd k Hin)].
    - apply enc_nonempty. exact Hne. }
  assert (nlen (file_front hd None) <= U32_MAX_P) as Hb0 by (vm_compute; discriminate).
  destruct (snoc_cases (C20_Path.kept p)) as [E0 | (l0 & t & E0)]; rewrite E0 in *.
  - change (ends_with_byte 47 (ser (file_rec (url_path_of [])))) with true in E. inversion E; subst u. clear E.
    rewrite file_rec_curl in *.
    apply (file_good_out hp hd None [] [] None None); try exact I; try reflexivity; try assumption.
  - assert (url_path_of (l0 ++ [t]) = path_text (map enc l0) (enc t)) as EP.
    { unfold url_path_of. destruct (l0 ++ [t]) eqn:El; [destruct l0; discriminate El|]. rewrite <- El.
      rewrite map_app. cbn [map]. apply join_slash_path_text. }
    rewrite EP in E.
    assert (enc t <> []) as Hne by (apply (Hgood t); apply in_or_app; right; left; reflexivity).
    assert (no_slash (enc t) = true) as Hns.
    { apply (good_seg_sp_parts (enc t)). apply (Hgood t). apply in_or_app. right. left. reflexivity. }
    assert (ends_with_byte 47 (ser (file_rec (path_text (map enc l0) (enc t)))) = false) as Een.
    { unfold file_rec, path_text. cbn [ser]. change (s_file_css ++ 47 :: segs_text (map enc l0) ++ enc t)
        with (s_file_css ++ [47] ++ segs_text (map enc l0) ++ enc t). rewrite !app_assoc.
      rewrite (ends_with_app_last 47 _ (enc t) Hne).
      unfold ends_with_byte. unfold no_slash in Hns. rewrite <- (rev_involutive (enc t)) in Hns.
      destruct (rev (enc t)) as [|c r]; [reflexivity|]. cbn [rev] in Hns. rewrite forallb_app in Hns.
      apply andb_true_iff in Hns. destruct Hns as [_ Hns]. cbn [forallb] in Hns. rewrite andb_true_r in Hns.
      apply negb_true_iff in Hns. exact Hns. }
    rewrite Een in E.
    assert (set_ser (file_rec (path_text (map enc l0) (enc t))) (ser (file_rec (path_text (map enc l0) (enc t))) ++ [47])
            = file_curl hd None (path_text (map enc l0 ++ [enc t]) []) None None) as EU.
    { rewrite <- file_rec_curl. unfold set_ser, file_rec. cbn [ser scheme_end username_end host_start host_end hosti port
        path_start query_start fragment_start]. f_equal. rewrite <- app_assoc. f_equal.
      unfold path_text. rewrite segs_text_snoc. rewrite app_nil_r. cbn [app]. rewrite <- !app_assoc. reflexivity. }
    rewrite EU in E. inversion E; subst u. clear E.
    apply file_good_out; try exact I; try reflexivity; try assumption.
    + rewrite forallb_app. cbn [forallb]. rewrite andb_true_r. apply andb_true_iff. split.
      * apply forallb_forall. intros s Hs. apply in_map_iff in Hs. destruct Hs as (k & <- & Hin).
        apply (Hgood k). apply in_or_app. left. exact Hin.
      * apply (Hgood t). apply in_or_app. right. left. reflexivity.
    + unfold first_nonempty. destruct l0 as [|k0 l1]; cbn [map app]; [exact Hne|].
      apply (Hgood k0). left. reflexivity.
Qed.
End FromFilePath.

(* non-vacuity, and the class excluded by the premise (F-C02-5): with a ".." component the result is no fixpoint *)
Example from_file_path_example :
  match from_file_path (B "/a/./b c//%2e") with
  | FOk u => list_eqb (ser u) (B "file:///a/b%20c/%252e") && C02_Reach4.m_fix u && negb (Known_file_drive u)
             && forallb (fun k => negb (list_eqb k [46; 46])) (C20_Path.kept (B "/a/./b c//%2e"))
  | _ => false end = true
  /\ match from_directory_path (B "/a/b") with
     | FOk u => list_eqb (ser u) (B "file:///a/b/") && C02_Reach4.m_fix u | _ => false end = true
  /\ match from_file_path (B "/a/../b") with
     | FOk u => list_eqb (ser u) (B "file:///a/../b") && negb (C02_Reach4.m_fix u) && negb (Known_file_drive u)
     | _ => false end = true.
Proof. vm_compute. repeat split. Qed.
