(* Proofs/Idna_C10c_Puny.v - three Punycode facts for the idempotence proof of ToASCII:
     decode_u8_lower   : the u8 decoder does not see the case of ASCII letters of its input;
     decode_nonascii   : the decoded text of a non-empty input that does not end in '-' contains a
                         non-ASCII scalar value (every consumed delta inserts a code point >= 128);
     decode_trailing_delim / encode_no_trailing_delim : an input that ends in '-' decodes to its (lower-cased) basic
                         part, hence the internal encoder never ends the Punycode form of a non-ASCII label in '-'. *)
From RU Require Import Base.Prelude Base.Utf8 Base.U32_c13 Gen.Tables Model.Punycode Model.Uts46
  Proofs.C13_Ascii Proofs.C13_Dec Proofs.Idna_C10_Deny Proofs.Idna_C10_Puny Proofs.Idna_Hyp Proofs.Idna_PunyRT.

(* ---------------------------------------------------------------- case of the input *)
Lemma to_lower_delim x : (to_lower x =? DELIMITER) = (x =? DELIMITER).
Proof. unfold to_lower, is_upper, DELIMITER. destruct ((65 <=? x) && (x <=? 90)) eqn:E; lia. Qed.
Lemma to_lower_idem x : to_lower (to_lower x) = to_lower x.
Proof. unfold to_lower, is_upper. destruct ((65 <=? x) && (x <=? 90)) eqn:E; [|rewrite E; reflexivity].
  replace ((65 <=? x + 32) && (x + 32 <=? 90)) with false by lia. reflexivity. Qed.
Lemma digit_u8_of_lower b : digit_u8 (to_lower b) = digit_u8 b.
Proof.
  rewrite !digit_u8_table. unfold digit_u8_spec, to_lower, is_upper.
  destruct ((65 <=? b) && (b <=? 90)) eqn:E; [|rewrite ?E; reflexivity].
  replace ((48 <=? b + 32) && (b + 32 <=? 57)) with false by lia.
  replace ((65 <=? b + 32) && (b + 32 <=? 90)) with false by lia.
  replace ((97 <=? b + 32) && (b + 32 <=? 122)) with true by lia.
  replace ((48 <=? b) && (b <=? 57)) with false by lia. f_equal. lia.
Qed.

Lemma rposition_lower l : rposition_delim (map to_lower l) = rposition_delim l.
Proof.
  induction l as [|x r IH]; [reflexivity|]. cbn [map rposition_delim]. rewrite IH, to_lower_delim. reflexivity.
Qed.

Lemma split_input_lower l :
  split_input (map to_lower l) = (map to_lower (fst (split_input l)), map to_lower (snd (split_input l))).
Proof.
  unfold split_input. rewrite rposition_lower. destruct (rposition_delim l) as [p|]; [|reflexivity].
  cbn [fst snd]. rewrite firstn_map. destruct (0 <? p)%nat; [rewrite skipn_map|]; reflexivity.
Qed.

Lemma dec_loop_lower cfg input : forall mid prev w k i length cp bias ins,
  dec_loop cfg U8Internal (map to_lower input) mid prev w k i length cp bias ins =
  dec_loop cfg U8Internal input mid prev w k i length cp bias ins.
Proof.
  induction input as [|byte rest IH]; intros mid prev w k i length cp bias ins; [reflexivity|].
  cbn [map dec_loop inst_digit]. rewrite digit_u8_of_lower.
  destruct (digit_u8 byte) as [digit|]; [|reflexivity].
  destruct (checked_mul digit w) as [product|]; [|reflexivity].
  destruct (checked_add i product) as [i1|]; [|reflexivity].
  destruct (digit <? threshold k bias).
  - destruct (unchecked_add cfg 233 length 1) as [len1| |s]; try reflexivity.
    destruct (adapt (i1 - prev) len1 (prev =? 0)) as [bias1| |s]; try reflexivity.
    destruct (checked_add cp (i1 / len1)) as [cp1|]; [|reflexivity].
    destruct (is_usvb cp1); [|reflexivity]. apply IH.
  - destruct (checked_mul w (BASE - threshold k bias)) as [w1|]; [|reflexivity]. apply IH.
Qed.

Lemma collect_lower ins : forall base pos,
  decode_collect U8Internal ins (map to_lower base) pos = decode_collect U8Internal ins base pos.
Proof.
  induction ins as [|[p c] ins' IHi]; intros base; induction base as [|b0 base' IHb]; intros pos; cbn [map];
    try reflexivity;
    rewrite (collect_eq U8Internal _ (to_lower b0 :: map to_lower base') pos), (collect_eq U8Internal _ (b0 :: base') pos).
  - cbn [inst_base_char]. rewrite to_lower_idem, IHb. reflexivity.
  - destruct (p =? pos).
    + rewrite <- (IHi (b0 :: base') (pos + 1)). reflexivity.
    + cbn [inst_base_char]. rewrite to_lower_idem, IHb. reflexivity.
Qed.

Theorem decode_u8_lower cfg p : decode_with cfg U8Internal (map to_lower p) = decode_with cfg U8Internal p.
Proof.
  unfold decode_with, decoder_decode. rewrite split_input_lower.
  destruct (split_input p) as [base rest]. cbn [fst snd inst_external andb].
  rewrite map_length, dec_loop_lower.
  destruct (dec_loop cfg U8Internal rest false 0 1 BASE 0 (u32_wrap (N.of_nat (length base))) INITIAL_N INITIAL_BIAS [])
    as [ins| |s]; try reflexivity.
  apply collect_lower.
Qed.

(* ---------------------------------------------------------------- the decoded text is not ASCII *)
Definition big (e : N * N) : Prop := 128 <= snd e.

Lemma dec_loop_big cfg it input : forall mid prev w k i length cp bias ins out,
  dec_loop cfg it input mid prev w k i length cp bias ins = Ok out -> 128 <= cp -> Forall big ins ->
  Forall big out /\ (input <> [] \/ ins <> [] -> out <> []).
Proof.
  induction input as [|byte rest IH]; intros mid prev w k i length cp bias ins out H Hcp Hins.
  - cbn [dec_loop] in H. destruct mid; [discriminate|]. inversion H. subst out. split; [exact Hins|].
    intros [Hx|Hx]; [contradiction Hx; reflexivity|exact Hx].
  - cbn [dec_loop] in H.
    destruct (inst_digit it byte) as [digit|]; [|discriminate].
    destruct (checked_mul digit w) as [product|]; [|discriminate].
    destruct (checked_add i product) as [i1|]; [|discriminate].
    destruct (digit <? threshold k bias).
    + destruct (unchecked_add cfg 233 length 1) as [len1| |s]; try discriminate.
      destruct (adapt (i1 - prev) len1 (prev =? 0)) as [bias1| |s]; try discriminate.
      destruct (checked_add cp (i1 / len1)) as [cp1|] eqn:Ec; [|discriminate].
      destruct (is_usvb cp1); [|discriminate].
      assert (Hcp1 : 128 <= cp1).
      { unfold checked_add in Ec. remember (i1 / len1) as q. destruct (cp + q <=? U32_MAX); [|discriminate]. inversion Ec. lia. }
      assert (Hins1 : Forall big (shift_ins (i1 mod len1) ins ++ [(i1 mod len1, cp1)])).
      { apply Forall_app. split; [|constructor; [exact Hcp1|constructor]].
        unfold shift_ins. apply Forall_forall. intros e He. apply in_map_iff in He. destruct He as (e0 & <- & He0).
        rewrite Forall_forall in Hins. specialize (Hins e0 He0). unfold big in *.
        destruct (i1 mod len1 <=? fst e0); exact Hins. }
      destruct (IH _ _ _ _ _ _ _ _ _ _ H Hcp1 Hins1) as [H1 H2]. split; [exact H1|]. intros _. apply H2. right.
      destruct (shift_ins (i1 mod len1) ins); discriminate.
    + destruct (checked_mul w (BASE - threshold k bias)) as [w1|]; [|discriminate].
      destruct (IH _ _ _ _ _ _ _ _ _ _ H Hcp Hins) as [H1 H2]. split; [exact H1|].
      intros _. destruct rest as [|b2 rest2].
      * cbn [dec_loop] in H. discriminate.
      * apply H2. left. discriminate.
Qed.

Lemma insert_big x l : big x -> Forall big l -> Forall big (insert_by_key x l) /\ insert_by_key x l <> [].
Proof.
  intros Hx. induction 1 as [|y r Hy Hr IH]; cbn [insert_by_key].
  - split; [constructor; [exact Hx|constructor]|discriminate].
  - destruct (fst x <=? fst y).
    + split; [constructor; [exact Hx|constructor; assumption]|discriminate].
    + split; [constructor; [exact Hy|exact (proj1 IH)]|discriminate].
Qed.
Lemma sort_big l : Forall big l -> Forall big (sort_by_key l) /\ (l <> [] -> sort_by_key l <> []).
Proof.
  induction 1 as [|x r Hx Hr IH]; cbn [sort_by_key fold_right].
  - split; [constructor|intros H; contradiction H; reflexivity].
  - destruct (insert_big x (sort_by_key r) Hx (proj1 IH)) as [H1 H2]. split; [exact H1|intros _; exact H2].
Qed.

Lemma collect_big it ins : forall base pos out, decode_collect it ins base pos = Ok out ->
  Forall big ins -> ins <> [] -> exists c, In c out /\ 128 <= c.
Proof.
  destruct ins as [|[p c] ins']; intros base; [intros ? ? _ _ Hne; contradiction Hne; reflexivity|].
  induction base as [|b0 base' IHb]; intros pos out H Hb _; rewrite collect_eq in H.
  - destruct (p =? pos); [|discriminate]. apply rcons_ok in H. destruct H as (o & _ & ->).
    exists c. split; [left; reflexivity|]. inversion Hb as [|? ? Hc _]. exact Hc.
  - destruct (p =? pos).
    + apply rcons_ok in H. destruct H as (o & _ & ->).
      exists c. split; [left; reflexivity|]. inversion Hb as [|? ? Hc _]. exact Hc.
    + apply rcons_ok in H. destruct H as (o & Ho & ->).
      destruct (IHb _ _ Ho Hb ltac:(discriminate)) as (c0 & Hin & Hc0). exists c0. split; [right; exact Hin|exact Hc0].
Qed.

Lemma rposition_lt l : forall p, rposition_delim l = Some p -> (p < length l)%nat /\ nth p l 0 = DELIMITER.
Proof.
  induction l as [|x r IH]; intros p H; [discriminate|]. cbn [rposition_delim] in H.
  destruct (rposition_delim r) as [i|].
  - inversion H. subst p. destruct (IH i eq_refl) as [H1 H2]. cbn [length nth]. split; [lia|exact H2].
  - destruct (x =? DELIMITER) eqn:E; [|discriminate]. inversion H. subst p. cbn [length nth]. split; [lia|lia].
Qed.

Lemma last_opt_nth (l : list N) : l <> [] -> last_opt l = Some (nth (length l - 1) l 0).
Proof.
  induction l as [|x r IH]; intros H; [contradiction H; reflexivity|].
  destruct r as [|y r']; [reflexivity|]. change (last_opt (x :: y :: r')) with (last_opt (y :: r')).
  rewrite IH by discriminate. cbn [length]. replace (Datatypes.S (Datatypes.S (length r')) - 1)%nat with (Datatypes.S (length r')) by lia.
  cbn [nth]. replace (Datatypes.S (length r') - 1)%nat with (length r') by lia. reflexivity.
Qed.

Lemma split_input_rest p : p <> [] -> last_opt p <> Some DELIMITER -> snd (split_input p) <> [].
Proof.
  intros Hne Hl. unfold split_input. destruct (rposition_delim p) as [i|] eqn:E; [|exact Hne].
  cbn [snd]. destruct (0 <? i)%nat; [|exact Hne].
  destruct (rposition_lt p i E) as [Hi Hn].
  intros Hs. apply (f_equal (@length N)) in Hs. rewrite skipn_length in Hs. cbn [length] in Hs.
  assert (Hi2 : i = (length p - 1)%nat) by lia.
  apply Hl. rewrite (last_opt_nth p Hne), <- Hi2, Hn. reflexivity.
Qed.

Theorem decode_nonascii cfg it p l : decode_with cfg it p = Ok l -> p <> [] -> last_opt p <> Some DELIMITER ->
  exists c, In c l /\ 128 <= c.
Proof.
  intros H Hne Hl. unfold decode_with, decoder_decode in H.
  pose proof (split_input_rest p Hne Hl) as Hr.
  destruct (split_input p) as [base rest]. cbn [snd] in Hr.
  destruct (inst_external it && negb (forallb (fun c => c <? 128) base)); [discriminate|].
  destruct (dec_loop cfg it rest false 0 1 BASE 0 (u32_wrap (N.of_nat (length base))) INITIAL_N INITIAL_BIAS [])
    as [ins| |s] eqn:Ed; try discriminate.
  destruct (dec_loop_big _ _ _ _ _ _ _ _ _ _ _ _ _ Ed ltac:(vm_compute; discriminate) ltac:(constructor)) as [Hb Hn].
  destruct (sort_big ins Hb) as [Hsb Hsn].
  exact (collect_big it _ _ _ _ H Hsb (Hsn (Hn (or_introl Hr)))).
Qed.

(* ---------------------------------------------------------------- a trailing delimiter *)
Lemma rposition_snoc q : rposition_delim (q ++ [DELIMITER]) = Some (length q).
Proof.
  induction q as [|x r IH]; [reflexivity|]. cbn [app rposition_delim length]. rewrite IH. reflexivity.
Qed.

Lemma collect_noins it : forall base pos, decode_collect it [] base pos = Ok (map (inst_base_char it) base).
Proof.
  induction base as [|b r IH]; intros pos; rewrite collect_eq; [reflexivity|]. rewrite IH. reflexivity.
Qed.

Lemma decode_trailing_delim cfg q l : decode_with cfg U8Internal (q ++ [DELIMITER]) = Ok l -> l = map to_lower q.
Proof.
  unfold decode_with, decoder_decode, split_input. rewrite rposition_snoc.
  destruct q as [|x r].
  - cbn [length app]. change (0 <? 0)%nat with false. cbv iota. cbn [firstn inst_external andb].
    cbn [dec_loop inst_digit]. replace (digit_u8 DELIMITER) with (@None N) by (rewrite digit_u8_table; reflexivity).
    discriminate.
  - change (0 <? length (x :: r))%nat with true. cbv iota.
    rewrite firstn_app, Nat.sub_diag, firstn_all. cbn [firstn]. rewrite app_nil_r.
    replace (skipn (Datatypes.S (length (x :: r))) ((x :: r) ++ [DELIMITER])) with (@nil N).
    2:{ symmetry. apply skipn_all2. rewrite app_length. cbn [length]. lia. }
    cbn [inst_external andb dec_loop sort_by_key fold_right]. rewrite collect_noins. intros H. inversion H. reflexivity.
Qed.

(* what the internal encoder writes for a non-ASCII label of at most 1000 scalar values without upper-case ASCII
   letters: ASCII text, no dot when the label has none, not empty, not ending in '-' *)
Theorem encode_no_trailing_delim cfg l p : Uts46.len l <= PUNYCODE_ENCODE_MAX_INPUT_LENGTH -> usv_list l ->
  existsb is_upper l = false -> is_ascii_l l = false -> encode_internal cfg l = Ok p ->
  p <> [] /\ last_opt p <> Some DELIMITER.
Proof.
  intros Hlen Hu Hup Hna He. destruct (punyrt_noupper cfg l p Hlen Hu Hup He) as [_ Hd].
  assert (Hp : Forall (fun c => c < 128) p).
  { unfold encode_internal in He. apply encode_into_chars in He. eapply Forall_impl; [|exact He].
    cbv beta. intros c [[_ Hc]|Hc]; [exact Hc|exact (ldh_lt c Hc)]. }
  split.
  - intros ->. vm_compute in Hd. inversion Hd. subst l. discriminate.
  - intros Hl.
    assert (Hq : exists q, p = q ++ [DELIMITER]).
    { clear -Hl. induction p as [|x r IH]; [discriminate|]. destruct r as [|y r'].
      - inversion Hl. exists []. reflexivity.
      - change (last_opt (x :: y :: r')) with (last_opt (y :: r')) in Hl. destruct (IH Hl) as (q & Hq).
        exists (x :: q). rewrite Hq. reflexivity. }
    destruct Hq as (q & ->). apply decode_trailing_delim in Hd. subst l.
    apply Forall_app in Hp. destruct Hp as [Hp _].
    assert (Hx : is_ascii_l (map to_lower q) = true).
    { unfold is_ascii_l. apply forallb_forall. intros c Hc. apply in_map_iff in Hc. destruct Hc as (c0 & <- & Hc0).
      rewrite Forall_forall in Hp. specialize (Hp c0 Hc0). unfold is_ascii_cp, to_lower, is_upper.
      destruct ((65 <=? c0) && (c0 <=? 90)) eqn:E; lia. }
    rewrite Hx in Hna. discriminate.
Qed.

(* the Punycode form has no dot when the label has none (through the round trip) *)
Lemma digit_u8_dot : digit_u8 DOT = None.
Proof. rewrite digit_u8_table. reflexivity. Qed.
Theorem encode_nodot cfg l p : Uts46.len l <= PUNYCODE_ENCODE_MAX_INPUT_LENGTH -> usv_list l ->
  existsb is_upper l = false -> ~ In DOT l -> encode_internal cfg l = Ok p -> ~ In DOT p.
Proof.
  intros Hlen Hu Hup Hnd He Hin. destruct (punyrt_noupper cfg l p Hlen Hu Hup He) as [_ Hd].
  pose proof (decode_with_chars cfg U8Internal p l eq_refl Hd) as Hc. rewrite Forall_forall in Hc.
  destruct (Hc DOT Hin) as [H|[H|H]].
  - cbn [inst_base_char] in H. apply Hnd. exact H.
  - discriminate.
  - cbn [inst_digit] in H. apply H. exact digit_u8_dot.
Qed.
