(* Proofs/C05_HostInst.v - the theorems over CReachF instantiated with the host MODEL (Model/Host.v: host_parse idna,
   host_parse_opaque, host_display) under the only premise IdnaOK idna, and the host clause of the property text
   with a concrete Q:
     host_text_clean s := s is a bracketed IPv6 literal ('[' ...), or every byte of s is ASCII, not an upper-case
                          letter and not a forbidden domain code point (WHATWG; the forbidden host code points, C0
                          controls, '%', DEL).
   model_HostSpQ : HostSpQ for the host model - domains by C09's domain_form, IPv4 text by ipv4_display_digits.
   So: every special-scheme record of CReachF has host_str() = None or a host_text_clean text. *)
From RU Require Import Base.Prelude Base.Utf8 Model.AsciiSet Gen.Tables Model.PercentEncoding
  Model.HostT Model.Host Model.UrlRecord Model.Parser Model.Setters Model.WF Spec.WhatwgHost
  Proofs.ListN Proofs.C09_Wf Proofs.C09_Host Proofs.C09_Inst Proofs.C09_InstWf
  Proofs.C04_ParseTotal Proofs.C03_ReachParts Proofs.C06_Suffix Proofs.C06_Host Proofs.C06_Main
  Proofs.C05_Enc Proofs.C05_Parser Proofs.C05_History Proofs.C05_Sharp Proofs.C05_Comp Proofs.C05_CompSteps
  Proofs.C05_CompSteps3 Proofs.C05_Alphabet Proofs.C05_AuthOfs Proofs.C05_HostText Proofs.C05_ReachF Proofs.C05_HostClause
  Proofs.C05_ReachFSp.

Definition host_byte_clean (c : N) : Prop := c < 128 /\ is_upper c = false /\ Spec.forbidden_domain_code_point c = false.
Definition host_text_clean (s : list N) : Prop := (exists r, s = 91 :: r) \/ Forall host_byte_clean s.

Lemma digit_dot_sweep :
  all_below 128 (fun c => implb (is_digit c || (c =? 46)) (negb (is_upper c) && negb (Spec.forbidden_domain_code_point c))) = true.
Proof. vm_compute. reflexivity. Qed.

Lemma digit_dot_clean c : is_digit c = true \/ c = 46 -> host_byte_clean c.
Proof.
  intros H. assert (c < 128) as Hc by (unfold is_digit in H; lia).
  pose proof (all_below_spec 128 _ digit_dot_sweep c Hc) as K. cbv beta in K.
  assert (is_digit c || (c =? 46) = true) as E by (destruct H as [H| ->]; [rewrite H; reflexivity | apply orb_true_r]).
  rewrite E in K. cbn [implb] in K. apply andb_true_iff in K. destruct K as [K1 K2].
  apply negb_true_iff in K1. apply negb_true_iff in K2. split; [exact Hc|]. split; assumption.
Qed.

Lemma ipv4_clean a : a < 4294967296 -> host_text_clean (host_display (HIpv4 a)).
Proof.
  intros H. right. cbn [host_display]. destruct (ipv4_display_digits a H) as (D & _).
  eapply Forall_impl; [|exact D]. exact digit_dot_clean.
Qed.

Section Inst.
Variable idna : list N -> option (list N).
Hypothesis OK : IdnaOK idna.
Variable dbg : bool.
Notation hp := (host_parse idna).
Notation hpo := host_parse_opaque.
Notation hd := host_display.

Theorem model_HostSpQ : HostSpQ hp hd host_text_clean.
Proof using OK.
  split.
  - intros s h E Hne. pose proof (host_parse_ok_x idna s h E) as Ex.
    destruct h as [d|a|ps].
    + right. cbn [host_display]. exact (domain_form idna OK s d Ex).
    + destruct (host_parse_x_shape idna s _ OK Ex) as [Hs _]. inversion Hs; subst. apply ipv4_clean. assumption.
    + left. cbn [host_display app]. eexists. reflexivity.
  - intros h Hv. destruct h as [d|a|ps]; [destruct Hv | exact (ipv4_clean a Hv) | left; cbn [host_display app]; eexists; reflexivity].
Qed.

Lemma model_IpOKv : IpOKv hd.
Proof using.
  intros h Hv. apply model_IpOK_wf. destruct h as [d|a|p]; [destruct Hv | exact Hv | exact Hv].
Qed.

(* the invariant and its consequences for the linked model *)
Theorem reachF_inv_model u : CReachF dbg hp hpo hd u -> FInv dbg u.
Proof using OK. exact (creachF_inv dbg hp hpo hd (model_HostWf idna OK) (model_HostOK_C05 idna OK) (model_IpDisp idna OK) model_IpOKv u). Qed.

Theorem reachF_components_model u : CReachF dbg hp hpo hd u -> wfh u /\ components_clean dbg u.
Proof using OK. exact (creachF_components dbg hp hpo hd (model_HostWf idna OK) (model_HostOK_C05 idna OK) (model_IpDisp idna OK) model_IpOKv u). Qed.

Theorem reachF_base_ok_model u : CReachF dbg hp hpo hd u -> base_ok u = true /\ host_text_ok u.
Proof using OK. exact (creachF_base_ok dbg hp hpo hd (model_HostWf idna OK) (model_HostOK_C05 idna OK) (model_IpDisp idna OK) model_IpOKv u). Qed.

Theorem reachF_alphabet_model u : CReachF dbg hp hpo hd u -> alphabet_ok u.
Proof using OK. exact (creachF_alphabet dbg hp hpo hd (model_HostWf idna OK) (model_HostOK_C05 idna OK) (model_IpDisp idna OK) model_IpOKv u). Qed.

Theorem reachF_sharp_model u : CReachF dbg hp hpo hd u -> sharp u.
Proof using OK. exact (creachF_sharp dbg hp hpo hd (model_HostWf idna OK) (model_HostOK_C05 idna OK) (model_IpDisp idna OK) model_IpOKv u). Qed.

(* the last sentence of the property text for the linked model *)
Theorem reachF_host_clean_model u : CReachF dbg hp hpo hd u -> spb u = true ->
  forall s, host_str u = Some (Some s) -> host_text_clean s.
Proof using OK.
  exact (creachF_hc dbg hp hpo hd host_text_clean model_HostSpQ (model_HostWf idna OK) (model_IpDisp idna OK)
           (model_HostOK_C05 idna OK) model_IpOKv u).
Qed.

(* the backslash clause for the linked model *)
Theorem reachF_special_path_model u : CReachF dbg hp hpo hd u -> spb u = true ->
  cannot_be_a_base u = Some false /\ forall p, path u = Some p -> ~ In 92 p.
Proof using OK.
  exact (creachF_special_path dbg hp hpo hd (model_HostWf idna OK) (model_HostOK_C05 idna OK) (model_IpDisp idna OK) model_IpOKv u).
Qed.

End Inst.
