(* Proofs/Inst_Host.v - the URL-level theorems that were proved for ABSTRACT host functions hp / hpo / hd under
   hypothesis records, instantiated with the host MODEL (Model/Host.v: host_parse idna, host_parse_opaque,
   host_display).  The records are discharged in Proofs/C09_Inst.v; what remains as a premise is IdnaOK idna
   (Proofs/C09_Host.v), the assumption on the IDNA function, and nothing else about hosts. *)
From Coq Require Import String.
From RU Require Import Base.Prelude Base.Utf8 Base.Utf8Facts Model.AsciiSet Gen.Tables Model.PercentEncoding
  Model.HostT Model.Host Model.UrlRecord Model.Parser Model.Setters Model.WF Model.Origin
  Proofs.ListN Proofs.C09_Wf Proofs.C09_Host Proofs.C09_Inst
  Proofs.C02_Reach Proofs.C02_AuthParts Proofs.C02_Auth Proofs.C02_AuthMain
  Proofs.C05_Enc Proofs.C05_Parser Proofs.C05_Setters Proofs.C05_History Proofs.C05_Sharp
  Proofs.C06_Host Proofs.C06_Main
  Proofs.C16_Origin Proofs.C16_RT Proofs.C16_RT6 Proofs.C16_RTParsed Proofs.C16_RT6Model.

(* the parser model linked with the host model *)
Definition model_parse (dbg : bool) (idna : list N -> option (list N)) :=
  parse_url dbg (host_parse idna) host_parse_opaque host_display.

(* a value Url::set_ip_host can be given: an Ipv4Addr is a u32, an Ipv6Addr eight u16 *)
Definition ip_value (h : host) : Prop :=
  match h with
  | HIpv4 a => a < 4294967296
  | HIpv6 p => length p = 8%nat /\ Forall (fun x => x < 65536) p
  | HDomain _ => False
  end.

Lemma ip_value_args h : ip_value h <-> op_args_ok (C02_Reach.OSetIpHost h).
Proof. destruct h; cbn; tauto. Qed.

(* all the records at once *)
Theorem host_model_ok idna : IdnaOK idna ->
  HostRT (host_parse idna) host_parse_opaque host_display
  /\ host_above (host_parse idna) host_parse_opaque host_display
  /\ C05_Parser.HostOK (host_parse idna) host_parse_opaque host_display
  /\ (forall h, ip_value h -> Forall ok_byte (host_display h) /\ host_disp_ok host_display h)
  /\ (forall s h, host_parse idna s = Ok h \/ host_parse_opaque s = Ok h -> host_disp_ok host_display h).
Proof.
  intros OK. split; [exact (model_HostRT idna OK)|]. split; [exact (model_host_above idna OK)|].
  split; [exact (model_HostOK_C05 idna OK)|]. split.
  - intros h Hv. apply ip_value_args in Hv. split; [exact (model_IpOK_wf h Hv)|].
    apply (model_host_disp_ok idna OK). right. right. exact Hv.
  - intros s h [H|H]; apply (model_host_disp_ok idna OK); [left | right; left]; exists s; exact H.
Qed.

Section Inst.
Variable dbg : bool.
Variable idna : list N -> option (list N).
Hypothesis OK : IdnaOK idna.

Notation hp := (host_parse idna).
Notation hpo := host_parse_opaque.
Notation hd := host_display.

(* ================= C02: serialize-then-parse is the identity on parse results ================= *)
(* every URL parsed without a base whose scheme is not "file" (classes (i)-(iv)) *)
Theorem reparse_nonfile_model input u : usv_list input -> nonfile_input input = true ->
  model_parse dbg idna None None input = POk u ->
  model_parse dbg idna None None (utf8_lossy (ser u)) = POk u /\ wf_b u = true /\ ascii (ser u).
Proof.
  exact (reparse_nonfile dbg hp hpo hd input u (model_HostRT idna OK) (model_host_above idna OK)).
Qed.

(* class (iii): non-special scheme with authority, any encoding override; with the canonical form *)
Theorem reparse_auth_model ovr input u : usv_list input -> auth_input input = true ->
  model_parse dbg idna ovr None input = POk u ->
  model_parse dbg idna None None (utf8_lossy (ser u)) = POk u /\ wf_b u = true
  /\ canon_auth hp hpo hd STNotSpecial u.
Proof.
  intros Hu Hc Hp.
  destruct (L1_auth dbg hp hpo hd (model_HostRT idna OK) ovr input u (model_host_above idna OK) Hu Hc Hp) as (C & W & _).
  split; [exact (L3_auth dbg hp hpo hd (model_HostRT idna OK) u C) | split; assumption].
Qed.

(* class (iv): special non-file scheme; with the canonical form *)
Theorem reparse_special_model input u : usv_list input -> special_input input = true ->
  model_parse dbg idna None None input = POk u ->
  model_parse dbg idna None None (utf8_lossy (ser u)) = POk u /\ wf_b u = true
  /\ canon_special hp hpo hd u.
Proof.
  intros Hu Hc Hp.
  destruct (L1_special dbg hp hpo hd (model_HostRT idna OK) input u (model_host_above idna OK) Hu Hc Hp) as (C & W & _).
  split; [exact (L3_special dbg hp hpo hd (model_HostRT idna OK) u C) | split; assumption].
Qed.

(* ================= C05: alphabet of the serialization ================= *)
Theorem parse_alphabet_model ovr base input u :
  match base with Some b => Forall ok_or_space (ser b) | None => True end ->
  model_parse dbg idna ovr base input = POk u -> Forall ok_or_space (ser u).
Proof.
  intros Hb Hp.
  exact (parse_url_okl ok_or_space ok_byte_or_space dbg hp hpo hd ovr (model_HostOK_C05 idna OK) base input u
           (fun _ => ok_or_space_32) Hp Hb).
Qed.

Theorem parse_sharp_model ovr base input u : usv_list input ->
  match base with Some b => sharp b | None => True end ->
  model_parse dbg idna ovr base input = POk u -> sharp u.
Proof. exact (parse_url_sharp dbg hp hpo hd ovr (model_HostOK_C05 idna OK) base input u). Qed.

(* histories: parse, join, and the 19 mutators with arbitrary arguments - an IP argument of
   Url::set_ip_host being a Rust value (C05's own Reachable asks IpOK hd for every value of the model type
   `host`, which is false of Display: C09_Inst.model_IpOK_refuted) *)
Definition op_rust (o : C05_History.op) : Prop :=
  match o with C05_History.OSetIpHost h => ip_value h | _ => True end.

Inductive ReachableM : url -> Prop :=
| RM_parse ovr input u : model_parse dbg idna ovr None input = POk u -> ReachableM u
| RM_join ovr b input u : ReachableM b -> model_parse dbg idna ovr (Some b) input = POk u -> ReachableM u
| RM_step u o u' : ReachableM u -> op_rust o -> C05_History.apply_op dbg hp hpo hd u o = Some u' -> ReachableM u'.

Section Inv.
Variable P : N -> Prop.
Hypothesis P_ok : forall b, ok_byte b -> P b.
Hypothesis P_32 : P 32.
Let HOK : C05_Parser.HostOK hp hpo hd := model_HostOK_C05 idna OK.

Lemma apply_op_okl_model u o u' : op_rust o -> C05_History.apply_op dbg hp hpo hd u o = Some u' ->
  okl P (ser u) -> okl P (ser u').
Proof.
  intros Hv H Hs. destruct o; cbn [C05_History.apply_op] in H;
    try (apply drop_status_some in H; destruct H as [st H]).
  - eapply set_fragment_okl; eassumption.
  - eapply set_query_okl; eassumption.
  - eapply set_path_okl; eassumption.
  - eapply set_port_okl; eassumption.
  - eapply set_host_okl; eassumption.
  - eapply set_ip_host_okl; [exact P_ok | | exact H | exact Hs].
    apply (okl_ok _ P_ok). apply model_IpOK_wf. apply ip_value_args. exact Hv.
  - eapply set_password_okl; eassumption.
  - eapply set_username_okl; eassumption.
  - eapply set_scheme_okl; eassumption.
  - eapply path_segments_session_okl; eassumption.
  - eapply q_set_protocol_okl; eassumption.
  - eapply q_set_username_okl; eassumption.
  - eapply q_set_password_okl; eassumption.
  - eapply q_set_host_okl; eassumption.
  - eapply q_set_hostname_okl; eassumption.
  - eapply q_set_port_okl; eassumption.
  - eapply q_set_pathname_okl; eassumption.
  - eapply q_set_search_okl; eassumption.
  - eapply q_set_hash_okl; eassumption.
Qed.

Theorem reachable_okl_model u : ReachableM u -> okl P (ser u).
Proof.
  induction 1 as [ovr input u Hp | ovr b input u Hb IH Hp | u o u' Hu IH Hv Ho].
  - eapply parse_url_okl; [exact P_ok | exact HOK | intros _; exact P_32 | exact Hp | exact I].
  - eapply parse_url_okl; [exact P_ok | exact HOK | intros _; exact P_32 | exact Hp | exact IH].
  - eapply apply_op_okl_model; eassumption.
Qed.
End Inv.

Theorem history_alphabet_model u : ReachableM u -> Forall ok_or_space (ser u).
Proof. exact (reachable_okl_model ok_or_space ok_byte_or_space ok_or_space_32 u). Qed.

(* ================= C06: Url::set_ip_host keeps the record well formed ================= *)
Theorem set_ip_host_wf_model u h u' st : wfh u -> ip_value h ->
  (has_authority_b u = true -> hi_of_host h = HI_None -> port u = None) ->
  (has_authority_b u = false -> path_start u = scheme_end u + 1) ->
  set_ip_host dbg hd u h = Some (u', st) -> wfh u'.
Proof.
  intros W Hv H1 H2 H.
  destruct (wf_all dbg hp hpo hd u W) as (_ & _ & _ & _ & _ & _ & _ & K).
  apply (K h u' st); try assumption.
  apply (model_host_disp_ok idna OK). right. right. apply ip_value_args. exact Hv.
Qed.

(* ================= C16: the origin round trip ================= *)
(* parser model + host model (both host parsers): the ASCII serialization of the tuple origin of ANY parse
   result parses back to a URL with that origin *)
Theorem origin_rt_model input u c o c' :
  url_parse dbg hp hpo hd input = POk u ->
  url_origin dbg hp hpo hd c u = OOk o c' -> is_tuple o = true ->
  nlen (ascii_serialization hd o) < U32_MAX_P ->
  exists w, url_parse dbg hp hpo hd (ascii_serialization hd o) = POk w
            /\ url_origin dbg hp hpo hd c' w = OOk o c'.
Proof. exact (rt_parsed_model dbg idna hpo input u c o c' OK). Qed.

End Inst.

(* ================= non-vacuity ================= *)
(* the premise IdnaOK is satisfiable (idna_clean of C16_RT6Model.v: the identity on ASCII text without denied
   characters), and with it the linked model runs: "a://u@[::1]:81/x" (opaque host parser, IPv6),
   "http://EXAMPLE.com/" is refused by idna_clean (upper case is on the deny list), "http://1.2.3/" is the
   IPv4 address 1.2.0.3, "ws://x.y:80/p" elides the default port *)
Definition ex_ser (s : list N) : option (list N) :=
  match model_parse true idna_clean None None s with POk u => Some (ser u) | _ => None end.

Example model_examples :
  IdnaOK idna_clean
  /\ ex_ser (B "a://u@[::1]:81/x"%string) = Some (B "a://u@[::1]:81/x"%string)
  /\ ex_ser (B "http://EXAMPLE.com/"%string) = None
  /\ ex_ser (B "http://1.2.3/"%string) = Some (B "http://1.2.0.3/"%string)
  /\ ex_ser (B "ws://x.y:80/p"%string) = Some (B "ws://x.y/p"%string)
  /\ nonfile_input (B "http://1.2.3/"%string) = true /\ special_input (B "ws://x.y:80/p"%string) = true
  /\ auth_input (B "a://u@[::1]:81/x"%string) = true.
Proof. split; [exact idna_clean_ok|]. vm_compute. repeat split. Qed.

(* ================= a history step outside every Known class of C02_Reach.v that is no re-parse fixpoint ================= *)
(* C09_Inst.opaque_ipv4_refuted at the level of URLs, executed on the linked model: Url::parse("a://x/"), then
   set_ip_host(127.0.0.1) gives a://127.0.0.1/ with the host kind Ipv4; its serialization re-parses to the same
   text and offsets with the host kind Domain (Host::parse_opaque does not read IPv4).  known_step is false for
   the step; Url's PartialEq (serialization only) does not see the difference, Url::host() does. *)
Definition set_ip_host_v4_witness : bool :=
  match model_parse true idna_clean None None (B "a://x/"%string) with
  | POk u =>
      negb (known_step true (host_parse idna_clean) host_parse_opaque host_display u (C02_Reach.OSetIpHost (HIpv4 2130706433)))
      && match set_ip_host true host_display u (HIpv4 2130706433) with
         | Some (u', _) =>
             list_eqb (ser u') (B "a://127.0.0.1/"%string) && hi_eqb (hosti u') (HI_Ipv4 2130706433)
             && negb (Known_file_drive u')
             && match model_parse true idna_clean None None (utf8_lossy (ser u')) with
                | POk v => list_eqb (ser v) (ser u') && hi_eqb (hosti v) HI_Domain && negb (url_eqb v u')
                | _ => false
                end
         | None => false
         end
  | _ => false
  end.

Theorem set_ip_host_v4_refuted : set_ip_host_v4_witness = true.
Proof. vm_compute. reflexivity. Qed.

(* the same as a refutation: C02's statement read for the linked model - every URL reachable through the API
   outside the Known classes of C02_Reach.v is a fixpoint of serialize-then-parse AS A RECORD - is false.
   (C02_statement itself is stated under HostOK, which no instance of the host model satisfies.)  A new class
   is needed: set_ip_host with an IPv4 address on a URL whose scheme is not special. *)
Definition C02_model_statement : Prop :=
  forall dbg idna, IdnaOK idna -> forall u,
    C02_Reach.Reachable dbg (host_parse idna) host_parse_opaque host_display u ->
    Fixpoint_of_reparse dbg (host_parse idna) host_parse_opaque host_display u.

Definition w_dummy : url := mkUrl [] 0 0 0 0 HI_None None 0 None None.
Definition w_input : list N := B "a://x/"%string.
Definition w_op : C02_Reach.op := C02_Reach.OSetIpHost (HIpv4 2130706433).
Definition w_u0 : url := match model_parse true idna_clean None None w_input with POk u => u | _ => w_dummy end.
Definition w_u1 : url :=
  match C02_Reach.apply_op true (host_parse idna_clean) host_parse_opaque host_display w_u0 w_op with
  | Some u => u | None => w_dummy end.

Lemma w_facts :
  parse_url true (host_parse idna_clean) host_parse_opaque host_display None None w_input = POk w_u0
  /\ Known_file_drive w_u0 = false
  /\ known_step true (host_parse idna_clean) host_parse_opaque host_display w_u0 w_op = false
  /\ C02_Reach.apply_op true (host_parse idna_clean) host_parse_opaque host_display w_u0 w_op = Some w_u1
  /\ Known_file_drive w_u1 = false
  /\ match reparse true (host_parse idna_clean) host_parse_opaque host_display w_u1 with
     | POk v => list_eqb (ser v) (ser w_u1) && hi_eqb (hosti v) HI_Domain && hi_eqb (hosti w_u1) (HI_Ipv4 2130706433)
     | _ => false
     end = true.
Proof. vm_compute. repeat split; reflexivity. Qed.

Lemma w_input_usv : usv_list w_input.
Proof. apply Forall_forall. intros c Hc. vm_compute in Hc. unfold is_usv. repeat (destruct Hc as [<-|Hc]; [lia|]). destruct Hc. Qed.

Theorem C02_model_refuted : ~ C02_model_statement.
Proof.
  intros H. destruct w_facts as (E0 & K0 & KS & E1 & K1 & R).
  pose proof w_input_usv as Hu.
  assert (R1 : C02_Reach.Reachable true (host_parse idna_clean) host_parse_opaque host_display w_u1).
  { eapply C02_Reach.R_step; [eapply C02_Reach.R_parse; [exact Hu | exact E0 | exact K0] | | exact KS | exact E1 | exact K1].
    exact (eq_refl : (2130706433 ?= 4294967296) = Lt). }
  pose proof (H true idna_clean idna_clean_ok w_u1 R1) as F. unfold Fixpoint_of_reparse in F.
  rewrite F in R. vm_compute in R. discriminate R.
Qed.
