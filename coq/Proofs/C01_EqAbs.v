(* Proofs/C01_EqAbs.v - a reference that carries its own scheme, when a base is given: for a non-special
   scheme, and for a special non-file scheme other than the scheme of the base, neither side consults the
   base - the Standard's scheme state goes to the path or authority / opaque path / special authority
   slashes state exactly as without base, parser.rs calls parse_non_special / after_double_slash.  So the
   outcome is the outcome without base on both sides, and the no-base classes carry over. *)
From RU Require Import Base.Prelude Base.Utf8 Model.AsciiSet Gen.Tables
  Model.PercentEncoding Model.HostT Model.UrlRecord Model.Parser Model.Setters Model.WF Spec.Whatwg
  Proofs.C02_Parts Proofs.C01_Tables Proofs.C08_Input
  Proofs.C01_EqRun Proofs.C01_EqEnc Proofs.C01_EqApi Proofs.C01_EqOpaque Proofs.C01_EqRef
  Proofs.C01_EqPathSpec Proofs.C01_EqPath Proofs.C01_EqClasses
  Proofs.C01_EqAuthSpec Proofs.C01_EqAuthModel Proofs.C01_EqAuth Proofs.C01_EqClasses2
  Proofs.C01_EqSpSpec Proofs.C01_EqSpPath Proofs.C01_EqSpModel Proofs.C01_EqSp.

(* the outcome of the Standard's parser is BDone su (X = Some su) or a failure (X = None) *)
Definition outcome_is (r : parse_outcome) (X : option spec_url) : Prop :=
  match X with
  | Some su => r = BDone su
  | None => exists uf, r = BFailure uf
  end.

(* same result, or failure on both sides (the record a failure carries is not compared) *)
Definition outcome_eq (r1 r2 : parse_outcome) : Prop :=
  match r1, r2 with
  | BDone a, BDone b => a = b
  | BFailure _, BFailure _ => True
  | _, _ => False
  end.

Lemma outcome_is_eq r1 r2 X : outcome_is r1 X -> outcome_is r2 X -> outcome_eq r1 r2.
Proof.
  destruct X as [su|]; cbn [outcome_is].
  - intros -> ->. reflexivity.
  - intros [u1 ->] [u2 ->]. exact I.
Qed.

(* ================= the Standard's side ================= *)
Section SpecAbs.
Variable shp : bool -> list N -> option spec_host.

(* non-special scheme: what the parser returns is a function of (scheme, text after ':') alone *)
Definition nonspecial_result (sch R : list N) : option spec_url :=
  match R with
  | 47 :: 47 :: T => sauth shp sch T
  | 47 :: r => Some (tail_url (set_path (set_scheme empty_url sch) (SPList (fst (spath r [] [])))) (snd (spath r [] [])))
  | _ => Some (tail_url (set_path (set_path (set_scheme empty_url sch) (SPOpaque []))
                                  (SPOpaque ([] ++ upe in_c0_control_set (o_path R)))) (o_rest R))
  end.

Theorem spec_nonspecial_any base input sch R :
  spec_scheme (spec_clean input) = Some (sch, R) -> is_special_scheme sch = false ->
  outcome_is (spec_basic_url_parse shp input base) (nonspecial_result sch R).
Proof.
  intros Hs Hnsp. set (inp := spec_clean input) in *.
  assert (list_eqb sch str_file = false) as Hnf.
  { destruct (list_eqb sch str_file) eqn:E; [|reflexivity]. apply list_eqb_spec in E. subst sch. discriminate Hnsp. }
  assert (forall res, (forall pre, inp = pre ++ 58 :: R -> Runs shp inp base (at_pos StScheme pre sch false false false empty_url) res) ->
                      spec_basic_url_parse shp input base = res) as Hrun.
  { intros res HR. apply spec_parse_of_runs. fold inp.
    destruct (runs_scheme shp inp base sch R res Hs) as (pre & Hin & K). apply K. exact (HR pre Hin). }
  destruct (starts_with_cp 47 R) eqn:H47.
  - destruct R as [|c1 R1]; [discriminate H47|]. cbn [starts_with_cp] in H47. apply N.eqb_eq in H47. subst c1.
    destruct (starts_with_cp 47 R1) eqn:H47'.
    + (* "//": authority state *)
      destruct R1 as [|c2 T]; [discriminate H47'|]. cbn [starts_with_cp] in H47'. apply N.eqb_eq in H47'. subst c2.
      change (nonspecial_result sch (47 :: 47 :: T)) with (sauth shp sch T).
      assert (forall res pre, inp = pre ++ 58 :: 47 :: 47 :: T ->
                Runs shp inp base (at_pos StAuthority (pre ++ [58; 47; 47]) [] false false false (set_scheme empty_url sch)) res ->
                Runs shp inp base (at_pos StScheme pre sch false false false empty_url) res) as Hstep.
      { intros res pre Hin HR.
        apply (runs_scheme_colon_slash shp inp base pre sch (47 :: T) res Hin Hnsp).
        assert (inp = (pre ++ [58; 47]) ++ 47 :: T) as Hin2 by (rewrite Hin; repeat rewrite <- app_assoc; reflexivity).
        apply (runs_poa_slash shp inp base (pre ++ [58; 47]) T false false false _ res Hin2).
        rewrite <- app_assoc. exact HR. }
      assert (forall pre, inp = pre ++ 58 :: 47 :: 47 :: T -> inp = (pre ++ [58; 47; 47]) ++ T) as Hin3
        by (intros pre ->; repeat rewrite <- app_assoc; reflexivity).
      destruct (sauth shp sch T) as [su|] eqn:Esa; cbn [outcome_is].
      * apply Hrun. intros pre Hin. apply (Hstep _ pre Hin).
        pose proof (runs_authority shp inp base _ T sch (Hin3 pre Hin) Hnsp) as RA. rewrite Esa in RA. exact RA.
      * destruct (runs_scheme shp inp base sch (47 :: 47 :: T) BOutOfFuel Hs) as (pre & Hin & _).
        pose proof (runs_authority shp inp base _ T sch (Hin3 pre Hin) Hnsp) as RA. rewrite Esa in RA.
        destruct RA as [uf RA]. exists uf. apply Hrun. intros pre' Hin'.
        assert (pre' = pre) as -> by (rewrite Hin in Hin'; apply app_inv_tail in Hin'; symmetry; exact Hin').
        apply (Hstep _ pre Hin). exact RA.
    + (* "/x": path state *)
      assert (nonspecial_result sch (47 :: R1)
              = Some (tail_url (set_path (set_scheme empty_url sch) (SPList (fst (spath R1 [] [])))) (snd (spath R1 [] [])))) as ->.
      { destruct R1 as [|c2 T]; [reflexivity|]. cbn [starts_with_cp] in H47'. unfold nonspecial_result.
        destruct c2 as [|p]; [reflexivity|]. do 6 (destruct p as [p|p|]; try reflexivity). discriminate H47'. }
      cbn [outcome_is]. apply Hrun. intros pre Hin.
      apply (runs_scheme_colon_slash shp inp base pre sch R1 _ Hin Hnsp).
      assert (inp = (pre ++ [58; 47]) ++ R1) as Hin2 by (rewrite Hin, <- app_assoc; reflexivity).
      apply (runs_path_or_authority shp inp base (pre ++ [58; 47]) R1 false false false _ _ Hin2 H47').
      apply (runs_path shp inp base R1 (pre ++ [58; 47]) [] false false false (set_scheme empty_url sch) [] Hin2 eq_refl);
        [unfold is_special; cbn [su_scheme set_scheme empty_url]; exact Hnsp | exact Hnf].
  - (* opaque path *)
    assert (nonspecial_result sch R
            = Some (tail_url (set_path (set_path (set_scheme empty_url sch) (SPOpaque []))
                                       (SPOpaque ([] ++ upe in_c0_control_set (o_path R)))) (o_rest R))) as ->.
    { destruct R as [|c1 R1]; [reflexivity|]. cbn [starts_with_cp] in H47. unfold nonspecial_result.
      destruct c1 as [|p]; [reflexivity|]. do 6 (destruct p as [p|p|]; try reflexivity). discriminate H47. }
    cbn [outcome_is]. apply Hrun. intros pre Hin.
    apply (runs_scheme_colon_opaque shp inp base pre sch R _ Hin Hnsp H47).
    exact (runs_opaque_path shp inp base R (pre ++ [58]) false false false
             (set_path (set_scheme empty_url sch) (SPOpaque [])) [] (snoc_split _ _ _ _ Hin) eq_refl).
Qed.

(* the scheme of the reference, compared with the base as the Standard's scheme state does *)
Definition base_ignored (sbase : option spec_url) (sch : list N) : bool :=
  negb (list_eqb sch str_file)
  && (negb (is_special_scheme sch)
      || match sbase with Some sb => negb (list_eqb (su_scheme sb) sch) | None => true end).

Theorem spec_base_ignored sbase input sch R :
  spec_scheme (spec_clean input) = Some (sch, R) -> base_ignored sbase sch = true ->
  outcome_eq (spec_basic_url_parse shp input sbase) (spec_basic_url_parse shp input None).
Proof.
  intros Hs Hb. unfold base_ignored in Hb. apply andb_true_iff in Hb. destruct Hb as [Hnf Hb]. apply negb_true_iff in Hnf.
  destruct (is_special_scheme sch) eqn:Hsp.
  - cbn [negb orb] in Hb.
    assert (match sbase with Some b => list_eqb (su_scheme b) sch | None => false end = false) as Hb'.
    { destruct sbase as [sb|]; [apply negb_true_iff in Hb; exact Hb | reflexivity]. }
    apply (outcome_is_eq _ _ (sauth_s shp sch (drop_sl R))).
    + pose proof (spec_special_any shp sbase input sch R Hs Hsp Hnf Hb') as K.
      destruct (sauth_s shp sch (drop_sl R)); exact K.
    + pose proof (spec_special shp input sch R Hs Hsp Hnf) as K.
      destruct (sauth_s shp sch (drop_sl R)); exact K.
  - exact (outcome_is_eq _ _ _ (spec_nonspecial_any sbase input sch R Hs Hsp) (spec_nonspecial_any None input sch R Hs Hsp)).
Qed.

End SpecAbs.

(* ================= the model's side ================= *)
Lemma file_type sch : scheme_type_of sch = STFile -> list_eqb sch str_file = true.
Proof.
  unfold scheme_type_of.
  destruct (list_eqb sch s_http || list_eqb sch s_https || list_eqb sch s_ws || list_eqb sch s_wss || list_eqb sch s_ftp);
    [discriminate|]. change s_file with str_file. destruct (list_eqb sch str_file); [reflexivity | discriminate].
Qed.

Theorem model_base_ignored dbg hp hpo hd ovr b sb shs input sch R :
  related dbg shs b sb ->
  spec_scheme (spec_clean input) = Some (sch, R) -> base_ignored (Some sb) sch = true ->
  parse_url dbg hp hpo hd ovr (Some b) input = parse_url dbg hp hpo hd ovr None input.
Proof.
  intros Rl Hs Hb. unfold base_ignored in Hb. apply andb_true_iff in Hb. destruct Hb as [Hnf Hb]. apply negb_true_iff in Hnf.
  rewrite spec_clean_is_ntnl_trim in Hs. destruct (spec_scheme_model _ _ _ Hs) as (rem & Hps & _).
  unfold parse_url. rewrite Hps. unfold parse_with_scheme.
  destruct (scheme_type_of sch) eqn:Est.
  - rewrite (file_type sch Est) in Hnf. discriminate Hnf.
  - destruct (inp_count_matching is_slash_or_bslash rem) as [sl rm].
    assert (is_special_scheme sch = true) as Hsp by (rewrite <- special_schemes_are_the_standards, Est; reflexivity).
    rewrite Hsp in Hb. cbn [negb orb] in Hb. apply negb_true_iff in Hb.
    rewrite (rel_sch _ _ _ _ Rl), Hb, andb_false_r. reflexivity.
  - reflexivity.
Qed.
