(* Proofs/C06_Segments.v - a path_segments_mut() editing session (open, any sequence of
   clear / pop / pop_if_empty / push / extend, drop) on a well-formed record with an authority. *)
From RU Require Import Base.Prelude Base.Utf8 Base.Utf8Facts Model.AsciiSet Gen.Tables Model.PercentEncoding
  Model.HostT Model.UrlRecord Model.Parser Model.Setters Model.WF
  Proofs.ListN Proofs.C03_WF Proofs.C06_List Proofs.C06_WFI Proofs.C06_Tail Proofs.C06_Steps Proofs.C06_FragQuery
  Proofs.C06_Suffix Proofs.C06_Front Proofs.C06_PathParser Proofs.C06_Path.

Definition psm_op_usv (o : psm_op) : Prop :=
  match o with PPush s => usv_list s | PExtend ss => Forall usv_list ss | _ => True end.

Section Session.
Variables (dbg : bool) (s0 : list N) (ps : N).
Hypothesis Hps : nlen s0 = ps.

(* the serialization during the session: the front is kept, the path has no '?' / '#', and it is
   empty or starts with '/' *)
Definition SInv (x : list N) : Prop :=
  nfirstn ps x = s0 /\ forallb no_qh (nskipn ps x) = true /\ (nlen x = ps \/ byte_eqb x ps 47 = true).

Lemma sinv_len x : SInv x -> ps <= nlen x.
Proof.
  intros (H & _). assert (nlen (nfirstn ps x) = ps) as E by (rewrite H; exact Hps).
  unfold nlen, nfirstn in *. rewrite firstn_length in E. lia.
Qed.

Lemma sinv_trunc x n : SInv x -> ps + 1 <= n -> SInv (nfirstn n x).
Proof.
  intros I Hn. pose proof (sinv_len x I) as L. destruct I as (I1 & I2 & I3). split; [|split].
  - rewrite nfirstn_nfirstn by lia. exact I1.
  - replace n with (ps + (n - ps)) by lia. rewrite nskipn_nfirstn_comm. apply forallb_nfirstn. exact I2.
  - destruct I3 as [I3|I3].
    + left. rewrite nfirstn_all by lia. exact I3.
    + right. unfold byte_eqb. rewrite nnth_nfirstn by lia. exact I3.
Qed.

Lemma sinv_clear x : SInv x -> SInv (truncate x (ps + 1)).
Proof. intros I. apply sinv_trunc; [exact I | lia]. Qed.

Lemma sinv_pop_if_empty x : SInv x ->
  SInv (if nlen x <=? ps + 1 then x else if ends_with_byte 47 (nskipn (ps + 1) x) then nfirstn (nlen x - 1) x else x).
Proof.
  intros I. destruct (nlen x <=? ps + 1) eqn:E; [exact I|].
  destruct (ends_with_byte 47 (nskipn (ps + 1) x)); [|exact I]. apply sinv_trunc; [exact I | lia].
Qed.

Lemma sinv_pop x k : SInv x -> SInv (if nlen x <=? ps + 1 then x else truncate x (ps + 1 + k)).
Proof. intros I. destruct (nlen x <=? ps + 1); [exact I|]. apply sinv_trunc; [exact I | lia]. Qed.

Lemma sinv_prefix1 x : SInv x -> byte_eqb x ps 47 = true -> nfirstn (ps + 1) x = s0 ++ [47].
Proof.
  intros (I1 & _) Hb. pose proof (byte_eqb_lt _ _ _ Hb) as L. apply byte_eqb_nnth in Hb.
  rewrite <- (nfirstn_nskipn ps (nfirstn (ps + 1) x)). rewrite nfirstn_nfirstn by lia. rewrite I1. f_equal.
  rewrite nskipn_nfirstn_comm. apply piece_one. exact Hb.
Qed.

(* one segment through parse_path in the PathSegmentSetter context *)
Lemma sinv_segment st x seg s2 hh rem :
  parse_path dbg CPathSegmentSetter st true ps x seg = POk (s2, hh, rem) ->
  SInv x -> byte_eqb x ps 47 = true -> usv_list seg -> SInv s2 /\ byte_eqb s2 ps 47 = true.
Proof.
  unfold parse_path. intros H I Hb Hseg. pose proof (byte_eqb_lt _ _ _ Hb) as L.
  destruct (st_is_file st) eqn:Ef.
  - assert (PInv ps ps s0 x) as PI by (destruct I as (I1 & I2 & _); split; assumption).
    destruct (pinv_loop dbg ps ps s0 ltac:(lia) ltac:(lia) Hps CPathSegmentSetter st seg eq_refl
                ltac:(intros _; reflexivity) _ _ _ _ _ _ _ H PI ltac:(lia) Hseg ltac:(constructor)) as (y & Ey & Iy).
    pose proof (pinv_len ps ps s0 ltac:(lia) ltac:(lia) Hps y Iy) as Ly.
    pose proof (pinv_file_path_fixup ps ps s0 ltac:(lia) ltac:(lia) Hps st y Iy ltac:(intros _; reflexivity)) as [F1 F2].
    rewrite <- Ey in F1, F2.
    assert (byte_eqb s2 ps 47 = true) as Hb2.
    { rewrite Ey. unfold file_path_fixup. rewrite Ef. unfold byte_eqb.
      rewrite nnth_app_ge by (rewrite nlen_nfirstn; lia). rewrite nlen_nfirstn by lia. rewrite N.sub_diag. reflexivity. }
    split; [|exact Hb2]. split; [exact F1|]. split; [exact F2|]. right. exact Hb2.
  - assert (nlen (s0 ++ [47]) = ps + 1) as L1 by (rewrite nlen_app, Hps; reflexivity).
    assert (PInv ps (ps + 1) (s0 ++ [47]) x) as PI.
    { split; [apply sinv_prefix1; assumption | destruct I as (_ & I2 & _); exact I2]. }
    destruct (pinv_loop dbg ps (ps + 1) (s0 ++ [47]) ltac:(lia) ltac:(lia) L1 CPathSegmentSetter st seg eq_refl
                ltac:(intros X; congruence) _ _ _ _ _ _ _ H PI ltac:(lia) Hseg ltac:(constructor)) as (y & Ey & Iy).
    unfold file_path_fixup in Ey. rewrite Ef in Ey. subst y. destruct Iy as [Y1 Y2].
    assert (nfirstn ps s2 = s0) as E0.
    { rewrite <- (nfirstn_nfirstn ps (ps + 1) s2) by lia. rewrite Y1. rewrite <- Hps. apply nfirstn_app_exact. }
    assert (byte_eqb s2 ps 47 = true) as Hb2.
    { unfold byte_eqb. rewrite <- (nnth_nfirstn s2 (ps + 1) ps) by lia. rewrite Y1.
      rewrite nnth_app_ge by lia. rewrite Hps, N.sub_diag. reflexivity. }
    split; [|exact Hb2]. split; [exact E0|]. split; [exact Y2|]. right. exact Hb2.
Qed.

Lemma sinv_extend_loop st segs : forall x s', psm_extend_loop dbg st ps x segs = Some s' ->
  SInv x -> Forall usv_list segs -> SInv s'.
Proof.
  induction segs as [|seg rest IH]; intros x s' H I Hu; cbn [psm_extend_loop] in H.
  - inversion H; subst. exact I.
  - inversion Hu as [|? ? Hseg Hrest]; subst.
    destruct (psm_skips seg); [eapply IH; eassumption|].
    set (s1 := if (ps + 1 <? nlen x) || (nlen x =? ps) then x ++ [47] else x) in *.
    assert (SInv s1 /\ byte_eqb s1 ps 47 = true) as [I1 Hb1].
    { pose proof (sinv_len x I) as L. destruct I as (A & B & C). subst s1.
      destruct ((ps + 1 <? nlen x) || (nlen x =? ps)) eqn:E.
      - assert (byte_eqb (x ++ [47]) ps 47 = true) as Hb.
        { destruct C as [C|C].
          - rewrite <- C. apply byte_eqb_app_at.
          - unfold byte_eqb. rewrite nnth_app_lt by (apply (byte_eqb_lt _ _ _ C)). exact C. }
        split; [|exact Hb]. split; [|split; [|right; exact Hb]].
        + rewrite nfirstn_app_le by lia. exact A.
        + rewrite nskipn_app_le by lia. apply forallb_app_iff. split; [exact B | reflexivity].
      - destruct C as [C|C]; [lia|]. split; [|exact C]. split; [exact A|]. split; [exact B | right; exact C]. }
    destruct (parse_path dbg CPathSegmentSetter st true ps s1 seg) as [[[s2 hh] rem]| |] eqn:Epp;
      cbn [unpres bindo] in H; try discriminate.
    destruct (sinv_segment st s1 seg s2 hh rem Epp I1 Hb1 Hseg) as [I2 _].
    eapply IH; eassumption.
Qed.

End Session.

Ltac splits := repeat match goal with |- _ /\ _ => split end.

Lemma path_segments_session_eval dbg u ops u' : wf_b u = true ->
  byte_eqb (ser u) (scheme_end u + 1) 47 = true ->
  (path_end u = path_start u \/ byte_eqb (ser u) (path_start u) 47 = true) ->
  Forall psm_op_usv ops -> path_segments_session dbg u ops = Some (u', SOk) ->
  exists P, u' = with_path u P /\ new_path_ok P.
Proof.
  intros W Hsl Hhead Hops H.
  destruct (wf_ps_le_path_end u W) as [B5 B6]. pose proof (wf_se_lt_ps u W) as B0.
  destruct (wf_scheme_facts u W) as (Hse & Hc & Hlt).
  set (pe := path_end u) in *. set (ps := path_start u) in *.
  set (s0 := nfirstn ps (ser u)).
  assert (nlen s0 = ps) as Ls0 by (apply nlen_nfirstn; lia).
  set (x0 := nfirstn pe (ser u)).
  assert (nlen x0 = pe) as Lx0 by (apply nlen_nfirstn; exact B6).
  (* the serialization the session starts from satisfies the session invariant *)
  assert (SInv s0 ps x0) as I0.
  { pose proof W as W0. apply wf_b_iff in W0. destruct W0 as (_ & _ & (Q1 & Q2 & Q3 & Q4 & Q5)).
    change (path_end u) with pe in Q4. change (path_start u) with ps in Q4.
    split; [|split].
    - unfold x0, s0. apply nfirstn_nfirstn. exact B5.
    - unfold x0. replace pe with (ps + (pe - ps)) by lia. rewrite nskipn_nfirstn_comm. exact Q4.
    - rewrite Lx0. destruct Hhead as [E|E]; [left; exact E|].
      destruct (N.eq_dec pe ps) as [E'|E']; [left; exact E'|]. right.
      unfold byte_eqb, x0. rewrite nnth_nfirstn by lia. exact E. }
  (* open the session *)
  unfold path_segments_session, path_segments_mut in H.
  rewrite (cannot_be_a_base_eval u W) in H. cbn [bindo] in H.
  rewrite Hsl in H. cbn [negb] in H.
  unfold psm_new in H. rewrite (take_after_path_eval u W) in H. cbn [bindo] in H. fold pe x0 in H.
  destruct (u_scheme_type (set_ser u x0)) as [st|] eqn:Est; cbn [bindo] in H; [|discriminate].
  match type of H with bindo (bindo (bindo ?c _) _) _ = _ => destruct c as [[]|]; cbn [bindo] in H; [|discriminate] end.
  cbn [ser set_ser path_start] in H. fold ps in H. rewrite Lx0 in H.
  set (p0 := mkPsm (set_ser u x0) (ps + 1) (nskipn pe (ser u)) pe) in H.
  destruct (psm_run dbg p0 ops) as [p1|] eqn:Erun; cbn [bindo] in H; [|discriminate].
  (* the session keeps its bookkeeping fields and the invariant of the serialization *)
  assert (forall ops p q, psm_run dbg p ops = Some q -> Forall psm_op_usv ops ->
            psm_url p = set_ser u (ser (psm_url p)) -> after_first_slash p = ps + 1 ->
            psm_after_path p = nskipn pe (ser u) -> psm_old_pos p = pe -> SInv s0 ps (ser (psm_url p)) ->
            psm_url q = set_ser u (ser (psm_url q)) /\ psm_after_path q = nskipn pe (ser u) /\ psm_old_pos q = pe
            /\ SInv s0 ps (ser (psm_url q))) as Hrun.
  { clear - Ls0. intros ops0. induction ops0 as [|o rest IH]; intros p q Hr Hu E1 E2 E3 E4 I.
    - cbn in Hr. inversion Hr; subst. tauto.
    - cbn [psm_run] in Hr. destruct (psm_apply dbg p o) as [p'|] eqn:Eo; cbn [bindo] in Hr; [|discriminate].
      inversion Hu as [|? ? Ho Hrest]; subst.
      assert (psm_url p' = set_ser u (ser (psm_url p')) /\ after_first_slash p' = ps + 1
              /\ psm_after_path p' = nskipn pe (ser u) /\ psm_old_pos p' = pe /\ SInv s0 ps (ser (psm_url p'))) as (F1 & F2 & F3 & F4 & F5).
      { assert (forall x, SInv s0 ps x ->
                  let r := psm_with p x in
                  psm_url r = set_ser u (ser (psm_url r)) /\ after_first_slash r = ps + 1
                  /\ psm_after_path r = nskipn pe (ser u) /\ psm_old_pos r = pe /\ SInv s0 ps (ser (psm_url r))) as Hw.
        { intros x Ix. unfold psm_with. cbn [psm_url after_first_slash psm_after_path psm_old_pos ser set_ser].
          splits; try assumption. rewrite E1. reflexivity. }
        destruct o; cbn [psm_apply] in Eo.
        - inversion Eo; subst p'. unfold psm_clear. rewrite E2. apply Hw. apply sinv_clear; assumption.
        - inversion Eo; subst p'. unfold psm_pop_if_empty. rewrite E2.
          pose proof (sinv_pop_if_empty s0 ps Ls0 _ I) as I'.
          destruct (nlen (ser (psm_url p)) <=? ps + 1); [tauto|].
          destruct (ends_with_byte 47 (nskipn (ps + 1) (ser (psm_url p)))); [apply Hw; exact I' | tauto].
        - inversion Eo; subst p'. unfold psm_pop. rewrite E2.
          match goal with |- context [truncate _ (ps + 1 + ?k)] => pose proof (sinv_pop s0 ps Ls0 _ k I) as I' end.
          destruct (nlen (ser (psm_url p)) <=? ps + 1); [tauto | apply Hw; exact I'].
        - unfold psm_push, psm_extend in Eo.
          destruct (u_scheme_type (psm_url p)) as [st0|]; cbn [bindo] in Eo; [|discriminate].
          destruct (psm_extend_loop dbg st0 (path_start (psm_url p)) (ser (psm_url p)) [s]) as [s'|] eqn:El;
            cbn [bindo] in Eo; [|discriminate].
          inversion Eo; subst p'. apply Hw. rewrite E1 in El. cbn [path_start set_ser] in El. fold ps in El.
          eapply (sinv_extend_loop dbg s0 ps Ls0); [exact El | exact I | constructor; [exact Ho | constructor]].
        - unfold psm_extend in Eo.
          destruct (u_scheme_type (psm_url p)) as [st0|]; cbn [bindo] in Eo; [|discriminate].
          destruct (psm_extend_loop dbg st0 (path_start (psm_url p)) (ser (psm_url p)) ss) as [s'|] eqn:El;
            cbn [bindo] in Eo; [|discriminate].
          inversion Eo; subst p'. apply Hw. rewrite E1 in El. cbn [path_start set_ser] in El. fold ps in El.
          eapply (sinv_extend_loop dbg s0 ps Ls0); [exact El | exact I | exact Ho]. }
      eapply IH; eassumption. }
  destruct (Hrun ops p0 p1 Erun Hops eq_refl eq_refl eq_refl eq_refl I0) as (R1 & R3 & R4 & (I1 & I2 & I3)).
  (* close the session *)
  destruct (psm_close dbg p1) as [uf|] eqn:Ecl; cbn [bindo] in H; [|discriminate].
  inversion H; subst uf. clear H.
  unfold psm_close, restore_after_path in Ecl. rewrite R3, R4 in Ecl. rewrite R1 in Ecl.
  cbn [ser set_ser query_start fragment_start] in Ecl.
  set (x1 := ser (psm_url p1)) in *.
  assert (match query_start u with Some i => pe <= i | None => True end) as Gq.
  { unfold pe, path_end. destruct (query_start u); [lia | exact I]. }
  assert (match fragment_start u with Some i => pe <= i | None => True end) as Gf.
  { pose proof (wf_qf_facts u W) as QF. pose proof (qf_qf QF) as Q3. pose proof (qf_f QF) as Q2. unfold pe, path_end.
    destruct (query_start u), (fragment_start u); try exact I; lia. }
  rewrite !adjust_opt_ok in Ecl by assumption. cbn [bindo] in Ecl.
  set (P := nskipn ps x1).
  assert (x1 = s0 ++ P) as Ex1 by (unfold P; rewrite <- I1; symmetry; apply nfirstn_nskipn).
  pose proof (sinv_len s0 ps Ls0 x1 (conj I1 (conj I2 I3))) as Lx1.
  assert (new_path_ok P) as [HP1 HP2].
  { split; [exact I2|]. destruct I3 as [I3|I3].
    - left. unfold P. apply nskipn_all. lia.
    - right. unfold P. apply byte_eqb_nnth in I3. rewrite (nskipn_cons_of_nnth _ _ _ I3). eexists. reflexivity. }
  exists P. split; [|split; assumption].
  inversion Ecl. unfold with_path. fold pe ps. rewrite Ex1. rewrite nlen_app, Ls0. rewrite <- app_assoc. reflexivity.
Qed.

Lemma auth_path_head u : wf_b u = true -> has_authority_b u = true ->
  byte_eqb (ser u) (scheme_end u + 1) 47 = true
  /\ (path_end u = path_start u \/ byte_eqb (ser u) (path_start u) 47 = true).
Proof.
  intros W Ha. split.
  - pose proof Ha as Ha2. unfold has_authority_b in Ha2. apply css_bytes in Ha2. destruct Ha2 as (_ & C1 & _).
    apply byte_eqb_true_iff. exact C1.
  - destruct (wf_ps_le_path_end u W) as [B5 B6].
    pose proof W as W0. apply wf_b_iff in W0. rewrite Ha in W0. destruct W0 as (_ & (_ & PS) & (Q1 & Q2 & Q3 & Q4 & Q5)).
    destruct (N.eq_dec (path_end u) (path_start u)) as [E|E]; [left; exact E|]. right.
    assert (forall c, (c = 63 \/ c = 35) -> byte_eqb (ser u) (path_start u) c = true -> False) as Hno.
    { intros c Hcc Hb. apply byte_eqb_nnth in Hb.
      assert (nnth (nfirstn (path_end u - path_start u) (nskipn (path_start u) (ser u))) 0 = Some c) as Hn
        by (rewrite nnth_nfirstn by lia; rewrite nnth_nskipn, N.add_0_r; exact Hb).
      destruct (nfirstn (path_end u - path_start u) (nskipn (path_start u) (ser u))) as [|y r]; [discriminate|].
      cbn in Hn. inversion Hn; subst y. cbn [forallb] in Q4. apply andb_true_iff in Q4. destruct Q4 as [Q4 _].
      unfold no_qh in Q4. destruct Hcc; subst c; discriminate. }
    destruct PS as [PS|[PS|[PS|PS]]]; [lia | exact PS | exfalso; eapply (Hno 63); [left|]; tauto
                                     | exfalso; eapply (Hno 35); [right|]; tauto].
Qed.

Theorem path_segments_session_ok dbg u ops u' : wf_b u = true -> host_text_ok u -> has_authority_b u = true ->
  Forall psm_op_usv ops -> path_segments_session dbg u ops = Some (u', SOk) ->
  wf_b u' = true /\ host_text_ok u' /\ same_front dbg u u'
  /\ query dbg u' = query dbg u /\ fragment dbg u' = fragment dbg u
  /\ exists P, path u' = Some P /\ new_path_ok P.
Proof.
  intros W HT Ha Hops H. destruct (auth_path_head u W Ha) as [Hsl Hhead].
  destruct (path_segments_session_eval dbg u ops u' W Hsl Hhead Hops H) as (P & -> & HP1 & HP2).
  splits.
  - apply wp_wf; assumption.
  - apply wp_host_text_ok; assumption.
  - apply wp_front; assumption.
  - apply wp_query; assumption.
  - apply wp_fragment; assumption.
  - exists P. split; [apply wp_path; assumption | split; assumption].
Qed.
