(* Proofs/C07_Defs.v - vocabulary of property C07: the ten attribute setters on the model side
   (url::quirks, Model/Setters.v; href = the parser without a base) and on the Standard's side
   (Spec/Whatwg.v spec_set), the ten API strings of both, histories, and small host functions used by
   the computed witnesses. *)
From RU Require Import Base.Prelude Base.Utf8 Model.AsciiSet Gen.Tables Model.PercentEncoding
  Model.HostT Model.UrlRecord Model.Parser Model.Setters Model.KnownC01 Model.KnownC07 Spec.Whatwg.

Definition setter_of_q (s : qsetter) : setter :=
  match s with
  | QHref => SetHref | QProtocol => SetProtocol | QUsername => SetUsername | QPassword => SetPassword
  | QHost => SetHost | QHostname => SetHostname | QPort => SetPort | QPathname => SetPathname
  | QSearch => SetSearch | QHash => SetHash
  end.

Definition all_qsetters : list qsetter :=
  [QHref; QProtocol; QUsername; QPassword; QHost; QHostname; QPort; QPathname; QSearch; QHash].

Section ModelSide.
Variable dbg : bool.
Variable hp ho : list N -> result host.
Variable hd : host -> list N.

(* url::quirks::set_<s>(&mut u, v) : the record afterwards; None = the code panics.
   set_href replaces the URL by the parse result and leaves it alone when parsing fails. *)
Definition model_set (s : qsetter) (u : url) (v : list N) : option url :=
  match s with
  | QHref => match parse_url dbg hp ho hd None None v with
             | POk u' => Some u' | PErr _ => Some u | PPanic => None end
  | QProtocol => option_map fst (q_set_protocol dbg u v)
  | QUsername => option_map fst (q_set_username dbg u v)
  | QPassword => option_map fst (q_set_password dbg u v)
  | QHost => option_map fst (q_set_host dbg hp ho hd u v)
  | QHostname => option_map fst (q_set_hostname dbg hp ho hd u v)
  | QPort => option_map fst (q_set_port dbg u v)
  | QPathname => q_set_pathname dbg u v
  | QSearch => q_set_search dbg u v
  | QHash => q_set_hash dbg u v
  end.

(* the ten url::quirks getters, in the order href protocol username password host hostname port
   pathname search hash; None = one of them panics *)
Definition model_api (u : url) : option (list (list N)) :=
  a1 <- q_protocol u ;; a2 <- q_username dbg u ;; a3 <- q_password dbg u ;; a4 <- q_host dbg u ;;
  a5 <- q_hostname u ;; a6 <- q_port dbg u ;; a7 <- q_pathname u ;; a8 <- q_search dbg u ;;
  a9 <- q_hash dbg u ;;
  Some [q_href u; a1; a2; a3; a4; a5; a6; a7; a8; a9].

Fixpoint model_run (u : url) (ops : list (qsetter * list N)) : option url :=
  match ops with
  | [] => Some u
  | (s, v) :: r => match model_set s u v with Some u' => model_run u' r | None => None end
  end.

(* no assignment of the history, taken in the state the model has reached, is in Known_C07 *)
Fixpoint outside_known (u : url) (ops : list (qsetter * list N)) : Prop :=
  match ops with
  | [] => True
  | (s, v) :: r =>
      known_c07 u s v = 0
      /\ match model_set s u v with Some u' => outside_known u' r | None => True end
  end.
End ModelSide.

Section SpecSide.
Variable shp : bool -> list N -> option spec_host.

(* the attribute setter of the Standard; None = the fuel of the specification model ran out
   (Spec/WhatwgFuel.v: it does not) *)
Definition spec_step (s : qsetter) (su : spec_url) (v : list N) : option spec_url :=
  match spec_set shp (setter_of_q s) su v with SetTo su' => Some su' | SetOutOfFuel => None end.

Fixpoint spec_run (su : spec_url) (ops : list (qsetter * list N)) : option spec_url :=
  match ops with
  | [] => Some su
  | (s, v) :: r => match spec_step s su v with Some su' => spec_run su' r | None => None end
  end.
End SpecSide.

(* ---------- small host functions for computed witnesses ----------
   Every non-empty text is a domain (special schemes) / an opaque host (other schemes) that
   serialises as itself; the empty text is rejected for special schemes and is the empty host
   otherwise.  Both sides get the same functions. *)
Definition toy_hp (s : list N) : result host := match s with [] => Err EmptyHost | _ => Ok (HDomain s) end.
Definition toy_ho (s : list N) : result host := Ok (HDomain s).
Definition toy_hd (h : host) : list N := match h with HDomain d => d | _ => [] end.
Definition toy_shp (is_opaque : bool) (s : list N) : option spec_host :=
  match s with
  | [] => if is_opaque then Some SEmpty else None
  | _ => Some (if is_opaque then SOpaque s else SDomain s)
  end.
Definition toy_shs (h : spec_host) : list N :=
  match h with SDomain d => d | SOpaque s => s | _ => [] end.

(* parse a text on both sides with the small host functions *)
Definition toy_parse (s : list N) : option url :=
  match parse_url true toy_hp toy_ho toy_hd None None s with POk u => Some u | _ => None end.
Definition toy_sparse (s : list N) : option spec_url :=
  match spec_basic_url_parse toy_shp s None with BDone u => Some u | _ => None end.

Fixpoint lists_eqb (a b : list (list N)) : bool :=
  match a, b with
  | [], [] => true
  | x :: a', y :: b' => list_eqb x y && lists_eqb a' b'
  | _, _ => false
  end.

(* the ten API strings of a model record and of a URL record of the Standard are the same *)
Definition toy_api_agree (u : url) (su : spec_url) : bool :=
  match model_api true u with
  | Some a => lists_eqb a (spec_api_list toy_shs su)
  | None => false
  end.

(* 0 = the ten API strings agree after the assignment; 1 = they differ; 2 = the start URL does not
   parse on one side / its API strings differ already; 3 = panic or out of fuel *)
Definition toy_compare (start : list N) (s : qsetter) (v : list N) : N :=
  match toy_parse start, toy_sparse start with
  | Some u, Some su =>
      if negb (toy_api_agree u su) then 2
      else match model_set true toy_hp toy_ho toy_hd s u v, spec_step toy_shp s su v with
           | Some u', Some su' => if toy_api_agree u' su' then 0 else 1
           | _, _ => 3
           end
  | _, _ => 2
  end.

(* a history, checked after every step, up to its first step inside Known_C07 *)
Fixpoint toy_run_check (u : url) (su : spec_url) (ops : list (qsetter * list N)) : bool :=
  match ops with
  | [] => true
  | (s, v) :: r =>
      if negb (known_c07 u s v =? 0) then true
      else match model_set true toy_hp toy_ho toy_hd s u v, spec_step toy_shp s su v with
           | Some u', Some su' => toy_api_agree u' su' && toy_run_check u' su' r
           | _, _ => false
           end
  end.
Definition toy_history_ok (start : list N) (ops : list (qsetter * list N)) : bool :=
  match toy_parse start, toy_sparse start with
  | Some u, Some su => toy_api_agree u su && toy_run_check u su ops
  | _, _ => false
  end.

Definition toy_known (start : list N) (s : qsetter) (v : list N) : N :=
  match toy_parse start with Some u => known_c07 u s v | None => 0 end.
