(* Proofs/C01_EqAsm.v - the proved classes of the C01 equivalence assembled a third time:
   in_proved_class3 = the six host-free classes, "scheme://authority" (non-special, no base), the special
   non-file schemes without base, and the three relative-reference classes against a non-special base.
   ONE base relation (good_base = `related` + spec_base_ok), which every successful result satisfies
   again (agree_good), so the theorem can be applied to its own results; ONE host hypothesis (host_hyp3:
   the two host functions of a side pair agree on the one string the class applies them to), discharged
   for the host model of Model/Host.v against the Standard's host parser / serializer
   (Spec/WhatwgHostParse.v) relative to the IDNA oracle only. *)
From RU Require Import Base.Prelude Base.Utf8 Base.Utf8Facts Model.AsciiSet Gen.Tables
  Model.PercentEncoding Model.HostT Model.UrlRecord Model.Parser Model.Setters Model.WF Model.Host
  Spec.Whatwg Spec.WhatwgHost Spec.WhatwgHostParse
  Proofs.C02_Parts Proofs.C02_Path Proofs.C03_WF Proofs.C01_Tables Proofs.C08_Input Proofs.C09_Host
  Proofs.C01_EqRun Proofs.C01_EqEnc Proofs.C01_EqApi Proofs.C01_EqOpaque Proofs.C01_EqRef
  Proofs.C01_EqPathSpec Proofs.C01_EqPath Proofs.C01_EqOverflow Proofs.C01_EqEmpty
  Proofs.C01_EqClasses Proofs.C01_EqAuthSpec Proofs.C01_EqAuthModel Proofs.C01_EqAuth Proofs.C01_EqAuthHost
  Proofs.C01_EqClasses2 Proofs.C01_EqRel Proofs.C01_EqRelPath Proofs.C01_EqRelArms Proofs.C01_EqRelBase
  Proofs.C01_EqSpSpec Proofs.C01_EqSpPath Proofs.C01_EqSpModel Proofs.C01_EqSp Proofs.C01_EqSpHost
  Proofs.C01_EqAbs Proofs.C01_EqSpBase Proofs.C01_EqSpBare Proofs.C01_Override.

(* ================= the base relation and the outcome relation ================= *)
(* a model record and a record of the Standard that may serve as a base: `related` (wf_b, same ten API
   strings, same text in front of fragment / query, same scheme, same cannot-be-a-base, spec_valid) and
   spec_base_ok (scheme lower-case, no '/' inside a path segment of the Standard's record) *)
Definition good_base (dbg : bool) (shs : spec_host -> list N) (b : url) (sb : spec_url) : Prop :=
  related dbg shs b sb /\ spec_base_ok sb = true.

Definition base_rel3 (dbg : bool) (shs : spec_host -> list N) (b : option url) (sb : option spec_url) : Prop :=
  match b, sb with
  | None, None => True
  | Some x, Some y => good_base dbg shs x y
  | _, _ => False
  end.

(* the Standard succeeds: its record meets spec_base_ok, and the model answers Overflow with the
   Standard's href beyond u32::MAX, or succeeds with a related record (so: a good_base pair again);
   the Standard fails: so does the model *)
Definition agree_good (dbg : bool) (shs : spec_host -> list N) (m : pres url) (s : parse_outcome) : Prop :=
  match s with
  | BDone su => spec_base_ok su = true
                /\ ((m = PErr Overflow /\ U32_MAX_P < nlen (get_href shs su))
                    \/ exists u, m = POk u /\ related dbg shs u su)
  | BFailure _ => exists e, m = PErr e
  | BOutOfFuel => False
  end.

Lemma agree_good_intro dbg shs m s : agree_rel_strict dbg shs m s ->
  (forall su, s = BDone su -> spec_base_ok su = true) -> agree_good dbg shs m s.
Proof.
  intros A H. unfold agree_rel_strict, agree_good in *. destruct s as [su|uf|]; [|exact A | exact A].
  split; [exact (H su eq_refl) | exact A].
Qed.

Lemma agree_good_rel_strict dbg shs m s : agree_good dbg shs m s -> agree_rel_strict dbg shs m s.
Proof. unfold agree_rel_strict, agree_good. destruct s as [su|uf|]; [intros [_ A]; exact A | exact (fun A => A) | exact (fun A => A)]. Qed.

Lemma agree_rel_strict_strict dbg shs m s : agree_rel_strict dbg shs m s -> agree_strict dbg shs m s.
Proof.
  unfold agree_rel_strict, agree_strict. destruct s as [su|uf|]; [|exact (fun A => A) | exact (fun A => A)].
  intros [K|(u & E & R)]; [left; exact K|]. right. exists u. split; [exact E | exact (rel_api _ _ _ _ R)].
Qed.

(* the successful result is a good base again *)
Lemma agree_good_chain dbg shs m su u : agree_good dbg shs m (BDone su) -> m = POk u -> good_base dbg shs u su.
Proof.
  intros [Hb [[E _]|(u' & E & R)]] Hm; rewrite Hm in E; [discriminate E|]. inversion E; subst u'. split; assumption.
Qed.

(* ================= class "no scheme, no base": failure on both sides ================= *)
Definition in_class_noscheme_nobase (input : list N) : bool :=
  match spec_scheme (spec_clean input) with None => true | Some _ => false end.

Theorem class_noscheme_nobase dbg hp hpo hd ovr shp input : in_class_noscheme_nobase input = true ->
  (exists u, spec_basic_url_parse shp input None = BFailure u)
  /\ parse_url dbg hp hpo hd ovr None input = PErr RelativeUrlWithoutBase.
Proof.
  intros Hc. unfold in_class_noscheme_nobase in Hc.
  assert (spec_scheme (spec_clean input) = None) as Hs by (destruct (spec_scheme (spec_clean input)); [discriminate | reflexivity]).
  split.
  - eexists. apply spec_parse_of_runs. apply runs_no_scheme; [exact Hs|]. apply R_fail.
    rewrite (step_unfold shp (spec_clean input) None _ [] (spec_clean input)) by reflexivity. reflexivity.
  - rewrite spec_clean_is_ntnl_trim in Hs. unfold parse_url.
    pose proof (scheme_state_eq (input_new_trim_c0 input)) as K. rewrite Hs in K.
    destruct (parse_scheme CUrlParser (input_new_trim_c0 input)) as [[s r]|]; [contradiction | reflexivity].
Qed.

(* ================= the classes ================= *)
Definition in_proved_nobase3 (input : list N) : bool :=
  in_class_opaque input || in_class_pathonly input || in_class_authority input || in_class_special input
  || in_class_noscheme_nobase input.

(* a reference with a scheme of its own that makes both sides ignore the base (Proofs/C01_EqAbs.v: not
   file, and non-special or different from the scheme of the base; Proofs/C01_EqSpBase.v: the special scheme
   of the base followed by two slashes / backslashes), and that is in a no-base class *)
Definition in_class_abs_base (sb : spec_url) (input : list N) : bool :=
  match spec_scheme (spec_clean input) with
  | Some (sch, R) => (base_ignored (Some sb) sch || same_two_sl sb sch R) && in_proved_nobase3 input
  | None => false
  end.

(* scheme-less references against a special non-file base with a host (Proofs/C01_EqSpBase.v) *)
Definition in_class_relative_s (sb : spec_url) (input : list N) : bool :=
  in_class_rel_abs_s sb input || in_class_rel_path_s sb input
  || (scheme_canon (su_scheme sb) && in_class_rel_authority_s sb input)
  || in_class_same_abs_s sb input || in_class_same_path_s sb input || in_class_same_bare sb input.

Definition in_proved_class3 (sbase : option spec_url) (input : list N) : bool :=
  match sbase with
  | None => in_proved_nobase3 input
  | Some sb => in_class_fragment_only input || in_class_query_only sb input || in_class_opaque_base_fail sb input
               || in_class_empty_ref sb input || in_class_relative sb input || in_class_abs_base sb input
               || in_class_relative_s sb input
  end.

Lemma in_proved_class3_of2 sbase input : in_proved_class2 sbase input = true -> in_proved_class3 sbase input = true.
Proof.
  unfold in_proved_class2, in_proved_class3, in_proved_nobase3, in_proved_class. destruct sbase as [sb|].
  - rewrite orb_false_r. intros ->. reflexivity.
  - intros H. apply orb_true_iff in H. destruct H as [H|H]; [rewrite H; reflexivity | rewrite H; rewrite ?orb_true_r; reflexivity].
Qed.

(* the string a host parser is applied to in the class of the input, with the isOpaque flag the
   Standard's host parser gets there; None: the class never calls a host function *)
Definition nobase_host_query (input : list N) : option (bool * list N) :=
  if in_class_authority input then Some (true, class_host_text input)
  else if in_class_special input then Some (false, class_host_text_s input)
  else None.

Definition class_host_query (sbase : option spec_url) (input : list N) : option (bool * list N) :=
  match sbase with
  | None => nobase_host_query input
  | Some sb => if in_class_rel_authority sb input then Some (true, rel_host_text input)
               else if in_class_abs_base sb input then nobase_host_query input
               else if in_class_rel_authority_s sb input then Some (false, rel_host_text_s input)
               else None
  end.

(* the one host hypothesis: on that string the model's host function of that kind (Host::parse_opaque for
   isOpaque = true, Host::parse for false) and the Standard's host parser agree *)
Definition host_hyp3 (hp hpo : list N -> result host) (hd : host -> list N)
           (shp : bool -> list N -> option spec_host) (shs : spec_host -> list N)
           (sbase : option spec_url) (input : list N) : Prop :=
  match class_host_query sbase input with
  | Some (true, s) => host_agree hpo hd shp shs s
  | Some (false, s) => host_agree_sp hp hd shp shs s
  | None => True
  end.

(* ================= the six host-free classes: related results, strict Overflow clause ================= *)
Section Old.
Variable dbg : bool.
Variable hp hpo : list N -> result host.
Variable hd : host -> list N.
Variable shp : bool -> list N -> option spec_host.
Variable shs : spec_host -> list N.

Lemma agree_rel_to_strict m s :
  agree_rel dbg shs m s -> (forall su, m = PErr Overflow -> s = BDone su -> U32_MAX_P < nlen (get_href shs su)) ->
  agree_rel_strict dbg shs m s.
Proof.
  intros (su & -> & K) B. cbn [agree_rel_strict]. destruct K as [E|K]; [left; split; [exact E | exact (B su E eq_refl)] | right; exact K].
Qed.

Theorem old_classes_rel_strict input base sbase :
  usv_list input -> base_rel dbg shs base sbase -> in_proved_class sbase input = true ->
  agree_rel_strict dbg shs (parse_url dbg hp hpo hd None base input) (spec_basic_url_parse shp input sbase).
Proof.
  intros Hu Hb Hc.
  pose proof (fun su => class_overflow_bound dbg hp hpo hd shp shs input base sbase su Hu Hb Hc) as B.
  destruct base as [b|]; destruct sbase as [sb|]; cbn [base_rel] in Hb; try contradiction.
  - cbn [in_proved_class] in Hc. apply orb_true_iff in Hc. destruct Hc as [Hc|Hc];
      [apply orb_true_iff in Hc; destruct Hc as [Hc|Hc]; [apply orb_true_iff in Hc; destruct Hc as [Hc|Hc]|]|].
    + apply agree_rel_to_strict; [apply class_fragment_only; assumption | exact B].
    + apply agree_rel_to_strict; [apply class_query_only; assumption | exact B].
    + destruct (class_opaque_base_fail dbg hp hpo hd shp shs input b sb Hb Hc) as [[u ->] ->].
      cbn [agree_rel_strict]. eexists. reflexivity.
    + apply agree_rel_to_strict; [apply class_empty_ref; assumption | exact B].
  - cbn [in_proved_class] in Hc. apply orb_true_iff in Hc. destruct Hc as [Hc|Hc].
    + apply agree_rel_to_strict; [apply class_opaque_related; assumption | exact B].
    + apply agree_rel_to_strict; [apply class_pathonly; assumption | exact B].
Qed.

(* the Standard's record of these classes meets spec_base_ok when the base did *)
Theorem old_classes_result_ok input sbase su :
  usv_list input ->
  match sbase with Some sb => spec_valid sb /\ spec_base_ok sb = true | None => True end ->
  in_proved_class sbase input = true ->
  spec_basic_url_parse shp input sbase = BDone su -> spec_base_ok su = true.
Proof.
  intros Hu Hb Hc HS. destruct sbase as [sb|].
  - destruct Hb as [V Hok].
    cbn [in_proved_class] in Hc. apply orb_true_iff in Hc. destruct Hc as [Hc|Hc];
      [apply orb_true_iff in Hc; destruct Hc as [Hc|Hc]; [apply orb_true_iff in Hc; destruct Hc as [Hc|Hc]|]|].
    + unfold in_class_fragment_only in Hc.
      destruct (spec_clean input) as [|c f] eqn:Ec; [discriminate|]. cbn [starts_with_cp] in Hc.
      apply N.eqb_eq in Hc. subst c.
      rewrite (spec_fragment_only shp input sb f Ec V) in HS. inversion HS. rewrite base_ok_set_fragment. exact Hok.
    + unfold in_class_query_only in Hc. apply andb_true_iff in Hc. destruct Hc as [H1 H2].
      destruct (spec_clean input) as [|c q] eqn:Ec; [discriminate|]. cbn [starts_with_cp] in H2.
      apply N.eqb_eq in H2. subst c.
      assert (has_opaque_path sb = false) as Hop by (destruct (has_opaque_path sb); [discriminate | reflexivity]).
      rewrite (spec_query_only shp input sb q Ec V Hop) in HS. inversion HS. unfold ref_result.
      rewrite base_ok_set_fragment, base_ok_set_query. exact Hok.
    + exfalso. unfold in_class_opaque_base_fail in Hc.
      apply andb_true_iff in Hc. destruct Hc as [Hc H3]. apply andb_true_iff in Hc. destruct Hc as [H1 H2].
      assert (spec_scheme (spec_clean input) = None) as Hs by (destruct (spec_scheme (spec_clean input)); [discriminate | reflexivity]).
      apply negb_true_iff in H3.
      destruct (spec_opaque_base_fails shp input sb Hs H3 H1) as [uf K]. rewrite K in HS. discriminate HS.
    + unfold in_class_empty_ref in Hc. apply andb_true_iff in Hc. destruct Hc as [H1 H2].
      assert (has_opaque_path sb = false) as Hop by (destruct (has_opaque_path sb); [discriminate | reflexivity]).
      destruct (spec_clean input) eqn:Ec; [|discriminate].
      rewrite (spec_empty_ref dbg hp hpo shp input sb Ec V Hop) in HS. inversion HS. rewrite base_ok_set_fragment. exact Hok.
  - cbn [in_proved_class] in Hc. apply orb_true_iff in Hc. destruct Hc as [Hc|Hc].
    + unfold in_class_opaque in Hc. rewrite spec_clean_is_ntnl_trim in Hc.
      destruct (spec_scheme (ntnl (input_new_trim_c0 input))) as [[sch rest]|] eqn:Es; [|discriminate].
      apply andb_true_iff in Hc. destruct Hc as [H1 H2].
      destruct (spec_scheme_model _ _ _ Es) as (rem & Hs & <-).
      assert (is_special_scheme sch = false) as Hns by (destruct (is_special_scheme sch); [discriminate | reflexivity]).
      assert (starts_with_cp 47 (ntnl rem) = false) as H47 by (destruct (starts_with_cp 47 (ntnl rem)); [discriminate | reflexivity]).
      rewrite (spec_opaque shp input sch rem Hs (not_special_type sch Hns) (split_of_starts_with_cp rem H47)) in HS.
      inversion HS. unfold spec_base_ok, spec_opaque_url, Whatwg.path_segments. cbn [su_scheme su_path forallb].
      rewrite (parse_scheme_out _ _ _ Hs). reflexivity.
    + exact (pathonly_result_ok shp input su Hu Hc HS).
Qed.

End Old.

(* ================= special schemes: the Standard's record meets spec_base_ok ================= *)
Lemma sauth_tail_s_ok u X : scheme_canon (su_scheme u) = true -> spec_base_ok (sauth_tail_s u X) = true.
Proof.
  intros Hc. unfold sauth_tail_s. rewrite (base_ok_same _ _ (tail_url_same _ _)).
  unfold spec_base_ok, Whatwg.path_segments. cbn [su_scheme su_path set_path]. rewrite Hc.
  rewrite (spath_s_no_slash (path_text_s X) [] [] eq_refl eq_refl). reflexivity.
Qed.

Lemma sauth_port_g_ok u buf PR su : scheme_canon (su_scheme u) = true ->
  sauth_port_g u buf PR = Some su -> spec_base_ok su = true.
Proof.
  intros Hc. unfold sauth_port_g. cbv zeta.
  destruct (negb (starts_aes (after_digits PR))); [discriminate|].
  destruct (is_nil (buf ++ digits_of PR)).
  - intros H. inversion H. apply sauth_tail_s_ok. exact Hc.
  - destruct (65535 <? decimal_value (buf ++ digits_of PR)); [discriminate|].
    intros H. inversion H. apply sauth_tail_s_ok. exact Hc.
Qed.

Lemma sauth_host_g_ok shp u buf br t su : scheme_canon (su_scheme u) = true ->
  sauth_host_g shp u buf br t = Some su -> spec_base_ok su = true.
Proof.
  intros Hc. unfold sauth_host_g. cbv zeta.
  destruct (is_nil (buf ++ hss_host br t)); [discriminate|].
  destruct (host_parsing shp false (buf ++ hss_host br t)) as [sh|]; [|discriminate].
  destruct (port_split (hss_rest br t)) as [PR|].
  - apply sauth_port_g_ok. exact Hc.
  - intros H. inversion H. apply sauth_tail_s_ok. exact Hc.
Qed.

Theorem sauth_s_base_ok shp sch T su : scheme_canon sch = true -> sauth_s shp sch T = Some su -> spec_base_ok su = true.
Proof.
  intros Hc. unfold sauth_s. apply sauth_host_g_ok.
  destruct (fst (after_at_s T)) as [w|]; cbn [cred_of]; [rewrite ac_scheme|]; exact Hc.
Qed.

Theorem special_result_ok shp input su : in_class_special input = true ->
  spec_basic_url_parse shp input None = BDone su -> spec_base_ok su = true.
Proof.
  intros Hc HS. unfold in_class_special in Hc.
  destruct (spec_scheme (spec_clean input)) as [[sch R]|] eqn:Es; [|discriminate].
  apply andb_true_iff in Hc. destruct Hc as [Hc _]. apply andb_true_iff in Hc. destruct Hc as [Hspe Hnf].
  apply negb_true_iff in Hnf.
  pose proof (spec_special shp input sch R Es Hspe Hnf) as K.
  destruct (sauth_s shp sch (drop_sl R)) as [su'|] eqn:Esa.
  - rewrite K in HS. inversion HS; subst su'. exact (sauth_s_base_ok shp sch _ su (spec_scheme_canon input sch R Es) Esa).
  - destruct K as [uf K]. rewrite K in HS. discriminate HS.
Qed.

(* ================= the assembled theorem ================= *)
Section Asm.
Variable dbg : bool.
Variable hp hpo : list N -> result host.
Variable hd : host -> list N.
Variable shp : bool -> list N -> option spec_host.
Variable shs : spec_host -> list N.

Definition nobase_host_hyp (input : list N) : Prop :=
  match nobase_host_query input with
  | Some (true, s) => host_agree hpo hd shp shs s
  | Some (false, s) => host_agree_sp hp hd shp shs s
  | None => True
  end.

Theorem partial_nobase_good3 ovr input :
  usv_list input -> ovr = None \/ ovr = Some utf8_encode -> in_proved_nobase3 input = true -> nobase_host_hyp input ->
  agree_good dbg shs (parse_url dbg hp hpo hd ovr None input) (spec_basic_url_parse shp input None).
Proof.
  intros Hu Hovr Hc HH.
  assert (parse_url dbg hp hpo hd ovr None input = parse_url dbg hp hpo hd None None input) as ->
    by (destruct Hovr as [-> | ->]; [reflexivity | apply parse_url_utf8_override]).
  unfold in_proved_nobase3 in Hc.
  destruct (in_proved_class None input) eqn:E1.
  - apply agree_good_intro.
    + apply old_classes_rel_strict; [exact Hu | exact I | exact E1].
    + intros su HS. exact (old_classes_result_ok dbg hp hpo shp input None su Hu I E1 HS).
  - cbn [in_proved_class] in E1. rewrite E1 in Hc. cbn [orb] in Hc.
    unfold nobase_host_hyp, nobase_host_query in HH.
    destruct (in_class_authority input) eqn:Ea.
    + apply agree_good_intro.
      * exact (class_authority dbg hp hpo hd None shp shs input Hu Ea HH).
      * intros su HS. exact (authority_result_ok shp input su Ea HS).
    + cbn [orb] in Hc. destruct (in_class_special input) eqn:Es.
      * apply agree_good_intro.
        -- exact (class_special dbg hp hpo hd shp shs input Hu Es HH).
        -- intros su HS. exact (special_result_ok shp input su Es HS).
      * cbn [orb] in Hc.
        destruct (class_noscheme_nobase dbg hp hpo hd None shp input Hc) as [[uf ->] ->].
        cbn [agree_good]. eexists. reflexivity.
Qed.

Lemma agree_good_outcome_eq m s1 s2 : outcome_eq s2 s1 -> agree_good dbg shs m s1 -> agree_good dbg shs m s2.
Proof.
  unfold outcome_eq, agree_good. destruct s2 as [a|ua|]; destruct s1 as [b|ub|]; try contradiction.
  - intros ->. exact (fun H => H).
  - intros _ H. exact H.
Qed.

Theorem partial_equivalence_good3 input base sbase :
  usv_list input -> base_rel3 dbg shs base sbase -> in_proved_class3 sbase input = true ->
  host_hyp3 hp hpo hd shp shs sbase input ->
  agree_good dbg shs (parse_url dbg hp hpo hd None base input) (spec_basic_url_parse shp input sbase).
Proof.
  intros Hu Hb Hc HH.
  destruct base as [b|]; destruct sbase as [sb|]; cbn [base_rel3] in Hb; try contradiction.
  - (* a base *)
    destruct Hb as [R Hok].
    destruct (in_proved_class (Some sb) input) eqn:E1.
    + apply agree_good_intro.
      * apply old_classes_rel_strict; [exact Hu | exact R | exact E1].
      * intros su HS. apply (old_classes_result_ok dbg hp hpo shp input (Some sb) su Hu); [split; [exact (rel_valid _ _ _ _ R) | exact Hok] | exact E1 | exact HS].
    + cbn [in_proved_class3] in Hc. cbn [in_proved_class] in E1. rewrite E1 in Hc. cbn [orb] in Hc.
      clear E1. pose proof Hok as Hok0. apply andb_true_iff in Hok0. destruct Hok0 as [Hcan _].
      destruct (in_class_relative sb input) eqn:Hrel.
      * clear Hc. unfold in_class_relative in Hrel. apply orb_true_iff in Hrel.
        destruct Hrel as [Hrel|Hrel]; [apply orb_true_iff in Hrel; destruct Hrel as [Hrel|Hrel]|].
        -- destruct (class_rel_abs dbg hp hpo hd None shp shs input b sb Hu R Hcan Hrel) as (su & -> & Hbo & A).
           split; [exact Hbo | exact A].
        -- destruct (class_rel_path dbg hp hpo hd None shp shs input b sb Hu R Hok Hrel) as (su & -> & Hbo & A).
           split; [exact Hbo | exact A].
        -- unfold host_hyp3, class_host_query in HH. rewrite Hrel in HH.
           apply agree_good_intro.
           ++ exact (class_rel_authority dbg hp hpo hd None shp shs input b sb Hu R Hcan Hrel HH).
           ++ intros su HS. exact (rel_authority_result_ok shp input sb su Hcan Hrel HS).
      * cbn [orb] in Hc.
        assert (in_class_rel_authority sb input = false) as Era.
        { unfold in_class_relative in Hrel. apply orb_false_iff in Hrel. tauto. }
        destruct (in_class_abs_base sb input) eqn:Habs.
        -- (* the reference has a scheme of its own and the base is ignored *)
           unfold host_hyp3, class_host_query in HH. rewrite Era, Habs in HH.
           unfold in_class_abs_base in Habs.
           destruct (spec_scheme (spec_clean input)) as [[sch R0]|] eqn:Es; [|discriminate Habs].
           apply andb_true_iff in Habs. destruct Habs as [Hbi Hnb].
           pose proof (partial_nobase_good3 None input Hu (or_introl eq_refl) Hnb HH) as A0.
           apply orb_true_iff in Hbi. destruct Hbi as [Hbi|Hbi].
           ++ rewrite (model_base_ignored dbg hp hpo hd None b sb shs input sch R0 R Es Hbi).
              exact (agree_good_outcome_eq _ _ _ (spec_base_ignored shp (Some sb) input sch R0 Es Hbi) A0).
           ++ pose proof Hbi as Hbi0. unfold same_two_sl in Hbi0.
              apply andb_true_iff in Hbi0. destruct Hbi0 as [Hbi0 H2sl]. apply andb_true_iff in Hbi0. destruct Hbi0 as [Hbi0 Hnf0].
              apply andb_true_iff in Hbi0. destruct Hbi0 as [_ Hsp0]. apply negb_true_iff in Hnf0.
              rewrite (model_same_two_sl dbg hp hpo hd None b input sch R0 Es Hsp0 Hnf0 H2sl).
              exact (agree_good_outcome_eq _ _ _ (spec_same_two_sl shp sb input sch R0 Es Hbi) A0).
        -- (* special base *)
           cbn [orb] in Hc. unfold in_class_relative_s in Hc. apply orb_true_iff in Hc.
           destruct Hc as [Hc|Hc];
             [apply orb_true_iff in Hc; destruct Hc as [Hc|Hc];
              [apply orb_true_iff in Hc; destruct Hc as [Hc|Hc];
               [apply orb_true_iff in Hc; destruct Hc as [Hc|Hc]; [apply orb_true_iff in Hc; destruct Hc as [Hc|Hc]|]|]|]|].
           ++ destruct (class_rel_abs_s dbg hp hpo hd shp shs input b sb Hu R Hcan Hc) as (su & -> & Hbo & A).
              split; [exact Hbo | exact A].
           ++ destruct (class_rel_path_s dbg hp hpo hd shp shs input b sb Hu R Hok Hc) as (su & -> & Hbo & A).
              split; [exact Hbo | exact A].
           ++ apply andb_true_iff in Hc. destruct Hc as [_ Hc].
              unfold host_hyp3, class_host_query in HH. rewrite Era, Habs, Hc in HH.
              apply agree_good_intro.
              ** exact (class_rel_authority_s dbg hp hpo hd shp shs input b sb Hu R Hcan Hc HH).
              ** intros su HS. exact (rel_authority_s_result_ok shp input sb su Hcan Hc HS).
           ++ destruct (class_same_abs_s dbg hp hpo hd shp shs input b sb Hu R Hcan Hc) as (su & -> & Hbo & A).
              split; [exact Hbo | exact A].
           ++ destruct (class_same_path_s dbg hp hpo hd shp shs input b sb Hu R Hok Hc) as (su & -> & Hbo & A).
              split; [exact Hbo | exact A].
           ++ destruct (class_same_bare dbg hp hpo hd shp shs input b sb Hu R Hc) as (R0 & -> & A).
              split; [rewrite bare_result_base_ok; exact Hok | exact A].
  - (* no base *)
    exact (partial_nobase_good3 None input Hu (or_introl eq_refl) Hc HH).
Qed.

Theorem partial_equivalence_strict3 input base sbase :
  usv_list input -> base_rel3 dbg shs base sbase -> in_proved_class3 sbase input = true ->
  host_hyp3 hp hpo hd shp shs sbase input ->
  agree_strict dbg shs (parse_url dbg hp hpo hd None base input) (spec_basic_url_parse shp input sbase).
Proof.
  intros Hu Hb Hc HH. apply agree_rel_strict_strict, agree_good_rel_strict. apply partial_equivalence_good3; assumption.
Qed.

Theorem partial_equivalence3 input base sbase :
  usv_list input -> base_rel3 dbg shs base sbase -> in_proved_class3 sbase input = true ->
  host_hyp3 hp hpo hd shp shs sbase input ->
  agree dbg shs (parse_url dbg hp hpo hd None base input) (spec_basic_url_parse shp input sbase).
Proof. intros Hu Hb Hc HH. apply agree_strict_agree. apply partial_equivalence_strict3; assumption. Qed.

(* the same with a UTF-8 encoding override *)
Theorem partial_equivalence_good3_utf8 input base sbase :
  usv_list input -> base_rel3 dbg shs base sbase -> in_proved_class3 sbase input = true ->
  host_hyp3 hp hpo hd shp shs sbase input ->
  agree_good dbg shs (parse_url dbg hp hpo hd (Some utf8_encode) base input) (spec_basic_url_parse shp input sbase).
Proof. intros Hu Hb Hc HH. rewrite parse_url_utf8_override. apply partial_equivalence_good3; assumption. Qed.

End Asm.

(* ================= the host texts are pieces of the input ================= *)
Lemma hs_host_in br t x : In x (hs_host br t) -> In x t.
Proof.
  revert br. induction t as [|c r IH]; intros br H; [exact H|]. cbn [hs_host] in H.
  destruct (hs_stop br c); [destruct H|]. destruct H as [H|H]; [left; exact H | right; exact (IH _ H)].
Qed.

Lemma hss_host_in br t x : In x (hss_host br t) -> In x t.
Proof.
  revert br. induction t as [|c r IH]; intros br H; [exact H|]. cbn [hss_host] in H.
  destruct (hss_stop br c); [destruct H|]. destruct H as [H|H]; [left; exact H | right; exact (IH _ H)].
Qed.

Lemma after_at_in T x : In x (snd (after_at T)) -> In x T.
Proof.
  unfold after_at. destruct (last_at (a_part T)) as [[w h]|] eqn:E; cbn [snd]; [|exact (fun H => H)].
  intros H. rewrite <- (a_part_rest T). rewrite (last_at_split _ _ _ E).
  apply in_app_or in H. apply in_or_app. destruct H as [H|H]; [left | right; exact H].
  apply in_or_app. right. right. exact H.
Qed.

Lemma after_at_s_in T x : In x (snd (after_at_s T)) -> In x T.
Proof.
  unfold after_at_s. destruct (last_at (as_part T)) as [[w h]|] eqn:E; cbn [snd]; [|exact (fun H => H)].
  intros H. rewrite <- (as_part_rest T). rewrite (last_at_split _ _ _ E).
  apply in_app_or in H. apply in_or_app. destruct H as [H|H]; [left | right; exact H].
  apply in_or_app. right. right. exact H.
Qed.

Lemma drop_sl_in t x : In x (drop_sl t) -> In x t.
Proof. intros H. rewrite <- (take_drop_sl t). apply in_or_app. right. exact H. Qed.

Lemma scheme_scan_suffix t : forall buf sch R, scheme_scan buf t = Some (sch, R) -> exists pre, t = pre ++ R.
Proof.
  induction t as [|c r IH]; intros buf sch R H; [discriminate H|]. cbn [scheme_scan] in H.
  destruct (is_scheme_cp c).
  - destruct (IH _ _ _ H) as [pre E]. exists (c :: pre). rewrite E at 1. reflexivity.
  - destruct (c =? 58); [|discriminate H]. inversion H; subst. exists [c]. reflexivity.
Qed.

Lemma spec_scheme_suffix t sch R : spec_scheme t = Some (sch, R) -> exists pre, t = pre ++ R.
Proof.
  unfold spec_scheme. destruct t as [|c r]; [discriminate|]. destruct (is_alpha c); [|discriminate].
  apply scheme_scan_suffix.
Qed.

Lemma usv_spec_clean input : usv_list input -> usv_list (spec_clean input).
Proof.
  intros Hu. rewrite spec_clean_is_ntnl_trim. unfold ntnl, usv_list.
  apply Forall_forall. intros x Hx. apply filter_In in Hx. destruct Hx as [Hx _].
  pose proof (usv_trim input Hu) as Ht. unfold usv_list in Ht. rewrite Forall_forall in Ht. exact (Ht x Hx).
Qed.

Lemma usv_of_in (a b : list N) : (forall x, In x a -> In x b) -> usv_list b -> usv_list a.
Proof. unfold usv_list. intros H Hb. rewrite Forall_forall in *. intros x Hx. exact (Hb x (H x Hx)). Qed.

Lemma nobase_host_query_usv input o s : usv_list input ->
  nobase_host_query input = Some (o, s) -> usv_list s.
Proof.
  intros Hu H. pose proof (usv_spec_clean input Hu) as Hc. unfold nobase_host_query in H.
  destruct (in_class_authority input).
  - inversion H; subst o s. unfold class_host_text.
    destruct (spec_scheme (spec_clean input)) as [[sch R]|] eqn:Es; [|constructor].
    destruct (spec_scheme_suffix _ _ _ Es) as [pre E]. rewrite E in Hc. apply usv_app in Hc. destruct Hc as [_ Hc].
    destruct R as [|c1 [|c2 T]]; try constructor.
    apply (usv_of_in _ T); [|apply usv_cons in Hc; destruct Hc as [_ Hc]; apply usv_cons in Hc; tauto].
    intros x Hx. unfold auth_host_text in Hx. exact (after_at_in T x (hs_host_in _ _ x Hx)).
  - destruct (in_class_special input); [|discriminate H]. inversion H; subst o s. unfold class_host_text_s.
    destruct (spec_scheme (spec_clean input)) as [[sch R]|] eqn:Es; [|constructor].
    destruct (spec_scheme_suffix _ _ _ Es) as [pre E]. rewrite E in Hc. apply usv_app in Hc. destruct Hc as [_ Hc].
    apply (usv_of_in _ R); [|exact Hc].
    intros x Hx. unfold sp_host_text in Hx. exact (drop_sl_in R x (after_at_s_in _ x (hss_host_in _ _ x Hx))).
Qed.

Lemma class_host_query_usv sbase input o s : usv_list input ->
  class_host_query sbase input = Some (o, s) -> usv_list s.
Proof.
  intros Hu H. unfold class_host_query in H.
  destruct sbase as [sb|]; [|exact (nobase_host_query_usv input o s Hu H)].
  destruct (in_class_rel_authority sb input).
  - pose proof (usv_spec_clean input Hu) as Hc. inversion H; subst o s.
    unfold rel_host_text. destruct (spec_clean input) as [|c1 [|c2 T]]; try constructor.
    apply (usv_of_in _ T); [|apply usv_cons in Hc; destruct Hc as [_ Hc]; apply usv_cons in Hc; tauto].
    intros x Hx. unfold auth_host_text in Hx. exact (after_at_in T x (hs_host_in _ _ x Hx)).
  - destruct (in_class_abs_base sb input); [exact (nobase_host_query_usv input o s Hu H)|].
    destruct (in_class_rel_authority_s sb input); [|discriminate H].
    pose proof (usv_spec_clean input Hu) as Hc. inversion H; subst o s.
    unfold rel_host_text_s. destruct (spec_clean input) as [|c1 [|c2 T]]; try constructor.
    apply (usv_of_in _ T); [|apply usv_cons in Hc; destruct Hc as [_ Hc]; apply usv_cons in Hc; tauto].
    intros x Hx. unfold sp_host_text in Hx. exact (drop_sl_in T x (after_at_s_in _ x (hss_host_in _ _ x Hx))).
Qed.

(* ================= the host hypothesis for the host model and the Standard's host parser ================= *)
(* Host::parse / Host::parse_opaque / Display of Model/Host.v against spec_host_parser / spec_host_serializer
   of Spec/WhatwgHostParse.v, the same domain-to-ASCII oracle on both sides: host_hyp3 holds on every
   scalar-value input as soon as the oracle's outputs are ASCII outside the deny list (first clause of
   IdnaOK) *)
Theorem host_hyp3_model idna : (forall bs d, idna bs = Some d -> Forall dom_char_ok d) ->
  forall sbase input, usv_list input ->
  host_hyp3 (host_parse idna) host_parse_opaque host_display (spec_host_parser idna) spec_host_serializer sbase input.
Proof.
  intros Hout sbase input Hu. unfold host_hyp3.
  destruct (class_host_query sbase input) as [[o s]|] eqn:E; [|exact I].
  pose proof (class_host_query_usv sbase input o s Hu E) as Hs.
  destruct o; [exact (host_agree_real_all idna s Hs) | exact (host_agree_special idna Hout s Hs)].
Qed.

(* C01_statement restricted to in_proved_class3 for the parser model with the host model plugged in,
   against the Standard's parser with the Standard's host parser: relative to IdnaOK idna only *)
Theorem partial_model dbg idna : IdnaOK idna -> forall input base sbase,
  usv_list input -> base_rel3 dbg spec_host_serializer base sbase -> in_proved_class3 sbase input = true ->
  agree_good dbg spec_host_serializer
    (parse_url dbg (host_parse idna) host_parse_opaque host_display None base input)
    (spec_basic_url_parse (spec_host_parser idna) input sbase).
Proof.
  intros HI input base sbase Hu Hb Hc. apply partial_equivalence_good3; [exact Hu | exact Hb | exact Hc|].
  apply host_hyp3_model; [exact (idna_out idna HI) | exact Hu].
Qed.

Theorem partial_model_utf8 dbg idna : IdnaOK idna -> forall input base sbase,
  usv_list input -> base_rel3 dbg spec_host_serializer base sbase -> in_proved_class3 sbase input = true ->
  agree_good dbg spec_host_serializer
    (parse_url dbg (host_parse idna) host_parse_opaque host_display (Some utf8_encode) base input)
    (spec_basic_url_parse (spec_host_parser idna) input sbase).
Proof. intros HI input base sbase Hu Hb Hc. rewrite parse_url_utf8_override. apply partial_model; assumption. Qed.

(* IdnaOK is satisfiable (for the non-vacuity examples): the identity on ASCII strings without denied
   characters *)
Definition ex_clean_char (c : N) : bool := (c <? 128) && negb (memb c T_HOST_IDNA_DENIED).
Definition ex_idna_clean (bs : list N) : option (list N) := if forallb ex_clean_char bs then Some bs else None.

Lemma ex_digit_dot_clean_sweep : all_below 128 (fun c => negb (is_digit c || (c =? 46)) || ex_clean_char c) = true.
Proof. vm_compute. reflexivity. Qed.

Example ex_idna_clean_ok : IdnaOK ex_idna_clean.
Proof.
  constructor.
  - intros bs d H. unfold ex_idna_clean in H. destruct (forallb ex_clean_char bs) eqn:E; inversion H; subst.
    apply Forall_forall. intros c Hc. rewrite forallb_forall in E. apply E in Hc.
    unfold ex_clean_char in Hc. unfold dom_char_ok. apply andb_true_iff in Hc. destruct Hc as [H1 H2].
    split; [lia|]. destruct (memb c T_HOST_IDNA_DENIED); [discriminate|reflexivity].
  - intros bs d H. unfold ex_idna_clean in *. destruct (forallb ex_clean_char bs) eqn:E; inversion H; subst. now rewrite E.
  - intros a Ha. unfold ex_idna_clean. destruct (ipv4_display_digits a Ha) as (Hd & _).
    replace (forallb ex_clean_char (ipv4_display a)) with true; [reflexivity|]. symmetry.
    apply forallb_forall. intros c Hc. rewrite Forall_forall in Hd. specialize (Hd c Hc).
    assert (c < 128) as L by (destruct Hd as [Hd| ->]; [unfold is_digit in Hd|]; lia).
    pose proof (all_below_spec 128 _ ex_digit_dot_clean_sweep c L) as S. cbv beta in S.
    destruct Hd as [Hd| ->]; [rewrite Hd in S; exact S|exact S].
Qed.
