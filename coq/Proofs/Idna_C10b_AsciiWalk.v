(* Proofs/Idna_C10b_AsciiWalk.v - the first output walk of to_ascii when every already_punycode entry is
   MixedCaseAscii (the adapter-free class of Proofs/Idna_C10b_AsciiInner.v): what is written, or the input when the
   walk returns Passthrough, is the ASCII lower-casing of the name.  Then: to_ascii on the class in closed form,
   idempotence and ASCII case-insensitivity on the class - every adapter, every option combination. *)
From RU Require Import Base.Prelude Base.Utf8 Base.U32_c13 Gen.Tables Model.Punycode Model.Uts46
  Proofs.Idna_Sim Proofs.Idna_Api Proofs.Idna_Known Proofs.Idna_Hyp Proofs.Idna_Redisc
  Proofs.Idna_C10_Deny Proofs.Idna_C10_Prefix Proofs.Idna_C10_Inner Proofs.Idna_C10_Walk Proofs.Idna_Tables
  Proofs.Idna_C10b_AsciiInner.

Lemma concat_chars l : concat (chars l) = l.
Proof. unfold chars. induction l as [|c r IH]; cbn [map concat app]; [reflexivity|]. rewrite IH. reflexivity. Qed.

Lemma lower_noupper l : Forall (fun b => is_upper b = false) l -> map to_lower l = l.
Proof. induction 1 as [|x r Hx _ IH]; cbn [map]; [reflexivity|]. unfold to_lower at 1. rewrite Hx, IH. reflexivity. Qed.

Lemma nth_len_app (P R : list N) x dflt : nth (N.to_nat (len P)) (P ++ x :: R) dflt = x.
Proof. unfold len. rewrite Nat2N.id. rewrite app_nth2 by lia. rewrite Nat.sub_diag. reflexivity. Qed.

Lemma tailtext_nil_inv rl : tailtext true rl = [] -> rl = [].
Proof. destruct rl; cbn [tailtext]; [reflexivity|discriminate]. Qed.

Lemma walk1_cons_mixed cfg ff p d tld bidi he label labels m aps seen pte flushed huo :
  walk1 cfg ff p d tld bidi he (label :: labels) (MixedCaseAscii m :: aps) seen pte flushed huo =
  let body := fun pte0 => mixed_write cfg d m he true 830 844 pte0 flushed
                            (fun pte1 fl => walk1 cfg ff p d tld bidi he labels aps true pte1 fl huo) in
  if seen then
    if flushed then wcons [DOT] (body pte)
    else if cfg && negb (nth (N.to_nat pte) d 256 =? DOT) then ([], WPanic 810)
    else if pte + 1 =? len d then (if cfg && he then ([], WPanic 813) else ([], WPass))
    else body (pte + 1)
  else body pte.
Proof. reflexivity. Qed.

(* the walk in either mode and under any display policy: a MixedCaseAscii entry is written from the input bytes *)
Section WalkAN.
Variable cfg : bool.
Variable ff : bool.
Variable pol : list N -> list N -> bool -> bool.
Variable d : list N.
Variable tld : list N.
Variable bidi : bool.

Definition Ended (w : wres) (T : list N) : Prop := (exists h, snd w = WEnd h) /\ concat (fst w) = T.
Definition Res (w : wres) (T : list N) : Prop := (snd w = WPass /\ d = T) \/ Ended w T.

Lemma Ended_wcons x w T : Ended w T -> Ended (wcons x w) (x ++ T).
Proof. intros [H1 H2]. split; cbn [wcons fst snd concat]; [exact H1|rewrite H2; reflexivity]. Qed.
Lemma Ended_wapp_chars l w T : Ended w T -> Ended (wapp (chars l) w) (l ++ T).
Proof. intros [H1 H2]. split; cbn [wapp fst snd]; [exact H1|rewrite concat_app, concat_chars, H2; reflexivity]. Qed.

(* the MixedCaseAscii output block *)
Lemma mixed_an m sn sp pte flushed (k : N -> bool -> wres) T P R :
  (forall p, Ended (k p true) T) ->
  (flushed = false -> d = P ++ m ++ R /\ len P = pte /\ (R = [] -> T = []) /\
     (R <> [] -> Forall (fun b => is_upper b = false) m -> Res (k (pte + len m) false) (P ++ m ++ T))) ->
  (flushed = true -> Ended (mixed_write cfg d m false true sn sp pte flushed k) (map to_lower m ++ T)) /\
  (flushed = false -> Res (mixed_write cfg d m false true sn sp pte flushed k) (P ++ map to_lower m ++ T)).
Proof.
  intros Hk Hpos. unfold mixed_write.
  destruct (position is_upper m) as [fu|] eqn:Ep.
  - pose proof (position_some _ _ _ Ep) as Hnu. pose proof (position_lt _ _ _ Ep) as Hlt.
    assert (Hlow : map to_lower m = firstn fu m ++ map to_lower (skipn fu m)).
    { rewrite <- (firstn_skipn fu m) at 1. rewrite map_app, (lower_noupper _ Hnu). reflexivity. }
    split; intros Hf; subst flushed.
    + rewrite Hlow, <- app_assoc. apply Ended_wcons, Ended_wapp_chars, Hk.
    + destruct (Hpos eq_refl) as (Hdd & HP & _ & _).
      assert (Hlh : len (firstn fu m) = N.of_nat fu) by (unfold len; rewrite firstn_length_le by lia; reflexivity).
      replace (cfg && (pte + len (firstn fu m) =? len d)) with false.
      2:{ symmetry. apply andb_false_iff. right. apply N.eqb_neq. rewrite Hdd, !len_app, Hlh, HP. unfold len. lia. }
      right. rewrite Hlow, <- app_assoc, app_assoc.
      replace (firstn (N.to_nat (pte + len (firstn fu m))) d) with (P ++ firstn fu m).
      { apply Ended_wcons, Ended_wapp_chars, Hk. }
      assert (Hd2 : d = (P ++ firstn fu m) ++ (skipn fu m ++ R)).
      { rewrite Hdd, <- app_assoc. f_equal. rewrite app_assoc, firstn_skipn. reflexivity. }
      replace (pte + len (firstn fu m)) with (len (P ++ firstn fu m)) by (rewrite len_app, HP; reflexivity).
      rewrite Hd2 at 1. rewrite firstn_len_app. reflexivity.
  - pose proof (position_none _ _ Ep) as Hnu. rewrite (lower_noupper _ Hnu).
    split; intros Hf; subst flushed.
    + apply Ended_wcons, Hk.
    + destruct (Hpos eq_refl) as (Hdd & HP & HR & Hgo). cbn [andb].
      destruct (pte + len m =? len d) eqn:E.
      * apply N.eqb_eq in E. assert (HR0 : R = []).
        { apply len_zero. rewrite Hdd in E. rewrite !len_app in E. lia. }
        rewrite andb_false_r. left. split; [reflexivity|]. rewrite (HR HR0). rewrite Hdd, HR0. reflexivity.
      * apply Hgo; [|exact Hnu]. intros ->. apply N.eqb_neq in E. apply E. rewrite Hdd, !len_app, HP. unfold len. cbn [List.length]. lia.
Qed.

Definition WalkSpec (rl : list (list N)) : Prop := forall labels seen pte flushed huo P,
  List.length labels = List.length rl ->
  (flushed = false -> d = P ++ tailtext seen rl /\ len P = pte /\ rl <> []) ->
  let w := walk1 cfg ff pol d tld bidi false labels (map MixedCaseAscii rl) seen pte flushed huo in
  let T := tailtext seen (map (map to_lower) rl) in
  (flushed = true -> Ended w T) /\ (flushed = false -> Res w (P ++ T)).

Lemma walk_an rl : WalkSpec rl.
Proof.
  induction rl as [|m rl' IH]; intros labels seen pte flushed huo P Hlen Hpos; cbv zeta.
  - destruct labels; [|discriminate]. cbn [map walk1]. split; intros Hf.
    + split; [exists huo; reflexivity|]. destruct seen; reflexivity.
    + destruct (Hpos Hf) as (_ & _ & Hne). contradiction Hne. reflexivity.
  - destruct labels as [|label labels']; [discriminate|]. cbn [map]. rewrite walk1_cons_mixed. cbv zeta.
    cbn [List.length] in Hlen. injection Hlen as Hlen.
    set (kk := fun (pte1 : N) (fl : bool) => walk1 cfg ff pol d tld bidi false labels' (map MixedCaseAscii rl') true pte1 fl huo).
    set (T' := tailtext true (map (map to_lower) rl')).
    assert (Hk : forall p, Ended (kk p true) T').
    { intros p. exact (proj1 (IH labels' true p true huo [] Hlen (fun H : true = false => match Bool.diff_true_false H with end)) eq_refl). }
    (* the body at position pte0, with the text before it P0 *)
    assert (HB : forall pte0 P0, (flushed = false -> d = P0 ++ m ++ tailtext true rl' /\ len P0 = pte0) ->
              (flushed = true -> Ended (mixed_write cfg d m false true 830 844 pte0 flushed kk) (map to_lower m ++ T')) /\
              (flushed = false -> Res (mixed_write cfg d m false true 830 844 pte0 flushed kk) (P0 ++ map to_lower m ++ T'))).
    { intros pte0 P0 Hb. apply (mixed_an m 830 844 pte0 flushed kk T' P0 (tailtext true rl')); [exact Hk|].
      intros Hf. destruct (Hb Hf) as [Hdd HP0]. split; [exact Hdd|]. split; [exact HP0|]. split.
      - intros HR. apply tailtext_nil_inv in HR. subst rl'. reflexivity.
      - intros HR Hnu. unfold kk.
        assert (Hne : rl' <> []) by (intros ->; apply HR; reflexivity).
        assert (Hd2 : d = (P0 ++ m) ++ tailtext true rl') by (rewrite <- app_assoc; exact Hdd).
        assert (Hl2 : len (P0 ++ m) = pte0 + len m) by (rewrite len_app, HP0; reflexivity).
        pose proof (proj2 (IH labels' true (pte0 + len m) false huo (P0 ++ m) Hlen (fun _ => conj Hd2 (conj Hl2 Hne))) eq_refl) as HX.
        rewrite <- app_assoc in HX. exact HX. }
    destruct seen.
    + (* a dot first *)
      change (tailtext true (map to_lower m :: map (map to_lower) rl')) with (DOT :: join_dots (map to_lower m :: map (map to_lower) rl')).
      rewrite join_dots_cons. fold T'.
      destruct flushed.
      * split; [intros _|discriminate]. change (DOT :: map to_lower m ++ T') with ([DOT] ++ map to_lower m ++ T').
        apply Ended_wcons. exact (proj1 (HB pte [] (fun H : true = false => match Bool.diff_true_false H with end)) eq_refl).
      * split; [discriminate|intros _]. destruct (Hpos eq_refl) as (Hdd & HP & _).
        change (tailtext true (m :: rl')) with (DOT :: join_dots (m :: rl')) in Hdd.
        replace (cfg && negb (nth (N.to_nat pte) d 256 =? DOT)) with false.
        2:{ rewrite <- HP. rewrite Hdd at 1. rewrite nth_len_app, N.eqb_refl. cbn [negb]. rewrite andb_false_r. reflexivity. }
        destruct (pte + 1 =? len d) eqn:E.
        -- rewrite andb_false_r. left. split; [reflexivity|].
           apply N.eqb_eq in E. assert (Hj : join_dots (m :: rl') = []).
           { apply len_zero. rewrite Hdd in E. rewrite len_app, len_cons1 in E. lia. }
           rewrite join_dots_cons in Hj. apply app_eq_nil in Hj. destruct Hj as [-> Hj]. apply tailtext_nil_inv in Hj. subst rl'.
           rewrite Hdd. reflexivity.
        -- rewrite join_dots_cons in Hdd.
           assert (Hd2 : d = (P ++ [DOT]) ++ m ++ tailtext true rl') by (rewrite <- app_assoc; exact Hdd).
           assert (Hl2 : len (P ++ [DOT]) = pte + 1) by (rewrite len_app, HP; reflexivity).
           pose proof (proj2 (HB (pte + 1) (P ++ [DOT]) (fun _ => conj Hd2 Hl2)) eq_refl) as HX.
           rewrite <- app_assoc in HX. exact HX.
    + change (tailtext false (map to_lower m :: map (map to_lower) rl')) with (join_dots (map to_lower m :: map (map to_lower) rl')).
      rewrite join_dots_cons. fold T'. split; intros Hf.
      * subst flushed. exact (proj1 (HB pte [] (fun H : true = false => match Bool.diff_true_false H with end)) eq_refl).
      * subst flushed. destruct (Hpos eq_refl) as (Hdd & HP & _). change (tailtext false (m :: rl')) with (join_dots (m :: rl')) in Hdd.
        rewrite join_dots_cons in Hdd. exact (proj2 (HB pte P (fun _ => conj Hdd HP)) eq_refl).
Qed.
End WalkAN.

(* ---- lower-casing, labels, the xn-- test ---- *)
Lemma to_lower_dot x : (to_lower x =? DOT) = (x =? DOT).
Proof. unfold to_lower, is_upper, DOT. destruct ((65 <=? x) && (x <=? 90)) eqn:E; lia. Qed.

Lemma split1_map_lower l : split1 DOT (map to_lower l) = (map to_lower (fst (split1 DOT l)), map (map to_lower) (snd (split1 DOT l))).
Proof.
  induction l as [|x r IH]; cbn [map split1]; [reflexivity|]. rewrite IH. destruct (split1 DOT r) as [h t]. cbn [fst snd].
  rewrite to_lower_dot. destruct (x =? DOT); reflexivity.
Qed.
Lemma split_on_map_lower l : split_on DOT (map to_lower l) = map (map to_lower) (split_on DOT l).
Proof. unfold split_on. rewrite split1_map_lower. destruct (split1 DOT l) as [h t]. reflexivity. Qed.

Lemma lower_join rl : map to_lower (join_dots rl) = join_dots (map (map to_lower) rl).
Proof.
  induction rl as [|x r IH]; [reflexivity|]. destruct r as [|y r'].
  - reflexivity.
  - change (join_dots (x :: y :: r')) with (x ++ DOT :: join_dots (y :: r')). rewrite map_app. cbn [map]. rewrite IH. reflexivity.
Qed.

Lemma lower_ascii l : Forall (fun b => b < 128) l -> Forall (fun b => b < 128) (map to_lower l).
Proof.
  intros H. apply Forall_forall. intros x Hx. apply in_map_iff in Hx. destruct Hx as (b & <- & Hb).
  rewrite Forall_forall in H. specialize (H b Hb). unfold to_lower, is_upper. destruct ((65 <=? b) && (b <=? 90)) eqn:E; lia.
Qed.
Lemma lower_ascii_inv l : Forall (fun b => b < 128) (map to_lower l) -> Forall (fun b => b < 128) l.
Proof.
  intros H. apply Forall_forall. intros x Hx. rewrite Forall_forall in H. specialize (H _ (in_map to_lower l x Hx)).
  unfold to_lower, is_upper in H. destruct ((65 <=? x) && (x <=? 90)) eqn:E; lia.
Qed.
Lemma lower_lower l : map to_lower (map to_lower l) = map to_lower l.
Proof.
  rewrite map_map. apply map_ext. intros a. unfold to_lower, is_upper.
  destruct ((65 <=? a) && (a <=? 90)) eqn:E; [|rewrite E; reflexivity].
  destruct ((65 <=? a + 32) && (a + 32 <=? 90)) eqn:E2; [lia|reflexivity].
Qed.

Lemma lower_is a t u v : to_lower a = t -> (t = u \/ t = v) -> v + 32 = u -> 65 <= v -> v <= 90 -> a = u \/ a = v.
Proof. unfold to_lower, is_upper. intros H [->| ->] Hv H1 H2; destruct ((65 <=? a) && (a <=? 90)) eqn:E; lia. Qed.
Lemma lower_is_hyphen a : to_lower a = 45 -> a = 45.
Proof. unfold to_lower, is_upper. destruct ((65 <=? a) && (a <=? 90)) eqn:E; lia. Qed.

Lemma xn_prefix_conv a b r : (a = 120 \/ a = 88) -> (b = 110 \/ b = 78) -> has_punycode_prefix (a :: b :: 45 :: 45 :: r) = true.
Proof. intros [->| ->] [->| ->]; vm_compute; reflexivity. Qed.

Lemma hpp_lower l : Forall (fun b => b < 128) l -> has_punycode_prefix (map to_lower l) = has_punycode_prefix l.
Proof.
  intros Ha. destruct (has_punycode_prefix l) eqn:E1.
  - destruct (xn_prefix_spec l Ha E1) as (a & b & r & -> & Xa & Xb). cbn [map].
    apply xn_prefix_conv.
    + left. destruct Xa as [->| ->]; reflexivity.
    + left. destruct Xb as [->| ->]; reflexivity.
  - destruct (has_punycode_prefix (map to_lower l)) eqn:E2; [|reflexivity].
    destruct (xn_prefix_spec _ (lower_ascii l Ha) E2) as (a' & b' & r' & Hl & Xa & Xb).
    destruct l as [|a [|b [|c [|e r]]]]; cbn [map] in Hl; try discriminate.
    injection Hl as H1 H2 H3 H4 _.
    apply lower_is_hyphen in H3. apply lower_is_hyphen in H4. subst c e.
    rewrite (xn_prefix_conv a b r) in E1; [discriminate| |].
    + exact (lower_is a a' 120 88 H1 Xa eq_refl ltac:(lia) ltac:(lia)).
    + exact (lower_is b b' 110 78 H2 Xb eq_refl ltac:(lia) ltac:(lia)).
Qed.

Lemma AN_ascii d : AN d -> Forall (fun b => b < 128) d.
Proof.
  intros H. rewrite <- (join_split d). apply join_dots_Forall; [unfold DOT; lia|].
  eapply Forall_impl; [|exact H]. cbv beta. intros a Ha. exact (proj1 Ha).
Qed.

Lemma AN_lower d : Forall (fun b => b < 128) d -> (AN (map to_lower d) <-> AN d).
Proof.
  intros Ha. unfold AN. rewrite split_on_map_lower.
  pose proof (split_on_Forall (fun b => b < 128) DOT d Ha) as Hl.
  split; intros H; apply Forall_forall; intros l Hin.
  - rewrite Forall_forall in H, Hl. specialize (Hl l Hin).
    destruct (H _ (in_map (map to_lower) _ l Hin)) as [_ H2]. split; [exact Hl|]. rewrite (hpp_lower l Hl) in H2. exact H2.
  - apply in_map_iff in Hin. destruct Hin as (l0 & <- & Hin). rewrite Forall_forall in H, Hl.
    specialize (Hl l0 Hin). destruct (H l0 Hin) as [_ H2]. split; [exact (lower_ascii l0 Hl)|]. rewrite (hpp_lower l0 Hl). exact H2.
Qed.

Lemma acc_lower deny hy d : DenyUpper deny -> LdhFree deny -> Forall (fun b => b < 128) d ->
  forallb (lab_acc deny hy) (split_on DOT (map to_lower d)) = forallb (lab_acc deny hy) (split_on DOT d).
Proof.
  intros HU HL Ha. rewrite split_on_map_lower.
  pose proof (split_on_Forall (fun b => b < 128) DOT d Ha) as Hl.
  induction Hl as [|l r Hl _ IH]; cbn [map forallb]; [reflexivity|]. rewrite IH, (lab_acc_lower deny HU HL hy l Hl). reflexivity.
Qed.

(* ---- process and to_ascii on the class ---- *)
Section MainAN.
Variable A : adapter.
Variable cfg : bool.

(* an accepted name of the class, either mode, any display policy *)
Theorem process_an_acc ff pol d deny hy : bytes d -> AN d -> DenyUpper deny -> LdhFree deny ->
  forallb (lab_acc deny hy) (split_on DOT d) = true ->
  let pr := process A cfg ff pol d deny hy None None false in
  (exists s1, pr = (PPassthrough, s1, []) /\ map to_lower d = d) \/ pr = (PWroteToSink, map to_lower d, []).
Proof.
  intros Hb Han HU HL Hacc. cbv zeta.
  pose proof (process_inner_an_facts deny hy HU HL A cfg d Hb Han) as HF. rewrite Hacc in HF.
  destruct HF as (ptu & db & P & rl & Ei & Hdd & HP & Hc & Hnf & Hsp).
  rewrite (process_inner_an_acc A cfg true deny hy HU HL d Hb Han Hacc) in Ei.
  rewrite <- (process_inner_an_acc A cfg ff deny hy HU HL d Hb Han Hacc) in Ei.
  assert (HlP : map to_lower P = P).
  { apply lower_noupper. eapply Forall_impl; [|exact Hc]. intros c Hcc. exact (proj1 (proj2 (clean_final deny c HU Hcc))). }
  assert (Hlow : map to_lower d = P ++ join_dots (map (map to_lower) rl)).
  { rewrite Hdd at 1. rewrite map_app, HlP, lower_join. reflexivity. }
  unfold process. rewrite Ei.
  destruct (ptu =? len d) eqn:Ep.
  - left. rewrite andb_false_r. exists []. split; [reflexivity|].
    apply N.eqb_eq in Ep. assert (Hj : join_dots rl = []).
    { apply len_zero. rewrite Hdd in Ep. rewrite len_app in Ep. lia. }
    rewrite Hlow, <- lower_join, Hj. cbn [map]. rewrite Hdd, Hj. reflexivity.
  - assert (Hne : rl <> []).
    { intros ->. apply N.eqb_neq in Ep. apply Ep. rewrite Hdd. cbn [join_dots]. rewrite app_nil_r. symmetry. exact HP. }
    rewrite (andb_false_r ff). rewrite Hnf. cbn [Bool.eqb negb]. rewrite andb_false_r. rewrite (Hsp Hne).
    match goal with |- context [walk1 ?a ?b ?c ?d0 ?e ?f ?g ?h ?i ?j ?k ?l ?m] =>
      pose proof (walk_an a b c d0 e f rl h j k l m P) as HW end.
    cbv zeta in HW. rewrite map_length in HW. specialize (HW eq_refl (fun _ => conj Hdd (conj HP Hne))).
    destruct HW as [_ HW]. specialize (HW eq_refl).
    match type of HW with Res _ ?w _ => destruct w as [ws we] end.
    cbn [tailtext] in HW. rewrite <- Hlow in HW. cbn [fst snd run_sink negb].
    destruct HW as [[Hwe Hd]|[[h Hwe] Hws]]; cbn [fst snd] in *; subst we.
    + left. exists (concat ws). split; [reflexivity|]. symmetry. exact Hd.
    + right. rewrite andb_false_r. rewrite Hws. reflexivity.
Qed.

Theorem process_an d deny hy : bytes d -> AN d -> DenyUpper deny -> LdhFree deny ->
  let pr := process A cfg true never_unicode d deny hy None None false in
  if forallb (lab_acc deny hy) (split_on DOT d) then
    (exists s1, pr = (PPassthrough, s1, []) /\ map to_lower d = d) \/ pr = (PWroteToSink, map to_lower d, [])
  else pr = (PValidityError, [], []).
Proof.
  intros Hb Han HU HL. cbv zeta.
  destruct (forallb (lab_acc deny hy) (split_on DOT d)) eqn:Hacc.
  - exact (process_an_acc true never_unicode d deny hy Hb Han HU HL Hacc).
  - pose proof (process_inner_an_facts deny hy HU HL A cfg d Hb Han) as HF. rewrite Hacc in HF.
    destruct HF as [Ei Hne]. unfold process. rewrite Ei. unfold I_EXIT.
    replace (0 =? len d) with false; [reflexivity|].
    symmetry. apply N.eqb_neq. intros H. symmetry in H. apply len_zero in H. contradiction.
Qed.
End MainAN.

Section ToAsciiAN.
Variable A : adapter.
Variable cfg : bool.

Lemma is_ascii_l_intro l : Forall (fun b => b < 128) l -> is_ascii_l l = true.
Proof. intros H. unfold is_ascii_l. apply forallb_forall. rewrite Forall_forall in H. intros x Hx. unfold is_ascii_cp. specialize (H x Hx). lia. Qed.

(* to_ascii on the class, in closed form: the text is the ASCII lower-casing of the name; it is accepted iff every
   label is accepted (deny list, hyphens) and - when requested - the lower-cased name satisfies the DNS limits *)
Theorem to_ascii_an d deny hy dns : AN d -> DenyUpper deny -> LdhFree deny ->
  exists b, to_ascii A cfg d deny hy dns =
    if forallb (lab_acc deny hy) (split_on DOT d)
       && (dns_is_ignore dns || verify_dns_length (map to_lower d) (dns_is_root dns))
    then Ok (b, map to_lower d) else Err.
Proof.
  intros Han HU HL. pose proof (AN_ascii d Han) as Ha.
  assert (Hb : bytes d) by (unfold bytes; eapply Forall_impl; [|exact Ha]; unfold is_byte; cbv beta; intros; lia).
  pose proof (process_an A cfg d deny hy Hb Han HU HL) as HP. cbv zeta in HP. unfold to_ascii.
  pose proof (is_ascii_l_intro _ (lower_ascii d Ha)) as Hal.
  destruct (forallb (lab_acc deny hy) (split_on DOT d)); cbn [andb].
  - destruct HP as [(s1 & -> & Hlow)| ->].
    + exists true. rewrite Hlow in *. rewrite Hal.
      destruct (dns_is_ignore dns); cbn [negb orb]; [reflexivity|]. rewrite andb_false_r.
      destruct (verify_dns_length d (dns_is_root dns)); reflexivity.
    + exists false. rewrite Hal.
      destruct (dns_is_ignore dns); cbn [negb orb]; [reflexivity|]. rewrite andb_false_r.
      destruct (verify_dns_length (map to_lower d) (dns_is_root dns)); reflexivity.
  - exists true. rewrite HP. reflexivity.
Qed.

(* idempotence on the class *)
Theorem to_ascii_an_idem d deny hy dns b r : AN d -> DenyUpper deny -> LdhFree deny ->
  to_ascii A cfg d deny hy dns = Ok (b, r) ->
  r = map to_lower d /\ AN r /\ exists b', to_ascii A cfg r deny hy dns = Ok (b', r).
Proof.
  intros Han HU HL H. pose proof (AN_ascii d Han) as Ha.
  destruct (to_ascii_an d deny hy dns Han HU HL) as (b0 & H0). rewrite H in H0.
  destruct (forallb (lab_acc deny hy) (split_on DOT d)
            && (dns_is_ignore dns || verify_dns_length (map to_lower d) (dns_is_root dns))) eqn:Ec; [|discriminate].
  inversion H0. subst b0 r. split; [reflexivity|].
  pose proof (proj2 (AN_lower d Ha) Han) as Han2. split; [exact Han2|].
  destruct (to_ascii_an (map to_lower d) deny hy dns Han2 HU HL) as (b1 & H1).
  rewrite (acc_lower deny hy d HU HL Ha), lower_lower, Ec in H1. exists b1. exact H1.
Qed.

(* ASCII case-insensitivity on the class *)
Theorem to_ascii_an_case d d' deny hy dns b r : AN d -> DenyUpper deny -> LdhFree deny ->
  ascii_case_variant d d' -> to_ascii A cfg d deny hy dns = Ok (b, r) ->
  AN d' /\ exists b', to_ascii A cfg d' deny hy dns = Ok (b', r).
Proof.
  intros Han HU HL Hv H. pose proof (AN_ascii d Han) as Ha. unfold ascii_case_variant in Hv.
  assert (Ha' : Forall (fun b => b < 128) d') by (apply lower_ascii_inv; rewrite <- Hv; exact (lower_ascii d Ha)).
  assert (Han' : AN d').
  { apply (AN_lower d' Ha'). rewrite <- Hv. exact (proj2 (AN_lower d Ha) Han). }
  split; [exact Han'|].
  destruct (to_ascii_an d deny hy dns Han HU HL) as (b0 & H0). rewrite H in H0.
  destruct (forallb (lab_acc deny hy) (split_on DOT d)
            && (dns_is_ignore dns || verify_dns_length (map to_lower d) (dns_is_root dns))) eqn:Ec; [|discriminate].
  inversion H0. subst b0 r.
  destruct (to_ascii_an d' deny hy dns Han' HU HL) as (b1 & H1).
  rewrite <- (acc_lower deny hy d' HU HL Ha'), <- Hv, (acc_lower deny hy d HU HL Ha), Ec in H1. exists b1. exact H1.
Qed.
End ToAsciiAN.

(* the class is decidable *)
Definition an_labelb (l : list N) : bool := forallb (fun b => b <? 128) l && negb (has_punycode_prefix l).
Definition ANb (d : list N) : bool := forallb an_labelb (split_on DOT d).
Lemma ANb_spec d : ANb d = true -> AN d.
Proof.
  unfold ANb, AN. intros H. rewrite forallb_forall in H. apply Forall_forall. intros l Hl. specialize (H l Hl).
  unfold an_labelb in H. apply andb_true_iff in H. destruct H as [H1 H2]. split.
  - rewrite forallb_forall in H1. apply Forall_forall. intros x Hx. specialize (H1 x Hx). lia.
  - apply negb_true_iff. exact H2.
Qed.

Example an_premises_hold :
  AN [65; 45; 98; 46; 88; 110; 45; 99; 46] /\ valid_deny DENY_URL /\
  to_ascii toy true [65; 45; 98; 46; 88; 110; 45; 99; 46] DENY_URL HCheck DVerifyAllowRootDot
    = Ok (false, [97; 45; 98; 46; 120; 110; 45; 99; 46]) /\
  lab_acc DENY_URL HCheck [65; 45; 98] = true /\ lab_acc DENY_URL HCheck [65; 45] = false /\ lab_acc DENY_URL HAllow [65; 45] = true /\
  lab_acc DENY_URL HAllow [65; 37] = false.
Proof.
  split; [apply ANb_spec; vm_compute; reflexivity|].
  split; [right; exists T_IDNA_URL_GLYPHLESS, T_IDNA_URL_LIST; reflexivity|].
  vm_compute. repeat split; reflexivity.
Qed.

(* the same for the deny lists the API can build *)
Theorem c10_an A cfg d deny hy dns : AN d -> valid_deny deny ->
  exists b, to_ascii A cfg d deny hy dns =
    if forallb (lab_acc deny hy) (split_on DOT d)
       && (dns_is_ignore dns || verify_dns_length (map to_lower d) (dns_is_root dns))
    then Ok (b, map to_lower d) else Err.
Proof. intros Han Hv. destruct (valid_deny_facts deny Hv) as [HU HL]. exact (to_ascii_an A cfg d deny hy dns Han HU HL). Qed.
Theorem c10_idem_an A cfg d deny hy dns b r : AN d -> valid_deny deny ->
  to_ascii A cfg d deny hy dns = Ok (b, r) ->
  r = map to_lower d /\ AN r /\ exists b', to_ascii A cfg r deny hy dns = Ok (b', r).
Proof. intros Han Hv. destruct (valid_deny_facts deny Hv) as [HU HL]. exact (to_ascii_an_idem A cfg d deny hy dns b r Han HU HL). Qed.
Theorem c10_case_an A cfg d d' deny hy dns b r : AN d -> valid_deny deny ->
  ascii_case_variant d d' -> to_ascii A cfg d deny hy dns = Ok (b, r) ->
  AN d' /\ exists b', to_ascii A cfg d' deny hy dns = Ok (b', r).
Proof. intros Han Hv. destruct (valid_deny_facts deny Hv) as [HU HL]. exact (to_ascii_an_case A cfg d d' deny hy dns b r Han HU HL). Qed.
