(* Proofs/C14_Enc.v - percent-encoding laws. *)
From RU Require Import Base.Prelude Model.AsciiSet Gen.Tables Model.PercentEncoding Proofs.C14_Set.

(* ---------- the table ---------- *)
Lemma enc_table_ok : all_below 256 (fun b => list_eqb (enc_byte b) (enc_byte_spec b)) = true.
Proof. vm_compute. reflexivity. Qed.

Theorem enc_byte_is_spec b : is_byte b -> enc_byte b = enc_byte_spec b.
Proof. intros Hb. apply list_eqb_spec. exact (all_below_spec 256 _ enc_table_ok b Hb). Qed.

Lemma table_ascii_ok : forallb (fun x => x <? 128) T_ENC_TABLE = true.
Proof. vm_compute. reflexivity. Qed.

(* ---------- encode: basic facts ---------- *)
Definition enc1 (S : aset) (b : N) : list N := if should_encode S b then enc_byte_spec b else [b].

Lemma encode_cons S b r : encode S (b :: r) = enc1 S b ++ encode S r.
Proof. reflexivity. Qed.

Theorem encode_app S x y : encode S (x ++ y) = encode S x ++ encode S y.
Proof. unfold encode. apply flat_map_app. Qed.

Lemma hex_upper_ascii d : d < 16 -> hex_upper d < 128 /\ hex_upper d <> 37.
Proof. unfold hex_upper. intros. destruct (d <? 10); lia. Qed.

Theorem encode_ascii S bs : bytes bs -> ascii (encode S bs).
Proof.
  induction bs as [|b r IH]; intros H.
  - constructor.
  - inversion H as [|? ? Hb Hr]; subst. rewrite encode_cons. apply ascii_app. split; [|apply IH; exact Hr].
    unfold enc1, should_encode. unfold is_byte in Hb.
    destruct (128 <=? b) eqn:E.
    + unfold enc_byte_spec, ascii, is_ascii.
      pose proof (hex_upper_ascii (b / 16)). pose proof (hex_upper_ascii (b mod 16)).
      repeat constructor; lia.
    + destruct (aset_contains S b).
      * unfold enc_byte_spec, ascii, is_ascii.
        pose proof (hex_upper_ascii (b / 16)). pose proof (hex_upper_ascii (b mod 16)).
        repeat constructor; lia.
      * repeat constructor. unfold is_ascii. lia.
Qed.

(* ---------- controlled unfolding of decode ---------- *)
Lemma decode_nil : decode [] = [].
Proof. reflexivity. Qed.
Lemma decode_other b r : b <> 37 -> decode (b :: r) = b :: decode r.
Proof. intros H. cbn [decode]. replace (b =? 37) with false by lia. reflexivity. Qed.
Lemma decode_pct3 h l r :
  decode (37 :: h :: l :: r) =
  match after_percent h l with Some v => v :: decode r | None => 37 :: decode (h :: l :: r) end.
Proof. reflexivity. Qed.
Lemma decode_pct1 : decode [37] = [37].
Proof. reflexivity. Qed.
Lemma decode_pct2 h : decode [37; h] = 37 :: decode [h].
Proof. reflexivity. Qed.
Opaque decode.

(* ---------- round trip ---------- *)
Lemma after_percent_hex b : is_byte b ->
  after_percent (hex_upper (b / 16)) (hex_upper (b mod 16)) = Some b.
Proof.
  unfold is_byte. intros Hb. unfold after_percent.
  rewrite !hex_val_upper by lia. f_equal. lia.
Qed.

Theorem decode_encode S bs :
  aset_contains S 37 = true -> bytes bs -> decode (encode S bs) = bs.
Proof.
  intros H37. induction bs as [|b r IH]; intros H.
  - reflexivity.
  - inversion H as [|? ? Hb Hr]; subst. rewrite encode_cons. unfold enc1.
    destruct (should_encode S b) eqn:E.
    + unfold enc_byte_spec. cbn [app]. rewrite decode_pct3.
      rewrite after_percent_hex by exact Hb. f_equal. apply IH. exact Hr.
    + cbn [app].
      destruct (N.eqb_spec b 37) as [->|Hne].
      * exfalso. unfold should_encode in E. cbn in E. rewrite H37 in E. discriminate.
      * rewrite decode_other by exact Hne. f_equal. apply IH. exact Hr.
Qed.

(* ---------- decode distributes over splits that do not cut an escape ---------- *)
(* x has a '%' among its last two bytes *)
Fixpoint pct_tail (x : list N) : bool :=
  match x with
  | [] => false
  | a :: r => match r with
              | [] => a =? 37
              | b :: r' => match r' with
                           | [] => (a =? 37) || (b =? 37)
                           | _ :: _ => pct_tail r
                           end
              end
  end.

Lemma pct_tail_tl a r : pct_tail (a :: r) = false -> pct_tail r = false.
Proof.
  intros H. destruct r as [|b r1]; [reflexivity|].
  destruct r1 as [|c r2]; [cbn [pct_tail] in *; lia | exact H].
Qed.

Lemma decode_split_len n : forall x y, (length x <= n)%nat -> pct_tail x = false ->
  decode (x ++ y) = decode x ++ decode y.
Proof.
  induction n as [|n IH]; intros x y Hlen Ht.
  - destruct x; [reflexivity | cbn in Hlen; lia].
  - destruct x as [|b r]; [reflexivity|].
    cbn [length] in Hlen.
    destruct (N.eqb_spec b 37) as [->|Hne].
    + (* '%' : x must have at least three bytes *)
      destruct r as [|h r1]; [cbn in Ht; discriminate|].
      destruct r1 as [|l r2]; [cbn in Ht; discriminate|].
      cbn [app]. rewrite !decode_pct3.
      destruct (after_percent h l) as [v|] eqn:Eap.
      * rewrite <- app_comm_cons. f_equal. apply IH; [cbn [length] in Hlen; lia|].
        do 3 apply pct_tail_tl in Ht. exact Ht.
      * rewrite <- app_comm_cons. f_equal.
        change (h :: l :: r2 ++ y) with ((h :: l :: r2) ++ y).
        apply IH; [cbn [length] in *; lia|].
        apply pct_tail_tl in Ht. exact Ht.
    + cbn [app]. rewrite !decode_other by exact Hne.
      rewrite <- app_comm_cons. f_equal. apply IH; [lia|].
      apply pct_tail_tl in Ht. exact Ht.
Qed.

Theorem decode_split x y : pct_tail x = false -> decode (x ++ y) = decode x ++ decode y.
Proof. intros H. apply (decode_split_len (length x)); [lia | exact H]. Qed.
