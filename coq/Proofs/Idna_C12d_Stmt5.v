(* Proofs/Idna_C12d_Stmt5.v - C12, the full statement, PROVED.
   C12_statement5 = C12_statement4 (Proofs/Idna_C12c_Stmt4.v) with ONE more sampled adapter premise, NvNoGrow
   (Proofs/Idna_C12d_Round.v: normalize_validate l = l ++ t -> t = [], sampled on the real idna_adapter as nvnogrow).
   Why the premise: for an accepted xn-- INPUT label uts46.rs decodes the label (dec), runs normalize_validate on it and
   compares the two texts with a zip that stops at the shorter one; ToUnicode then displays the NORMALISED text, while
   ToASCII writes the (lower-cased) input label.  NvNoTrunc excludes a normalised text that is a proper prefix of dec,
   nothing among the seven premises of C12_statement4 excludes a normalised text dec ++ t: for such an adapter
   ToASCII of the displayed text is the Punycode form of dec ++ t, not the input label, so clause a_of_u of
   C12_statement4 does not follow from its premises (an adapter with that behaviour must be context dependent: the
   premises NvIdem, ok_stable and NvMapFix force dec ++ t to be accepted while dec is not; no pointwise adapter grows).
   c12_5 proves all four clauses (u_of_a, a_of_u, u_idem, ui) for every accepted byte string outside Known_C12 and
   Known_C10_long; Known_C11 (excluded by the statement) is not needed. *)
From RU Require Import Base.Prelude Base.Utf8 Base.Utf8Facts Base.U32_c13 Gen.Tables Model.Punycode Model.Uts46
  Proofs.Idna_Sim Proofs.Idna_Api Proofs.Idna_Known Proofs.Idna_Hyp Proofs.Idna_Redisc Proofs.Idna_C12 Proofs.Idna_C10_Deny Proofs.Idna_C10_Prefix
  Proofs.Idna_C10_Inner Proofs.Idna_C10_Walk Proofs.Idna_C10b_Long Proofs.Idna_C10b_Stmt Proofs.Idna_WalkEnc
  Proofs.Idna_C10c_Puny Proofs.Idna_C10c_Drun Proofs.Idna_C10c_Idem Proofs.Idna_C10c_Example Proofs.Idna_C10c_Refute Proofs.Idna_C12b_Stmt3
  Proofs.Idna_C12c_UofA Proofs.Idna_C12c_Stmt4 Proofs.Idna_C12c_Round Proofs.Idna_C12d_Round Proofs.Idna_C12d_UI.

Section Statement5.
Variable A : adapter.
Variable cfg : bool.
Definition C12_statement5 : Prop :=
  AdapterOK A -> AdapterUSV A -> NvNoTrunc A -> NvIdem A -> AsciiNoMark A -> MapPrefix A -> NvMapFix A -> NvNoGrow A ->
  forall d deny hy b a,
  bytes d -> valid_deny deny -> Known_C12 A cfg d deny hy = false -> Known_C11 A cfg d deny hy = false ->
  to_ascii A cfg d deny hy DIgnore = Ok (b, a) -> Known_C10_long a = false ->
  let u := ui_text (to_unicode A cfg d deny hy) in
  (ui_text (to_unicode A cfg a deny hy) = u /\ ui_err (to_unicode A cfg a deny hy) = false) /\
  (exists b', to_ascii A cfg (utf8_encode u) deny hy DIgnore = Ok (b', a)) /\
  (ui_text (to_unicode A cfg (utf8_encode u) deny hy) = u /\ ui_err (to_unicode A cfg (utf8_encode u) deny hy) = false) /\
  (forall p, exists b', to_ascii A cfg (utf8_encode (ui_text (to_user_interface A cfg d deny hy p))) deny hy DIgnore = Ok (b', a)).
End Statement5.

(* the four clauses without the exclusion of Known_C11, with the "no error, no panic" facts of to_user_interface *)
Theorem c12_all A cfg : AdapterOK A -> AdapterUSV A -> NvNoTrunc A -> NvIdem A -> AsciiNoMark A -> MapPrefix A -> NvMapFix A ->
  NvNoGrow A ->
  forall d deny hy b a, bytes d -> valid_deny deny -> Known_C12 A cfg d deny hy = false ->
  to_ascii A cfg d deny hy DIgnore = Ok (b, a) -> Known_C10_long a = false ->
  let u := ui_text (to_unicode A cfg d deny hy) in
  (ui_text (to_unicode A cfg a deny hy) = u /\ ui_err (to_unicode A cfg a deny hy) = false) /\
  (exists b', to_ascii A cfg (utf8_encode u) deny hy DIgnore = Ok (b', a)) /\
  (ui_text (to_unicode A cfg (utf8_encode u) deny hy) = u /\ ui_err (to_unicode A cfg (utf8_encode u) deny hy) = false) /\
  (forall p, ui_err (to_user_interface A cfg d deny hy p) = false /\ ui_panics (to_user_interface A cfg d deny hy p) = false /\
     exists b', to_ascii A cfg (utf8_encode (ui_text (to_user_interface A cfg d deny hy p))) deny hy DIgnore = Ok (b', a)).
Proof.
  intros HOK HUSV HNT HNI HNM HMP HMF HNG d deny hy b a Hb Hv HK H Hlong.
  destruct (c12_round2 A cfg HOK HUSV HNT HNI HNM HMP HMF HNG d deny hy b a Hb Hv HK H Hlong) as (C1 & C2 & C3).
  cbv zeta. split; [exact C1|]. split; [exact C2|]. split; [exact C3|].
  exact (c12_ui A cfg HOK HUSV HNT HNI HNM HMP HMF HNG d deny hy b a Hb Hv HK H Hlong).
Qed.

Theorem c12_5 A cfg : C12_statement5 A cfg.
Proof.
  intros HOK HUSV HNT HNI HNM HMP HMF HNG d deny hy b a Hb Hv HK _ H Hlong.
  destruct (c12_all A cfg HOK HUSV HNT HNI HNM HMP HMF HNG d deny hy b a Hb Hv HK H Hlong) as (C1 & C2 & C3 & C4).
  cbv zeta. split; [exact C1|]. split; [exact C2|]. split; [exact C3|].
  intros p. destruct (C4 p) as (_ & _ & Hx). exact Hx.
Qed.

(* ---------------------------------------------------------------- the premises are satisfiable *)
Lemma lowsan4_nogrow : NvNoGrow lowsan4.
Proof.
  intros l t H. cbn [lowsan4 normalize_validate] in H. apply (f_equal (@List.length N)) in H.
  rewrite app_length, map_length in H. destruct t; [reflexivity|]. cbn [List.length] in H. lia.
Qed.
Lemma lowsan4_premises5 :
  AdapterOK lowsan4 /\ AdapterUSV lowsan4 /\ NvNoTrunc lowsan4 /\ NvIdem lowsan4 /\ AsciiNoMark lowsan4 /\ MapPrefix lowsan4 /\
  NvMapFix lowsan4 /\ NvNoGrow lowsan4.
Proof.
  destruct lowsan4_premises as (H1 & H2 & H3 & H4 & H5 & H6 & H7).
  repeat (split; [assumption|]). exact lowsan4_nogrow.
Qed.

(* "A.XN--Bcher-KVA": an xn-- input label with upper-case letters in the prefix, the basic code units and the digits *)
Definition W_stmt5 : list N := [65; 46; 88; 78; 45; 45; 66; 99; 104; 101; 114; 45; 75; 86; 65].
Definition W_stmt5_A : list N := [97; 46; 120; 110; 45; 45; 98; 99; 104; 101; 114; 45; 107; 118; 97].   (* a.xn--bcher-kva *)
Definition W_stmt5_U : list N := [97; 46; 98; 252; 99; 104; 101; 114].                                  (* a.b<u-umlaut>cher *)
Definition even_len_policy (l tld : list N) (b : bool) : bool := N.even (len l).
Example w_c12_stmt5 :
  to_ascii lowsan4 true W_stmt5 DENY_URL HCheck DIgnore = Ok (false, W_stmt5_A) /\
  Known_C12 lowsan4 true W_stmt5 DENY_URL HCheck = false /\ Known_C11 lowsan4 true W_stmt5 DENY_URL HCheck = false /\
  PunyIn lowsan4 true W_stmt5 DENY_URL HCheck = true /\ Known_C10_long W_stmt5_A = false /\
  to_unicode lowsan4 true W_stmt5 DENY_URL HCheck = UI false W_stmt5_U false /\
  to_ascii lowsan4 true (utf8_encode W_stmt5_U) DENY_URL HCheck DIgnore = Ok (false, W_stmt5_A) /\
  to_user_interface lowsan4 true W_stmt5 DENY_URL HCheck never_unicode = UI false W_stmt5_A false /\
  to_user_interface lowsan4 true W_stmt5 DENY_URL HCheck even_len_policy = UI false W_stmt5_U false.
Proof. vm_compute. repeat split; reflexivity. Qed.
