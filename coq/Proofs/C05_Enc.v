(* Proofs/C05_Enc.v - the alphabet of percent-encoder output.
   Two layers:
   (a) about the reference map `encode S bs` (C14) for byte lists;
   (b) about the iterator `pe_display S xs` for ARBITRARY lists of numbers (no range condition:
       a value >= 128 is always sent to the table, and every table slice is made of '%' and
       upper-case hex digits - so nothing above 0x7E can come out whatever goes in).
   Then the membership facts about the regenerated sets of url/src/parser.rs. *)
From RU Require Import Base.Prelude Base.Utf8 Base.Utf8Facts Model.AsciiSet Gen.Tables
  Model.PercentEncoding Proofs.C14_Set Proofs.C14_Enc Proofs.C14_Views.

Definition ok_byte (b : N) : Prop := 33 <= b /\ b <= 126.
Definition ok_or_space (b : N) : Prop := 32 <= b /\ b <= 126.

Lemma ok_byte_or_space b : ok_byte b -> ok_or_space b.
Proof. unfold ok_byte, ok_or_space. lia. Qed.
Lemma ok_or_space_32 : ok_or_space 32.
Proof. unfold ok_or_space. lia. Qed.
Lemma ok_or_space_iff b : ok_or_space b <-> ok_byte b \/ b = 32.
Proof. unfold ok_byte, ok_or_space. lia. Qed.

(* '0'-'9' 'A'-'F' *)
Definition is_hexu (c : N) : bool := is_digit c || ((65 <=? c) && (c <=? 70)).
Definition pct_or_hex (c : N) : Prop := c = 37 \/ is_hexu c = true.

Lemma pct_or_hex_ok c : pct_or_hex c -> ok_byte c.
Proof. unfold pct_or_hex, is_hexu, is_digit, ok_byte. lia. Qed.

(* ---------- sublists ---------- *)
Section Sub.
  Context {A : Type} (P : A -> Prop).
  Lemma Forall_firstn n : forall l, Forall P l -> Forall P (firstn n l).
  Proof.
    induction n as [|n IH]; intros l H; [constructor|].
    destruct l as [|x l]; [constructor|]. inversion H; subst. cbn [firstn]. constructor; auto.
  Qed.
  Lemma Forall_skipn n : forall l, Forall P l -> Forall P (skipn n l).
  Proof.
    induction n as [|n IH]; intros l H; [exact H|].
    destruct l as [|x l]; [constructor|]. inversion H; subst. cbn [skipn]. auto.
  Qed.
End Sub.

(* ---------- (a) encode ---------- *)
Lemma hex_upper_hexu d : d < 16 -> is_hexu (hex_upper d) = true.
Proof. unfold is_hexu, hex_upper, is_digit. intros H. destruct (d <? 10) eqn:E; lia. Qed.

Lemma enc_byte_spec_out b : is_byte b -> Forall pct_or_hex (enc_byte_spec b).
Proof.
  unfold is_byte. intros Hb. unfold enc_byte_spec, pct_or_hex.
  assert (b / 16 < 16) as H1 by lia. assert (b mod 16 < 16) as H2 by lia.
  apply hex_upper_hexu in H1. apply hex_upper_hexu in H2.
  constructor; [left; reflexivity|]. constructor; [right; exact H1|]. constructor; [right; exact H2|]. constructor.
Qed.

(* every output byte is an input byte that the set does not cover, or '%', or an upper-case hex digit *)
Theorem encode_out S bs : bytes bs ->
  Forall (fun c => (In c bs /\ should_encode S c = false) \/ pct_or_hex c) (encode S bs).
Proof.
  induction bs as [|b r IH]; intros H; [constructor|].
  inversion H as [|? ? Hb Hr]; subst. rewrite encode_cons. apply Forall_app. split.
  - unfold enc1. destruct (should_encode S b) eqn:E.
    + eapply Forall_impl; [|apply enc_byte_spec_out; exact Hb]. intros c Hc. right. exact Hc.
    + constructor; [|constructor]. left. split; [left; reflexivity | exact E].
  - eapply Forall_impl; [|apply IH; exact Hr]. cbv beta. intros c [[Hi Hs]|Hc]; [left|right; exact Hc].
    split; [right; exact Hi | exact Hs].
Qed.

(* the general avoidance lemma: a member of the set other than '%' and the hex digits never appears *)
Theorem encode_avoids S bs c : bytes bs ->
  aset_contains S c = true -> c <> 37 -> is_hexu c = false -> ~ In c (encode S bs).
Proof.
  intros Hby Hc H37 Hh Hin.
  pose proof (encode_out S bs Hby) as F. rewrite Forall_forall in F. specialize (F c Hin).
  destruct F as [[_ Hs]|[->|Hx]]; [|congruence|congruence].
  unfold should_encode in Hs. destruct (128 <=? c); [discriminate|congruence].
Qed.

Definition covers_ctl (S : aset) : Prop := forall b, b < 33 \/ b = 127 -> aset_contains S b = true.
Definition covers_c0 (S : aset) : Prop := forall b, b < 32 \/ b = 127 -> aset_contains S b = true.

Theorem encode_ok S bs : bytes bs -> covers_ctl S -> Forall ok_byte (encode S bs).
Proof.
  intros Hby Hcov. eapply Forall_impl; [|apply (encode_out S bs Hby)]. cbv beta.
  intros c [[_ Hs]|Hc]; [|apply pct_or_hex_ok; exact Hc].
  unfold should_encode in Hs. destruct (128 <=? c) eqn:E; [discriminate|].
  unfold ok_byte. destruct (N.ltb_spec c 33) as [L|L].
  - rewrite Hcov in Hs by (left; exact L). discriminate.
  - destruct (N.eq_dec c 127) as [->|Hne]; [rewrite Hcov in Hs by (right; reflexivity); discriminate|]. lia.
Qed.

Theorem encode_ok_space S bs : bytes bs -> covers_c0 S -> Forall ok_or_space (encode S bs).
Proof.
  intros Hby Hcov. eapply Forall_impl; [|apply (encode_out S bs Hby)]. cbv beta.
  intros c [[_ Hs]|Hc]; [|apply ok_byte_or_space, pct_or_hex_ok; exact Hc].
  unfold should_encode in Hs. destruct (128 <=? c) eqn:E; [discriminate|].
  unfold ok_or_space. destruct (N.ltb_spec c 32) as [L|L].
  - rewrite Hcov in Hs by (left; exact L). discriminate.
  - destruct (N.eq_dec c 127) as [->|Hne]; [rewrite Hcov in Hs by (right; reflexivity); discriminate|]. lia.
Qed.

(* ---------- (b) pe_display, any input ---------- *)
Lemma table_pct_hex : forallb (fun x => (x =? 37) || is_hexu x) T_ENC_TABLE = true.
Proof. vm_compute. reflexivity. Qed.

Lemma enc_byte_out b : Forall pct_or_hex (enc_byte b).
Proof.
  unfold enc_byte. apply Forall_firstn, Forall_skipn.
  pose proof table_pct_hex as T. rewrite forallb_forall in T. apply Forall_forall. intros x Hx.
  specialize (T x Hx). unfold pct_or_hex. apply orb_true_iff in T. destruct T as [T|T]; [left; lia | right; exact T].
Qed.

Definition out_ok (S : aset) (bs : list N) (c : N) : Prop :=
  (In c bs /\ should_encode S c = false) \/ pct_or_hex c.

Lemma out_ok_incl S a b c : incl a b -> out_ok S a c -> out_ok S b c.
Proof. intros Hi [[H1 H2]|H]; [left; split; [apply Hi; exact H1 | exact H2] | right; exact H]. Qed.

Lemma pe_next_out S bs c rest : pe_next S bs = Some (c, rest) ->
  Forall (out_ok S bs) c /\ incl rest bs /\ (length rest < length bs)%nat.
Proof.
  destruct bs as [|b r]; cbn [pe_next]; [discriminate|].
  destruct (should_encode S b) eqn:E.
  - intros H. inversion H; subst. split; [|split].
    + eapply Forall_impl; [|apply enc_byte_out]. intros x Hx. right. exact Hx.
    + apply incl_tl, incl_refl.
    + cbn [length]. lia.
  - destruct (span_keep S r) as [u rest'] eqn:Es. intros H. inversion H; subst.
    destruct (span_keep_spec _ _ _ _ Es) as (H1 & _ & H3 & H4 & _). split; [|split].
    + constructor; [left; split; [left; reflexivity | exact E]|].
      apply Forall_forall. intros x Hx. rewrite Forall_forall in H3. left. split; [|apply H3; exact Hx].
      right. rewrite H1. apply in_or_app. left. exact Hx.
    + rewrite H1. apply incl_tl, incl_appr, incl_refl.
    + cbn [length]. lia.
Qed.

Lemma chunks_f_out n : forall S bs, Forall (out_ok S bs) (concat (pe_chunks_f n S bs)).
Proof.
  induction n as [|n IH]; intros S bs; [constructor|].
  cbn [pe_chunks_f]. destruct (pe_next S bs) as [[c rest]|] eqn:En; [|constructor].
  destruct (pe_next_out _ _ _ _ En) as (H1 & H2 & _). cbn [concat]. apply Forall_app. split; [exact H1|].
  eapply Forall_impl; [|apply IH]. intros x. apply out_ok_incl. exact H2.
Qed.

(* no range condition on xs *)
Theorem pe_display_out S xs : Forall (out_ok S xs) (pe_display S xs).
Proof. unfold pe_display, pe_chunks. apply chunks_f_out. Qed.

Theorem pe_display_avoids S xs c :
  aset_contains S c = true -> c <> 37 -> is_hexu c = false -> ~ In c (pe_display S xs).
Proof.
  intros Hc H37 Hh Hin.
  pose proof (pe_display_out S xs) as F. rewrite Forall_forall in F. specialize (F c Hin).
  destruct F as [[_ Hs]|[->|Hx]]; [|congruence|congruence].
  unfold should_encode in Hs. destruct (128 <=? c); [discriminate|congruence].
Qed.

Theorem pe_display_ok S xs : covers_ctl S -> Forall ok_byte (pe_display S xs).
Proof.
  intros Hcov. eapply Forall_impl; [|apply (pe_display_out S xs)]. cbv beta.
  intros c [[_ Hs]|Hc]; [|apply pct_or_hex_ok; exact Hc].
  unfold should_encode in Hs. destruct (128 <=? c) eqn:E; [discriminate|].
  unfold ok_byte. destruct (N.ltb_spec c 33) as [L|L].
  - rewrite Hcov in Hs by (left; exact L). discriminate.
  - destruct (N.eq_dec c 127) as [->|Hne]; [rewrite Hcov in Hs by (right; reflexivity); discriminate|]. lia.
Qed.

Theorem pe_display_ok_space S xs : covers_c0 S -> Forall ok_or_space (pe_display S xs).
Proof.
  intros Hcov. eapply Forall_impl; [|apply (pe_display_out S xs)]. cbv beta.
  intros c [[_ Hs]|Hc]; [|apply ok_byte_or_space, pct_or_hex_ok; exact Hc].
  unfold should_encode in Hs. destruct (128 <=? c) eqn:E; [discriminate|].
  unfold ok_or_space. destruct (N.ltb_spec c 32) as [L|L].
  - rewrite Hcov in Hs by (left; exact L). discriminate.
  - destruct (N.eq_dec c 127) as [->|Hne]; [rewrite Hcov in Hs by (right; reflexivity); discriminate|]. lia.
Qed.

(* ---------- the regenerated sets ---------- *)
(* a set covers a list of bytes *)
Definition covers_list (S : aset) (l : list N) : bool := forallb (aset_contains S) l.
(* all of 0x00-0x20 and 0x7F *)
Definition covers_ctl_b (S : aset) : bool := all_below 33 (aset_contains S) && aset_contains S 127.
Definition covers_c0_b (S : aset) : bool := all_below 32 (aset_contains S) && aset_contains S 127.

Lemma covers_ctl_spec S : covers_ctl_b S = true -> covers_ctl S.
Proof.
  unfold covers_ctl_b, covers_ctl. intros H b Hb. apply andb_true_iff in H. destruct H as [H1 H2].
  destruct Hb as [Hb| ->]; [apply (all_below_spec 33 _ H1 b Hb) | exact H2].
Qed.
Lemma covers_c0_spec S : covers_c0_b S = true -> covers_c0 S.
Proof.
  unfold covers_c0_b, covers_c0. intros H b Hb. apply andb_true_iff in H. destruct H as [H1 H2].
  destruct Hb as [Hb| ->]; [apply (all_below_spec 32 _ H1 b Hb) | exact H2].
Qed.

(* the delimiter lists of the property text *)
Definition D_FRAGMENT : list N := [32; 34; 60; 62; 96].                              (* space dquote < > backtick *)
Definition D_PATH : list N := [63; 35; 32; 34; 60; 62; 96; 123; 125].                (* ? # space dquote < > backtick { } *)
Definition D_PATH_SEGMENT : list N := 47 :: D_PATH.                                  (* / and the above *)
Definition D_SPECIAL_PATH_SEGMENT : list N := 92 :: D_PATH_SEGMENT.                  (* \ and the above *)
Definition D_USERINFO : list N :=
  [47; 58; 59; 61; 64; 91; 92; 93; 94; 124] ++ D_PATH.                               (* / : ; = @ [ \ ] ^ | + path *)
Definition D_QUERY : list N := [35; 32; 34; 60; 62].                                 (* # space dquote < > *)
Definition D_SPECIAL_QUERY : list N := 39 :: D_QUERY.                                (* apostrophe and the above *)

Lemma T_CONTROLS_c0 : covers_c0 T_CONTROLS.
Proof. apply covers_c0_spec. vm_compute. reflexivity. Qed.

Lemma T_FRAGMENT_facts : covers_ctl_b T_FRAGMENT = true /\ covers_list T_FRAGMENT D_FRAGMENT = true.
Proof. vm_compute. split; reflexivity. Qed.
Lemma T_PATH_facts : covers_ctl_b T_PATH = true /\ covers_list T_PATH D_PATH = true.
Proof. vm_compute. split; reflexivity. Qed.
Lemma T_PATH_SEGMENT_facts :
  covers_ctl_b T_PATH_SEGMENT = true /\ covers_list T_PATH_SEGMENT (37 :: D_PATH_SEGMENT) = true.
Proof. vm_compute. split; reflexivity. Qed.
Lemma T_SPECIAL_PATH_SEGMENT_facts :
  covers_ctl_b T_SPECIAL_PATH_SEGMENT = true /\ covers_list T_SPECIAL_PATH_SEGMENT (37 :: D_SPECIAL_PATH_SEGMENT) = true.
Proof. vm_compute. split; reflexivity. Qed.
Lemma T_USERINFO_facts : covers_ctl_b T_USERINFO = true /\ covers_list T_USERINFO D_USERINFO = true.
Proof. vm_compute. split; reflexivity. Qed.
Lemma T_QUERY_facts : covers_ctl_b T_QUERY = true /\ covers_list T_QUERY D_QUERY = true.
Proof. vm_compute. split; reflexivity. Qed.
Lemma T_SPECIAL_QUERY_facts : covers_ctl_b T_SPECIAL_QUERY = true /\ covers_list T_SPECIAL_QUERY D_SPECIAL_QUERY = true.
Proof. vm_compute. split; reflexivity. Qed.

Lemma T_FRAGMENT_ctl : covers_ctl T_FRAGMENT. Proof. apply covers_ctl_spec, T_FRAGMENT_facts. Qed.
Lemma T_PATH_ctl : covers_ctl T_PATH. Proof. apply covers_ctl_spec, T_PATH_facts. Qed.
Lemma T_PATH_SEGMENT_ctl : covers_ctl T_PATH_SEGMENT. Proof. apply covers_ctl_spec, T_PATH_SEGMENT_facts. Qed.
Lemma T_SPECIAL_PATH_SEGMENT_ctl : covers_ctl T_SPECIAL_PATH_SEGMENT.
Proof. apply covers_ctl_spec, T_SPECIAL_PATH_SEGMENT_facts. Qed.
Lemma T_USERINFO_ctl : covers_ctl T_USERINFO. Proof. apply covers_ctl_spec, T_USERINFO_facts. Qed.
Lemma T_QUERY_ctl : covers_ctl T_QUERY. Proof. apply covers_ctl_spec, T_QUERY_facts. Qed.
Lemma T_SPECIAL_QUERY_ctl : covers_ctl T_SPECIAL_QUERY. Proof. apply covers_ctl_spec, T_SPECIAL_QUERY_facts. Qed.

(* ---------- the component statement: what `ser ++ pe_display S xs` can add ---------- *)
(* output is in 0x21..0x7E and contains no byte of D; xs is ANY list of numbers *)
Definition comp_clean (D : list N) (out : list N) : Prop :=
  Forall ok_byte out /\ forall d, In d D -> ~ In d out.

Definition no_pct_hex_b (D : list N) : bool := forallb (fun d => negb ((d =? 37) || is_hexu d)) D.

Theorem pe_display_clean S D xs :
  covers_ctl_b S = true -> covers_list S D = true ->
  no_pct_hex_b D = true ->
  comp_clean D (pe_display S xs).
Proof.
  intros Hc Hl Hd. split; [apply pe_display_ok, covers_ctl_spec; exact Hc|].
  intros d Hin. unfold covers_list in Hl. unfold no_pct_hex_b in Hd. rewrite forallb_forall in Hl, Hd.
  specialize (Hl d Hin). specialize (Hd d Hin).
  apply negb_true_iff, orb_false_iff in Hd. destruct Hd as [Hd1 Hd2].
  apply pe_display_avoids; [exact Hl | lia | exact Hd2].
Qed.

(* the same for the C14 reference map on byte lists *)
Theorem encode_clean S D bs : bytes bs ->
  covers_ctl_b S = true -> covers_list S D = true ->
  no_pct_hex_b D = true ->
  comp_clean D (encode S bs).
Proof.
  intros Hby Hc Hl Hd. split; [apply encode_ok; [exact Hby | apply covers_ctl_spec; exact Hc]|].
  intros d Hin. unfold covers_list in Hl. unfold no_pct_hex_b in Hd. rewrite forallb_forall in Hl, Hd.
  specialize (Hl d Hin). specialize (Hd d Hin).
  apply negb_true_iff, orb_false_iff in Hd. destruct Hd as [Hd1 Hd2].
  apply encode_avoids; [exact Hby | exact Hl | lia | exact Hd2].
Qed.

(* raw '%' in a PATH_SEGMENT output is always the start of an escape produced by the encoder:
   the set contains '%', so an input '%' is itself encoded (as %25) *)
Theorem pe_display_pct_escaped S xs :
  aset_contains S 37 = true ->
  Forall (fun c => (In c xs /\ should_encode S c = false /\ c <> 37) \/ pct_or_hex c) (pe_display S xs).
Proof.
  intros H37. eapply Forall_impl; [|apply (pe_display_out S xs)]. cbv beta.
  intros c [[Hi Hs]|Hc]; [left|right; exact Hc]. split; [exact Hi|]. split; [exact Hs|].
  intros ->. unfold should_encode in Hs. change (128 <=? 37) with false in Hs. congruence.
Qed.

(* for text: the bytes fed to the encoder are the UTF-8 bytes of the code points *)
Theorem push_text_is_encode S text : usv_list text ->
  pe_display S (utf8_encode text) = encode S (utf8_encode text).
Proof. intros H. apply pe_display_is_encode, utf8_encode_bytes. exact H. Qed.
