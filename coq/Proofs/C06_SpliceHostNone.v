(* Proofs/C06_SpliceHostNone.v - WHOLE-URL parser agreement, part 8: the removal call set_host(None).
   On a canonical record with an authority and a host (non-special scheme: special schemes refuse with EmptyHost),
   whose path is neither empty (F-C06-5 / the opaque result) nor "//"-led (F-C02-2), the setter returns the canonical
   record WITHOUT authority: scheme ':' path ?query #fragment.  Its serialization is the old one with "//userinfo@host:port"
   cut out (cut_host), and Parser::parse_url on that text returns exactly the setter's record. *)
From RU Require Import Base.Prelude Base.Utf8 Base.Utf8Facts Model.AsciiSet Gen.Tables
  Model.PercentEncoding Model.HostT Model.UrlRecord Model.Parser Model.Setters Model.WF
  Proofs.ListN Proofs.C03_WF Proofs.C06_List Proofs.C06_WFI Proofs.C06_Tail Proofs.C06_Steps Proofs.C06_Suffix
  Proofs.C06_Front Proofs.C06_Port Proofs.C06_FragQuery Proofs.C06_HostNone
  Proofs.C14_Set Proofs.C14_Enc Proofs.C14_Views Proofs.C02_Enc Proofs.C02_Parts
  Proofs.C02_Opaque Proofs.C02_Path Proofs.C02_PathL1 Proofs.C02_Reach Proofs.C16_RT Proofs.C02_AuthParts
  Proofs.C02_Auth Proofs.C02_AuthWf Proofs.C02_PathSp Proofs.C02_AuthSp Proofs.C02_AuthMain Proofs.C02_SetQF
  Proofs.C02_Canon Proofs.C02_SetPort Proofs.C06_Agree Proofs.C06_AgreeUrl Proofs.C06_Splice Proofs.C06_SpliceAuth
  Proofs.C06_SpliceCred Proofs.C06_SplicePath Proofs.C06_SpliceNone.
Open Scope N_scope.
Open Scope list_scope.

(* the old serialization without "//userinfo@host:port" *)
Definition cut_host (u : url) : list N := nfirstn (scheme_end u + 1) (ser u) ++ nskipn (path_start u) (ser u).

Section HostNone.
Variable dbg : bool.
Variable hp hpo : list N -> result host.
Variable hd : host -> list N.
Hypothesis HRT : HostRT hp hpo hd.

Notation Canon := (Canon hp hpo hd).
Notation auth_ok := (auth_ok hp hpo hd).
Notation auth_url := (auth_url hd).
Notation auth_front := (auth_front hd).

(* the record the setter returns, for a scheme type other than file *)
Lemma set_host_none_eval u u' : wf_b u = true -> has_host u = true -> path_empty_at_end u = false ->
  st_is_file (scheme_type_of (nfirstn (scheme_end u) (ser u))) = false ->
  set_host dbg hp hpo hd u None = Some (u', SOk) -> u' = without_host u (scheme_end u + 1).
Proof.
  intros W Hh Hne Hnf H. unfold set_host in H. rewrite (cannot_be_a_base_eval u W) in H. cbn [bindo] in H.
  destruct (negb (byte_eqb (ser u) (scheme_end u + 1) 47)); [inversion H|].
  rewrite (u_scheme_type_eval u W) in H. cbn [bindo] in H. rewrite Hh in H.
  set (st0 := scheme_type_of (nfirstn (scheme_end u) (ser u))) in *.
  destruct (st_is_special st0 && negb (st_is_file st0)); [inversion H|].
  pose proof (has_host_authority u W Hh) as Ha.
  destruct (dbg_byte_is dbg _ (scheme_end u) 58); cbn [bindo] in H; [|discriminate].
  destruct (dbg_byte_is dbg _ (path_start u) 47); cbn [bindo] in H; [|discriminate].
  match type of H with bindo (assert_o ?c) _ = _ => destruct c eqn:Ec; cbn [assert_o bindo] in H; [|discriminate] end.
  unfold path_empty_at_end in Hne. rewrite Hne in H. rewrite Hnf in H.
  fold (path_empty_at_end u) in Hne.
  destruct (wh_bounds u (scheme_end u + 1) W Ha Hne ltac:(left; reflexivity)) as (B1 & B2 & B3).
  destruct (wf_tail_offsets_ge u (path_start u) W ltac:(lia)) as [Gq Gf].
  unfold sub_off_opt in H. rewrite !adjust_opt_ok in H
    by (destruct (query_start u), (fragment_start u); try exact I; lia).
  cbn [bindo] in H. inversion H; subst. unfold without_host. f_equal;
    apply option_map_shift_ext; intros i Hi; unfold shift; [rewrite Hi in Gq | rewrite Hi in Gf]; lia.
Qed.

Lemma qf_shift a b c q f : a <= b ->
  option_map (shift a c) (qf_qs b q) = qf_qs (b - a + c) q
  /\ option_map (shift a c) (qf_fs b q f) = qf_fs (b - a + c) q f.
Proof.
  intros L. unfold qf_qs, qf_fs, shift. destruct q, f; cbn [option_map]; split; try reflexivity; f_equal; lia.
Qed.

Lemma without_host_auth sch ui h pt p q f : marker_of (pth_text p) = [] ->
  without_host (auth_url sch ui h pt p q f) (nlen sch + 1) = noauth_url sch (pth_text p) q f.
Proof.
  intros Hm. unfold without_host, noauth_url, noauth_ser, noauth_pre. rewrite Hm. cbn [app].
  cbn [ser scheme_end path_start query_start fragment_start C02_Auth.auth_url].
  assert (nlen (sch ++ [58]) = nlen sch + 1) as L1 by (rewrite nlen_app; reflexivity).
  assert (nfirstn (nlen sch + 1) (C02_Auth.auth_ser hd sch ui h pt p q f) = sch ++ [58]) as E1.
  { rewrite (auth_ser_shape hd). rewrite <- L1.
    change (sch ++ 58 :: 47 :: 47 :: ui_text ui ++ hd h ++ port_text pt ++ pth_text p ++ qf_text q f)
      with (sch ++ [58] ++ 47 :: 47 :: ui_text ui ++ hd h ++ port_text pt ++ pth_text p ++ qf_text q f).
    rewrite app_assoc. apply nfirstn_app_len. }
  assert (nskipn (nlen (auth_front sch ui h pt)) (C02_Auth.auth_ser hd sch ui h pt p q f) = pth_text p ++ qf_text q f) as E2.
  { unfold C02_Auth.auth_ser, C02_Auth.auth_pre. rewrite <- app_assoc. apply nskipn_app_len. }
  assert (nlen sch + 3 <= nlen (auth_front sch ui h pt)) as L2.
  { unfold C02_Auth.auth_front. rewrite !nlen_app. change (nlen [58; 47; 47]) with 3. lia. }
  destruct (qf_shift (nlen (auth_front sch ui h pt)) (nlen (C02_Auth.auth_pre hd sch ui h pt p)) (nlen sch + 1) q f) as [Q1 Q2].
  { unfold C02_Auth.auth_pre. rewrite nlen_app. lia. }
  rewrite E1, E2, Q1, Q2, L1. rewrite N.add_0_r.
  replace (nlen (C02_Auth.auth_pre hd sch ui h pt p) - nlen (auth_front sch ui h pt) + (nlen sch + 1))
    with (nlen ((sch ++ [58]) ++ pth_text p)) by (unfold C02_Auth.auth_pre; rewrite !nlen_app; change (nlen [58]) with 1; lia).
  rewrite <- !app_assoc. reflexivity.
Qed.

(* the path of the record does not start with "//" *)
Lemma auth_2slash sch ui h pt p q f : path_starts_with_2slash (auth_url sch ui h pt p q f) = false ->
  forall segs last, p = Some (segs, last) -> good_seg last = true -> marker_of (pth_text p) = [].
Proof.
  intros H segs last -> Hl. unfold path_starts_with_2slash in H. cbn [ser path_start C02_Auth.auth_url] in H.
  unfold C02_Auth.auth_ser, C02_Auth.auth_pre in H. rewrite <- app_assoc in H. rewrite nskipn_app_len in H.
  unfold marker_of. cbn [pth_text] in *.
  destruct (starts_with s_ss (C02_Path.path_text segs last)) eqn:E; [|reflexivity]. exfalso.
  unfold C02_Path.path_text in *. unfold s_ss in *. cbn [starts_with app] in *.
  destruct (segs_text segs ++ last) as [|c r] eqn:Et.
  - cbn [app starts_with] in E. discriminate E.
  - cbn [app starts_with] in *. rewrite andb_true_r in *. congruence.
Qed.

Theorem set_host_none_auth sch ui h pt segs last q f u' : auth_ok STNotSpecial sch ui h pt (Some (segs, last)) q f ->
  h <> HDomain [] -> path_starts_with_2slash (auth_url sch ui h pt (Some (segs, last)) q f) = false ->
  set_host dbg hp hpo hd (auth_url sch ui h pt (Some (segs, last)) q f) None = Some (u', SOk) ->
  u' = noauth_url sch (C02_Path.path_text segs last) q f /\ noauth_ok sch segs last q f.
Proof.
  intros K Hh Hss E. set (p := Some (segs, last)) in *.
  pose proof (proj1 (auth_url_wf hp hpo hd HRT _ _ _ _ _ _ _ _ K)) as W.
  destruct (ak_p _ _ _ _ _ _ _ _ _ _ _ K) as [Hsegs Hlast].
  pose proof (auth_2slash sch ui h pt p q f Hss segs last eq_refl Hlast) as Hm.
  assert (u' = without_host (auth_url sch ui h pt p q f) (nlen sch + 1)) as ->.
  { apply (set_host_none_eval _ u' W).
    - unfold has_host. cbn [hosti C02_Auth.auth_url]. destruct h as [[|c d]|a|ps]; try reflexivity. contradiction Hh. reflexivity.
    - unfold path_empty_at_end. cbn [ser path_start C02_Auth.auth_url]. unfold C02_Auth.auth_ser, C02_Auth.auth_pre.
      apply N.eqb_neq. rewrite !nlen_app. cbn [p pth_text]. unfold C02_Path.path_text. rewrite nlen_cons. lia.
    - rewrite (auth_stype hd). rewrite (ak_st _ _ _ _ _ _ _ _ _ _ _ K). reflexivity.
    - exact E. }
  split; [apply without_host_auth; exact Hm|].
  destruct K as [Ksch Kst Kui Kh Kemp Kpt Kp Kq Kf Kb Kbq Kbf].
  assert (nlen sch + 3 <= nlen (auth_front sch ui h pt)) as L2.
  { unfold C02_Auth.auth_front. rewrite !nlen_app. change (nlen [58; 47; 47]) with 3. lia. }
  assert (nlen (noauth_pre sch (C02_Path.path_text segs last)) <= nlen (C02_Auth.auth_pre hd sch ui h pt p)) as L3.
  { unfold noauth_pre, C02_Auth.auth_pre. cbn [p pth_text] in *. rewrite Hm. cbn [app]. rewrite !nlen_app. change (nlen [58]) with 1. lia. }
  constructor; try assumption.
  - rewrite nlen_app. change (nlen [58]) with 1. lia.
  - destruct q; cbn [qf_qs opt_le] in *; [lia | exact I].
  - destruct f; cbn [qf_fs opt_le] in *; [lia | exact I].
Qed.

(* set_host(None) on a canonical record whose path starts with '/' (the empty path is F-C06-5, resp. - when a query or
   fragment follows - a debug assertion / an opaque-path result) but not with "//" (F-C02-2):
   the old text without "//userinfo@host:port" *)
Theorem splice_agreement_remove_host u u' : Canon u -> has_host u = true ->
  byte_eqb (ser u) (path_start u) 47 = true -> path_starts_with_2slash u = false ->
  set_host dbg hp hpo hd u None = Some (u', SOk) ->
  Canon u' /\ ser u' = cut_host u /\ parse_url dbg hp hpo hd None None (cut_host u) = POk u'.
Proof.
  intros C Hh Hsl Hss E.
  assert (wf_b u = true) as W by exact (proj1 (proj2 (Canon_fixpoint dbg hp hpo hd HRT u C))).
  pose proof (has_host_authority u W Hh) as Hau.
  destruct (Canon_auth_cases hp hpo hd u C Hau) as (st & sch & ui & h & pt & p & q & f & -> & K & Hc).
  assert (h <> HDomain []) as Hhn.
  { intros ->. unfold has_host in Hh. cbn [hosti C02_Auth.auth_url hi_of_host] in Hh. discriminate Hh. }
  destruct Hc as [[-> Hp]|[-> Hp]].
  - destruct p as [[segs last]|].
    + destruct (set_host_none_auth sch ui h pt segs last q f u' K Hhn Hss E) as [-> Kn].
      pose proof (Canon_noauth hp hpo hd sch segs last q f Kn) as C'.
      assert (ser (noauth_url sch (C02_Path.path_text segs last) q f) = cut_host (auth_url sch ui h pt (Some (segs, last)) q f)) as Es.
      { change (C02_Path.path_text segs last) with (pth_text (Some (segs, last))).
        rewrite <- (without_host_auth sch ui h pt (Some (segs, last)) q f).
        - unfold without_host, cut_host. cbn [ser scheme_end C02_Auth.auth_url]. reflexivity.
        - destruct (ak_p _ _ _ _ _ _ _ _ _ _ _ K) as [_ Hlast].
          exact (auth_2slash sch ui h pt _ q f Hss segs last eq_refl Hlast). }
      split; [exact C'|]. split; [exact Es|]. rewrite <- Es. exact (Canon_reparse dbg hp hpo hd HRT _ C').
    + exfalso. cbn [ser path_start C02_Auth.auth_url] in Hsl. unfold C02_Auth.auth_ser, C02_Auth.auth_pre in Hsl.
      cbn [pth_text] in Hsl. rewrite app_nil_r in Hsl. rewrite (C02_AuthWf.byte_eqb_head _ _ _ _ eq_refl) in Hsl.
      unfold qf_text in Hsl. destruct q; destruct f; cbn in Hsl; discriminate Hsl.
  - exfalso. unfold set_host in E. rewrite (cannot_be_a_base_eval _ W) in E. cbn [bindo] in E.
    rewrite (auth_byte_slash hd) in E. cbn [negb] in E.
    rewrite (u_scheme_type_eval _ W) in E. cbn [bindo] in E. rewrite Hh in E.
    rewrite (auth_stype hd), (ak_st _ _ _ _ _ _ _ _ _ _ _ K) in E. cbn [st_is_special st_is_file andb negb] in E. inversion E.
Qed.

End HostNone.
