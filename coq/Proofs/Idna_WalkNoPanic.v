(* Proofs/Idna_WalkNoPanic.v - Uts46::process / to_ascii / to_user_interface reach no panic site, outside the exact class
   of finding F-C11-2 (Known_C11, mark-errors mode only), for every adapter with AdapterNP (Proofs/C04_Uts46_Inner.v:
   process_inner is panic-free) and relative to EncOKInner: the internal Punycode encoder succeeds on every label of
   domain_buffer that is neither ASCII nor marked (discharged from the length cap of check_label and C13_internal in
   Proofs/Idna_WalkEnc.v).  Also: every text to_ascii returns is ASCII (no premise NvNoTrunc). *)
From RU Require Import Base.Prelude Base.Utf8 Base.U32_c13 Gen.Tables Model.Punycode Model.Uts46
  Proofs.C13_Ascii
  Proofs.Idna_Sim Proofs.Idna_Api Proofs.Idna_Known Proofs.Idna_Hyp Proofs.Idna_Redisc
  Proofs.Idna_C10_Deny Proofs.Idna_C10_Prefix Proofs.Idna_C10_Inner Proofs.Idna_C10_Walk
  Proofs.Idna_Mark Proofs.Idna_MarkWalk Proofs.Idna_MarkFffd Proofs.Idna_WalkFun Proofs.Idna_WalkInv Proofs.Idna_WalkApi
  Proofs.C04_Uts46_Inner.

Definition enc_ok (cfg : bool) (l : list N) : Prop :=
  is_ascii_l l = true \/ fffd l = true \/ exists o, encode_internal cfg l = Ok o.
Definition EncOKInner (A : adapter) (cfg : bool) (hy : hyphens) (deny : N) (d : list N) : Prop :=
  match process_inner A cfg false hy deny d with
  | IRes _ _ _ db _ => Forall (enc_ok cfg) (split_on DOT db)
  | IPanic _ => True
  end.

Lemma outs_ok cfg uni labels : forall aps, Forall (enc_ok cfg) labels ->
  (forall l, In l labels -> uni l = false -> is_ascii_l l = false /\ fffd l = false) ->
  exists os, outs cfg uni labels aps = inl os.
Proof.
  induction labels as [|l ls IH]; intros aps He Hu; [exists []; reflexivity|].
  destruct aps as [|ip ips]; [exists []; reflexivity|]. inversion He as [|? ? Hl Hls]; subst.
  destruct (IH ips Hls (fun x Hx => Hu x (or_intror Hx))) as (os & Ho). cbn [outs]. rewrite Ho.
  destruct ip as [m|m|]; cbn [out_label]; [eauto| |].
  - destruct (uni l); eauto.
  - destruct (uni l) eqn:E; [eauto|]. destruct (Hu l (or_introl eq_refl) E) as [H1 H2].
    destruct Hl as [Hl|[Hl|(o & Hl)]]; [congruence|congruence|]. unfold enc_label. rewrite Hl. eauto.
Qed.

Lemma efffd_in labels l : efffd labels = false -> In l labels -> fffd l = false.
Proof.
  induction labels as [|x r IH]; intros H Hin; [destruct Hin|]. cbn [efffd existsb] in H. apply orb_false_iff in H.
  destruct Hin as [->|Hin]; [exact (proj1 H)|exact (IH (proj2 H) Hin)].
Qed.

Lemma uni1_mark_false p tld bd l : uni1 false p tld bd l = false -> is_ascii_l l = false /\ fffd l = false.
Proof.
  unfold uni1, pp1. destruct (classify_for_punycode l) eqn:E; try discriminate. intros _.
  split; [exact (classify_unicode_nonascii l E)|exact (classify_unicode_nofffd l E)].
Qed.

(* with had_errors set, outside Known_C11 some label forces a write *)
Lemma stays_no_fffd p tld bd labels aps : pre_ok labels aps ->
  stays (uni1 false p tld bd) labels aps = true -> efffd labels = false.
Proof.
  induction 1 as [|lab ip labels aps Hip _ IH]; intros Hs; [reflexivity|]. cbn [stays] in Hs.
  apply andb_true_iff in Hs. destruct Hs as [H1 H2]. cbn [efffd existsb]. fold (efffd labels). rewrite (IH H2), orb_false_r.
  destruct ip as [m|m|]; cbn [stay_label] in H1; [exact Hip| |discriminate].
  apply andb_true_iff in H1. destruct H1 as [H1 _]. apply negb_true_iff in H1. exact (proj2 (uni1_mark_false _ _ _ _ H1)).
Qed.

Lemma to_lower_ascii c : is_ascii c -> is_ascii (to_lower c).
Proof. unfold is_ascii, to_lower, is_upper. intros H. destruct ((65 <=? c) && (c <=? 90)) eqn:E; lia. Qed.
Lemma lower_ascii m : ascii m -> ascii (map to_lower m).
Proof. intros H. apply Forall_forall. intros x Hx. apply in_map_iff in Hx. destruct Hx as (c & <- & Hc). unfold ascii in H. rewrite Forall_forall in H. exact (to_lower_ascii c (H c Hc)). Qed.
Lemma is_ascii_l_spec l : is_ascii_l l = true <-> ascii l.
Proof.
  unfold is_ascii_l, ascii. rewrite forallb_forall, Forall_forall. unfold is_ascii_cp, is_ascii.
  split; intros H x Hx; specialize (H x Hx); lia.
Qed.

Lemma outs_ascii cfg labels : forall aps os, Forall mixed_ascii aps -> outs cfg is_ascii_l labels aps = inl os -> Forall ascii os.
Proof.
  induction labels as [|l ls IH]; intros aps os Hm H; [inversion H; constructor|].
  destruct aps as [|ip ips]; [inversion H; constructor|]. cbn [outs] in H. inversion Hm as [|? ? Hip Hips]; subst.
  destruct (out_label cfg is_ascii_l l ip) as [o|s] eqn:Eo; [|discriminate].
  destruct (outs cfg is_ascii_l ls ips) as [os'|s] eqn:Eos; [|discriminate]. inversion H. subst os.
  constructor; [|exact (IH ips os' Hips Eos)].
  destruct ip as [m|m|]; cbn [out_label mixed_ascii] in *.
  - inversion Eo. exact (lower_ascii m Hip).
  - destruct (is_ascii_l l) eqn:E; inversion Eo; subst; [apply is_ascii_l_spec; exact E|exact (lower_ascii m Hip)].
  - destruct (is_ascii_l l) eqn:E; [inversion Eo; subst; apply is_ascii_l_spec; exact E|].
    unfold enc_label in Eo. destruct (encode_internal cfg l) as [o'| |s] eqn:Ee; inversion Eo.
    unfold encode_internal in Ee. apply encode_into_ascii in Ee.
    repeat (constructor; [unfold is_ascii; lia|]). exact Ee.
Qed.

Section NoPanic.
Variable A : adapter.
Variable cfg : bool.
Hypothesis HNP : AdapterNP A.

Definition status_fine (st : pstatus) : Prop := match st with PPanic _ | PSinkError => False | _ => True end.

Theorem process_no_panic ff p d deny hy w : bytes d -> EncOKInner A cfg hy deny d ->
  (ff = false -> Known_C11 A cfg d deny hy = false) ->
  status_fine (fst (fst (process A cfg ff p d deny hy None None w))).
Proof.
  intros Hb HE HK.
  destruct (process_inner A cfg ff hy deny d) as [ptu bd he db ap|site] eqn:Ei.
  2:{ exfalso. exact (process_inner_np A cfg HNP ff hy deny d Hb site Ei). }
  destruct (inner_facts A cfg ff hy deny d _ _ _ _ _ Hb Ei) as [(-> & -> & -> & Hne)|[(-> & -> & Ha)|[HB Hm]]].
  - unfold process. rewrite Ei. destruct (0 =? len d) eqn:E; [apply len_nil_iff in E; contradiction|]. exact I.
  - unfold process. rewrite Ei, N.eqb_refl, andb_false_r. exact I.
  - assert (Hne : ptu <> len d) by (destruct HB as [Hlt _]; lia).
    destruct (ff && he) eqn:Efh.
    { unfold process. rewrite Ei. replace (ptu =? len d) with false by (symmetry; apply N.eqb_neq; exact Hne). rewrite Efh. exact I. }
    pose proof HB as (_ & Hlen & He1 & Hfd & Hpo & P & rl & Hd & HP & Hcv & HaP & Hma).
    rewrite (process_B A cfg ff p d deny hy None None w _ _ _ _ _ Ei Hne Efh Hfd). cbv zeta. rewrite run_sink_none. cbn [negb].
    unfold EncOKInner in HE. rewrite Hm in HE.
    assert (Hffhe : ff = true -> he = false) by (intros ->; exact Efh).
    pose proof (walk1_spec cfg d he ff p (tld_of db) bd (split_on DOT db) ap false ptu false false P rl Hlen
                  ltac:(intros Hf; rewrite <- He1; exact (Hffhe Hf))
                  ltac:(intros _; split; [apply split_on_ne|cbn [tailtext]; repeat split; assumption])) as HW.
    destruct (outs_ok cfg (uni1 ff p (tld_of db) bd) (split_on DOT db) ap HE) as (os & Eo).
    { intros l Hin Hu. destruct ff.
      - split; [exact (uni1_false_nonascii _ _ _ _ _ Hu)|]. apply (efffd_in (split_on DOT db)); [|exact Hin].
        rewrite <- He1. exact (Hffhe eq_refl).
      - exact (uni1_mark_false _ _ _ _ Hu). }
    rewrite Eo in HW. unfold Post1, Res1 in HW. cbn [negb andb] in HW.
    destruct (stays (uni1 ff p (tld_of db) bd) (split_on DOT db) ap) eqn:Es.
    + destruct HW as [_ HW]. destruct (cfg && he) eqn:Ech; [|rewrite HW; exact I].
      exfalso. apply andb_true_iff in Ech. destruct Ech as [_ ->]. destruct ff; [specialize (Hffhe eq_refl); discriminate|].
      specialize (HK eq_refl). unfold Known_C11 in HK. rewrite Hm in HK.
      assert (Hpre : pre_ok (split_on DOT db) ap).
      { destruct bd; [|exact (Hpo eq_refl)]. cbn [andb] in HK. exact (known_c11_pre_ok _ _ Hlen HK). }
      rewrite (stays_no_fffd _ _ _ _ _ Hpre Es) in He1. discriminate.
    + destruct HW as [HW _]. rewrite HW. destruct he; [exact I|].
      destruct (huo_fin ff p (tld_of db) bd false (split_on DOT db) ap && w); [|exact I].
      rewrite run_sink_none. cbn [negb].
      pose proof (walk2_spec cfg d false (split_on DOT db) ap false ptu false P rl Hlen
                    ltac:(intros _; cbn [tailtext]; repeat split; assumption)) as HW2.
      destruct (outs_ok cfg is_ascii_l (split_on DOT db) ap HE) as (os2 & Eo2).
      { intros l Hin Hu. split; [exact Hu|]. apply (efffd_in (split_on DOT db)); [symmetry; exact He1|exact Hin]. }
      rewrite Eo2 in HW2. unfold Post2, Res2 in HW2. destruct HW2 as [HW2 _]. rewrite HW2. exact I.
Qed.

(* what to_ascii writes is ASCII *)
Theorem to_ascii_wrote_ascii d deny hy s1 s2 : bytes d ->
  process A cfg true never_unicode d deny hy None None false = (PWroteToSink, s1, s2) -> ascii s1.
Proof.
  intros Hb H.
  destruct (process_inner A cfg true hy deny d) as [ptu bd he db ap|site] eqn:Ei.
  2:{ unfold process in H. rewrite Ei in H. discriminate. }
  destruct (inner_facts A cfg true hy deny d _ _ _ _ _ Hb Ei) as [(_ & -> & -> & Hne)|[(-> & -> & Ha)|[HB Hm]]].
  - exfalso. unfold process in H. rewrite Ei in H.
    destruct (0 =? len d) eqn:E; [apply len_nil_iff in E; contradiction|]. discriminate.
  - exfalso. unfold process in H. rewrite Ei, N.eqb_refl, andb_false_r in H. discriminate.
  - assert (Hne : ptu <> len d) by (destruct HB as [Hlt _]; lia).
    destruct he.
    { exfalso. unfold process in H. rewrite Ei in H.
      replace (ptu =? len d) with false in H by (symmetry; apply N.eqb_neq; exact Hne). discriminate. }
    pose proof HB as (_ & Hlen & He1 & Hfd & Hpo & P & rl & Hd & HP & Hcv & HaP & Hma).
    rewrite (process_B A cfg true never_unicode d deny hy None None false _ _ _ _ _ Ei Hne eq_refl Hfd) in H.
    cbv zeta in H. rewrite run_sink_none in H. cbn [negb] in H.
    pose proof (walk1_spec cfg d false true never_unicode (tld_of db) bd (split_on DOT db) ap false ptu false false P rl Hlen
                  ltac:(intros _; symmetry; exact He1)
                  ltac:(intros _; split; [apply split_on_ne|cbn [tailtext]; repeat split; assumption])) as HW.
    rewrite (outs_agree cfg _ _ _ _ (agree_all _ _ (uni1_never (tld_of db) bd) _ _)) in HW.
    destruct (walk1 cfg true never_unicode d (tld_of db) bd false (split_on DOT db) ap false ptu false false) as [ws we].
    cbn [fst snd] in *. destruct we as [|huo|site]; [discriminate| |discriminate].
    rewrite andb_false_r in H. inversion H. subst s1 s2.
    unfold Post1 in HW. destruct (outs cfg is_ascii_l (split_on DOT db) ap) as [os|site] eqn:Eo; [|discriminate].
    unfold Res1 in HW. cbn [negb andb snd tailtext] in HW.
    destruct (stays (uni1 true never_unicode (tld_of db) bd) (split_on DOT db) ap).
    { destruct HW as [_ HW]. rewrite andb_false_r in HW. discriminate. }
    destruct HW as [_ HW]. unfold wcat in HW. cbn [fst] in HW. rewrite HW.
    apply ascii_app. split; [exact HaP|]. apply join_dots_Forall; [unfold is_ascii, DOT; lia|].
    exact (outs_ascii cfg _ _ _ Hma Eo).
Qed.

Theorem to_ascii_no_panic d deny hy dns : bytes d -> EncOKInner A cfg hy deny d ->
  forall site, to_ascii A cfg d deny hy dns <> Panic site.
Proof.
  intros Hb HE site. unfold to_ascii.
  pose proof (process_no_panic true never_unicode d deny hy false Hb HE ltac:(discriminate)) as HP.
  destruct (process A cfg true never_unicode d deny hy None None false) as [[st s1] s2] eqn:Ep. cbn [fst] in HP.
  destruct st; cbn [status_fine] in HP; try contradiction; try discriminate.
  - pose proof (passthrough_ascii_input A cfg true never_unicode d deny hy None None false s1 s2 Hb Ep) as Ha.
    apply is_ascii_l_spec in Ha. rewrite Ha. cbn [negb]. rewrite andb_false_r.
    destruct (negb (dns_is_ignore dns)); [|discriminate].
    destruct (negb (verify_dns_length d (dns_is_root dns))); discriminate.
  - pose proof (to_ascii_wrote_ascii d deny hy s1 s2 Hb Ep) as Ha.
    apply is_ascii_l_spec in Ha. rewrite Ha. cbn [negb]. rewrite andb_false_r.
    destruct (negb (dns_is_ignore dns)); [|discriminate].
    destruct (negb (verify_dns_length s1 (dns_is_root dns))); discriminate.
Qed.

Theorem to_ui_no_panic d deny hy p : bytes d -> EncOKInner A cfg hy deny d -> Known_C11 A cfg d deny hy = false ->
  forall site, to_user_interface A cfg d deny hy p <> UIPanic site.
Proof.
  intros Hb HE HK site. unfold to_user_interface.
  pose proof (process_no_panic false p d deny hy false Hb HE (fun _ => HK)) as HP.
  destruct (process A cfg false p d deny hy None None false) as [[st s1] s2]. cbn [fst] in HP.
  destruct st; cbn [status_fine] in HP; try contradiction; discriminate.
Qed.

(* every text to_ascii returns is ASCII: no premise on the adapter or the deny list *)
Theorem to_ascii_returns_ascii_all d deny hy dns b r : bytes d -> to_ascii A cfg d deny hy dns = Ok (b, r) -> ascii r.
Proof.
  intros Hb H. unfold to_ascii in H.
  destruct (process A cfg true never_unicode d deny hy None None false) as [[st s1] s2] eqn:Ep.
  destruct st; try discriminate.
  - pose proof (passthrough_ascii_input A cfg true never_unicode d deny hy None None false s1 s2 Hb Ep) as Ha.
    destruct (negb (dns_is_ignore dns)); [|inversion H; subst; exact Ha].
    destruct (cfg && negb (is_ascii_l d)); [discriminate|].
    destruct (negb (verify_dns_length d (dns_is_root dns))); [discriminate|inversion H; subst; exact Ha].
  - pose proof (to_ascii_wrote_ascii d deny hy s1 s2 Hb Ep) as Ha.
    destruct (negb (dns_is_ignore dns)); [|inversion H; subst; exact Ha].
    destruct (cfg && negb (is_ascii_l s1)); [discriminate|].
    destruct (negb (verify_dns_length s1 (dns_is_root dns))); [discriminate|inversion H; subst; exact Ha].
Qed.
End NoPanic.
