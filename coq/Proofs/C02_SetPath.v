(* Proofs/C02_SetPath.v - L2 for Url::set_path (and url::quirks::set_pathname) on the canonical records with authority.
   The setter cuts the serialization behind the path, runs the path start state (setter context) on the argument
   behind everything in front of the path, and re-attaches query and fragment with shifted offsets.  By
   C02_PathSetter the new path text is canonical whatever the argument, so the result is the canonical record with
   the new path. *)
From RU Require Import Base.Prelude Base.Utf8 Base.Utf8Facts Model.AsciiSet Gen.Tables
  Model.PercentEncoding Model.HostT Model.UrlRecord Model.Parser Model.Setters Model.WF
  Proofs.ListN Proofs.C14_Set Proofs.C14_Enc Proofs.C14_Views Proofs.C02_Enc Proofs.C02_Parts
  Proofs.C02_Opaque Proofs.C02_Path Proofs.C02_PathL1 Proofs.C02_Reach Proofs.C16_RT Proofs.C02_AuthParts
  Proofs.C02_Auth Proofs.C02_AuthWf Proofs.C02_PathSp Proofs.C02_AuthSp Proofs.C02_AuthMain Proofs.C02_SetQF
  Proofs.C02_Canon Proofs.C02_SetPort Proofs.C02_SetHostFrame Proofs.C02_SetScheme Proofs.C02_PathSetter.
Open Scope N_scope.
Open Scope list_scope.

Section Frame.
Variable dbg : bool.
Variables (sch Y P : list N) (ue hs he : N) (hi : host_internal) (pt : option N).
(* F = everything in front of the path; it starts with scheme ":/" (so the record is not cannot-be-a-base) *)
Notation F := (sch ++ 58 :: 47 :: Y).
Notation U pre q f := (qf_url pre (nlen sch) ue hs he hi pt (nlen F) q f).

Lemma adjust_qs0 n m q : adjust_opt dbg (qf_qs n q) n m = Some (qf_qs m q).
Proof. destruct q; cbn [qf_qs adjust_opt]; [|reflexivity]. rewrite adjust_ge by lia. cbn [bindo]. do 2 f_equal. lia. Qed.

Lemma adjust_fs0 n m q f : adjust_opt dbg (qf_fs n q f) n m = Some (qf_fs m q f).
Proof.
  destruct f; cbn [qf_fs adjust_opt]; [|reflexivity]. rewrite adjust_ge by lia. cbn [bindo]. do 2 f_equal. lia.
Qed.

Lemma take_after_path_qf pre q f :
  take_after_path (U pre q f)
  = Some (mkUrl pre (nlen sch) ue hs he hi pt (nlen F) (qf_qs (nlen pre) q) (qf_fs (nlen pre) q f), qf_text q f).
Proof.
  unfold take_after_path.
  assert (forall i, i = nlen pre ->
            (a <- u_slice_from (U pre q f) i ;; Some (set_ser (U pre q f) (truncate (ser (U pre q f)) i), a))
            = Some (mkUrl pre (nlen sch) ue hs he hi pt (nlen F) (qf_qs (nlen pre) q) (qf_fs (nlen pre) q f), qf_text q f)) as G.
  { intros i ->. unfold u_slice_from, qf_url. cbn [ser].
    rewrite slice_from_o_some by (rewrite nlen_app; lia). rewrite nskipn_app_len. cbn [bindo].
    unfold truncate. rewrite nfirstn_app_len. reflexivity. }
  destruct q as [x|]; [|destruct f as [y|]].
  - change (query_start (U pre (Some x) f)) with (Some (nlen pre)). cbv iota. exact (G _ eq_refl).
  - change (query_start (U pre None (Some y))) with (@None N).
    change (fragment_start (U pre None (Some y))) with (Some (nlen pre + nlen (qf_qtext None))). cbv iota.
    apply G. cbn [qf_qtext]. rewrite nlen_nil. lia.
  - change (query_start (U pre None None)) with (@None N). change (fragment_start (U pre None None)) with (@None N). cbv iota.
    rewrite U_none_none. reflexivity.
Qed.

Lemma cbb_frame X ue' hs' he' hi' pt' ps' qs' fs' :
  cannot_be_a_base (mkUrl (F ++ X) (nlen sch) ue' hs' he' hi' pt' ps' qs' fs') = Some false.
Proof.
  unfold cannot_be_a_base, u_slice_from. cbn [ser scheme_end].
  replace ((sch ++ 58 :: 47 :: Y) ++ X) with ((sch ++ [58]) ++ 47 :: Y ++ X) by (rewrite <- !app_assoc; reflexivity).
  replace (nlen sch + 1) with (nlen (sch ++ [58])) by (rewrite nlen_app; reflexivity).
  rewrite slice_from_o_some by (rewrite (nlen_app (sch ++ [58])); lia). rewrite nskipn_app_len. reflexivity.
Qed.

Lemma scheme_frame X ue' hs' he' hi' pt' ps' qs' fs' :
  scheme (mkUrl (F ++ X) (nlen sch) ue' hs' he' hi' pt' ps' qs' fs') = Some sch.
Proof.
  unfold scheme, u_slice_to. cbn [ser scheme_end]. rewrite slice_to_o_some by (rewrite !nlen_app; lia).
  rewrite <- !app_assoc. rewrite nfirstn_app_len. reflexivity.
Qed.

Theorem set_path_frame q f x u' : set_path dbg (U (F ++ P) q f) x = Some u' ->
  exists s1 hh rm, parse_path_start dbg CSetter (scheme_type_of sch) true F x = POk (s1, hh, rm) /\ u' = U s1 q f.
Proof.
  unfold set_path. rewrite take_after_path_qf. cbn [bindo].
  rewrite cbb_frame. cbn [bindo]. unfold u_scheme_type. rewrite scheme_frame. cbn [bindo negb].
  cbn [ser path_start]. unfold truncate. rewrite nfirstn_app_len.
  destruct (parse_path_start dbg CSetter (scheme_type_of sch) true F x) as [[[s1 hh] rm]|e|] eqn:Ep; cbn [unpres bindo]; try discriminate.
  unfold restore_after_path, set_ser. cbn [ser query_start fragment_start scheme_end username_end host_start host_end hosti port path_start].
  rewrite adjust_qs0, adjust_fs0. cbn [bindo].
  intros E. inversion E; subst u'. exists s1, hh, rm. split; reflexivity.
Qed.
End Frame.


Section PathCanon.
Variable dbg : bool.
Variable hp hpo : list N -> result host.
Variable hd : host -> list N.
Hypothesis HRT : HostRT hp hpo hd.

Notation auth_ok := (auth_ok hp hpo hd).
Notation auth_url := (auth_url hd).
Notation auth_ser := (auth_ser hd).
Notation auth_front := (auth_front hd).
Notation Canon := (Canon hp hpo hd).

Lemma auth_front_F sch ui h pt : auth_front sch ui h pt = sch ++ 58 :: 47 :: (47 :: ui_text ui ++ hd h ++ port_text pt).
Proof. unfold C02_Auth.auth_front. rewrite <- app_assoc. reflexivity. Qed.

Lemma auth_ok_path st sch ui h pt p q f p' : auth_ok st sch ui h pt p q f -> pth_ok p' ->
  nlen (auth_ser sch ui h pt p' q f) <= U32_MAX_P -> auth_ok st sch ui h pt p' q f.
Proof.
  intros K Hp Hb. destruct K as [Ksch Kst Kui Kh Kemp Kpt Kp Kq Kf Kb Kbq Kbf].
  destruct (qf_bounds _ _ _ _ Hb) as [B1 B2]. constructor; assumption.
Qed.

Theorem set_path_auth st sch ui h pt p q f x u' : auth_ok st sch ui h pt p q f -> st_is_file st = false -> usv_list x ->
  set_path dbg (auth_url sch ui h pt p q f) x = Some u' -> nlen (ser u') <= U32_MAX_P ->
  exists p', auth_ok st sch ui h pt p' q f /\ (st = STSpecialNotFile -> pth_ok_sp p') /\ u' = auth_url sch ui h pt p' q f.
Proof.
  intros K Hnf Hx E Hb. rewrite auth_url_qf in E. unfold auth_pre in E. rewrite auth_front_F in E.
  apply set_path_frame in E. destruct E as (s1 & hh & rm & Ep & ->).
  rewrite <- auth_front_F in *. rewrite (ak_st _ _ _ _ _ _ _ _ _ _ _ K) in Ep.
  destruct st; [discriminate Hnf| |].
  - destruct (pps_setter_sp dbg _ x true s1 hh rm Hx (front_not_slash hp hpo hd sch ui h pt (ak_h _ _ _ _ _ _ _ _ _ _ _ K)) Ep)
      as (segs & last & Hs & Hl & ->).
    exists (Some (segs, last)).
    assert (qf_url (auth_front sch ui h pt ++ path_text segs last) (nlen sch) (nlen sch + 3 + ui_ulen ui) (nlen sch + 3 + nlen (ui_text ui))
                   (nlen sch + 3 + nlen (ui_text ui) + nlen (hd h)) (hi_of_host h) pt (nlen (auth_front sch ui h pt)) q f
            = auth_url sch ui h pt (Some (segs, last)) q f) as EU by (rewrite auth_url_qf; reflexivity).
    rewrite EU in *. split; [|split; [intros _; split; assumption | reflexivity]].
    apply (auth_ok_path _ sch ui h pt p q f); [exact K | | exact Hb].
    split; [exact (good_segs_sp_good segs Hs) | exact (good_seg_sp_good last Hl)].
  - destruct (pps_setter_ns dbg _ x true s1 hh rm Hx Ep) as (p' & Hp' & ->).
    exists p'.
    assert (qf_url (auth_front sch ui h pt ++ pth_text p') (nlen sch) (nlen sch + 3 + ui_ulen ui) (nlen sch + 3 + nlen (ui_text ui))
                   (nlen sch + 3 + nlen (ui_text ui) + nlen (hd h)) (hi_of_host h) pt (nlen (auth_front sch ui h pt)) q f
            = auth_url sch ui h pt p' q f) as EU by (rewrite auth_url_qf; reflexivity).
    rewrite EU in *. split; [|split; [discriminate | reflexivity]].
    exact (auth_ok_path _ sch ui h pt p q f p' K Hp' Hb).
Qed.

(* the forms without authority *)
Lemma opaque_no_authority sch P q f : starts_with [47] P = false -> has_authority_b (opaque_url sch P q f) = false.
Proof.
  intros HP. unfold has_authority_b. cbn [opaque_url ser scheme_end]. unfold opaque_ser, opaque_pre. rewrite <- !app_assoc.
  rewrite nskipn_app_len. cbn [app starts_with s_css]. rewrite N.eqb_refl. cbn [andb].
  destruct P as [|c r]; cbn [app].
  - unfold qf_text. destruct q; destruct f; reflexivity.
  - cbn [starts_with] in HP. rewrite andb_true_r in HP. cbn [starts_with]. rewrite HP. reflexivity.
Qed.

Lemma noauth_no_authority sch segs last q f : has_authority_b (noauth_url sch (path_text segs last) q f) = false.
Proof.
  unfold has_authority_b. cbn [noauth_url ser scheme_end]. unfold noauth_ser, noauth_pre, marker_of. rewrite <- !app_assoc.
  rewrite nskipn_app_len. cbn [app starts_with s_css]. rewrite N.eqb_refl. cbn [andb].
  destruct (starts_with s_ss (path_text segs last)) eqn:Es; [reflexivity|].
  unfold path_text in *. cbn [app starts_with s_ss] in *. cbn [N.eqb Pos.eqb andb] in *.
  destruct (segs_text segs ++ last) as [|c r] eqn:Er; cbn [app].
  - unfold qf_text. destruct q; destruct f; reflexivity.
  - cbn [starts_with] in *. exact Es.
Qed.

(* L2: set_path keeps Canon on records with an authority, for every argument *)
Theorem set_path_Canon u x u' : Canon u -> has_authority_b u = true -> usv_list x ->
  set_path dbg u x = Some u' -> nlen (ser u') <= U32_MAX_P -> Canon u'.
Proof.
  intros C Ha Hx E Hb. destruct C as [sch P q f K | sch segs last q f K | sch ui h pt p q f K | sch ui h pt p q f K Kp].
  - rewrite (opaque_no_authority sch P q f (ok_Ph _ _ _ _ K)) in Ha. discriminate Ha.
  - rewrite noauth_no_authority in Ha. discriminate Ha.
  - destruct (set_path_auth STNotSpecial sch ui h pt p q f x u' K eq_refl Hx E Hb) as (p' & K' & _ & ->).
    exact (Canon_auth hp hpo hd sch ui h pt p' q f K').
  - destruct (set_path_auth STSpecialNotFile sch ui h pt p q f x u' K eq_refl Hx E Hb) as (p' & K' & Kp' & ->).
    exact (Canon_special hp hpo hd sch ui h pt p' q f K' (Kp' eq_refl)).
Qed.

(* url::quirks::set_pathname: nothing on an opaque path, otherwise set_path with the argument or '/' argument *)
Theorem q_set_pathname_Canon u x u' : Canon u -> has_authority_b u = true -> usv_list x ->
  q_set_pathname dbg u x = Some u' -> nlen (ser u') <= U32_MAX_P -> Canon u'.
Proof.
  intros C Ha Hx. unfold q_set_pathname.
  destruct (cannot_be_a_base u) as [[|]|]; cbn [bindo]; [intros E _; inversion E; subst; exact C | | discriminate].
  destruct (u_scheme_type u) as [st|]; cbn [bindo]; [|discriminate].
  assert (usv_list (47 :: x)) as Hx' by (apply usv_cons; split; [left; lia | exact Hx]).
  destruct ((match x with 47 :: _ => true | _ => false end) || (st_is_special st && match x with 92 :: _ => true | _ => false end)).
  - exact (set_path_Canon u x u' C Ha Hx).
  - destruct (st_is_special st || negb (match x with [] => true | _ => false end) || negb (has_host u)).
    + exact (set_path_Canon u (47 :: x) u' C Ha Hx').
    + exact (set_path_Canon u x u' C Ha Hx).
Qed.
End PathCanon.
