(* Proofs/C03_ReachAll.v - the invariant wfh = wf_b /\ host_text_ok along ALL 19 mutators of C02's
   quantifier (C02_Reach.op / apply_op: the nine Url setters, set_ip_host, path_segments_mut sessions and the
   nine quirks setters), for successful and for failing calls, outside a COMPUTABLE exclusion excl03 u o u'
   (a boolean on the record before, the call and the record after):
     - F-C03-5  a host setter on a record that carries the "/." marker;
     - F-C02-4  a host setter that leaves an empty host in front of a stored port;
     - F-C02-2  set_host(None) on a path that starts with "//";
     - F-C02-3  set_path with '?' / '#' on an opaque path;
     - F-C02-8 / F-C03-5  a path setter on an authority-less record whose result starts with "//" without the
       marker, or does not start with "//" behind the marker (path_bad; exact: the result is then never wf_b);
     - auth_end_b u = false for set_path / quirks set_pathname: the text in front of the path of a special
       non-file URL ends in '/' (no reachable record is known to be in this class: it is an invariant that
       wf_b does not carry; see C03_FrontInv.v for its preservation).
   F-C06-5 (set_host(None) on an empty path at the end of the serialization) is NOT excluded: the frame fails
   there, the invariant does not. *)
From Coq Require Import String.
From RU Require Import Base.Prelude Base.Utf8 Model.AsciiSet Gen.Tables Model.PercentEncoding
  Model.HostT Model.UrlRecord Model.Parser Model.Setters Model.WF
  Proofs.ListN Proofs.C02_Reach Proofs.C02_AuthParts
  Proofs.C03_WF Proofs.C06_List Proofs.C06_WFI Proofs.C06_Tail Proofs.C06_Steps Proofs.C06_Suffix Proofs.C06_Front Proofs.C06_Atomic Proofs.C06_FragQuery
  Proofs.C06_HostNone Proofs.C06_Host Proofs.C06_Segments Proofs.C06_Path Proofs.C06_PathNoAuth Proofs.C06_Main
  Proofs.C06_PathMore Proofs.C06_Quirks Proofs.C05_CompSteps
  Proofs.C04_ParseTotal Proofs.C03_ReachParts Proofs.C03_Reach Proofs.C03_ReachFile.
Open Scope N_scope.
Open Scope list_scope.

Lemma omf_some {A B} (r : option (A * B)) a : option_map fst r = Some a -> exists b, r = Some (a, b).
Proof. destruct r as [[a0 b0]|]; cbn; intros H; [inversion H; subst; eauto | discriminate]. Qed.

(* ---------- the computable exclusions ---------- *)
Definition auth_end_b (u : url) : bool :=
  let st := scheme_type_of (nfirstn (scheme_end u) (ser u)) in
  negb (st_is_special st && negb (st_is_file st) && ends_with_byte 47 (nfirstn (path_start u) (ser u))).

Lemma auth_end_b_ok u : auth_end_b u = true <-> auth_end_ok u.
Proof.
  unfold auth_end_b, auth_end_ok. cbv zeta.
  destruct (st_is_special (scheme_type_of (nfirstn (scheme_end u) (ser u))));
    destruct (st_is_file (scheme_type_of (nfirstn (scheme_end u) (ser u))));
    destruct (ends_with_byte 47 (nfirstn (path_start u) (ser u))); cbn; split; intros H; try reflexivity; try discriminate;
    try (intros; try reflexivity; discriminate).
  discriminate (H eq_refl eq_refl).
Qed.

(* a path setter on an authority-less, non-opaque record: the result starts with "//" iff the marker is there *)
Definition path_bad (u u' : url) : bool :=
  negb (has_authority_b u) && negb (is_opaque_b u)
  && negb (Bool.eqb (path_starts_with_2slash u') (path_start u =? scheme_end u + 3)).

(* a host setter: marker (F-C03-5), or an empty new host in front of a stored port (F-C02-4) *)
Definition host_bad (u u' : url) : bool :=
  has_marker u || (has_authority_b u && hi_eqb (hosti u') HI_None && has_some (port u)).

Definition excl03 (u : url) (o : op) (u' : url) : bool :=
  match o with
  | OSetHost None => has_host u && path_starts_with_2slash u
  | OSetHost (Some _) | OSetIpHost _ | OQHost _ | OQHostname _ => host_bad u u'
  | OSetPath p => negb (auth_end_b u) || (is_opaque_b u && negb (forallb no_qh p)) || path_bad u u'
  | OQPathname _ => negb (auth_end_b u) || path_bad u u'
  | OPathSegments _ => path_bad u u'
  | _ => false
  end.

Lemma hi_eqb_none hi : hi_eqb hi HI_None = true <-> hi = HI_None.
Proof. destruct hi; cbn; split; intros H; try reflexivity; discriminate. Qed.

Lemma host_bad_false u u' : host_bad u u' = false ->
  (has_authority_b u = false -> path_start u = scheme_end u + 1 \/ path_start u <> scheme_end u + 3)
  /\ (has_authority_b u = true -> hosti u' = HI_None -> port u = None).
Proof.
  unfold host_bad, has_marker. intros H. apply orb_false_iff in H. destruct H as [H1 H2]. split.
  - intros Ha. rewrite Ha in H1. cbn [negb andb] in H1. right. apply N.eqb_neq. exact H1.
  - intros Ha Hn. rewrite Ha in H2. apply (proj2 (hi_eqb_none _)) in Hn. rewrite Hn in H2. cbn [andb] in H2.
    destruct (port u); [discriminate | reflexivity].
Qed.

(* without authority the path starts right behind "scheme:" unless the marker is there *)
Lemma noauth_no_marker u : wf_b u = true -> has_authority_b u = false -> path_start u <> scheme_end u + 3 ->
  path_start u = scheme_end u + 1.
Proof.
  intros W Ha Hm. destruct (nf_ps (wf_noauth_facts u W Ha)) as [X|(X & _)]; [exact X | contradiction].
Qed.

Section Steps.
Variable dbg : bool.
Variable hp hpo : list N -> result host.
Variable hd : host -> list N.
Hypothesis HW : HostWf hp hpo hd.

Let HF : host_fns_ok hp hpo hd := HostWf_fns_ok hp hpo hd HW.

(* ---------- path setters, all four layouts ---------- *)
Lemma path_bad_noauth u u' : path_bad u u' = false -> noauth_slash_path u -> path_starts_with_2slash u' = false.
Proof.
  intros G (Ha & Hsl & Hnm). unfold path_bad, is_opaque_b in G. rewrite Ha, Hsl, Hnm in G. cbn [negb andb] in G.
  replace (scheme_end u + 1 =? scheme_end u + 3) with false in G by (symmetry; apply N.eqb_neq; lia).
  destruct (path_starts_with_2slash u'); [discriminate | reflexivity].
Qed.

Lemma path_bad_marker u u' : wf_b u = true -> path_bad u u' = false -> marker_path u -> path_starts_with_2slash u' = true.
Proof.
  intros W G M. destruct (marker_heads u W M) as (Hsl & _). destruct M as [Ha Em].
  unfold path_bad, is_opaque_b in G. rewrite Ha, Hsl, Em, N.eqb_refl in G. cbn [negb andb] in G.
  destruct (path_starts_with_2slash u'); [reflexivity | discriminate].
Qed.

Lemma set_path_step u p u' : wfh u -> usv_list p -> auth_end_ok u ->
  (is_opaque_b u = true -> forallb no_qh p = true) -> path_bad u u' = false ->
  set_path dbg u p = Some u' -> wfh u'.
Proof.
  intros [W HT] Hp Hx Hq G H.
  destruct (path_layouts u W) as [Ha|[NA|[Ho|M]]].
  - exact (set_path_wf dbg u p u' (conj W HT) Ha Hp Hx H).
  - destruct (set_path_noauth_ok dbg u p u' W NA Hp H (path_bad_noauth u u' G NA)) as (A & B & _). split; assumption.
  - destruct (set_path_opaque_ok dbg u p u' W Ho Hp (Hq Ho) H) as (A & B & _). split; assumption.
  - destruct (set_path_marker_ok dbg u p u' W M Hp H) as [R _].
    destruct (R (path_bad_marker u u' W G M)) as (A & B & _). split; assumption.
Qed.

Lemma session_step u ops u' st : wfh u -> Forall psm_op_usv ops -> path_bad u u' = false ->
  path_segments_session dbg u ops = Some (u', st) -> wfh u'.
Proof.
  intros [W HT] Hops G H.
  destruct st; [|rewrite (path_segments_session_atomic dbg u ops u' _ H) by discriminate; split; assumption ..].
  destruct (path_layouts u W) as [Ha|[NA|[Ho|M]]].
  - exact (path_segments_session_wf dbg u ops u' SOk (conj W HT) Ha Hops H).
  - destruct (path_segments_session_noauth_ok dbg u ops u' W NA Hops H (path_bad_noauth u u' G NA)) as (A & B & _).
    split; assumption.
  - exfalso. unfold path_segments_session, path_segments_mut in H. rewrite (cannot_be_a_base_eval u W) in H.
    unfold is_opaque_b in Ho. rewrite Ho in H. cbn [bindo] in H. discriminate.
  - destruct (path_segments_session_marker_ok dbg u ops u' W M Hops H) as [R _].
    destruct (R (path_bad_marker u u' W G M)) as (A & B & _). split; assumption.
Qed.

Lemma q_set_pathname_step u v u' : wfh u -> usv_list v -> auth_end_ok u -> path_bad u u' = false ->
  q_set_pathname dbg u v = Some u' -> wfh u'.
Proof.
  intros K Hv Hx G H. pose proof K as [W _].
  destruct (q_set_pathname_eval dbg u v W) as (sch & _ & E). rewrite E in H. clear E.
  destruct (byte_eqb (ser u) (scheme_end u + 1) 47) eqn:Hsl; cbn [negb] in H; [|inversion H; subst; exact K].
  apply (set_path_step u _ u' K (q_pathname_arg_usv (scheme_type_of sch) (has_host u) v Hv) Hx); [|exact G | exact H].
  intros Ho. unfold is_opaque_b in Ho. rewrite Hsl in Ho. discriminate.
Qed.

(* ---------- host setters ---------- *)
Lemma host_set_post_wfh u u' h : host_set_post dbg hd u u' h -> wfh u'.
Proof. intros (A & B & _). split; assumption. Qed.

Lemma host_port_post_wfh u u' h np : host_port_post dbg hd u u' h np -> wfh u'.
Proof. intros (A & B & _). split; assumption. Qed.

Lemma host_bad_premises u u' : wf_b u = true -> host_bad u u' = false ->
  (has_authority_b u = false -> path_start u = scheme_end u + 1)
  /\ (has_authority_b u = true -> hosti u' = HI_None -> port u = None).
Proof.
  intros W G. destruct (host_bad_false u u' G) as [G1 G2]. split; [|exact G2].
  intros Ha. destruct (G1 Ha) as [X|X]; [exact X | exact (noauth_no_marker u W Ha X)].
Qed.

Lemma set_host_some_step u x u' st : wfh u -> host_bad u u' = false ->
  set_host dbg hp hpo hd u (Some x) = Some (u', st) -> wfh u'.
Proof using HW.
  intros [W HT] G H. destruct (host_bad_premises u u' W G) as [X2 X1].
  destruct st; [|rewrite (set_host_atomic dbg hp hpo hd u (Some x) u' _ H) by discriminate; split; assumption ..].
  unfold set_host in H. rewrite (cannot_be_a_base_eval u W) in H. cbn [bindo] in H.
  destruct (byte_eqb (ser u) (scheme_end u + 1) 47) eqn:Hsl; cbn [negb] in H; [|discriminate].
  unfold u_scheme_type in H. rewrite (scheme_eval u W) in H. cbn [bindo] in H.
  match type of H with (if ?c then _ else _) = _ => destruct c end; [discriminate|].
  match type of H with (match ?sub with Some _ => _ | None => _ end) = _ => destruct sub as [hsub|] end; [|discriminate].
  match type of H with (match ?r with Ok _ => _ | Err _ => _ end) = _ => destruct r as [host|e] eqn:Er end; [|discriminate].
  assert (host_disp_ok hd host) as Hd.
  { destruct HF as (F1 & F2 & _).
    match type of Er with (if ?c then _ else _) = _ => destruct c end; [exact (F1 _ _ Er) | exact (F2 _ _ Er)]. }
  destruct (set_host_internal dbg hd u host None) as [u0|] eqn:E; cbn [bindo] in H; [|discriminate].
  inversion H; subst u0. pose proof (set_host_internal_hosti dbg hd u host None u' E) as Hi.
  apply (host_set_post_wfh u u' host).
  apply (set_host_internal_post dbg hd u host u' W Hd); [|exact X2 | exact Hsl | exact E].
  intros Ha Hn. apply X1; [exact Ha | rewrite Hi; exact Hn].
Qed.

Lemma set_ip_host_step u h u' st : wfh u -> host_disp_ok hd h -> host_bad u u' = false ->
  set_ip_host dbg hd u h = Some (u', st) -> wfh u'.
Proof using.
  intros [W HT] Hd G H. destruct (host_bad_premises u u' W G) as [X2 X1].
  destruct st; [|rewrite (set_ip_host_atomic dbg hd u h u' _ H) by discriminate; split; assumption ..].
  pose proof H as H0. unfold set_ip_host in H0. rewrite (cannot_be_a_base_eval u W) in H0. cbn [bindo] in H0.
  destruct (byte_eqb (ser u) (scheme_end u + 1) 47) eqn:Hsl; cbn [negb] in H0; [|discriminate].
  destruct (set_host_internal dbg hd u h None) as [u0|] eqn:E; cbn [bindo] in H0; [|discriminate].
  inversion H0; subst u0. pose proof (set_host_internal_hosti dbg hd u h None u' E) as Hi.
  apply (host_set_post_wfh u u' h).
  apply (set_host_internal_post dbg hd u h u' W Hd); [|exact X2 | exact Hsl | exact E].
  intros Ha Hn. apply X1; [exact Ha | rewrite Hi; exact Hn].
Qed.

(* the file / empty-argument shortcut of the two quirks host setters *)
Lemma q_set_host_shortcut u sch u' : wf_b u = true -> scheme u = Some sch -> scheme_type_of sch = STFile ->
  q_set_host dbg hp hpo hd u [] = Some (u', SOk) -> set_host_internal dbg hd u (HDomain []) None = Some u'.
Proof using.
  intros W Hs Hf H. unfold q_set_host in H. rewrite (cannot_be_a_base_eval u W) in H. cbn [bindo] in H.
  destruct (byte_eqb (ser u) (scheme_end u + 1) 47); cbn [negb] in H; [|discriminate].
  rewrite Hs in H. cbn [bindo] in H. cbv zeta in H. rewrite Hf in H. cbn [scheme_type_eqb andb] in H.
  destruct (set_host_internal dbg hd u (HDomain []) None) as [u0|]; cbn [bindo] in H; [|discriminate].
  inversion H; reflexivity.
Qed.

Lemma q_set_hostname_shortcut u sch u' : wf_b u = true -> scheme u = Some sch -> scheme_type_of sch = STFile ->
  q_set_hostname dbg hp hpo hd u [] = Some (u', SOk) -> set_host_internal dbg hd u (HDomain []) None = Some u'.
Proof using.
  intros W Hs Hf H. unfold q_set_hostname in H. rewrite (cannot_be_a_base_eval u W) in H. cbn [bindo] in H.
  destruct (byte_eqb (ser u) (scheme_end u + 1) 47); cbn [negb] in H; [|discriminate].
  rewrite Hs in H. cbn [bindo] in H. cbv zeta in H. rewrite Hf in H. cbn [scheme_type_eqb andb] in H.
  destruct (set_host_internal dbg hd u (HDomain []) None) as [u0|]; cbn [bindo] in H; [|discriminate].
  inversion H; reflexivity.
Qed.

Lemma q_set_host_step u v u' st : wfh u -> host_bad u u' = false ->
  q_set_host dbg hp hpo hd u v = Some (u', st) -> wfh u'.
Proof using HW.
  intros [W HT] G H. destruct (host_bad_premises u u' W G) as [X2 X1].
  destruct st; [|rewrite (q_set_host_atomic dbg hp hpo hd u v u' _ H) by discriminate; split; assumption ..].
  destruct (q_set_host_post dbg hp hpo hd HF u v u' W X2 H) as (sch & h & Hs & [(Hf & -> & -> & P)|(rem & _ & P)]).
  - pose proof (q_set_host_shortcut u sch u' W Hs Hf H) as E.
    pose proof (set_host_internal_hosti dbg hd u (HDomain []) None u' E) as Hi. cbn [hi_of_host] in Hi.
    apply (host_set_post_wfh u u' (HDomain [])). apply P. intros Ha. exact (X1 Ha Hi).
  - destruct (q_host_port sch rem) as [np|]; [exact (host_port_post_wfh u u' h np P) | exact (host_set_post_wfh u u' h P)].
Qed.

Lemma q_set_hostname_step u v u' st : wfh u -> host_bad u u' = false ->
  q_set_hostname dbg hp hpo hd u v = Some (u', st) -> wfh u'.
Proof using HW.
  intros [W HT] G H. destruct (host_bad_premises u u' W G) as [X2 X1].
  destruct st; [|rewrite (q_set_hostname_atomic dbg hp hpo hd u v u' _ H) by discriminate; split; assumption ..].
  destruct (q_set_hostname_post dbg hp hpo hd HF u v u' W X2 H) as (sch & h & Hs & [(Hf & -> & -> & P)|(_ & P)]).
  - pose proof (q_set_hostname_shortcut u sch u' W Hs Hf H) as E.
    pose proof (set_host_internal_hosti dbg hd u (HDomain []) None u' E) as Hi. cbn [hi_of_host] in Hi.
    apply (host_set_post_wfh u u' (HDomain [])). apply P. intros Ha. exact (X1 Ha Hi).
  - exact (host_set_post_wfh u u' h P).
Qed.

(* ---------- set_host(None): F-C02-2 is excluded, F-C06-5 is not ---------- *)
(* a record whose (empty) path is the end of the serialization, with the '/' the setter appends first *)
Lemma empty_end_no_tail u : wf_b u = true -> path_empty_at_end u = true ->
  query_start u = None /\ fragment_start u = None /\ path_end u = path_start u.
Proof.
  intros W He. unfold path_empty_at_end in He. apply N.eqb_eq in He.
  pose proof (wf_qf_facts u W) as QF. pose proof (qf_q QF) as Q1. pose proof (qf_f QF) as Q2. unfold path_end.
  destruct (query_start u) as [q|]; [lia|]. destruct (fragment_start u) as [f|]; [lia|]. repeat split. exact He.
Qed.

Lemma empty_end_with_path u : wf_b u = true -> path_empty_at_end u = true ->
  with_path u [47] = set_ser u (ser u ++ [47]).
Proof.
  intros W He. destruct (empty_end_no_tail u W He) as (Eq & Ef & Epe).
  unfold path_empty_at_end in He. apply N.eqb_eq in He.
  unfold with_path, set_ser. rewrite Epe, Eq, Ef. cbn [option_map].
  rewrite nfirstn_all by lia. rewrite nskipn_all by lia. reflexivity.
Qed.

Lemma set_host_none_slash u u' : wf_b u = true -> has_host u = true -> path_empty_at_end u = true ->
  set_host dbg hp hpo hd u None = Some (u', SOk) ->
  wf_b (set_ser u (ser u ++ [47])) = true
  /\ set_host dbg hp hpo hd (set_ser u (ser u ++ [47])) None = Some (u', SOk).
Proof using.
  intros W Hh He H. pose proof (has_host_authority u W Hh) as Ha. pose proof (empty_end_with_path u W He) as Ewp.
  assert (wf_b (set_ser u (ser u ++ [47])) = true) as W'.
  { rewrite <- Ewp. apply (wp_wf u [47] W Ha); [reflexivity | right; exists []; reflexivity]. }
  split; [exact W'|].
  pose proof (wf_auth_facts u W Ha) as F.
  pose proof (af_ue F); pose proof (af_hs F); pose proof (af_he F); pose proof (af_ps F); pose proof (af_len F).
  unfold path_empty_at_end in He. pose proof He as He'. apply N.eqb_eq in He'.
  unfold set_host in H |- *. rewrite (cannot_be_a_base_eval u W) in H. rewrite (cannot_be_a_base_eval _ W'). cbn [bindo] in H |- *.
  cbn [ser set_ser scheme_end path_start query_start fragment_start].
  assert (byte_eqb (ser u ++ [47]) (scheme_end u + 1) 47 = byte_eqb (ser u) (scheme_end u + 1) 47) as Eb.
  { unfold byte_eqb. rewrite nnth_app_lt by lia. reflexivity. }
  rewrite Eb. destruct (negb (byte_eqb (ser u) (scheme_end u + 1) 47)); [discriminate|].
  unfold u_scheme_type in H |- *. rewrite (scheme_eval u W) in H. rewrite (scheme_eval _ W'). cbn [bindo] in H |- *.
  assert (piece (set_ser u (ser u ++ [47])) (pidx (set_ser u (ser u ++ [47])) BeforeScheme) (pidx (set_ser u (ser u ++ [47])) AfterScheme)
          = piece u (pidx u BeforeScheme) (pidx u AfterScheme)) as Ep.
  { unfold piece. cbn [pidx ser set_ser scheme_end]. rewrite N.sub_0_r. cbn [nskipn N.to_nat skipn].
    rewrite nfirstn_app_le by lia. reflexivity. }
  rewrite Ep. change (has_host (set_ser u (ser u ++ [47]))) with (has_host u). rewrite Hh in H |- *.
  match type of H with (if ?c then _ else _) = _ => destruct c end; [discriminate|].
  rewrite He in H.
  assert ((nlen (ser u ++ [47]) =? path_start u) = false) as En.
  { apply N.eqb_neq. rewrite nlen_app. change (nlen [47]) with 1. lia. }
  rewrite En. exact H.
Qed.

Lemma set_host_none_step u u' st : wfh u -> (has_host u && path_starts_with_2slash u = false) ->
  set_host dbg hp hpo hd u None = Some (u', st) -> wfh u'.
Proof using.
  intros [W HT] G H.
  destruct (set_host_none_ok dbg hp hpo hd u u' st W H) as (Herr & Hno & _).
  destruct st; [|rewrite Herr by discriminate; split; assumption ..].
  destruct (has_host u) eqn:Hh; [|rewrite (Hno eq_refl eq_refl); split; assumption].
  cbn [andb] in G.
  destruct (path_empty_at_end u) eqn:He.
  - destruct (set_host_none_slash u u' W Hh He H) as [W' H'].
    pose proof (has_host_authority u W Hh) as Ha. pose proof (empty_end_with_path u W He) as Ewp.
    apply (set_host_none_wf dbg hp hpo hd (set_ser u (ser u ++ [47])) u' SOk); [split; [exact W'|] | | | exact H'].
    + rewrite <- Ewp. apply (wp_host_text_ok u [47] W Ha); [right; exists []; reflexivity | exact HT].
    + unfold path_empty_at_end in He |- *. apply N.eqb_eq in He. cbn [ser set_ser path_start].
      apply N.eqb_neq. rewrite nlen_app. change (nlen [47]) with 1. lia.
    + unfold path_empty_at_end in He. apply N.eqb_eq in He. unfold path_starts_with_2slash. cbn [ser set_ser path_start].
      rewrite <- He. rewrite nskipn_app_exact. reflexivity.
  - exact (set_host_none_wf dbg hp hpo hd u u' SOk (conj W HT) He G H).
Qed.

(* ---------- one step, any of the 19 mutators ---------- *)
(* Url::set_ip_host is given an IpAddr by the caller, not by a host parser: its display is an address text *)
Definition IpDisp : Prop := forall h, op_args_ok (OSetIpHost h) -> host_disp_ok hd h.

Lemma usv_tail03 c (r : list N) : usv_list (c :: r) -> usv_list r.
Proof. intros H. inversion H; assumption. Qed.

Theorem step03 u o u' : IpDisp -> wfh u -> op_args_ok o -> excl03 u o u' = false ->
  apply_op dbg hp hpo hd u o = Some u' -> wfh u'.
Proof using HW.
  intros HIP K Ha G H. pose proof (wf_all dbg hp hpo hd u K) as (A1 & A2 & A3 & A4 & A5 & A6 & _ & _).
  destruct o; cbn [apply_op excl03 op_args_ok] in H, G, Ha; try (apply omf_some in H; destruct H as [st H]).
  - exact (A1 _ _ H).
  - exact (A2 _ _ Ha H).
  - apply orb_false_iff in G. destruct G as [G G3]. apply orb_false_iff in G. destruct G as [G1 G2].
    apply negb_false_iff in G1. apply auth_end_b_ok in G1.
    apply (set_path_step u p u' K Ha G1); [|exact G3 | exact H].
    intros Ho. rewrite Ho in G2. cbn [andb] in G2. apply negb_false_iff in G2. exact G2.
  - exact (A3 _ _ _ Ha H).
  - destruct h as [x|].
    + exact (set_host_some_step u x u' st K G H).
    + exact (set_host_none_step u u' st K G H).
  - exact (set_ip_host_step u h u' st K (HIP h Ha) G H).
  - exact (A4 _ _ _ H).
  - exact (A5 _ _ _ H).
  - exact (A6 _ _ _ H).
  - exact (session_step u ops u' st K Ha G H).
  - unfold q_set_protocol in H. cbv zeta in H. exact (A6 _ _ _ H).
  - exact (A5 _ _ _ H).
  - unfold q_set_password in H. exact (A4 _ _ _ H).
  - exact (q_set_host_step u s u' st K G H).
  - exact (q_set_hostname_step u s u' st K G H).
  - destruct K as [W HT]. destruct (q_set_port_ok dbg u s W HT) as (u2 & st2 & E & Herr & Hok).
    rewrite H in E. inversion E; subst u2 st2. destruct st.
    + destruct (Hok eq_refl) as (W' & HT' & _). split; assumption.
    + rewrite Herr by discriminate. split; assumption.
    + rewrite Herr by discriminate. split; assumption.
  - apply orb_false_iff in G. destruct G as [G1 G3]. apply negb_false_iff in G1. apply auth_end_b_ok in G1.
    exact (q_set_pathname_step u s u' K Ha G1 G3 H).
  - unfold q_set_search in H. eapply A2; [|exact H].
    destruct s as [|c r]; [exact I|]. destruct (N.eq_dec c 63) as [->|Hc].
    + exact (usv_tail03 _ _ Ha).
    + unfold str_arg_ok. destruct c as [|q]; [exact Ha|]. do 6 (destruct q as [q|q|]; try exact Ha). contradiction.
  - unfold q_set_hash in H. exact (A1 _ _ H).
Qed.

End Steps.
