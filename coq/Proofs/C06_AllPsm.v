(* Proofs/C06_AllPsm.v - the histories of C06_all extended by path_segments_mut sessions (all five editor
   operations, any &str arguments: F-C06-7 is fixed), by set_path on the authority-less '/'-led layout (C06_SpliceNoAuth.v) and by the mutators whose canonicity C02 proves outside its known step
   classes (C02_Reach4.canon_op3: set_ip_host, set_host(Some), set_scheme, quirks protocol, set_path / quirks
   pathname with ANY &str on URLs with an authority).  ReachC6p: every record of such a history is Canon, hence
   wfh, auth_end_ok, all_calls (C06_all) - and psm_calls: a session on such a record (with an authority) returns a
   canonical record which is with_path u (session_text ..), with the frame. *)
From Coq Require Import String.
From RU Require Import Proofs.C15_Ser.
From RU Require Import Base.Prelude Base.Utf8 Base.Utf8Facts Base.Outcome_c15 Model.AsciiSet Gen.Tables
  Model.PercentEncoding Model.HostT Model.UrlRecord Model.Parser Model.Setters Model.WF Model.FormUrlencoded
  Model.QueryPairs
  Proofs.ListN Proofs.C03_WF Proofs.C06_List Proofs.C06_WFI Proofs.C06_Tail Proofs.C06_Steps Proofs.C06_Suffix
  Proofs.C06_Front Proofs.C06_Atomic Proofs.C06_FragQuery Proofs.C06_Port Proofs.C06_Cred Proofs.C06_Scheme
  Proofs.C06_HostNone Proofs.C06_Host Proofs.C06_PathParser Proofs.C06_Path Proofs.C06_Segments Proofs.C06_PathNoAuth
  Proofs.C06_Main Proofs.C03_ReachParts Proofs.C03_ReachHost Proofs.C06_Quirks
  Proofs.C14_Set Proofs.C02_Enc Proofs.C02_Parts Proofs.C02_Opaque Proofs.C02_Path Proofs.C02_PathL1 Proofs.C02_Reach
  Proofs.C02_AuthParts Proofs.C02_Auth Proofs.C02_AuthWf Proofs.C02_PathSp Proofs.C02_AuthSp Proofs.C02_AuthMain
  Proofs.C02_Hist Proofs.C02_SetQF Proofs.C02_Canon Proofs.C02_SetPort Proofs.C02_JoinTail Proofs.C02_ReachPartial
  Proofs.C02_Form Proofs.C02_SetCred Proofs.C02_SetCredCanon Proofs.C02_QPort Proofs.C02_Reach3
  Proofs.C02_SetHostFrame Proofs.C02_SetHostCanon Proofs.C02_SetScheme Proofs.C02_PathSetter Proofs.C02_SetPath Proofs.C02_Reach4
  Proofs.C06_Agree Proofs.C06_AgreeUrl Proofs.C06_Splice Proofs.C06_SpliceAuth Proofs.C06_SpliceCred
  Proofs.C06_SplicePath Proofs.C06_SpliceHost Proofs.C06_All Proofs.C06_SegPush Proofs.C06_PushCanon Proofs.C06_SpliceNoAuth.
Open Scope N_scope.
Open Scope list_scope.

Section AllPsm.
Variable dbg : bool.
Variable hp hpo : list N -> result host.
Variable hd : host -> list N.
Hypothesis HOK : HostOK2 hp hpo hd.
Hypothesis HNE : host_nonempty hp hpo.

Let HRT : HostRT hp hpo hd := proj1 HOK.
Let HAb : host_above hp hpo hd := proj1 (proj2 HOK).
Let HIP : ip_clause hp hpo hd := proj2 (proj2 HOK).

Notation Canon := (Canon hp hpo hd).

Inductive ReachC6p : url -> Prop :=
| P_parse ovr input u :
    usv_list input -> nonfile_input input = true -> (ovr = None \/ special_input input = false) ->
    parse_url dbg hp hpo hd ovr None input = POk u -> ReachC6p u
| P_join ovr b input u :
    ReachC6p b -> usv_list input -> tail_ref input = true ->
    (ovr = None \/ st_is_special (scheme_type_of (b_scheme b)) = false) ->
    parse_url dbg hp hpo hd ovr (Some b) input = POk u -> ReachC6p u
| P_step u o u' :
    ReachC6p u -> canon_op3 u o = true -> op_args_ok o -> known_step2 dbg hp hpo hd u o = false ->
    apply_op dbg hp hpo hd u o = Some u' -> nlen (ser u') <= U32_MAX_P -> ReachC6p u'
| P_qpm u ops u' :
    ReachC6p u -> Forall op_ok ops -> query_pairs_session dbg u ops = Some u' ->
    nlen (ser u') <= U32_MAX_P -> ReachC6p u'
| P_path u x u' :
    ReachC6p u -> has_authority_b u = true -> usv_list x -> forallb no_qh x = true -> path_arg_ok (sp_of u) x ->
    set_path dbg u x = Some u' -> nlen (ser u') <= U32_MAX_P -> ReachC6p u'
| P_host u x u' :
    ReachC6p u -> has_authority_b u = true -> forallb (hostarg (sp_of u)) x = true ->
    set_host dbg hp hpo hd u (Some x) = Some (u', SOk) -> empty_host_ok u u' ->
    nlen (ser u') <= U32_MAX_P -> ReachC6p u'
| P_path_noauth u rest u' :
    ReachC6p u -> has_authority_b u = false -> byte_eqb (ser u) (scheme_end u + 1) 47 = true ->
    path_start u = scheme_end u + 1 -> usv_list (47 :: rest) -> forallb no_qh (47 :: rest) = true ->
    inp_starts_with_char 47 rest = false -> set_path dbg u (47 :: rest) = Some u' -> nlen (ser u') <= U32_MAX_P ->
    C06_HostNone.path_starts_with_2slash u' = false -> ReachC6p u'
| P_psm u ops u' :
    ReachC6p u -> has_authority_b u = true -> Forall psm_op_usv ops ->
    path_segments_session dbg u ops = Some (u', SOk) -> nlen (ser u') <= U32_MAX_P -> ReachC6p u'.

Lemma ReachC6_C6p u : ReachC6 dbg hp hpo hd u -> ReachC6p u.
Proof.
  induction 1 as [ovr input u Hu Hn Hov Hp | ovr b input u Hr IH Hu Ht Hov Hp | u o u' Hr IH Ht Ha Ho Hb
                 | u ops u' Hr IH Hops Hs Hb | u x u' Hr IH Hau Hx Hq Hpa E Hb | u x u' Hr IH Hau Hxa E Hemp Hb].
  - exact (P_parse ovr input u Hu Hn Hov Hp).
  - exact (P_join ovr b input u IH Hu Ht Hov Hp).
  - exact (P_step u o u' IH (canon_op_3 u o Ht) Ha (canon_op_not_known dbg hp hpo hd u o Ht) Ho Hb).
  - exact (P_qpm u ops u' IH Hops Hs Hb).
  - exact (P_path u x u' IH Hau Hx Hq Hpa E Hb).
  - exact (P_host u x u' IH Hau Hxa E Hemp Hb).
Qed.

Lemma ReachC3_C6p u : ReachC3 dbg hp hpo hd u -> ReachC6p u.
Proof.
  induction 1 as [ovr input u Hu Hn Hov Hp | ovr b input u Hr IH Hu Ht Hov Hp | u o u' Hr IH Ht Ha Hk Ho Hb
                 | u ops u' Hr IH Hops Hs Hb].
  - exact (P_parse ovr input u Hu Hn Hov Hp).
  - exact (P_join ovr b input u IH Hu Ht Hov Hp).
  - exact (P_step u o u' IH Ht Ha Hk Ho Hb).
  - exact (P_qpm u ops u' IH Hops Hs Hb).
Qed.

(* one step of C02_Reach4's operations keeps Canon (the case analysis of ReachC3_Canon) *)
Lemma canon_step3 u o u' : Canon u -> canon_op3 u o = true -> op_args_ok o -> known_step2 dbg hp hpo hd u o = false ->
  apply_op dbg hp hpo hd u o = Some u' -> nlen (ser u') <= U32_MAX_P -> Canon u'.
Proof.
  intros IH Ht Ha Hk Ho Hb. destruct (canon_op o) eqn:Ec.
  { exact (canon_step dbg hp hpo hd HRT u o u' IH Ec Ha Ho Hb). }
  destruct o; try discriminate Ec; try discriminate Ht; cbn [apply_op op_args_ok canon_op3] in *.
  - exact (C02_SetPath.set_path_Canon dbg hp hpo hd u p u' IH Ht Ha Ho Hb).
  - destruct h as [x|]; [|discriminate Ht].
    destruct (option_map_fst_some _ _ Ho) as [s Es].
    exact (set_host_some_Canon dbg hp hpo hd HRT HAb u x u' s HNE IH Ha Hk Es Hb).
  - destruct (option_map_fst_some _ _ Ho) as [s Es].
    exact (set_ip_host_Canon dbg hp hpo hd HRT HAb u h u' s HIP IH Ha Hk Es Hb).
  - destruct (option_map_fst_some _ _ Ho) as [s0 Es].
    exact (set_scheme_Canon dbg hp hpo hd u s u' s0 IH Es Hb).
  - destruct (option_map_fst_some _ _ Ho) as [s0 Es].
    exact (q_set_protocol_Canon dbg hp hpo hd u s u' s0 IH Es Hb).
  - exact (q_set_pathname_Canon dbg hp hpo hd u s u' IH Ht Ha Ho Hb).
Qed.

Theorem ReachC6p_Canon u : ReachC6p u -> Canon u.
Proof.
  induction 1 as [ovr input u Hu Hn Hov Hp | ovr b input u Hr IH Hu Ht Hov Hp | u o u' Hr IH Ht Ha Hk Ho Hb
                 | u ops u' Hr IH Hops Hs Hb | u x u' Hr IH Hau Hx Hq Hpa E Hb | u x u' Hr IH Hau Hxa E Hemp Hb
                 | u rest u' Hr IH Hna Hsl Hps Hx Hq Hn2 E Hb H2
                 | u ops u' Hr IH Hau Hu E Hb].
  - exact (parse_Canon dbg hp hpo hd HRT ovr input u HAb Hu Hn Hov Hp).
  - exact (join_tail_Canon dbg hp hpo hd HRT ovr b input u IH Hu Ht Hov Hp).
  - exact (canon_step3 u o u' IH Ht Ha Hk Ho Hb).
  - exact (qpm_Canon dbg hp hpo hd HRT u ops u' IH Hops Hs Hb).
  - exact (C06_SplicePath.set_path_Canon dbg hp hpo hd HRT u x u' IH Hau Hx Hq Hpa E Hb).
  - exact (set_host_Canon dbg hp hpo hd HRT HAb u x u' IH Hau Hxa E Hemp Hb).
  - exact (set_path_noauth_Canon dbg hp hpo hd u rest u' IH Hna Hsl Hps Hx Hq Hn2 E Hb H2).
  - exact (psm_Canon dbg hp hpo hd HRT u ops u' IH Hau Hu E Hb).
Qed.

(* what a path_segments_mut session does to a canonical record with an authority *)
Definition psm_calls (u : url) : Prop :=
  forall ops u', has_authority_b u = true -> Forall psm_op_usv ops ->
    path_segments_session dbg u ops = Some (u', SOk) -> nlen (ser u') <= U32_MAX_P ->
    Canon u' /\ u' = with_path u (session_text (st_of u) (path_bytes u) ops)
    /\ path u = Some (path_bytes u) /\ path u' = Some (session_text (st_of u) (path_bytes u) ops)
    /\ same_front dbg u u' /\ query dbg u' = query dbg u /\ fragment dbg u' = fragment dbg u.

Theorem psm_calls_canon u : Canon u -> psm_calls u.
Proof.
  intros C ops u' Hau Hu E Hb.
  pose proof (psm_Canon dbg hp hpo hd HRT u ops u' C Hau Hu E Hb) as C'.
  destruct (Canon_wfh dbg hp hpo hd HRT u C) as [W HT]. destruct (Canon_wfh dbg hp hpo hd HRT u' C') as [W' _].
  destruct (Canon_auth_cases hp hpo hd u C Hau) as (st & sch & ui & h & pt & p & q & f & Eu & K & Hc).
  assert (u' = with_path u (session_text (st_of u) (path_bytes u) ops) /\ path_bytes u' = session_text (st_of u) (path_bytes u) ops) as [X1 X2].
  { subst u. destruct (psm_auth dbg hp hpo hd HRT st sch ui h pt p q f ops u' K Hc Hu E) as (p' & Hc' & Eu' & Et).
    assert (st_of (auth_url hd sch ui h pt p q f) = st) as Est.
    { unfold st_of. rewrite (auth_stype hd). exact (ak_st _ _ _ _ _ _ _ _ _ _ _ K). }
    rewrite Est, (auth_path_bytes hd). split.
    - rewrite Eu', <- Et. rewrite !auth_url_qf. unfold C02_Auth.auth_pre. symmetry. apply with_path_qf.
    - rewrite Eu', (auth_path_bytes hd). exact Et. }
  destruct (path_segments_session_ok dbg u ops u' W HT Hau Hu E) as (_ & _ & F1 & F2 & F3 & _).
  split; [exact C'|]. split; [exact X1|]. split; [exact (path_text_is_path u W)|].
  split; [rewrite (path_text_is_path u' W'), X2; reflexivity|]. split; [exact F1|]. split; [exact F2 | exact F3].
Qed.

Theorem all_reach_p u : ReachC6p u ->
  Canon u /\ wfh u /\ auth_end_ok u /\ all_calls dbg hp hpo hd u /\ psm_calls u.
Proof.
  intros R. pose proof (ReachC6p_Canon u R) as C.
  split; [exact C|]. split; [exact (Canon_wfh dbg hp hpo hd HRT u C)|]. split; [exact (Canon_auth_end_ok hp hpo hd u C)|].
  split; [exact (all_canon dbg hp hpo hd u HRT HAb C) | exact (psm_calls_canon u C)].
Qed.
End AllPsm.
