(* Proofs/C02_PathSp.v - the path state for special non-file schemes (http, https, ws, wss, ftp): the
   lemmas of C02_Path.v (L3: canonical text is pushed unchanged) and C02_PathL1.v (L1: the loop
   invariant) with '\\' as a second separator.  A canonical segment additionally contains no '\\'. *)
From RU Require Import Base.Prelude Base.Utf8 Base.Utf8Facts Model.AsciiSet Gen.Tables
  Model.PercentEncoding Model.HostT Model.UrlRecord Model.Parser Model.WF
  Proofs.ListN Proofs.C14_Set Proofs.C14_Enc Proofs.C14_Views Proofs.C02_Enc Proofs.C02_Parts
  Proofs.C02_Opaque Proofs.C02_Path Proofs.C02_PathL1.

Definition good_seg_sp (s : list N) : bool := good_seg s && no_byte 92 s.
Definition seg_char_sp (c : N) : bool := seg_char c && negb (c =? 92).

Lemma good_seg_sp_good s : good_seg_sp s = true -> good_seg s = true.
Proof. unfold good_seg_sp. intros H. apply andb_true_iff in H. tauto. Qed.
Lemma good_seg_sp_92 s : good_seg_sp s = true -> no_byte 92 s = true.
Proof. unfold good_seg_sp. intros H. apply andb_true_iff in H. tauto. Qed.
Lemma good_seg_sp_parts s : good_seg_sp s = true ->
  clean T_PATH s = true /\ no_slash s = true /\ is_single_dot s = false /\ is_double_dot s = false.
Proof. intros H. apply good_seg_parts. apply good_seg_sp_good. exact H. Qed.
Lemma good_seg_sp_chars s : good_seg_sp s = true -> forallb seg_char_sp s = true.
Proof.
  intros H. pose proof (good_seg_chars s (good_seg_sp_good s H)) as H1. pose proof (good_seg_sp_92 s H) as H2.
  unfold no_byte in H2. rewrite forallb_forall in *. intros c Hc. unfold seg_char_sp. rewrite (H1 c Hc), (H2 c Hc). reflexivity.
Qed.
Lemma good_segs_sp_good segs : forallb good_seg_sp segs = true -> forallb good_seg segs = true.
Proof. apply forallb_impl. exact good_seg_sp_good. Qed.

Section PathLoopSp.
Variable dbg : bool.
Variable ps : N.

Notation loop := (parse_path_loop dbg CUrlParser STSpecialNotFile ps).

(* ---------- one step of the loop, special non-file scheme, URL parser context ---------- *)
Lemma loop_cons_plain_sp c r ser ss pend hh : is_tnl c = false -> (c =? 47) = false -> (c =? 92) = false -> is_qh c = false ->
  loop (c :: r) ser ss pend hh = loop r ser ss (c :: pend) hh.
Proof.
  intros Ht Hs Hb Hq. cbn [parse_path_loop]. rewrite Ht. cbn [ctx_eqb negb st_is_special st_is_file andb].
  rewrite Hs, Hb. cbn [andb orb]. unfold is_qh in Hq. rewrite Hq. reflexivity.
Qed.

Lemma loop_cons_tnl_sp c r ser ss pend hh : is_tnl c = true ->
  loop (c :: r) ser ss pend hh = loop r (push_pending CUrlParser STSpecialNotFile ser pend) ss [] hh.
Proof. intros Ht. cbn [parse_path_loop]. rewrite Ht. reflexivity. Qed.

Lemma loop_cons_slash_sp r ser ss pend hh :
  loop (47 :: r) ser ss pend hh
  = (' (s2, hh') <~ finish_segment dbg STSpecialNotFile ps (push_pending CUrlParser STSpecialNotFile ser pend ++ [47]) ss true hh ;;
     loop r s2 (nlen s2) [] hh').
Proof. reflexivity. Qed.

Lemma loop_cons_bslash_sp r ser ss pend hh :
  loop (92 :: r) ser ss pend hh
  = (' (s2, hh') <~ finish_segment dbg STSpecialNotFile ps (push_pending CUrlParser STSpecialNotFile ser pend ++ [47]) ss true hh ;;
     loop r s2 (nlen s2) [] hh').
Proof. reflexivity. Qed.

Lemma loop_end_sp l ser ss pend hh :
  match l with [] => True | c :: _ => is_qh c = true /\ is_tnl c = false end ->
  loop l ser ss pend hh
  = (' (s2, hh') <~ finish_segment dbg STSpecialNotFile ps (push_pending CUrlParser STSpecialNotFile ser pend) ss false hh ;;
     POk (s2, hh', l)).
Proof.
  destruct l as [|c r]; [intros _; reflexivity|]. intros [Hq Ht].
  cbn [parse_path_loop]. rewrite Ht. cbn [ctx_eqb negb st_is_special st_is_file andb].
  assert ((c =? 47) = false) as Hs by (unfold is_qh in Hq; lia).
  assert ((c =? 92) = false) as Hb by (unfold is_qh in Hq; lia).
  rewrite Hs, Hb. cbn [andb orb]. unfold is_qh in Hq. rewrite Hq. reflexivity.
Qed.

Lemma loop_pending_sp seg : forall tail ser ss pend hh, forallb seg_char_sp seg = true ->
  loop (seg ++ tail) ser ss pend hh = loop tail ser ss (rev seg ++ pend) hh.
Proof.
  induction seg as [|c s IH]; intros tail ser ss pend hh H; [reflexivity|].
  cbn [forallb] in H. apply andb_true_iff in H. destruct H as [Hc Hs].
  unfold seg_char_sp, seg_char, not_tnl in Hc. apply andb_true_iff in Hc. destruct Hc as [Hc H4].
  apply andb_true_iff in Hc. destruct Hc as [Hc H3].
  apply andb_true_iff in Hc. destruct Hc as [H1 H2].
  apply negb_true_iff in H1, H2, H3, H4.
  cbn [app]. rewrite loop_cons_plain_sp by assumption. rewrite IH by exact Hs.
  cbn [rev]. rewrite <- app_assoc. reflexivity.
Qed.

Lemma push_pending_eq_sp st ser pend : usv_list pend ->
  push_pending CUrlParser st ser pend = ser ++ encode T_PATH (utf8_encode (rev pend)).
Proof.
  intros H. unfold push_pending. destruct pend as [|x y]; [cbn; rewrite app_nil_r; reflexivity|].
  unfold path_set. cbn [ctx_eqb]. apply push_encoded_eq. apply usv_rev. exact H.
Qed.

Lemma push_pending_clean_sp st ser seg : clean T_PATH seg = true ->
  push_pending CUrlParser st ser (rev seg ++ []) = ser ++ seg.
Proof.
  intros H. rewrite app_nil_r.
  rewrite push_pending_eq_sp by (apply usv_rev; apply ascii_usv; apply (clean_ascii T_PATH); exact H).
  rewrite rev_involutive. rewrite utf8_encode_ascii by (apply (clean_ascii T_PATH); exact H).
  rewrite encode_clean by exact H. reflexivity.
Qed.

Lemma finish_plain_sp ser ss (ews : bool) hh seg :
  slice_o ser ss (if ews then nlen ser - 1 else nlen ser) = Some seg ->
  is_double_dot seg = false -> is_single_dot seg = false ->
  finish_segment dbg STSpecialNotFile ps ser ss ews hh = POk (ser, hh).
Proof.
  intros Hs Hd Hsd. unfold finish_segment. rewrite Hs. cbn [of_option pbind]. rewrite Hd, Hsd.
  cbn [st_is_file andb]. reflexivity.
Qed.

(* ---------- L3 for the path state: canonical text is pushed unchanged ---------- *)
Theorem path_loop_canon_sp segs : forall last rest ser hh,
  forallb good_seg_sp segs = true -> good_seg_sp last = true ->
  match rest with [] => True | c :: _ => is_qh c = true /\ is_tnl c = false end ->
  loop (segs_text segs ++ last ++ rest) ser (nlen ser) [] hh = POk (ser ++ segs_text segs ++ last, hh, rest).
Proof.
  induction segs as [|seg segs IH]; intros last rest ser hh Hsegs Hlast Hrest.
  - cbn [segs_text map concat app].
    destruct (good_seg_sp_parts last Hlast) as (Hc & _ & Hsd & Hdd).
    rewrite loop_pending_sp by (apply good_seg_sp_chars; exact Hlast).
    rewrite loop_end_sp by exact Hrest.
    rewrite push_pending_clean_sp by exact Hc.
    rewrite (finish_plain_sp (ser ++ last) (nlen ser) false hh last); [reflexivity | | exact Hdd | exact Hsd].
    rewrite <- (app_nil_r (ser ++ last)) at 1. rewrite <- app_assoc. rewrite nlen_app. apply slice_mid.
  - cbn [forallb] in Hsegs. apply andb_true_iff in Hsegs. destruct Hsegs as [Hseg Hsegs].
    destruct (good_seg_sp_parts seg Hseg) as (Hc & _ & Hsd & Hdd).
    unfold segs_text. cbn [map concat]. fold (segs_text segs). rewrite <- !app_assoc. cbn [app].
    rewrite loop_pending_sp by (apply good_seg_sp_chars; exact Hseg).
    rewrite loop_cons_slash_sp. rewrite push_pending_clean_sp by exact Hc.
    rewrite (finish_plain_sp ((ser ++ seg) ++ [47]) (nlen ser) true hh seg); [| | exact Hdd | exact Hsd].
    + cbn [pbind]. rewrite IH by assumption. rewrite <- !app_assoc. reflexivity.
    + rewrite <- app_assoc. rewrite !nlen_app.
      replace (nlen ser + (nlen seg + nlen [47]) - 1) with (nlen ser + nlen seg) by (unfold nlen; cbn [length]; lia).
      apply slice_mid.
Qed.

End PathLoopSp.

Section ShapeSp.
Variable pre : list N.
Notation Bs := (Bs pre).
Notation Bs_ends := (Bs_ends pre).
Notation Bs_snoc := (Bs_snoc pre).
Notation Bs_len_ge := (Bs_len_ge pre).
Section FinishSp.
Variable dbg : bool.
Notation ps := (nlen pre).

(* what finish_segment does to  B segs ++ cur [++ "/"] *)
Lemma finish_inv_sp segs cur (ews : bool) hh :
  forallb good_seg_sp segs = true -> clean T_PATH cur = true -> no_slash cur = true -> no_byte 92 cur = true ->
  exists segs' last',
    finish_segment dbg STSpecialNotFile ps (Bs segs ++ cur ++ (if ews then [47] else [])) (nlen (Bs segs)) ews hh
    = POk (Bs segs' ++ last', hh)
    /\ forallb good_seg_sp segs' = true /\ good_seg_sp last' = true /\ (ews = true -> last' = []).
Proof.
  intros Hsegs Hc Hns H92.
  set (s1 := Bs segs ++ cur ++ (if ews then [47] else [])).
  assert (slice_o s1 (nlen (Bs segs)) (if ews then nlen s1 - 1 else nlen s1) = Some cur) as Hslice.
  { unfold s1. destruct ews.
    - rewrite !nlen_app. replace (nlen (Bs segs) + (nlen cur + nlen [47]) - 1) with (nlen (Bs segs) + nlen cur) by (unfold nlen; cbn [length]; lia).
      apply slice_mid.
    - rewrite !nlen_app. replace (nlen (Bs segs) + (nlen cur + nlen [])) with (nlen (Bs segs) + nlen cur) by (unfold nlen; cbn [length]; lia).
      apply slice_mid. }
  assert (truncate s1 (nlen (Bs segs)) = Bs segs) as Htr by (unfold truncate, s1; apply nfirstn_app_len).
  destruct (Bs_ends segs) as [X EX].
  assert (ends_with_byte 47 (Bs segs) = true) as Hends by (rewrite EX; apply ends_with_byte_snoc).
  unfold finish_segment. rewrite Hslice. cbn [of_option pbind].
  destruct (is_double_dot cur) eqn:Edd.
  - (* double dot *)
    assert ((if dbg then match (if 1 <=? nlen (Bs segs) then nnth s1 (nlen (Bs segs) - 1) else None) with
                         | Some b => passert (b =? 47) | None => PPanic end else POk tt) = POk tt) as Hdbg.
    { destruct dbg; [|reflexivity]. pose proof (Bs_len_ge segs) as Hl.
      replace (1 <=? nlen (Bs segs)) with true by lia.
      unfold s1. rewrite nnth_app_l by lia. rewrite EX. rewrite nlen_app.
      replace (nlen X + nlen [47] - 1) with (nlen X) by (unfold nlen; cbn [length]; lia).
      rewrite nnth_app_last. reflexivity. }
    rewrite Hdbg. cbn [pbind]. rewrite Htr, Hends. cbn [andb].
    destruct (rev segs) as [|t r] eqn:Er.
    + (* no segment yet: nothing to pop *)
      assert (segs = []) as -> by (rewrite <- (rev_involutive segs), Er; reflexivity).
      assert (Bs [] = pre ++ [47]) as EB by (unfold Bs; cbn; apply app_nil_r).
      assert (last_slash_can_be_removed (Bs []) ps = false) as Hl.
      { unfold last_slash_can_be_removed. rewrite EB. rewrite nlen_app.
        replace (ps + nlen [47] - 1) with ps by (unfold nlen; cbn [length]; lia).
        rewrite nfirstn_app_len. destruct (rfind 47 pre) as [p|] eqn:Ep; [|reflexivity].
        apply rfind_lt in Ep. replace (ps <=? p) with false by lia. reflexivity. }
      rewrite Hl.
      assert (shorten_path STSpecialNotFile ps (Bs []) = POk (Bs [])) as Hsh.
      { unfold shorten_path, pop_path. rewrite EB. rewrite nlen_app.
        replace (ps + nlen [47] =? ps) with false by (unfold nlen; cbn [length]; lia).
        cbn [st_is_file andb]. replace (ps <? ps + nlen [47]) with true by (unfold nlen; cbn [length]; lia).
        rewrite nskipn_app_len. change (rfind 47 [47]) with (rfind 47 ([] ++ 47 :: [])). rewrite (rfind_app_last 47 [] []) by reflexivity. unfold truncate.
        replace (ps + nlen [] + 1) with (nlen (pre ++ [47])) by (rewrite nlen_app; unfold nlen; cbn [length]; lia).
        rewrite nfirstn_all by lia. reflexivity. }
      rewrite Hsh. cbn [pbind]. rewrite Hends. rewrite andb_false_r.
      exists [], []. rewrite app_nil_r. repeat split; reflexivity.
    + assert (segs = rev r ++ [t]) as Es by (rewrite <- (rev_involutive segs), Er; reflexivity).
      set (segs0 := rev r) in *. rewrite Es in *. rewrite forallb_snoc in Hsegs.
      apply andb_true_iff in Hsegs. destruct Hsegs as [Hsegs0 Ht].
      destruct (good_seg_sp_parts t Ht) as (Htc & Htn & _).
      destruct (Bs_ends segs0) as [X0 EX0].
      pose proof (Bs_len_ge segs0) as Hl0.
      assert (rfind 47 (nfirstn (nlen (Bs (segs0 ++ [t])) - 1) (Bs (segs0 ++ [t]))) = Some (nlen X0)) as Hrf.
      { rewrite Bs_snoc. rewrite !nlen_app.
        replace (nlen (Bs segs0) + (nlen t + nlen [47]) - 1) with (nlen (Bs segs0 ++ t)) by (rewrite nlen_app; unfold nlen; cbn [length]; lia).
        rewrite app_assoc. rewrite nfirstn_app_len. rewrite EX0. rewrite <- app_assoc. cbn [app].
        apply rfind_app_last. exact Htn. }
      assert (nlen (Bs segs0) = nlen X0 + 1) as EL0 by (rewrite EX0, nlen_app; reflexivity).
      unfold last_slash_can_be_removed. rewrite Hrf. replace (ps <=? nlen X0) with true by lia. cbn [andb].
      assert (nskipn (nlen X0) (Bs (segs0 ++ [t])) = 47 :: t ++ [47]) as Hsk.
      { rewrite Bs_snoc, EX0. rewrite <- !app_assoc. rewrite nskipn_app_len. reflexivity. }
      rewrite Hsk.
      destruct (path_starts_with_wdl (47 :: t ++ [47])) eqn:Ew; cbn [negb].
      * (* a drive-letter-like segment is not popped *)
        assert (shorten_path STSpecialNotFile ps (Bs (segs0 ++ [t])) = POk (Bs (segs0 ++ [t]))) as Hsh.
        { unfold shorten_path, pop_path. pose proof (Bs_len_ge (segs0 ++ [t])) as Hl1.
          replace (nlen (Bs (segs0 ++ [t])) =? ps) with false by lia. cbn [st_is_file andb].
          replace (ps <? nlen (Bs (segs0 ++ [t]))) with true by lia.
          assert (exists Y, nskipn ps (Bs (segs0 ++ [t])) = Y ++ [47] /\ ps + nlen Y + 1 = nlen (Bs (segs0 ++ [t]))) as (Y & EY & ELY).
          { rewrite Bs_snoc. unfold Bs. rewrite <- !app_assoc. rewrite nskipn_app_len.
            exists ([47] ++ segs_text segs0 ++ t). split; [rewrite <- !app_assoc; reflexivity|].
            len_lia. }
          rewrite EY. rewrite (rfind_app_last 47 Y []) by reflexivity.
          unfold truncate. rewrite ELY. rewrite nfirstn_all by lia. reflexivity. }
        rewrite Hsh. cbn [pbind]. destruct (Bs_ends (segs0 ++ [t])) as [X1 EX1].
        assert (ends_with_byte 47 (Bs (segs0 ++ [t])) = true) as He1 by (rewrite EX1; apply ends_with_byte_snoc).
        rewrite He1. rewrite andb_false_r.
        exists (segs0 ++ [t]), []. rewrite app_nil_r. rewrite forallb_snoc, Hsegs0, Ht. repeat split; reflexivity.
      * (* the last segment is popped *)
        assert (nfirstn (nlen (Bs (segs0 ++ [t])) - 1) (Bs (segs0 ++ [t])) = Bs segs0 ++ t) as Hcut.
        { rewrite Bs_snoc. rewrite !nlen_app.
          replace (nlen (Bs segs0) + (nlen t + nlen [47]) - 1) with (nlen (Bs segs0 ++ t)) by (rewrite nlen_app; unfold nlen; cbn [length]; lia).
          rewrite app_assoc. apply nfirstn_app_len. }
        rewrite Hcut.
        assert (shorten_path STSpecialNotFile ps (Bs segs0 ++ t) = POk (Bs segs0)) as Hsh.
        { unfold shorten_path, pop_path. rewrite nlen_app.
          replace (nlen (Bs segs0) + nlen t =? ps) with false by lia. cbn [st_is_file andb].
          replace (ps <? nlen (Bs segs0) + nlen t) with true by lia.
          assert (exists Y, nskipn ps (Bs segs0 ++ t) = Y ++ 47 :: t /\ ps + nlen Y + 1 = nlen (Bs segs0)) as (Y & EY & ELY).
          { unfold Bs. rewrite <- !app_assoc. rewrite nskipn_app_len.
            destruct (rev segs0) as [|t1 r1] eqn:Er0.
            - assert (segs0 = []) as E0 by (rewrite <- (rev_involutive segs0), Er0; reflexivity). rewrite E0.
              exists []. cbn. split; [reflexivity|]. unfold nlen. rewrite !app_length. cbn [length]. lia.
            - assert (segs0 = rev r1 ++ [t1]) as E0 by (rewrite <- (rev_involutive segs0), Er0; reflexivity). rewrite E0.
              rewrite segs_text_snoc. exists ([47] ++ segs_text (rev r1) ++ t1). split.
              + rewrite <- !app_assoc. reflexivity.
              + len_lia. }
          rewrite EY. rewrite (rfind_app_last 47 Y t) by exact Htn.
          unfold truncate. rewrite ELY. rewrite nfirstn_app_len. reflexivity. }
        rewrite Hsh. cbn [pbind]. rewrite EX0. rewrite ends_with_byte_snoc. rewrite andb_false_r. rewrite <- EX0.
        exists segs0, []. rewrite app_nil_r. repeat split; try reflexivity. exact Hsegs0.
  - destruct (is_single_dot cur) eqn:Esd.
    + (* single dot *)
      rewrite Htr, Hends. exists segs, []. rewrite app_nil_r. repeat split; try reflexivity. exact Hsegs.
    + cbn [st_is_file andb]. unfold s1. destruct ews.
      * exists (segs ++ [cur]), []. rewrite app_nil_r, Bs_snoc. repeat split; try reflexivity.
        rewrite forallb_snoc, Hsegs. unfold good_seg_sp, good_seg. rewrite Hc, Hns, Esd, Edd, H92. reflexivity.
      * exists segs, cur. rewrite app_nil_r. repeat split; try assumption; try discriminate.
        unfold good_seg_sp, good_seg. rewrite Hc, Hns, Esd, Edd, H92. reflexivity.
Qed.

End FinishSp.
End ShapeSp.

(* ---------- the loop invariant ---------- *)
Section LoopInvSp.
Variable pre : list N.
Variable dbg : bool.
Notation ps := (nlen pre).
Notation loop := (parse_path_loop dbg CUrlParser STSpecialNotFile ps).

Definition pend_ok_sp (pend : list N) : Prop := usv_list pend /\ no_byte 47 pend = true /\ no_byte 92 pend = true.

Lemma hex_not_b d b : d < 16 -> 70 < b -> negb (hex_upper d =? b) = true.
Proof. intros H Hb. pose proof (hex_upper_ge d H). lia. Qed.

Lemma enc_no_byte b pend : (b = 47 \/ b = 92) -> usv_list pend -> no_byte b pend = true ->
  no_byte b (encode T_PATH (utf8_encode (rev pend))) = true.
Proof.
  intros Hb Hu Hp. unfold no_byte.
  apply encode_utf8_forallb; [destruct Hb; subst; reflexivity | | apply usv_rev; exact Hu|].
  - intros d Hd. pose proof (hex_upper_ge d Hd). destruct Hb; subst; lia.
  - apply Forall_forall. intros c Hin _. unfold no_byte in Hp. rewrite forallb_forall in Hp.
    apply Hp. apply in_rev. exact Hin.
Qed.

Lemma pend_flush_sp cur pend : clean T_PATH cur = true -> no_slash cur = true -> no_byte 92 cur = true -> pend_ok_sp pend ->
  clean T_PATH (cur ++ encode T_PATH (utf8_encode (rev pend))) = true
  /\ no_slash (cur ++ encode T_PATH (utf8_encode (rev pend))) = true
  /\ no_byte 92 (cur ++ encode T_PATH (utf8_encode (rev pend))) = true.
Proof.
  intros Hc Hn Hb (Hu & Hp & Hq). split; [|split].
  - rewrite clean_app, Hc. cbn [andb]. apply encode_is_clean; [exact stable_PATH|].
    apply utf8_encode_bytes. apply usv_rev. exact Hu.
  - rewrite no_slash_no_byte in *. unfold no_byte in *. rewrite forallb_app, Hn. cbn [andb].
    apply (enc_no_byte 47 pend (or_introl eq_refl) Hu Hp).
  - unfold no_byte in *. rewrite forallb_app, Hb. cbn [andb]. apply (enc_no_byte 92 pend (or_intror eq_refl) Hu Hq).
Qed.

Lemma push_pending_shape_sp segs cur pend : usv_list pend ->
  push_pending CUrlParser STSpecialNotFile (Bs pre segs ++ cur) pend
  = Bs pre segs ++ (cur ++ encode T_PATH (utf8_encode (rev pend))).
Proof. intros H. rewrite push_pending_eq_sp by exact H. rewrite <- app_assoc. reflexivity. Qed.

Lemma pend_nil_ok : pend_ok_sp [].
Proof. split; [constructor | split; reflexivity]. Qed.

Theorem loop_inv_sp l : forall segs cur pend hh s' hh' rem, usv_list l -> pend_ok_sp pend ->
  forallb good_seg_sp segs = true -> clean T_PATH cur = true -> no_slash cur = true -> no_byte 92 cur = true ->
  loop l (Bs pre segs ++ cur) (nlen (Bs pre segs)) pend hh = POk (s', hh', rem) ->
  exists segs' last', s' = Bs pre segs' ++ last' /\ forallb good_seg_sp segs' = true /\ good_seg_sp last' = true
                      /\ hh' = hh /\ rem = cbb_rest l.
Proof.
  assert (forall l0 segs cur pend hh s' hh' rem,
            match l0 with [] => True | c :: _ => is_qh c = true /\ is_tnl c = false end ->
            pend_ok_sp pend -> forallb good_seg_sp segs = true -> clean T_PATH cur = true -> no_slash cur = true ->
            no_byte 92 cur = true ->
            loop l0 (Bs pre segs ++ cur) (nlen (Bs pre segs)) pend hh = POk (s', hh', rem) ->
            exists segs' last', s' = Bs pre segs' ++ last' /\ forallb good_seg_sp segs' = true /\ good_seg_sp last' = true
                                /\ hh' = hh /\ rem = l0) as Hend.
  { intros l0 segs cur pend hh s' hh' rem Hl Hp Hsegs Hc Hn Hb H.
    rewrite loop_end_sp in H by exact Hl. rewrite push_pending_shape_sp in H by (destruct Hp; assumption).
    destruct (pend_flush_sp cur pend Hc Hn Hb Hp) as (Hc' & Hn' & Hb').
    destruct (finish_inv_sp pre dbg segs (cur ++ encode T_PATH (utf8_encode (rev pend))) false hh Hsegs Hc' Hn' Hb') as (segs' & last' & Hf & G1 & G2 & _).
    rewrite app_nil_r in Hf. rewrite Hf in H. cbn [pbind] in H. inversion H; subst.
    exists segs', last'. repeat split; assumption. }
  induction l as [|c r IH]; intros segs cur pend hh s' hh' rem Hu Hp Hsegs Hc Hn Hb H.
  - destruct (Hend [] segs cur pend hh s' hh' rem I Hp Hsegs Hc Hn Hb H) as (segs' & last' & G).
    exists segs', last'. exact G.
  - apply usv_cons in Hu. destruct Hu as [Huc Hur]. cbn [cbb_rest].
    destruct (is_tnl c) eqn:Et.
    + rewrite loop_cons_tnl_sp in H by exact Et. rewrite push_pending_shape_sp in H by (destruct Hp; assumption).
      destruct (pend_flush_sp cur pend Hc Hn Hb Hp) as (Hc' & Hn' & Hb').
      apply (IH segs (cur ++ encode T_PATH (utf8_encode (rev pend))) [] hh s' hh' rem Hur); try assumption.
      exact pend_nil_ok.
    + destruct (is_qh c) eqn:Eq.
      * apply (Hend (c :: r) segs cur pend hh s' hh' rem); try assumption. split; assumption.
      * assert (forall r0, (' (s2, hh1) <~ finish_segment dbg STSpecialNotFile ps
                                (push_pending CUrlParser STSpecialNotFile (Bs pre segs ++ cur) pend ++ [47]) (nlen (Bs pre segs)) true hh ;;
                            loop r0 s2 (nlen s2) [] hh1) = POk (s', hh', rem) -> usv_list r0 ->
                 (forall segs1 cur1 pend1 hh1 s1 hh2 rem1, usv_list r0 -> pend_ok_sp pend1 ->
                    forallb good_seg_sp segs1 = true -> clean T_PATH cur1 = true -> no_slash cur1 = true -> no_byte 92 cur1 = true ->
                    loop r0 (Bs pre segs1 ++ cur1) (nlen (Bs pre segs1)) pend1 hh1 = POk (s1, hh2, rem1) ->
                    exists segs' last', s1 = Bs pre segs' ++ last' /\ forallb good_seg_sp segs' = true /\ good_seg_sp last' = true
                                        /\ hh2 = hh1 /\ rem1 = cbb_rest r0) ->
                 exists segs' last', s' = Bs pre segs' ++ last' /\ forallb good_seg_sp segs' = true /\ good_seg_sp last' = true
                                     /\ hh' = hh /\ rem = cbb_rest r0) as Hsep.
        { intros r0 H0 Hur0 IH0.
          rewrite push_pending_shape_sp in H0 by (destruct Hp; assumption).
          destruct (pend_flush_sp cur pend Hc Hn Hb Hp) as (Hc' & Hn' & Hb').
          destruct (finish_inv_sp pre dbg segs (cur ++ encode T_PATH (utf8_encode (rev pend))) true hh Hsegs Hc' Hn' Hb') as (segs' & last' & Hf & G1 & G2 & G3).
          rewrite <- app_assoc in H0. rewrite Hf in H0. cbn [pbind] in H0. rewrite (G3 eq_refl) in H0.
          rewrite app_nil_r in H0.
          rewrite <- (app_nil_r (Bs pre segs')) in H0 at 1.
          apply (IH0 segs' [] [] hh s' hh' rem Hur0); try assumption; try reflexivity.
          exact pend_nil_ok. }
        destruct (c =? 47) eqn:E47.
        -- apply N.eqb_eq in E47. subst c. rewrite loop_cons_slash_sp in H. exact (Hsep r H Hur IH).
        -- destruct (c =? 92) eqn:E92.
           ++ apply N.eqb_eq in E92. subst c. rewrite loop_cons_bslash_sp in H. exact (Hsep r H Hur IH).
           ++ rewrite loop_cons_plain_sp in H by assumption.
              apply (IH segs cur (c :: pend) hh s' hh' rem Hur); try assumption.
              destruct Hp as (Hp1 & Hp2 & Hp3). split; [apply usv_cons; split; assumption|].
              unfold no_byte in *. cbn [forallb]. rewrite E47, E92, Hp2, Hp3. split; reflexivity.
Qed.

End LoopInvSp.
