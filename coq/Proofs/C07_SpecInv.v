(* Proofs/C07_SpecInv.v - two invariants of the Standard's basic URL parser run without a base and without a
   state override, whatever the input and the host parser:
     - the host of the record is null, the empty host, or a result of the host parser (host_in_range);
     - the port of the record is at most 65535.
   Both are facts about the record alone (no reasoning about the pointer): every run of the state machine
   (Spec/Whatwg.v step) keeps them, so every result of spec_basic_url_parse has them. *)
From Coq Require Import Bool ZArith.
From RU Require Import Base.Prelude Spec.Whatwg.

Section Inv.
Variable shp : bool -> list N -> option spec_host.

Definition host_in_range (h : option spec_host) : Prop :=
  match h with
  | None => True
  | Some x => x = SEmpty \/ exists o s, host_parsing shp o s = Some x
  end.

Definition port_in_range (p : option N) : Prop :=
  match p with Some x => x <= 65535 | None => True end.

Definition uinv (u : spec_url) : Prop := host_in_range (su_host u) /\ port_in_range (su_port u).

Definition res_inv (r : step_result) : Prop :=
  match r with
  | SCont m' => uinv (m_url m')
  | SReturn u => uinv u
  | SFailure _ => True
  end.

Lemma uinv_same u v : su_host v = su_host u -> su_port v = su_port u -> uinv u -> uinv v.
Proof. unfold uinv. intros -> ->. exact (fun H => H). Qed.

Lemma hp_path_append u s : su_host (path_append u s) = su_host u /\ su_port (path_append u s) = su_port u.
Proof. unfold path_append. destruct (su_path u); split; reflexivity. Qed.

Lemma hp_shorten_path u : su_host (shorten_path u) = su_host u /\ su_port (shorten_path u) = su_port u.
Proof.
  unfold shorten_path. destruct (su_path u) as [p|l]; [split; reflexivity|].
  match goal with |- context [if ?c then _ else _] => destruct c end; split; reflexivity.
Qed.

Lemma hp_authority_credentials cps : forall pw u,
  su_host (snd (authority_credentials cps pw u)) = su_host u
  /\ su_port (snd (authority_credentials cps pw u)) = su_port u.
Proof.
  induction cps as [|c r IH]; intros pw u; [split; reflexivity|]. cbn [authority_credentials].
  destruct ((c =? 58) && negb pw); [apply IH|]. cbv zeta.
  destruct (IH pw (if pw then set_password u (su_password u ++ utf8_percent_encode_cp in_userinfo_set c)
                   else set_username u (su_username u ++ utf8_percent_encode_cp in_userinfo_set c))) as [A B].
  rewrite A, B. destruct pw; split; reflexivity.
Qed.

Ltac split_ifs :=
  repeat match goal with
         | |- context [if ?c then _ else _] => destruct c
         end.

Ltac same_hp := apply uinv_same; [reflexivity | reflexivity].

Section Steps.
Variable input : list N.

Notation stp := (step shp input None None).

Ltac fin H :=
  cbn [res_inv m_url goto set_url set_buf set_ptr dec_ptr inc_ptr push_buf set_at set_br set_pw]; try exact I; try exact H.

Lemma inv_scheme m c rem : uinv (m_url m) -> res_inv (st_scheme None None m c rem).
Proof.
  intros H. unfold st_scheme. cbv zeta. cbn [has_ov opt_is_some andb negb].
  destruct (cpred is_scheme_cp c); [destruct c; fin H|].
  destruct (cis c 58); [|fin H].
  split_ifs; fin H; try (revert H; same_hp).
Qed.

Lemma inv_authority m c : uinv (m_url m) -> res_inv (st_authority m c).
Proof.
  intros H. unfold st_authority. cbv zeta.
  destruct (cis c 64).
  - destruct (authority_credentials (if m_at m then [37; 52; 48] ++ m_buf m else m_buf m) (m_pw m) (m_url m))
      as [pw u1] eqn:E.
    fin H. pose proof (hp_authority_credentials (if m_at m then [37; 52; 48] ++ m_buf m else m_buf m) (m_pw m) (m_url m)) as K.
    rewrite E in K. cbn [snd] in K. destruct K as [K1 K2]. revert H. apply uinv_same; assumption.
  - split_ifs; try destruct c; fin H.
Qed.

Lemma inv_host m c : uinv (m_url m) -> res_inv (st_host shp None m c).
Proof.
  intros H. unfold st_host. cbv zeta. cbn [has_ov ov_is opt_is_some andb negb].
  destruct (cis c 58 && negb (m_br m)).
  - destruct (list_eqb (m_buf m) []); [fin H|].
    destruct (host_parsing shp (negb (is_special (m_url m))) (m_buf m)) as [h|] eqn:E; [|fin H].
    fin H. destruct H as [_ H2]. split; [|exact H2]. cbn [su_host set_host]. right. eexists. eexists. exact E.
  - destruct (is_authority_end (m_url m) c).
    + destruct (is_special (m_url m) && list_eqb (m_buf m) []); [fin H|].
      destruct (host_parsing shp (negb (is_special (m_url m))) (m_buf m)) as [h|] eqn:E; [|fin H].
      fin H. destruct H as [_ H2]. split; [|exact H2]. cbn [su_host set_host]. right. eexists. eexists. exact E.
    + destruct c as [x|]; [|fin H]. split_ifs; fin H.
Qed.

Lemma inv_port m c : uinv (m_url m) -> res_inv (st_port None m c).
Proof.
  intros H. unfold st_port. cbv zeta. cbn [has_ov opt_is_some orb].
  destruct (cpred is_digit c); [destruct c; fin H|].
  rewrite orb_false_r.
  destruct (is_authority_end (m_url m) c); [|fin H].
  destruct (negb (list_eqb (m_buf m) [])); [|fin H].
  destruct (65535 <? decimal_value (m_buf m)) eqn:E; [fin H|].
  fin H. destruct H as [H1 _]. split; [exact H1|]. cbn [su_port set_port].
  destruct (port_is_default (su_scheme (m_url m)) (decimal_value (m_buf m))); [exact I|].
  cbn [port_in_range]. apply N.ltb_ge in E. exact E.
Qed.

Lemma inv_file m c rem : uinv (m_url m) -> res_inv (st_file None m c rem).
Proof.
  intros H. unfold st_file. cbv zeta. cbn [base_is_file].
  destruct (cis c 47 || cis c 92); fin H; (destruct H as [_ H2]; split; [left; reflexivity | exact H2]).
Qed.

Lemma inv_file_slash m c rem : uinv (m_url m) -> res_inv (st_file_slash None m c rem).
Proof.
  intros H. unfold st_file_slash. cbv zeta. cbn [base_is_file].
  destruct (cis c 47 || cis c 92); fin H.
Qed.

Lemma inv_file_host m c : uinv (m_url m) -> res_inv (st_file_host shp None m c).
Proof.
  intros H. unfold st_file_host. cbv zeta. cbn [has_ov opt_is_some negb andb].
  destruct (is_eof c || cis c 47 || cis c 92 || cis c 63 || cis c 35).
  - destruct (is_windows_drive_letter (m_buf m)); [fin H|].
    destruct (list_eqb (m_buf m) []).
    + fin H. destruct H as [_ H2]. split; [left; reflexivity | exact H2].
    + destruct (host_parsing shp (negb (is_special (m_url m))) (m_buf m)) as [h|] eqn:E; [|fin H].
      fin H. destruct H as [_ H2]. split; [|exact H2]. cbn [su_host set_host].
      destruct h; try (right; eexists; eexists; exact E).
      match goal with |- context [if ?c then _ else _] => destruct c end;
        [left; reflexivity | right; eexists; eexists; exact E].
  - destruct c; fin H.
Qed.

Lemma inv_path_start m c : uinv (m_url m) -> res_inv (st_path_start None m c).
Proof.
  intros H. unfold st_path_start. cbv zeta. cbn [has_ov opt_is_some negb andb].
  split_ifs; fin H; try (revert H; same_hp).
Qed.

Lemma inv_path m c : uinv (m_url m) -> res_inv (st_path None m c).
Proof.
  intros H. unfold st_path. cbv zeta. cbn [has_ov opt_is_some negb andb].
  match goal with |- context [if ?c then _ else _] => destruct c end.
  2:{ destruct c; fin H. }
  assert (forall v, su_host v = su_host (m_url m) -> su_port v = su_port (m_url m) -> uinv v) as K
    by (intros v A B; exact (uinv_same _ _ A B H)).
  assert (forall v s, su_host v = su_host (m_url m) /\ su_port v = su_port (m_url m) ->
            su_host (path_append v s) = su_host (m_url m) /\ su_port (path_append v s) = su_port (m_url m)) as KA.
  { intros v s [A B]. destruct (hp_path_append v s) as [A' B']. rewrite A', B'. split; assumption. }
  assert (su_host (shorten_path (m_url m)) = su_host (m_url m) /\ su_port (shorten_path (m_url m)) = su_port (m_url m)) as KS
    by apply hp_shorten_path.
  split_ifs; fin H; apply K; cbn [su_host su_port Whatwg.set_query Whatwg.set_fragment];
    first [ apply KA; first [exact KS | split; reflexivity] | apply KS | reflexivity ].
Qed.

Lemma inv_opaque_path m c : uinv (m_url m) -> res_inv (st_opaque_path m c).
Proof.
  intros H. unfold st_opaque_path. cbv zeta.
  destruct (cis c 63); [fin H; try (revert H; same_hp)|].
  destruct (cis c 35); [fin H; try (revert H; same_hp)|].
  destruct c; [|fin H]. destruct (su_path (m_url m)); fin H; try (revert H; same_hp).
Qed.

Lemma inv_query m c : uinv (m_url m) -> res_inv (st_query None m c).
Proof.
  intros H. unfold st_query. cbv zeta. cbn [has_ov opt_is_some negb andb].
  destruct (cis c 35 || is_eof c); [|destruct c; fin H].
  destruct (cis c 35); fin H; try (revert H; same_hp).
Qed.

Lemma inv_fragment m c : uinv (m_url m) -> res_inv (st_fragment m c).
Proof.
  intros H. unfold st_fragment. cbv zeta. destruct c; fin H; try (revert H; same_hp).
Qed.

Theorem step_uinv m : uinv (m_url m) -> res_inv (stp m).
Proof.
  intros H. unfold step. cbv zeta.
  destruct (m_state m).
  - unfold st_scheme_start. cbn [has_ov opt_is_some negb].
    destruct (cpred is_alpha (hd_error (substring_from input (m_ptr m)))); [destruct (hd_error (substring_from input (m_ptr m)))|]; fin H.
  - apply inv_scheme. exact H.
  - exact I.
  - unfold st_special_relative_or_authority. split_ifs; fin H.
  - unfold st_path_or_authority. split_ifs; fin H.
  - exact I.
  - unfold st_relative_slash. cbv zeta. split_ifs; fin H.
  - unfold st_special_authority_slashes. split_ifs; fin H.
  - unfold st_special_authority_ignore_slashes. split_ifs; fin H.
  - apply inv_authority. exact H.
  - apply inv_host. exact H.
  - apply inv_host. exact H.
  - apply inv_port. exact H.
  - apply inv_file. exact H.
  - apply inv_file_slash. exact H.
  - apply inv_file_host. exact H.
  - apply inv_path_start. exact H.
  - apply inv_path. exact H.
  - apply inv_opaque_path. exact H.
  - apply inv_query. exact H.
  - apply inv_fragment. exact H.
Qed.

Theorem run_uinv fuel : forall m su, uinv (m_url m) -> run shp input None None fuel m = BDone su -> uinv su.
Proof.
  induction fuel as [|k IH]; intros m su H; [discriminate|]. cbn [run].
  pose proof (step_uinv m H) as K.
  destruct (stp m) as [m'|u|u]; cbn [res_inv] in K; [|intros E; injection E as <-; exact K | discriminate].
  destruct (Z.of_nat (length input) <=? m_ptr m')%Z; [intros E; injection E as <-; exact K|].
  apply IH. exact K.
Qed.

End Steps.

(* every record the basic URL parser returns without a base *)
Theorem spec_parse_uinv input su : spec_basic_url_parse shp input None = BDone su -> uinv su.
Proof.
  unfold spec_basic_url_parse. cbv zeta. apply run_uinv. split; exact I.
Qed.

End Inv.
