(* Proofs/C05_PathSp.v - the hierarchical path states for a SPECIAL scheme write no backslash, in every context (URL
   parser, Url::set_path, path_segments_mut) and for ANY input numbers:
     in the parser / set_path contexts '\' is a separator (it is written as '/'), so it never reaches the pending
       segment text - and the encoder only writes '%', hex digits and bytes of its input that are below 128;
     in the path_segments_mut context the encode set is SPECIAL_PATH_SEGMENT, which contains '\'.
   nb c := c <> '\'.  PInvB : the text in front of the path is kept and every byte from path_start on satisfies nb.
   (Proofs/C05_PathClean.v has the same development for D_PATH = ? # space dquote < > backtick { }.) *)
From RU Require Import Base.Prelude Base.Utf8 Model.AsciiSet Gen.Tables Model.PercentEncoding
  Model.HostT Model.UrlRecord Model.Parser Model.Setters Model.WF
  Proofs.ListN Proofs.C05_Enc Proofs.C06_List Proofs.C06_WFI Proofs.C06_PathParser Proofs.C03_ReachParts Proofs.C05_PathClean.

Definition nb (c : N) : bool := negb (c =? 92).

Lemma nb_alpha c : is_alpha c = true -> nb c = true.
Proof. unfold is_alpha, is_upper, is_lower, nb. lia. Qed.

Lemma nb_not_in l : forallb nb l = true -> ~ In 92 l.
Proof. intros H Hin. rewrite forallb_forall in H. specialize (H 92 Hin). discriminate H. Qed.

Lemma in92_utf8 l : In 92 (utf8_encode l) -> In 92 l.
Proof.
  unfold utf8_encode. intros H. apply in_flat_map in H. destruct H as (c & Hc & H).
  destruct (N.ltb_spec c 128) as [L|L].
  - unfold utf8_encode1 in H. replace (c <? 128) with true in H by lia. destruct H as [<-|[]]. exact Hc.
  - pose proof (utf8_encode1_high c L) as F. rewrite Forall_forall in F. specialize (F 92 H). lia.
Qed.

(* the encoder writes a backslash only if its set leaves it alone and the text contains one *)
Lemma nb_pe_display S text : (should_encode S 92 = true \/ ~ In 92 text) ->
  forallb nb (pe_display S (utf8_encode text)) = true.
Proof.
  intros H. apply forallb_forall. intros c Hc.
  pose proof (pe_display_out S (utf8_encode text)) as F. rewrite Forall_forall in F.
  destruct (F c Hc) as [[Hin Hs]|[->|Hx]].
  - unfold nb. destruct (N.eqb_spec c 92) as [->|Hne]; [|reflexivity]. exfalso.
    destruct H as [H|H]; [congruence | exact (H (in92_utf8 text Hin))].
  - reflexivity.
  - unfold is_hexu, is_digit in Hx. unfold nb. lia.
Qed.

Section PathInvB.
Variables (dbg : bool) (ps : N) (pre : list N) (ctx : context) (st : scheme_type).
Hypothesis Hpre : nlen pre = ps.
Hypothesis Hsp : st_is_special st = true.

Definition PInvB (ser : list N) : Prop := nfirstn ps ser = pre /\ forallb nb (nskipn ps ser) = true.

(* the pending segment text: no backslash unless the context is path_segments_mut *)
Definition Pend (pending : list N) : Prop := ctx_eqb ctx CPathSegmentSetter = true \/ ~ In 92 pending.

Lemma pinvb_len ser : PInvB ser -> ps <= nlen ser.
Proof.
  intros [H _]. assert (nlen (nfirstn ps ser) = ps) as E by (rewrite H; exact Hpre).
  unfold nlen, nfirstn in *. rewrite firstn_length in E. lia.
Qed.

Lemma pinvb_app ser x : PInvB ser -> forallb nb x = true -> PInvB (ser ++ x).
Proof.
  intros H Hx. pose proof (pinvb_len ser H) as L. destruct H as [H1 H2]. split.
  - rewrite nfirstn_app_le by exact L. exact H1.
  - rewrite nskipn_app_le by lia. apply forallb_app_iff. split; assumption.
Qed.

Lemma pinvb_trunc ser n : PInvB ser -> ps <= n -> PInvB (nfirstn n ser).
Proof.
  intros [H1 H2] Hn. split.
  - rewrite nfirstn_nfirstn by exact Hn. exact H1.
  - replace n with (ps + (n - ps)) by lia. rewrite nskipn_nfirstn_comm. apply forallb_nfirstn. exact H2.
Qed.

Lemma pinvb_push_pending ser pending : PInvB ser -> Pend pending -> PInvB (push_pending ctx st ser pending).
Proof.
  intros H HP. unfold push_pending. destruct pending as [|c r]; [exact H|].
  unfold push_encoded. apply pinvb_app; [exact H|]. apply nb_pe_display.
  destruct HP as [E|HP].
  - left. unfold path_set. rewrite E, Hsp. vm_compute. reflexivity.
  - right. intros Hin. apply HP. apply in_rev. exact Hin.
Qed.

Lemma pinvb_pop_path ser s' : pop_path st ps ser = POk s' -> PInvB ser -> PInvB s'.
Proof.
  unfold pop_path. intros H I. destruct (ps <? nlen ser); [|inversion H; subst; exact I].
  destruct (rfind 47 (nskipn ps ser)) as [sp|]; [|discriminate].
  destruct (st_is_file st && is_normalized_wdl (nskipn (ps + sp + 1) ser)); inversion H; subst; [exact I|].
  unfold truncate. apply pinvb_trunc; [exact I | lia].
Qed.

Lemma pinvb_shorten_path ser s' : shorten_path st ps ser = POk s' -> PInvB ser -> PInvB s'.
Proof.
  unfold shorten_path. intros H I. destruct (nlen ser =? ps); [inversion H; subst; exact I|].
  destruct (st_is_file st && is_normalized_wdl (nskipn ps ser)); [inversion H; subst; exact I|].
  eapply pinvb_pop_path; eassumption.
Qed.

Lemma pinvb_finish_segment ser seg_start ews hh s' hh' :
  finish_segment dbg st ps ser seg_start ews hh = POk (s', hh') -> PInvB ser -> ps <= seg_start -> PInvB s'.
Proof.
  unfold finish_segment. intros H I Hs.
  destruct (slice_o ser seg_start (if ews then nlen ser - 1 else nlen ser)) as [seg|]; cbn [of_option pbind] in H; [|discriminate].
  destruct (is_double_dot seg).
  - match type of H with pbind ?c _ = _ => destruct c as [[]| |]; cbn [pbind] in H; try discriminate end.
    set (s1 := truncate ser seg_start) in *.
    assert (PInvB s1) as I1 by (apply pinvb_trunc; assumption).
    set (s2 := if ends_with_byte 47 s1 && last_slash_can_be_removed s1 ps then nfirstn (nlen s1 - 1) s1 else s1) in *.
    assert (PInvB s2) as I2.
    { subst s2. destruct (ends_with_byte 47 s1 && last_slash_can_be_removed s1 ps) eqn:E; [|exact I1].
      apply andb_true_iff in E. destruct E as [_ E]. apply last_slash_bound' in E.
      apply pinvb_trunc; [exact I1 | lia]. }
    destruct (shorten_path st ps s2) as [s3| |] eqn:E3; cbn [pbind] in H; try discriminate.
    pose proof (pinvb_shorten_path _ _ E3 I2) as I3.
    inversion H; subst. destruct (ews && negb (ends_with_byte 47 s3)); [|exact I3].
    apply pinvb_app; [exact I3 | reflexivity].
  - destruct (is_single_dot seg).
    + inversion H; subst. assert (PInvB (truncate ser seg_start)) as I1 by (apply pinvb_trunc; assumption).
      destruct (ends_with_byte 47 (truncate ser seg_start)); [exact I1|]. apply pinvb_app; [exact I1 | reflexivity].
    + destruct (st_is_file st && (seg_start =? ps + 1) && is_wdl seg) eqn:Ew; [|inversion H; subst; exact I].
      apply andb_true_iff in Ew. destruct Ew as [_ Ew]. destruct (is_wdl_head seg Ew) as (c & r & -> & Hc).
      inversion H; subst. apply pinvb_app; [apply pinvb_trunc; assumption|].
      cbn [app forallb]. rewrite (nb_alpha c Hc). destruct ews; reflexivity.
Qed.

Lemma pinvb_file_path_fixup ser : PInvB ser -> PInvB (file_path_fixup st ps ser).
Proof.
  intros I. unfold file_path_fixup. destruct (st_is_file st) eqn:E; [|exact I].
  pose proof (pinvb_len ser I) as L. destruct I as [I1 I2].
  assert (nlen (nfirstn ps ser) = ps) as Lp by (apply nlen_nfirstn; lia).
  split.
  - rewrite nfirstn_app_le by lia. rewrite nfirstn_nfirstn by lia. exact I1.
  - rewrite nskipn_app_ge by lia. rewrite Lp, N.sub_diag, nskipn_0.
    cbn [app forallb]. apply drop_while_forallb. exact I2.
Qed.

Lemma pinvb_loop l : forall ser seg_start pending hh s' hh' rem,
  parse_path_loop dbg ctx st ps l ser seg_start pending hh = POk (s', hh', rem) ->
  PInvB ser -> Pend pending -> ps <= seg_start -> PInvB s'.
Proof.
  induction l as [|c r IH]; intros ser seg_start pending hh s' hh' rem H I HP Hs; cbn [parse_path_loop] in H.
  - destruct (finish_segment dbg st ps (push_pending ctx st ser pending) seg_start false hh) as [[s2 h2]| |] eqn:E;
      cbn [pbind] in H; try discriminate.
    inversion H; subst. apply pinvb_file_path_fixup.
    eapply pinvb_finish_segment; [exact E | apply pinvb_push_pending; assumption | exact Hs].
  - assert (Pend []) as HP0 by (right; intros []).
    destruct (is_tnl c).
    { eapply IH; [exact H | apply pinvb_push_pending; assumption | exact HP0 | exact Hs]. }
    destruct (negb (ctx_eqb ctx CPathSegmentSetter) && ((c =? 47) || (c =? 92) && st_is_special st)) eqn:Esep.
    { destruct (finish_segment dbg st ps (push_pending ctx st ser pending ++ [47]) seg_start true hh) as [[s2 h2]| |] eqn:E;
        cbn [pbind] in H; try discriminate.
      assert (PInvB s2) as I2.
      { eapply pinvb_finish_segment; [exact E | | exact Hs]. apply pinvb_app; [apply pinvb_push_pending; assumption | reflexivity]. }
      eapply IH; [exact H | exact I2 | exact HP0 | apply pinvb_len; exact I2]. }
    assert (Pend [c] /\ Pend (c :: pending)) as [HPc HPcp].
    { destruct (ctx_eqb ctx CPathSegmentSetter) eqn:Ectx; [split; left; exact Ectx|].
      assert (c <> 92) as Hc.
      { intros ->. rewrite Hsp in Esep. cbn in Esep. discriminate Esep. }
      destruct HP as [HP|HP]; [rewrite Ectx in HP; discriminate HP|].
      split; right; intros Hin; [destruct Hin as [X|[]]; congruence|]. destruct Hin as [X|X]; [congruence | exact (HP X)]. }
    destruct (((c =? 63) || (c =? 35)) && ctx_eqb ctx CUrlParser).
    { destruct (finish_segment dbg st ps (push_pending ctx st ser pending) seg_start false hh) as [[s2 h2]| |] eqn:E;
        cbn [pbind] in H; try discriminate.
      inversion H; subst. apply pinvb_file_path_fixup.
      eapply pinvb_finish_segment; [exact E | apply pinvb_push_pending; assumption | exact Hs]. }
    destruct (st_is_file st && (ps <? nlen ser) && is_normalized_wdl (nskipn (ps + 1) ser)).
    { eapply IH; [exact H | | exact HPc | lia]. apply pinvb_app; [apply pinvb_push_pending; assumption | reflexivity]. }
    eapply IH; [exact H | exact I | exact HPcp | exact Hs].
Qed.

Lemma pinvb_parse_path hh ser l s' hh' rem :
  parse_path dbg ctx st hh ps ser l = POk (s', hh', rem) -> PInvB ser -> PInvB s'.
Proof.
  unfold parse_path. intros H I. eapply pinvb_loop; [exact H | exact I | right; intros [] | apply pinvb_len; exact I].
Qed.

End PathInvB.

Lemma pinvb_start s0 : PInvB (nlen s0) s0 s0.
Proof. split; [apply nfirstn_all; lia | rewrite nskipn_all by lia; reflexivity]. Qed.

Lemma pinvb_split s0 s' : PInvB (nlen s0) s0 s' -> exists P, s' = s0 ++ P /\ forallb nb P = true.
Proof.
  intros [H1 H2]. exists (nskipn (nlen s0) s'). split; [|exact H2].
  rewrite <- H1 at 1. symmetry. apply nfirstn_nskipn.
Qed.

(* a whole path written behind s0, special scheme *)
Theorem parse_path_start_nb dbg ctx st hh s0 l s1 hh' rem : st_is_special st = true ->
  parse_path_start dbg ctx st hh s0 l = POk (s1, hh', rem) ->
  exists P, s1 = s0 ++ P /\ forallb nb P = true.
Proof.
  intros Hsp H. apply pinvb_split. unfold parse_path_start in H. cbv zeta in H.
  pose proof (pinvb_start s0) as I0.
  assert (PInvB (nlen s0) s0 (s0 ++ [47])) as I1 by (apply (pinvb_app (nlen s0) s0 st eq_refl); [exact I0 | reflexivity]).
  destruct (inp_split_first l) as [mc remaining]. rewrite Hsp in H.
  destruct (negb (ends_with_byte 47 s0)).
  - destruct mc as [c|]; [destruct (is_slash_or_bslash c)|];
      eapply (pinvb_parse_path dbg (nlen s0) s0 ctx st eq_refl Hsp); eassumption.
  - eapply (pinvb_parse_path dbg (nlen s0) s0 ctx st eq_refl Hsp); eassumption.
Qed.
