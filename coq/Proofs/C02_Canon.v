(* Proofs/C02_Canon.v - the union of the four canonical forms (classes (i)-(iv) of DESIGN B.5) as one
   predicate Canon; every Canon record is a fixpoint of re-parsing; every parse result without base of a
   non-file scheme is Canon; set_fragment and set_query keep Canon (L2 for the two tail setters). *)
From Coq Require Import String.
From RU Require Import Base.Prelude Base.Utf8 Base.Utf8Facts Model.AsciiSet Gen.Tables
  Model.PercentEncoding Model.HostT Model.UrlRecord Model.Parser Model.Setters Model.WF
  Proofs.ListN Proofs.C14_Set Proofs.C14_Enc Proofs.C14_Views Proofs.C02_Enc Proofs.C02_Parts
  Proofs.C02_Opaque Proofs.C02_Path Proofs.C02_PathL1 Proofs.C02_Reach Proofs.C16_RT Proofs.C02_AuthParts
  Proofs.C02_Auth Proofs.C02_AuthWf Proofs.C02_PathSp Proofs.C02_AuthSp Proofs.C02_AuthMain Proofs.C02_SetQF.
Open Scope N_scope.
Open Scope list_scope.

(* ---------- bounds from the length of the serialization ---------- *)
Lemma qf_bounds pre q f M : nlen (pre ++ qf_text q f) <= M ->
  opt_le (qf_qs (nlen pre) q) M /\ opt_le (qf_fs (nlen pre) q f) M.
Proof.
  rewrite nlen_app. unfold qf_text. rewrite nlen_app. intros H. split.
  - destruct q; cbn [qf_qs opt_le]; [lia | exact I].
  - destruct f as [y|]; cbn [qf_fs opt_le]; [lia | exact I].
Qed.

(* ---------- replacing query and fragment inside each canonical form ---------- *)
Lemma opaque_ok_qf sch P q0 f0 q f : opaque_ok sch P q0 f0 ->
  opt_clean T_QUERY q -> opt_clean T_FRAGMENT f -> (q = None -> f = None -> first_ok (rev P)) ->
  nlen (opaque_ser sch P q f) <= U32_MAX_P -> opaque_ok sch P q f.
Proof.
  intros K Hq Hf Hl Hb. destruct K. destruct (qf_bounds _ _ _ _ Hb) as [B1 B2]. constructor; assumption.
Qed.

Lemma noauth_ok_qf sch segs last q0 f0 q f : noauth_ok sch segs last q0 f0 ->
  opt_clean T_QUERY q -> opt_clean T_FRAGMENT f ->
  nlen (noauth_ser sch (path_text segs last) q f) <= U32_MAX_P -> noauth_ok sch segs last q f.
Proof.
  intros K Hq Hf Hb. destruct K. destruct (qf_bounds _ _ _ _ Hb) as [B1 B2]. constructor; assumption.
Qed.

Lemma auth_ok_qf hp hpo hd st sch ui h pt p q0 f0 q f : auth_ok hp hpo hd st sch ui h pt p q0 f0 ->
  opt_clean (query_set st) q -> opt_clean T_FRAGMENT f ->
  nlen (auth_ser hd sch ui h pt p q f) <= U32_MAX_P -> auth_ok hp hpo hd st sch ui h pt p q f.
Proof.
  intros K Hq Hf Hb. destruct K. destruct (qf_bounds _ _ _ _ Hb) as [B1 B2]. constructor; assumption.
Qed.

(* ---------- the shapes ---------- *)
Lemma opaque_url_qf sch P q f :
  opaque_url sch P q f
  = qf_url (opaque_pre sch P) (nlen sch) (nlen (sch ++ [58])) (nlen (sch ++ [58])) (nlen (sch ++ [58])) HI_None None
           (nlen (sch ++ [58])) q f.
Proof. reflexivity. Qed.

Lemma noauth_url_qf sch T q f :
  noauth_url sch T q f
  = qf_url (noauth_pre sch T) (nlen sch) (nlen (sch ++ [58])) (nlen (sch ++ [58])) (nlen (sch ++ [58])) HI_None None
           (nlen (sch ++ [58]) + nlen (marker_of T)) q f.
Proof. reflexivity. Qed.

Lemma auth_url_qf hd sch ui h pt p q f :
  auth_url hd sch ui h pt p q f
  = qf_url (auth_pre hd sch ui h pt p) (nlen sch) (nlen sch + 3 + ui_ulen ui) (nlen sch + 3 + nlen (ui_text ui))
           (nlen sch + 3 + nlen (ui_text ui) + nlen (hd h)) (hi_of_host h) pt (nlen (auth_front hd sch ui h pt)) q f.
Proof. reflexivity. Qed.

Lemma opaque_pre_sch sch P : nfirstn (nlen sch) (opaque_pre sch P) = sch /\ nlen sch <= nlen (opaque_pre sch P).
Proof. unfold opaque_pre. rewrite <- app_assoc. split; [apply nfirstn_app_len | rewrite nlen_app; lia]. Qed.

Lemma noauth_pre_sch sch T : nfirstn (nlen sch) (noauth_pre sch T) = sch /\ nlen sch <= nlen (noauth_pre sch T).
Proof. unfold noauth_pre. rewrite <- app_assoc. split; [apply nfirstn_app_len | rewrite nlen_app; lia]. Qed.

Lemma auth_pre_sch hd sch ui h pt p :
  nfirstn (nlen sch) (auth_pre hd sch ui h pt p) = sch /\ nlen sch <= nlen (auth_pre hd sch ui h pt p).
Proof.
  unfold auth_pre. split; [apply front_sch|]. rewrite nlen_app, front_len. lia.
Qed.

(* cannot_be_a_base of an opaque form needs only the first byte of the path *)
Lemma opaque_cbb_gen sch P q f : starts_with [47] P = false -> cannot_be_a_base (opaque_url sch P q f) = Some true.
Proof.
  intros HP. unfold cannot_be_a_base, u_slice_from, opaque_url. cbn [ser scheme_end].
  assert (nlen sch + 1 = nlen (sch ++ [58])) as E by (rewrite nlen_app; reflexivity). rewrite E.
  unfold opaque_ser, opaque_pre. rewrite <- !app_assoc.
  rewrite slice_from_o_some by (rewrite !nlen_app; lia).
  rewrite (app_assoc sch [58]). rewrite nskipn_app_len. cbn [bindo]. f_equal.
  destruct P as [|c r].
  - cbn [app]. unfold qf_text. destruct q; destruct f; reflexivity.
  - cbn [app]. cbn [starts_with] in *. rewrite HP. reflexivity.
Qed.

(* ---------- trailing spaces of an opaque path ---------- *)
Lemma drop_while_app_stop (g : N -> bool) x c y : g c = false -> drop_while g (x ++ c :: y) = drop_while g x ++ c :: y.
Proof.
  intros Hc. induction x as [|a x IH]; cbn [app drop_while]; [rewrite Hc; reflexivity|].
  destruct (g a); [exact IH | reflexivity].
Qed.

Lemma rstrip32_opaque_pre sch P : rstrip32 (opaque_pre sch P) = opaque_pre sch (rstrip32 P).
Proof.
  unfold rstrip32, opaque_pre. rewrite (rev_app_distr (sch ++ [58]) P). rewrite (rev_app_distr sch [58]). cbn [rev app].
  rewrite drop_while_app_stop by reflexivity. rewrite rev_app_distr. cbn [rev]. rewrite rev_involutive. reflexivity.
Qed.

Lemma rstrip32_prefix P : exists s, P = rstrip32 P ++ s.
Proof.
  unfold rstrip32. destruct (drop_while_spec (fun c => c =? 32) (rev P)) as (a & Ha & _).
  exists (rev a). rewrite <- rev_app_distr, <- Ha. symmetry. apply rev_involutive.
Qed.

Lemma kept_CONTROLS_ge32 : kept_sat T_CONTROLS (fun c => 32 <=? c) = true. Proof. vm_compute. reflexivity. Qed.

Lemma rstrip32_ok sch P q f : opaque_ok sch P q f -> opaque_ok sch (rstrip32 P) None None.
Proof.
  intros K. destruct K as [Ksch Kns KP KPq KPh Kq Kf Klast Kb1 Kbq Kbf]. destruct (rstrip32_prefix P) as [s Es].
  assert (clean T_CONTROLS (rstrip32 P) = true) as C1.
  { unfold clean in *. rewrite Es in KP. rewrite forallb_app in KP. apply andb_true_iff in KP. tauto. }
  constructor; try assumption; try exact I.
  - rewrite Es in KPq. rewrite forallb_app in KPq. apply andb_true_iff in KPq. tauto.
  - destruct (rstrip32 P) as [|c r] eqn:E; [reflexivity|]. rewrite Es in KPh. cbn [app starts_with] in *. exact KPh.
  - intros _ _. unfold rstrip32 in *. rewrite rev_involutive.
    destruct (drop_while_spec (fun c => c =? 32) (rev P)) as (a & _ & _ & Hhd).
    destruct (drop_while (fun c => c =? 32) (rev P)) as [|c r] eqn:E; [exact I|]. cbn [first_ok].
    pose proof (clean_forallb _ _ _ kept_CONTROLS_ge32 C1) as G. cbn [rev] in G. rewrite forallb_app in G.
    apply andb_true_iff in G. destruct G as [_ G]. cbn [forallb] in G. unfold is_c0_or_space. lia.
Qed.

Section Canon.
Variable dbg : bool.
Variable hp hpo : list N -> result host.
Variable hd : host -> list N.
Hypothesis HRT : HostRT hp hpo hd.

(* ---------- the union of the four canonical forms ---------- *)
Inductive Canon : url -> Prop :=
| Canon_opaque sch P q f : opaque_ok sch P q f -> Canon (opaque_url sch P q f)
| Canon_noauth sch segs last q f : noauth_ok sch segs last q f -> Canon (noauth_url sch (path_text segs last) q f)
| Canon_auth sch ui h pt p q f : auth_ok hp hpo hd STNotSpecial sch ui h pt p q f -> Canon (auth_url hd sch ui h pt p q f)
| Canon_special sch ui h pt p q f : auth_ok hp hpo hd STSpecialNotFile sch ui h pt p q f -> pth_ok_sp p ->
    Canon (auth_url hd sch ui h pt p q f).

Theorem Canon_fixpoint u : Canon u ->
  Fixpoint_of_reparse dbg hp hpo hd u /\ wf_b u = true /\ ascii (ser u).
Proof.
  intros [sch P q f K | sch segs last q f K | sch ui h pt p q f K | sch ui h pt p q f K Kp].
  - pose proof (opaque_ser_ascii sch P q f K) as A.
    split; [|split; [exact (opaque_url_wf sch P q f K) | exact A]].
    unfold Fixpoint_of_reparse, reparse. cbn [ser opaque_url]. rewrite utf8_lossy_ascii by exact A.
    exact (reparse_opaque_form dbg hp hpo hd None sch P q f K).
  - destruct (noauth_url_wf sch segs last q f K) as (W & _ & A).
    split; [|split; [exact W | exact A]].
    unfold Fixpoint_of_reparse, reparse. cbn [ser noauth_url]. rewrite utf8_lossy_ascii by exact A.
    exact (reparse_noauth_form dbg hp hpo hd None sch segs last q f K).
  - split; [apply (L3_auth dbg hp hpo hd HRT); exists sch, ui, h, pt, p, q, f; split; [exact K | reflexivity]|].
    split; [exact (proj1 (auth_url_wf hp hpo hd HRT _ _ _ _ _ _ _ _ K))|].
    apply okc_ascii. exact (auth_ser_okc hp hpo hd HRT _ _ _ _ _ _ _ _ K).
  - split; [apply (L3_special dbg hp hpo hd HRT); exists sch, ui, h, pt, p, q, f; split; [exact K | split; [exact Kp | reflexivity]]|].
    split; [exact (proj1 (auth_url_wf hp hpo hd HRT _ _ _ _ _ _ _ _ K))|].
    apply okc_ascii. exact (auth_ser_okc hp hpo hd HRT _ _ _ _ _ _ _ _ K).
Qed.

(* every parse result without base of a non-file scheme is Canon (special schemes: no encoding override) *)
Theorem parse_Canon ovr input u : host_above hp hpo hd -> usv_list input -> nonfile_input input = true ->
  (ovr = None \/ special_input input = false) ->
  parse_url dbg hp hpo hd ovr None input = POk u -> Canon u.
Proof.
  intros HAb Hu Hc Hov Hp. unfold nonfile_input in Hc.
  destruct (parse_scheme CUrlParser (input_new_trim_c0 input)) as [[sch rem]|] eqn:Hs; [|discriminate].
  destruct (scheme_type_of sch) eqn:Hst; [discriminate| |].
  - assert (special_input input = true) as Hsi by (unfold special_input; rewrite Hs, Hst; reflexivity).
    destruct Hov as [-> | Hov]; [|congruence].
    destruct (parse_special_out dbg hp hpo hd HRT HAb input sch rem u Hu Hs Hst Hp) as (ui & h & pt & p & q & f & K & Kp & ->).
    exact (Canon_special sch ui h pt p q f K Kp).
  - destruct (inp_split_prefix_char 47 rem) as [rem'|] eqn:E47.
    + destruct (inp_split_prefix_str s_ss rem) as [rem''|] eqn:Ess.
      * destruct (parse_auth_out dbg hp hpo hd HRT HAb ovr input sch rem rem'' u Hu Hs Hst Ess Hp) as (ui & h & pt & p & q & f & K & ->).
        exact (Canon_auth sch ui h pt p q f K).
      * destruct (parse_noauth_out dbg hp hpo hd ovr input sch rem rem' u Hu Hs Hst Ess E47 Hp) as (segs & last & q & f & K & ->).
        exact (Canon_noauth sch segs last q f K).
    + destruct (parse_opaque_out dbg hp hpo hd ovr input sch rem u Hu Hs Hst E47 Hp) as (P & q & f & K & ->).
      exact (Canon_opaque sch P q f K).
Qed.

(* ---------- L2: set_fragment ---------- *)
Theorem set_fragment_Canon u fr u' : Canon u -> usv_opt fr ->
  set_fragment dbg u fr = Some u' -> nlen (ser u') <= U32_MAX_P -> Canon u'.
Proof.
  intros C Hfr. destruct C as [sch P q f K | sch segs last q f K | sch ui h pt p q f K | sch ui h pt p q f K Kp].
  - (* opaque path *)
    rewrite opaque_url_qf. destruct fr as [x|].
    + rewrite set_fragment_qf_some by exact Hfr. intros E Hb. inversion E; subst u'. rewrite <- opaque_url_qf in *.
      apply Canon_opaque. apply (opaque_ok_qf sch P q f); try assumption.
      * exact (ok_q _ _ _ _ K).
      * exact (frag_of_clean x Hfr).
      * intros _ E0. discriminate E0.
    + rewrite (set_fragment_qf_none dbg _ _ _ _ _ _ _ _ q f true)
        by (rewrite <- opaque_url_qf; apply opaque_cbb_gen; exact (ok_Ph _ _ _ _ K)).
      intros E Hb. inversion E; subst u'. clear E. destruct q as [y|]; cbn [andb] in *.
      * rewrite <- opaque_url_qf in *. apply Canon_opaque. apply (opaque_ok_qf sch P (Some y) f); try assumption.
        -- exact (ok_q _ _ _ _ K).
        -- intros E0. discriminate E0.
      * rewrite rstrip32_opaque_pre.
        replace (qf_url (opaque_pre sch (rstrip32 P)) (nlen sch) (nlen (sch ++ [58])) (nlen (sch ++ [58])) (nlen (sch ++ [58]))
                        HI_None None (nlen (sch ++ [58])) None None)
          with (opaque_url sch (rstrip32 P) None None) by reflexivity.
        apply Canon_opaque. exact (rstrip32_ok sch P None f K).
  - (* no authority *)
    rewrite noauth_url_qf. destruct fr as [x|].
    + rewrite set_fragment_qf_some by exact Hfr. intros E Hb. inversion E; subst u'. rewrite <- noauth_url_qf in *.
      apply Canon_noauth. apply (noauth_ok_qf sch segs last q f); try assumption.
      * exact (nk_q _ _ _ _ _ K).
      * exact (frag_of_clean x Hfr).
    + assert (noauth_ok sch segs last q None) as K0 by (destruct K; constructor; try assumption; exact I).
      rewrite (set_fragment_qf_none dbg _ _ _ _ _ _ _ _ q f false)
        by (rewrite <- noauth_url_qf; exact (proj1 (proj2 (noauth_url_wf sch segs last q None K0)))).
      intros E Hb. inversion E; subst u'. cbn [andb]. rewrite <- noauth_url_qf. exact (Canon_noauth sch segs last q None K0).
  - rewrite auth_url_qf. destruct fr as [x|].
    + rewrite set_fragment_qf_some by exact Hfr. intros E Hb. inversion E; subst u'. rewrite <- auth_url_qf in *.
      apply Canon_auth. apply (auth_ok_qf hp hpo hd STNotSpecial sch ui h pt p q f); try assumption.
      * exact (ak_q _ _ _ _ _ _ _ _ _ _ _ K).
      * exact (frag_of_clean x Hfr).
    + assert (auth_ok hp hpo hd STNotSpecial sch ui h pt p q None) as K0 by (destruct K; constructor; try assumption; exact I).
      rewrite (set_fragment_qf_none dbg _ _ _ _ _ _ _ _ q f false)
        by (rewrite <- auth_url_qf; exact (proj2 (auth_url_wf hp hpo hd HRT _ _ _ _ _ _ _ _ K0))).
      intros E Hb. inversion E; subst u'. cbn [andb]. rewrite <- auth_url_qf. exact (Canon_auth sch ui h pt p q None K0).
  - rewrite auth_url_qf. destruct fr as [x|].
    + rewrite set_fragment_qf_some by exact Hfr. intros E Hb. inversion E; subst u'. rewrite <- auth_url_qf in *.
      apply Canon_special; [|exact Kp]. apply (auth_ok_qf hp hpo hd STSpecialNotFile sch ui h pt p q f); try assumption.
      * exact (ak_q _ _ _ _ _ _ _ _ _ _ _ K).
      * exact (frag_of_clean x Hfr).
    + assert (auth_ok hp hpo hd STSpecialNotFile sch ui h pt p q None) as K0 by (destruct K; constructor; try assumption; exact I).
      rewrite (set_fragment_qf_none dbg _ _ _ _ _ _ _ _ q f false)
        by (rewrite <- auth_url_qf; exact (proj2 (auth_url_wf hp hpo hd HRT _ _ _ _ _ _ _ _ K0))).
      intros E Hb. inversion E; subst u'. cbn [andb]. rewrite <- auth_url_qf. exact (Canon_special sch ui h pt p q None K0 Kp).
Qed.

(* ---------- L2: set_query ---------- *)
Theorem set_query_Canon u qr u' : Canon u -> usv_opt qr ->
  set_query dbg u qr = Some u' -> nlen (ser u') <= U32_MAX_P -> Canon u'.
Proof.
  intros C Hqr. destruct C as [sch P q f K | sch segs last q f K | sch ui h pt p q f K | sch ui h pt p q f K Kp].
  - (* opaque path *)
    rewrite opaque_url_qf. destruct (opaque_pre_sch sch P) as [S1 S2]. destruct qr as [x|].
    + rewrite (set_query_qf_some dbg _ _ _ _ _ _ _ _ sch S1 S2 q f x Hqr).
      intros E Hb. inversion E; subst u'. rewrite <- opaque_url_qf in *.
      apply Canon_opaque. apply (opaque_ok_qf sch P q f); try assumption.
      * cbn [opt_clean]. rewrite (ok_ns _ _ _ _ K). exact (squery_of_clean STNotSpecial x Hqr).
      * exact (ok_f _ _ _ _ K).
      * intros E0. discriminate E0.
    + rewrite (set_query_qf_none dbg _ _ _ _ _ _ _ _ q f true)
        by (rewrite <- opaque_url_qf; apply opaque_cbb_gen; exact (ok_Ph _ _ _ _ K)).
      intros E Hb. inversion E; subst u'. clear E. destruct f as [y|]; cbn [andb] in *.
      * rewrite <- opaque_url_qf in *. apply Canon_opaque. apply (opaque_ok_qf sch P q (Some y)); try assumption.
        -- exact (ok_f _ _ _ _ K).
        -- intros _ E0. discriminate E0.
      * rewrite rstrip32_opaque_pre.
        replace (qf_url (opaque_pre sch (rstrip32 P)) (nlen sch) (nlen (sch ++ [58])) (nlen (sch ++ [58])) (nlen (sch ++ [58]))
                        HI_None None (nlen (sch ++ [58])) None None)
          with (opaque_url sch (rstrip32 P) None None) by reflexivity.
        apply Canon_opaque. exact (rstrip32_ok sch P q None K).
  - (* no authority *)
    rewrite noauth_url_qf. destruct (noauth_pre_sch sch (path_text segs last)) as [S1 S2]. destruct qr as [x|].
    + rewrite (set_query_qf_some dbg _ _ _ _ _ _ _ _ sch S1 S2 q f x Hqr).
      intros E Hb. inversion E; subst u'. rewrite <- noauth_url_qf in *.
      apply Canon_noauth. apply (noauth_ok_qf sch segs last q f); try assumption.
      * cbn [opt_clean]. rewrite (nk_ns _ _ _ _ _ K). exact (squery_of_clean STNotSpecial x Hqr).
      * exact (nk_f _ _ _ _ _ K).
    + assert (noauth_ok sch segs last None None) as K0 by (destruct K; constructor; try assumption; exact I).
      rewrite (set_query_qf_none dbg _ _ _ _ _ _ _ _ q f false)
        by (rewrite <- noauth_url_qf; exact (proj1 (proj2 (noauth_url_wf sch segs last None None K0)))).
      intros E Hb. inversion E; subst u'. cbn [andb] in *. rewrite <- noauth_url_qf in *.
      apply Canon_noauth. apply (noauth_ok_qf sch segs last q f); try assumption; try exact I; try exact (nk_f _ _ _ _ _ K).
  - rewrite auth_url_qf. destruct (auth_pre_sch hd sch ui h pt p) as [S1 S2]. destruct qr as [x|].
    + rewrite (set_query_qf_some dbg _ _ _ _ _ _ _ _ sch S1 S2 q f x Hqr).
      intros E Hb. inversion E; subst u'. rewrite <- auth_url_qf in *.
      apply Canon_auth. apply (auth_ok_qf hp hpo hd STNotSpecial sch ui h pt p q f); try assumption.
      * cbn [opt_clean]. rewrite (ak_st _ _ _ _ _ _ _ _ _ _ _ K). exact (squery_of_clean STNotSpecial x Hqr).
      * exact (ak_f _ _ _ _ _ _ _ _ _ _ _ K).
    + assert (auth_ok hp hpo hd STNotSpecial sch ui h pt p None None) as K0 by (destruct K; constructor; try assumption; exact I).
      rewrite (set_query_qf_none dbg _ _ _ _ _ _ _ _ q f false)
        by (rewrite <- auth_url_qf; exact (proj2 (auth_url_wf hp hpo hd HRT _ _ _ _ _ _ _ _ K0))).
      intros E Hb. inversion E; subst u'. cbn [andb] in *. rewrite <- auth_url_qf in *.
      apply Canon_auth. apply (auth_ok_qf hp hpo hd STNotSpecial sch ui h pt p q f); try assumption; try exact I;
        try exact (ak_f _ _ _ _ _ _ _ _ _ _ _ K).
  - rewrite auth_url_qf. destruct (auth_pre_sch hd sch ui h pt p) as [S1 S2]. destruct qr as [x|].
    + rewrite (set_query_qf_some dbg _ _ _ _ _ _ _ _ sch S1 S2 q f x Hqr).
      intros E Hb. inversion E; subst u'. rewrite <- auth_url_qf in *.
      apply Canon_special; [|exact Kp]. apply (auth_ok_qf hp hpo hd STSpecialNotFile sch ui h pt p q f); try assumption.
      * cbn [opt_clean]. rewrite (ak_st _ _ _ _ _ _ _ _ _ _ _ K). exact (squery_of_clean STSpecialNotFile x Hqr).
      * exact (ak_f _ _ _ _ _ _ _ _ _ _ _ K).
    + assert (auth_ok hp hpo hd STSpecialNotFile sch ui h pt p None None) as K0 by (destruct K; constructor; try assumption; exact I).
      rewrite (set_query_qf_none dbg _ _ _ _ _ _ _ _ q f false)
        by (rewrite <- auth_url_qf; exact (proj2 (auth_url_wf hp hpo hd HRT _ _ _ _ _ _ _ _ K0))).
      intros E Hb. inversion E; subst u'. cbn [andb] in *. rewrite <- auth_url_qf in *.
      apply Canon_special; [|exact Kp]. apply (auth_ok_qf hp hpo hd STSpecialNotFile sch ui h pt p q f); try assumption; try exact I;
        try exact (ak_f _ _ _ _ _ _ _ _ _ _ _ K).
Qed.

End Canon.
