(* Proofs/Idna_C10_Prefix.v - XnPrefixSpec (Proofs/Idna_Redisc.v) holds: on bytes, has_punycode_prefix
   (one masked 32-bit comparison with the regenerated constants) accepts exactly the sixteen spellings
   of "xn--".  Bit-level proof: the four bytes are read back from the little-endian word. *)
From RU Require Import Base.Prelude Base.Utf8 Base.U32_c13 Gen.Tables Model.Punycode Model.Uts46
  Proofs.Idna_Sim Proofs.Idna_Api Proofs.Idna_Known Proofs.Idna_Hyp Proofs.Idna_Redisc.

Lemma tb_small x k n : x < 2 ^ k -> k <= n -> N.testbit x n = false.
Proof.
  intros Hx Hk. destruct (N.eq_dec x 0) as [->|Hz]; [apply N.bits_0|].
  apply N.bits_above_log2. assert (N.log2 x < k) by (apply N.log2_lt_pow2; lia). lia.
Qed.
Lemma tb_shift x s n : N.testbit (N.shiftl x s) n = if s <=? n then N.testbit x (n - s) else false.
Proof.
  destruct (s <=? n) eqn:E.
  - apply N.shiftl_spec_high'. lia.
  - apply N.shiftl_spec_low. lia.
Qed.

Definition le_word (a b c d : N) : N :=
  N.lor (N.lor (N.lor (N.shiftl d 24) (N.shiftl c 16)) (N.shiftl b 8)) a.

Lemma le_word_bits a b c d j : a < 256 -> b < 256 -> c < 256 -> d < 256 -> j < 8 ->
  N.testbit (le_word a b c d) (0 + j) = N.testbit a j /\
  N.testbit (le_word a b c d) (8 + j) = N.testbit b j /\
  N.testbit (le_word a b c d) (16 + j) = N.testbit c j /\
  N.testbit (le_word a b c d) (24 + j) = N.testbit d j.
Proof.
  intros Ha Hb Hc Hd Hj. unfold le_word. rewrite !N.lor_spec, !tb_shift.
  change 256 with (2 ^ 8) in *.
  repeat split.
  - replace (24 <=? 0 + j) with false by lia. replace (16 <=? 0 + j) with false by lia.
    replace (8 <=? 0 + j) with false by lia. cbn [orb]. f_equal; lia.
  - replace (24 <=? 8 + j) with false by lia. replace (16 <=? 8 + j) with false by lia.
    replace (8 <=? 8 + j) with true by lia. cbn [orb].
    rewrite (tb_small a 8 (8 + j) Ha) by lia. rewrite orb_false_r. f_equal; lia.
  - replace (24 <=? 16 + j) with false by lia. replace (16 <=? 16 + j) with true by lia.
    replace (8 <=? 16 + j) with true by lia. cbn [orb].
    rewrite (tb_small a 8 (16 + j) Ha) by lia. rewrite (tb_small b 8 (16 + j - 8) Hb) by lia.
    rewrite !orb_false_r. f_equal; lia.
  - replace (24 <=? 24 + j) with true by lia. replace (16 <=? 24 + j) with true by lia.
    replace (8 <=? 24 + j) with true by lia.
    rewrite (tb_small a 8 (24 + j) Ha) by lia. rewrite (tb_small b 8 (24 + j - 8) Hb) by lia.
    rewrite (tb_small c 8 (24 + j - 16) Hc) by lia.
    rewrite !orb_false_r. f_equal; lia.
Qed.

(* the byte at bit offset `off` of a word x with (x land MASK) = PREFIX *)
Definition chk (off x : N) : bool :=
  forallb (fun j => Bool.eqb (N.testbit x j && N.testbit T_IDNA_PREFIX_MASK (off + j)) (N.testbit T_IDNA_PREFIX (off + j)))
          [0; 1; 2; 3; 4; 5; 6; 7].

Lemma chk_intro off x :
  (forall j, j < 8 -> N.testbit x j && N.testbit T_IDNA_PREFIX_MASK (off + j) = N.testbit T_IDNA_PREFIX (off + j)) ->
  chk off x = true.
Proof.
  intros H. unfold chk. apply forallb_forall. intros j Hj. apply Bool.eqb_true_iff. apply H.
  cbn [In] in Hj. lia.
Qed.

Lemma chk0 : all_below 256 (fun x => implb (chk 0 x) ((x =? 120) || (x =? 88))) = true.
Proof. vm_compute. reflexivity. Qed.
Lemma chk8 : all_below 256 (fun x => implb (chk 8 x) ((x =? 110) || (x =? 78))) = true.
Proof. vm_compute. reflexivity. Qed.
Lemma chk16 : all_below 256 (fun x => implb (chk 16 x) (x =? 45)) = true.
Proof. vm_compute. reflexivity. Qed.
Lemma chk24 : all_below 256 (fun x => implb (chk 24 x) (x =? 45)) = true.
Proof. vm_compute. reflexivity. Qed.

Lemma sweep256 (p q : N -> bool) : all_below 256 (fun b => implb (p b) (q b)) = true ->
  forall c, c < 256 -> p c = true -> q c = true.
Proof.
  intros H c Hc Hp. pose proof (all_below_spec 256 (fun b => implb (p b) (q b)) H c Hc) as Hx.
  cbv beta in Hx. rewrite Hp in Hx. exact Hx.
Qed.

Theorem xn_prefix_bytes a b c d r : a < 256 -> b < 256 -> c < 256 -> d < 256 ->
  has_punycode_prefix (a :: b :: c :: d :: r) = true ->
  (a = 120 \/ a = 88) /\ (b = 110 \/ b = 78) /\ c = 45 /\ d = 45.
Proof.
  intros Ha Hb Hc Hd H. cbn [has_punycode_prefix] in H. fold (le_word a b c d) in H.
  apply N.eqb_eq in H.
  assert (HB : forall off j, N.testbit (le_word a b c d) (off + j) && N.testbit T_IDNA_PREFIX_MASK (off + j)
                             = N.testbit T_IDNA_PREFIX (off + j)).
  { intros off j. rewrite <- N.land_spec. rewrite H. reflexivity. }
  assert (H0 : chk 0 a = true).
  { apply chk_intro. intros j Hj. rewrite <- (proj1 (le_word_bits a b c d j Ha Hb Hc Hd Hj)). apply HB. }
  assert (H8 : chk 8 b = true).
  { apply chk_intro. intros j Hj. rewrite <- (proj1 (proj2 (le_word_bits a b c d j Ha Hb Hc Hd Hj))). apply HB. }
  assert (H16 : chk 16 c = true).
  { apply chk_intro. intros j Hj. rewrite <- (proj1 (proj2 (proj2 (le_word_bits a b c d j Ha Hb Hc Hd Hj)))). apply HB. }
  assert (H24 : chk 24 d = true).
  { apply chk_intro. intros j Hj. rewrite <- (proj2 (proj2 (proj2 (le_word_bits a b c d j Ha Hb Hc Hd Hj)))). apply HB. }
  pose proof (sweep256 (chk 0) (fun x => (x =? 120) || (x =? 88)) chk0 a Ha H0) as R0.
  pose proof (sweep256 (chk 8) (fun x => (x =? 110) || (x =? 78)) chk8 b Hb H8) as R8.
  pose proof (sweep256 (chk 16) (fun x => x =? 45) chk16 c Hc H16) as R16.
  pose proof (sweep256 (chk 24) (fun x => x =? 45) chk24 d Hd H24) as R24.
  cbv beta in R0, R8, R16, R24. lia.
Qed.

Theorem xn_prefix_spec : XnPrefixSpec.
Proof.
  intros ascii Hasc H.
  destruct ascii as [|a [|b [|c [|d r]]]]; try discriminate H.
  inversion Hasc as [|? ? Ha H1]; subst. inversion H1 as [|? ? Hb H2]; subst.
  inversion H2 as [|? ? Hc H3]; subst. inversion H3 as [|? ? Hd H4]; subst.
  destruct (xn_prefix_bytes a b c d r ltac:(lia) ltac:(lia) ltac:(lia) ltac:(lia) H) as (Xa & Xb & -> & ->).
  exists a, b, r. repeat split; assumption.
Qed.
