(* Proofs/Idna_C12d_Round.v - C12, the clauses about the Unicode form (a_of_u, u_idem) for ALL accepted names outside
   Known_C12 and Known_C10_long: the restriction PunyIn d = false of Proofs/Idna_C12c_Round.v is lifted.
   For a pair (dbl, MixedCasePunycode m) of the accepted run (an xn-- INPUT label m, decoded to dec, validated to dbl)
   ToUnicode shows dbl and ToASCII writes the lower-cased m; the label step on the UTF-8 form of dbl gives back dbl with
   the entry AalOther (pres_unicode), for which ToASCII writes xn-- and encode_internal dbl.  Two facts close the case:
     - dbl = dec.  after_punycode_decode compares normalize_validate dec with dec by a zip, which stops at the shorter
       text: NvNoTrunc excludes a shorter normalised text, NOTHING among the seven premises of C12_statement4 excludes a
       longer one.  The new premise is NvNoGrow (normalize_validate l = l ++ t -> t = []); see Proofs/Idna_C12d_Stmt5.v.
     - encode_internal (decode U8Internal p) = map to_lower p (Proofs/Idna_C12d_EncDec.v). *)
From RU Require Import Base.Prelude Base.Utf8 Base.Utf8Facts Base.U32_c13 Gen.Tables Model.Punycode Model.Uts46
  Proofs.C13_Ascii Proofs.Idna_Sim Proofs.Idna_Api Proofs.Idna_Known Proofs.Idna_Hyp Proofs.Idna_Redisc
  Proofs.Idna_C10_Deny Proofs.Idna_C10_Puny Proofs.Idna_C10_Prefix Proofs.Idna_C10_Inner Proofs.Idna_C10_Walk
  Proofs.Idna_C10b_Long Proofs.Idna_C10b_AsciiInner Proofs.Idna_C10b_AsciiWalk Proofs.Idna_C10b_Stmt
  Proofs.Idna_WalkFun Proofs.Idna_WalkInv Proofs.Idna_WalkApi Proofs.Idna_WalkEnc Proofs.Idna_PunyRT
  Proofs.Idna_C10c_Puny Proofs.Idna_C10c_Start Proofs.Idna_C10c_Drun Proofs.Idna_C10c_Loop Proofs.Idna_C10c_Rerun
  Proofs.Idna_C10c_Idem Proofs.Idna_C10c_Example Proofs.Idna_Mark Proofs.Idna_C12 Proofs.Idna_C12b_Stmt3
  Proofs.Idna_C10d_CaseLabel Proofs.Idna_C10d_CaseLoop Proofs.Idna_C10d_Case Proofs.Idna_C12c_Virtual Proofs.Idna_C12c_UofA
  Proofs.Idna_C12c_Stmt4 Proofs.Idna_C12c_ULabel Proofs.Idna_C12c_Round Proofs.Idna_C12d_EncDec.

(* normalize_validate never returns its argument followed by more text (the real one: a canonically equivalent text
   of which the argument is a proper prefix does not exist; an invalid character is replaced one for one) *)
Definition NvNoGrow (A : adapter) : Prop := forall l t, normalize_validate A l = l ++ t -> t = [].

Section Round2.
Variable A : adapter.
Variable cfg : bool.
Variable deny : N.
Variable hy : hyphens.
Hypothesis HU : DenyUpper deny.
Hypothesis HL : LdhFree deny.
Hypothesis HOK : AdapterOK A.
Hypothesis HUSV : AdapterUSV A.
Hypothesis HNT : NvNoTrunc A.
Hypothesis HNI : NvIdem A.
Hypothesis HNM : AsciiNoMark A.
Hypothesis HMP : MapPrefix A.
Hypothesis HMF : NvMapFix A.
Hypothesis HNG : NvNoGrow A.

Notation PairOK := (PairOK A cfg deny hy).
Notation pres := (pres A cfg deny hy).
Notation proc_all := (proc_all A cfg deny hy).

(* ---- an accepted xn-- input label: the validated text is the decoded text ---- *)
Lemma puny_dbl_dec dec dbl : after_punycode_decode A true (dd deny) dec false = SOk (dbl, false) ->
  dbl = dec /\ normalize_validate A dbl = dbl /\ Forall (gc (dd deny)) dbl /\ usv_list dbl.
Proof.
  intros Hapd. destruct (apd_inv A deny dec dbl false Hapd) as (_ & Hd & Hg & Hz).
  assert (E : dbl = dec).
  { destruct (zip_mark_none _ _ Hz) as [[t Ht]|[t Ht]].
    - rewrite Hd in Ht. pose proof (HNT dec t Ht) as ->. rewrite app_nil_r in Ht. rewrite Hd. symmetry. exact Ht.
    - rewrite Hd in Ht. pose proof (HNG dec t Ht) as ->. rewrite app_nil_r in Ht. rewrite Hd. exact Ht. }
  split; [exact E|]. split; [rewrite E; rewrite E in Hd; symmetry; exact Hd|]. split; [exact Hg|].
  rewrite Hd. apply (usv_norm A HUSV).
Qed.

(* ---- the pair of an accepted xn-- input label ---- *)
Lemma pair_rtu_puny m dbl o : PairOK dbl (MixedCasePunycode m) -> starts_with dbl XN_PREFIX = false ->
  out_label cfg is_ascii_l dbl (MixedCasePunycode m) = inl o ->
  pres (utf8_encode dbl) = SOk (dbl, false, [AalOther]) /\ out_label cfg is_ascii_l dbl AalOther = inl o /\
  nodot (utf8_encode dbl) /\ usv_list dbl.
Proof.
  intros HP Hx Ho.
  inversion HP as [|m' dec dbl' Ha Hn Hp Hc Hd Hapd Hchk Hna E1 E2|]; subst m' dbl'.
  destruct (puny_dbl_dec dec dbl Hapd) as (Edd & Hnv & Hg & Hu).
  cbn [out_label] in Ho. rewrite Hna in Ho. inversion Ho. subst o. clear Ho.
  split; [exact (pres_unicode A cfg deny hy HU HMP HMF dbl Hnv Hg Hchk Hu Hna Hx)|].
  split; [|split; [exact (utf8_encode_nodot dbl (gc_all_nodot deny dbl Hg))|exact Hu]].
  cbn [out_label]. rewrite Hna. unfold enc_label.
  destruct (xn_prefix_spec m Ha Hp) as (a & b & r & Em & Xa & Xb).
  assert (Hr : skipn 4 m = r) by (rewrite Em; reflexivity).
  assert (Har : Forall (fun b => b < 128) r).
  { rewrite Em in Ha. inversion Ha as [|? ? _ H1]; subst. inversion H1 as [|? ? _ H2]; subst.
    inversion H2 as [|? ? _ H3]; subst. inversion H3 as [|? ? _ H4]; subst. exact H4. }
  assert (Hlr : C13_Enc.len r <= U32_MAX).
  { unfold puny_cond in Hc. apply andb_true_iff in Hc. destruct Hc as [_ Hc]. apply N.leb_le in Hc.
    rewrite Em in Hc. unfold len in Hc. cbn [length] in Hc.
    change PUNYCODE_DECODE_MAX_INPUT_LENGTH with 2000 in Hc. unfold C13_Enc.len, U32_MAX. lia. }
  pose proof (chk_len A cfg hy dbl Hchk Hna) as Hlen.
  assert (Hl1000 : (length dbl <= 1000)%nat).
  { change PUNYCODE_ENCODE_MAX_INPUT_LENGTH with 1000 in Hlen. unfold len in Hlen. lia. }
  rewrite Hr in Hd. rewrite <- Edd in Hd.
  rewrite (enc_dec_internal cfg r dbl Har Hlr Hd Hu Hl1000).
  f_equal. rewrite Em. cbn [map app XN_PREFIX]. destruct Xa as [-> | ->]; destruct Xb as [-> | ->]; reflexivity.
Qed.

(* ---- one pair, every kind of entry ---- *)
Lemma pair_rtu2 dbl e o : PairOK dbl e -> xn_free dbl e ->
  out_label cfg is_ascii_l dbl e = inl o -> long_puny_label o = false ->
  exists ou e3, out_label cfg uT dbl e = inl ou /\ pres (utf8_encode ou) = SOk (dbl, false, [e3]) /\
    out_label cfg is_ascii_l dbl e3 = inl o /\ out_label cfg uT dbl e3 = inl ou /\ nodot (utf8_encode ou) /\ usv_list ou.
Proof.
  intros HP Hx Ho Hlong. destruct (is_mcp e) eqn:Em.
  - destruct e as [m|m|]; try discriminate Em. cbn [xn_free] in Hx.
    destruct (pair_rtu_puny m dbl o HP Hx Ho) as (P1 & P2 & P3 & P4).
    exists dbl, AalOther. repeat split; assumption.
  - exact (pair_rtu A cfg deny hy HU HL HMP HMF dbl e o HP Em Hx Ho Hlong).
Qed.

(* ---- all the pairs ---- *)
Lemma build_U2 DBL : forall ap os, Forall2 PairOK DBL ap -> Forall2 xn_free DBL ap ->
  outs cfg is_ascii_l DBL ap = inl os -> Forall (fun o => long_puny_label o = false) os ->
  exists ous e3s, outs cfg uT DBL ap = inl ous /\ proc_all (map utf8_encode ous) = SOk (DBL, map (fun e => [e]) e3s) /\
    outs cfg is_ascii_l DBL e3s = inl os /\ outs cfg uT DBL e3s = inl ous /\
    Forall nodot (map utf8_encode ous) /\ Forall usv_list ous.
Proof.
  induction DBL as [|dbl DBL IH]; intros ap os HP Hx Ho Hl.
  - inversion HP; subst. cbn [outs] in Ho. inversion Ho. exists [], []. repeat split; constructor.
  - inversion HP as [|? e ? ap' H1 H2]; subst. inversion Hx as [|? ? ? ? X1 X2]; subst. cbn [outs] in Ho.
    destruct (out_label cfg is_ascii_l dbl e) as [o|s] eqn:E1; [|discriminate].
    destruct (outs cfg is_ascii_l DBL ap') as [os'|s] eqn:E2; [|discriminate]. inversion Ho. subst os.
    inversion Hl as [|? ? Hl1 Hl2]; subst.
    destruct (IH _ _ H2 X2 E2 Hl2) as (ous & e3s & U1 & U2 & U3 & U4 & U5 & U6).
    destruct (pair_rtu2 dbl e o H1 X1 E1 Hl1) as (ou & e3 & P1 & P2 & P3 & P4 & P5 & P6).
    exists (ou :: ous), (e3 :: e3s). cbn [outs map proc_all]. rewrite P1, U1, P2, U2, P3, U3, P4, U4.
    repeat split; constructor; assumption.
Qed.

(* ---- the two clauses, every accepted name ---- *)
Theorem round_unicode2 d b a : bytes d -> to_ascii A cfg d deny hy DIgnore = Ok (b, a) -> Known_C10_long a = false ->
  Known_C12 A cfg d deny hy = false ->
  exists bu u b' bu', to_unicode A cfg d deny hy = UI bu u false /\
    to_ascii A cfg (utf8_encode u) deny hy DIgnore = Ok (b', a) /\
    to_unicode A cfg (utf8_encode u) deny hy = UI bu' u false /\ usv_list u.
Proof.
  intros Hb H Hlong HK12. pose proof (redisc_of_adapter A cfg deny (ok_nil A HOK) HU) as HR.
  destruct (first_run A cfg deny hy HU HL HOK HUSV HNT HNI HNM HMP d b a Hb H)
    as [(-> & Had & HTd)|(pl & DBL & ap & bd & os & ou & bu & Ei & Hpl & HD & HPK & Hbidi & Hbok & Eo & Hos & Ha & Eu & Hou & HTu)].
  - exists true, d, b, true. rewrite (utf8_encode_ascii d Had). split; [exact HTd|]. split; [exact H|]. split; [exact HTd|exact (ascii_usv d Had)].
  - pose proof (pairok_all_nodot A cfg deny hy _ _ HPK) as HDn.
    destruct (outs_nodot A cfg deny hy HU HL DBL ap os HPK Eo) as [Hosn Hosl].
    destruct (inner_ff_facts A cfg hy deny d _ _ _ _ _ Ei) as [HX|[_ Hm]]; [inversion HX|].
    unfold Known_C12 in HK12. rewrite Hm in HK12. rewrite (Idna_Mark.split_join DBL HD HDn) in HK12.
    assert (Hxf : Forall2 xn_free DBL ap).
    { pose proof (combine_forall2 (fun l e => match e with MixedCaseAscii _ => false | _ => starts_with l XN_PREFIX end) DBL ap
                    (Forall2_len _ _ _ HPK) HK12) as HF.
      clear -HF. induction HF as [|l e ls es H1 _ IH]; constructor; [|exact IH]. destruct e; cbn [xn_free]; [exact I|exact H1|exact H1]. }
    assert (Hsplit : split_on DOT a = pl ++ os).
    { rewrite Ha. apply Idna_Mark.split_join; [destruct pl; [exact Hos|discriminate]|].
      apply Forall_app. split; [|exact Hosn]. exact (pass_all_nodot _ Hpl). }
    assert (Hlo : Forall (fun o => long_puny_label o = false) os).
    { unfold Known_C10_long in Hlong. rewrite Hsplit, existsb_app in Hlong. apply orb_false_iff in Hlong. destruct Hlong as [_ Hl2].
      apply Forall_forall. intros o Hin. destruct (long_puny_label o) eqn:E; [|reflexivity]. exfalso.
      assert (Hx : existsb long_puny_label os = true) by (apply existsb_exists; exists o; split; assumption).
      rewrite Hx in Hl2. discriminate. }
    destruct (build_U2 DBL ap os HPK Hxf Eo Hlo) as (ous & e3s & U1 & U2 & U3 & U4 & U5 & U6).
    rewrite Eu in U1. inversion U1. subst ous. clear U1.
    set (u := join_dots (pl ++ ou)) in *.
    assert (Hpa : Forall (Forall (fun b => b < 128)) pl).
    { eapply Forall_impl; [|exact Hpl]. intros l [Hbl Hp]. exact (passthrough_ascii l Hbl Hp). }
    assert (Hw : utf8_encode u = join_dots (pl ++ map utf8_encode ou)).
    { unfold u. rewrite utf8_encode_join, map_app. f_equal. f_equal. clear -Hpa. induction Hpa as [|l r Hl _ IH]; [reflexivity|].
      cbn [map]. rewrite IH, (utf8_encode_ascii l Hl). reflexivity. }
    assert (Huu : usv_list u).
    { unfold u, usv_list. apply join_dots_Forall; [unfold is_usv, DOT; lia|]. apply Forall_app. split; [|exact U6].
      eapply Forall_impl; [|exact Hpa]. intros l Hl. exact (ascii_usv l Hl). }
    pose proof (utf8_encode_bytes u Huu) as Hbw.
    assert (Hne : map utf8_encode ou <> []) by (destruct ou; [contradiction Hou; reflexivity|discriminate]).
    assert (Hsw : split_on DOT (utf8_encode u) = pl ++ map utf8_encode ou).
    { rewrite Hw. apply Idna_Mark.split_join; [destruct pl; [exact Hne|discriminate]|].
      apply Forall_app. split; [exact (pass_all_nodot _ Hpl)|exact U5]. }
    assert (Hp : proc_all (split_on DOT (utf8_encode u)) =
                 SOk (pl ++ DBL, map (fun l => [MixedCaseAscii l]) pl ++ map (fun e => [e]) e3s)).
    { rewrite Hsw, proc_all_app, (proc_all_pass A cfg deny hy HL _ Hpl), U2. reflexivity. }
    assert (HV : VBk A cfg (length pl) bd (pl ++ DBL)).
    { split.
      - rewrite concat_app, is_bidi_app, (is_bidi_ascii A cfg _ (pass_all_ascii _ Hpl)), <- is_bidi_join. exact Hbidi.
      - intros Hb1. rewrite (skipn_app_le (length pl) pl DBL (le_n _)), skipn_all. cbn [app]. rewrite (VL_nodot _ HDn). exact (Hbok Hb1). }
    assert (Hk : (length pl <= length (ptake (split_on DOT (utf8_encode u))))%nat).
    { rewrite Hsw, ptake_app_pass, app_length; [lia|]. eapply Forall_impl; [|exact Hpl]. intros l Hl. exact (proj2 Hl). }
    assert (Hcc : concat (map (fun e : aal => [e]) e3s) = e3s).
    { clear. induction e3s as [|e r IH]; [reflexivity|]. cbn [map concat app]. rewrite IH. reflexivity. }
    assert (HoF : outs cfg is_ascii_l (VL (pl ++ DBL)) (concat (map (fun l => [MixedCaseAscii l]) pl ++ map (fun e => [e]) e3s)) = inl (pl ++ os)).
    { rewrite VL_app, (VL_nodot _ (pass_all_nodot _ Hpl)), (VL_nodot _ HDn), concat_app, concat_mca, Hcc.
      rewrite (outs_mca cfg is_ascii_l _ _ pl pl eq_refl), U3, (pass_all_lower deny HU HL _ Hpl). reflexivity. }
    destruct (virtual_ascii A cfg deny hy HU HL HR _ _ _ _ bd _ Hbw Hp HV Hk HoF) as (b' & HTa).
    destruct (virtual_unicode A cfg deny hy HU HL HR _ _ _ _ bd Hbw Hp HV Hk) as (bu' & ov & Eov & HTw).
    rewrite VL_app, (VL_nodot _ (pass_all_nodot _ Hpl)), (VL_nodot _ HDn), concat_app, concat_mca, Hcc in Eov.
    rewrite (outs_mca cfg uT _ _ pl pl eq_refl), U4, (pass_all_lower deny HU HL _ Hpl) in Eov. inversion Eov. subst ov.
    exists bu, u, b', bu'. rewrite <- Ha in HTa. split; [exact HTu|]. split; [exact HTa|]. split; [exact HTw|exact Huu].
Qed.
End Round2.

(* ---------------------------------------------------------------- three of the four clauses, every accepted name *)
Theorem c12_round2 A cfg : AdapterOK A -> AdapterUSV A -> NvNoTrunc A -> NvIdem A -> AsciiNoMark A -> MapPrefix A -> NvMapFix A ->
  NvNoGrow A ->
  forall d deny hy b a, bytes d -> valid_deny deny -> Known_C12 A cfg d deny hy = false ->
  to_ascii A cfg d deny hy DIgnore = Ok (b, a) -> Known_C10_long a = false ->
  let u := ui_text (to_unicode A cfg d deny hy) in
  (ui_text (to_unicode A cfg a deny hy) = u /\ ui_err (to_unicode A cfg a deny hy) = false) /\
  (exists b', to_ascii A cfg (utf8_encode u) deny hy DIgnore = Ok (b', a)) /\
  (ui_text (to_unicode A cfg (utf8_encode u) deny hy) = u /\ ui_err (to_unicode A cfg (utf8_encode u) deny hy) = false).
Proof.
  intros HOK HUSV HNT HNI HNM HMP HMF HNG d deny hy b a Hb Hv HK H Hlong. destruct (valid_deny_facts deny Hv) as [HU HL].
  destruct (c12_u_of_a A cfg HOK HUSV HNT HNI HNM HMP d deny hy b a Hb Hv H Hlong) as (C1 & C2 & _).
  destruct (round_unicode2 A cfg deny hy HU HL HOK HUSV HNT HNI HNM HMP HMF HNG d b a Hb H Hlong HK) as (bu & u & b' & bu' & E1 & E2 & E3 & _).
  cbv zeta. rewrite E1. cbn [ui_text]. split; [split; [rewrite C1, E1; reflexivity|exact C2]|].
  split; [exists b'; exact E2|]. rewrite E3. split; reflexivity.
Qed.

(* the Unicode form consists of scalar values (so its UTF-8 form is a byte string) *)
Theorem c12_unicode_usv A cfg : AdapterOK A -> AdapterUSV A -> NvNoTrunc A -> NvIdem A -> AsciiNoMark A -> MapPrefix A -> NvMapFix A ->
  NvNoGrow A ->
  forall d deny hy b a, bytes d -> valid_deny deny -> Known_C12 A cfg d deny hy = false ->
  to_ascii A cfg d deny hy DIgnore = Ok (b, a) -> Known_C10_long a = false ->
  usv_list (ui_text (to_unicode A cfg d deny hy)).
Proof.
  intros HOK HUSV HNT HNI HNM HMP HMF HNG d deny hy b a Hb Hv HK H Hlong. destruct (valid_deny_facts deny Hv) as [HU HL].
  destruct (round_unicode2 A cfg deny hy HU HL HOK HUSV HNT HNI HNM HMP HMF HNG d b a Hb H Hlong HK) as (bu & u & b' & bu' & E1 & _ & _ & Hu).
  rewrite E1. exact Hu.
Qed.
