(* Proofs/C08_Absolute.v - an absolute URL's own serialization resolves to itself against any base:
   the base is never consulted when the text starts with a non-special scheme, with a special scheme
   followed by two slashes, or with "file:" followed by two slashes (abs_shape) - so the law is C02's
   re-parse theorem (L3) for every class where that one is available. *)
From RU Require Import Base.Prelude Base.Utf8 Base.Utf8Facts Model.AsciiSet Gen.Tables Model.PercentEncoding
  Model.HostT Model.UrlRecord Model.Parser Model.Setters Model.WF Model.KnownC08
  Proofs.ListN Proofs.C14_Enc Proofs.C02_Enc Proofs.C02_Parts Proofs.C02_Opaque Proofs.C02_Path Proofs.C02_PathL1
  Proofs.C02_Reach Proofs.C08_Input.

Definition file_two_slashes (rem : list N) : bool :=
  match inp_split_first rem with
  | (Some c, r1) =>
      is_slash_or_bslash c
      && match inp_split_first r1 with (Some d, _) => is_slash_or_bslash d | (None, _) => false end
  | (None, _) => false
  end.

(* decided on the text alone *)
Definition abs_shape (txt : list N) : bool :=
  match parse_scheme CUrlParser (input_new_trim_c0 txt) with
  | Some (sch, rem) =>
      match scheme_type_of sch with
      | STNotSpecial => true
      | STSpecialNotFile => 2 <=? fst (inp_count_matching is_slash_or_bslash rem)
      | STFile => file_two_slashes rem
      end
  | None => false
  end.

(* canonical text "scheme://..." of any scheme type has the shape *)
Lemma count_two_slashes rest : 2 <= fst (inp_count_matching is_slash_or_bslash (47 :: 47 :: rest)).
Proof.
  rewrite inp_count_matching_fst. rewrite !ntnl_cons by reflexivity. cbn [count_leading].
  change (is_slash_or_bslash 47) with true. cbn iota. lia.
Qed.

Theorem abs_shape_slashes sch rest : scheme_canon sch = true -> edge_ok (sch ++ 58 :: 47 :: 47 :: rest) ->
  abs_shape (sch ++ 58 :: 47 :: 47 :: rest) = true.
Proof.
  intros Hs He. unfold abs_shape. rewrite trim_c0_id by exact He. rewrite parse_scheme_canon by exact Hs.
  destruct (scheme_type_of sch).
  - reflexivity.
  - pose proof (count_two_slashes rest). lia.
  - reflexivity.
Qed.

Theorem abs_shape_nonspecial sch rest : scheme_canon sch = true -> scheme_type_of sch = STNotSpecial ->
  edge_ok (sch ++ 58 :: rest) -> abs_shape (sch ++ 58 :: rest) = true.
Proof.
  intros Hs Hn He. unfold abs_shape. rewrite trim_c0_id by exact He. rewrite parse_scheme_canon by exact Hs.
  rewrite Hn. reflexivity.
Qed.

Section Absolute.
Variables (dbg : bool) (hp hpo : list N -> result host) (hd : host -> list N) (ovr : option (list N -> list N)).

Theorem abs_dispatch b txt : abs_shape txt = true ->
  parse_url dbg hp hpo hd ovr (Some b) txt = parse_url dbg hp hpo hd ovr None txt.
Proof.
  unfold abs_shape, parse_url.
  destruct (parse_scheme CUrlParser (input_new_trim_c0 txt)) as [[sch rem]|]; [|discriminate].
  unfold parse_with_scheme. destruct (to_u32 (nlen sch)) as [se| |]; cbn [pbind]; try reflexivity.
  destruct (scheme_type_of sch) eqn:Est; intros H.
  - (* file: the file host state does not look at the base *)
    unfold file_two_slashes in H. unfold parse_file.
    destruct (inp_split_first rem) as [[c|] r1]; [|discriminate].
    apply andb_true_iff in H. destruct H as [H1 H2]. rewrite H1.
    destruct (inp_split_first r1) as [[d|] r2]; [|discriminate]. rewrite H2. reflexivity.
  - (* special: two slashes, the same-scheme shortcut does not fire *)
    destruct (inp_count_matching is_slash_or_bslash rem) as [sl rem']. cbn [fst] in H.
    replace (sl <? 2) with false by lia. reflexivity.
  - reflexivity.
Qed.

(* the two classes of C02 *)
Theorem absolute_opaque b sch P q f : opaque_ok sch P q f ->
  parse_url dbg hp hpo hd ovr (Some b) (opaque_ser sch P q f) = POk (opaque_url sch P q f).
Proof.
  intros K. rewrite abs_dispatch; [apply reparse_opaque_form; exact K|].
  pose proof (opaque_ser_edge_ok hp hpo _ _ _ _ K) as He. destruct K.
  unfold opaque_ser, opaque_pre in *. rewrite <- !app_assoc in *. cbn [app] in *.
  apply abs_shape_nonspecial; assumption.
Qed.

Theorem absolute_noauth b sch segs last q f : noauth_ok sch segs last q f ->
  parse_url dbg hp hpo hd ovr (Some b) (noauth_ser sch (path_text segs last) q f)
  = POk (noauth_url sch (path_text segs last) q f).
Proof.
  intros K. rewrite abs_dispatch; [apply reparse_noauth_form; exact K|].
  destruct K. set (T := path_text segs last) in *.
  pose proof nk_sch as Hsc. unfold scheme_canon in Hsc. apply andb_true_iff in Hsc. destruct Hsc as [_ Hall].
  set (body := segs_text segs ++ last).
  assert (forallb above_space body = true) as Hbody.
  { unfold body. rewrite forallb_app, (segs_text_above segs nk_segs), (good_seg_above last nk_last). reflexivity. }
  assert (T = 47 :: body) as ET by reflexivity.
  assert (forallb above_space (marker_of T ++ T ++ qf_text q f) = true) as Hrest.
  { rewrite !forallb_app. rewrite (qf_text_above q f nk_q nk_f). rewrite ET. cbn [forallb]. rewrite Hbody.
    unfold marker_of. destruct (starts_with s_ss (47 :: body)); reflexivity. }
  assert (edge_ok (noauth_ser sch T q f)) as He.
  { apply all_above_edge. unfold noauth_ser, noauth_pre. rewrite <- !app_assoc. rewrite forallb_app.
    rewrite (scheme_above hp hpo sch Hall). cbn [andb]. cbn [app forallb]. exact Hrest. }
  unfold noauth_ser, noauth_pre in *. rewrite <- !app_assoc in *. cbn [app] in *.
  apply abs_shape_nonspecial; assumption.
Qed.

End Absolute.

(* the law for every fixpoint of re-parsing whose text has the shape *)
Theorem absolute_of_reparse dbg hp hpo hd b u : Fixpoint_of_reparse dbg hp hpo hd u -> abs_shape (utf8_lossy (ser u)) = true ->
  parse_url dbg hp hpo hd None (Some b) (utf8_lossy (ser u)) = POk u.
Proof. intros H S. unfold Fixpoint_of_reparse, reparse in H. rewrite (abs_dispatch dbg hp hpo hd None) by exact S. exact H. Qed.


(* ---------- the shape without the edge premise: trimming cannot reach "scheme://" ---------- *)
Lemma drop_while_app_stop f a c b : f c = false -> drop_while f (a ++ c :: b) = drop_while f a ++ c :: b.
Proof.
  intros Hc. induction a as [|x a IH]; cbn [app drop_while].
  - rewrite Hc. reflexivity.
  - destruct (f x); [exact IH | reflexivity].
Qed.

Lemma trim_c0_keeps_front X rest :
  match X with [] => True | c :: _ => is_c0_or_space c = false end ->
  exists rest', input_new_trim_c0 (X ++ 47 :: rest) = X ++ 47 :: rest'.
Proof.
  intros HX. unfold input_new_trim_c0, trim_matches.
  rewrite (drop_while_first_ok _ (X ++ 47 :: rest)) by (destruct X; [reflexivity | exact HX]).
  rewrite rev_app_distr. cbn [rev]. rewrite <- app_assoc. cbn [app].
  rewrite drop_while_app_stop by reflexivity.
  exists (rev (drop_while is_c0_or_space (rev rest))).
  rewrite rev_app_distr. cbn [rev]. rewrite rev_involutive, <- app_assoc. reflexivity.
Qed.

Theorem abs_shape_slashes_any sch rest : scheme_canon sch = true ->
  abs_shape (sch ++ 58 :: 47 :: 47 :: rest) = true.
Proof.
  intros Hs. unfold abs_shape.
  assert (match sch ++ [58; 47] with [] => True | c :: _ => is_c0_or_space c = false end) as HX.
  { unfold scheme_canon in Hs. apply andb_true_iff in Hs. destruct Hs as [Hh _].
    destruct sch as [|c s]; [discriminate|]. cbn [app]. unfold is_lower, is_c0_or_space in *. lia. }
  destruct (trim_c0_keeps_front (sch ++ [58; 47]) rest HX) as [rest' E].
  rewrite <- !app_assoc in E. cbn [app] in E. rewrite E.
  rewrite parse_scheme_canon by exact Hs.
  destruct (scheme_type_of sch).
  - reflexivity.
  - pose proof (count_two_slashes rest'). lia.
  - reflexivity.
Qed.

(* the absolute law for every fixpoint of re-parsing whose text is  scheme "://" anything:
   C02's L3 for URLs with authority is ALL that is missing for them *)
Theorem absolute_of_reparse_auth dbg hp hpo hd b u sch rest :
  Fixpoint_of_reparse dbg hp hpo hd u -> utf8_lossy (ser u) = sch ++ 58 :: 47 :: 47 :: rest -> scheme_canon sch = true ->
  parse_url dbg hp hpo hd None (Some b) (utf8_lossy (ser u)) = POk u.
Proof.
  intros H E Hs. apply absolute_of_reparse; [exact H|]. rewrite E. apply abs_shape_slashes_any. exact Hs.
Qed.
