(* Proofs/C08_Input.v - the reference as the parser sees it: the skipping iterator of Input versus the
   text with tab / LF / CR removed (KnownC08.ref_text); when the scheme state fails; the slash count. *)
From RU Require Import Base.Prelude Model.HostT Model.UrlRecord Model.Parser Model.KnownC08
  Proofs.C02_Parts Proofs.C06_FragQuery.

Definition ntnl (l : list N) : list N := filter (fun c => negb (is_tnl c)) l.

Lemma ref_text_eq input : ref_text input = ntnl (input_new_trim_c0 input).
Proof. reflexivity. Qed.

Lemma ntnl_cons_tnl c r : is_tnl c = true -> ntnl (c :: r) = ntnl r.
Proof. intros H. unfold ntnl. cbn [filter]. rewrite H. reflexivity. Qed.

Lemma ntnl_cons c r : is_tnl c = false -> ntnl (c :: r) = c :: ntnl r.
Proof. intros H. unfold ntnl. cbn [filter]. rewrite H. reflexivity. Qed.

Lemma ntnl_not_tnl l : ntnl l = filter not_tnl l.
Proof. reflexivity. Qed.

(* inp_next in terms of the stripped text *)
Lemma inp_next_none l : ntnl l = [] -> inp_next l = None.
Proof.
  induction l as [|c r IH]; intros H; [reflexivity|].
  destruct (is_tnl c) eqn:E.
  - rewrite inp_next_tnl by exact E. apply IH. rewrite ntnl_cons_tnl in H by exact E. exact H.
  - rewrite ntnl_cons in H by exact E. discriminate.
Qed.

Lemma inp_next_some l c t : ntnl l = c :: t ->
  exists r, inp_next l = Some (c, r) /\ ntnl r = t /\ is_tnl c = false.
Proof.
  induction l as [|x r IH]; intros H; [discriminate|].
  destruct (is_tnl x) eqn:E.
  - rewrite inp_next_tnl by exact E. apply IH. rewrite ntnl_cons_tnl in H by exact E. exact H.
  - rewrite ntnl_cons in H by exact E. inversion H; subst. exists r.
    rewrite inp_next_cons by exact E. repeat split. exact E.
Qed.

Lemma inp_next_ntnl l c r : inp_next l = Some (c, r) -> ntnl l = c :: ntnl r /\ is_tnl c = false.
Proof.
  induction l as [|x t IH]; intros H; [discriminate|].
  destruct (is_tnl x) eqn:E.
  - rewrite inp_next_tnl in H by exact E. rewrite ntnl_cons_tnl by exact E. exact (IH H).
  - rewrite inp_next_cons in H by exact E. inversion H; subst. rewrite ntnl_cons by exact E. split; [reflexivity | exact E].
Qed.

Lemma inp_next_none_ntnl l : inp_next l = None -> ntnl l = [].
Proof.
  induction l as [|x t IH]; intros H; [reflexivity|].
  destruct (is_tnl x) eqn:E.
  - rewrite inp_next_tnl in H by exact E. rewrite ntnl_cons_tnl by exact E. exact (IH H).
  - rewrite inp_next_cons in H by exact E. discriminate.
Qed.

Lemma inp_is_empty_ntnl l : inp_is_empty l = match ntnl l with [] => true | _ => false end.
Proof.
  unfold inp_is_empty. destruct (inp_next l) as [[c r]|] eqn:E.
  - destruct (inp_next_ntnl l c r E) as [-> _]. reflexivity.
  - rewrite (inp_next_none_ntnl l E). reflexivity.
Qed.

(* ---------- the scheme state ---------- *)
Lemma parse_scheme_first_not_alpha l :
  match ntnl l with c :: _ => is_alpha c = false | [] => True end -> parse_scheme CUrlParser l = None.
Proof.
  intros H. unfold parse_scheme, inp_starts_with_pred.
  destruct (ntnl l) as [|c t] eqn:E.
  - rewrite (inp_next_none l E). reflexivity.
  - destruct (inp_next_some l c t E) as (r & -> & _ & _). rewrite H. reflexivity.
Qed.

(* the loop fails when the stripped text has no  (alnum|+|-|.)* ':'  prefix *)
Lemma parse_scheme_loop_fails l : forall acc, scheme_tail_b (ntnl l) = false ->
  parse_scheme_loop CUrlParser acc l = None.
Proof.
  induction l as [|c r IH]; intros acc H; [reflexivity|]. cbn [parse_scheme_loop].
  destruct (is_tnl c) eqn:Et.
  - apply IH. rewrite ntnl_cons_tnl in H by exact Et. exact H.
  - rewrite ntnl_cons in H by exact Et. cbn [scheme_tail_b] in H.
    destruct (is_lower c || is_digit c || (c =? 43) || (c =? 45) || (c =? 46)) eqn:E1.
    + apply IH. replace (is_alnum c || (c =? 43) || (c =? 45) || (c =? 46)) with true in H; [exact H|].
      unfold is_alnum, is_alpha in *. symmetry. destruct (is_lower c), (is_digit c), (is_upper c), (c =? 43), (c =? 45), (c =? 46); cbn in *; try reflexivity; discriminate.
    + destruct (is_upper c) eqn:E2.
      * apply IH. replace (is_alnum c || (c =? 43) || (c =? 45) || (c =? 46)) with true in H; [exact H|].
        unfold is_alnum, is_alpha. rewrite E2. reflexivity.
      * replace (is_alnum c || (c =? 43) || (c =? 45) || (c =? 46)) with false in H.
        -- rewrite H. reflexivity.
        -- unfold is_alnum, is_alpha. rewrite E2. symmetry.
           destruct (is_lower c), (is_digit c), (c =? 43), (c =? 45), (c =? 46); cbn in *; try reflexivity; discriminate.
Qed.

Theorem parse_scheme_none l : has_scheme_b (ntnl l) = false -> parse_scheme CUrlParser l = None.
Proof.
  intros H. unfold has_scheme_b in H. destruct (ntnl l) as [|c t] eqn:E.
  - apply parse_scheme_first_not_alpha. rewrite E. exact I.
  - destruct (is_alpha c) eqn:Ea.
    + cbn [andb] in H. unfold parse_scheme. destruct (inp_starts_with_pred is_alpha l); [|reflexivity].
      apply parse_scheme_loop_fails. rewrite E. exact H.
    + apply parse_scheme_first_not_alpha. rewrite E. exact Ea.
Qed.

(* ---------- the slash count ---------- *)
Fixpoint count_leading (f : N -> bool) (l : list N) : N :=
  match l with
  | c :: r => if f c then 1 + count_leading f r else 0
  | [] => 0
  end.

Lemma inp_count_matching_fst f l : fst (inp_count_matching f l) = count_leading f (ntnl l).
Proof.
  induction l as [|c r IH]; [reflexivity|]. cbn [inp_count_matching].
  destruct (is_tnl c) eqn:Et.
  - rewrite ntnl_cons_tnl by exact Et. rewrite <- IH.
    destruct (inp_count_matching f r) as [n rem]. destruct n; reflexivity.
  - rewrite ntnl_cons by exact Et. cbn [count_leading]. destruct (f c).
    + rewrite <- IH. destruct (inp_count_matching f r) as [n rem]. cbn [fst]. lia.
    + reflexivity.
Qed.

Lemma count_leading_lt2 sp t : two_leading_slashes sp t = false ->
  count_leading (fun d => (d =? 47) || ((d =? 92) && sp)) t < 2.
Proof.
  unfold two_leading_slashes, is_ref_slash. destruct t as [|a [|b r]]; cbn [count_leading]; intros H.
  - lia.
  - destruct ((a =? 47) || (a =? 92) && sp); lia.
  - destruct ((a =? 47) || (a =? 92) && sp); [|lia]. cbn [andb] in H. rewrite H. lia.
Qed.

(* usv_list is inherited by what the iterator leaves *)
Lemma usv_trim input : usv_list input -> usv_list (input_new_trim_c0 input).
Proof. apply trim_matches_usv. Qed.
