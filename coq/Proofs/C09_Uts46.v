(* Proofs/C09_Uts46.v - the premise IdnaOK2 of the C09_display_rt2 / C09_inst2_* theorems DISCHARGED for the IDNA model
   (Model/Uts46.v called as host.rs calls it: idna_of A cfg = domain_to_ascii_cow(bytes, AsciiDenyList::URL)) from the
   proved theorems of C10:
     clause 1 (outputs are lower-case ASCII outside the deny list)      <- C10_ascii   (premise NvNoTrunc)
     clause 2 (outputs outside Known_C10_long are fixed points)         <- C10_idem3   (the six sampled adapter facts)
     clause 3 (dotted-decimal text is mapped to itself)                 <- C10_an      (no premise: the text of an
                                                                            Ipv4Addr is in the adapter-free class AN)
   What is left as a premise are facts about the ADAPTER (idna_adapter: normalizer, joining / bidi tables) only, each
   sampled on the real crate by the `adapter` stream of the harness. *)
From RU Require Import Base.Prelude Base.Utf8 Base.U32_c13 Gen.Tables Model.Punycode Model.Uts46
  Proofs.Idna_Sim Proofs.Idna_Api Proofs.Idna_Known Proofs.Idna_Hyp
  Proofs.Idna_C10_Deny Proofs.Idna_C10_Prefix Proofs.Idna_C10_Walk
  Proofs.Idna_C10b_Long Proofs.Idna_C10b_AsciiInner Proofs.Idna_C10b_AsciiWalk Proofs.Idna_C10b_Stmt
  Proofs.Idna_WalkEnc Proofs.Idna_C10_Inner Proofs.Idna_C10c_Drun Proofs.Idna_C10c_Idem Proofs.Idna_C10c_Example.
From RU Require Import Model.HostT Model.Host Proofs.C09_Host Proofs.C09_InstIdna Proofs.C09_Long Proofs.C09_LongWit.

(* ---------------------------------------------------------------- the class "digits and dots" *)
Definition dd (c : N) : Prop := is_digit c = true \/ c = 46.

Lemma dd_lt c : dd c -> c < 128.
Proof. intros [H| ->]; [unfold is_digit in H|]; lia. Qed.

Definition ddb (c : N) : bool := is_digit c || (c =? 46).
Definition lower_fix (c : N) : bool := to_lower c =? c.
Definition upper_ok (c : N) : bool := negb (is_fffd (apply_upper DENY_URL c)).

Lemma dd_ddb c : dd c -> ddb c = true.
Proof. unfold ddb. intros [H| ->]; [rewrite H; reflexivity | reflexivity]. Qed.

Lemma sweep_imp (f g : N -> bool) : all_below 128 (fun y => negb (f y) || g y) = true ->
  forall x, x < 128 -> f x = true -> g x = true.
Proof. intros S x Hx Hf. pose proof (all_below_spec 128 _ S x Hx) as E. cbv beta in E. rewrite Hf in E. exact E. Qed.

Lemma dd_lower_sweep : all_below 128 (fun y => negb (ddb y) || lower_fix y) = true.
Proof. vm_compute. reflexivity. Qed.
Lemma dd_upper_sweep : all_below 128 (fun y => negb (ddb y) || upper_ok y) = true.
Proof. vm_compute. reflexivity. Qed.

Lemma dd_lower c : dd c -> to_lower c = c.
Proof.
  intros H. pose proof (sweep_imp ddb lower_fix dd_lower_sweep c (dd_lt c H) (dd_ddb c H)) as E.
  unfold lower_fix in E. apply N.eqb_eq. exact E.
Qed.

Lemma dd_map_lower l : Forall dd l -> map to_lower l = l.
Proof. induction 1 as [|c r Hc _ IH]; [reflexivity|]. cbn [map]. rewrite (dd_lower c Hc), IH. reflexivity. Qed.

(* a character of the class is not touched by the URL deny list *)
Lemma dd_upper_ok c : dd c -> upper_ok c = true.
Proof. intros H. exact (sweep_imp ddb upper_ok dd_upper_sweep c (dd_lt c H) (dd_ddb c H)). Qed.

Lemma upper_ok_fffd c : upper_ok c = true -> is_fffd (apply_upper DENY_URL c) = false.
Proof. unfold upper_ok. intros E. apply negb_true_iff in E. exact E. Qed.

Lemma dd_upper c : dd c -> is_fffd (apply_upper DENY_URL c) = false.
Proof. intros H. exact (upper_ok_fffd c (dd_upper_ok c H)). Qed.

Lemma dd_lab_acc l : Forall dd l -> lab_acc DENY_URL HAllow l = true.
Proof.
  intros H. unfold lab_acc. cbn [hy_is_allow orb]. rewrite andb_true_r. apply negb_true_iff. unfold cmap.
  induction H as [|c r Hc _ IH]; [reflexivity|]. cbn [map existsb]. rewrite (dd_upper c Hc), IH. reflexivity.
Qed.

Lemma dd_an_label l : Forall dd l -> an_label l.
Proof.
  intros H. assert (Forall (fun b => b < 128) l) as Ha by (eapply Forall_impl; [|exact H]; intros c Hc; exact (dd_lt c Hc)).
  split; [exact Ha|]. destruct (has_punycode_prefix l) eqn:E; [|reflexivity]. exfalso.
  destruct (xn_prefix_spec l Ha E) as (a & b & r & -> & [->| ->] & _);
    inversion H as [|? ? Hc _]; subst; destruct Hc as [Hc|Hc]; try discriminate Hc; vm_compute in Hc; discriminate Hc.
Qed.

Lemma dd_AN d : Forall dd d -> AN d.
Proof.
  intros H. unfold AN. pose proof (split_on_Forall dd DOT d H) as S.
  eapply Forall_impl; [|exact S]. intros l Hl. exact (dd_an_label l Hl).
Qed.

(* ToASCII at the options of host.rs maps a text of digits and dots to itself - EVERY adapter *)
Theorem to_ascii_dd A cfg d : Forall dd d ->
  exists b, to_ascii A cfg d DENY_URL HAllow DIgnore = U32_c13.Ok (b, d).
Proof.
  intros H. destruct (c10_an A cfg d DENY_URL HAllow DIgnore (dd_AN d H) valid_deny_url) as [b E]. exists b.
  rewrite E. cbn [dns_is_ignore orb]. rewrite andb_true_r.
  assert (forallb (lab_acc DENY_URL HAllow) (split_on DOT d) = true) as ->.
  { apply forallb_forall. intros l Hl. apply dd_lab_acc.
    pose proof (split_on_Forall dd DOT d H) as S. rewrite Forall_forall in S. exact (S l Hl). }
  rewrite (dd_map_lower d H). reflexivity.
Qed.

(* clause 3: the text of an Ipv4Addr *)
Theorem v4_fixed_all A cfg : v4_fixed A cfg.
Proof. intros a Ha. destruct (ipv4_display_digits a Ha) as (Hd & _). exact (to_ascii_dd A cfg _ Hd). Qed.

(* clause 2 *)
Theorem idem_url2_of_idem3 A cfg : AdapterOK A -> AdapterUSV A -> NvNoTrunc A -> NvIdem A -> AsciiNoMark A -> MapPrefix A ->
  idem_url2 A cfg.
Proof.
  intros H1 H2 H3 H4 H5 H6 d b r Hb E K. exists true.
  exact (c10_idem3 A cfg H1 H2 H3 H4 H5 H6 d DENY_URL HAllow DIgnore b r Hb valid_deny_url E K).
Qed.

(* ---------------------------------------------------------------- IdnaOK2 for the IDNA model *)
Theorem IdnaOK2_uts46 A cfg : AdapterOK A -> AdapterUSV A -> NvNoTrunc A -> NvIdem A -> AsciiNoMark A -> MapPrefix A ->
  IdnaOK2 (idna_of A cfg).
Proof.
  intros H1 H2 H3 H4 H5 H6. apply IdnaOK2_of_model.
  - exact (c10_ascii_under_notrunc A cfg H3).
  - exact (idem_url2_of_idem3 A cfg H1 H2 H3 H4 H5 H6).
  - exact (v4_fixed_all A cfg).
Qed.

(* clause 1 and clause 3 alone need NvNoTrunc only: the C05 alphabet theorems (C09_inst2_C05) use clause 1 only *)
Theorem idna_out_uts46 A cfg : NvNoTrunc A -> forall bs d, idna_of A cfg bs = Some d -> Forall dom_char_ok d.
Proof.
  intros H3 bs d H. unfold idna_of in H. destruct (forallb is_byteb bs) eqn:Eb; [|discriminate].
  unfold domain_to_ascii_cow in H.
  destruct (to_ascii A cfg bs DENY_URL HAllow DIgnore) as [[b r]| |] eqn:E; try discriminate.
  inversion H; subst.
  pose proof (c10_ascii_under_notrunc A cfg H3 bs DENY_URL HAllow DIgnore b d (C09_InstIdna.forallb_bytes bs Eb) valid_deny_url E) as F.
  eapply Forall_impl; [|exact F]. intros c (L & U & D). exact (url_deny_dom_char c L U D).
Qed.

(* the premises are satisfiable: the adapter lowsan of Proofs/Idna_C10c_Example.v (ASCII lower-casing; non-scalar values
   become U+FFFD) meets all six, so IdnaOK2 holds of the IDNA model run with it; and the host model linked with it reads
   "A.B<u-umlaut>cher" as the domain a.xn--bcher-kva, whose Display text it reads back as the same host *)
Example IdnaOK2_uts46_lowsan : IdnaOK2 (idna_of lowsan true).
Proof. destruct lowsan_premises as (H1 & H2 & H3 & H4 & H5 & H6). exact (IdnaOK2_uts46 lowsan true H1 H2 H3 H4 H5 H6). Qed.
