(* Proofs/C01_EqFilePath.v - C01 equivalence, file scheme: the path loop of parser.rs for SchemeType::File
   computes, on its own abstract state (closed segments, buffer), exactly the path state of the Standard for a
   file URL (`spath_f` of Proofs/C01_EqFileSpec.v, both drive-letter quirks included), followed by the collapse
   of the leading slashes of the path (`strip_f`: parser.rs:1377, findings F-C01-2/3), unless
     - a ".." meets a drive-letter-shaped last segment (F-C01-5/9: never popped),
     - a drive letter becomes the first segment while the URL has a host (F-C01-1: the host is dropped),
     - the first segment goes on after a drive-letter prefix (F-C01-7: a tab or newline at that place makes
       the model insert a '/'; excluded on the cleaned text, whatever the raw text is);
   `fpath_ok` computes that on the Standard's own state. *)
From RU Require Import Base.Prelude Base.Utf8 Base.Utf8Facts Model.AsciiSet Gen.Tables
  Model.PercentEncoding Model.HostT Model.UrlRecord Model.Parser Model.Setters Model.WF Spec.Whatwg
  Proofs.ListN Proofs.C14_Set Proofs.C14_Enc Proofs.C14_Views Proofs.C02_Enc Proofs.C02_Parts
  Proofs.C02_Opaque Proofs.C02_Path Proofs.C02_PathL1 Proofs.C02_PathSp Proofs.C03_WF Proofs.C01_Tables Proofs.C08_Input
  Proofs.C01_EqRun Proofs.C01_EqEnc Proofs.C01_EqApi Proofs.C01_EqOpaque Proofs.C01_EqDots Proofs.C01_EqPathSpec
  Proofs.C06_Steps Proofs.C01_EqRef Proofs.C01_EqPath Proofs.C01_EqAuthSpec Proofs.C01_EqAuthModel Proofs.C01_EqSpSpec
  Proofs.C01_EqSpPath Proofs.C01_EqFileSpec.

(* ================= drive letters: the two sides use the same tests ================= *)
Lemma is_wdl_agree s : is_wdl s = is_windows_drive_letter s.
Proof.
  unfold is_wdl, is_windows_drive_letter, starts_with_wdl.
  destruct s as [|a [|b [|c r]]]; cbn [length Nat.eqb andb]; try reflexivity.
  rewrite andb_true_r. reflexivity.
Qed.

Lemma is_nwdl_agree s : is_normalized_wdl s = is_normalized_windows_drive_letter s.
Proof.
  unfold is_normalized_wdl, is_wdl, is_normalized_windows_drive_letter, starts_with_wdl.
  destruct s as [|a [|b [|c r]]]; cbn [length Nat.eqb andb]; try reflexivity.
  rewrite andb_true_r. destruct (is_alpha a); cbn [andb]; [|reflexivity].
  destruct (b =? 58) eqn:E; [reflexivity|]. cbn [orb]. apply andb_false_r.
Qed.

Lemma nwdl_last_is_wdl t : is_normalized_wdl t = true -> starts_with_wdl (t ++ [47]) = true.
Proof.
  unfold is_normalized_wdl, is_wdl, starts_with_wdl.
  destruct t as [|a [|b [|c r]]]; cbn [length Nat.eqb andb app]; try discriminate.
  intros H. apply andb_true_iff in H. destruct H as [H _]. rewrite andb_true_r in H. rewrite H. reflexivity.
Qed.

(* a drive-letter prefix: alpha, then ':' or '|' *)
Definition wdl_pref (B : list N) : bool :=
  match B with a :: b :: _ => is_alpha a && ((b =? 58) || (b =? 124)) | _ => false end.

Lemma nwdl_pref cur x : is_normalized_wdl cur = true -> wdl_pref (cur ++ x) = true.
Proof.
  unfold is_normalized_wdl, is_wdl, starts_with_wdl, wdl_pref.
  destruct cur as [|a [|b [|c r]]]; cbn [length Nat.eqb andb app]; try discriminate.
  intros H. apply andb_true_iff in H. destruct H as [H _]. rewrite andb_true_r in H. exact H.
Qed.

(* a text that starts with '/', has ':' nowhere near the second place, or is longer than two is no drive letter *)
Lemma nwdl_head_not_alpha a X : is_alpha a = false -> is_normalized_wdl (a :: X) = false.
Proof.
  intros H. unfold is_normalized_wdl, is_wdl, starts_with_wdl. destruct X as [|b [|c r]]; cbn [length Nat.eqb andb]; try reflexivity.
  rewrite H. reflexivity.
Qed.
Lemma nwdl_second a b X : (b =? 58) = false -> is_normalized_wdl (a :: b :: X) = false.
Proof. intros H. unfold is_normalized_wdl. rewrite H. apply andb_false_r. Qed.
Lemma nwdl_long a b c X : is_normalized_wdl (a :: b :: c :: X) = false.
Proof. reflexivity. Qed.

Lemma nwdl_segs_text s r cur : is_normalized_wdl (segs_text (s :: r) ++ cur) = false.
Proof.
  unfold segs_text. cbn [map concat]. rewrite <- !app_assoc.
  destruct s as [|x [|y s']]; cbn [app].
  - apply nwdl_head_not_alpha. reflexivity.
  - apply nwdl_second. reflexivity.
  - destruct s' as [|z s'']; cbn [app]; apply nwdl_long.
Qed.

(* ================= one end of segment on the abstract state ================= *)
(* the only segment is a normalized Windows drive letter: ".." pops it on neither side (task c01file5) *)
Definition sole_nwdl (P : list (list N)) : bool :=
  match P with [p0] => is_normalized_windows_drive_letter p0 | _ => false end.
(* no ".." meets a drive-letter-shaped last segment - unless that segment is the sole normalized drive letter *)
Definition fin_ok2 (segs : list (list N)) (cur : list N) : bool :=
  fin_ok segs cur || (is_double_dot_segment cur && sole_nwdl segs).

Definition fin_step_f (segs : list (list N)) (cur : list N) (ews : bool) : list (list N) * list N :=
  if is_double_dot_segment cur then (shorten_f segs, [])
  else if is_single_dot_segment cur then (segs, [])
  else if ews then (segs ++ [norm_first segs cur], []) else (segs, norm_first segs cur).

Lemma shorten_f_plain P : last_is_wdl P = false -> shorten_f P = removelast P.
Proof.
  intros H. unfold shorten_f. destruct P as [|p0 [|p1 P']]; try reflexivity.
  rewrite <- is_nwdl_agree. destruct (is_normalized_wdl p0) eqn:E; [|reflexivity].
  unfold last_is_wdl in H. cbn [rev app] in H. rewrite (nwdl_last_is_wdl p0 E) in H. discriminate H.
Qed.

Lemma fin_f_of_step segs cur sep :
  fin_f segs cur sep = if sep then fst (fin_step_f segs cur sep) else fst (fin_step_f segs cur sep) ++ [snd (fin_step_f segs cur sep)].
Proof.
  unfold fin_f, fin_step_f. destruct (is_double_dot_segment cur).
  - destruct sep; reflexivity.
  - destruct (is_single_dot_segment cur); destruct sep; reflexivity.
Qed.

Lemma sole_nwdl_shorten P : sole_nwdl P = true -> shorten_f P = P.
Proof.
  unfold sole_nwdl, shorten_f. destruct P as [|p0 [|p1 P']]; try discriminate. intros H. rewrite H. reflexivity.
Qed.

Lemma fin_step_f_sep_last segs B : snd (fin_step_f segs B true) = [].
Proof. unfold fin_step_f. destruct (is_double_dot_segment B); [reflexivity|]. destruct (is_single_dot_segment B); reflexivity. Qed.

Lemma norm_first_no_slash P B : no_slash B = true -> no_slash (norm_first P B) = true.
Proof.
  intros H. unfold norm_first. destruct (is_nil P && is_windows_drive_letter B); [|exact H].
  destruct B as [|a [|b r]]; try exact H. unfold no_slash in *. cbn [forallb] in *.
  apply andb_true_iff in H. destruct H as [Ha H]. apply andb_true_iff in H. destruct H as [_ Hr]. rewrite Ha, Hr. reflexivity.
Qed.

Lemma fin_step_f_no_slash segs B ews : forallb no_slash segs = true -> no_slash B = true ->
  forallb no_slash (fst (fin_step_f segs B ews)) = true /\ no_slash (snd (fin_step_f segs B ews)) = true.
Proof.
  intros Hs HB. unfold fin_step_f. destruct (is_double_dot_segment B).
  - split; [|reflexivity]. cbn [fst]. unfold shorten_f. destruct segs as [|p0 [|p1 P']]; try (apply no_slash_removelast; exact Hs).
    destruct (is_normalized_windows_drive_letter p0); [exact Hs | reflexivity].
  - destruct (is_single_dot_segment B); [split; [exact Hs | reflexivity]|].
    pose proof (norm_first_no_slash segs B HB) as HN.
    destruct ews; cbn [fst snd]; [|split; assumption].
    split; [|reflexivity]. rewrite forallb_app, Hs. cbn [forallb]. rewrite HN. reflexivity.
Qed.

(* ================= finish_segment, exactly (file scheme) ================= *)
Section FinishExactF.
Variable pre : list N.
Variable dbg : bool.
Notation ps := (nlen pre).
Notation BsP := (Bs pre).

Lemma Bs_len_first segs : (nlen (BsP segs) =? ps + 1) = is_nil segs.
Proof.
  unfold Bs. rewrite !nlen_app. destruct segs as [|s r]; cbn [is_nil].
  - unfold segs_text. cbn [map concat]. rewrite nlen_nil. unfold nlen. cbn [length]. lia.
  - unfold segs_text. cbn [map concat]. rewrite !nlen_app. unfold nlen at 2 4. cbn [length]. lia.
Qed.

Lemma finish_exact_f segs cur (ews : bool) hh :
  forallb no_slash segs = true -> fin_ok2 segs cur = true ->
  (hh && is_nil segs && is_windows_drive_letter cur) = false ->
  finish_segment dbg STFile ps (BsP segs ++ cur ++ (if ews then [47] else [])) (nlen (BsP segs)) ews hh
  = POk (BsP (fst (fin_step_f segs cur ews)) ++ snd (fin_step_f segs cur ews), hh).
Proof.
  intros Hsegs Hok Hhq. unfold fin_step_f, fin_ok2, fin_ok in *. rewrite <- double_dot_agree in *. rewrite <- single_dot_agree.
  set (s1 := BsP segs ++ cur ++ (if ews then [47] else [])).
  assert (slice_o s1 (nlen (BsP segs)) (if ews then nlen s1 - 1 else nlen s1) = Some cur) as Hslice.
  { unfold s1. destruct ews.
    - rewrite !nlen_app. replace (nlen (BsP segs) + (nlen cur + nlen [47]) - 1) with (nlen (BsP segs) + nlen cur) by (unfold nlen; cbn [length]; lia).
      apply slice_mid.
    - rewrite !nlen_app. replace (nlen (BsP segs) + (nlen cur + nlen [])) with (nlen (BsP segs) + nlen cur) by (unfold nlen; cbn [length]; lia).
      apply slice_mid. }
  assert (truncate s1 (nlen (BsP segs)) = BsP segs) as Htr by (unfold truncate, s1; apply nfirstn_app_len).
  destruct (Bs_ends pre segs) as [X EX].
  assert (ends_with_byte 47 (BsP segs) = true) as Hends by (rewrite EX; apply ends_with_byte_snoc).
  unfold finish_segment. rewrite Hslice. cbn [of_option pbind].
  destruct (is_double_dot cur) eqn:Edd.
  - (* double dot *)
    cbn [andb] in Hok.
    assert ((if dbg then match (if 1 <=? nlen (BsP segs) then nnth s1 (nlen (BsP segs) - 1) else None) with
                         | Some b => passert (b =? 47) | None => PPanic end else POk tt) = POk tt) as Hdbg.
    { destruct dbg; [|reflexivity]. pose proof (Bs_len_ge pre segs) as Hl.
      replace (1 <=? nlen (BsP segs)) with true by lia.
      unfold s1. rewrite nnth_app_l by lia. rewrite EX. rewrite nlen_app.
      replace (nlen X + nlen [47] - 1) with (nlen X) by (unfold nlen; cbn [length]; lia).
      rewrite nnth_app_last. reflexivity. }
    rewrite Hdbg. cbn [pbind fst snd]. rewrite Htr, Hends. cbn [andb].
    destruct (sole_nwdl segs) eqn:Esole.
    { (* the sole segment is a normalized drive letter: nothing is popped on either side *)
      rewrite (sole_nwdl_shorten segs Esole).
      destruct segs as [|t [|t1 r1]]; try discriminate Esole. cbn [sole_nwdl] in Esole. rewrite <- is_nwdl_agree in Esole.
      cbn [forallb] in Hsegs. rewrite andb_true_r in Hsegs.
      assert (BsP [t] = (pre ++ [47]) ++ t ++ [47]) as EB by (unfold Bs, segs_text; cbn [map concat]; rewrite app_nil_r; reflexivity).
      assert (nlen (BsP [t]) = ps + nlen t + 2) as LB by (rewrite EB, !nlen_app; unfold nlen at 2 4; cbn [length]; lia).
      assert (last_slash_can_be_removed (BsP [t]) ps = false) as Hl.
      { unfold last_slash_can_be_removed. rewrite LB. rewrite EB.
        replace (ps + nlen t + 2 - 1) with (nlen ((pre ++ [47]) ++ t)) by (rewrite !nlen_app; unfold nlen at 2; cbn [length]; lia).
        rewrite app_assoc, nfirstn_app_len. rewrite <- app_assoc. cbn [app].
        rewrite (rfind_app_last 47 pre t) by (rewrite <- no_slash_no_byte; exact Hsegs).
        replace (ps <=? ps) with true by lia. cbn [andb].
        rewrite <- !app_assoc. rewrite nskipn_app_len. cbn [app].
        unfold path_starts_with_wdl. cbn [is_path_end]. replace (47 =? 47) with true by reflexivity. cbn [orb andb].
        rewrite (nwdl_last_is_wdl t Esole). reflexivity. }
      rewrite Hl.
      assert (Parser.shorten_path STFile ps (BsP [t]) = POk (BsP [t])) as Hsh.
      { unfold Parser.shorten_path, pop_path. rewrite LB.
        replace (ps + nlen t + 2 =? ps) with false by lia. cbn [st_is_file andb].
        assert (nskipn ps (BsP [t]) = (47 :: t) ++ 47 :: []) as Esk.
        { rewrite EB. rewrite <- !app_assoc. rewrite nskipn_app_len. reflexivity. }
        rewrite Esk. cbn [app]. rewrite (nwdl_head_not_alpha 47 (t ++ [47]) eq_refl).
        replace (ps <? ps + nlen t + 2) with true by lia.
        change (47 :: t ++ [47]) with ((47 :: t) ++ 47 :: []).
        rewrite (rfind_app_last 47 (47 :: t) []) by reflexivity.
        replace (ps + nlen (47 :: t) + 1) with (nlen (BsP [t])) by (rewrite LB, nlen_cons; lia).
        rewrite nskipn_all by lia. replace (is_normalized_wdl []) with false by reflexivity. unfold truncate.
        rewrite nfirstn_all by lia. reflexivity. }
      rewrite Hsh. cbn [pbind]. rewrite Hends. rewrite andb_false_r. rewrite app_nil_r. reflexivity. }
    rewrite orb_false_r in Hok. apply negb_true_iff in Hok. rewrite (shorten_f_plain segs Hok).
    unfold last_is_wdl in Hok.
    destruct (rev segs) as [|t r] eqn:Er.
    + (* no segment yet: nothing to pop *)
      assert (segs = []) as -> by (rewrite <- (rev_involutive segs), Er; reflexivity).
      assert (BsP [] = pre ++ [47]) as EB by (unfold Bs; cbn; apply app_nil_r).
      assert (last_slash_can_be_removed (BsP []) ps = false) as Hl.
      { unfold last_slash_can_be_removed. rewrite EB. rewrite nlen_app.
        replace (ps + nlen [47] - 1) with ps by (unfold nlen; cbn [length]; lia).
        rewrite nfirstn_app_len. destruct (rfind 47 pre) as [p|] eqn:Ep; [|reflexivity].
        apply rfind_lt in Ep. replace (ps <=? p) with false by lia. reflexivity. }
      rewrite Hl.
      assert (Parser.shorten_path STFile ps (BsP []) = POk (BsP [])) as Hsh.
      { unfold Parser.shorten_path, pop_path. rewrite EB. rewrite nlen_app.
        replace (ps + nlen [47] =? ps) with false by (unfold nlen; cbn [length]; lia).
        cbn [st_is_file andb]. rewrite nskipn_app_len.
        replace (is_normalized_wdl [47]) with false by reflexivity.
        replace (ps <? ps + nlen [47]) with true by (unfold nlen; cbn [length]; lia).
        change (rfind 47 [47]) with (rfind 47 ([] ++ 47 :: [])). rewrite (rfind_app_last 47 [] []) by reflexivity.
        replace (ps + nlen [] + 1) with (nlen (pre ++ [47])) by (rewrite nlen_app; unfold nlen; cbn [length]; lia).
        rewrite nskipn_all by lia. replace (is_normalized_wdl []) with false by reflexivity. unfold truncate.
        rewrite nfirstn_all by lia. reflexivity. }
      rewrite Hsh. cbn [pbind]. rewrite Hends. rewrite andb_false_r. cbn [removelast]. rewrite app_nil_r. reflexivity.
    + assert (segs = rev r ++ [t]) as Es by (rewrite <- (rev_involutive segs), Er; reflexivity).
      set (segs0 := rev r) in *. rewrite Es in *. rewrite forallb_snoc in Hsegs.
      apply andb_true_iff in Hsegs. destruct Hsegs as [Hsegs0 Htn].
      rewrite removelast_last.
      destruct (Bs_ends pre segs0) as [X0 EX0].
      pose proof (Bs_len_ge pre segs0) as Hl0.
      assert (rfind 47 (nfirstn (nlen (BsP (segs0 ++ [t])) - 1) (BsP (segs0 ++ [t]))) = Some (nlen X0)) as Hrf.
      { rewrite Bs_snoc. rewrite !nlen_app.
        replace (nlen (BsP segs0) + (nlen t + nlen [47]) - 1) with (nlen (BsP segs0 ++ t)) by (rewrite nlen_app; unfold nlen; cbn [length]; lia).
        rewrite app_assoc. rewrite nfirstn_app_len. rewrite EX0. rewrite <- app_assoc. cbn [app].
        apply rfind_app_last. rewrite <- no_slash_no_byte. exact Htn. }
      assert (nlen (BsP segs0) = nlen X0 + 1) as EL0 by (rewrite EX0, nlen_app; reflexivity).
      unfold last_slash_can_be_removed. rewrite Hrf. replace (ps <=? nlen X0) with true by lia. cbn [andb].
      assert (nskipn (nlen X0) (BsP (segs0 ++ [t])) = 47 :: t ++ [47]) as Hsk.
      { rewrite Bs_snoc, EX0. rewrite <- !app_assoc. rewrite nskipn_app_len. reflexivity. }
      rewrite Hsk.
      assert (path_starts_with_wdl (47 :: t ++ [47]) = false) as Ew.
      { unfold path_starts_with_wdl. cbn [is_path_end]. replace (47 =? 47) with true by reflexivity. cbn [orb andb]. exact Hok. }
      rewrite Ew. cbn [negb].
      assert (nfirstn (nlen (BsP (segs0 ++ [t])) - 1) (BsP (segs0 ++ [t])) = BsP segs0 ++ t) as Hcut.
      { rewrite Bs_snoc. rewrite !nlen_app.
        replace (nlen (BsP segs0) + (nlen t + nlen [47]) - 1) with (nlen (BsP segs0 ++ t)) by (rewrite nlen_app; unfold nlen; cbn [length]; lia).
        rewrite app_assoc. apply nfirstn_app_len. }
      rewrite Hcut.
      assert (is_normalized_wdl t = false) as Htw.
      { destruct (is_normalized_wdl t) eqn:E; [|reflexivity]. rewrite (nwdl_last_is_wdl t E) in Hok. discriminate Hok. }
      assert (Parser.shorten_path STFile ps (BsP segs0 ++ t) = POk (BsP segs0)) as Hsh.
      { unfold Parser.shorten_path, pop_path. rewrite nlen_app.
        replace (nlen (BsP segs0) + nlen t =? ps) with false by lia. cbn [st_is_file andb].
        assert (exists Y, nskipn ps (BsP segs0 ++ t) = Y ++ 47 :: t /\ ps + nlen Y + 1 = nlen (BsP segs0)
                          /\ match Y with [] => True | y :: _ => y = 47 end) as (Y & EY & ELY & HY).
        { unfold Bs. rewrite <- !app_assoc. rewrite nskipn_app_len.
          destruct (rev segs0) as [|t1 r1] eqn:Er0.
          - assert (segs0 = []) as E0 by (rewrite <- (rev_involutive segs0), Er0; reflexivity). rewrite E0.
            exists []. cbn. split; [reflexivity|]. split; [|exact I]. unfold nlen. rewrite !app_length. cbn [length]. lia.
          - assert (segs0 = rev r1 ++ [t1]) as E0 by (rewrite <- (rev_involutive segs0), Er0; reflexivity). rewrite E0.
            rewrite segs_text_snoc. exists ([47] ++ segs_text (rev r1) ++ t1). split.
            + rewrite <- !app_assoc. reflexivity.
            + split; [len_lia | reflexivity]. }
        rewrite EY.
        assert (is_normalized_wdl (Y ++ 47 :: t) = false) as ->.
        { unfold is_normalized_wdl, is_wdl, starts_with_wdl. destruct Y as [|y Y']; cbn [app].
          - replace (is_alpha 47) with false by reflexivity. destruct t as [|t0 t']; [reflexivity|]. rewrite !andb_false_r. reflexivity.
          - subst y. replace (is_alpha 47) with false by reflexivity.
            destruct (Y' ++ 47 :: t) as [|z0 z']; [reflexivity|]. rewrite !andb_false_r. reflexivity. }
        replace (ps <? nlen (BsP segs0) + nlen t) with true by lia.
        rewrite (rfind_app_last 47 Y t) by (rewrite <- no_slash_no_byte; exact Htn).
        rewrite ELY. rewrite nskipn_app_len. rewrite Htw.
        unfold truncate. rewrite nfirstn_app_len. reflexivity. }
      rewrite Hsh. cbn [pbind]. rewrite EX0. rewrite ends_with_byte_snoc. rewrite andb_false_r. rewrite <- EX0.
      rewrite app_nil_r. reflexivity.
  - destruct (is_single_dot cur) eqn:Esd.
    + rewrite Htr, Hends. cbn [fst snd]. rewrite app_nil_r. reflexivity.
    + cbn [st_is_file andb]. rewrite Bs_len_first. rewrite is_wdl_agree. unfold norm_first.
      destruct (is_nil segs && is_windows_drive_letter cur) eqn:Eq.
      * (* a drive letter as the first segment: normalized, has_host cleared (it is false already) *)
        apply andb_true_iff in Eq. destruct Eq as [En Ew]. rewrite En, Ew in Hhq. rewrite !andb_true_r in Hhq. subst hh.
        destruct segs as [|g gs]; [|discriminate En].
        destruct cur as [|a [|b [|c0 r0]]]; try discriminate Ew.
        rewrite Htr. destruct ews; cbn [fst snd].
        -- rewrite app_nil_r, Bs_snoc. reflexivity.
        -- rewrite app_nil_r. reflexivity.
      * unfold s1. destruct ews; cbn [fst snd].
        -- rewrite app_nil_r, Bs_snoc. reflexivity.
        -- rewrite app_nil_r. reflexivity.
Qed.

End FinishExactF.

(* ================= the collapse of the leading slashes on the segment list ================= *)
(* parser.rs:1377 on the list: leading empty segments are dropped (one empty segment is left if nothing else is) *)
Fixpoint strip_f (P : list (list N)) : list (list N) :=
  match P with
  | [] => [[]]
  | s :: r => if is_nil s then strip_f r else P
  end.

Definition flat (P : list (list N)) : list N := flat_map (fun s => 47 :: s) P.

Lemma strip_flat P : forallb no_slash P = true -> 47 :: drop_while is_slash (flat P) = flat (strip_f P).
Proof.
  induction P as [|s r IH]; intros H; [reflexivity|].
  cbn [forallb] in H. apply andb_true_iff in H. destruct H as [Hs Hr].
  unfold flat in *. cbn [strip_f flat_map app drop_while]. replace (is_slash 47) with true by reflexivity.
  destruct s as [|x s']; cbn [is_nil app].
  - exact (IH Hr).
  - cbn [drop_while flat_map app]. unfold no_slash in Hs. cbn [forallb] in Hs. apply andb_true_iff in Hs. destruct Hs as [Hx _].
    unfold is_slash. apply negb_true_iff in Hx. rewrite Hx. reflexivity.
Qed.

Lemma fixup_flat pre P : forallb no_slash P = true ->
  file_path_fixup STFile (nlen pre) (pre ++ flat P) = pre ++ flat (strip_f P).
Proof.
  intros H. unfold file_path_fixup. cbn [st_is_file]. rewrite nskipn_app_len, nfirstn_app_len. f_equal.
  exact (strip_flat P H).
Qed.

(* ================= the path loop, exactly ================= *)
(* (i) no ".." meets a drive-letter-shaped last segment - unless it is the sole segment and a normalized drive letter,
   which neither side pops (fin_ok2) -, (ii) no drive letter becomes the first segment of a URL with a host *)
Definition fin_okf (hh : bool) (P : list (list N)) (B : list N) : bool :=
  fin_ok2 P B && negb (hh && is_nil P && is_windows_drive_letter B).

Fixpoint fpath_ok (hh : bool) (t : list N) (P : list (list N)) (B : list N) : bool :=
  match t with
  | [] => fin_okf hh P B
  | c :: r => if is_sl c then fin_okf hh P B && fpath_ok hh r (fin_f P B true) []
              else if is_qh c then fin_okf hh P B
              else negb (is_nil P && wdl_pref B) && fpath_ok hh r P (B ++ utf8_percent_encode_cp in_path_set c)
  end.

Section LoopExactF.
Variable pre : list N.
Variable dbg : bool.
Notation ps := (nlen pre).
Notation loop := (parse_path_loop dbg CUrlParser STFile ps).
Notation BsP := (Bs pre).
Notation enc pend := (encode T_PATH (utf8_encode (rev pend))).

Lemma push_pending_shape_f segs cur pend : usv_list pend ->
  push_pending CUrlParser STFile (BsP segs ++ cur) pend = BsP segs ++ (cur ++ enc pend).
Proof. intros H. rewrite push_pending_eq_sp by exact H. rewrite <- app_assoc. reflexivity. Qed.

Lemma loop_cons_tnl_f c r ser ss pend hh : is_tnl c = true ->
  loop (c :: r) ser ss pend hh = loop r (push_pending CUrlParser STFile ser pend) ss [] hh.
Proof. intros Ht. cbn [parse_path_loop]. rewrite Ht. reflexivity. Qed.

Lemma loop_cons_sep_f c r ser ss pend hh : is_tnl c = false -> is_sl c = true ->
  loop (c :: r) ser ss pend hh
  = (' (s2, hh') <~ finish_segment dbg STFile ps (push_pending CUrlParser STFile ser pend ++ [47]) ss true hh ;;
     loop r s2 (nlen s2) [] hh').
Proof.
  intros Ht Hs. cbn [parse_path_loop]. rewrite Ht. cbn [ctx_eqb negb st_is_special andb].
  unfold is_sl in Hs. rewrite andb_true_r. rewrite Hs. reflexivity.
Qed.

Lemma loop_end_f l ser ss pend hh :
  match l with [] => True | c :: _ => C02_Parts.is_qh c = true /\ is_tnl c = false end ->
  loop l ser ss pend hh
  = (' (s2, hh') <~ finish_segment dbg STFile ps (push_pending CUrlParser STFile ser pend) ss false hh ;;
     POk (file_path_fixup STFile ps s2, hh', l)).
Proof.
  destruct l as [|c r]; [intros _; reflexivity|]. intros [Hq Ht].
  cbn [parse_path_loop]. rewrite Ht. cbn [ctx_eqb negb st_is_special andb].
  assert ((c =? 47) = false) as Hs by (unfold C02_Parts.is_qh in Hq; lia).
  assert ((c =? 92) = false) as Hb by (unfold C02_Parts.is_qh in Hq; lia).
  rewrite Hs, Hb. cbn [andb orb]. unfold C02_Parts.is_qh in Hq. rewrite Hq. reflexivity.
Qed.

Lemma loop_cons_plain_f c r segs cur pend hh : is_tnl c = false -> is_sl c = false -> C02_Parts.is_qh c = false ->
  (is_nil segs && is_normalized_wdl cur) = false ->
  loop (c :: r) (BsP segs ++ cur) (nlen (BsP segs)) pend hh = loop r (BsP segs ++ cur) (nlen (BsP segs)) (c :: pend) hh.
Proof.
  intros Ht Hs Hq Hn. cbn [parse_path_loop]. rewrite Ht. cbn [ctx_eqb negb st_is_special st_is_file andb].
  unfold is_sl in Hs. rewrite andb_true_r. rewrite Hs. unfold C02_Parts.is_qh in Hq. rewrite Hq. cbn [andb].
  assert (nskipn (ps + 1) (BsP segs ++ cur) = segs_text segs ++ cur) as ->.
  { unfold Bs. rewrite <- !app_assoc. replace (ps + 1) with (nlen (pre ++ [47])) by (rewrite nlen_app; reflexivity).
    rewrite app_assoc. rewrite nskipn_app_len. reflexivity. }
  assert (is_normalized_wdl (segs_text segs ++ cur) = false) as ->.
  { destruct segs as [|s0 sr]; [exact Hn | apply nwdl_segs_text]. }
  rewrite andb_false_r. reflexivity.
Qed.

Theorem loop_exact_f l : forall segs cur pend hh, usv_list l -> pend_ok pend ->
  forallb no_slash segs = true -> no_slash cur = true ->
  fpath_ok hh (ntnl l) segs (cur ++ enc pend) = true ->
  exists segs' last',
    loop l (BsP segs ++ cur) (nlen (BsP segs)) pend hh
    = POk (file_path_fixup STFile ps (BsP segs' ++ last'), hh, cbb_rest l)
    /\ fst (spath_f (ntnl l) segs (cur ++ enc pend)) = segs' ++ [last']
    /\ snd (spath_f (ntnl l) segs (cur ++ enc pend)) = ntnl (cbb_rest l).
Proof.
  assert (forall l0 segs cur pend hh,
            match l0 with [] => True | c :: _ => C02_Parts.is_qh c = true /\ is_tnl c = false end ->
            pend_ok pend -> forallb no_slash segs = true -> no_slash cur = true ->
            fin_okf hh segs (cur ++ enc pend) = true ->
            loop l0 (BsP segs ++ cur) (nlen (BsP segs)) pend hh
            = POk (file_path_fixup STFile ps (BsP (fst (fin_step_f segs (cur ++ enc pend) false)) ++ snd (fin_step_f segs (cur ++ enc pend) false)), hh, l0)) as Hend.
  { intros l0 segs cur pend hh Hl Hp Hsegs Hn Hok. unfold fin_okf in Hok. apply andb_true_iff in Hok. destruct Hok as [Hok Hq].
    apply negb_true_iff in Hq.
    rewrite loop_end_f by exact Hl. rewrite push_pending_shape_f by (destruct Hp; assumption).
    pose proof (finish_exact_f pre dbg segs (cur ++ enc pend) false hh Hsegs Hok Hq) as Hf.
    rewrite app_nil_r in Hf. rewrite Hf. reflexivity. }
  assert (forall r segs cur pend hh, pend_ok pend -> forallb no_slash segs = true -> no_slash cur = true ->
            fin_okf hh segs (cur ++ enc pend) = true ->
            (' (s2, hh') <~ finish_segment dbg STFile ps
                              (push_pending CUrlParser STFile (BsP segs ++ cur) pend ++ [47]) (nlen (BsP segs)) true hh ;;
             loop r s2 (nlen s2) [] hh')
            = loop r (BsP (fin_f segs (cur ++ enc pend) true) ++ []) (nlen (BsP (fin_f segs (cur ++ enc pend) true))) [] hh
              /\ forallb no_slash (fin_f segs (cur ++ enc pend) true) = true) as Hsep.
  { intros r segs cur pend hh Hp Hsegs Hn Hok. unfold fin_okf in Hok. apply andb_true_iff in Hok. destruct Hok as [Hok1 Hq].
    apply negb_true_iff in Hq.
    rewrite push_pending_shape_f by (destruct Hp; assumption).
    assert (no_slash (cur ++ enc pend) = true) as Hn'.
    { rewrite no_slash_app, Hn, (enc_no_slash pend Hp). reflexivity. }
    pose proof (finish_exact_f pre dbg segs (cur ++ enc pend) true hh Hsegs Hok1 Hq) as Hf.
    rewrite <- app_assoc. rewrite Hf. cbn [pbind]. rewrite fin_step_f_sep_last, app_nil_r.
    destruct (fin_step_f_no_slash segs (cur ++ enc pend) true Hsegs Hn') as [Hs1 _].
    rewrite (fin_f_of_step _ _ true). split; [rewrite app_nil_r; reflexivity | exact Hs1]. }
  induction l as [|c r IH]; intros segs cur pend hh Hu Hp Hsegs Hn Hok.
  - cbn [ntnl filter fpath_ok spath_f fst snd cbb_rest] in *.
    eexists. eexists. split; [apply (Hend [] segs cur pend hh I Hp Hsegs Hn Hok)|].
    unfold fin_okf in Hok. apply andb_true_iff in Hok. destruct Hok as [Hok _].
    split; [apply (fin_f_of_step _ _ false) | reflexivity].
  - apply usv_cons in Hu. destruct Hu as [Huc Hur]. cbn [cbb_rest].
    destruct (is_tnl c) eqn:Et.
    + rewrite ntnl_cons_tnl in * by exact Et.
      rewrite loop_cons_tnl_f by exact Et. rewrite push_pending_shape_f by (destruct Hp; assumption).
      assert (pend_ok []) as Hp0 by (split; [constructor | reflexivity]).
      assert (no_slash (cur ++ enc pend) = true) as Hn'.
      { rewrite no_slash_app, Hn, (enc_no_slash pend Hp). reflexivity. }
      assert ((cur ++ enc pend) ++ enc [] = cur ++ enc pend) as E0 by (cbn; apply app_nil_r).
      destruct (IH segs (cur ++ enc pend) [] hh Hur Hp0 Hsegs Hn') as (segs' & last' & G1 & G2 & G3).
      { rewrite E0. exact Hok. }
      rewrite E0 in G2, G3. exists segs', last'. split; [exact G1 | split; assumption].
    + rewrite ntnl_cons in * by exact Et.
      destruct (C02_Parts.is_qh c) eqn:Eq.
      * assert (is_sl c = false) as Esl by (unfold C02_Parts.is_qh in Eq; unfold is_sl; lia).
        cbn [fpath_ok spath_f] in *. rewrite Esl in *. change (is_qh c) with (C02_Parts.is_qh c) in *. rewrite Eq in *.
        cbn [fst snd].
        eexists. eexists. split; [apply (Hend (c :: r) segs cur pend hh (conj Eq Et) Hp Hsegs Hn Hok)|].
        unfold fin_okf in Hok. apply andb_true_iff in Hok. destruct Hok as [Hok _].
        split; [apply (fin_f_of_step _ _ false)|]. rewrite ntnl_cons by exact Et. reflexivity.
      * destruct (is_sl c) eqn:Esl.
        -- cbn [fpath_ok spath_f] in *. rewrite Esl in *.
           apply andb_true_iff in Hok. destruct Hok as [Hok1 Hok2].
           assert (pend_ok []) as Hp0 by (split; [constructor | reflexivity]).
           destruct (Hsep r segs cur pend hh Hp Hsegs Hn Hok1) as [Es Hs1].
           rewrite (loop_cons_sep_f c r _ _ pend hh Et Esl). rewrite Es.
           destruct (IH (fin_f segs (cur ++ enc pend) true) [] [] hh Hur Hp0 Hs1 eq_refl) as (segs' & last' & G1 & G2 & G3).
           { exact Hok2. }
           exists segs', last'. split; [exact G1 | split; assumption].
        -- cbn [fpath_ok spath_f] in *. rewrite Esl in *. change (is_qh c) with (C02_Parts.is_qh c) in *. rewrite Eq in *.
           apply andb_true_iff in Hok. destruct Hok as [Hpref Hok].
           assert ((is_nil segs && is_normalized_wdl cur) = false) as Hnw.
           { apply negb_true_iff in Hpref. destruct (is_nil segs); [|reflexivity]. cbn [andb] in *.
             destruct (is_normalized_wdl cur) eqn:E; [|reflexivity]. rewrite (nwdl_pref cur _ E) in Hpref. discriminate Hpref. }
           rewrite (loop_cons_plain_f c r segs cur pend hh Et Esl Eq Hnw).
           assert (pend_ok (c :: pend)) as Hp'.
           { destruct Hp as [Hp1 Hp2]. split; [apply usv_cons; split; assumption|].
             unfold no_byte in *. cbn [forallb]. unfold is_sl in Esl. apply orb_false_iff in Esl. destruct Esl as [E47 _].
             rewrite E47, Hp2. reflexivity. }
           rewrite <- app_assoc, <- enc_snoc in *.
           exact (IH segs cur (c :: pend) hh Hur Hp' Hsegs Hn Hok).
Qed.

End LoopExactF.
