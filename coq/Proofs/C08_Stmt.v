(* Proofs/C08_Stmt.v - the quantifier of the absolute law.
   C08_absolute_statement2 (all records of Reachable2, the second quantifier of C02) is FALSE: the class F-C07-8 that
   refutes C02_statement (C02_Reach4.statement_refuted) refutes it too - a://:pw@h/p -> quirks::set_host("") gives
   a://:pw@/p inside Reachable2, and that text does not parse (EmptyHost), with or without a base.
   The corrected statement quantifies over Reachable4 (C02_Stmt4: steps outside known_step3) and carries
   host_nonempty, as C02_statement4 does; its proved part is C08_Reach.absolute_reach. *)
From RU Require Import Proofs.C15_Ser.
From Coq Require Import String.
From RU Require Import Base.Prelude Base.Utf8 Base.Utf8Facts Model.AsciiSet Gen.Tables
  Model.PercentEncoding Model.HostT Model.Host Model.UrlRecord Model.Parser Model.Setters Model.WF
  Proofs.ListN Proofs.C02_Reach Proofs.C02_AuthParts Proofs.C02_Hist Proofs.C02_Canon Proofs.C02_ReachPartial
  Proofs.C02_Reach3 Proofs.C02_SetHostCanon Proofs.C02_Reach4 Proofs.C02_Stmt4 Proofs.C09_Host Proofs.C02_HistInst.
Open Scope N_scope.
Open Scope list_scope.

Definition absolute_statement2 : Prop :=
  forall dbg hp hpo hd, HostOK2 hp hpo hd ->
  forall u b, Reachable2 dbg hp hpo hd u -> Reachable2 dbg hp hpo hd b ->
  parse_url dbg hp hpo hd None (Some b) (utf8_lossy (ser u)) = POk u.

Lemma w10_join :
  match parse_url true mhp host_parse_opaque host_display None (Some w10_u0) (utf8_lossy (ser w10_u1)) with
  | PErr EmptyHost => true | _ => false end = true.
Proof. vm_compute. reflexivity. Qed.

Theorem absolute_statement2_refuted : ~ absolute_statement2.
Proof.
  intros H. destruct w10_facts as (E0 & K0 & KS & E1 & K1 & _ & _).
  assert (R0 : Reachable2 true mhp host_parse_opaque host_display w10_u0)
    by (eapply R2_parse; [exact w10_input_usv | exact E0 | exact K0]).
  assert (R1 : Reachable2 true mhp host_parse_opaque host_display w10_u1).
  { eapply R2_step; [exact R0 | | exact KS | exact E1 | exact K1]. constructor. }
  pose proof (H true mhp host_parse_opaque host_display HostOK2_inhabited w10_u1 w10_u0 R1 R0) as F.
  pose proof w10_join as J. rewrite F in J. discriminate J.
Qed.

(* the statement over the corrected quantifier of C02_statement4 *)
Definition absolute_statement4 : Prop :=
  forall dbg hp hpo hd, HostOK2 hp hpo hd -> host_nonempty hp hpo ->
  forall u b, Reachable4 dbg hp hpo hd u -> Reachable4 dbg hp hpo hd b ->
  parse_url dbg hp hpo hd None (Some b) (utf8_lossy (ser u)) = POk u.

