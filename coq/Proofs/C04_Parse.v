(* Proofs/C04_Parse.v - Parser::parse_url never reaches one of its panic sites (pop_path's unwrap, the
   debug_assert of finish_segment, the assert!s of with_query_and_fragment, the panic! of
   parse_query_and_fragment, slice_o) - for inputs without base whose scheme is not special and which
   have no authority ("sch:/path?q#f" and "sch:opaque?q#f").  Built on the path-state invariant of
   Proofs/C02_PathL1.v (finish_inv) and on the evaluation lemmas of C02_Path.v / C02_Opaque.v. *)
From RU Require Import Base.Prelude Base.Utf8 Base.Utf8Facts Model.AsciiSet Gen.Tables
  Model.PercentEncoding Model.HostT Model.UrlRecord Model.Parser Model.WF
  Proofs.ListN Proofs.C14_Set Proofs.C14_Enc Proofs.C14_Views Proofs.C02_Enc Proofs.C02_Parts
  Proofs.C02_Opaque Proofs.C02_Path Proofs.C02_PathL1.

(* ---------- the path loop is total on the canonical shape (totality twin of C02_PathL1.loop_inv) ---------- *)
Section LoopTotal.
Variable pre : list N.
Variable dbg : bool.
Notation ps := (nlen pre).
Notation loop := (parse_path_loop dbg CUrlParser STNotSpecial ps).

Theorem loop_total l : forall segs cur pend hh, usv_list l -> pend_ok pend ->
  forallb good_seg segs = true -> clean T_PATH cur = true -> no_slash cur = true ->
  exists segs' last',
    loop l (Bs pre segs ++ cur) (nlen (Bs pre segs)) pend hh = POk (Bs pre segs' ++ last', hh, cbb_rest l)
    /\ forallb good_seg segs' = true /\ good_seg last' = true.
Proof.
  assert (forall l0 segs cur pend hh,
            match l0 with [] => True | c :: _ => is_qh c = true /\ is_tnl c = false end ->
            pend_ok pend -> forallb good_seg segs = true -> clean T_PATH cur = true -> no_slash cur = true ->
            exists segs' last',
              loop l0 (Bs pre segs ++ cur) (nlen (Bs pre segs)) pend hh = POk (Bs pre segs' ++ last', hh, l0)
              /\ forallb good_seg segs' = true /\ good_seg last' = true) as Hend.
  { intros l0 segs cur pend hh Hl Hp Hsegs Hc Hn.
    rewrite loop_end by exact Hl. rewrite push_pending_shape by (destruct Hp; assumption).
    destruct (pend_flush cur pend Hc Hn Hp) as [Hc' Hn'].
    destruct (finish_inv pre dbg segs (cur ++ encode T_PATH (utf8_encode (rev pend))) false hh Hsegs Hc' Hn')
      as (segs' & last' & Hf & G1 & G2 & _).
    rewrite app_nil_r in Hf. rewrite Hf. cbn [pbind]. exists segs', last'. repeat split; assumption. }
  induction l as [|c r IH]; intros segs cur pend hh Hu Hp Hsegs Hc Hn.
  - exact (Hend [] segs cur pend hh I Hp Hsegs Hc Hn).
  - apply usv_cons in Hu. destruct Hu as [Huc Hur]. cbn [cbb_rest].
    destruct (is_tnl c) eqn:Et.
    + rewrite loop_cons_tnl by exact Et. rewrite push_pending_shape by (destruct Hp; assumption).
      destruct (pend_flush cur pend Hc Hn Hp) as [Hc' Hn'].
      apply (IH segs (cur ++ encode T_PATH (utf8_encode (rev pend))) [] hh Hur); try assumption.
      split; [constructor | reflexivity].
    + destruct (is_qh c) eqn:Eq.
      * apply (Hend (c :: r) segs cur pend hh); try assumption. split; assumption.
      * destruct (c =? 47) eqn:E47.
        -- apply N.eqb_eq in E47. subst c. rewrite loop_cons_slash.
           rewrite push_pending_shape by (destruct Hp; assumption).
           destruct (pend_flush cur pend Hc Hn Hp) as [Hc' Hn'].
           destruct (finish_inv pre dbg segs (cur ++ encode T_PATH (utf8_encode (rev pend))) true hh Hsegs Hc' Hn')
             as (segs' & last' & Hf & G1 & G2 & G3).
           rewrite <- app_assoc. rewrite Hf. cbn [pbind]. rewrite (G3 eq_refl). rewrite app_nil_r.
           destruct (IH segs' [] [] hh Hur (conj (Forall_nil _) eq_refl) G1 eq_refl eq_refl) as (s2 & l2 & HE & HA & HB).
           rewrite app_nil_r in HE. exists s2, l2. repeat split; assumption.
        -- rewrite loop_cons_plain by assumption.
           apply (IH segs cur (c :: pend) hh Hur); try assumption.
           destruct Hp as [Hp1 Hp2]. split; [apply usv_cons; split; assumption|].
           unfold no_byte in *. cbn [forallb]. rewrite E47, Hp2. reflexivity.
Qed.
End LoopTotal.

(* ---------- parse_query_and_fragment: its panic! arm needs a first character other than '?' / '#' ---------- *)
Lemma pqf_no_panic ovr ctx st se ser l :
  match inp_next l with None => True | Some (c, _) => is_qh c = true end ->
  parse_query_and_fragment ovr ctx st se ser l <> PPanic.
Proof.
  unfold parse_query_and_fragment. destruct (inp_next l) as [[c r]|]; [|intros _; discriminate].
  unfold is_qh. intros Hq. unfold to_u32. destruct (c =? 35).
  - destruct (nlen ser <=? U32_MAX_P); cbn [pbind]; discriminate.
  - destruct (c =? 63); [|discriminate].
    destruct (nlen ser <=? U32_MAX_P); cbn [pbind]; try discriminate.
    destruct (parse_query ovr ctx st se (ser ++ [63]) r) as [ser1 [r2|]]; [|discriminate].
    destruct (nlen ser1 <=? U32_MAX_P); cbn [pbind]; discriminate.
Qed.

Lemma cbb_rest_inp_next l : match inp_next (cbb_rest l) with None => True | Some (c, _) => is_qh c = true end.
Proof.
  pose proof (cbb_rest_head l) as H. destruct (cbb_rest l) as [|c r]; [exact I|].
  destruct H as [Hq Ht]. rewrite inp_next_cons by exact Ht. exact Hq.
Qed.

Lemma trim_usv input : usv_list input -> usv_list (input_new_trim_c0 input).
Proof.
  intros Hu. unfold input_new_trim_c0, trim_matches. apply usv_rev.
  destruct (drop_while_spec is_c0_or_space (rev (drop_while is_c0_or_space input))) as (a & Ha & _).
  destruct (drop_while_spec is_c0_or_space input) as (a0 & Ha0 & _).
  rewrite Ha0 in Hu. apply usv_app in Hu. destruct Hu as [_ Hu].
  apply usv_rev in Hu. rewrite Ha in Hu. apply usv_app in Hu. tauto.
Qed.

Lemma to_u32_not_panic n : to_u32 n <> PPanic.
Proof. unfold to_u32. destruct (n <=? U32_MAX_P); discriminate. Qed.

Ltac du32 x v E :=
  destruct (to_u32 x) as [v| |] eqn:E; cbn [pbind];
  [ | discriminate | exfalso; exact (to_u32_not_panic x E) ].

Section NoPanic.
Variable dbg : bool.
Variable hp hpo : list N -> result host.
Variable hd : host -> list N.
Variable ovr : option (list N -> list N).

(* "sch:/path..." *)
Theorem parse_noauth_path_no_panic input sch rem rem' : usv_list input ->
  parse_scheme CUrlParser (input_new_trim_c0 input) = Some (sch, rem) ->
  scheme_type_of sch = STNotSpecial ->
  inp_split_prefix_str s_ss rem = None -> inp_split_prefix_char 47 rem = Some rem' ->
  parse_url dbg hp hpo hd ovr None input <> PPanic.
Proof.
  intros Hu Hs Hns Hss H47. unfold parse_url. rewrite Hs. unfold parse_with_scheme. rewrite Hns.
  du32 (nlen sch) se Eu.
  apply to_u32_inv in Eu. destruct Eu as [-> Hb0].
  destruct (parse_scheme_suffix _ _ _ _ Hs) as [pre0 Hpre].
  assert (usv_list rem) as Hur.
  { pose proof (trim_usv input Hu) as Ht. rewrite Hpre in Ht. apply usv_app in Ht. tauto. }
  assert (usv_list rem') as Hur'.
  { unfold inp_split_prefix_char in H47. destruct (inp_next rem) as [[d r]|] eqn:En; [|discriminate].
    destruct (d =? 47); [|discriminate]. inversion H47; subst. exact (inp_next_usv rem d rem' Hur En). }
  unfold parse_non_special. rewrite Hss, H47.
  du32 (nlen (sch ++ [58])) ps Eu.
  apply to_u32_inv in Eu. destruct Eu as [-> Hb1].
  unfold parse_path.
  assert ((sch ++ [58]) ++ [47] = Bs (sch ++ [58]) [] ++ []) as EB by (unfold Bs; cbn; rewrite !app_nil_r; reflexivity).
  rewrite EB. rewrite app_nil_r at 2.
  destruct (loop_total (sch ++ [58]) dbg rem' [] [] [] false Hur') as (segs & last & El & Hsegs & Hlast);
    try reflexivity; [split; [constructor | reflexivity]|].
  rewrite El. cbn [pbind].
  assert (Bs (sch ++ [58]) segs ++ last = (sch ++ [58]) ++ path_text segs last) as ET.
  { unfold Bs, path_text. rewrite <- !app_assoc. reflexivity. }
  rewrite ET. rewrite (wqf_noauth_eq hp hpo ovr sch (path_text segs last) (cbb_rest rem') eq_refl). cbv zeta.
  pose proof (pqf_no_panic ovr CUrlParser STNotSpecial (nlen sch) (noauth_pre sch (path_text segs last))
                (cbb_rest rem') (cbb_rest_inp_next rem')) as Hq.
  destruct (parse_query_and_fragment ovr CUrlParser STNotSpecial (nlen sch) (noauth_pre sch (path_text segs last)) (cbb_rest rem'))
    as [[[s2 qs] fs]| |]; cbn [pbind]; try discriminate. exfalso. apply Hq. reflexivity.
Qed.

(* "sch:opaque..." *)
Theorem parse_opaque_no_panic input sch rem : usv_list input ->
  parse_scheme CUrlParser (input_new_trim_c0 input) = Some (sch, rem) ->
  scheme_type_of sch = STNotSpecial -> inp_split_prefix_char 47 rem = None ->
  parse_url dbg hp hpo hd ovr None input <> PPanic.
Proof.
  intros Hu Hs Hns H47. unfold parse_url. rewrite Hs. unfold parse_with_scheme. rewrite Hns.
  du32 (nlen sch) se Eu.
  apply to_u32_inv in Eu. destruct Eu as [-> Hb0].
  destruct (parse_scheme_suffix _ _ _ _ Hs) as [pre Hpre].
  assert (usv_list rem) as Hur.
  { pose proof (trim_usv input Hu) as Ht. rewrite Hpre in Ht. apply usv_app in Ht. tauto. }
  rewrite pns_opaque_eval by assumption.
  du32 (nlen (sch ++ [58])) ps Eu.
  pose proof (pqf_no_panic ovr CUrlParser STNotSpecial (nlen sch) (opaque_pre sch (opaque_of rem))
                (cbb_rest rem) (cbb_rest_inp_next rem)) as Hq.
  destruct (parse_query_and_fragment ovr CUrlParser STNotSpecial (nlen sch) (opaque_pre sch (opaque_of rem)) (cbb_rest rem))
    as [[[s2 qs] fs]| |]; cbn [pbind]; try discriminate. exfalso. apply Hq. reflexivity.
Qed.

(* the two classes together: a non-special scheme, no base, no "//" after the scheme *)
Theorem parse_noauth_no_panic input sch rem : usv_list input ->
  parse_scheme CUrlParser (input_new_trim_c0 input) = Some (sch, rem) ->
  scheme_type_of sch = STNotSpecial -> inp_split_prefix_str s_ss rem = None ->
  parse_url dbg hp hpo hd ovr None input <> PPanic.
Proof.
  intros Hu Hs Hns Hss. destruct (inp_split_prefix_char 47 rem) as [rem'|] eqn:H47.
  - exact (parse_noauth_path_no_panic input sch rem rem' Hu Hs Hns Hss H47).
  - exact (parse_opaque_no_panic input sch rem Hu Hs Hns H47).
Qed.

(* without a scheme and without a base the parser returns RelativeUrlWithoutBase *)
Theorem parse_no_scheme_no_panic input :
  parse_scheme CUrlParser (input_new_trim_c0 input) = None ->
  parse_url dbg hp hpo hd ovr None input = PErr RelativeUrlWithoutBase.
Proof. intros H. unfold parse_url. rewrite H. reflexivity. Qed.

End NoPanic.

(* ---------- the authority states: parse_userinfo's `next_utf8().unwrap()` and parse_host_and_port ---------- *)
(* number of characters the skipping iterator yields *)
Fixpoint ntnl (l : list N) : N :=
  match l with [] => 0 | c :: r => if is_tnl c then ntnl r else 1 + ntnl r end.

(* the first pass returns a count that the second pass can consume *)
Lemma scan_last_at_count special l : forall count last n rem,
  scan_last_at special l count last = Some (n, rem) ->
  last = Some (n, rem) \/ (count <= n /\ n - count < ntnl l).
Proof.
  induction l as [|c r IH]; intros count last n rem H; cbn [scan_last_at ntnl] in *.
  - left. exact H.
  - destruct (is_tnl c).
    + destruct (IH _ _ _ _ H) as [G|G]; [left; exact G | right; exact G].
    + destruct (c =? 64).
      * destruct (IH _ _ _ _ H) as [G|G].
        -- inversion G; subst. right. lia.
        -- right. lia.
      * destruct ((c =? 47) || (c =? 63) || (c =? 35) || (c =? 92) && special).
        -- left. exact H.
        -- destruct (IH _ _ _ _ H) as [G|G]; [left; exact G | right; lia].
Qed.

Lemma userinfo_loop_no_panic l : forall n ser uend hpw hun, n <= ntnl l ->
  userinfo_loop l n ser uend hpw hun <> PPanic.
Proof.
  induction l as [|c r IH]; intros n ser uend hpw hun Hn.
  - cbn [ntnl] in Hn. assert (n = 0) as -> by lia. cbn. discriminate.
  - cbn [userinfo_loop]. destruct (n =? 0) eqn:E0; [discriminate|].
    cbn [ntnl] in Hn. destruct (is_tnl c); [apply IH; exact Hn|].
    assert (n - 1 <= ntnl r) as Hn' by lia.
    destruct ((c =? 58) && match uend with None => true | Some _ => false end).
    + unfold to_u32. destruct (nlen ser <=? U32_MAX_P); cbn [pbind]; [|discriminate].
      destruct (0 <? n - 1); apply IH; exact Hn'.
    + apply IH. exact Hn'.
Qed.

Theorem parse_userinfo_no_panic st ser l : parse_userinfo st ser l <> PPanic.
Proof.
  unfold parse_userinfo. destruct (scan_last_at (st_is_special st) l 0 None) as [[n rem]|] eqn:Es.
  - destruct n as [|p].
    + destruct (inp_next rem) as [[c r]|]; [|discriminate].
      destruct ((c =? 47) || (c =? 63) || (c =? 35) || st_is_special st && (c =? 92)); [discriminate|].
      unfold to_u32. destruct (nlen ser <=? U32_MAX_P); cbn [pbind]; discriminate.
    + destruct (scan_last_at_count _ _ _ _ _ _ Es) as [G|[_ G]]; [discriminate|].
      pose proof (userinfo_loop_no_panic l (N.pos p) ser None false false ltac:(lia)) as Hu.
      destruct (userinfo_loop l (N.pos p) ser None false false) as [[[[ser1 uend] hpw] hun]| |]; cbn [pbind];
        [|discriminate|congruence].
      destruct uend as [i|]; cbn [pbind]; [discriminate|].
      unfold to_u32. destruct (nlen ser1 <=? U32_MAX_P); cbn [pbind]; discriminate.
  - unfold to_u32. destruct (nlen ser <=? U32_MAX_P); cbn [pbind]; discriminate.
Qed.

Lemma parse_port_loop_no_panic ctx l : forall port any, parse_port_loop ctx l port any <> PPanic.
Proof.
  induction l as [|c r IH]; intros port any; cbn [parse_port_loop]; [discriminate|].
  destruct (is_tnl c); [apply IH|]. destruct (is_digit c).
  - destruct (65535 <? port * 10 + (c - 48)); [discriminate | apply IH].
  - destruct (ctx_eqb ctx CUrlParser && negb (is_path_end c)); discriminate.
Qed.

Section HostPort.
Variable hp hpo : list N -> result host.
Variable hd : host -> list N.

Theorem parse_host_and_port_no_panic ctx st se ser l :
  parse_host_and_port hp hpo hd ctx st se ser l <> PPanic.
Proof.
  unfold parse_host_and_port.
  assert (parse_host hp hpo st l <> PPanic) as Hh.
  { unfold parse_host. destruct (st_is_file st).
    - unfold get_file_host. destruct (file_host l) as [h rem]. destruct (hp h); cbn; discriminate.
    - destruct (host_scan (st_is_special st) false [] l) as [h rem].
      destruct (scheme_type_eqb st STSpecialNotFile && match h with [] => true | _ => false end); [discriminate|].
      destruct (negb (st_is_special st)); [destruct (hpo h) | destruct (hp h)]; cbn; discriminate. }
  destruct (parse_host hp hpo st l) as [[host remaining]| |]; cbn [pbind]; [|discriminate|congruence].
  unfold to_u32. destruct (nlen (ser ++ hd host) <=? U32_MAX_P); cbn [pbind]; [|discriminate].
  match goal with |- pbind ?x _ <> _ => destruct x as [[]| |] eqn:Ex end; cbn [pbind]; try discriminate.
  - destruct (inp_split_prefix_char 58 remaining) as [rem|]; [|discriminate].
    unfold parse_port. pose proof (parse_port_loop_no_panic ctx rem 0 false) as Hp.
    destruct (parse_port_loop ctx rem 0 false) as [[[p any] rem2]| |]; cbn [pbind]; [|discriminate|congruence].
    destruct (negb any && ctx_eqb ctx CSetter && negb (inp_is_empty rem2)); cbn [pbind]; discriminate.
  - exfalso. destruct host as [[|d0 d]| |]; try discriminate Ex.
    destruct (inp_starts_with_char 58 remaining); [discriminate Ex|]. destruct (st_is_special st); discriminate Ex.
Qed.
End HostPort.
